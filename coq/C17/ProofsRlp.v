(* C17 - the signing payload determines the signed fields and the network id. *)
From VF.C17 Require Import Model.
From Coq Require Import Lia ZifyBool ZifyN ZifyNat.
Local Open Scope N_scope.

(* ---- big-endian numbers --------------------------------------------------- *)
Lemma of_be_acc_app : forall l acc b, of_be_acc acc (l ++ [b]) = of_be_acc acc l * 256 + b.
Proof.
  induction l as [|x l IH]; intros acc b; cbn [app of_be_acc].
  - reflexivity.
  - apply IH.
Qed.

Lemma of_be_snoc : forall l b, of_be (l ++ [b]) = of_be l * 256 + b.
Proof. intros. unfold of_be. apply of_be_acc_app. Qed.

Lemma pow2_S : forall f : nat, 2 ^ N.of_nat (S f) = 2 * 2 ^ N.of_nat f.
Proof. intros f. rewrite Nnat.Nat2N.inj_succ, N.pow_succ_r'. reflexivity. Qed.

Lemma of_be_le_bytes : forall f n, n < 2 ^ N.of_nat f -> of_be (rev (le_bytes f n)) = n.
Proof.
  induction f as [|f IH]; intros n Hn.
  - cbn in Hn. assert (n = 0) by lia. subst. reflexivity.
  - cbn [le_bytes]. destruct (n =? 0) eqn:E0.
    + apply N.eqb_eq in E0. subst. reflexivity.
    + cbn [rev]. rewrite of_be_snoc. rewrite IH.
      * pose proof (N.div_mod n 256). lia.
      * rewrite pow2_S in Hn.
        apply N.div_lt_upper_bound; [lia|].
        assert (0 < 2 ^ N.of_nat f) by (apply N.neq_0_lt_0, N.pow_nonzero; lia). lia.
Qed.

Lemma of_be_to_be : forall n, of_be (to_be n) = n.
Proof.
  intros n. unfold to_be. apply of_be_le_bytes.
  rewrite N2Nat.id. apply N.size_gt.
Qed.

Lemma to_be_inj : forall a b, to_be a = to_be b -> a = b.
Proof. intros a b E. rewrite <- (of_be_to_be a), <- (of_be_to_be b), E. reflexivity. Qed.

Lemma to_be_nonempty : forall n, 0 < n -> to_be n <> [].
Proof. intros n Hn E. pose proof (of_be_to_be n) as H. rewrite E in H. cbn in H. lia. Qed.

Lemma le_fixed_length : forall w n, length (le_fixed w n) = w.
Proof. induction w; intros; cbn [le_fixed length]; [reflexivity | rewrite IHw; reflexivity]. Qed.

Lemma of_be_le_fixed : forall w n, n < 256 ^ N.of_nat w -> of_be (rev (le_fixed w n)) = n.
Proof.
  induction w as [|w IH]; intros n Hn.
  - cbn in Hn. assert (n = 0) by lia. subst. reflexivity.
  - cbn [le_fixed rev]. rewrite of_be_snoc. rewrite IH.
    + pose proof (N.div_mod n 256). lia.
    + rewrite Nnat.Nat2N.inj_succ, N.pow_succ_r' in Hn.
      apply N.div_lt_upper_bound; [lia|exact Hn].
Qed.

Lemma be_fixed_inj : forall w a b,
  a < 256 ^ N.of_nat w -> b < 256 ^ N.of_nat w -> be_fixed w a = be_fixed w b -> a = b.
Proof.
  intros w a b Ha Hb E. unfold be_fixed in E.
  rewrite <- (of_be_le_fixed w a Ha), <- (of_be_le_fixed w b Hb), E. reflexivity.
Qed.

Lemma be_fixed_length : forall w n, length (be_fixed w n) = w.
Proof. intros. unfold be_fixed. rewrite rev_length. apply le_fixed_length. Qed.

(* ---- a decoder for one string, used only to show unique readability ------- *)
Definition dec_str (l : bytes) : option (bytes * bytes) :=
  match l with
  | [] => None
  | h :: t =>
    if h <? 128 then Some ([h], t)
    else if h <? 184 then Some (firstn (N.to_nat (h - 128)) t, skipn (N.to_nat (h - 128)) t)
    else
      let ll := N.to_nat (h - 183) in
      let n := N.to_nat (of_be (firstn ll t)) in
      Some (firstn n (skipn ll t), skipn n (skipn ll t))
  end.

Lemma firstn_len_app : forall (A : Type) (a b : list A), firstn (length a) (a ++ b) = a.
Proof.
  intros. rewrite firstn_app, Nat.sub_diag, firstn_all. cbn. apply app_nil_r.
Qed.
Lemma skipn_len_app : forall (A : Type) (a b : list A), skipn (length a) (a ++ b) = b.
Proof.
  intros. rewrite skipn_app, Nat.sub_diag, skipn_all. reflexivity.
Qed.

Lemma len_nat : forall (A : Type) (l : list A), N.to_nat (len l) = length l.
Proof. intros. unfold len. apply Nnat.Nat2N.id. Qed.

(* the general (non single small byte) form of enc_str *)
Lemma dec_head_body : forall b rest,
  dec_str (enc_head 128 (len b) ++ b ++ rest) = Some (b, rest).
Proof.
  intros b rest. unfold enc_head.
  destruct (len b <? 56) eqn:E56.
  - cbn [app dec_str].
    replace (128 + len b <? 128) with false by lia.
    replace (128 + len b <? 184) with true by lia.
    replace (128 + len b - 128) with (len b) by lia.
    rewrite len_nat, firstn_len_app, skipn_len_app. reflexivity.
  - set (lb := to_be (len b)).
    assert (Hne : lb <> []) by (apply to_be_nonempty; lia).
    assert (Hl : 0 < len lb) by (unfold len; destruct lb; [congruence | cbn; lia]).
    cbn [app dec_str].
    replace (128 + 55 + len lb <? 128) with false by lia.
    replace (128 + 55 + len lb <? 184) with false by lia.
    replace (128 + 55 + len lb - 183) with (len lb) by lia.
    cbv zeta. rewrite len_nat, firstn_len_app, skipn_len_app.
    unfold lb. rewrite of_be_to_be, len_nat, firstn_len_app, skipn_len_app. reflexivity.
Qed.

Lemma dec_enc_str : forall b rest, dec_str (enc_str b ++ rest) = Some (b, rest).
Proof.
  intros b rest. destruct b as [|x [|y b']].
  - cbn [enc_str]. rewrite <- app_assoc. apply (dec_head_body [] rest).
  - cbn [enc_str]. destruct (x <? 128) eqn:Ex.
    + cbn [app dec_str]. rewrite Ex. reflexivity.
    + rewrite <- app_assoc. apply (dec_head_body [x] rest).
  - cbn [enc_str]. rewrite <- app_assoc. apply (dec_head_body (x :: y :: b') rest).
Qed.

Lemma enc_str_app_inj : forall a b r r',
  enc_str a ++ r = enc_str b ++ r' -> a = b /\ r = r'.
Proof.
  intros a b r r' E.
  pose proof (dec_enc_str a r) as Ha. rewrite E, dec_enc_str in Ha.
  inversion Ha. split; reflexivity.
Qed.

(* the list header can be stripped without knowing the length *)
Definition strip_head (l : bytes) : bytes :=
  match l with
  | [] => []
  | h :: t => if h <? 248 then t else skipn (N.to_nat (h - 247)) t
  end.

Lemma strip_enc_head : forall n p, strip_head (enc_head 192 n ++ p) = p.
Proof.
  intros n p. unfold enc_head. destruct (n <? 56) eqn:E56.
  - cbn [app strip_head]. replace (192 + n <? 248) with true by lia. reflexivity.
  - set (lb := to_be n).
    assert (Hne : lb <> []) by (apply to_be_nonempty; lia).
    assert (Hl : 0 < len lb) by (unfold len; destruct lb; [congruence | cbn; lia]).
    cbn [app strip_head].
    replace (192 + 55 + len lb <? 248) with false by lia.
    replace (192 + 55 + len lb - 247) with (len lb) by lia.
    rewrite len_nat. apply skipn_len_app.
Qed.

(* ---- the payload ----------------------------------------------------------- *)
Definition to_bytes (o : option N) : bytes :=
  match o with None => [] | Some a => be_fixed 20 a end.

Lemma enc_to_str : forall o, enc_to o = enc_str (to_bytes o).
Proof. destruct o; reflexivity. Qed.

Definition to_ok (o : option N) : Prop :=
  match o with None => True | Some a => a < 2 ^ 160 end.

Lemma to_bytes_inj : forall a b, to_ok a -> to_ok b -> to_bytes a = to_bytes b -> a = b.
Proof.
  intros [a|] [b|] Ha Hb E; cbn [to_bytes to_ok] in *.
  - f_equal. apply (be_fixed_inj 20); try exact E.
    + change (256 ^ N.of_nat 20) with (2 ^ 160). exact Ha.
    + change (256 ^ N.of_nat 20) with (2 ^ 160). exact Hb.
  - apply (f_equal (@length N)) in E. rewrite be_fixed_length in E. discriminate.
  - apply (f_equal (@length N)) in E. rewrite be_fixed_length in E. discriminate.
  - reflexivity.
Qed.

(* the six signed fields *)
Definition same_signed_fields (t t' : tx) : Prop :=
  t_nonce t = t_nonce t' /\ t_price t = t_price t' /\ t_gas t = t_gas t' /\
  t_to t = t_to t' /\ t_value t = t_value t' /\ t_data t = t_data t'.

Theorem payload_injective : forall net net' t t',
  to_ok (t_to t) -> to_ok (t_to t') ->
  sign_payload net t = sign_payload net' t' ->
  same_signed_fields t t' /\ net = net'.
Proof.
  intros net net' t t' Hto Hto' E.
  unfold sign_payload in E. cbv zeta in E.
  apply (f_equal strip_head) in E. rewrite !strip_enc_head in E.
  unfold sign_fields in E. cbn [concat] in E. rewrite !enc_to_str in E.
  apply enc_str_app_inj in E. destruct E as [E1 E].
  apply enc_str_app_inj in E. destruct E as [E2 E].
  apply enc_str_app_inj in E. destruct E as [E3 E].
  apply enc_str_app_inj in E. destruct E as [E4 E].
  apply enc_str_app_inj in E. destruct E as [E5 E].
  apply enc_str_app_inj in E. destruct E as [E6 E].
  apply enc_str_app_inj in E. destruct E as [E7 _].
  apply to_be_inj in E1, E2, E3, E5, E7.
  apply to_bytes_inj in E4; [|assumption|assumption].
  unfold same_signed_fields. repeat split; assumption.
Qed.

(* equal signing hashes: equal fields and network, or a collision is in hand *)
Definition collision (H : bytes -> N) : Prop := exists x y, x <> y /\ H x = H y.

Theorem hash_binds_fields : forall (H : bytes -> N) net net' t t',
  to_ok (t_to t) -> to_ok (t_to t') ->
  H (sign_payload net t) = H (sign_payload net' t') ->
  (same_signed_fields t t' /\ net = net') \/ collision H.
Proof.
  intros H net net' t t' Hto Hto' E.
  destruct (list_eq_dec N.eq_dec (sign_payload net t) (sign_payload net' t')) as [Ep|Np].
  - left. apply payload_injective; assumption.
  - right. exists (sign_payload net t), (sign_payload net' t'). split; assumption.
Qed.
