(* C17 - what an accepted sender implies about V, r, s and the network id;
   signed transactions are attributed to the key holder; field mutations. *)
From VF.C17 Require Import Model ProofsRlp.
From Coq Require Import Lia ZifyBool ZifyN ZifyNat.
Local Open Scope N_scope.

Lemma bitlen_small : forall a, (8 <? bitlen a) = false -> a < 256.
Proof.
  intros a H. unfold bitlen in H. apply N.ltb_ge in H.
  pose proof (N.size_gt a) as G.
  assert (2 ^ N.size a <= 2 ^ 8) by (apply N.pow_le_mono_r; lia).
  change (2 ^ 8) with 256 in *. lia.
Qed.

Lemma small_bitlen : forall a, a < 256 -> (8 <? bitlen a) = false.
Proof.
  intros a H. unfold bitlen. apply N.ltb_ge.
  destruct (N.le_gt_cases (N.size a) 8) as [L|G]; [exact L|exfalso].
  pose proof (N.size_le a) as S.
  assert (2 ^ 9 <= 2 ^ N.size a) by (apply N.pow_le_mono_r; lia).
  change (2 ^ 9) with 512 in *.
  rewrite N.succ_double_spec in S. lia.
Qed.

Lemma bitlen64_small : forall a, (bitlen a <=? 64) = true -> a < two64.
Proof.
  intros a H. unfold bitlen in H. apply N.leb_le in H.
  pose proof (N.size_gt a) as G.
  assert (2 ^ N.size a <= 2 ^ 64) by (apply N.pow_le_mono_r; lia).
  change (2 ^ 64) with two64 in *. lia.
Qed.

Lemma bitlen64_big : forall a, (bitlen a <=? 64) = false -> two64 <= a.
Proof.
  intros a H. unfold bitlen in H. apply N.leb_gt in H.
  pose proof (N.size_le a) as S. rewrite N.succ_double_spec in S.
  assert (2 ^ 65 <= 2 ^ N.size a) by (apply N.pow_le_mono_r; lia).
  change (2 ^ 65) with (2 * two64) in *. lia.
Qed.

(* the recovery bit a transaction carries for network [net] *)
Definition vbit (net : N) (t : tx) : N := t_v t - 35 - 2 * net.

Definition sig_in_range (t : tx) : Prop :=
  1 <= t_r t /\ t_r t < secpN /\ 1 <= t_s t /\ t_s t <= halfN.

(* everything an accepted sender implies *)
Lemma sender_ok_inv : forall H recover net t a,
  sender H recover net t = SOk a ->
  (t_v t = 35 + 2 * net \/ t_v t = 36 + 2 * net) /\
  sig_in_range t /\
  recover (H (sign_payload net t)) (t_r t) (t_s t) (vbit net t) = Some a.
Proof.
  intros H recover net t a S. unfold sender in S.
  destruct (negb (is_protected (t_v t))) eqn:Ep; [discriminate|].
  destruct (negb (derive_net (t_v t) =? net)) eqn:En; [discriminate|].
  unfold recover_plain in S. cbv zeta in S.
  destruct (8 <? bitlen (Z.abs_N (Z.of_N (t_v t) - Z.of_N (2 * net) - 8))) eqn:Eb; [discriminate|].
  apply bitlen_small in Eb.
  set (ab := Z.abs_N (Z.of_N (t_v t) - Z.of_N (2 * net) - 8)) in *.
  destruct (negb (validate_sig ((ab mod two64 + two64 - 27) mod two64 mod 256) (t_r t) (t_s t))) eqn:Ev;
    [discriminate|].
  destruct (recover (H (sign_payload net t)) (t_r t) (t_s t)
                    ((ab mod two64 + two64 - 27) mod two64 mod 256)) as [ad|] eqn:Er; [|discriminate].
  injection S as <-.
  apply negb_false_iff in Ev. unfold validate_sig in Ev.
  destruct ((t_r t <? 1) || (t_s t <? 1)) eqn:E1; [discriminate|].
  destruct (halfN <? t_s t) eqn:E2; [discriminate|].
  apply negb_false_iff, N.eqb_eq in En.
  apply negb_false_iff in Ep.
  (* V is one of the two values the signer produces *)
  assert (HV : t_v t = 35 + 2 * net \/ t_v t = 36 + 2 * net).
  { unfold derive_net in En. unfold is_protected in Ep.
    destruct (bitlen (t_v t) <=? 64) eqn:E64.
    - apply bitlen64_small in E64.
      destruct ((t_v t =? 27) || (t_v t =? 28)) eqn:E27.
      + exfalso. destruct (bitlen (t_v t) <=? 8) eqn:E8.
        * lia.
        * unfold bitlen in E8. apply N.leb_gt in E8.
          pose proof (N.size_le (t_v t)) as SL. rewrite N.succ_double_spec in SL.
          assert (2 ^ 9 <= 2 ^ N.size (t_v t)) by (apply N.pow_le_mono_r; lia).
          change (2 ^ 9) with 512 in *. lia.
      + destruct (N.lt_ge_cases (t_v t) 35) as [Lt|Ge].
        * (* the uint64 wrap: V - 2 net - 8 is about -2^64, BitLen > 8 *)
          exfalso.
          unfold two64 in *.
          rewrite N.mod_small in En by lia.
          pose proof (N.div_mod (t_v t + 18446744073709551616 - 35) 2) as DM.
          pose proof (N.mod_lt (t_v t + 18446744073709551616 - 35) 2) as ML.
          subst ab. lia.
        * unfold two64 in *.
          replace ((t_v t + 18446744073709551616 - 35) mod 18446744073709551616)
            with (t_v t - 35) in En.
          -- pose proof (N.div_mod (t_v t - 35) 2) as DM.
             pose proof (N.mod_lt (t_v t - 35) 2) as ML. lia.
          -- replace (t_v t + 18446744073709551616 - 35)
               with ((t_v t - 35) + 1 * 18446744073709551616) by lia.
             rewrite N.mod_add by lia. rewrite N.mod_small by lia. reflexivity.
    - apply bitlen64_big in E64. unfold two64 in E64.
      pose proof (N.div_mod (t_v t - 35) 2) as DM.
      pose proof (N.mod_lt (t_v t - 35) 2) as ML. lia. }
  assert (Hab : ab = 27 + vbit net t /\ vbit net t <= 1).
  { unfold vbit. subst ab. destruct HV as [HV|HV]; rewrite HV; lia. }
  destruct Hab as [Hab Hvb].
  assert (Hvv : (ab mod two64 + two64 - 27) mod two64 mod 256 = vbit net t).
  { rewrite Hab. unfold two64.
    rewrite (N.mod_small (27 + vbit net t)) by lia.
    replace (27 + vbit net t + 18446744073709551616 - 27)
      with (vbit net t + 1 * 18446744073709551616) by lia.
    rewrite N.mod_add by lia. rewrite N.mod_small by lia. rewrite N.mod_small by lia. reflexivity. }
  rewrite Hvv in Er.
  split; [exact HV|]. split; [|exact Er].
  unfold sig_in_range. lia.
Qed.

(* ---- range corollaries ------------------------------------------------------ *)
Lemma high_s_rejected : forall H recover net t a,
  halfN < t_s t -> sender H recover net t <> SOk a.
Proof.
  intros H recover net t a Hs S. apply sender_ok_inv in S.
  destruct S as (_ & R & _). unfold sig_in_range in R. lia.
Qed.

Lemma rs_out_of_range_rejected : forall H recover net t a,
  t_r t = 0 \/ t_s t = 0 \/ secpN <= t_r t \/ secpN <= t_s t ->
  sender H recover net t <> SOk a.
Proof.
  intros H recover net t a Hr S. apply sender_ok_inv in S.
  destruct S as (_ & R & _). unfold sig_in_range, halfN, secpN in *. lia.
Qed.

Lemma bad_v_rejected : forall H recover net t a,
  t_v t <> 35 + 2 * net -> t_v t <> 36 + 2 * net -> sender H recover net t <> SOk a.
Proof.
  intros H recover net t a H1 H2 S. apply sender_ok_inv in S. destruct S as ([E|E] & _); congruence.
Qed.

(* V is an unbounded number in the model (t_v : N, any size, as on the wire):
   acceptance pins it to the two values exactly, as integers - no modulus, so
   V + k*2^64, V + k*2^65 ... are all rejected *)
Lemma v_exact : forall H recover net t a,
  sender H recover net t = SOk a -> t_v t = 35 + 2 * net \/ t_v t = 36 + 2 * net.
Proof. intros H recover net t a S. apply sender_ok_inv in S. tauto. Qed.

Lemma v_twin_rejected : forall H recover net t a d,
  d <> 0 -> (t_v t = 35 + 2 * net + d \/ t_v t = 36 + 2 * net + d) -> 2 <= d ->
  sender H recover net t <> SOk a.
Proof.
  intros H recover net t a d Hd Hv H2 S. apply v_exact in S. lia.
Qed.

(* a transaction accepted under [net] is accepted under no other network id *)
Lemma one_network : forall H recover net net' t a a',
  sender H recover net t = SOk a -> sender H recover net' t = SOk a' -> net = net'.
Proof.
  intros H recover net net' t a a' S S'.
  apply sender_ok_inv in S. apply sender_ok_inv in S'.
  destruct S as (V & _). destruct S' as (V' & _). lia.
Qed.

(* ---- signing ---------------------------------------------------------------- *)
Section Signing.
  Variable H : bytes -> N.
  Variable recover : N -> N -> N -> N -> option N.
  Variable sign : N -> N -> N * N * N.       (* key -> hash -> (r, s, recovery bit) *)
  Variable addr_of : N -> N.                 (* key -> address of its public key *)

  (* what crypto.Sign / secp256k1 promise: low-s signatures in range that
     recover to the signer *)
  Hypothesis sign_sound : forall k h,
    let '(r, s, v) := sign k h in
    v <= 1 /\ 1 <= r /\ r < secpN /\ 1 <= s /\ s <= halfN /\
    recover h r s v = Some (addr_of k).

  Lemma sign_payload_sig_irrelevant : forall net t v r s,
    sign_payload net (mkTx (t_nonce t) (t_price t) (t_gas t) (t_to t) (t_value t) (t_data t) v r s)
    = sign_payload net t.
  Proof. reflexivity. Qed.

  Lemma derive_net_signed : forall net v, v <= 1 -> derive_net (v + 35 + 2 * net) = net.
  Proof.
    intros net v Hv. unfold derive_net.
    destruct (bitlen (v + 35 + 2 * net) <=? 64) eqn:E64.
    - apply bitlen64_small in E64.
      replace ((v + 35 + 2 * net =? 27) || (v + 35 + 2 * net =? 28)) with false by lia.
      unfold two64 in *.
      replace (v + 35 + 2 * net + 18446744073709551616 - 35)
        with ((v + 2 * net) + 1 * 18446744073709551616) by lia.
      rewrite N.mod_add by lia. rewrite N.mod_small by lia.
      pose proof (N.div_mod (v + 2 * net) 2) as DM.
      pose proof (N.mod_lt (v + 2 * net) 2) as ML. lia.
    - pose proof (N.div_mod (v + 35 + 2 * net - 35) 2) as DM.
      pose proof (N.mod_lt (v + 35 + 2 * net - 35) 2) as ML. lia.
  Qed.

  Lemma protected_signed : forall net v, is_protected (v + 35 + 2 * net) = true.
  Proof.
    intros. unfold is_protected. destruct (bitlen (v + 35 + 2 * net) <=? 8); [|reflexivity]. lia.
  Qed.

  Theorem signed_sender : forall net k t,
    net <> 0 ->
    exists t', sign_tx H sign net k t = Some t' /\
               same_signed_fields t t' /\
               sender H recover net t' = SOk (addr_of k).
  Proof.
    intros net k t Hnet. unfold sign_tx.
    replace (net =? 0) with false by lia.
    pose proof (sign_sound k (H (sign_payload net t))) as SS.
    destruct (sign k (H (sign_payload net t))) as [[r s] v].
    destruct SS as (Hv & Hr1 & Hr2 & Hs1 & Hs2 & Hrec).
    eexists. split; [reflexivity|]. split.
    - unfold same_signed_fields. cbn. repeat split; reflexivity.
    - unfold sender. cbn [t_v t_r t_s].
      rewrite protected_signed. cbn [negb].
      rewrite derive_net_signed by exact Hv. rewrite N.eqb_refl. cbn [negb].
      rewrite sign_payload_sig_irrelevant.
      unfold recover_plain. cbv zeta.
      replace (Z.abs_N (Z.of_N (v + 35 + 2 * net) - Z.of_N (2 * net) - 8)) with (27 + v) by lia.
      rewrite small_bitlen by lia.
      assert (Hvv : ((27 + v) mod two64 + two64 - 27) mod two64 mod 256 = v).
      { unfold two64. rewrite (N.mod_small (27 + v)) by lia.
        replace (27 + v + 18446744073709551616 - 27) with (v + 1 * 18446744073709551616) by lia.
        rewrite N.mod_add by lia. rewrite N.mod_small by lia. rewrite N.mod_small by lia. reflexivity. }
      rewrite Hvv.
      assert (Hval : validate_sig v r s = true).
      { unfold validate_sig.
        replace ((r <? 1) || (s <? 1)) with false by lia.
        replace (halfN <? s) with false by lia.
        unfold halfN, secpN in *. lia. }
      rewrite Hval. cbn [negb]. rewrite Hrec. reflexivity.
  Qed.
End Signing.

(* ---- mutation of a signed transaction --------------------------------------- *)
Section Mutation.
  Variable H : bytes -> N.
  Variable recover : N -> N -> N -> N -> option N.

  (* ECDSA: one signature (r, s, v) recovers a given key for one message hash
     only (the recovered point r^-1 (s R - h G) is injective in h mod n) *)
  Hypothesis recover_binding : forall h h' r s v a,
    recover h r s v = Some a -> recover h' r s v = Some a -> h = h'.

  Theorem mutation_changes_sender : forall net net' t t' a,
    to_ok (t_to t) -> to_ok (t_to t') ->
    t_v t' = t_v t -> t_r t' = t_r t -> t_s t' = t_s t ->
    sender H recover net t = SOk a ->
    sender H recover net' t' = SOk a ->
    (same_signed_fields t t' /\ net = net') \/ collision H.
  Proof.
    intros net net' t t' a Hto Hto' Ev Er Es S S'.
    assert (net = net').
    { apply sender_ok_inv in S. apply sender_ok_inv in S'.
      destruct S as (V & _). destruct S' as (V' & _). rewrite Ev in V'. lia. }
    subst net'.
    apply sender_ok_inv in S. apply sender_ok_inv in S'.
    destruct S as (_ & _ & R). destruct S' as (_ & _ & R').
    unfold vbit in *. rewrite Ev, Er, Es in R'.
    pose proof (recover_binding _ _ _ _ _ _ R R') as Eh.
    apply hash_binds_fields; assumption.
  Qed.
End Mutation.
