(* C08 - the constants regenerated from the working tree are the ones the model hard-codes. *)
From VF.C08 Require Import Model.
From VF.gen Require Import C08Params.
Local Open Scope Z_scope.

Definition params_match : bool :=
  Z.eqb repo_stake_unit stake_unit
  && list_eqb (fun a b => Z.eqb (fst a) (fst b) && Z.eqb (snd a) (snd b)) repo_role_kinds [(1, 1); (2, 1); (3, 2)]
  && Z.eqb repo_kind_all 0 && Z.eqb repo_online 1
  && list_eqb Z.eqb repo_curd [0; 1; 2; 3] && Z.eqb repo_stat_slots 6.

Lemma repo_params_match : params_match = true.
Proof. vm_compute. reflexivity. Qed.
