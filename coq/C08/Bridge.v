(* C08 - the constants regenerated from the working tree are the ones the model hard-codes. *)
From VF.C08 Require Import Model.
From VF.gen Require Import C08Params.
Local Open Scope Z_scope.

Definition params_match : bool :=
  Z.eqb repo_stake_unit stake_unit
  && list_eqb (fun a b => Z.eqb (fst a) (fst b) && Z.eqb (snd a) (snd b)) repo_role_kinds [(1, 1); (2, 1); (3, 2)]
  && Z.eqb repo_kind_all 0 && Z.eqb repo_online 1
  && list_eqb Z.eqb repo_curd [0; 1; 2; 3] && Z.eqb repo_stat_slots 6.

Lemma repo_params_match : params_match = true.
Proof. vm_compute. reflexivity. Qed.

(* ---- the callers of UpdateValidator (go/ast inventory, coq/gen/C08Callers.v) ------------

   Two calling conventions are in use: "copy" (the stored record is left alone, a
   PartialCopy carries the new values: OUpdate, ODelegate) and "inplace" (a PartialCopy
   is kept as the old value, the STORED record is written and passed as the new value:
   OUpdateIn).  UpdateValidator must therefore work from its two arguments alone.
   Pinned here: which call sites use the in-place convention and which fields they
   write; every such field is either carried by the model's update record or not looked
   at by StakeEqual and the statistics. *)
From Coq Require Import String.
From VF.gen Require Import C08Callers.

Definition str_list_eqb (a b : list string) : bool := list_eqb String.eqb a b.
Definition mem_str (x : string) (l : list string) : bool := existsb (String.eqb x) l.

Definition inplace_callers : list (string * string * list string) :=
  map (fun c => (c_file c, c_func c, c_fields c))
      (filter (fun c => String.eqb (c_conv c) "inplace") repo_update_callers).

Definition pinned_inplace : list (string * string * list string) :=
  [("staking/endblock.go", "checkAndUpgradeValidatorsToYouV5", ["Ext"]);
   ("staking/endblock.go", "rewardsToPool", ["Ext"; "RewardsDistributable"; "RewardsTotal"]);
   ("staking/slash_youv5.go", "recoverFromExpiredExpelling", ["ExpelExpired"; "Expelled"]);
   ("staking/take_effect_handler.go", "teDelegationSub", ["Status"])]%string.

(* the fields of the model's update record (Model.upd) under their Go names *)
Definition modelled_fields : list string :=
  ["Role"; "Status"; "Token"; "Stake"; "SelfToken"; "SelfStake"; "RewardsDistributable"; "RewardsTotal"; "LastInactive"]%string.
(* what Model.stake_equal / incr_stat / decr_stat read *)
Definition model_stat_fields : list string := ["Role"; "Stake"; "Status"; "Token"]%string.

Definition callers_pinned : bool :=
  forallb (fun c => String.eqb (c_conv c) "copy" || String.eqb (c_conv c) "inplace") repo_update_callers
  && list_eqb (fun x y => String.eqb (fst (fst x)) (fst (fst y)) && String.eqb (snd (fst x)) (snd (fst y))
                          && str_list_eqb (snd x) (snd y)) inplace_callers pinned_inplace
  && str_list_eqb repo_stat_fields model_stat_fields
  && forallb (fun c => forallb (fun f => mem_str f modelled_fields || negb (mem_str f repo_stat_fields)) (c_fields c))
             repo_update_callers.

Lemma repo_callers_pinned : callers_pinned = true.
Proof. vm_compute. reflexivity. Qed.
