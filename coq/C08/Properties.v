From VF.C08 Require Import Model.
Theorem C08_placeholder : run init [] = Some init.
Proof. exact eq_refl. Qed.
Print Assumptions C08_placeholder.
