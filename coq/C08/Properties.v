(* C08 - property theorems only.  Each is closed by [exact] of a lemma of the
   proof files and followed by Print Assumptions.

   Vocabulary (Model.v): [run init ops] executes a history of public StateDB
   calls on the faithful model (None = a Go panic); [inv_all s] is the
   executable statement of the property on a state: statistics = recomputation
   from the existing validator records (counters modulo 2^64), every total =
   own + delegations with strictly sorted delegation lists, every stake =
   token / stake unit, index = addresses of the existing validators, delegator
   accounts and validators agree (lists readable, both directions, balance =
   sum).  [safe ops] (Proofs.v / ProofsSim.hpre) says that no operation of the
   history enters one of the three open finding classes
     F5 delegate-from-missing-account (UpdateDelegation from an address without account),
     F7 stale-index-reload (GetValidatorsForUpdate while the in-memory index is
        empty and the persisted one is not: every validator removed since the last root),
     F8 copy-reindexes-removed-validator (Copy while a removed validator is
        finalised but not yet rooted),
   or breaks the callers' discipline (stake = token/unit on creation, updates
   that move the total by the change of the self part, no delegation withdrawn
   below zero, RemoveValidator only of validators without delegations, valid
   roles and revision ids).  F7 and F8 need RemoveValidator, which no code of
   the repository calls.  Both calling conventions of UpdateValidator are
   operations of the model (OUpdate: a copy carries the new values; OUpdateIn: the
   stored record is written in place and passed as the new value; the call sites
   are pinned in Bridge.v from a go/ast inventory) and neither is restricted.  The classes F1-F4, F6, F9 of earlier revisions were
   repaired in the repository (fe4c1ff, b4b663f, 20d771e, 464c034, 0cdbb3b,
   877ecbf, 7813a3d); their witnesses are regression cases now.  The ghost number t of
   wf/R/hpre is 0 along every run from [init] (vestigial). *)
From VF.C08 Require Import Model Abstract ProofsA ProofsSim Proofs Witnesses Bridge.
Local Open Scope Z_scope.

(* the full-strength statement: over every history whatsoever *)
Definition C08_full : Prop := forall ops s, run init ops = Some s -> inv_all s = true.

(* 1. it is false for the code as it is: three classes of histories break it *)
Theorem C08_full_refuted : ~ C08_full.
Proof. exact full_statement_refuted. Qed.
Print Assumptions C08_full_refuted.

(* 2. outside those classes it holds: for every history (any length, any nesting
   of snapshots and reverts, any number of commits, reloads and copies) *)
Theorem C08_inv_holds_outside :
  forall ops s, safe ops = true -> run init ops = Some s -> inv_all s = true.
Proof. exact inv_holds_outside. Qed.
Print Assumptions C08_inv_holds_outside.

(* ... and at every intermediate point of such a history *)
Theorem C08_inv_holds_at_every_point :
  forall l1 l2 s, safe (l1 ++ l2) = true -> run init l1 = Some s -> inv_all s = true.
Proof. exact inv_holds_at_every_point. Qed.
Print Assumptions C08_inv_holds_at_every_point.

(* 3. the two halves of the argument, stated separately.
   (a) the value-level semantics (no cache, no shared slices; Abstract.v) keeps
       the invariant J = property + "every valid revision restores a state
       satisfying the property" under EVERY operation meeting the discipline *)
Theorem C08_value_level_invariant :
  J ainit /\ forall s o, J s -> a_pre s o = true -> J (a_step s o).
Proof. exact (conj J_init J_step). Qed.
Print Assumptions C08_value_level_invariant.

(* (b) outside the finding classes one step of the faithful model is one step of
       the value-level semantics (a_step_h: RemoveValidator touches cached, not
       yet removed validators only; R: abstraction relation, wf: cache
       coherence, tombstones, slice separation, journal chain) *)
Theorem C08_faithful_refines_value_level :
  forall h t x o h', wf h t -> R h t x -> J x -> hpre h t o = true -> step h o = Some h' ->
    wf h' (taint_next h t o h') /\ R h' (taint_next h t o h') (a_step_h h x o) /\ J (a_step_h h x o).
Proof. exact sim_step. Qed.
Print Assumptions C08_faithful_refines_value_level.

(* 4. the open finding classes are real: each witness is a history whose last
   operation is the first one outside [safe] and whose final state violates
   the property (replayed against the implementation by the harness corpus) *)
Theorem C08_refuted_delegate_from_missing_account : refutes w_f5.
Proof. exact refuted_f5. Qed.
Print Assumptions C08_refuted_delegate_from_missing_account.
Theorem C08_refuted_stale_index_reload : refutes w_f7.
Proof. exact refuted_f7. Qed.
Print Assumptions C08_refuted_stale_index_reload.
Theorem C08_refuted_copy_reindexes_removed_validator : refutes w_f8.
Proof. exact refuted_f8. Qed.
Print Assumptions C08_refuted_copy_reindexes_removed_validator.
(* the former class inplace-update-then-revert (7813a3d): teDelegationSub's statement
   sequence between a snapshot and a revert is a safe history satisfying the property -
   an instance of C08_inv_holds_outside, which no longer restricts reverts after in-place
   updates; the variant of the model for the code before the repair ([run_old]: the undo
   of an update reads the journal's pointer), which the harness selects when it detects
   that behaviour, violates the property on it *)
Theorem C08_inplace_update_then_revert_holds :
  holds_b w_f9 = true /\ prerepair_refutes w_f9.
Proof. exact f9_then_and_now. Qed.
Print Assumptions C08_inplace_update_then_revert_holds.

(* the in-place calling convention as such is covered: the status change of
   staking.teDelegationSub (UpdateDelegation, then newVal.Status = Offline in place and
   UpdateValidator(newVal, copy)), a later snapshot/deposit/revert and an in-place
   rewards change form a safe history; the property holds at its end and the
   validator has moved from the online to the offline statistics *)
Theorem C08_inplace_convention_keeps_statistics :
  holds_b ex_inplace = true /\
  match run init ex_inplace with
  | Some s => (on_count (k0 (stat_ s)), off_count (k0 (stat_ s)), off_stake (k0 (stat_ s))) = (0, 1, 10)
  | None => False
  end.
Proof. exact inplace_holds. Qed.
Print Assumptions C08_inplace_convention_keeps_statistics.

(* the repaired classes: their former witnesses are safe histories satisfying the property *)
Theorem C08_repaired_classes_hold : holds_b r_f2 = true /\ holds_b r_f3 = true /\ holds_b r_f6 = true.
Proof. exact (conj repaired_f2 (conj repaired_f3 repaired_f6)). Qed.
Print Assumptions C08_repaired_classes_hold.

(* the decomposition of every record into its components (total token/stake = own part + delegations',
   every component's stake = floor(its token / unit), so the total stake is the SUM of floors) is kept by
   every operation of the value-level semantics that meets the callers' discipline; for an update that
   discipline says: move the totals by the change of the own part.  Example: a 1 YOU deposit on 99.99 YOU own
   + 50.49 YOU delegated booked by deltas (total stake 150) keeps the property, booked as
   floor(total token / unit) = 151 it is the first operation outside [safe] and breaks it.  (The real
   handlers of package staking - teDeposit, teWithdraw, takePenalty ... - are not modelled; the harness runs
   them unmodified with this clause in its oracle.) *)
Theorem C08_component_decomposition_preserved :
  (forall s o, J s -> a_pre s o = true ->
     forall a x, aget (xs (core (a_step s o))) a = Some x -> decomposed x) /\
  (forall old u, upd_ok old u = true ->
     u_token u - v_token old = u_stoken u - v_stoken old /\
     u_stake u - v_stake old = u_sstake u - v_sstake old /\
     u_sstake u = u_stoken u / stake_unit) /\
  holds_b dep_by_deltas = true /\ refutes dep_by_floor_of_total.
Proof. exact (conj decomposition_preserved (conj upd_ok_deltas (conj dep_by_deltas_holds refuted_dep_by_floor))). Qed.
Print Assumptions C08_component_decomposition_preserved.

(* 5. Validator.Less is a strict total order on validators with distinct
   addresses, so the sorted validator list and the voter indexes derived from
   it are well defined *)
Theorem C08_validators_sort_total :
  (forall a, vless a a = false) /\
  (forall a b c, vless a b = true -> vless b c = true -> vless a c = true) /\
  (forall a b, vless a b = true -> vless b a = false) /\
  (forall a b, v_addr a <> v_addr b -> vless a b = true \/ vless b a = true).
Proof. exact (conj vless_irrefl (conj vless_trans (conj vless_asym vless_total))). Qed.
Print Assumptions C08_validators_sort_total.

(* 6. bridge: the constants the model hard-codes are those of the working tree *)
Theorem C08_repo_params_match : params_match = true.
Proof. exact repo_params_match. Qed.
Print Assumptions C08_repo_params_match.

(* every call of UpdateValidator in staking/ and core/ uses one of the two conventions;
   the in-place callers and the fields they write are the pinned ones; StakeEqual and
   the statistics read Role, Stake, Status, Token only; every field a caller writes is
   carried by the model's update record or invisible to them *)
Theorem C08_repo_update_callers_pinned : callers_pinned = true.
Proof. exact repo_callers_pinned. Qed.
Print Assumptions C08_repo_update_callers_pinned.

(* non-vacuity: a concrete history outside all finding classes that creates
   three validators, delegates, withdraws a delegation completely, reverts a
   deposit, a creation and (twice) delegation updates made since the snapshot,
   deletes an emptied validator at IntermediateRoot, commits and reloads twice,
   copies with uncommitted delegation lists, removes a validator and re-creates
   it (both reverted), removes it again; it is safe, does not panic,
   ends with two validators holding delegations and satisfies the property *)
Definition U : Z := stake_unit.
Definition ex_hist : list op :=
  [OFund 1; OFund 2; OFund 3;
   OCreate 100 1 1 (10 * U) 10; OCreate 200 3 0 (5 * U + 7) 5; OCreate 300 2 1 (2 * U) 2;
   ODelegate 1 100 (3 * U); ODelegate 2 100 (U + 1); ODelegate 3 200 (4 * U);
   OSnapshot;
   OUpdate 300 (mkU 2 0 0 0 0 0 0 0 9);
   OUpdate 200 (mkU 3 1 (9 * U + 7) 9 (5 * U + 7) 5 0 0 0);
   OSnapshot;
   OUpdate 100 (mkU 1 1 (15 * U + 1) 15 (11 * U) 11 5 5 3);
   ORevert 1;
   OFinalise;
   ODelegate 2 100 (-(U + 1));
   ORoot;
   OList;
   OSnapshot; OCreate 300 1 1 U 1; ORevert 2;
   OCommitReload;
   ODelegate 1 200 (U - 1);
   OCommitReload;
   OSnapshot; ODelegate 2 200 (2 * U); ODelegate 3 200 (- U); ODelegate 1 100 (- (3 * U)); ORevert 0;
   ODelegate 2 100 (5 * U);
   OCopy;
   ODelegate 2 100 U;
   OSnapshot; ODelegate 2 100 (- (6 * U)); ORevert 0;
   ODelegate 3 200 (- U);
   OCreate 400 2 1 (3 * U) 3;
   OSnapshot; ORemove 400; OCreate 400 1 0 U 1; ORevert 1;
   ORemove 400; OList;
   ORoot].
Example C08_nonvacuous_safe_history :
  safe ex_hist = true /\
  exists s, run init ex_hist = Some s /\ inv_all s = true /\
    map (fun y => (v_addr (fst y), length (snd y))) (live s) = [(100, 2%nat); (200, 2%nat)] /\
    on_count (k0 (stat_ s)) = 2.
Proof.
  split; [vm_compute; reflexivity|].
  destruct (run init ex_hist) as [s|] eqn:E; [|vm_compute in E; discriminate].
  exists s. split; [reflexivity|].
  assert (Hs : Some s = run init ex_hist) by (symmetry; exact E). vm_compute in Hs. inversion Hs; subst s.
  vm_compute. auto.
Qed.
Print Assumptions C08_nonvacuous_safe_history.

(* non-vacuity of the value-level invariant: its hypotheses hold along ex_hist *)
Example C08_nonvacuous_discipline :
  (fix go (x : astate) (l : list op) : bool :=
     match l with [] => true | o :: r => a_pre x o && go (a_step x o) r end) ainit ex_hist = true.
Proof. vm_compute. reflexivity. Qed.
Print Assumptions C08_nonvacuous_discipline.
