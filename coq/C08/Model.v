(* C08 - executable model of the validator bookkeeping of core/state
   (statedb_val.go, validator.go, journal.go, statedb_staking.go, delegation.go,
   the delegation part of state_object.go and the validator part of
   statedb.go: Snapshot / RevertToSnapshot / Finalise / IntermediateRoot /
   Commit / Copy / New).  No proofs in this file.

   What is represented exactly as in Go:
   - validator objects are values, but their Delegations slice is a *view*
     (array id, length) into a heap of backing arrays with a capacity:
     PartialCopy shares the array, UpdateDelegationFrom mutates it in place or
     re-allocates with Go's append growth, DeepCopy / RLP decoding allocate;
   - validatorObjects is a cache over the validator trie (lazy loads, tomb-
     stones with the deleted flag, raw Load in RemoveValidator);
   - the incremental, clamped statistics; uint64 counters wrap;
   - the two journals with their revert functions and the revision list;
   - delegator accounts: delegation balance, delegation list (content-addressed
     blob that only Commit writes, the cache that deepCopy drops, dirtyDlgs).
   Not represented: account balances/nonces/code/storage (delegator accounts
   are created funded, hence never "empty"), the withdraw queue, rewards fields
   of the statistics, names/keys of validators, logging, DB errors.
   A Go panic is [None]. *)
From Coq Require Export List ZArith Bool.
From Coq Require Import Uint63.
Export ListNotations.
Open Scope Z_scope.

Definition stake_unit : Z := 1000000000000000000.   (* params.StakeUint = 1 YOU *)
Definition two64 : Z := 18446744073709551616.

(* ---- records ------------------------------------------------------------ *)

Record dfrom := mkD { d_addr : Z; d_stake : Z; d_token : Z }.

Record val := mkV {
  v_addr : Z; v_role : Z; v_status : Z;
  v_token : Z; v_stake : Z; v_stoken : Z; v_sstake : Z;
  v_rdist : Z; v_rtotal : Z; v_misc : Z;
  v_aid : nat; v_len : nat;          (* Delegations = arrs[v_aid][0 .. v_len) *)
  v_deleted : bool;
  v_oid : nat }.                     (* identity of the Go object (with v_aid): callers may mutate the stored object
                                        in place while journal entries still point at it; never observed *)

Definition set_view (v : val) (aid len : nat) : val :=
  mkV (v_addr v) (v_role v) (v_status v) (v_token v) (v_stake v) (v_stoken v) (v_sstake v)
      (v_rdist v) (v_rtotal v) (v_misc v) aid len (v_deleted v) (v_oid v).
Definition set_deleted (v : val) (b : bool) : val :=
  mkV (v_addr v) (v_role v) (v_status v) (v_token v) (v_stake v) (v_stoken v) (v_sstake v)
      (v_rdist v) (v_rtotal v) (v_misc v) (v_aid v) (v_len v) b (v_oid v).
Definition set_oid (v : val) (k : nat) : val :=
  mkV (v_addr v) (v_role v) (v_status v) (v_token v) (v_stake v) (v_stoken v) (v_sstake v)
      (v_rdist v) (v_rtotal v) (v_misc v) (v_aid v) (v_len v) (v_deleted v) k.
Definition set_total (v : val) (token stake : Z) : val :=
  mkV (v_addr v) (v_role v) (v_status v) token stake (v_stoken v) (v_sstake v)
      (v_rdist v) (v_rtotal v) (v_misc v) (v_aid v) (v_len v) (v_deleted v) (v_oid v).

(* the scalar fields a caller writes into a PartialCopy before UpdateValidator *)
Record upd := mkU {
  u_role : Z; u_status : Z; u_token : Z; u_stake : Z; u_stoken : Z; u_sstake : Z;
  u_rdist : Z; u_rtotal : Z; u_misc : Z }.
Definition apply_upd (v : val) (u : upd) : val :=
  mkV (v_addr v) (u_role u) (u_status u) (u_token u) (u_stake u) (u_stoken u) (u_sstake u)
      (u_rdist u) (u_rtotal u) (u_misc u) (v_aid v) (v_len v) (v_deleted v) (v_oid v).

(* persisted (RLP) form of a validator: scalars + the delegation list by value *)
Record pval := mkP { p_v : val; p_dl : list (option dfrom) }.

Record kstat := mkK {
  on_stake : Z; on_token : Z; on_count : Z;
  off_stake : Z; off_token : Z; off_count : Z }.
Definition kzero := mkK 0 0 0 0 0 0.
(* Kinds 0 (all) 1 (chamber) 2 (house); Roles 1 2 3 *)
Record stat := mkSt { k0 : kstat; k1 : kstat; k2 : kstat; r1 : kstat; r2 : kstat; r3 : kstat }.
Definition stat_zero := mkSt kzero kzero kzero kzero kzero kzero.

Record acct := mkA {
  a_dbal : Z;              (* data.DelegationBalance *)
  a_hash : list Z;         (* data.DelegationsHash, represented by the content it hashes; [] = no hash *)
  a_loaded : bool;         (* so.delegations != nil *)
  a_ddirty : bool }.       (* so.dirtyDlgs *)

Inductive ventry :=
| VCreate (a : Z) (prev : option val) (indexed : bool)   (* replaced live (deleted) object, address was indexed *)
| VUpdate (a : Z) (nw old : val)
| VDelete (a : Z) (old : val).

Inductive aentry :=
| JCreate (a : Z)              (* createObjectChange *)
| JBal (a : Z)                 (* balanceChange (balance itself not modelled) *)
| JDlgBal (a : Z) (prev : Z)   (* delegationBalanceChange *)
| JDlgs (a : Z) (prev : list Z)(* delegationsChange *).

Record state := mkS {
  arrs : list (list (option dfrom));   (* heap of backing arrays; capacity = length *)
  vmap : list (Z * val);               (* validatorObjects *)
  vindex : list Z;                     (* validatorIndex, kept sorted *)
  stat_ : stat;                        (* validatorsStat *)
  vjournal : list ventry;              (* newest first *)
  vdirty : list Z;                     (* validatorObjectsDirty *)
  accts : list (Z * acct);             (* stateObjects over the account trie *)
  ajournal : list aentry;              (* newest first *)
  revs : list (Z * (nat * nat));       (* newest first: id, account-journal length, validator-journal length *)
  next_id : Z;
  t_vals : list (Z * pval);            (* validator trie: valinfo- entries *)
  t_index : option (list Z);           (* valindex entry (None = never written) *)
  t_stat : stat;                       (* valstat entry *)
  blobs : list (list Z);               (* delegation lists written to the trie database by Commit *)
  adirty : list Z }.                   (* stateObjectsDirty (accounts), kept sorted *)

Definition init : state :=
  mkS [] [] [] stat_zero [] [] [] [] [] 0 [] None stat_zero [] [].

(* field setters *)
Definition w_arrs s x := mkS x (vmap s) (vindex s) (stat_ s) (vjournal s) (vdirty s) (accts s) (ajournal s) (revs s) (next_id s) (t_vals s) (t_index s) (t_stat s) (blobs s) (adirty s).
Definition w_vmap s x := mkS (arrs s) x (vindex s) (stat_ s) (vjournal s) (vdirty s) (accts s) (ajournal s) (revs s) (next_id s) (t_vals s) (t_index s) (t_stat s) (blobs s) (adirty s).
Definition w_vindex s x := mkS (arrs s) (vmap s) x (stat_ s) (vjournal s) (vdirty s) (accts s) (ajournal s) (revs s) (next_id s) (t_vals s) (t_index s) (t_stat s) (blobs s) (adirty s).
Definition w_stat s x := mkS (arrs s) (vmap s) (vindex s) x (vjournal s) (vdirty s) (accts s) (ajournal s) (revs s) (next_id s) (t_vals s) (t_index s) (t_stat s) (blobs s) (adirty s).
Definition w_vjournal s x := mkS (arrs s) (vmap s) (vindex s) (stat_ s) x (vdirty s) (accts s) (ajournal s) (revs s) (next_id s) (t_vals s) (t_index s) (t_stat s) (blobs s) (adirty s).
Definition w_vdirty s x := mkS (arrs s) (vmap s) (vindex s) (stat_ s) (vjournal s) x (accts s) (ajournal s) (revs s) (next_id s) (t_vals s) (t_index s) (t_stat s) (blobs s) (adirty s).
Definition w_accts s x := mkS (arrs s) (vmap s) (vindex s) (stat_ s) (vjournal s) (vdirty s) x (ajournal s) (revs s) (next_id s) (t_vals s) (t_index s) (t_stat s) (blobs s) (adirty s).
Definition w_ajournal s x := mkS (arrs s) (vmap s) (vindex s) (stat_ s) (vjournal s) (vdirty s) (accts s) x (revs s) (next_id s) (t_vals s) (t_index s) (t_stat s) (blobs s) (adirty s).
Definition w_revs s x := mkS (arrs s) (vmap s) (vindex s) (stat_ s) (vjournal s) (vdirty s) (accts s) (ajournal s) x (next_id s) (t_vals s) (t_index s) (t_stat s) (blobs s) (adirty s).
Definition w_next_id s x := mkS (arrs s) (vmap s) (vindex s) (stat_ s) (vjournal s) (vdirty s) (accts s) (ajournal s) (revs s) x (t_vals s) (t_index s) (t_stat s) (blobs s) (adirty s).
Definition w_t_vals s x := mkS (arrs s) (vmap s) (vindex s) (stat_ s) (vjournal s) (vdirty s) (accts s) (ajournal s) (revs s) (next_id s) x (t_index s) (t_stat s) (blobs s) (adirty s).
Definition w_t_index s x := mkS (arrs s) (vmap s) (vindex s) (stat_ s) (vjournal s) (vdirty s) (accts s) (ajournal s) (revs s) (next_id s) (t_vals s) x (t_stat s) (blobs s) (adirty s).
Definition w_t_stat s x := mkS (arrs s) (vmap s) (vindex s) (stat_ s) (vjournal s) (vdirty s) (accts s) (ajournal s) (revs s) (next_id s) (t_vals s) (t_index s) x (blobs s) (adirty s).
Definition w_blobs s x := mkS (arrs s) (vmap s) (vindex s) (stat_ s) (vjournal s) (vdirty s) (accts s) (ajournal s) (revs s) (next_id s) (t_vals s) (t_index s) (t_stat s) x (adirty s).

Definition w_adirty s x := mkS (arrs s) (vmap s) (vindex s) (stat_ s) (vjournal s) (vdirty s) (accts s) (ajournal s) (revs s) (next_id s) (t_vals s) (t_index s) (t_stat s) (blobs s) x.

(* ---- association lists and sorted sets ---------------------------------- *)

Fixpoint aget {A} (m : list (Z * A)) (k : Z) : option A :=
  match m with
  | [] => None
  | (k', x) :: r => if Z.eqb k' k then Some x else aget r k
  end.
Fixpoint aset {A} (m : list (Z * A)) (k : Z) (x : A) : list (Z * A) :=
  match m with
  | [] => [(k, x)]
  | (k', y) :: r => if Z.eqb k' k then (k, x) :: r else (k', y) :: aset r k x
  end.
Fixpoint adel {A} (m : list (Z * A)) (k : Z) : list (Z * A) :=
  match m with
  | [] => []
  | (k', y) :: r => if Z.eqb k' k then r else (k', y) :: adel r k
  end.

Fixpoint mem (k : Z) (l : list Z) : bool :=
  match l with [] => false | x :: r => Z.eqb x k || mem k r end.
(* sorted insertion without duplicates / removal *)
Fixpoint sins (k : Z) (l : list Z) : list Z :=
  match l with
  | [] => [k]
  | x :: r => if Z.ltb k x then k :: l else if Z.eqb k x then l else x :: sins k r
  end.
Fixpoint srem (k : Z) (l : list Z) : list Z :=
  match l with
  | [] => []
  | x :: r => if Z.eqb x k then r else x :: srem k r
  end.

Fixpoint list_eqb {A} (e : A -> A -> bool) (a b : list A) : bool :=
  match a, b with
  | [], [] => true
  | x :: a', y :: b' => e x y && list_eqb e a' b'
  | _, _ => false
  end.

Fixpoint upd_nth {A} (l : list A) (n : nat) (x : A) : list A :=
  match l, n with
  | [], _ => []
  | _ :: r, O => x :: r
  | y :: r, S n' => y :: upd_nth r n' x
  end.

(* ---- statistics (validator.go ValKindStat / ValidatorsStat) -------------- *)

Definition wrap64 (x : Z) : Z := x mod two64.
Definition csub (a b : Z) : Z := if Z.leb b a then a - b else a.   (* subStake etc.: only if a >= b *)

Definition k_add (k : kstat) (v : val) : kstat :=      (* AddVal *)
  if Z.eqb (v_status v) 1
  then mkK (on_stake k + v_stake v) (on_token k + v_token v) (wrap64 (on_count k + 1)) (off_stake k) (off_token k) (off_count k)
  else mkK (on_stake k) (on_token k) (on_count k) (off_stake k + v_stake v) (off_token k + v_token v) (wrap64 (off_count k + 1)).
Definition k_sub (k : kstat) (v : val) : kstat :=      (* SubVal *)
  if Z.eqb (v_status v) 1
  then mkK (csub (on_stake k) (v_stake v)) (csub (on_token k) (v_token v)) (wrap64 (on_count k - 1)) (off_stake k) (off_token k) (off_count k)
  else mkK (on_stake k) (on_token k) (on_count k) (csub (off_stake k) (v_stake v)) (csub (off_token k) (v_token v)) (wrap64 (off_count k - 1)).

Definition role_ok (r : Z) : bool := Z.eqb r 1 || Z.eqb r 2 || Z.eqb r 3.

(* apply f to Roles[role], Kinds[kind(role)], Kinds[0]; None = nil map entry dereferenced *)
Definition stat_app (f : kstat -> kstat) (st : stat) (role : Z) : option stat :=
  if Z.eqb role 1 then Some (mkSt (f (k0 st)) (f (k1 st)) (k2 st) (f (r1 st)) (r2 st) (r3 st))
  else if Z.eqb role 2 then Some (mkSt (f (k0 st)) (f (k1 st)) (k2 st) (r1 st) (f (r2 st)) (r3 st))
  else if Z.eqb role 3 then Some (mkSt (f (k0 st)) (k1 st) (f (k2 st)) (r1 st) (r2 st) (f (r3 st)))
  else None.
Definition incr_stat (st : stat) (v : val) : option stat := stat_app (fun k => k_add k v) st (v_role v).
Definition decr_stat (st : stat) (v : val) : option stat := stat_app (fun k => k_sub k v) st (v_role v).

Definition stake_equal (a b : val) : bool :=
  Z.eqb (v_role a) (v_role b) && Z.eqb (v_stake a) (v_stake b)
  && Z.eqb (v_token a) (v_token b) && Z.eqb (v_status a) (v_status b).

(* ---- delegation slices --------------------------------------------------- *)

Definition arr_of (s : state) (aid : nat) : list (option dfrom) := nth aid (arrs s) [].
Definition view (s : state) (v : val) : list (option dfrom) := firstn (v_len v) (arr_of s (v_aid v)).

(* runtime.roundupsize for pointer slices up to 512 bytes, in elements *)
Definition size_classes : list nat :=
  [1;2;3;4;6;8;10;12;14;16;18;20;22;24;26;28;30;32;36;40;44;48;52;56;60;64]%nat.
Fixpoint roundup (n : nat) (cls : list nat) : nat :=
  match cls with [] => n | c :: r => if Nat.leb n c then c else roundup n r end.
(* growslice for one appended element *)
Definition grow_cap (oldcap : nat) : nat :=
  roundup (if Nat.eqb oldcap 0 then 1 else oldcap + oldcap)%nat size_classes.

(* rlp decodeSliceElems: capacity after decoding n > 0 elements *)
Fixpoint rlp_cap_from (fuel c n : nat) : nat :=
  match fuel with
  | O => c
  | S f => if Nat.ltb n c then c
           else rlp_cap_from f (let c' := (c + Nat.div c 2)%nat in if Nat.ltb c' 4 then 4%nat else c') n
  end.
Definition rlp_cap (n : nat) : nat := if Nat.eqb n 0 then 0%nat else rlp_cap_from 64 0 n.

Definition pad {A} (l : list (option A)) (cap : nat) : list (option A) :=
  l ++ repeat None (cap - length l).

(* allocate a new backing array; returns the state and its id *)
Definition alloc (s : state) (a : list (option dfrom)) : state * nat :=
  (w_arrs s (arrs s ++ [a]), length (arrs s)).

(* sort.Search(n, f) with f(i) = list[i].Delegator >= d ; None = nil dereference *)
Fixpoint bsearch (fuel : nat) (l : list (option dfrom)) (d : Z) (i j : nat) : option nat :=
  match fuel with
  | O => Some i
  | S f =>
    if Nat.ltb i j then
      let h := Nat.div (i + j) 2 in
      match nth h l None with
      | None => None
      | Some e => if Z.leb d (d_addr e) then bsearch f l d i h else bsearch f l d (h + 1)%nat j
      end
    else Some i
  end.
Definition dsearch (l : list (option dfrom)) (d : Z) : option nat :=
  bsearch (S (length l)) l d 0%nat (length l).

(* Validator.GetDelegationFrom: Some None = not found; outer None = panic *)
Definition get_dfrom (l : list (option dfrom)) (d : Z) : option (option dfrom) :=
  match dsearch l d with
  | None => None
  | Some i =>
    if Nat.ltb i (length l) then
      match nth i l None with
      | None => None
      | Some e => if Z.eqb (d_addr e) d then Some (Some e) else Some None
      end
    else Some None
  end.

Definition d_empty (d : dfrom) : bool := Z.eqb (d_stake d) 0 && Z.eqb (d_token d) 0.

(* shift arr[i .. n) one to the right (copy(v[i+1:], v[i:n])) then arr[i] := x *)
Definition ins_at (arr : list (option dfrom)) (i n : nat) (x : option dfrom) : list (option dfrom) :=
  firstn i arr ++ x :: firstn (n - i) (skipn i arr) ++ skipn (S n) arr.
(* shift arr(i .. n) one to the left, arr[n-1] := nil *)
Definition del_at (arr : list (option dfrom)) (i n : nat) : list (option dfrom) :=
  firstn i arr ++ firstn (n - S i) (skipn (S i) arr) ++ None :: skipn n arr.

(* Validator.UpdateDelegationFrom on value v; flag: 0 noop 1 create 2 update 3 delete *)
Definition update_dfrom (s : state) (v : val) (d : dfrom) : option (state * val * Z) :=
  let l := view s v in
  let n := v_len v in
  match dsearch l (d_addr d) with
  | None => None
  | Some i =>
    let exists_ :=
      if Nat.ltb i n then
        match nth i l None with
        | None => None
        | Some e => Some (Z.eqb (d_addr e) (d_addr d))
        end
      else Some false in
    match exists_ with
    | None => None
    | Some false =>
      if d_empty d then Some (s, v, 0)
      else
        let arr := arr_of s (v_aid v) in
        if Nat.ltb n (length arr) then
          (* room: append in place, then shift *)
          let arr1 := upd_nth arr n (Some d) in
          let arr2 := if Nat.ltb i n then ins_at arr1 i n (Some d) else arr1 in
          Some (w_arrs s (upd_nth (arrs s) (v_aid v) arr2), set_view v (v_aid v) (S n), 1)
        else
          let cap := grow_cap (length arr) in
          let arr1 := pad (firstn n arr ++ [Some d]) cap in
          let arr2 := if Nat.ltb i n then ins_at arr1 i n (Some d) else arr1 in
          let '(s', aid) := alloc s arr2 in
          Some (s', set_view v aid (S n), 1)
    | Some true =>
      let arr := arr_of s (v_aid v) in
      if d_empty d then
        Some (w_arrs s (upd_nth (arrs s) (v_aid v) (del_at arr i n)), set_view v (v_aid v) (n - 1), 3)
      else
        Some (w_arrs s (upd_nth (arrs s) (v_aid v) (upd_nth arr i (Some d))), v, 2)
    end
  end.

(* ---- validator cache ----------------------------------------------------- *)

Definition index_add (s : state) (a : Z) : state := w_vindex s (sins a (vindex s)).
Definition set_validator (s : state) (v : val) : state :=      (* setValidator *)
  index_add (w_vmap s (aset (vmap s) (v_addr v) v)) (v_addr v).

Definition has_nil (l : list (option dfrom)) : bool := existsb (fun x => match x with None => true | _ => false end) l.

(* getValidator: returns the (possibly changed: lazy load) state and the object *)
Definition get_validator (s : state) (a : Z) : state * option val :=
  match aget (vmap s) a with
  | Some v => if v_deleted v then (s, None) else (s, Some v)
  | None =>
    match aget (t_vals s) a with
    | None => (s, None)
    | Some p =>
      if has_nil (p_dl p) then (s, None)      (* rlp: a nil element does not decode *)
      else
        let n := length (p_dl p) in
        let '(s1, aid) := alloc s (pad (p_dl p) (rlp_cap n)) in
        let v := set_deleted (set_view (p_v p) aid n) false in
        (set_validator s1 v, Some v)
    end
  end.

Definition vj_push (s : state) (e : ventry) : state := w_vjournal s (e :: vjournal s).
Definition aj_push (s : state) (e : aentry) : state := w_ajournal s (e :: ajournal s).

(* object identities: a fresh one lies above every identity held by the cache or the journal *)
Definition ventry_oid (e : ventry) : nat :=
  match e with
  | VCreate _ (Some p) _ => v_oid p
  | VCreate _ None _ => 0%nat
  | VUpdate _ nw old => Nat.max (v_oid nw) (v_oid old)
  | VDelete _ old => v_oid old
  end.
Definition fresh_oid (s : state) : nat :=
  S (Nat.max (fold_right (fun p m => Nat.max (v_oid (snd p)) m) 0%nat (vmap s))
             (fold_right (fun e m => Nat.max (ventry_oid e) m) 0%nat (vjournal s))).

(* is n the Go object v?  (PartialCopy shares the slice, so copies differ in v_oid only;
   UpdateDelegation's and CreateValidator's new objects have a new array) *)
Definition same_obj (n v : val) : bool := Nat.eqb (v_oid n) (v_oid v) && Nat.eqb (v_aid n) (v_aid v).
Definition aliased (a : Z) (v : val) (e : ventry) : bool :=
  match e with
  | VUpdate a' n _ => Z.eqb a' a && same_obj n v
  | _ => false
  end.
(* the stored object v of a is overwritten in place with nw: validatorUpdateChange entries hold
   newVal by pointer, so every entry whose newVal is that object now reads nw *)
Definition retarget (a : Z) (v nw : val) (e : ventry) : ventry :=
  match e with
  | VUpdate a' n old => if aliased a v e then VUpdate a' nw old else e
  | _ => e
  end.
(* length of the journal up to and including the newest entry that points at v *)
Fixpoint alias_depth (a : Z) (v : val) (j : list ventry) : nat :=
  match j with
  | [] => 0%nat
  | e :: r => if aliased a v e then length j else alias_depth a v r
  end.

Definition with_stat (s : state) (o : option stat) : option state :=
  match o with None => None | Some st => Some (w_stat s st) end.

(* UpdateValidator(newVal, oldVal) *)
Definition update_validator (s : state) (nw old : val) : option state :=
  let s1 := set_validator s nw in
  let s2 := vj_push s1 (VUpdate (v_addr nw) nw old) in
  if stake_equal nw old then Some s2
  else match decr_stat (stat_ s2) old with
       | None => None
       | Some st1 => with_stat s2 (incr_stat st1 nw)
       end.

Definition new_validator (a role status token stake : Z) (aid : nat) : val :=
  mkV a role status token stake token stake 0 0 0 aid 0 false 0.

(* CreateValidator *)
Definition create_validator (s : state) (a role status token stake : Z) : option state :=
  let '(s1, prev) := get_validator s a in
  match prev with
  | Some _ => Some s1
  | None =>
    let '(s2, aid) := alloc s1 [] in                 (* make(DelegationFroms, 0) *)
    let v := new_validator a role status token stake aid in
    let s3 := set_validator (vj_push s2 (VCreate a (aget (vmap s2) a) (mem a (vindex s2)))) v in
    with_stat s3 (incr_stat (stat_ s3) v)
  end.

(* RemoveValidator *)
Definition remove_validator (s : state) (a : Z) : option state :=
  match aget (vmap s) a with
  | None => Some s
  | Some v =>
    if v_deleted v then Some s                       (* already removed *)
    else
      let v' := set_deleted v true in
      let s1 := vj_push s (VDelete a (set_oid v (fresh_oid s))) in   (* a PartialCopy taken before the flag is set *)
      let s2 := w_vindex (w_vmap s1 (aset (vmap s1) a v')) (srem a (vindex s1)) in
      with_stat s2 (decr_stat (stat_ s2) v')
  end.

(* ---- delegator accounts -------------------------------------------------- *)

(* loadDelegations: None = panic (blob missing) *)
Definition load_dlgs (s : state) (ac : acct) : option acct :=
  if a_loaded ac then Some ac
  else match a_hash ac with
       | [] => Some (mkA (a_dbal ac) [] true (a_ddirty ac))
       | h => if existsb (list_eqb Z.eqb h) (blobs s)
              then Some (mkA (a_dbal ac) h true (a_ddirty ac)) else None
       end.

(* stateObject.UpdateDelegationTo + AddDelegationBalance via StateDB.UpdateDelegator *)
Definition update_delegator (s : state) (d a delta : Z) (del : bool) : option state :=
  match aget (accts s) d with
  | None => Some s
  | Some ac0 =>
    match load_dlgs s ac0 with
    | None => None
    | Some ac =>
      let found := mem a (a_hash ac) in
      let '(s1, ac1) :=
        if negb found then
          if del then (s, ac)
          else (aj_push s (JDlgs d (a_hash ac)), mkA (a_dbal ac) (sins a (a_hash ac)) true true)
        else if del then (aj_push s (JDlgs d (a_hash ac)), mkA (a_dbal ac) (srem a (a_hash ac)) true true)
        else (s, ac) in
      let s2 := aj_push s1 (JDlgBal d (a_dbal ac1)) in
      let ac2 := mkA (a_dbal ac1 + delta) (a_hash ac1) (a_loaded ac1) (a_ddirty ac1) in
      Some (w_accts s2 (aset (accts s2) d ac2))
    end
  end.

(* StateDB.UpdateDelegation(d, val, tokenChanged) with val = the live object of a *)
Definition update_delegation (s : state) (d : Z) (v : val) (delta : Z) : option state :=
  if Z.eqb delta 0 then Some s
  else
    match get_dfrom (view s v) d with
    | None => None
    | Some found =>
      let start :=
        match found with
        | Some e => Some e
        | None => if Z.ltb delta 0 then None else Some (mkD d 0 0)
        end in
      match start with
      | None => Some s
      | Some e =>
        let tok := d_token e + delta in
        let nstake := tok / stake_unit in
        let dstake := nstake - d_stake e in
        let e' := mkD d nstake tok in
        (* newVal gets its own slice: make(len, len+1) + copy *)
        let '(s0, aid) := alloc s (view s v ++ [None]) in
        let nv0 := set_view (set_total v (v_token v + delta) (v_stake v + dstake)) aid (v_len v) in
        match update_dfrom s0 nv0 e' with
        | None => None
        | Some (s1, nv, flag) =>
          match update_validator s1 nv v with
          | None => None
          | Some s2 => update_delegator s2 d (v_addr v) delta (Z.eqb flag 3)
          end
        end
      end
    end.

(* AddBalance(a, 1) on a possibly new account *)
Definition fund (s : state) (a : Z) : state :=
  match aget (accts s) a with
  | Some _ => aj_push s (JBal a)
  | None => aj_push (aj_push (w_accts s (aset (accts s) a (mkA 0 [] false false))) (JCreate a)) (JBal a)
  end.

(* ---- journals ------------------------------------------------------------ *)

Definition vundo1 (s : state) (e : ventry) : option state :=
  match e with
  | VCreate a prev indexed =>
    match aget (vmap s) a with
    | None => None                                       (* nil interface type assertion *)
    | Some v =>
      match decr_stat (stat_ s) v with
      | None => None
      | Some st =>
        let m := match prev with Some p => aset (vmap s) a p | None => adel (vmap s) a end in
        Some (w_vindex (w_vmap (w_stat s st) m) (if indexed then vindex s else srem a (vindex s)))
      end
    end
  | VDelete a old => let s1 := set_validator s old in with_stat s1 (incr_stat (stat_ s1) old)
  | VUpdate a nw old =>
    (* the record that is taken out of the statistics is the one stored now (7813a3d), not *newVal *)
    let cur := match aget (vmap s) a with Some c => c | None => nw end in
    let s1 := set_validator s old in
    if stake_equal cur old then Some s1
    else match decr_stat (stat_ s1) cur with
         | None => None
         | Some st1 => with_stat s1 (incr_stat st1 old)
         end
  end.

(* before 7813a3d: the undo of an update subtracted *newVal, whatever that object had become *)
Definition vundo1_old (s : state) (e : ventry) : option state :=
  match e with
  | VUpdate a nw old =>
    let s1 := set_validator s old in
    if stake_equal nw old then Some s1
    else match decr_stat (stat_ s1) nw with
         | None => None
         | Some st1 => with_stat s1 (incr_stat st1 old)
         end
  | _ => vundo1 s e
  end.

Definition aundo1 (s : state) (e : aentry) : state :=
  match e with
  | JCreate a => w_accts s (adel (accts s) a)
  | JBal a => s
  | JDlgBal a prev =>
    match aget (accts s) a with
    | None => s
    | Some ac => w_accts s (aset (accts s) a (mkA prev (a_hash ac) (a_loaded ac) (a_ddirty ac)))
    end
  | JDlgs a prev =>
    match aget (accts s) a with
    | None => s
    | Some ac => w_accts s (aset (accts s) a (mkA (a_dbal ac) prev true (a_ddirty ac)))
    end
  end.

(* journal.revert(statedb, snapshot): undo newest entries while length > n *)
Fixpoint aundo_to (fuel : nat) (s : state) (n : nat) : state :=
  match fuel with
  | O => s
  | S f =>
    match ajournal s with
    | [] => s
    | e :: r => if Nat.ltb n (length (ajournal s)) then aundo_to f (aundo1 (w_ajournal s r) e) n else s
    end
  end.
Fixpoint vundo_to (fuel : nat) (s : state) (n : nat) : option state :=
  match fuel with
  | O => Some s
  | S f =>
    match vjournal s with
    | [] => Some s
    | e :: r =>
      if Nat.ltb n (length (vjournal s)) then
        match vundo1 (w_vjournal s r) e with
        | None => None
        | Some s' => vundo_to f s' n
        end
      else Some s
    end
  end.

Fixpoint vundo_to_old (fuel : nat) (s : state) (n : nat) : option state :=
  match fuel with
  | O => Some s
  | S f =>
    match vjournal s with
    | [] => Some s
    | e :: r =>
      if Nat.ltb n (length (vjournal s)) then
        match vundo1_old (w_vjournal s r) e with
        | None => None
        | Some s' => vundo_to_old f s' n
        end
      else Some s
    end
  end.

Definition snapshot (s : state) : state :=
  w_next_id (w_revs s ((next_id s, (length (ajournal s), length (vjournal s))) :: revs s)) (next_id s + 1).

Fixpoint drop_revs (l : list (Z * (nat * nat))) (id : Z) : list (Z * (nat * nat)) :=
  match l with
  | [] => []
  | (i, x) :: r => if Z.eqb i id then r else drop_revs r id
  end.

Definition revert (s : state) (id : Z) : option state :=
  match aget (revs s) id with
  | None => None                                         (* panic: revision id cannot be reverted *)
  | Some (aj, vj) =>
    let s1 := aundo_to (length (ajournal s)) s aj in
    match vundo_to (length (vjournal s1)) s1 vj with
    | None => None
    | Some s2 => Some (w_revs s2 (drop_revs (revs s2) id))
    end
  end.

Definition revert_old (s : state) (id : Z) : option state :=
  match aget (revs s) id with
  | None => None
  | Some (aj, vj) =>
    let s1 := aundo_to (length (ajournal s)) s aj in
    match vundo_to_old (length (vjournal s1)) s1 vj with
    | None => None
    | Some s2 => Some (w_revs s2 (drop_revs (revs s2) id))
    end
  end.

Definition aentry_addr (e : aentry) : Z :=
  match e with JCreate a => a | JBal a => a | JDlgBal a _ => a | JDlgs a _ => a end.

Definition ventry_addr (e : ventry) : Z :=
  match e with VCreate a _ _ => a | VUpdate a _ _ => a | VDelete a _ => a end.

Definition finalise_adirty (s : state) : list Z :=
  fold_left (fun acc e =>
               let a := aentry_addr e in
               match aget (accts s) a with Some _ => sins a acc | None => acc end)
            (ajournal s) (adirty s).

(* Finalise: the validator part and clearJournalAndRefund *)
Definition finalise (s : state) : state :=
  let dirt := fold_left (fun acc e =>
                 let a := ventry_addr e in
                 match aget (vmap s) a with Some _ => sins a acc | None => acc end)
               (vjournal s) (vdirty s) in
  let adirt := finalise_adirty s in
  w_adirty (w_revs (w_ajournal (w_vjournal (w_vdirty s dirt) []) []) []) adirt.

Definition is_invalid (v : val) : bool := Z.leb (v_token v) 0 && Z.leb (v_stake v) 0.

Definition dl_neg (l : list (option dfrom)) : bool :=
  existsb (fun x => match x with Some e => Z.ltb (d_stake e) 0 || Z.ltb (d_token e) 0 | None => false end) l.
Definition val_neg (v : val) : bool :=
  Z.ltb (v_token v) 0 || Z.ltb (v_stake v) 0 || Z.ltb (v_stoken v) 0 || Z.ltb (v_sstake v) 0
  || Z.ltb (v_rdist v) 0 || Z.ltb (v_rtotal v) 0.

Definition k_neg (k : kstat) : bool :=
  Z.ltb (on_stake k) 0 || Z.ltb (on_token k) 0 || Z.ltb (off_stake k) 0 || Z.ltb (off_token k) 0.
Definition stat_neg (st : stat) : bool :=
  k_neg (k0 st) || k_neg (k1 st) || k_neg (k2 st) || k_neg (r1 st) || k_neg (r2 st) || k_neg (r3 st).

(* the validator loop of IntermediateRoot, addresses in ascending order
   (Go iterates a map; the effects commute unless a clamp fires) *)
Fixpoint root_vals (s : state) (dirty : list Z) : option state :=
  match dirty with
  | [] => Some s
  | a :: r =>
    match aget (vmap s) a with
    | None => root_vals s r
    | Some v =>
      if v_deleted v || is_invalid v then
        (* deleteValidator *)
        let v' := set_deleted v true in
        let s1 := w_vmap s (aset (vmap s) a v') in
        let s2 := w_vindex (w_t_vals s1 (adel (t_vals s1) a)) (srem a (vindex s1)) in
        if v_deleted v then root_vals s2 r                (* RemoveValidator has already taken it out of the statistics *)
        else match decr_stat (stat_ s2) v' with
             | None => None
             | Some st => root_vals (w_stat s2 st) r
             end
      else
        (* updateValidator *)
        if val_neg v || dl_neg (view s v) then None      (* rlp cannot encode a negative big.Int: panic *)
        else
          let s1 := w_t_vals s (aset (t_vals s) a (mkP v (view s v))) in
          root_vals (index_add s1 a) r
    end
  end.

Definition persist_acct (ac : acct) : acct := ac.

(* updateStateObject: rlp cannot encode a negative DelegationBalance (panic) *)
Definition acct_neg (s : state) : bool := existsb (fun p => Z.ltb (a_dbal (snd p)) 0) (accts s).

Definition intermediate_root (s : state) : option state :=
  let s0 := finalise s in
  if acct_neg s0 then None else
  match root_vals s0 (vdirty s0) with
  | None => None
  | Some s1 =>
    let s2 := w_t_index (w_vdirty s1 []) (Some (vindex s1)) in
    Some (if stat_neg (stat_ s2) then s2 else w_t_stat s2 (stat_ s2))
  end.

Fixpoint commit_blobs (dirty : list Z) (l : list (Z * acct)) (b : list (list Z)) : list (Z * acct) * list (list Z) :=
  match l with
  | [] => ([], b)
  | (a, ac) :: r =>
    let '(r', b') := commit_blobs dirty r b in
    if mem a dirty && a_ddirty ac then
      ((a, mkA (a_dbal ac) (a_hash ac) (a_loaded ac) false) :: r',
       match a_hash ac with [] => b' | h => h :: b' end)
    else ((a, ac) :: r', b')
  end.

(* Commit(true) followed by state.New on the returned roots *)
Definition commit_reload (s : state) : option state :=
  match intermediate_root s with
  | None => None
  | Some s1 =>
    let '(ac, b) := commit_blobs (adirty s1) (accts s1) (blobs s1) in
    let ac' := map (fun p => (fst p, mkA (a_dbal (snd p)) (a_hash (snd p)) false false)) ac in
    Some (mkS (arrs s1) [] (match t_index s1 with Some l => l | None => [] end) (t_stat s1)
              [] [] ac' [] [] 0 (t_vals s1) (t_index s1) (t_stat s1) b [])
  end.

(* Validator.DeepCopy: None = nil element dereferenced *)
Definition deep_copy (s : state) (v : val) : option (state * val) :=
  if Nat.eqb (v_len v) 0 then Some (s, v)
  else if has_nil (view s v) then None
  else let '(s1, aid) := alloc s (view s v) in Some (s1, set_view v aid (v_len v)).

Definition vj_dirties (s : state) : list Z :=
  fold_left (fun acc e => sins (ventry_addr e) acc) (vjournal s) [].

(* the two validator loops of Copy; acc = the copy's validatorObjects, dirty set, index *)
Fixpoint copy_vals1 (s : state) (l : list Z) (m : list (Z * val)) (dirt : list Z) : option (state * list (Z * val) * list Z) :=
  match l with
  | [] => Some (s, m, dirt)
  | a :: r =>
    match aget (vmap s) a with
    | None => copy_vals1 s r m dirt
    | Some v =>
      match deep_copy s v with
      | None => None
      | Some (s1, v') => copy_vals1 s1 r (aset m a v') (sins a dirt)
      end
    end
  end.
Fixpoint copy_vals2 (s : state) (l : list Z) (m : list (Z * val)) (dirt idx : list Z) : option (state * list (Z * val) * list Z * list Z) :=
  match l with
  | [] => Some (s, m, dirt, idx)
  | a :: r =>
    match aget m a with
    | Some _ => copy_vals2 s r m dirt idx
    | None =>
      match aget (vmap s) a with
      | None => None                                   (* nil interface type assertion *)
      | Some v =>
        match deep_copy s v with
        | None => None
        | Some (s1, v') => copy_vals2 s1 r (aset m a v') (sins a dirt) (sins a idx)
        end
      end
    end
  end.

(* StateDB.Copy; the model continues with the copy *)
Definition copy (s : state) : option state :=
  match copy_vals1 s (vj_dirties s) [] [] with
  | None => None
  | Some (s1, m1, d1) =>
    match copy_vals2 s1 (vdirty s) m1 d1 (vindex s) with
    | None => None
    | Some (s2, m2, d2, idx) =>
      let adirt := (finalise_adirty s) in
      let ac' := map (fun p => (fst p, if mem (fst p) adirt then snd p
                                       else mkA (a_dbal (snd p)) (a_hash (snd p)) false false)) (accts s) in
      Some (mkS (arrs s2) m2 idx (stat_ s) [] d2 ac' [] [] 0 (t_vals s) (t_index s) (t_stat s) (blobs s) adirt)
    end
  end.

(* GetValidatorsForUpdate: an empty in-memory index is reloaded from the trie
   (also when it is empty because every validator was removed since the last
   root: finding stale-index-reload); then every listed address that is
   not cached is fetched with getValidator (a failed fetch yields a typed nil
   inside a non-nil interface: no panic here) *)
Fixpoint list_vals (s : state) (l : list Z) : state :=
  match l with
  | [] => s
  | a :: r =>
    match aget (vmap s) a with
    | Some _ => list_vals s r
    | None => list_vals (fst (get_validator s a)) r
    end
  end.
Definition list_for_update (s : state) : option state :=
  let s1 := match vindex s with
            | [] => match t_index s with Some l => w_vindex s l | None => s end
            | _ => s
            end in
  Some (list_vals s1 (vindex s1)).

(* ---- operations ---------------------------------------------------------- *)

Inductive op :=
| OFund (a : Z)
| OCreate (a role status token stake : Z)
| OUpdate (a : Z) (u : upd)          (* old := Get(a); new := old.PartialCopy(); write u; UpdateValidator(new, old) *)
| OUpdateIn (a : Z) (u : upd)        (* live := Get(a); old := live.PartialCopy(); write u into live; UpdateValidator(live, old) *)
| ORemove (a : Z)
| ODelegate (d a amt : Z)            (* val := Get(a); UpdateDelegation(d, val, amt) *)
| OSnapshot
| ORevert (id : Z)
| OFinalise
| ORoot
| OCommitReload
| OCopy
| OList.

Definition step (s : state) (o : op) : option state :=
  match o with
  | OFund a => Some (fund s a)
  | OCreate a role status token stake => create_validator s a role status token stake
  | OUpdate a u =>
    match get_validator s a with
    | (s1, None) => Some s1
    | (s1, Some old) => update_validator s1 (set_oid (apply_upd old u) (fresh_oid s1)) old
    end
  | OUpdateIn a u =>
    (* the stored object is written and stays stored; nothing reads the pointer of a journal entry any more
       (7813a3d), so only the values matter: the same as OUpdate *)
    match get_validator s a with
    | (s1, None) => Some s1
    | (s1, Some old) => update_validator s1 (set_oid (apply_upd old u) (fresh_oid s1)) old
    end
  | ORemove a => remove_validator s a
  | ODelegate d a amt =>
    match get_validator s a with
    | (s1, None) => Some s1
    | (s1, Some v) => update_delegation s1 d v amt
    end
  | OSnapshot => Some (snapshot s)
  | ORevert id => revert s id
  | OFinalise => Some (finalise s)
  | ORoot => intermediate_root s
  | OCommitReload => commit_reload s
  | OCopy => copy s
  | OList => list_for_update s
  end.

(* the implementation before 7813a3d (selected by the harness when it detects that behaviour in the tree it
   runs against, so that the comparison stays meaningful and the oracle reports the defect): journal entries
   hold newVal by pointer and their undo reads it.  The live object keeps its place in the cache and in the
   entries that point at it; in the model it takes a fresh identity together with those entries, and the
   copy keeps the old one *)
Definition step_old (s : state) (o : op) : option state :=
  match o with
  | OUpdateIn a u =>
    match get_validator s a with
    | (s1, None) => Some s1
    | (s1, Some old) =>
      let nw := set_oid (apply_upd old u) (fresh_oid s1) in
      update_validator (w_vjournal s1 (map (retarget a old nw) (vjournal s1))) nw old
    end
  | ORevert id => revert_old s id
  | _ => step s o
  end.

Fixpoint run (s : state) (l : list op) : option state :=
  match l with
  | [] => Some s
  | o :: r => match step s o with None => None | Some s' => run s' r end
  end.
Fixpoint run_old (s : state) (l : list op) : option state :=
  match l with
  | [] => Some s
  | o :: r => match step_old s o with None => None | Some s' => run_old s' r end
  end.

(* value-level view of a validator: scalars + delegation list *)
Definition xval := (val * list dfrom)%type.
Definition norm (v : val) : val := set_oid (set_deleted (set_view v 0%nat 0%nat) false) 0%nat.
Fixpoint dget (l : list dfrom) (d : Z) : option dfrom :=
  match l with
  | [] => None
  | e :: r => if Z.eqb (d_addr e) d then Some e else dget r d
  end.
Fixpoint strip (l : list (option dfrom)) : option (list dfrom) :=
  match l with
  | [] => Some []
  | None :: _ => None
  | Some e :: r => match strip r with Some r' => Some (e :: r') | None => None end
  end.

(* ---- the property, executable -------------------------------------------- *)

(* what GetValidatorByMainAddr would return, without caching *)
Definition peek (s : state) (a : Z) : option (val * list (option dfrom)) :=
  match aget (vmap s) a with
  | Some v => if v_deleted v then None else Some (v, view s v)
  | None =>
    match aget (t_vals s) a with
    | None => None
    | Some p => if has_nil (p_dl p) then None else Some (p_v p, p_dl p)
    end
  end.

Definition keys {A} (m : list (Z * A)) : list Z := map fst m.
Definition universe (s : state) : list Z :=
  fold_left (fun acc a => sins a acc) (keys (vmap s) ++ keys (t_vals s)) [].
Definition live (s : state) : list (val * list (option dfrom)) :=
  flat_map (fun a => match peek s a with Some x => [x] | None => [] end) (universe s).

(* recomputation of the statistics from the records: plain sums; the uint64
   counters are compared modulo 2^64 (they are exact as long as there are fewer
   than 2^64 validators) *)
Definition kplus (a b : kstat) : kstat :=
  mkK (on_stake a + on_stake b) (on_token a + on_token b) (on_count a + on_count b)
      (off_stake a + off_stake b) (off_token a + off_token b) (off_count a + off_count b).
Definition k_contrib (v : val) : kstat :=
  if Z.eqb (v_status v) 1 then mkK (v_stake v) (v_token v) 1 0 0 0 else mkK 0 0 0 (v_stake v) (v_token v) 1.
Definition contrib (v : val) : stat :=
  let k := k_contrib v in
  if Z.eqb (v_role v) 1 then mkSt k k kzero k kzero kzero
  else if Z.eqb (v_role v) 2 then mkSt k k kzero kzero k kzero
  else if Z.eqb (v_role v) 3 then mkSt k kzero k kzero kzero k
  else stat_zero.
Definition stat_plus (a b : stat) : stat :=
  mkSt (kplus (k0 a) (k0 b)) (kplus (k1 a) (k1 b)) (kplus (k2 a) (k2 b))
       (kplus (r1 a) (r1 b)) (kplus (r2 a) (r2 b)) (kplus (r3 a) (r3 b)).
Definition total (l : list val) : stat := fold_right (fun v acc => stat_plus (contrib v) acc) stat_zero l.
Definition kwrap (k : kstat) : kstat :=
  mkK (on_stake k) (on_token k) (wrap64 (on_count k)) (off_stake k) (off_token k) (wrap64 (off_count k)).
Definition wrap_stat (st : stat) : stat :=
  mkSt (kwrap (k0 st)) (kwrap (k1 st)) (kwrap (k2 st)) (kwrap (r1 st)) (kwrap (r2 st)) (kwrap (r3 st)).
Definition recompute (l : list (val * list (option dfrom))) : stat := wrap_stat (total (map fst l)).

Definition k_eqb (a b : kstat) : bool :=
  Z.eqb (on_stake a) (on_stake b) && Z.eqb (on_token a) (on_token b) && Z.eqb (on_count a) (on_count b)
  && Z.eqb (off_stake a) (off_stake b) && Z.eqb (off_token a) (off_token b) && Z.eqb (off_count a) (off_count b).
Definition stat_eqb (a b : stat) : bool :=
  k_eqb (k0 a) (k0 b) && k_eqb (k1 a) (k1 b) && k_eqb (k2 a) (k2 b)
  && k_eqb (r1 a) (r1 b) && k_eqb (r2 a) (r2 b) && k_eqb (r3 a) (r3 b).

Definition dl_sum (f : dfrom -> Z) (l : list (option dfrom)) : Z :=
  fold_right (fun x acc => match x with Some e => f e + acc | None => acc end) 0 l.
Fixpoint dl_sorted (l : list (option dfrom)) : bool :=
  match l with
  | [] => true
  | None :: _ => false
  | Some e :: r =>
    match r with
    | Some e' :: _ => Z.ltb (d_addr e) (d_addr e') && dl_sorted r
    | None :: _ => false
    | [] => true
    end
  end.
Definition dl_units (l : list (option dfrom)) : bool :=
  forallb (fun x => match x with Some e => Z.eqb (d_stake e) (d_token e / stake_unit) | None => false end) l.

Definition val_sums (x : val * list (option dfrom)) : bool :=
  let '(v, l) := x in
  Z.eqb (v_token v) (v_stoken v + dl_sum d_token l)
  && Z.eqb (v_stake v) (v_sstake v + dl_sum d_stake l)
  && dl_sorted l.
Definition val_units (x : val * list (option dfrom)) : bool :=
  let '(v, l) := x in Z.eqb (v_sstake v) (v_stoken v / stake_unit) && dl_units l.

(* delegation links: delegator side = validator side *)
Definition dl_find (l : list (option dfrom)) (d : Z) : option dfrom :=
  fold_right (fun x acc => match x with Some e => if Z.eqb (d_addr e) d then Some e else acc | None => acc end) None l.
Definition blob_ok (s : state) (ac : acct) : bool :=
  match a_hash ac with [] => true | l => existsb (list_eqb Z.eqb l) (blobs s) end.
Definition acct_readable (s : state) (ac : acct) : bool := a_loaded ac || blob_ok s ac.
Definition acct_links (s : state) (d : Z) (ac : acct) : bool :=
  (* the list can be read; every listed validator exists and has a delegation
     from d; the balance is the sum of what d has delegated to the existing
     validators *)
  acct_readable s ac
  && forallb (fun a => match peek s a with
                    | Some (_, l) => match dl_find l d with Some _ => true | None => false end
                    | None => false end) (a_hash ac)
  && Z.eqb (a_dbal ac)
       (fold_right (fun x acc => match dl_find (snd x) d with Some e => d_token e + acc | None => acc end) 0 (live s)).
Definition val_links (s : state) (x : val * list (option dfrom)) : bool :=
  let '(v, l) := x in
  forallb (fun o => match o with
                    | Some e => match aget (accts s) (d_addr e) with
                                | Some ac => mem (v_addr v) (a_hash ac)
                                | None => false end
                    | None => false end) l.

Definition inv_stat (s : state) : bool := stat_eqb (stat_ s) (recompute (live s)).
Definition inv_sums (s : state) : bool := forallb val_sums (live s).
Definition inv_units (s : state) : bool := forallb val_units (live s).
Definition inv_index (s : state) : bool := list_eqb Z.eqb (vindex s) (map (fun x => v_addr (fst x)) (live s)).
Definition inv_links (s : state) : bool :=
  forallb (fun p => acct_links s (fst p) (snd p)) (accts s) && forallb (val_links s) (live s).

Definition inv_all (s : state) : bool :=
  inv_stat s && inv_sums s && inv_units s && inv_index s && inv_links s.

(* ---- correspondence runner ----------------------------------------------- *)

(* hash in primitive 63-bit integers (arithmetic modulo 2^63; the multiplier is
   odd, so any single differing element changes the hash) *)
Definition hstep (h : Uint63.int) (x : Z) : Uint63.int :=
  Uint63.add (Uint63.add (Uint63.mul h 1000003%uint63) (Uint63.of_Z x)) 7%uint63.
Definition hash_list (l : list Z) : Z := Uint63.to_Z (fold_left hstep l 17%uint63).

Definition b2z (b : bool) : Z := if b then 1 else 0.
Definition nz (n : nat) : Z := Z.of_nat n.

Definition obs_k (k : kstat) : list Z :=
  [on_stake k; on_token k; on_count k; off_stake k; off_token k; off_count k].
Definition obs_stat (st : stat) : list Z :=
  obs_k (k0 st) ++ obs_k (k1 st) ++ obs_k (k2 st) ++ obs_k (r1 st) ++ obs_k (r2 st) ++ obs_k (r3 st).
Definition obs_dl (l : list (option dfrom)) : list Z :=
  flat_map (fun x => match x with None => [-1] | Some e => [d_addr e; d_stake e; d_token e] end) l.
Definition obs_val (v : val) : list Z :=
  [v_role v; v_status v; v_token v; v_stake v; v_stoken v; v_sstake v; v_rdist v; v_rtotal v; v_misc v].

Definition obs (uv ua : list Z) (s : state) : list Z :=
  obs_stat (stat_ s)
  ++ nz (length (vindex s)) :: vindex s
  ++ flat_map (fun a => match aget (vmap s) a with
                        | None => [0]
                        | Some v => 1 :: b2z (v_deleted v) :: obs_val v
                                    ++ [nz (v_len v); nz (length (arr_of s (v_aid v)))] ++ obs_dl (view s v)
                        end) uv
  ++ flat_map (fun a => match aget (t_vals s) a with
                        | None => [0]
                        | Some p => if has_nil (p_dl p) then [2]   (* present, does not decode *)
                                    else 1 :: obs_val (p_v p) ++ nz (length (p_dl p)) :: obs_dl (p_dl p)
                        end) uv
  ++ (match t_index s with None => [-1] | Some l => nz (length l) :: l end)
  ++ obs_stat (t_stat s)
  ++ flat_map (fun a => match aget (accts s) a with
                        | None => [0]
                        | Some ac =>
                          1 :: a_dbal ac :: b2z (a_loaded ac) :: b2z (a_ddirty ac)
                          :: (if a_loaded ac then nz (length (a_hash ac)) :: a_hash ac
                              else match a_hash ac with
                                   | [] => [-2]
                                   | h => if existsb (list_eqb Z.eqb h) (blobs s)
                                          then -3 :: nz (length h) :: h else [-4]
                                   end)
                        end) ua
  ++ [nz (length (ajournal s)); nz (length (vjournal s)); nz (length (revs s)); next_id s]
  ++ nz (length (vdirty s)) :: vdirty s
  ++ nz (length (adirty s)) :: adirty s.

(* hashes of the observation after every op that did not panic *)
Fixpoint trace (pre : bool) (uv ua : list Z) (s : state) (l : list op) : list Z * bool :=
  match l with
  | [] => ([], false)
  | o :: r =>
    match (if pre then step_old s o else step s o) with
    | None => ([], true)
    | Some s' => let '(t, p) := trace pre uv ua s' r in (hash_list (obs uv ua s') :: t, p)
    end
  end.

Record case := mkCase {
  c_uv : list Z; c_ua : list Z; c_ops : list op;
  c_hashes : list Z;      (* implementation: hash of the observation after each completed op *)
  c_panic : bool }.       (* implementation panicked in the op after the last hash *)

(* pre = the harness found the behaviour from before 7813a3d in the tree it ran against *)
Definition case_ok (pre : bool) (c : case) : bool :=
  let '(t, p) := trace pre (c_uv c) (c_ua c) init (c_ops c) in
  list_eqb Z.eqb t (c_hashes c) && Bool.eqb p (c_panic c).

Fixpoint mismatches_from (pre : bool) (i : N) (l : list case) : list N :=
  match l with
  | [] => []
  | c :: r => if case_ok pre c then mismatches_from pre (i + 1)%N r else i :: mismatches_from pre (i + 1)%N r
  end.
Definition mismatches := mismatches_from false 0%N.
Definition mismatches_pre_7813a3d := mismatches_from true 0%N.

(* debugging aid: the raw observations of a case *)
Fixpoint obs_trace (uv ua : list Z) (s : state) (l : list op) : list (list Z) :=
  match l with
  | [] => []
  | o :: r => match step s o with None => [] | Some s' => obs uv ua s' :: obs_trace uv ua s' r end
  end.

(* ---- Validator.Less (validator.go): the order behind the voter indexes ------- *)
Definition u64 (x : Z) : Z := Z.abs x mod two64.        (* big.Int.Uint64() *)
Definition vless (a b : val) : bool :=
  if Z.eqb (u64 (v_stake a)) (u64 (v_stake b)) then
    if Z.eqb (v_token a) (v_token b) then Z.ltb (v_addr a) (v_addr b)
    else Z.ltb (v_token a) (v_token b)
  else Z.ltb (u64 (v_stake a)) (u64 (v_stake b)).
