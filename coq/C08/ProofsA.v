(* C08 - the property holds for the value-level semantics (Abstract.v) on every
   history whose operations meet the callers' discipline [a_pre], including
   reverts to any valid revision. *)
From VF.C08 Require Import Model Abstract.
From Coq Require Import Lia ZifyBool.
Local Open Scope Z_scope.

(* ---- sorted association lists ------------------------------------------- *)

Fixpoint ssorted {A} (m : list (Z * A)) : Prop :=
  match m with
  | [] => True
  | (k, _) :: r => (forall k' x, In (k', x) r -> k < k') /\ ssorted r
  end.

Lemma aget_In {A} (m : list (Z * A)) k x : aget m k = Some x -> In (k, x) m.
Proof.
  induction m as [|[k' y] r IH]; cbn; [discriminate|].
  destruct (Z.eqb_spec k' k) as [->|Hne]; intros H.
  - inversion H; subst; auto.
  - right; auto.
Qed.

Lemma In_aget {A} (m : list (Z * A)) k x : ssorted m -> In (k, x) m -> aget m k = Some x.
Proof.
  induction m as [|[k' y] r IH]; cbn; [tauto|].
  intros [Hlt Hs] [Heq|Hin].
  - inversion Heq; subst. now rewrite Z.eqb_refl.
  - destruct (Z.eqb_spec k' k) as [->|Hne]; [|auto].
    specialize (Hlt _ _ Hin). lia.
Qed.

Lemma aget_None_notin {A} (m : list (Z * A)) k x : aget m k = None -> ~ In (k, x) m.
Proof.
  induction m as [|[k' y] r IH]; cbn; [tauto|].
  destruct (Z.eqb_spec k' k) as [->|Hne]; [discriminate|].
  intros H [Heq|Hin]; [inversion Heq; congruence | now apply IH].
Qed.

Lemma aget_sset_same {A} (m : list (Z * A)) k x : aget (sset m k x) k = Some x.
Proof.
  induction m as [|[k' y] r IH]; cbn; [now rewrite Z.eqb_refl|].
  destruct (Z.ltb_spec k k'); cbn; [now rewrite Z.eqb_refl|].
  destruct (Z.eqb_spec k k') as [->|Hne]; cbn; [now rewrite Z.eqb_refl|].
  destruct (Z.eqb_spec k' k); [lia|auto].
Qed.

Lemma aget_sset_other {A} (m : list (Z * A)) k x k' : k' <> k -> aget (sset m k x) k' = aget m k'.
Proof.
  intros Hne. induction m as [|[k2 y] r IH]; cbn.
  - destruct (Z.eqb_spec k k'); [lia|reflexivity].
  - destruct (Z.ltb_spec k k2); cbn.
    + destruct (Z.eqb_spec k k'); [lia|reflexivity].
    + destruct (Z.eqb_spec k k2) as [->|Hne2]; cbn.
      * destruct (Z.eqb_spec k2 k'); [lia|reflexivity].
      * destruct (Z.eqb_spec k2 k'); [reflexivity|auto].
Qed.

Lemma aget_adel_other {A} (m : list (Z * A)) k k' : k' <> k -> aget (adel m k) k' = aget m k'.
Proof.
  intros Hne. induction m as [|[k2 y] r IH]; cbn; [reflexivity|].
  destruct (Z.eqb_spec k2 k) as [->|Hne2]; cbn.
  - destruct (Z.eqb_spec k k'); [lia|reflexivity].
  - destruct (Z.eqb_spec k2 k'); [reflexivity|auto].
Qed.

Lemma In_adel {A} (m : list (Z * A)) k p : In p (adel m k) -> In p m.
Proof.
  induction m as [|[k2 y] r IH]; cbn; [tauto|].
  destruct (Z.eqb_spec k2 k); cbn; tauto.
Qed.

Lemma ssorted_adel {A} (m : list (Z * A)) k : ssorted m -> ssorted (adel m k).
Proof.
  induction m as [|[k2 y] r IH]; cbn; [tauto|].
  intros [Hlt Hs]. destruct (Z.eqb_spec k2 k); cbn; [assumption|].
  split; [|auto]. intros k' x Hin. eapply Hlt, In_adel, Hin.
Qed.

Lemma aget_adel_same {A} (m : list (Z * A)) k : ssorted m -> aget (adel m k) k = None.
Proof.
  induction m as [|[k2 y] r IH]; cbn; [reflexivity|].
  intros [Hlt Hs]. destruct (Z.eqb_spec k2 k) as [->|Hne]; cbn.
  - destruct (aget r k) eqn:E; [|reflexivity].
    apply aget_In in E. specialize (Hlt _ _ E). lia.
  - destruct (Z.eqb_spec k2 k); [lia|auto].
Qed.

Lemma In_sset {A} (m : list (Z * A)) k x p : In p (sset m k x) -> p = (k, x) \/ In p m.
Proof.
  induction m as [|[k2 y] r IH]; cbn; [intuition congruence|].
  destruct (Z.ltb_spec k k2); cbn; [intuition congruence|].
  destruct (Z.eqb_spec k k2); cbn; [intuition congruence|].
  intros [H1|H1]; [tauto|]. apply IH in H1. tauto.
Qed.

Lemma ssorted_sset {A} (m : list (Z * A)) k x : ssorted m -> ssorted (sset m k x).
Proof.
  induction m as [|[k2 y] r IH]; cbn; [tauto|].
  intros [Hlt Hs]. destruct (Z.ltb_spec k k2); cbn.
  - split; [|tauto]. intros k' z [Heq|Hin]; [inversion Heq; subst; lia|].
    specialize (Hlt _ _ Hin). lia.
  - destruct (Z.eqb_spec k k2) as [->|Hne]; cbn; [tauto|].
    split; [|auto]. intros k' z Hin. apply In_sset in Hin as [Heq|Hin].
    + inversion Heq; subst. lia.
    + eauto.
Qed.

Lemma adel_sset_absent {A} (m : list (Z * A)) k x : ssorted m -> aget m k = None -> adel (sset m k x) k = m.
Proof.
  induction m as [|[k2 y] r IH]; cbn; [now rewrite Z.eqb_refl|].
  intros [Hlt Hs]. destruct (Z.eqb_spec k2 k) as [->|Hne]; [discriminate|]. intros Hn.
  destruct (Z.ltb_spec k k2); cbn; [now rewrite Z.eqb_refl|].
  destruct (Z.eqb_spec k k2); [lia|]. cbn.
  destruct (Z.eqb_spec k2 k); [lia|]. f_equal. auto.
Qed.

Lemma sset_sset_back {A} (m : list (Z * A)) k x y : ssorted m -> aget m k = Some y -> sset (sset m k x) k y = m.
Proof.
  induction m as [|[k2 z] r IH]; cbn; [discriminate|].
  intros [Hlt Hs]. destruct (Z.eqb_spec k2 k) as [->|Hne].
  - intros H; inversion H; subst. rewrite Z.ltb_irrefl, Z.eqb_refl. cbn. now rewrite Z.ltb_irrefl, Z.eqb_refl.
  - intros Hg. destruct (Z.ltb_spec k k2).
    + apply aget_In in Hg. specialize (Hlt _ _ Hg). lia.
    + destruct (Z.eqb_spec k k2); [lia|]. cbn.
      destruct (Z.ltb_spec k k2); [lia|]. destruct (Z.eqb_spec k k2); [lia|]. f_equal; auto.
Qed.

Lemma sset_same {A} (m : list (Z * A)) k y : ssorted m -> aget m k = Some y -> sset m k y = m.
Proof.
  induction m as [|[k2 z] r IH]; cbn; [discriminate|].
  intros [Hlt Hs]. destruct (Z.eqb_spec k2 k) as [->|Hne].
  - intros H; inversion H; subst. now rewrite Z.ltb_irrefl, Z.eqb_refl.
  - intros Hg. destruct (Z.ltb_spec k k2).
    + apply aget_In in Hg. specialize (Hlt _ _ Hg). lia.
    + destruct (Z.eqb_spec k k2); [lia|]. f_equal; auto.
Qed.

(* ---- sorted lists of addresses ------------------------------------------- *)

Fixpoint zsorted (l : list Z) : Prop :=
  match l with
  | [] => True
  | k :: r => (forall k', In k' r -> k < k') /\ zsorted r
  end.

Lemma mem_In k l : mem k l = true <-> In k l.
Proof.
  induction l as [|x r IH]; cbn; [split; [discriminate|tauto]|].
  destruct (Z.eqb_spec x k); cbn; [tauto|]. rewrite IH. split; [tauto|]. intros [H|H]; [lia|auto].
Qed.

Lemma In_sins k l x : In x (sins k l) <-> x = k \/ In x l.
Proof.
  induction l as [|y r IH]; cbn; [intuition|].
  destruct (Z.ltb_spec k y); cbn; [intuition|].
  destruct (Z.eqb_spec k y); cbn; [subst; intuition|]. rewrite IH. intuition.
Qed.

Lemma zsorted_sins k l : zsorted l -> zsorted (sins k l).
Proof.
  induction l as [|y r IH]; cbn; [tauto|].
  intros [Hlt Hs]. destruct (Z.ltb_spec k y); cbn.
  - split; [|tauto]. intros k' [->|Hin]; [lia|]. specialize (Hlt _ Hin). lia.
  - destruct (Z.eqb_spec k y); cbn; [tauto|]. split; [|auto].
    intros k' Hin. apply In_sins in Hin as [->|Hin]; [lia|auto].
Qed.

Lemma In_srem k l x : zsorted l -> (In x (srem k l) <-> x <> k /\ In x l).
Proof.
  induction l as [|y r IH]; cbn; [intuition|].
  intros [Hlt Hs]. destruct (Z.eqb_spec y k) as [->|Hne]; cbn.
  - split.
    + intros Hin. split; [|auto]. specialize (Hlt _ Hin). lia.
    + intros [Hx [Hy|Hin]]; [congruence|auto].
  - rewrite IH by auto. split.
    + intros [->|[Hx Hin]]; [split; [congruence|auto]|auto].
    + intros [Hx [->|Hin]]; auto.
Qed.

Lemma srem_In_sub k l x : In x (srem k l) -> In x l.
Proof.
  induction l as [|y r IH]; cbn; [tauto|]. destruct (Z.eqb_spec y k); cbn; tauto.
Qed.

Lemma zsorted_srem k l : zsorted l -> zsorted (srem k l).
Proof.
  induction l as [|y r IH]; cbn; [tauto|].
  intros [Hlt Hs]. destruct (Z.eqb_spec y k); cbn; [assumption|]. split; [|auto].
  intros k' Hin. apply Hlt. eapply srem_In_sub, Hin.
Qed.

Lemma srem_sins_absent k l : zsorted l -> ~ In k l -> srem k (sins k l) = l.
Proof.
  induction l as [|y r IH]; cbn; [now rewrite Z.eqb_refl|].
  intros [Hlt Hs] Hn. destruct (Z.ltb_spec k y); cbn; [now rewrite Z.eqb_refl|].
  destruct (Z.eqb_spec k y); [subst; tauto|]. cbn.
  destruct (Z.eqb_spec y k); [lia|]. f_equal. apply IH; tauto.
Qed.

Lemma sins_present k l : zsorted l -> In k l -> sins k l = l.
Proof.
  induction l as [|y r IH]; cbn; [tauto|].
  intros [Hlt Hs] [->|Hin].
  - now rewrite Z.ltb_irrefl, Z.eqb_refl.
  - specialize (Hlt _ Hin). destruct (Z.ltb_spec k y); [lia|].
    destruct (Z.eqb_spec k y); [lia|]. f_equal; auto.
Qed.

Lemma sins_srem_present k l : zsorted l -> In k l -> sins k (srem k l) = l.
Proof.
  induction l as [|y r IH]; cbn; [tauto|].
  intros [Hlt Hs] [->|Hin].
  - rewrite Z.eqb_refl. destruct r as [|z r']; cbn; [reflexivity|].
    assert (k < z) by (apply Hlt; cbn; auto). destruct (Z.ltb_spec k z); [reflexivity|lia].
  - specialize (Hlt _ Hin). destruct (Z.eqb_spec y k); [lia|]. cbn.
    destruct (Z.ltb_spec k y); [lia|]. destruct (Z.eqb_spec k y); [lia|]. f_equal; auto.
Qed.

Lemma ssorted_keys {A} (m : list (Z * A)) : ssorted m -> zsorted (map fst m).
Proof.
  induction m as [|[k y] r IH]; cbn; [tauto|]. intros [Hlt Hs]. split; [|auto].
  intros k' Hin. apply in_map_iff in Hin as [[k2 z] [Heq Hin]]. cbn in Heq; subst. eauto.
Qed.

Lemma keys_sset {A} (m : list (Z * A)) k x : map fst (sset m k x) = sins k (map fst m).
Proof.
  induction m as [|[k2 y] r IH]; cbn; [reflexivity|].
  destruct (Z.ltb_spec k k2); cbn; [reflexivity|].
  destruct (Z.eqb_spec k k2) as [->|Hne]; cbn; [reflexivity|]. f_equal. auto.
Qed.

Lemma keys_adel {A} (m : list (Z * A)) k : map fst (adel m k) = srem k (map fst m).
Proof.
  induction m as [|[k2 y] r IH]; cbn; [reflexivity|].
  destruct (Z.eqb_spec k2 k); cbn; [reflexivity|]. f_equal. auto.
Qed.

Lemma aget_keys {A} (m : list (Z * A)) k : In k (map fst m) <-> aget m k <> None.
Proof.
  induction m as [|[k2 y] r IH]; cbn; [intuition|].
  destruct (Z.eqb_spec k2 k); [intuition congruence|]. rewrite <- IH. intuition.
Qed.

(* ---- sums over association lists ----------------------------------------- *)

Fixpoint lsum {A} (g : A -> Z) (m : list (Z * A)) : Z :=
  match m with [] => 0 | p :: r => g (snd p) + lsum g r end.

Lemma lsum_sset_absent {A} (g : A -> Z) (m : list (Z * A)) k x :
  aget m k = None -> lsum g (sset m k x) = g x + lsum g m.
Proof.
  induction m as [|[k2 y] r IH]; cbn; [lia|].
  destruct (Z.eqb_spec k2 k) as [->|Hne]; [discriminate|]. intros Hn.
  destruct (Z.ltb_spec k k2); cbn; [lia|].
  destruct (Z.eqb_spec k k2); [lia|]. cbn. rewrite IH by auto. lia.
Qed.

Lemma lsum_sset_present {A} (g : A -> Z) (m : list (Z * A)) k x y :
  ssorted m -> aget m k = Some y -> lsum g (sset m k x) = g x - g y + lsum g m.
Proof.
  induction m as [|[k2 z] r IH]; cbn; [discriminate|].
  intros [Hlt Hs]. destruct (Z.eqb_spec k2 k) as [->|Hne].
  - intros H; inversion H; subst. rewrite Z.ltb_irrefl, Z.eqb_refl. cbn. lia.
  - intros Hg. destruct (Z.ltb_spec k k2).
    + apply aget_In in Hg. specialize (Hlt _ _ Hg). lia.
    + destruct (Z.eqb_spec k k2); [lia|]. cbn. rewrite (IH Hs Hg). lia.
Qed.

Lemma lsum_adel {A} (g : A -> Z) (m : list (Z * A)) k y :
  aget m k = Some y -> lsum g (adel m k) = lsum g m - g y.
Proof.
  induction m as [|[k2 z] r IH]; cbn; [discriminate|].
  destruct (Z.eqb_spec k2 k) as [->|Hne].
  - intros H; inversion H; subst. lia.
  - intros Hg. cbn. rewrite IH by auto. lia.
Qed.

Lemma lsum_zero {A} (g : A -> Z) (m : list (Z * A)) :
  (forall k x, In (k, x) m -> g x = 0) -> lsum g m = 0.
Proof.
  induction m as [|[k2 z] r IH]; cbn; [reflexivity|]. intros H.
  rewrite IH by (intros; eapply H; eauto). rewrite (H k2 z) by auto. reflexivity.
Qed.

Lemma lsum_ext {A} (g h : A -> Z) (m : list (Z * A)) :
  (forall k x, In (k, x) m -> g x = h x) -> lsum g m = lsum h m.
Proof.
  induction m as [|[k2 z] r IH]; cbn; [reflexivity|]. intros H.
  rewrite IH by (intros; eapply H; eauto). rewrite (H k2 z) by auto. reflexivity.
Qed.

(* ---- statistics as sums ---------------------------------------------------- *)

Definition k_nonneg (k : kstat) : Prop :=
  0 <= on_stake k /\ 0 <= on_token k /\ 0 <= off_stake k /\ 0 <= off_token k.
Definition stat_nonneg (st : stat) : Prop :=
  k_nonneg (k0 st) /\ k_nonneg (k1 st) /\ k_nonneg (k2 st) /\ k_nonneg (r1 st) /\ k_nonneg (r2 st) /\ k_nonneg (r3 st).

Lemma kplus_zero_l k : kplus kzero k = k.
Proof. destruct k; reflexivity. Qed.

Lemma kplus_swap a b c : kplus a (kplus b c) = kplus b (kplus a c).
Proof. destruct a, b, c; unfold kplus; cbn; f_equal; lia. Qed.

Lemma stat_plus_swap a b c : stat_plus a (stat_plus b c) = stat_plus b (stat_plus a c).
Proof.
  destruct a, b, c; unfold stat_plus; cbn [Model.k0 Model.k1 Model.k2 Model.r1 Model.r2 Model.r3].
  f_equal; apply kplus_swap.
Qed.

Lemma wrap64_idem_add x : wrap64 (wrap64 x + 1) = wrap64 (1 + x).
Proof. unfold wrap64. rewrite Zplus_mod_idemp_l. f_equal. lia. Qed.
Lemma wrap64_idem_sub x : wrap64 (wrap64 (1 + x) - 1) = wrap64 x.
Proof. unfold wrap64. rewrite Zminus_mod_idemp_l. f_equal. lia. Qed.

Lemma k_add_wrap K v : k_add (kwrap K) v = kwrap (kplus (k_contrib v) K).
Proof.
  unfold k_add, k_contrib, kwrap, kplus. destruct K as [a b c d e f]; cbn.
  destruct (Z.eqb (v_status v) 1); cbn; f_equal; try lia; try apply wrap64_idem_add.
Qed.

Lemma csub_add a b : 0 <= a -> csub (b + a) b = a.
Proof. intros H. unfold csub. destruct (Z.leb_spec b (b + a)); lia. Qed.

Lemma k_sub_wrap K v : k_nonneg K -> k_sub (kwrap (kplus (k_contrib v) K)) v = kwrap K.
Proof.
  intros (H1 & H2 & H3 & H4).
  unfold k_sub, k_contrib, kwrap, kplus. destruct K as [a b c d e f]; cbn in *.
  destruct (Z.eqb (v_status v) 1); cbn; f_equal; try lia;
    try (apply csub_add; assumption); try apply wrap64_idem_sub.
Qed.

Lemma kwrap_zero_l K : kwrap (kplus kzero K) = kwrap K.
Proof. now rewrite kplus_zero_l. Qed.

Lemma role_cases r : role_ok r = true -> r = 1 \/ r = 2 \/ r = 3.
Proof. unfold role_ok. lia. Qed.

Lemma incr_wrap T v : role_ok (v_role v) = true ->
  incr_stat (wrap_stat T) v = Some (wrap_stat (stat_plus (contrib v) T)).
Proof.
  intros Hr. apply role_cases in Hr. unfold incr_stat, stat_app, contrib, wrap_stat, stat_plus.
  destruct T as [a b c d e f]; cbn [Model.k0 Model.k1 Model.k2 Model.r1 Model.r2 Model.r3].
  destruct Hr as [E|[E|E]]; rewrite E; cbn [Z.eqb Pos.eqb Model.k0 Model.k1 Model.k2 Model.r1 Model.r2 Model.r3]; rewrite ?k_add_wrap, ?kplus_zero_l; reflexivity.
Qed.

Lemma decr_wrap R v : role_ok (v_role v) = true -> stat_nonneg R ->
  decr_stat (wrap_stat (stat_plus (contrib v) R)) v = Some (wrap_stat R).
Proof.
  intros Hr (N0 & N1 & N2 & N3 & N4 & N5). apply role_cases in Hr.
  unfold decr_stat, stat_app, contrib, wrap_stat, stat_plus.
  destruct R as [a b c d e f]; cbn [Model.k0 Model.k1 Model.k2 Model.r1 Model.r2 Model.r3] in *.
  destruct Hr as [E|[E|E]]; rewrite E; cbn [Z.eqb Pos.eqb Model.k0 Model.k1 Model.k2 Model.r1 Model.r2 Model.r3]; rewrite ?k_sub_wrap, ?kplus_zero_l by assumption; reflexivity.
Qed.

Lemma contrib_stake_equal a b : stake_equal a b = true -> contrib a = contrib b.
Proof.
  unfold stake_equal, contrib, k_contrib. intros H.
  assert (v_role a = v_role b /\ v_stake a = v_stake b /\ v_token a = v_token b /\ v_status a = v_status b) as (-> & -> & -> & ->) by lia.
  reflexivity.
Qed.

(* the adjustment of UpdateValidator on a statistic that contains [minus] *)
Lemma adjust_wrap R plus minus :
  role_ok (v_role plus) = true -> role_ok (v_role minus) = true -> stat_nonneg R ->
  a_adjust (wrap_stat (stat_plus (contrib minus) R)) plus minus = wrap_stat (stat_plus (contrib plus) R).
Proof.
  intros Hp Hm HR. unfold a_adjust. destruct (stake_equal plus minus) eqn:E.
  - now rewrite (contrib_stake_equal _ _ E).
  - unfold a_decr. rewrite decr_wrap by assumption. cbn [ostat].
    unfold a_incr. rewrite incr_wrap by assumption. reflexivity.
Qed.

Definition tot (m : list (Z * xval)) : stat := total (map (fun p => fst (snd p)) m).

Lemma tot_cons k x m : tot ((k, x) :: m) = stat_plus (contrib (fst x)) (tot m).
Proof. reflexivity. Qed.

Lemma tot_sset_absent m k x : aget m k = None -> tot (sset m k x) = stat_plus (contrib (fst x)) (tot m).
Proof.
  induction m as [|[k2 y] r IH]; cbn [sset aget]; [reflexivity|].
  destruct (Z.eqb_spec k2 k) as [->|Hne]; [discriminate|]. intros Hn.
  destruct (Z.ltb_spec k k2); [reflexivity|].
  destruct (Z.eqb_spec k k2); [lia|]. rewrite !tot_cons, IH by auto. apply stat_plus_swap.
Qed.

Lemma tot_adel m k y : aget m k = Some y -> tot m = stat_plus (contrib (fst y)) (tot (adel m k)).
Proof.
  induction m as [|[k2 z] r IH]; cbn [adel aget]; [discriminate|].
  destruct (Z.eqb_spec k2 k) as [->|Hne].
  - intros H; inversion H; subst. reflexivity.
  - intros Hg. rewrite !tot_cons, (IH Hg). apply stat_plus_swap.
Qed.

Lemma tot_sset_present m k x y : ssorted m -> aget m k = Some y ->
  tot (sset m k x) = stat_plus (contrib (fst x)) (tot (adel m k)).
Proof.
  induction m as [|[k2 z] r IH]; cbn [sset adel aget ssorted]; [discriminate|].
  intros [Hlt Hs]. destruct (Z.eqb_spec k2 k) as [->|Hne].
  - intros H; inversion H; subst. rewrite Z.ltb_irrefl, Z.eqb_refl. reflexivity.
  - intros Hg. destruct (Z.ltb_spec k k2).
    + apply aget_In in Hg. specialize (Hlt _ _ Hg). lia.
    + destruct (Z.eqb_spec k k2); [lia|]. rewrite !tot_cons, (IH Hs Hg). apply stat_plus_swap.
Qed.

Lemma k_nonneg_plus a b : k_nonneg a -> k_nonneg b -> k_nonneg (kplus a b).
Proof. unfold k_nonneg, kplus; cbn; lia. Qed.
Lemma k_nonneg_zero : k_nonneg kzero.
Proof. unfold k_nonneg; cbn; lia. Qed.
Lemma k_nonneg_contrib v : 0 <= v_stake v -> 0 <= v_token v -> k_nonneg (k_contrib v).
Proof. unfold k_nonneg, k_contrib. destruct (Z.eqb (v_status v) 1); cbn; lia. Qed.

Lemma stat_nonneg_contrib v : 0 <= v_stake v -> 0 <= v_token v -> stat_nonneg (contrib v).
Proof.
  intros H1 H2. pose proof (k_nonneg_contrib v H1 H2). pose proof k_nonneg_zero.
  unfold contrib. destruct (Z.eqb (v_role v) 1); [|destruct (Z.eqb (v_role v) 2); [|destruct (Z.eqb (v_role v) 3)]];
    unfold stat_nonneg; cbn; tauto.
Qed.
Lemma stat_nonneg_plus a b : stat_nonneg a -> stat_nonneg b -> stat_nonneg (stat_plus a b).
Proof.
  unfold stat_nonneg, stat_plus; cbn. intros (?&?&?&?&?&?) (?&?&?&?&?&?).
  repeat split; apply k_nonneg_plus; assumption.
Qed.

Lemma tot_nonneg m : (forall k x, In (k, x) m -> 0 <= v_stake (fst x) /\ 0 <= v_token (fst x)) -> stat_nonneg (tot m).
Proof.
  induction m as [|[k x] r IH]; intros H.
  - unfold tot; cbn. pose proof k_nonneg_zero. unfold stat_nonneg; cbn; tauto.
  - rewrite tot_cons. apply stat_nonneg_plus.
    + apply stat_nonneg_contrib; apply (H k x); cbn; auto.
    + apply IH. intros; eapply H; cbn; eauto.
Qed.

(* ---- delegation lists ------------------------------------------------------ *)

Fixpoint dsorted (l : list dfrom) : Prop :=
  match l with
  | [] => True
  | e :: r => (forall e', In e' r -> d_addr e < d_addr e') /\ dsorted r
  end.
Fixpoint dsum (g : dfrom -> Z) (l : list dfrom) : Z :=
  match l with [] => 0 | e :: r => g e + dsum g r end.

Lemma dget_In l d e : dget l d = Some e -> In e l /\ d_addr e = d.
Proof.
  induction l as [|x r IH]; cbn; [discriminate|].
  destruct (Z.eqb_spec (d_addr x) d); intros H.
  - inversion H; subst; auto.
  - apply IH in H. tauto.
Qed.

Lemma In_dget l e : dsorted l -> In e l -> dget l (d_addr e) = Some e.
Proof.
  induction l as [|x r IH]; cbn; [tauto|].
  intros [Hlt Hs] [->|Hin]; [now rewrite Z.eqb_refl|].
  specialize (Hlt _ Hin). destruct (Z.eqb_spec (d_addr x) (d_addr e)); [lia|auto].
Qed.

Lemma dget_dset_same l e : dget (dset l e) (d_addr e) = Some e.
Proof.
  induction l as [|x r IH]; cbn; [now rewrite Z.eqb_refl|].
  destruct (Z.ltb_spec (d_addr e) (d_addr x)); cbn; [now rewrite Z.eqb_refl|].
  destruct (Z.eqb_spec (d_addr e) (d_addr x)); cbn; [now rewrite Z.eqb_refl|].
  destruct (Z.eqb_spec (d_addr x) (d_addr e)); [lia|auto].
Qed.

Lemma dget_dset_other l e d : d <> d_addr e -> dget (dset l e) d = dget l d.
Proof.
  intros Hne. induction l as [|x r IH]; cbn.
  - destruct (Z.eqb_spec (d_addr e) d); [lia|reflexivity].
  - destruct (Z.ltb_spec (d_addr e) (d_addr x)); cbn.
    + destruct (Z.eqb_spec (d_addr e) d); [lia|reflexivity].
    + destruct (Z.eqb_spec (d_addr e) (d_addr x)) as [E|E]; cbn.
      * destruct (Z.eqb_spec (d_addr e) d); [lia|]. destruct (Z.eqb_spec (d_addr x) d); [lia|reflexivity].
      * destruct (Z.eqb_spec (d_addr x) d); [reflexivity|auto].
Qed.

Lemma dget_ddel_other l d d' : d' <> d -> dget (ddel l d) d' = dget l d'.
Proof.
  intros Hne. induction l as [|x r IH]; cbn; [reflexivity|].
  destruct (Z.eqb_spec (d_addr x) d) as [E|E]; cbn.
  - destruct (Z.eqb_spec (d_addr x) d'); [lia|reflexivity].
  - destruct (Z.eqb_spec (d_addr x) d'); [reflexivity|auto].
Qed.

Lemma In_ddel l d x : In x (ddel l d) -> In x l.
Proof. induction l as [|y r IH]; cbn; [tauto|]. destruct (Z.eqb_spec (d_addr y) d); cbn; tauto. Qed.

Lemma In_dset l e x : In x (dset l e) -> x = e \/ In x l.
Proof.
  induction l as [|y r IH]; cbn; [intuition congruence|].
  destruct (Z.ltb_spec (d_addr e) (d_addr y)); cbn; [intuition congruence|].
  destruct (Z.eqb_spec (d_addr e) (d_addr y)); cbn; [intuition congruence|].
  intros [H1|H1]; [tauto|]. apply IH in H1. tauto.
Qed.

Lemma In_dset_old l e x : In x l -> d_addr x <> d_addr e -> In x (dset l e).
Proof.
  induction l as [|y r IH]; cbn; [tauto|].
  intros Hin Hne. destruct (Z.ltb_spec (d_addr e) (d_addr y)); cbn; [tauto|].
  destruct (Z.eqb_spec (d_addr e) (d_addr y)) as [E|E]; cbn.
  - destruct Hin as [->|Hin]; [lia|auto].
  - destruct Hin as [->|Hin]; auto.
Qed.

Lemma dsorted_ddel l d : dsorted l -> dsorted (ddel l d).
Proof.
  induction l as [|y r IH]; cbn; [tauto|]. intros [Hlt Hs].
  destruct (Z.eqb_spec (d_addr y) d); cbn; [assumption|]. split; [|auto].
  intros e' Hin. eapply Hlt, In_ddel, Hin.
Qed.

Lemma dget_ddel_same l d : dsorted l -> dget (ddel l d) d = None.
Proof.
  induction l as [|y r IH]; cbn; [reflexivity|]. intros [Hlt Hs].
  destruct (Z.eqb_spec (d_addr y) d) as [E|E]; cbn.
  - destruct (dget r d) eqn:G; [|reflexivity]. apply dget_In in G as [Hin Ha].
    specialize (Hlt _ Hin). lia.
  - destruct (Z.eqb_spec (d_addr y) d); [lia|auto].
Qed.

Lemma dsorted_dset l e : dsorted l -> dsorted (dset l e).
Proof.
  induction l as [|y r IH]; cbn; [tauto|]. intros [Hlt Hs].
  destruct (Z.ltb_spec (d_addr e) (d_addr y)); cbn.
  - split; [|tauto]. intros e' [<-|Hin]; [lia|]. specialize (Hlt _ Hin). lia.
  - destruct (Z.eqb_spec (d_addr e) (d_addr y)) as [E|E]; cbn.
    + split; [|assumption]. intros e' Hin. specialize (Hlt _ Hin). lia.
    + split; [|auto]. intros e' Hin. apply In_dset in Hin as [->|Hin]; [lia|auto].
Qed.

Lemma dsum_dset_absent g l e : dget l (d_addr e) = None -> dsum g (dset l e) = g e + dsum g l.
Proof.
  induction l as [|y r IH]; cbn; [lia|].
  destruct (Z.eqb_spec (d_addr y) (d_addr e)) as [E|E]; [discriminate|]. intros Hn.
  destruct (Z.ltb_spec (d_addr e) (d_addr y)); cbn; [lia|].
  destruct (Z.eqb_spec (d_addr e) (d_addr y)); [lia|]. cbn. rewrite IH by auto. lia.
Qed.

Lemma dsum_dset_present g l e y : dsorted l -> dget l (d_addr e) = Some y -> dsum g (dset l e) = g e - g y + dsum g l.
Proof.
  induction l as [|z r IH]; cbn; [discriminate|]. intros [Hlt Hs].
  destruct (Z.eqb_spec (d_addr z) (d_addr e)) as [E|E].
  - intros H; inversion H; subst. destruct (Z.ltb_spec (d_addr e) (d_addr y)); [lia|].
    destruct (Z.eqb_spec (d_addr e) (d_addr y)); [|lia]. cbn. lia.
  - intros Hg. destruct (Z.ltb_spec (d_addr e) (d_addr z)).
    + apply dget_In in Hg as [Hin Ha]. specialize (Hlt _ Hin). lia.
    + destruct (Z.eqb_spec (d_addr e) (d_addr z)); [lia|]. cbn. rewrite (IH Hs Hg). lia.
Qed.

Lemma dsum_ddel g l d y : dget l d = Some y -> dsum g (ddel l d) = dsum g l - g y.
Proof.
  induction l as [|z r IH]; cbn; [discriminate|].
  destruct (Z.eqb_spec (d_addr z) d) as [E|E].
  - intros H; inversion H; subst. lia.
  - intros Hg. cbn. rewrite IH by auto. lia.
Qed.

Lemma dsum_pos_nil l : (forall e, In e l -> 0 < d_token e) -> dsum d_token l <= 0 -> l = [].
Proof.
  destruct l as [|e r]; [reflexivity|]. intros Hp Hs. exfalso.
  assert (forall r, (forall e, In e r -> 0 < d_token e) -> 0 <= dsum d_token r) as Hnn.
  { induction r0 as [|x r0 IH]; cbn; [lia|]. intros H. specialize (IH (fun e He => H e (or_intror He))).
    specialize (H x (or_introl eq_refl)). lia. }
  cbn in Hs. specialize (Hnn r (fun e He => Hp e (or_intror He))). specialize (Hp e (or_introl eq_refl)). lia.
Qed.

(* ---- the invariant --------------------------------------------------------- *)

Definition tokd (d : Z) (x : xval) : Z := match dget (snd x) d with Some e => d_token e | None => 0 end.

Definition dl_ok (l : list dfrom) : Prop :=
  dsorted l /\ forall e, In e l -> 0 < d_token e /\ d_stake e = d_token e / stake_unit.

Definition val_ok (a : Z) (x : xval) : Prop :=
  v_addr (fst x) = a /\ norm (fst x) = fst x /\ role_ok (v_role (fst x)) = true /\
  0 <= v_stoken (fst x) /\ v_sstake (fst x) = v_stoken (fst x) / stake_unit /\
  v_token (fst x) = v_stoken (fst x) + dsum d_token (snd x) /\
  v_stake (fst x) = v_sstake (fst x) + dsum d_stake (snd x) /\
  dl_ok (snd x) /\ 0 <= v_rdist (fst x) /\ 0 <= v_rtotal (fst x).

Record GoodV (c : acore) : Prop := {
  g_sorted : ssorted (xs c);
  g_vals : forall a x, aget (xs c) a = Some x -> val_ok a x;
  g_stat : xstat c = wrap_stat (tot (xs c));
  g_index : xindex c = map fst (xs c) }.

Record GoodL (c : acore) : Prop := {
  g_asorted : ssorted (xaccts c);
  g_lst : forall d bal lst, aget (xaccts c) d = Some (bal, lst) -> zsorted lst;
  g_link : forall d bal lst a, aget (xaccts c) d = Some (bal, lst) ->
             (In a lst <-> exists x, aget (xs c) a = Some x /\ dget (snd x) d <> None);
  g_bal : forall d bal lst, aget (xaccts c) d = Some (bal, lst) -> bal = lsum (tokd d) (xs c);
  g_owner : forall a x e, aget (xs c) a = Some x -> In e (snd x) -> aget (xaccts c) (d_addr e) <> None }.

Definition Good (c : acore) : Prop := GoodV c /\ GoodL c.

Lemma unit_pos : 0 < stake_unit.
Proof. reflexivity. Qed.

Lemma dsum_stake_nonneg l : (forall e, In e l -> 0 < d_token e /\ d_stake e = d_token e / stake_unit) -> 0 <= dsum d_stake l.
Proof.
  induction l as [|e r IH]; cbn; [lia|]. intros H.
  specialize (IH (fun e He => H e (or_intror He))). destruct (H e (or_introl eq_refl)) as [Hp He].
  rewrite He. pose proof (Z.div_pos (d_token e) stake_unit). pose proof unit_pos. lia.
Qed.
Lemma dsum_token_nonneg l : (forall e, In e l -> 0 < d_token e /\ d_stake e = d_token e / stake_unit) -> 0 <= dsum d_token l.
Proof.
  induction l as [|e r IH]; cbn; [lia|]. intros H.
  specialize (IH (fun e He => H e (or_intror He))). destruct (H e (or_introl eq_refl)) as [Hp He]. lia.
Qed.

Lemma val_ok_nonneg a x : val_ok a x -> 0 <= v_stake (fst x) /\ 0 <= v_token (fst x).
Proof.
  intros (_ & _ & _ & H1 & H2 & H3 & H4 & [_ H5] & _).
  pose proof (dsum_stake_nonneg _ H5). pose proof (dsum_token_nonneg _ H5).
  pose proof (Z.div_pos (v_stoken (fst x)) stake_unit). pose proof unit_pos. lia.
Qed.

Lemma norm_iff v : norm v = v <-> (v_aid v = 0%nat /\ v_len v = 0%nat /\ v_deleted v = false).
Proof.
  destruct v; unfold norm, set_deleted, set_view; cbn. split.
  - intros H; inversion H; auto.
  - intros (-> & -> & ->); reflexivity.
Qed.

Lemma goodV_nonneg_rest c a : GoodV c -> stat_nonneg (tot (adel (xs c) a)).
Proof.
  intros G. apply tot_nonneg. intros k x Hin. apply In_adel in Hin.
  apply (In_aget _ _ _ (g_sorted _ G)) in Hin. eapply val_ok_nonneg, (g_vals _ G), Hin.
Qed.

Lemma goodV_nonneg c : GoodV c -> stat_nonneg (tot (xs c)).
Proof.
  intros G. apply tot_nonneg. intros k x Hin.
  apply (In_aget _ _ _ (g_sorted _ G)) in Hin. eapply val_ok_nonneg, (g_vals _ G), Hin.
Qed.

Lemma val_ok_role a x : val_ok a x -> role_ok (v_role (fst x)) = true.
Proof. intros H; apply H. Qed.

(* replacing the value of an existing validator *)
Lemma goodV_update c a nw old :
  GoodV c -> aget (xs c) a = Some old -> val_ok a nw -> GoodV (c_update_validator c a nw old).
Proof.
  intros G Hold Hnw. pose proof (g_vals _ G _ _ Hold) as Hok.
  unfold c_update_validator, c_set_validator. constructor; cbn.
  - apply ssorted_sset, G.
  - intros a' x. destruct (Z.eq_dec a' a) as [->|Hne].
    + rewrite aget_sset_same. intros H; inversion H; subst; assumption.
    + rewrite aget_sset_other by assumption. apply G.
  - rewrite (g_stat _ G), (tot_adel _ _ _ Hold), (tot_sset_present _ _ _ _ (g_sorted _ G) Hold).
    apply adjust_wrap; [apply Hnw | apply Hok | apply goodV_nonneg_rest, G].
  - rewrite keys_sset, (g_index _ G). reflexivity.
Qed.

Lemma index_present c a x : GoodV c -> aget (xs c) a = Some x -> sins a (xindex c) = xindex c.
Proof.
  intros G H. rewrite (g_index _ G). apply sins_present; [apply ssorted_keys, G|].
  apply aget_keys. congruence.
Qed.

Lemma vundo_update c a nw old :
  GoodV c -> aget (xs c) a = Some old -> val_ok a nw ->
  c_vundo1 (c_update_validator c a nw old) (XUpdate a nw old) = c.
Proof.
  intros G Hold Hnw. pose proof (g_vals _ G _ _ Hold) as Hok.
  unfold c_vundo1, c_update_validator, c_set_validator. destruct c as [m idx st ac]; cbn in *.
  f_equal.
  - apply sset_sset_back; [apply G|assumption].
  - pose proof (index_present _ _ _ G Hold) as Hi. cbn in Hi. rewrite Hi, Hi. reflexivity.
  - rewrite (g_stat _ G); cbn. rewrite (tot_adel _ _ _ Hold).
    rewrite adjust_wrap; [|apply Hnw | apply Hok | apply (goodV_nonneg_rest _ a G)].
    apply adjust_wrap; [apply Hok | apply Hnw | apply (goodV_nonneg_rest _ a G)].
Qed.

(* adding a new validator *)
Lemma goodV_create c a x :
  GoodV c -> aget (xs c) a = None -> val_ok a x ->
  GoodV (let c1 := c_set_validator c a x in c_stat c1 (a_incr (xstat c1) (fst x))).
Proof.
  intros G Hn Hx. unfold c_set_validator. constructor; cbn.
  - apply ssorted_sset, G.
  - intros a' y. destruct (Z.eq_dec a' a) as [->|Hne].
    + rewrite aget_sset_same. intros H; inversion H; subst; assumption.
    + rewrite aget_sset_other by assumption. apply G.
  - rewrite (g_stat _ G), (tot_sset_absent _ _ _ Hn). unfold a_incr. rewrite incr_wrap by apply Hx. reflexivity.
  - rewrite keys_sset, (g_index _ G). reflexivity.
Qed.

Lemma vundo_create c a x :
  GoodV c -> aget (xs c) a = None -> val_ok a x ->
  c_vundo1 (let c1 := c_set_validator c a x in c_stat c1 (a_incr (xstat c1) (fst x))) (XCreate a) = c.
Proof.
  intros G Hn Hx. unfold c_vundo1, c_set_validator. destruct c as [m idx st ac]; cbn in *.
  rewrite aget_sset_same. destruct x as [v l]; cbn in *. f_equal.
  - apply adel_sset_absent; [apply G|assumption].
  - rewrite (g_index _ G); cbn. apply srem_sins_absent; [apply ssorted_keys, G|].
    rewrite aget_keys. intros H; apply H, Hn.
  - rewrite (g_stat _ G); cbn. unfold a_incr. rewrite incr_wrap by apply Hx. cbn [ostat].
    unfold a_decr. rewrite decr_wrap; [reflexivity | apply Hx | apply (goodV_nonneg _ G)].
Qed.

(* removing a validator *)
Lemma goodV_delete c a x :
  GoodV c -> aget (xs c) a = Some x ->
  GoodV (c_stat (c_index (c_xs c (adel (xs c) a)) (srem a (xindex c))) (a_decr (xstat c) (fst x))).
Proof.
  intros G Hx. pose proof (g_vals _ G _ _ Hx) as Hok. constructor; cbn.
  - apply ssorted_adel, G.
  - intros a' y. destruct (Z.eq_dec a' a) as [->|Hne].
    + rewrite aget_adel_same by apply G. discriminate.
    + rewrite aget_adel_other by assumption. apply G.
  - rewrite (g_stat _ G), (tot_adel _ _ _ Hx). unfold a_decr.
    rewrite decr_wrap; [reflexivity | apply Hok | apply goodV_nonneg_rest, G].
  - rewrite keys_adel, (g_index _ G). reflexivity.
Qed.
