(* C08 - the property holds for the value-level semantics (Abstract.v) on every
   history whose operations meet the callers' discipline [a_pre], including
   reverts to any valid revision. *)
From VF.C08 Require Import Model Abstract.
From Coq Require Import Lia ZifyBool Setoid.
Local Open Scope Z_scope.

(* ---- sorted association lists ------------------------------------------- *)

Fixpoint ssorted {A} (m : list (Z * A)) : Prop :=
  match m with
  | [] => True
  | (k, _) :: r => (forall k' x, In (k', x) r -> k < k') /\ ssorted r
  end.

Lemma aget_In {A} (m : list (Z * A)) k x : aget m k = Some x -> In (k, x) m.
Proof.
  induction m as [|[k' y] r IH]; cbn; [discriminate|].
  destruct (Z.eqb_spec k' k) as [->|Hne]; intros H.
  - inversion H; subst; auto.
  - right; auto.
Qed.

Lemma In_aget {A} (m : list (Z * A)) k x : ssorted m -> In (k, x) m -> aget m k = Some x.
Proof.
  induction m as [|[k' y] r IH]; cbn; [tauto|].
  intros [Hlt Hs] [Heq|Hin].
  - inversion Heq; subst. now rewrite Z.eqb_refl.
  - destruct (Z.eqb_spec k' k) as [->|Hne]; [|auto].
    specialize (Hlt _ _ Hin). lia.
Qed.

Lemma aget_None_notin {A} (m : list (Z * A)) k x : aget m k = None -> ~ In (k, x) m.
Proof.
  induction m as [|[k' y] r IH]; cbn; [tauto|].
  destruct (Z.eqb_spec k' k) as [->|Hne]; [discriminate|].
  intros H [Heq|Hin]; [inversion Heq; congruence | now apply IH].
Qed.

Lemma aget_sset_same {A} (m : list (Z * A)) k x : aget (sset m k x) k = Some x.
Proof.
  induction m as [|[k' y] r IH]; cbn; [now rewrite Z.eqb_refl|].
  destruct (Z.ltb_spec k k'); cbn; [now rewrite Z.eqb_refl|].
  destruct (Z.eqb_spec k k') as [->|Hne]; cbn; [now rewrite Z.eqb_refl|].
  destruct (Z.eqb_spec k' k); [lia|auto].
Qed.

Lemma aget_sset_other {A} (m : list (Z * A)) k x k' : k' <> k -> aget (sset m k x) k' = aget m k'.
Proof.
  intros Hne. induction m as [|[k2 y] r IH]; cbn.
  - destruct (Z.eqb_spec k k'); [lia|reflexivity].
  - destruct (Z.ltb_spec k k2); cbn.
    + destruct (Z.eqb_spec k k'); [lia|reflexivity].
    + destruct (Z.eqb_spec k k2) as [->|Hne2]; cbn.
      * destruct (Z.eqb_spec k2 k'); [lia|reflexivity].
      * destruct (Z.eqb_spec k2 k'); [reflexivity|auto].
Qed.

Lemma aget_adel_other {A} (m : list (Z * A)) k k' : k' <> k -> aget (adel m k) k' = aget m k'.
Proof.
  intros Hne. induction m as [|[k2 y] r IH]; cbn; [reflexivity|].
  destruct (Z.eqb_spec k2 k) as [->|Hne2]; cbn.
  - destruct (Z.eqb_spec k k'); [lia|reflexivity].
  - destruct (Z.eqb_spec k2 k'); [reflexivity|auto].
Qed.

Lemma In_adel {A} (m : list (Z * A)) k p : In p (adel m k) -> In p m.
Proof.
  induction m as [|[k2 y] r IH]; cbn; [tauto|].
  destruct (Z.eqb_spec k2 k); cbn; tauto.
Qed.

Lemma ssorted_adel {A} (m : list (Z * A)) k : ssorted m -> ssorted (adel m k).
Proof.
  induction m as [|[k2 y] r IH]; cbn; [tauto|].
  intros [Hlt Hs]. destruct (Z.eqb_spec k2 k); cbn; [assumption|].
  split; [|auto]. intros k' x Hin. eapply Hlt, In_adel, Hin.
Qed.

Lemma aget_adel_same {A} (m : list (Z * A)) k : ssorted m -> aget (adel m k) k = None.
Proof.
  induction m as [|[k2 y] r IH]; cbn; [reflexivity|].
  intros [Hlt Hs]. destruct (Z.eqb_spec k2 k) as [->|Hne]; cbn.
  - destruct (aget r k) eqn:E; [|reflexivity].
    apply aget_In in E. specialize (Hlt _ _ E). lia.
  - destruct (Z.eqb_spec k2 k); [lia|auto].
Qed.

Lemma In_sset {A} (m : list (Z * A)) k x p : In p (sset m k x) -> p = (k, x) \/ In p m.
Proof.
  induction m as [|[k2 y] r IH]; cbn; [intuition congruence|].
  destruct (Z.ltb_spec k k2); cbn; [intuition congruence|].
  destruct (Z.eqb_spec k k2); cbn; [intuition congruence|].
  intros [H1|H1]; [tauto|]. apply IH in H1. tauto.
Qed.

Lemma ssorted_sset {A} (m : list (Z * A)) k x : ssorted m -> ssorted (sset m k x).
Proof.
  induction m as [|[k2 y] r IH]; cbn; [tauto|].
  intros [Hlt Hs]. destruct (Z.ltb_spec k k2); cbn.
  - split; [|tauto]. intros k' z [Heq|Hin]; [inversion Heq; subst; lia|].
    specialize (Hlt _ _ Hin). lia.
  - destruct (Z.eqb_spec k k2) as [->|Hne]; cbn; [tauto|].
    split; [|auto]. intros k' z Hin. apply In_sset in Hin as [Heq|Hin].
    + inversion Heq; subst. lia.
    + eauto.
Qed.

Lemma adel_sset_absent {A} (m : list (Z * A)) k x : ssorted m -> aget m k = None -> adel (sset m k x) k = m.
Proof.
  induction m as [|[k2 y] r IH]; cbn; [now rewrite Z.eqb_refl|].
  intros [Hlt Hs]. destruct (Z.eqb_spec k2 k) as [->|Hne]; [discriminate|]. intros Hn.
  destruct (Z.ltb_spec k k2); cbn; [now rewrite Z.eqb_refl|].
  destruct (Z.eqb_spec k k2); [lia|]. cbn.
  destruct (Z.eqb_spec k2 k); [lia|]. f_equal. auto.
Qed.

Lemma sset_sset_back {A} (m : list (Z * A)) k x y : ssorted m -> aget m k = Some y -> sset (sset m k x) k y = m.
Proof.
  induction m as [|[k2 z] r IH]; cbn; [discriminate|].
  intros [Hlt Hs]. destruct (Z.eqb_spec k2 k) as [->|Hne].
  - intros H; inversion H; subst. rewrite Z.ltb_irrefl, Z.eqb_refl. cbn. now rewrite Z.ltb_irrefl, Z.eqb_refl.
  - intros Hg. destruct (Z.ltb_spec k k2).
    + apply aget_In in Hg. specialize (Hlt _ _ Hg). lia.
    + destruct (Z.eqb_spec k k2); [lia|]. cbn.
      destruct (Z.ltb_spec k k2); [lia|]. destruct (Z.eqb_spec k k2); [lia|]. f_equal; auto.
Qed.

Lemma sset_same {A} (m : list (Z * A)) k y : ssorted m -> aget m k = Some y -> sset m k y = m.
Proof.
  induction m as [|[k2 z] r IH]; cbn; [discriminate|].
  intros [Hlt Hs]. destruct (Z.eqb_spec k2 k) as [->|Hne].
  - intros H; inversion H; subst. now rewrite Z.ltb_irrefl, Z.eqb_refl.
  - intros Hg. destruct (Z.ltb_spec k k2).
    + apply aget_In in Hg. specialize (Hlt _ _ Hg). lia.
    + destruct (Z.eqb_spec k k2); [lia|]. f_equal; auto.
Qed.

(* ---- sorted lists of addresses ------------------------------------------- *)

Fixpoint zsorted (l : list Z) : Prop :=
  match l with
  | [] => True
  | k :: r => (forall k', In k' r -> k < k') /\ zsorted r
  end.

Lemma mem_In k l : mem k l = true <-> In k l.
Proof.
  induction l as [|x r IH]; cbn; [split; [discriminate|tauto]|].
  destruct (Z.eqb_spec x k); cbn; [tauto|]. rewrite IH. split; [tauto|]. intros [H|H]; [lia|auto].
Qed.

Lemma In_sins k l x : In x (sins k l) <-> x = k \/ In x l.
Proof.
  induction l as [|y r IH]; cbn; [intuition|].
  destruct (Z.ltb_spec k y); cbn; [intuition|].
  destruct (Z.eqb_spec k y); cbn; [subst; intuition|]. rewrite IH. intuition.
Qed.

Lemma zsorted_sins k l : zsorted l -> zsorted (sins k l).
Proof.
  induction l as [|y r IH]; cbn; [tauto|].
  intros [Hlt Hs]. destruct (Z.ltb_spec k y); cbn.
  - split; [|tauto]. intros k' [->|Hin]; [lia|]. specialize (Hlt _ Hin). lia.
  - destruct (Z.eqb_spec k y); cbn; [tauto|]. split; [|auto].
    intros k' Hin. apply In_sins in Hin as [->|Hin]; [lia|auto].
Qed.

Lemma In_srem k l x : zsorted l -> (In x (srem k l) <-> x <> k /\ In x l).
Proof.
  induction l as [|y r IH]; cbn; [intuition|].
  intros [Hlt Hs]. destruct (Z.eqb_spec y k) as [->|Hne]; cbn.
  - split.
    + intros Hin. split; [|auto]. specialize (Hlt _ Hin). lia.
    + intros [Hx [Hy|Hin]]; [congruence|auto].
  - rewrite IH by auto. split.
    + intros [->|[Hx Hin]]; [split; [congruence|auto]|auto].
    + intros [Hx [->|Hin]]; auto.
Qed.

Lemma srem_In_sub k l x : In x (srem k l) -> In x l.
Proof.
  induction l as [|y r IH]; cbn; [tauto|]. destruct (Z.eqb_spec y k); cbn; tauto.
Qed.

Lemma zsorted_srem k l : zsorted l -> zsorted (srem k l).
Proof.
  induction l as [|y r IH]; cbn; [tauto|].
  intros [Hlt Hs]. destruct (Z.eqb_spec y k); cbn; [assumption|]. split; [|auto].
  intros k' Hin. apply Hlt. eapply srem_In_sub, Hin.
Qed.

Lemma srem_sins_absent k l : zsorted l -> ~ In k l -> srem k (sins k l) = l.
Proof.
  induction l as [|y r IH]; cbn; [now rewrite Z.eqb_refl|].
  intros [Hlt Hs] Hn. destruct (Z.ltb_spec k y); cbn; [now rewrite Z.eqb_refl|].
  destruct (Z.eqb_spec k y); [subst; tauto|]. cbn.
  destruct (Z.eqb_spec y k); [lia|]. f_equal. apply IH; tauto.
Qed.

Lemma sins_present k l : zsorted l -> In k l -> sins k l = l.
Proof.
  induction l as [|y r IH]; cbn; [tauto|].
  intros [Hlt Hs] [->|Hin].
  - now rewrite Z.ltb_irrefl, Z.eqb_refl.
  - specialize (Hlt _ Hin). destruct (Z.ltb_spec k y); [lia|].
    destruct (Z.eqb_spec k y); [lia|]. f_equal; auto.
Qed.

Lemma sins_srem_present k l : zsorted l -> In k l -> sins k (srem k l) = l.
Proof.
  induction l as [|y r IH]; cbn; [tauto|].
  intros [Hlt Hs] [->|Hin].
  - rewrite Z.eqb_refl. destruct r as [|z r']; cbn; [reflexivity|].
    assert (k < z) by (apply Hlt; cbn; auto). destruct (Z.ltb_spec k z); [reflexivity|lia].
  - specialize (Hlt _ Hin). destruct (Z.eqb_spec y k); [lia|]. cbn.
    destruct (Z.ltb_spec k y); [lia|]. destruct (Z.eqb_spec k y); [lia|]. f_equal; auto.
Qed.

Lemma ssorted_keys {A} (m : list (Z * A)) : ssorted m -> zsorted (map fst m).
Proof.
  induction m as [|[k y] r IH]; cbn; [tauto|]. intros [Hlt Hs]. split; [|auto].
  intros k' Hin. apply in_map_iff in Hin as [[k2 z] [Heq Hin]]. cbn in Heq; subst. eauto.
Qed.

Lemma keys_sset {A} (m : list (Z * A)) k x : map fst (sset m k x) = sins k (map fst m).
Proof.
  induction m as [|[k2 y] r IH]; cbn; [reflexivity|].
  destruct (Z.ltb_spec k k2); cbn; [reflexivity|].
  destruct (Z.eqb_spec k k2) as [->|Hne]; cbn; [reflexivity|]. f_equal. auto.
Qed.

Lemma keys_adel {A} (m : list (Z * A)) k : map fst (adel m k) = srem k (map fst m).
Proof.
  induction m as [|[k2 y] r IH]; cbn; [reflexivity|].
  destruct (Z.eqb_spec k2 k); cbn; [reflexivity|]. f_equal. auto.
Qed.

Lemma aget_keys {A} (m : list (Z * A)) k : In k (map fst m) <-> aget m k <> None.
Proof.
  induction m as [|[k2 y] r IH]; cbn; [intuition|].
  destruct (Z.eqb_spec k2 k); [intuition congruence|]. rewrite <- IH. intuition.
Qed.

(* ---- sums over association lists ----------------------------------------- *)

Fixpoint lsum {A} (g : A -> Z) (m : list (Z * A)) : Z :=
  match m with [] => 0 | p :: r => g (snd p) + lsum g r end.

Lemma lsum_sset_absent {A} (g : A -> Z) (m : list (Z * A)) k x :
  aget m k = None -> lsum g (sset m k x) = g x + lsum g m.
Proof.
  induction m as [|[k2 y] r IH]; cbn; [lia|].
  destruct (Z.eqb_spec k2 k) as [->|Hne]; [discriminate|]. intros Hn.
  destruct (Z.ltb_spec k k2); cbn; [lia|].
  destruct (Z.eqb_spec k k2); [lia|]. cbn. rewrite IH by auto. lia.
Qed.

Lemma lsum_sset_present {A} (g : A -> Z) (m : list (Z * A)) k x y :
  ssorted m -> aget m k = Some y -> lsum g (sset m k x) = g x - g y + lsum g m.
Proof.
  induction m as [|[k2 z] r IH]; cbn; [discriminate|].
  intros [Hlt Hs]. destruct (Z.eqb_spec k2 k) as [->|Hne].
  - intros H; inversion H; subst. rewrite Z.ltb_irrefl, Z.eqb_refl. cbn. lia.
  - intros Hg. destruct (Z.ltb_spec k k2).
    + apply aget_In in Hg. specialize (Hlt _ _ Hg). lia.
    + destruct (Z.eqb_spec k k2); [lia|]. cbn. rewrite (IH Hs Hg). lia.
Qed.

Lemma lsum_adel {A} (g : A -> Z) (m : list (Z * A)) k y :
  aget m k = Some y -> lsum g (adel m k) = lsum g m - g y.
Proof.
  induction m as [|[k2 z] r IH]; cbn; [discriminate|].
  destruct (Z.eqb_spec k2 k) as [->|Hne].
  - intros H; inversion H; subst. lia.
  - intros Hg. cbn. rewrite IH by auto. lia.
Qed.

Lemma lsum_zero {A} (g : A -> Z) (m : list (Z * A)) :
  (forall k x, In (k, x) m -> g x = 0) -> lsum g m = 0.
Proof.
  induction m as [|[k2 z] r IH]; cbn; [reflexivity|]. intros H.
  rewrite IH by (intros; eapply H; eauto). rewrite (H k2 z) by auto. reflexivity.
Qed.

Lemma lsum_ext {A} (g h : A -> Z) (m : list (Z * A)) :
  (forall k x, In (k, x) m -> g x = h x) -> lsum g m = lsum h m.
Proof.
  induction m as [|[k2 z] r IH]; cbn; [reflexivity|]. intros H.
  rewrite IH by (intros; eapply H; eauto). rewrite (H k2 z) by auto. reflexivity.
Qed.

(* ---- statistics as sums ---------------------------------------------------- *)

Definition k_nonneg (k : kstat) : Prop :=
  0 <= on_stake k /\ 0 <= on_token k /\ 0 <= off_stake k /\ 0 <= off_token k.
Definition stat_nonneg (st : stat) : Prop :=
  k_nonneg (k0 st) /\ k_nonneg (k1 st) /\ k_nonneg (k2 st) /\ k_nonneg (r1 st) /\ k_nonneg (r2 st) /\ k_nonneg (r3 st).

Lemma kplus_zero_l k : kplus kzero k = k.
Proof. destruct k; reflexivity. Qed.

Lemma kplus_swap a b c : kplus a (kplus b c) = kplus b (kplus a c).
Proof. destruct a, b, c; unfold kplus; cbn; f_equal; lia. Qed.

Lemma stat_plus_swap a b c : stat_plus a (stat_plus b c) = stat_plus b (stat_plus a c).
Proof.
  destruct a, b, c; unfold stat_plus; cbn [Model.k0 Model.k1 Model.k2 Model.r1 Model.r2 Model.r3].
  f_equal; apply kplus_swap.
Qed.

Lemma wrap64_idem_add x : wrap64 (wrap64 x + 1) = wrap64 (1 + x).
Proof. unfold wrap64. rewrite Zplus_mod_idemp_l. f_equal. lia. Qed.
Lemma wrap64_idem_sub x : wrap64 (wrap64 (1 + x) - 1) = wrap64 x.
Proof. unfold wrap64. rewrite Zminus_mod_idemp_l. f_equal. lia. Qed.

Lemma k_add_wrap K v : k_add (kwrap K) v = kwrap (kplus (k_contrib v) K).
Proof.
  unfold k_add, k_contrib, kwrap, kplus. destruct K as [a b c d e f]; cbn.
  destruct (Z.eqb (v_status v) 1); cbn; f_equal; try lia; try apply wrap64_idem_add.
Qed.

Lemma csub_add a b : 0 <= a -> csub (b + a) b = a.
Proof. intros H. unfold csub. destruct (Z.leb_spec b (b + a)); lia. Qed.

Lemma k_sub_wrap K v : k_nonneg K -> k_sub (kwrap (kplus (k_contrib v) K)) v = kwrap K.
Proof.
  intros (H1 & H2 & H3 & H4).
  unfold k_sub, k_contrib, kwrap, kplus. destruct K as [a b c d e f]; cbn in *.
  destruct (Z.eqb (v_status v) 1); cbn; f_equal; try lia;
    try (apply csub_add; assumption); try apply wrap64_idem_sub.
Qed.

Lemma kwrap_zero_l K : kwrap (kplus kzero K) = kwrap K.
Proof. now rewrite kplus_zero_l. Qed.

Lemma role_cases r : role_ok r = true -> r = 1 \/ r = 2 \/ r = 3.
Proof. unfold role_ok. lia. Qed.

Lemma incr_wrap T v : role_ok (v_role v) = true ->
  incr_stat (wrap_stat T) v = Some (wrap_stat (stat_plus (contrib v) T)).
Proof.
  intros Hr. apply role_cases in Hr. unfold incr_stat, stat_app, contrib, wrap_stat, stat_plus.
  destruct T as [a b c d e f]; cbn [Model.k0 Model.k1 Model.k2 Model.r1 Model.r2 Model.r3].
  destruct Hr as [E|[E|E]]; rewrite E; cbn [Z.eqb Pos.eqb Model.k0 Model.k1 Model.k2 Model.r1 Model.r2 Model.r3]; rewrite ?k_add_wrap, ?kplus_zero_l; reflexivity.
Qed.

Lemma decr_wrap R v : role_ok (v_role v) = true -> stat_nonneg R ->
  decr_stat (wrap_stat (stat_plus (contrib v) R)) v = Some (wrap_stat R).
Proof.
  intros Hr (N0 & N1 & N2 & N3 & N4 & N5). apply role_cases in Hr.
  unfold decr_stat, stat_app, contrib, wrap_stat, stat_plus.
  destruct R as [a b c d e f]; cbn [Model.k0 Model.k1 Model.k2 Model.r1 Model.r2 Model.r3] in *.
  destruct Hr as [E|[E|E]]; rewrite E; cbn [Z.eqb Pos.eqb Model.k0 Model.k1 Model.k2 Model.r1 Model.r2 Model.r3]; rewrite ?k_sub_wrap, ?kplus_zero_l by assumption; reflexivity.
Qed.

Lemma contrib_stake_equal a b : stake_equal a b = true -> contrib a = contrib b.
Proof.
  unfold stake_equal, contrib, k_contrib. intros H.
  assert (v_role a = v_role b /\ v_stake a = v_stake b /\ v_token a = v_token b /\ v_status a = v_status b) as (-> & -> & -> & ->) by lia.
  reflexivity.
Qed.

(* the adjustment of UpdateValidator on a statistic that contains [minus] *)
Lemma adjust_wrap R plus minus :
  role_ok (v_role plus) = true -> role_ok (v_role minus) = true -> stat_nonneg R ->
  a_adjust (wrap_stat (stat_plus (contrib minus) R)) plus minus = wrap_stat (stat_plus (contrib plus) R).
Proof.
  intros Hp Hm HR. unfold a_adjust. destruct (stake_equal plus minus) eqn:E.
  - now rewrite (contrib_stake_equal _ _ E).
  - unfold a_decr. rewrite decr_wrap by assumption. cbn [ostat].
    unfold a_incr. rewrite incr_wrap by assumption. reflexivity.
Qed.

Definition tot (m : list (Z * xval)) : stat := total (map (fun p => fst (snd p)) m).

Arguments tot : simpl never.

Lemma tot_cons k x m : tot ((k, x) :: m) = stat_plus (contrib (fst x)) (tot m).
Proof. reflexivity. Qed.

Lemma tot_sset_absent m k x : aget m k = None -> tot (sset m k x) = stat_plus (contrib (fst x)) (tot m).
Proof.
  induction m as [|[k2 y] r IH]; cbn [sset aget]; [reflexivity|].
  destruct (Z.eqb_spec k2 k) as [->|Hne]; [discriminate|]. intros Hn.
  destruct (Z.ltb_spec k k2); [reflexivity|].
  destruct (Z.eqb_spec k k2); [lia|]. rewrite !tot_cons, IH by auto. apply stat_plus_swap.
Qed.

Lemma tot_adel m k y : aget m k = Some y -> tot m = stat_plus (contrib (fst y)) (tot (adel m k)).
Proof.
  induction m as [|[k2 z] r IH]; cbn [adel aget]; [discriminate|].
  destruct (Z.eqb_spec k2 k) as [->|Hne].
  - intros H; inversion H; subst. reflexivity.
  - intros Hg. rewrite !tot_cons, (IH Hg). apply stat_plus_swap.
Qed.

Lemma tot_sset_present m k x y : ssorted m -> aget m k = Some y ->
  tot (sset m k x) = stat_plus (contrib (fst x)) (tot (adel m k)).
Proof.
  induction m as [|[k2 z] r IH]; cbn [sset adel aget ssorted]; [discriminate|].
  intros [Hlt Hs]. destruct (Z.eqb_spec k2 k) as [->|Hne].
  - intros H; inversion H; subst. rewrite Z.ltb_irrefl, Z.eqb_refl. reflexivity.
  - intros Hg. destruct (Z.ltb_spec k k2).
    + apply aget_In in Hg. specialize (Hlt _ _ Hg). lia.
    + destruct (Z.eqb_spec k k2); [lia|]. rewrite !tot_cons, (IH Hs Hg). apply stat_plus_swap.
Qed.

Lemma k_nonneg_plus a b : k_nonneg a -> k_nonneg b -> k_nonneg (kplus a b).
Proof. unfold k_nonneg, kplus; cbn; lia. Qed.
Lemma k_nonneg_zero : k_nonneg kzero.
Proof. unfold k_nonneg; cbn; lia. Qed.
Lemma k_nonneg_contrib v : 0 <= v_stake v -> 0 <= v_token v -> k_nonneg (k_contrib v).
Proof. unfold k_nonneg, k_contrib. destruct (Z.eqb (v_status v) 1); cbn; lia. Qed.

Lemma stat_nonneg_contrib v : 0 <= v_stake v -> 0 <= v_token v -> stat_nonneg (contrib v).
Proof.
  intros H1 H2. pose proof (k_nonneg_contrib v H1 H2). pose proof k_nonneg_zero.
  unfold contrib. destruct (Z.eqb (v_role v) 1); [|destruct (Z.eqb (v_role v) 2); [|destruct (Z.eqb (v_role v) 3)]];
    unfold stat_nonneg; cbn; tauto.
Qed.
Lemma stat_nonneg_plus a b : stat_nonneg a -> stat_nonneg b -> stat_nonneg (stat_plus a b).
Proof.
  unfold stat_nonneg, stat_plus; cbn. intros (?&?&?&?&?&?) (?&?&?&?&?&?).
  repeat split; apply k_nonneg_plus; assumption.
Qed.

Lemma tot_nonneg m : (forall k x, In (k, x) m -> 0 <= v_stake (fst x) /\ 0 <= v_token (fst x)) -> stat_nonneg (tot m).
Proof.
  induction m as [|[k x] r IH]; intros H.
  - unfold tot; cbn. pose proof k_nonneg_zero. unfold stat_nonneg; cbn; tauto.
  - rewrite tot_cons. apply stat_nonneg_plus.
    + apply stat_nonneg_contrib; apply (H k x); cbn; auto.
    + apply IH. intros; eapply H; cbn; eauto.
Qed.

(* ---- delegation lists ------------------------------------------------------ *)

Fixpoint dsorted (l : list dfrom) : Prop :=
  match l with
  | [] => True
  | e :: r => (forall e', In e' r -> d_addr e < d_addr e') /\ dsorted r
  end.
Fixpoint dsum (g : dfrom -> Z) (l : list dfrom) : Z :=
  match l with [] => 0 | e :: r => g e + dsum g r end.

Lemma dget_In l d e : dget l d = Some e -> In e l /\ d_addr e = d.
Proof.
  induction l as [|x r IH]; cbn; [discriminate|].
  destruct (Z.eqb_spec (d_addr x) d); intros H.
  - inversion H; subst; auto.
  - apply IH in H. tauto.
Qed.

Lemma In_dget l e : dsorted l -> In e l -> dget l (d_addr e) = Some e.
Proof.
  induction l as [|x r IH]; cbn; [tauto|].
  intros [Hlt Hs] [->|Hin]; [now rewrite Z.eqb_refl|].
  specialize (Hlt _ Hin). destruct (Z.eqb_spec (d_addr x) (d_addr e)); [lia|auto].
Qed.

Lemma dget_dset_same l e : dget (dset l e) (d_addr e) = Some e.
Proof.
  induction l as [|x r IH]; cbn; [now rewrite Z.eqb_refl|].
  destruct (Z.ltb_spec (d_addr e) (d_addr x)); cbn; [now rewrite Z.eqb_refl|].
  destruct (Z.eqb_spec (d_addr e) (d_addr x)); cbn; [now rewrite Z.eqb_refl|].
  destruct (Z.eqb_spec (d_addr x) (d_addr e)); [lia|auto].
Qed.

Lemma dget_dset_other l e d : d <> d_addr e -> dget (dset l e) d = dget l d.
Proof.
  intros Hne. induction l as [|x r IH]; cbn.
  - destruct (Z.eqb_spec (d_addr e) d); [lia|reflexivity].
  - destruct (Z.ltb_spec (d_addr e) (d_addr x)); cbn.
    + destruct (Z.eqb_spec (d_addr e) d); [lia|reflexivity].
    + destruct (Z.eqb_spec (d_addr e) (d_addr x)) as [E|E]; cbn.
      * destruct (Z.eqb_spec (d_addr e) d); [lia|]. destruct (Z.eqb_spec (d_addr x) d); [lia|reflexivity].
      * destruct (Z.eqb_spec (d_addr x) d); [reflexivity|auto].
Qed.

Lemma dget_ddel_other l d d' : d' <> d -> dget (ddel l d) d' = dget l d'.
Proof.
  intros Hne. induction l as [|x r IH]; cbn; [reflexivity|].
  destruct (Z.eqb_spec (d_addr x) d) as [E|E]; cbn.
  - destruct (Z.eqb_spec (d_addr x) d'); [lia|reflexivity].
  - destruct (Z.eqb_spec (d_addr x) d'); [reflexivity|auto].
Qed.

Lemma In_ddel l d x : In x (ddel l d) -> In x l.
Proof. induction l as [|y r IH]; cbn; [tauto|]. destruct (Z.eqb_spec (d_addr y) d); cbn; tauto. Qed.

Lemma In_dset l e x : In x (dset l e) -> x = e \/ In x l.
Proof.
  induction l as [|y r IH]; cbn; [intuition congruence|].
  destruct (Z.ltb_spec (d_addr e) (d_addr y)); cbn; [intuition congruence|].
  destruct (Z.eqb_spec (d_addr e) (d_addr y)); cbn; [intuition congruence|].
  intros [H1|H1]; [tauto|]. apply IH in H1. tauto.
Qed.

Lemma In_dset_old l e x : In x l -> d_addr x <> d_addr e -> In x (dset l e).
Proof.
  induction l as [|y r IH]; cbn; [tauto|].
  intros Hin Hne. destruct (Z.ltb_spec (d_addr e) (d_addr y)); cbn; [tauto|].
  destruct (Z.eqb_spec (d_addr e) (d_addr y)) as [E|E]; cbn.
  - destruct Hin as [->|Hin]; [lia|auto].
  - destruct Hin as [->|Hin]; auto.
Qed.

Lemma dsorted_ddel l d : dsorted l -> dsorted (ddel l d).
Proof.
  induction l as [|y r IH]; cbn; [tauto|]. intros [Hlt Hs].
  destruct (Z.eqb_spec (d_addr y) d); cbn; [assumption|]. split; [|auto].
  intros e' Hin. eapply Hlt, In_ddel, Hin.
Qed.

Lemma dget_ddel_same l d : dsorted l -> dget (ddel l d) d = None.
Proof.
  induction l as [|y r IH]; cbn; [reflexivity|]. intros [Hlt Hs].
  destruct (Z.eqb_spec (d_addr y) d) as [E|E]; cbn.
  - destruct (dget r d) eqn:G; [|reflexivity]. apply dget_In in G as [Hin Ha].
    specialize (Hlt _ Hin). lia.
  - destruct (Z.eqb_spec (d_addr y) d); [lia|auto].
Qed.

Lemma dsorted_dset l e : dsorted l -> dsorted (dset l e).
Proof.
  induction l as [|y r IH]; cbn; [tauto|]. intros [Hlt Hs].
  destruct (Z.ltb_spec (d_addr e) (d_addr y)); cbn.
  - split; [|tauto]. intros e' [<-|Hin]; [lia|]. specialize (Hlt _ Hin). lia.
  - destruct (Z.eqb_spec (d_addr e) (d_addr y)) as [E|E]; cbn.
    + split; [|assumption]. intros e' Hin. specialize (Hlt _ Hin). lia.
    + split; [|auto]. intros e' Hin. apply In_dset in Hin as [->|Hin]; [lia|auto].
Qed.

Lemma dsum_dset_absent g l e : dget l (d_addr e) = None -> dsum g (dset l e) = g e + dsum g l.
Proof.
  induction l as [|y r IH]; cbn; [lia|].
  destruct (Z.eqb_spec (d_addr y) (d_addr e)) as [E|E]; [discriminate|]. intros Hn.
  destruct (Z.ltb_spec (d_addr e) (d_addr y)); cbn; [lia|].
  destruct (Z.eqb_spec (d_addr e) (d_addr y)); [lia|]. cbn. rewrite IH by auto. lia.
Qed.

Lemma dsum_dset_present g l e y : dsorted l -> dget l (d_addr e) = Some y -> dsum g (dset l e) = g e - g y + dsum g l.
Proof.
  induction l as [|z r IH]; cbn; [discriminate|]. intros [Hlt Hs].
  destruct (Z.eqb_spec (d_addr z) (d_addr e)) as [E|E].
  - intros H; inversion H; subst. destruct (Z.ltb_spec (d_addr e) (d_addr y)); [lia|].
    destruct (Z.eqb_spec (d_addr e) (d_addr y)); [|lia]. cbn. lia.
  - intros Hg. destruct (Z.ltb_spec (d_addr e) (d_addr z)).
    + apply dget_In in Hg as [Hin Ha]. specialize (Hlt _ Hin). lia.
    + destruct (Z.eqb_spec (d_addr e) (d_addr z)); [lia|]. cbn. rewrite (IH Hs Hg). lia.
Qed.

Lemma dsum_ddel g l d y : dget l d = Some y -> dsum g (ddel l d) = dsum g l - g y.
Proof.
  induction l as [|z r IH]; cbn; [discriminate|].
  destruct (Z.eqb_spec (d_addr z) d) as [E|E].
  - intros H; inversion H; subst. lia.
  - intros Hg. cbn. rewrite IH by auto. lia.
Qed.

Lemma dsum_pos_nil l : (forall e, In e l -> 0 < d_token e) -> dsum d_token l <= 0 -> l = [].
Proof.
  destruct l as [|e r]; [reflexivity|]. intros Hp Hs. exfalso.
  assert (forall r, (forall e, In e r -> 0 < d_token e) -> 0 <= dsum d_token r) as Hnn.
  { induction r0 as [|x r0 IH]; cbn; [lia|]. intros H. specialize (IH (fun e He => H e (or_intror He))).
    specialize (H x (or_introl eq_refl)). lia. }
  cbn in Hs. specialize (Hnn r (fun e He => Hp e (or_intror He))). specialize (Hp e (or_introl eq_refl)). lia.
Qed.

(* ---- the invariant --------------------------------------------------------- *)

Definition tokd (d : Z) (x : xval) : Z := match dget (snd x) d with Some e => d_token e | None => 0 end.

Definition dl_ok (l : list dfrom) : Prop :=
  dsorted l /\ forall e, In e l -> 0 < d_token e /\ d_stake e = d_token e / stake_unit.

Definition val_ok (a : Z) (x : xval) : Prop :=
  v_addr (fst x) = a /\ norm (fst x) = fst x /\ role_ok (v_role (fst x)) = true /\
  0 <= v_stoken (fst x) /\ v_sstake (fst x) = v_stoken (fst x) / stake_unit /\
  v_token (fst x) = v_stoken (fst x) + dsum d_token (snd x) /\
  v_stake (fst x) = v_sstake (fst x) + dsum d_stake (snd x) /\
  dl_ok (snd x) /\ 0 <= v_rdist (fst x) /\ 0 <= v_rtotal (fst x).

Record GoodV (c : acore) : Prop := {
  g_sorted : ssorted (xs c);
  g_vals : forall a x, aget (xs c) a = Some x -> val_ok a x;
  g_stat : xstat c = wrap_stat (tot (xs c));
  g_index : xindex c = map fst (xs c) }.

Record GoodL (c : acore) : Prop := {
  g_asorted : ssorted (xaccts c);
  g_lst : forall d bal lst, aget (xaccts c) d = Some (bal, lst) -> zsorted lst;
  g_link : forall d bal lst a, aget (xaccts c) d = Some (bal, lst) ->
             (In a lst <-> exists x, aget (xs c) a = Some x /\ dget (snd x) d <> None);
  g_bal : forall d bal lst, aget (xaccts c) d = Some (bal, lst) -> bal = lsum (tokd d) (xs c);
  g_owner : forall a x e, aget (xs c) a = Some x -> In e (snd x) -> aget (xaccts c) (d_addr e) <> None }.

Definition Good (c : acore) : Prop := GoodV c /\ GoodL c.

Lemma unit_pos : 0 < stake_unit.
Proof. reflexivity. Qed.

Lemma dsum_stake_nonneg l : (forall e, In e l -> 0 < d_token e /\ d_stake e = d_token e / stake_unit) -> 0 <= dsum d_stake l.
Proof.
  induction l as [|e r IH]; cbn; [lia|]. intros H.
  specialize (IH (fun e He => H e (or_intror He))). destruct (H e (or_introl eq_refl)) as [Hp He].
  rewrite He. pose proof (Z.div_pos (d_token e) stake_unit). pose proof unit_pos. lia.
Qed.
Lemma dsum_token_nonneg l : (forall e, In e l -> 0 < d_token e /\ d_stake e = d_token e / stake_unit) -> 0 <= dsum d_token l.
Proof.
  induction l as [|e r IH]; cbn; [lia|]. intros H.
  specialize (IH (fun e He => H e (or_intror He))). destruct (H e (or_introl eq_refl)) as [Hp He]. lia.
Qed.

Lemma val_ok_nonneg a x : val_ok a x -> 0 <= v_stake (fst x) /\ 0 <= v_token (fst x).
Proof.
  intros (_ & _ & _ & H1 & H2 & H3 & H4 & [_ H5] & _).
  pose proof (dsum_stake_nonneg _ H5). pose proof (dsum_token_nonneg _ H5).
  pose proof (Z.div_pos (v_stoken (fst x)) stake_unit). pose proof unit_pos. lia.
Qed.

Lemma norm_iff v : norm v = v <-> (v_aid v = 0%nat /\ v_len v = 0%nat /\ v_deleted v = false /\ v_oid v = 0%nat).
Proof.
  destruct v; unfold norm, set_oid, set_deleted, set_view; cbn. split.
  - intros H; inversion H; auto.
  - intros (-> & -> & -> & ->); reflexivity.
Qed.

Lemma goodV_nonneg_rest c a : GoodV c -> stat_nonneg (tot (adel (xs c) a)).
Proof.
  intros G. apply tot_nonneg. intros k x Hin. apply In_adel in Hin.
  apply (In_aget _ _ _ (g_sorted _ G)) in Hin. eapply val_ok_nonneg, (g_vals _ G), Hin.
Qed.

Lemma goodV_nonneg c : GoodV c -> stat_nonneg (tot (xs c)).
Proof.
  intros G. apply tot_nonneg. intros k x Hin.
  apply (In_aget _ _ _ (g_sorted _ G)) in Hin. eapply val_ok_nonneg, (g_vals _ G), Hin.
Qed.

Lemma val_ok_role a x : val_ok a x -> role_ok (v_role (fst x)) = true.
Proof. intros H; apply H. Qed.

(* replacing the value of an existing validator *)
Lemma goodV_update c a nw old :
  GoodV c -> aget (xs c) a = Some old -> val_ok a nw -> GoodV (c_update_validator c a nw old).
Proof.
  intros G Hold Hnw. pose proof (g_vals _ G _ _ Hold) as Hok.
  unfold c_update_validator, c_set_validator. constructor; cbn.
  - apply ssorted_sset, G.
  - intros a' x. destruct (Z.eq_dec a' a) as [->|Hne].
    + rewrite aget_sset_same. intros H; inversion H; subst; assumption.
    + rewrite aget_sset_other by assumption. apply G.
  - rewrite (g_stat _ G), (tot_adel _ _ _ Hold), (tot_sset_present _ _ _ _ (g_sorted _ G) Hold).
    apply adjust_wrap; [apply Hnw | apply Hok | apply goodV_nonneg_rest, G].
  - rewrite keys_sset, (g_index _ G). reflexivity.
Qed.

Lemma index_present c a x : GoodV c -> aget (xs c) a = Some x -> sins a (xindex c) = xindex c.
Proof.
  intros G H. rewrite (g_index _ G). apply sins_present; [apply ssorted_keys, G|].
  apply aget_keys. congruence.
Qed.

Lemma vundo_update c a nw old :
  GoodV c -> aget (xs c) a = Some old -> val_ok a nw ->
  c_vundo1 (c_update_validator c a nw old) (XUpdate a nw old) = c.
Proof.
  intros G Hold Hnw. pose proof (g_vals _ G _ _ Hold) as Hok.
  pose proof (g_stat _ G) as Hst. pose proof (index_present _ _ _ G Hold) as Hi.
  pose proof (goodV_nonneg_rest _ a G) as Hnn. pose proof (g_sorted _ G) as Hs.
  unfold c_vundo1, c_update_validator, c_set_validator, c_stat, c_index, c_xs.
  destruct c as [m idx st ac]; cbn in *. rewrite aget_sset_same. destruct nw as [nv nl]; cbn [fst].
  f_equal.
  - apply sset_sset_back; assumption.
  - rewrite Hi, Hi. reflexivity.
  - rewrite Hst, (tot_adel _ _ _ Hold).
    rewrite adjust_wrap; [|apply Hnw | apply Hok | assumption].
    apply adjust_wrap; [apply Hok | apply Hnw | assumption].
Qed.

(* adding a new validator *)
Lemma goodV_create c a x :
  GoodV c -> aget (xs c) a = None -> val_ok a x ->
  GoodV (let c1 := c_set_validator c a x in c_stat c1 (a_incr (xstat c1) (fst x))).
Proof.
  intros G Hn Hx. unfold c_set_validator. constructor; cbn.
  - apply ssorted_sset, G.
  - intros a' y. destruct (Z.eq_dec a' a) as [->|Hne].
    + rewrite aget_sset_same. intros H; inversion H; subst; assumption.
    + rewrite aget_sset_other by assumption. apply G.
  - rewrite (g_stat _ G), (tot_sset_absent _ _ _ Hn). unfold a_incr. rewrite incr_wrap by apply Hx. reflexivity.
  - rewrite keys_sset, (g_index _ G). reflexivity.
Qed.

Lemma vundo_create c a x :
  GoodV c -> aget (xs c) a = None -> val_ok a x ->
  c_vundo1 (let c1 := c_set_validator c a x in c_stat c1 (a_incr (xstat c1) (fst x))) (XCreate a) = c.
Proof.
  intros G Hn Hx. pose proof (g_stat _ G) as Hst. pose proof (g_index _ G) as Hix.
  pose proof (goodV_nonneg _ G) as Hnn. pose proof (g_sorted _ G) as Hs.
  unfold c_vundo1, c_set_validator, c_stat, c_index, c_xs. destruct c as [m idx st ac]; cbn in *.
  rewrite aget_sset_same. destruct x as [v l]; cbn in *. f_equal.
  - apply adel_sset_absent; assumption.
  - rewrite Hix. apply srem_sins_absent; [apply ssorted_keys, Hs|].
    rewrite aget_keys. intros H; apply H, Hn.
  - rewrite Hst. unfold a_incr. rewrite incr_wrap by apply Hx. cbn [ostat].
    unfold a_decr. rewrite decr_wrap; [reflexivity | apply Hx | assumption].
Qed.

(* removing a validator *)
Lemma goodV_delete c a x :
  GoodV c -> aget (xs c) a = Some x ->
  GoodV (c_stat (c_index (c_xs c (adel (xs c) a)) (srem a (xindex c))) (a_decr (xstat c) (fst x))).
Proof.
  intros G Hx. pose proof (g_vals _ G _ _ Hx) as Hok. constructor; cbn.
  - apply ssorted_adel, G.
  - intros a' y. destruct (Z.eq_dec a' a) as [->|Hne].
    + rewrite aget_adel_same by apply G. discriminate.
    + rewrite aget_adel_other by assumption. apply G.
  - rewrite (g_stat _ G), (tot_adel _ _ _ Hx). unfold a_decr.
    rewrite decr_wrap; [reflexivity | apply Hok | apply goodV_nonneg_rest, G].
  - rewrite keys_adel, (g_index _ G). reflexivity.
Qed.

(* ---- forward operations: invariant and exact undo -------------------------- *)

Definition undo_all (c : acore) (ja : list aentry) (jv : list xentry) : acore :=
  fold_left c_vundo1 jv (fold_left c_aundo1 ja c).

Definition op_sound (c : acore) (e : eff) : Prop :=
  Good (fst (fst e)) /\ undo_all (fst (fst e)) (snd (fst e)) (snd e) = c.

Lemma tokd_nolink c d : GoodL c -> aget (xaccts c) d = None ->
  forall k x, In (k, x) (xs c) -> GoodV c -> tokd d x = 0.
Proof.
  intros L Hn k x Hin V. unfold tokd. destruct (dget (snd x) d) eqn:E; [|reflexivity].
  apply dget_In in E as [Hin2 Ha]. exfalso.
  apply (In_aget _ _ _ (g_sorted _ V)) in Hin.
  apply (g_owner _ L _ _ _ Hin Hin2). now rewrite Ha.
Qed.

Lemma fund_sound c d : Good c -> op_sound c (c_fund c d).
Proof.
  intros [V L]. unfold c_fund, op_sound, undo_all.
  destruct (aget (xaccts c) d) as [ac|] eqn:E; cbn.
  - split; [split; assumption|reflexivity].
  - split.
    + split.
      * destruct V; constructor; assumption.
      * constructor; cbn.
        -- apply ssorted_sset, L.
        -- intros d' bal lst. destruct (Z.eq_dec d' d) as [->|Hne].
           ++ rewrite aget_sset_same. intros H; inversion H; subst. exact I.
           ++ rewrite aget_sset_other by assumption. apply L.
        -- intros d' bal lst a. destruct (Z.eq_dec d' d) as [->|Hne].
           ++ rewrite aget_sset_same. intros H; inversion H; subst. split; [intros []|].
              intros (x & Hx & Hd). exfalso. destruct (dget (snd x) d) eqn:G; [|congruence].
              apply dget_In in G as [Hin Ha]. apply (g_owner _ L _ _ _ Hx Hin). now rewrite Ha.
           ++ rewrite aget_sset_other by assumption. apply L.
        -- intros d' bal lst. destruct (Z.eq_dec d' d) as [->|Hne].
           ++ rewrite aget_sset_same. intros H; inversion H; subst. symmetry. apply lsum_zero.
              intros k x Hin. eapply tokd_nolink; eauto.
           ++ rewrite aget_sset_other by assumption. apply L.
        -- intros a x e0 Hx Hin. destruct (Z.eq_dec (d_addr e0) d) as [Heq|Hne].
           ++ rewrite Heq, aget_sset_same. discriminate.
           ++ rewrite aget_sset_other by assumption. eapply (g_owner _ L); eauto.
    + unfold c_accts. destruct c as [m idx st ac]; cbn in *. f_equal.
      apply adel_sset_absent; [apply L|assumption].
Qed.

Lemma new_validator_ok a role status token stake :
  role_ok role = true -> 0 <= token -> stake = token / stake_unit ->
  val_ok a (new_validator a role status token stake 0%nat, []).
Proof.
  intros Hr Ht Hs. unfold val_ok, new_validator; cbn. repeat split; try assumption; try lia; try contradiction.
Qed.

Lemma create_sound c a role status token stake :
  Good c -> role_ok role = true -> 0 <= token -> stake = token / stake_unit ->
  op_sound c (c_create c a role status token stake).
Proof.
  intros [V L] Hr Ht Hs. unfold c_create, op_sound.
  destruct (aget (xs c) a) as [x|] eqn:E.
  - cbn. split; [split; assumption|reflexivity].
  - pose proof (new_validator_ok a role status token stake Hr Ht Hs) as Hok.
    cbn [fst snd]. split.
    + split; [apply (goodV_create c a _ V E Hok)|].
      unfold c_set_validator, c_stat, c_index, c_xs. constructor; cbn.
      * apply L.
      * apply L.
      * intros d bal lst a' Hd. rewrite (g_link _ L _ _ _ a' Hd).
        destruct (Z.eq_dec a' a) as [->|Hne].
        -- rewrite aget_sset_same, E. split; intros (x & Hx & Hg); [discriminate|].
           inversion Hx; subst. cbn in Hg. congruence.
        -- rewrite aget_sset_other by assumption. reflexivity.
      * intros d bal lst Hd. rewrite (lsum_sset_absent _ _ _ _ E). unfold tokd at 1; cbn.
        rewrite <- (g_bal _ L _ _ _ Hd). lia.
      * intros a' x e. destruct (Z.eq_dec a' a) as [->|Hne].
        -- rewrite aget_sset_same. intros H; inversion H; subst. intros [].
        -- rewrite aget_sset_other by assumption. apply L.
    + unfold undo_all. cbn [fold_left]. apply (vundo_create c a _ V E Hok).
Qed.

Lemma upd_ok_val a old l u : val_ok a (old, l) -> upd_ok old u = true -> val_ok a (apply_upd old u, l).
Proof.
  intros (H1 & H2 & H3 & H4 & H5 & H6 & H7 & H8 & H9 & H10) Hu. cbn [fst snd] in *.
  unfold upd_ok in Hu. apply norm_iff in H2 as (Ha & Hl & Hd & Ho).
  unfold val_ok; cbn [fst snd].
  split; [exact H1|]. split; [apply norm_iff; cbn; auto|].
  split; [cbn; destruct (role_ok (u_role u)); [reflexivity|discriminate]|].
  split; [cbn; lia|]. split; [cbn; lia|]. split; [cbn; lia|]. split; [cbn; lia|].
  split; [exact H8|]. split; cbn; lia.
Qed.

(* replacing a validator by one with the same delegation list keeps the links *)
Lemma goodL_same_list c a v v' l :
  GoodV c -> GoodL c -> aget (xs c) a = Some (v, l) ->
  GoodL (c_update_validator c a (v', l) (v, l)).
Proof.
  intros V L Hx. unfold c_update_validator, c_set_validator, c_stat, c_index, c_xs. constructor; cbn.
  - apply L.
  - apply L.
  - intros d bal lst a' Hd. rewrite (g_link _ L _ _ _ a' Hd).
    destruct (Z.eq_dec a' a) as [->|Hne].
    + rewrite aget_sset_same, Hx. split; intros (x & Hx' & Hg); inversion Hx'; subst; eexists; split; eauto.
    + rewrite aget_sset_other by assumption. reflexivity.
  - intros d bal lst Hd. rewrite (lsum_sset_present _ _ _ _ _ (g_sorted _ V) Hx).
    rewrite <- (g_bal _ L _ _ _ Hd). unfold tokd; cbn. lia.
  - intros a' x e. destruct (Z.eq_dec a' a) as [->|Hne].
    + rewrite aget_sset_same. intros H; inversion H; subst. cbn. intros Hin.
      eapply (g_owner _ L _ _ _ Hx). exact Hin.
    + rewrite aget_sset_other by assumption. apply L.
Qed.

Lemma update_sound c a u :
  Good c -> (match aget (xs c) a with None => true | Some (old, _) => upd_ok old u end) = true ->
  op_sound c (c_update c a u).
Proof.
  intros [V L] Hp. unfold c_update, op_sound.
  destruct (aget (xs c) a) as [[old l]|] eqn:E.
  - pose proof (upd_ok_val _ _ _ _ (g_vals _ V _ _ E) Hp) as Hok. cbn [fst snd]. split.
    + split; [apply goodV_update; assumption | apply goodL_same_list; assumption].
    + unfold undo_all. cbn [fold_left]. apply vundo_update; assumption.
  - cbn. split; [split; assumption|reflexivity].
Qed.

Lemma goodV_accts c x : GoodV c -> GoodV (c_accts c x).
Proof. intros [A B C D]. constructor; assumption. Qed.

Lemma sset_overwrite {A} (m : list (Z * A)) k x y : sset (sset m k x) k y = sset m k y.
Proof.
  induction m as [|[k2 z] r IH]; cbn.
  - now rewrite Z.ltb_irrefl, Z.eqb_refl.
  - destruct (Z.ltb_spec k k2); cbn.
    + now rewrite Z.ltb_irrefl, Z.eqb_refl.
    + destruct (Z.eqb_spec k k2) as [->|Hne]; cbn.
      * now rewrite Z.ltb_irrefl, Z.eqb_refl.
      * destruct (Z.ltb_spec k k2); [lia|]. destruct (Z.eqb_spec k k2); [lia|]. f_equal. apply IH.
Qed.

Lemma aget_sset_neq_none {A} (m : list (Z * A)) k x k' : aget m k' <> None -> aget (sset m k x) k' <> None.
Proof.
  intros H. destruct (Z.eq_dec k' k) as [->|Hne].
  - rewrite aget_sset_same. discriminate.
  - now rewrite aget_sset_other.
Qed.

Definition tokl (l : list dfrom) (d : Z) : Z := match dget l d with Some e => d_token e | None => 0 end.

Lemma goodL_delegate c a d v l nv l' bal lst lst1 amt :
  GoodV c -> GoodL c -> aget (xs c) a = Some (v, l) -> aget (xaccts c) d = Some (bal, lst) ->
  (forall d', d' <> d -> dget l' d' = dget l d') ->
  tokl l' d = tokl l d + amt ->
  (forall e, In e l' -> d_addr e = d \/ In e l) ->
  zsorted lst1 ->
  (forall a', In a' lst1 <-> (if Z.eq_dec a' a then dget l' d <> None else In a' lst)) ->
  GoodL (c_accts (c_update_validator c a (nv, l') (v, l)) (sset (xaccts c) d (bal + amt, lst1))).
Proof.
  intros V L Hx Hd H1 H2 H3 H4 H5.
  unfold c_update_validator, c_set_validator, c_stat, c_index, c_xs, c_accts. constructor; cbn.
  - apply ssorted_sset, L.
  - intros d2 bal2 lst2. destruct (Z.eq_dec d2 d) as [->|Hne].
    + rewrite aget_sset_same. intros H; inversion H; subst. assumption.
    + rewrite aget_sset_other by assumption. apply L.
  - intros d2 bal2 lst2 a2. destruct (Z.eq_dec d2 d) as [->|Hne].
    + rewrite aget_sset_same. intros H; inversion H; subst. rewrite H5.
      destruct (Z.eq_dec a2 a) as [->|Hna].
      * rewrite aget_sset_same. split.
        -- intros Hg. eexists; split; [reflexivity|exact Hg].
        -- intros (x & Hx' & Hg). inversion Hx'; subst. exact Hg.
      * rewrite aget_sset_other by assumption. apply (g_link _ L _ _ _ a2 Hd).
    + rewrite aget_sset_other by assumption. intros Hd2. rewrite (g_link _ L _ _ _ a2 Hd2).
      destruct (Z.eq_dec a2 a) as [->|Hna].
      * rewrite aget_sset_same, Hx. split; intros (x & Hx' & Hg); inversion Hx'; subst; cbn in *;
          (eexists; split; [reflexivity|]); cbn; [rewrite H1 | rewrite <- H1]; assumption.
      * rewrite aget_sset_other by assumption. reflexivity.
  - intros d2 bal2 lst2. rewrite (lsum_sset_present _ _ _ _ _ (g_sorted _ V) Hx).
    destruct (Z.eq_dec d2 d) as [->|Hne].
    + rewrite aget_sset_same. intros H; inversion H; subst.
      rewrite <- (g_bal _ L _ _ _ Hd). unfold tokd; cbn. unfold tokl in H2. lia.
    + rewrite aget_sset_other by assumption. intros Hd2.
      rewrite <- (g_bal _ L _ _ _ Hd2). unfold tokd; cbn. rewrite H1 by assumption. lia.
  - intros a2 x e. destruct (Z.eq_dec a2 a) as [->|Hna].
    + rewrite aget_sset_same. intros H; inversion H; subst. cbn. intros Hin.
      destruct (H3 _ Hin) as [Heq|Hin2].
      * rewrite Heq, aget_sset_same. discriminate.
      * apply aget_sset_neq_none. eapply (g_owner _ L _ _ _ Hx). exact Hin2.
    + rewrite aget_sset_other by assumption. intros Hx2 Hin. apply aget_sset_neq_none.
      eapply (g_owner _ L); eauto.
Qed.

Lemma set_total_ok a v l tok stk l' :
  val_ok a (v, l) -> dl_ok l' ->
  tok = v_stoken v + dsum d_token l' -> stk = v_sstake v + dsum d_stake l' ->
  val_ok a (set_total v tok stk, l').
Proof.
  intros (H1 & H2 & H3 & H4 & H5 & H6 & H7 & H8 & H9 & H10) Hl Ht Hs. cbn [fst snd] in *.
  apply norm_iff in H2 as (Ha & Hlen & Hd & Ho).
  unfold val_ok; cbn [fst snd].
  split; [exact H1|]. split; [apply norm_iff; cbn; auto|].
  split; [exact H3|]. split; [cbn; lia|]. split; [cbn; lia|]. split; [cbn; lia|]. split; [cbn; lia|].
  split; [exact Hl|]. split; cbn; lia.
Qed.

(* the three shapes of the delegator-side update *)
Lemma delegator_undo c1 d bal lst amt lst1 ja :
  ssorted (xaccts c1) -> aget (xaccts c1) d = Some (bal, lst) ->
  (ja = [JDlgBal d bal; JDlgs d lst] \/ (ja = [JDlgBal d bal] /\ lst1 = lst)) ->
  fold_left c_aundo1 ja (c_accts c1 (sset (xaccts c1) d (bal + amt, lst1))) = c1.
Proof.
  intros Hs Hd Hj. destruct c1 as [m idx st ac]; unfold c_accts; cbn in *.
  destruct Hj as [->|[-> ->]]; cbn; rewrite !aget_sset_same; unfold c_accts; cbn;
    rewrite ?aget_sset_same; cbn; rewrite ?sset_overwrite; f_equal; apply sset_same; assumption.
Qed.

Lemma delegate_sound c d a amt :
  Good c ->
  (match aget (xs c) a with
   | None => true
   | Some (v, l) =>
     Z.eqb amt 0 ||
     (match aget (xaccts c) d with Some _ => true | None => false end
      && Z.leb 0 (match dget l d with Some e => d_token e | None => 0 end + amt))
   end) = true ->
  op_sound c (c_delegate c d a amt).
Proof.
  intros [V L] Hp. unfold c_delegate.
  destruct (aget (xs c) a) as [[v l]|] eqn:Hx; [|cbn; split; [split; assumption|reflexivity]].
  destruct (Z.eqb_spec amt 0) as [Hz|Hnz]; [cbn; split; [split; assumption|reflexivity]|].
  cbn [orb] in Hp. apply andb_prop in Hp as [Hacc Hnn].
  destruct (aget (xaccts c) d) as [[bal lst]|] eqn:Hd; [|discriminate]. clear Hacc.
  pose proof (g_vals _ V _ _ Hx) as Hok.
  assert (Hlok : dl_ok l) by apply Hok. destruct Hlok as [Hsorted Helems].
  assert (Hlink : In a lst <-> dget l d <> None).
  { rewrite (g_link _ L _ _ _ a Hd). split.
    - intros (x & Hx' & Hg). rewrite Hx in Hx'. inversion Hx'; subst. exact Hg.
    - intros Hg. eexists; split; [exact Hx|exact Hg]. }
  pose proof (g_lst _ L _ _ _ Hd) as Hzs.
  pose proof unit_pos as Hup.
  destruct (dget l d) as [e|] eqn:Ed.
  - (* existing delegation *)
    destruct (dget_In _ _ _ Ed) as [Hin Hae]. destruct (Helems _ Hin) as [Hpos Hstk].
    set (tok := d_token e + amt) in *. assert (0 <= tok) by lia.
    destruct (d_empty (mkD d (tok / stake_unit) tok)) eqn:Em.
    + (* removed *)
      assert (Htok0 : tok = 0) by (unfold d_empty in Em; cbn in Em; lia).
      assert (In a lst) as Hfound by (apply Hlink; discriminate).
      unfold c_update_delegator. unfold c_update_validator at 1. unfold c_set_validator, c_stat, c_index, c_xs. cbn [xaccts].
      rewrite Hd. apply mem_In in Hfound. rewrite Hfound. cbn [negb].
      set (nv := set_total v _ _). set (l' := ddel l d).
      assert (Hok' : val_ok a (nv, l')).
      { apply (set_total_ok a v l); [exact Hok| | |].
        - split; [apply dsorted_ddel, Hsorted|]. intros e0 H0. apply Helems. eapply In_ddel, H0.
        - unfold l'. rewrite (dsum_ddel _ _ _ _ Ed). destruct Hok as (_&_&_&_&_&H6&_). cbn in H6. lia.
        - unfold l'. rewrite (dsum_ddel _ _ _ _ Ed). destruct Hok as (_&_&_&_&_&_&H7&_). cbn in H7.
          rewrite Htok0. change (0 / stake_unit) with 0. lia. }
      split; cbn [fst snd].
      * split.
        -- apply goodV_accts. apply (goodV_update c a (nv, l') (v, l) V Hx Hok').
        -- apply (goodL_delegate c a d v l nv l' bal lst (srem a lst) amt V L Hx Hd).
           ++ intros d' Hne. apply dget_ddel_other. assumption.
           ++ unfold tokl, l'. rewrite dget_ddel_same, Ed by assumption. lia.
           ++ intros e0 H0. right. eapply In_ddel, H0.
           ++ apply zsorted_srem, Hzs.
           ++ intros a'. rewrite (In_srem _ _ _ Hzs). destruct (Z.eq_dec a' a) as [->|Hna].
              ** unfold l'. rewrite dget_ddel_same by assumption. intuition congruence.
              ** intuition.
      * unfold undo_all. change (c_index _ _) with (c_update_validator c a (nv, l') (v, l)).
        rewrite (delegator_undo (c_update_validator c a (nv, l') (v, l)) d bal lst amt (srem a lst)).
        -- cbn [fold_left]. apply vundo_update; assumption.
        -- apply L.
        -- exact Hd.
        -- left; reflexivity.
    + (* updated *)
      assert (Htokp : 0 < tok).
      { unfold d_empty in Em; cbn in Em. destruct (Z.eq_dec tok 0) as [E0|]; [|lia].
        rewrite E0 in Em. change (0 / stake_unit) with 0 in Em. cbn in Em. discriminate. }
      assert (In a lst) as Hfound by (apply Hlink; discriminate).
      unfold c_update_delegator. unfold c_update_validator at 1. unfold c_set_validator, c_stat, c_index, c_xs. cbn [xaccts].
      rewrite Hd. apply mem_In in Hfound. rewrite Hfound. cbn [negb].
      set (e' := mkD d (tok / stake_unit) tok). set (nv := set_total v _ _). set (l' := dset l e').
      assert (Hae' : d_addr e' = d) by reflexivity.
      assert (Ed' : dget l (d_addr e') = Some e) by (rewrite Hae'; exact Ed).
      assert (Hok' : val_ok a (nv, l')).
      { apply (set_total_ok a v l); [exact Hok| | |].
        - split; [apply dsorted_dset, Hsorted|]. intros e0 H0. apply In_dset in H0 as [->|H0]; [|auto].
          cbn. split; [lia|reflexivity].
        - unfold l'. rewrite (dsum_dset_present _ _ _ _ Hsorted Ed'). destruct Hok as (_&_&_&_&_&H6&_). cbn in H6. cbn. lia.
        - unfold l'. rewrite (dsum_dset_present _ _ _ _ Hsorted Ed'). destruct Hok as (_&_&_&_&_&_&H7&_). cbn in H7. cbn. lia. }
      split; cbn [fst snd].
      * split.
        -- apply goodV_accts. apply (goodV_update c a (nv, l') (v, l) V Hx Hok').
        -- apply (goodL_delegate c a d v l nv l' bal lst lst amt V L Hx Hd).
           ++ intros d' Hne. apply dget_dset_other. cbn. assumption.
           ++ unfold tokl, l'. rewrite <- Hae' at 1. rewrite dget_dset_same, Ed. cbn. lia.
           ++ intros e0 H0. apply In_dset in H0 as [->|H0]; auto.
           ++ exact Hzs.
           ++ intros a'. destruct (Z.eq_dec a' a) as [->|Hna]; [|tauto].
              unfold l'. rewrite <- Hae' at 1. rewrite dget_dset_same. apply mem_In in Hfound. intuition congruence.
      * unfold undo_all. change (c_index _ _) with (c_update_validator c a (nv, l') (v, l)).
        rewrite (delegator_undo (c_update_validator c a (nv, l') (v, l)) d bal lst amt lst).
        -- cbn [fold_left]. apply vundo_update; assumption.
        -- apply L.
        -- exact Hd.
        -- right; split; reflexivity.
  - (* new delegation *)
    assert (0 < amt) by lia. destruct (Z.ltb_spec amt 0) as [|_]; [lia|].
    cbn [d_token d_stake]. rewrite !Z.add_0_l, Z.sub_0_r.
    assert (Em : d_empty (mkD d (amt / stake_unit) amt) = false).
    { unfold d_empty; cbn. lia. }
    rewrite Em.
    assert (~ In a lst) as Hnf by (intros Hf; apply Hlink in Hf; congruence).
    unfold c_update_delegator. unfold c_update_validator at 1. unfold c_set_validator, c_stat, c_index, c_xs. cbn [xaccts].
    rewrite Hd. assert (mem a lst = false) as Hm.
    { destruct (mem a lst) eqn:E; [|reflexivity]. apply mem_In in E. contradiction. }
    rewrite Hm. cbn [negb].
    set (e' := mkD d (amt / stake_unit) amt). set (nv := set_total v _ _). set (l' := dset l e').
    assert (Hae' : d_addr e' = d) by reflexivity.
    assert (Ed' : dget l (d_addr e') = None) by (rewrite Hae'; exact Ed).
    assert (Hok' : val_ok a (nv, l')).
    { apply (set_total_ok a v l); [exact Hok| | |].
      - split; [apply dsorted_dset, Hsorted|]. intros e0 H0. apply In_dset in H0 as [->|H0]; [|auto].
        cbn. split; [lia|reflexivity].
      - unfold l'. rewrite (dsum_dset_absent _ _ _ Ed'). destruct Hok as (_&_&_&_&_&H6&_). cbn in H6. cbn. lia.
      - unfold l'. rewrite (dsum_dset_absent _ _ _ Ed'). destruct Hok as (_&_&_&_&_&_&H7&_). cbn in H7. cbn. lia. }
    split; cbn [fst snd].
    * split.
      -- apply goodV_accts. apply (goodV_update c a (nv, l') (v, l) V Hx Hok').
      -- apply (goodL_delegate c a d v l nv l' bal lst (sins a lst) amt V L Hx Hd).
         ++ intros d' Hne. apply dget_dset_other. cbn. assumption.
         ++ unfold tokl, l'. rewrite <- Hae' at 1. rewrite dget_dset_same, Ed. cbn. lia.
         ++ intros e0 H0. apply In_dset in H0 as [->|H0]; auto.
         ++ apply zsorted_sins, Hzs.
         ++ intros a'. rewrite In_sins. destruct (Z.eq_dec a' a) as [->|Hna].
            ** unfold l'. rewrite <- Hae' at 1. rewrite dget_dset_same. intuition congruence.
            ** intuition.
    * unfold undo_all. change (c_index _ _) with (c_update_validator c a (nv, l') (v, l)).
      rewrite (delegator_undo (c_update_validator c a (nv, l') (v, l)) d bal lst amt (sins a lst)).
      -- cbn [fold_left]. apply vundo_update; assumption.
      -- apply L.
      -- exact Hd.
      -- left; reflexivity.
Qed.

(* ---- IntermediateRoot ------------------------------------------------------ *)

Lemma invalid_empty a v l : val_ok a (v, l) -> is_invalid v = true -> l = [].
Proof.
  intros Hok Hi. unfold is_invalid in Hi.
  destruct Hok as (_&_&_&H4&_&H6&_&[_ H8]&_). cbn [fst snd] in *.
  apply dsum_pos_nil; [intros e He; apply H8, He|].
  pose proof (dsum_token_nonneg _ H8). lia.
Qed.

(* removing a validator without delegations *)
Lemma good_delete c a v : Good c -> aget (xs c) a = Some (v, []) ->
  Good (c_stat (c_index (c_xs c (adel (xs c) a)) (srem a (xindex c))) (a_decr (xstat c) v)).
Proof.
  intros [V L] Hx. split.
  - apply (goodV_delete c a (v, []) V Hx).
  - unfold c_stat, c_index, c_xs. constructor; cbn.
    + apply L.
    + apply L.
    + intros d bal lst a' Hd. rewrite (g_link _ L _ _ _ a' Hd).
      destruct (Z.eq_dec a' a) as [->|Hne].
      * rewrite aget_adel_same by apply V. rewrite Hx.
        split; intros (x & Hx' & Hg); [inversion Hx'; subst; cbn in Hg; congruence|discriminate].
      * rewrite aget_adel_other by assumption. reflexivity.
    + intros d bal lst Hd. rewrite (lsum_adel _ _ _ _ Hx). unfold tokd at 2; cbn.
      rewrite <- (g_bal _ L _ _ _ Hd). lia.
    + intros a' x e. destruct (Z.eq_dec a' a) as [->|Hne].
      * rewrite aget_adel_same by apply V. discriminate.
      * rewrite aget_adel_other by assumption. apply L.
Qed.

Lemma good_root_vals dirty : forall c, Good c -> Good (c_root_vals c dirty).
Proof.
  induction dirty as [|a r IH]; intros c [V L]; cbn [c_root_vals]; [split; assumption|].
  destruct (aget (xs c) a) as [[v l]|] eqn:Hx; [|apply IH; split; assumption].
  destruct (is_invalid v) eqn:Hi.
  - pose proof (invalid_empty _ _ _ (g_vals _ V _ _ Hx) Hi) as ->.
    apply IH. apply good_delete; [split; assumption|exact Hx].
  - apply IH. rewrite (index_present _ _ _ V Hx). destruct c; split; assumption.
Qed.

Lemma sset_adel_back {A} (m : list (Z * A)) k y : ssorted m -> aget m k = Some y -> sset (adel m k) k y = m.
Proof.
  induction m as [|[k2 z] r IH]; cbn; [discriminate|].
  intros [Hlt Hs]. destruct (Z.eqb_spec k2 k) as [->|Hne].
  - intros H; inversion H; subst. destruct r as [|[k3 z3] r']; cbn; [reflexivity|].
    assert (k < k3) by (eapply Hlt; cbn; eauto). destruct (Z.ltb_spec k k3); [reflexivity|lia].
  - intros Hg. cbn. destruct (Z.ltb_spec k k2).
    + apply aget_In in Hg. specialize (Hlt _ _ Hg). lia.
    + destruct (Z.eqb_spec k k2); [lia|]. f_equal; auto.
Qed.

Lemma remove_sound c a :
  Good c -> (match aget (xs c) a with Some (_, []) => true | Some _ => false | None => true end) = true ->
  op_sound c (c_remove c a).
Proof.
  intros G Hp. unfold c_remove, op_sound.
  destruct (aget (xs c) a) as [[v l]|] eqn:Hx; [|cbn; split; [exact G|reflexivity]].
  destruct l as [|e l]; [|discriminate]. cbn [fst snd]. split; [apply good_delete; assumption|].
  destruct G as [V L]. pose proof (g_vals _ V _ _ Hx) as Hok.
  pose proof (g_stat _ V) as Hst. pose proof (g_index _ V) as Hix. pose proof (g_sorted _ V) as Hs.
  pose proof (goodV_nonneg_rest _ a V) as Hnn.
  unfold undo_all. cbn [fold_left]. unfold c_vundo1, c_set_validator, c_stat, c_index, c_xs.
  destruct c as [m idx st ac]; cbn in *. f_equal.
  - apply sset_adel_back; assumption.
  - rewrite Hix. apply sins_srem_present; [apply ssorted_keys, Hs|]. apply aget_keys. congruence.
  - rewrite Hst, (tot_adel _ _ _ Hx). cbn [fst]. unfold a_decr. rewrite decr_wrap by (try apply Hok; assumption).
    cbn [ostat]. unfold a_incr. rewrite incr_wrap by apply Hok. reflexivity.
Qed.

(* ---- undo: account part and validator part are independent ----------------- *)

Definition l_aundo1 (ac : list (Z * xacct)) (e : aentry) : list (Z * xacct) :=
  match e with
  | JCreate d => adel ac d
  | JBal _ => ac
  | JDlgBal d prev => match aget ac d with None => ac | Some (_, lst) => sset ac d (prev, lst) end
  | JDlgs d prev => match aget ac d with None => ac | Some (bal, _) => sset ac d (bal, prev) end
  end.

Lemma c_accts_eta c : c_accts c (xaccts c) = c.
Proof. destruct c; reflexivity. Qed.

Lemma c_aundo1_l c e : c_aundo1 c e = c_accts c (l_aundo1 (xaccts c) e).
Proof.
  destruct e; cbn; try reflexivity.
  - now rewrite c_accts_eta.
  - destruct (aget (xaccts c) a) as [[? ?]|]; [reflexivity|now rewrite c_accts_eta].
  - destruct (aget (xaccts c) a) as [[? ?]|]; [reflexivity|now rewrite c_accts_eta].
Qed.

Lemma c_vundo1_accts c x f : c_vundo1 (c_accts c x) f = c_accts (c_vundo1 c f) x.
Proof.
  destruct f; cbn.
  - destruct (aget (xs c) a) as [[? ?]|]; reflexivity.
  - reflexivity.
  - reflexivity.
Qed.

Lemma c_vundo1_xaccts c f : xaccts (c_vundo1 c f) = xaccts c.
Proof.
  destruct f; cbn; [|reflexivity|reflexivity]. destruct (aget (xs c) a) as [[? ?]|]; reflexivity.
Qed.

Lemma undo1_comm c e f : c_vundo1 (c_aundo1 c e) f = c_aundo1 (c_vundo1 c f) e.
Proof. now rewrite !c_aundo1_l, c_vundo1_accts, c_vundo1_xaccts. Qed.

Lemma fold_vundo_aundo1 jv : forall c e, fold_left c_vundo1 jv (c_aundo1 c e) = c_aundo1 (fold_left c_vundo1 jv c) e.
Proof.
  induction jv as [|f r IH]; intros c e; cbn; [reflexivity|]. now rewrite undo1_comm, IH.
Qed.

Lemma c_aundo_fold_vundo ja : forall c jv n,
  fst (c_aundo (fold_left c_vundo1 jv c) ja n) = fold_left c_vundo1 jv (fst (c_aundo c ja n)) /\
  snd (c_aundo (fold_left c_vundo1 jv c) ja n) = snd (c_aundo c ja n).
Proof.
  induction ja as [|e r IH]; intros c jv n; cbn [c_aundo]; [split; reflexivity|].
  destruct (Nat.ltb n (length (e :: r))); [|split; reflexivity].
  rewrite <- fold_vundo_aundo1. apply IH.
Qed.

Lemma c_vundo_aundo1 jv : forall c e n,
  fst (c_vundo (c_aundo1 c e) jv n) = c_aundo1 (fst (c_vundo c jv n)) e /\
  snd (c_vundo (c_aundo1 c e) jv n) = snd (c_vundo c jv n).
Proof.
  induction jv as [|f r IH]; intros c e n; cbn [c_vundo]; [split; reflexivity|].
  destruct (Nat.ltb n (length (f :: r))); [|split; reflexivity].
  rewrite undo1_comm. apply IH.
Qed.

(* prefix of new entries *)
Lemma c_aundo_app new : forall c old n, (n <= length old)%nat ->
  c_aundo c (new ++ old) n = c_aundo (fold_left c_aundo1 new c) old n.
Proof.
  induction new as [|e r IH]; intros c old n Hn; [reflexivity|].
  cbn [app c_aundo fold_left].
  destruct (Nat.ltb_spec n (length (e :: r ++ old))) as [_|H]; [|cbn in H; rewrite app_length in H; lia].
  apply IH, Hn.
Qed.

Lemma c_vundo_app new : forall c old n, (n <= length old)%nat ->
  c_vundo c (new ++ old) n = c_vundo (fold_left c_vundo1 new c) old n.
Proof.
  induction new as [|e r IH]; intros c old n Hn; [reflexivity|].
  cbn [app c_vundo fold_left].
  destruct (Nat.ltb_spec n (length (e :: r ++ old))) as [_|H]; [|cbn in H; rewrite app_length in H; lia].
  apply IH, Hn.
Qed.

Lemma c_aundo_split j : forall c n, (n <= length j)%nat ->
  exists pre, j = pre ++ snd (c_aundo c j n) /\ fst (c_aundo c j n) = fold_left c_aundo1 pre c
              /\ length (snd (c_aundo c j n)) = n.
Proof.
  induction j as [|e r IH]; intros c n Hn; cbn [c_aundo].
  - exists []. cbn in *. repeat split; lia.
  - destruct (Nat.ltb_spec n (length (e :: r))) as [H|H].
    + destruct (IH (c_aundo1 c e) n) as (pre & H1 & H2 & H3); [cbn in H; lia|].
      exists (e :: pre). cbn. repeat split; [f_equal; exact H1|exact H2|exact H3].
    + exists []. cbn in *. repeat split; lia.
Qed.

Lemma c_vundo_split j : forall c n, (n <= length j)%nat ->
  exists pre, j = pre ++ snd (c_vundo c j n) /\ fst (c_vundo c j n) = fold_left c_vundo1 pre c
              /\ length (snd (c_vundo c j n)) = n.
Proof.
  induction j as [|e r IH]; intros c n Hn; cbn [c_vundo].
  - exists []. cbn in *. repeat split; lia.
  - destruct (Nat.ltb_spec n (length (e :: r))) as [H|H].
    + destruct (IH (c_vundo1 c e) n) as (pre & H1 & H2 & H3); [cbn in H; lia|].
      exists (e :: pre). cbn. repeat split; [f_equal; exact H1|exact H2|exact H3].
    + exists []. cbn in *. repeat split; lia.
Qed.

Lemma c_aundo_full c j : c_aundo c j (length j) = (c, j).
Proof. destruct j; cbn [c_aundo]; [reflexivity|]. now rewrite Nat.ltb_irrefl. Qed.
Lemma c_vundo_full c j : c_vundo c j (length j) = (c, j).
Proof. destruct j; cbn [c_vundo]; [reflexivity|]. now rewrite Nat.ltb_irrefl. Qed.

Lemma undo_push c' ja jv c xa xv aj vj :
  undo_all c' ja jv = c -> (aj <= length xa)%nat -> (vj <= length xv)%nat ->
  c_undo c' (ja ++ xa) (jv ++ xv) aj vj = c_undo c xa xv aj vj.
Proof.
  intros Hu Ha Hv. unfold c_undo. rewrite c_aundo_app, c_vundo_app by assumption.
  destruct (c_aundo_fold_vundo xa (fold_left c_aundo1 ja c') jv aj) as [H1 _].
  rewrite <- H1. unfold undo_all in Hu. rewrite Hu. reflexivity.
Qed.

Lemma undo_compose c ja jv aj vj aj' vj' :
  (aj <= length ja)%nat -> (vj <= length jv)%nat -> (aj' <= aj)%nat -> (vj' <= vj)%nat ->
  c_undo (fst (c_vundo (fst (c_aundo c ja aj)) jv vj)) (snd (c_aundo c ja aj))
         (snd (c_vundo (fst (c_aundo c ja aj)) jv vj)) aj' vj'
  = c_undo c ja jv aj' vj'.
Proof.
  intros Ha Hv Ha' Hv'. unfold c_undo.
  destruct (c_aundo_split ja c aj Ha) as (pa & Ea & Fa & La).
  destruct (c_vundo_split jv (fst (c_aundo c ja aj)) vj Hv) as (pv & Ev & Fv & Lv).
  set (ra := snd (c_aundo c ja aj)) in *. set (c1 := fst (c_aundo c ja aj)) in *.
  set (rv := snd (c_vundo c1 jv vj)) in *.
  rewrite Fv.
  destruct (c_aundo_fold_vundo ra c1 pv aj') as [H1 _]. rewrite H1.
  (* account part: undoing further from c1/ra equals undoing from c/ja *)
  assert (Hacc : fst (c_aundo c1 ra aj') = fst (c_aundo c ja aj')).
  { rewrite Ea. rewrite c_aundo_app by lia. now rewrite <- Fa. }
  rewrite Hacc.
  rewrite Ev. rewrite c_vundo_app by lia. reflexivity.
Qed.

(* ---- the invariant of the whole abstract state, including the revisions ---- *)

Fixpoint revs_mono (la lv : nat) (l : list (Z * (nat * nat))) : Prop :=
  match l with
  | [] => True
  | (_, (aj, vj)) :: r => (aj <= la)%nat /\ (vj <= lv)%nat /\ revs_mono aj vj r
  end.

Lemma revs_mono_weaken l : forall la lv la' lv', (la <= la')%nat -> (lv <= lv')%nat ->
  revs_mono la lv l -> revs_mono la' lv' l.
Proof. destruct l as [|[id [aj vj]] r]; cbn; intros; [exact I|]. intuition lia. Qed.

Lemma revs_mono_In l : forall la lv id aj vj, revs_mono la lv l -> In (id, (aj, vj)) l -> (aj <= la)%nat /\ (vj <= lv)%nat.
Proof.
  induction l as [|[id0 [aj0 vj0]] r IH]; cbn; intros la lv id aj vj H Hin; [tauto|].
  destruct H as (H1 & H2 & H3). destruct Hin as [Heq|Hin].
  - inversion Heq; subst. lia.
  - destruct (IH _ _ _ _ _ H3 Hin). lia.
Qed.

Lemma drop_revs_spec l : forall la lv id aj vj, revs_mono la lv l -> aget l id = Some (aj, vj) ->
  In (id, (aj, vj)) l /\ revs_mono aj vj (drop_revs l id) /\ (forall p, In p (drop_revs l id) -> In p l).
Proof.
  induction l as [|[id0 [aj0 vj0]] r IH]; cbn; intros la lv id aj vj H Hg; [discriminate|].
  destruct H as (H1 & H2 & H3). destruct (Z.eqb_spec id0 id) as [->|Hne].
  - inversion Hg; subst. repeat split; auto.
  - destruct (IH _ _ _ _ _ H3 Hg) as (I1 & I2 & I3). repeat split; auto.
Qed.

Definition J (s : astate) : Prop :=
  Good (core s) /\ revs_mono (length (xaj s)) (length (xvj s)) (xrevs s) /\
  forall id aj vj, In (id, (aj, vj)) (xrevs s) -> Good (c_undo (core s) (xaj s) (xvj s) aj vj).

Lemma J_init : J ainit.
Proof.
  split; [|split; [exact I|intros ? ? ? []]].
  split; constructor; cbn; try exact I; try reflexivity; try discriminate.
Qed.

Lemma J_push s e : J s -> op_sound (core s) e -> J (a_push s e).
Proof.
  intros (G & M & H) [Hg Hu]. destruct e as [[c' ja] jv]. cbn [fst snd] in *.
  unfold a_push. split; [exact Hg|]. cbn [core xaj xvj xrevs]. split.
  - eapply revs_mono_weaken; [| |exact M]; rewrite app_length; lia.
  - intros id aj vj Hin. destruct (revs_mono_In _ _ _ _ _ _ M Hin).
    rewrite (undo_push c' ja jv (core s)) by assumption. apply (H _ _ _ Hin).
Qed.

Theorem J_step s o : J s -> a_pre s o = true -> J (a_step s o).
Proof.
  intros HJ Hp. destruct o; cbn [a_step a_pre] in *.
  - apply J_push; [assumption|]. apply fund_sound, HJ.
  - apply J_push; [assumption|]. apply create_sound; [apply HJ|lia..].
  - apply J_push; [assumption|]. apply update_sound; [apply HJ|assumption].
  - apply J_push; [assumption|]. apply update_sound; [apply HJ|assumption].
  - apply J_push; [assumption|]. apply remove_sound; [apply HJ|assumption].
  - apply J_push; [assumption|]. apply delegate_sound; [apply HJ|assumption].
  - (* snapshot *)
    destruct HJ as (G & M & H). unfold a_snapshot. split; [exact G|]. cbn [core xaj xvj xrevs]. split.
    + cbn. repeat split; [lia..|exact M].
    + intros id0 aj vj [Heq|Hin]; [|apply (H _ _ _ Hin)].
      inversion Heq; subst. unfold c_undo. rewrite c_aundo_full. cbn [fst]. rewrite c_vundo_full. exact G.
  - (* revert *)
    destruct HJ as (G & M & H). unfold a_revert.
    destruct (aget (xrevs s) id) as [[aj vj]|] eqn:E; [|discriminate].
    destruct (drop_revs_spec _ _ _ _ _ _ M E) as (Hin & M' & Hsub).
    destruct (revs_mono_In _ _ _ _ _ _ M Hin) as [Ha Hv].
    destruct (c_aundo (core s) (xaj s) aj) as [c1 ra] eqn:E1.
    destruct (c_vundo c1 (xvj s) vj) as [c2 rv] eqn:E2.
    assert (Hc1 : c1 = fst (c_aundo (core s) (xaj s) aj)) by now rewrite E1.
    assert (Hra : ra = snd (c_aundo (core s) (xaj s) aj)) by now rewrite E1.
    assert (Hc2 : c2 = fst (c_vundo c1 (xvj s) vj)) by now rewrite E2.
    assert (Hrv : rv = snd (c_vundo c1 (xvj s) vj)) by now rewrite E2.
    destruct (c_aundo_split (xaj s) (core s) aj Ha) as (_ & _ & _ & La).
    destruct (c_vundo_split (xvj s) c1 vj Hv) as (_ & _ & _ & Lv).
    rewrite <- Hra in La. rewrite <- Hrv in Lv.
    split; [|split]; cbn [core xaj xvj xrevs].
    + specialize (H _ _ _ Hin). unfold c_undo in H. rewrite <- Hc1, <- Hc2 in H. exact H.
    + rewrite La, Lv. exact M'.
    + intros id' aj' vj' Hin'. destruct (revs_mono_In _ _ _ _ _ _ M' Hin') as [Ha' Hv'].
      subst c2 rv ra. subst c1. rewrite undo_compose by assumption. apply (H _ _ _ (Hsub _ Hin')).
  - (* finalise *)
    destruct HJ as (G & M & H). unfold a_finalise. split; [exact G|]. split; [exact I|intros ? ? ? []].
  - (* root *)
    destruct HJ as (G & M & H). unfold a_root, a_finalise. cbn [core xdirty].
    split; [|split; [exact I|intros ? ? ? []]]. cbn [core].
    apply good_root_vals. exact G.
  - (* commit + reload *)
    destruct HJ as (G & M & H). unfold a_setnext, a_root, a_finalise. cbn [core xdirty xaj xvj xrevs].
    split; [|split; [exact I|intros ? ? ? []]].
    apply good_root_vals. exact G.
  - (* copy *)
    destruct HJ as (G & M & H). unfold a_setnext, a_finalise. cbn [core xdirty xaj xvj xrevs].
    split; [exact G|]. split; [exact I|intros ? ? ? []].
  - assumption.
Qed.
