(* C08 - the value-level ("ideal") semantics of the validator bookkeeping:
   validators are values with their delegation list inline, there is no cache,
   no tombstone, no shared backing array, and all maps are canonical sorted
   association lists.  ProofsSim.v shows that the faithful model of Model.v
   coincides with this semantics on every history outside the finding classes;
   ProofsA.v proves the property for this semantics.  Definitions only. *)
From VF.C08 Require Import Model.
Local Open Scope Z_scope.

(* canonical sorted association lists (lookup: Model.aget, removal: Model.adel) *)
Fixpoint sset {A} (m : list (Z * A)) (k : Z) (x : A) : list (Z * A) :=
  match m with
  | [] => [(k, x)]
  | (k', y) :: r => if Z.ltb k k' then (k, x) :: m
                    else if Z.eqb k k' then (k, x) :: r else (k', y) :: sset r k x
  end.

Fixpoint dset (l : list dfrom) (e : dfrom) : list dfrom :=
  match l with
  | [] => [e]
  | e' :: r => if Z.ltb (d_addr e) (d_addr e') then e :: l
               else if Z.eqb (d_addr e) (d_addr e') then e :: r else e' :: dset r e
  end.
Fixpoint ddel (l : list dfrom) (d : Z) : list dfrom :=
  match l with
  | [] => []
  | e' :: r => if Z.eqb (d_addr e') d then r else e' :: ddel r d
  end.

Inductive xentry :=
| XCreate (a : Z)
| XUpdate (a : Z) (nw old : xval)
| XDelete (a : Z) (old : xval).
Definition xentry_addr (e : xentry) : Z := match e with XCreate a => a | XUpdate a _ _ => a | XDelete a _ => a end.

Definition xacct := (Z * list Z)%type.   (* delegation balance, delegation list *)

(* the part of the state the property talks about and the journals restore *)
Record acore := mkC {
  xs : list (Z * xval);
  xindex : list Z;
  xstat : stat;
  xaccts : list (Z * xacct) }.

Definition c_xs c v := mkC v (xindex c) (xstat c) (xaccts c).
Definition c_index c v := mkC (xs c) v (xstat c) (xaccts c).
Definition c_stat c v := mkC (xs c) (xindex c) v (xaccts c).
Definition c_accts c v := mkC (xs c) (xindex c) (xstat c) v.

Record astate := mkAS {
  core : acore;
  xdirty : list Z;
  xvj : list xentry;          (* newest first *)
  xaj : list aentry;          (* newest first *)
  xrevs : list (Z * (nat * nat));
  xnext : Z }.

Definition ainit : astate := mkAS (mkC [] [] stat_zero []) [] [] [] [] 0.

Definition ostat (o : option stat) (dflt : stat) : stat := match o with Some st => st | None => dflt end.
Definition a_incr (st : stat) (v : val) : stat := ostat (incr_stat st v) st.
Definition a_decr (st : stat) (v : val) : stat := ostat (decr_stat st v) st.

(* stat adjustment of UpdateValidator / its revert *)
Definition a_adjust (st : stat) (plus minus : val) : stat :=
  if stake_equal plus minus then st else a_incr (a_decr st minus) plus.

Definition c_set_validator (c : acore) (a : Z) (x : xval) : acore :=
  c_index (c_xs c (sset (xs c) a x)) (sins a (xindex c)).

(* forward operations: new core, new account entries, new validator entries (newest first) *)
Definition eff := (acore * list aentry * list xentry)%type.

Definition c_update_validator (c : acore) (a : Z) (nw old : xval) : acore :=
  let c1 := c_set_validator c a nw in
  c_stat c1 (a_adjust (xstat c1) (fst nw) (fst old)).

Definition c_create (c : acore) (a role status token stake : Z) : eff :=
  match aget (xs c) a with
  | Some _ => (c, [], [])
  | None =>
    let v := new_validator a role status token stake 0%nat in
    let c1 := c_set_validator c a (v, []) in
    (c_stat c1 (a_incr (xstat c1) v), [], [XCreate a])
  end.

Definition c_update (c : acore) (a : Z) (u : upd) : eff :=
  match aget (xs c) a with
  | None => (c, [], [])
  | Some (old, l) => (c_update_validator c a (apply_upd old u, l) (old, l), [], [XUpdate a (apply_upd old u, l) (old, l)])
  end.

(* RemoveValidator of an existing validator *)
Definition c_remove (c : acore) (a : Z) : eff :=
  match aget (xs c) a with
  | None => (c, [], [])
  | Some (v, l) =>
    (c_stat (c_index (c_xs c (adel (xs c) a)) (srem a (xindex c))) (a_decr (xstat c) v), [], [XDelete a (v, l)])
  end.

Definition c_fund (c : acore) (d : Z) : eff :=
  match aget (xaccts c) d with
  | Some _ => (c, [JBal d], [])
  | None => (c_accts c (sset (xaccts c) d (0, [])), [JBal d; JCreate d], [])
  end.

Definition c_update_delegator (c : acore) (d a delta : Z) (del : bool) : acore * list aentry :=
  match aget (xaccts c) d with
  | None => (c, [])
  | Some (bal, lst) =>
    let found := mem a lst in
    let '(j1, lst1) :=
      if negb found then (if del then ([], lst) else ([JDlgs d lst], sins a lst))
      else if del then ([JDlgs d lst], srem a lst) else ([], lst) in
    (c_accts c (sset (xaccts c) d (bal + delta, lst1)), JDlgBal d bal :: j1)
  end.

Definition c_delegate (c : acore) (d a amt : Z) : eff :=
  match aget (xs c) a with
  | None => (c, [], [])
  | Some (v, l) =>
    if Z.eqb amt 0 then (c, [], [])
    else
      let start := match dget l d with
                   | Some e => Some e
                   | None => if Z.ltb amt 0 then None else Some (mkD d 0 0)
                   end in
      match start with
      | None => (c, [], [])
      | Some e =>
        let tok := d_token e + amt in
        let nstake := tok / stake_unit in
        let e' := mkD d nstake tok in
        let nv := set_total v (v_token v + amt) (v_stake v + (nstake - d_stake e)) in
        let '(l', del) :=
          match dget l d with
          | Some _ => if d_empty e' then (ddel l d, true) else (dset l e', false)
          | None => if d_empty e' then (l, false) else (dset l e', false)
          end in
        let c1 := c_update_validator c a (nv, l') (v, l) in
        let '(c2, ja) := c_update_delegator c1 d a amt del in
        (c2, ja, [XUpdate a (nv, l') (v, l)])
      end
  end.

Definition c_vundo1 (c : acore) (e : xentry) : acore :=
  match e with
  | XCreate a =>
    match aget (xs c) a with
    | None => c
    | Some (v, _) => c_index (c_xs (c_stat c (a_decr (xstat c) v)) (adel (xs c) a)) (srem a (xindex c))
    end
  | XUpdate a nw old =>
    (* what the statistics count is the record of a as it is now (repository commit 7813a3d) *)
    let cur := match aget (xs c) a with Some (v, _) => v | None => fst nw end in
    let c1 := c_set_validator c a old in
    c_stat c1 (a_adjust (xstat c1) (fst old) cur)
  | XDelete a old =>
    let c1 := c_set_validator c a old in
    c_stat c1 (a_incr (xstat c1) (fst old))
  end.

Definition c_aundo1 (c : acore) (e : aentry) : acore :=
  match e with
  | JCreate d => c_accts c (adel (xaccts c) d)
  | JBal _ => c
  | JDlgBal d prev =>
    match aget (xaccts c) d with
    | None => c
    | Some (_, lst) => c_accts c (sset (xaccts c) d (prev, lst))
    end
  | JDlgs d prev =>
    match aget (xaccts c) d with
    | None => c
    | Some (bal, _) => c_accts c (sset (xaccts c) d (bal, prev))
    end
  end.

(* undo the newest entries of a journal down to length n; returns the rest *)
Fixpoint c_aundo (c : acore) (j : list aentry) (n : nat) : acore * list aentry :=
  match j with
  | [] => (c, [])
  | e :: r => if Nat.ltb n (length j) then c_aundo (c_aundo1 c e) r n else (c, j)
  end.
Fixpoint c_vundo (c : acore) (j : list xentry) (n : nat) : acore * list xentry :=
  match j with
  | [] => (c, [])
  | e :: r => if Nat.ltb n (length j) then c_vundo (c_vundo1 c e) r n else (c, j)
  end.

Definition c_undo (c : acore) (ja : list aentry) (jv : list xentry) (aj vj : nat) : acore :=
  fst (c_vundo (fst (c_aundo c ja aj)) jv vj).

Definition a_push (s : astate) (e : eff) : astate :=
  let '(c, ja, jv) := e in
  mkAS c (xdirty s) (jv ++ xvj s) (ja ++ xaj s) (xrevs s) (xnext s).

Definition a_snapshot (s : astate) : astate :=
  mkAS (core s) (xdirty s) (xvj s) (xaj s)
       ((xnext s, (length (xaj s), length (xvj s))) :: xrevs s) (xnext s + 1).

Definition a_revert (s : astate) (id : Z) : astate :=
  match aget (xrevs s) id with
  | None => s
  | Some (aj, vj) =>
    let '(c1, ja) := c_aundo (core s) (xaj s) aj in
    let '(c2, jv) := c_vundo c1 (xvj s) vj in
    mkAS c2 (xdirty s) jv ja (drop_revs (xrevs s) id) (xnext s)
  end.

Definition a_finalise (s : astate) : astate :=
  let dirt := fold_left (fun acc e => sins (xentry_addr e) acc) (xvj s) (xdirty s) in
  mkAS (core s) dirt [] [] [] (xnext s).

Fixpoint c_root_vals (c : acore) (dirty : list Z) : acore :=
  match dirty with
  | [] => c
  | a :: r =>
    match aget (xs c) a with
    | None => c_root_vals c r
    | Some (v, _) =>
      if is_invalid v
      then c_root_vals (c_stat (c_index (c_xs c (adel (xs c) a)) (srem a (xindex c))) (a_decr (xstat c) v)) r
      else c_root_vals (c_index c (sins a (xindex c))) r
    end
  end.

Definition a_root (s : astate) : astate :=
  let s0 := a_finalise s in
  mkAS (c_root_vals (core s0) (xdirty s0)) [] [] [] [] (xnext s0).

Definition a_setnext (s : astate) (n : Z) : astate :=
  mkAS (core s) (xdirty s) (xvj s) (xaj s) (xrevs s) n.

Definition a_step (s : astate) (o : op) : astate :=
  match o with
  | OFund d => a_push s (c_fund (core s) d)
  | OCreate a role status token stake => a_push s (c_create (core s) a role status token stake)
  | OUpdate a u | OUpdateIn a u => a_push s (c_update (core s) a u)
  | ORemove a => a_push s (c_remove (core s) a)
  | ODelegate d a amt => a_push s (c_delegate (core s) d a amt)
  | OSnapshot => a_snapshot s
  | ORevert id => a_revert s id
  | OFinalise => a_finalise s
  | ORoot => a_root s
  | OCommitReload => a_setnext (a_root s) 0
  | OCopy => a_setnext (a_finalise s) 0
  | OList => s
  end.

(* ---- the discipline of the callers (preconditions on the value level) ----- *)

Definition upd_ok (old : val) (u : upd) : bool :=
  role_ok (u_role u)
  && Z.leb 0 (u_stoken u) && Z.eqb (u_sstake u) (u_stoken u / stake_unit)
  && Z.eqb (u_token u) (v_token old + (u_stoken u - v_stoken old))
  && Z.eqb (u_stake u) (v_stake old + (u_sstake u - v_sstake old))
  && Z.leb 0 (u_rdist u) && Z.leb 0 (u_rtotal u).

Definition a_pre (s : astate) (o : op) : bool :=
  match o with
  | OCreate a role status token stake =>
    role_ok role && Z.leb 0 token && Z.eqb stake (token / stake_unit)
  | OUpdate a u | OUpdateIn a u =>
    match aget (xs (core s)) a with None => true | Some (old, _) => upd_ok old u end
  | ODelegate d a amt =>
    match aget (xs (core s)) a with
    | None => true
    | Some (v, l) =>
      Z.eqb amt 0 ||
      (match aget (xaccts (core s)) d with Some _ => true | None => false end
       && Z.leb 0 (match dget l d with Some e => d_token e | None => 0 end + amt))
    end
  | ORevert id => match aget (xrevs s) id with Some _ => true | None => false end
  | ORemove a =>
    (* RemoveValidator has no business check: the caller removes only validators without delegations *)
    match aget (xs (core s)) a with Some (_, []) => true | Some _ => false | None => true end
  | _ => true
  end.
