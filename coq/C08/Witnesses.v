(* C08 - witnesses inside each finding class: the faithful model violates the property. *)
From VF.C08 Require Import Model Abstract ProofsA ProofsSim Proofs.
Local Open Scope Z_scope.

(* ---- witnesses inside each finding class (the faithful model violates the property) --- *)

Definition U : Z := stake_unit.

(* F5: a delegation from an address without account is recorded on the validator only *)
Definition w_f5 : list op :=
  [OCreate 100 1 1 (10 * U) 10; ODelegate 1 100 (3 * U)].
(* F7 (stale-index-reload): every validator removed since the last root empties the
   in-memory index; GetValidatorsForUpdate then reloads the persisted index, which
   still lists the removed validator *)
Definition w_f7 : list op :=
  [OCreate 100 1 1 (10 * U) 10; ORoot; ORemove 100; OList].
(* F8 (copy-reindexes-removed-validator): Copy adds every address of
   validatorObjectsDirty to the copy's index, a removed validator included *)
Definition w_f8 : list op :=
  [OCreate 100 1 1 (10 * U) 10; ORoot; ORemove 100; OFinalise; OCopy].

(* former F9 (inplace-update-then-revert, repaired by 7813a3d): validatorUpdateChange holds newVal
   by pointer and its undo used to read it.  The pattern of staking.teDelegationSub -
   UpdateDelegation stores newVal, then the handler sets newVal.Status in place and calls
   UpdateValidator(newVal, copy) - changes the object the first journal entry points at; a
   revert across both used to subtract the offline record where the online one had been
   added.  The undo now subtracts the stored record: a regression history *)
Definition w_f9 : list op :=
  [OFund 1; OCreate 100 1 1 (10 * U) 10; ODelegate 1 100 (3 * U); ORoot; OSnapshot;
   ODelegate 1 100 (- (3 * U)); OUpdateIn 100 (mkU 1 0 (10 * U) 10 (10 * U) 10 0 0 0); ORevert 0].
(* in-place status and rewards changes with a later snapshot/deposit/revert *)
Definition ex_inplace : list op :=
  [OFund 1; OCreate 100 1 1 (10 * U) 10; ODelegate 1 100 (3 * U); ORoot; OSnapshot;
   ODelegate 1 100 (- (3 * U)); OUpdateIn 100 (mkU 1 0 (10 * U) 10 (10 * U) 10 0 0 0);
   OSnapshot; OUpdate 100 (mkU 1 0 (12 * U) 12 (12 * U) 12 0 0 0); ORevert 1;
   OUpdateIn 100 (mkU 1 0 (10 * U) 10 (10 * U) 10 4 4 7); ORoot].

(* regressions of the repaired classes: these histories now satisfy the property *)
Definition r_f2 : list op :=
  [OCreate 100 1 1 (10 * U) 10; OCreate 200 1 1 (20 * U) 20; ORoot; ORemove 100; ORoot].
Definition r_f3 : list op :=
  [OCreate 100 1 1 (10 * U) 10; ORoot; OCreate 200 2 1 (20 * U) 20; OList].
Definition r_f6 : list op :=
  OCreate 100 1 0 446744073709551634 0
  :: map (fun d => OFund d) (map Z.of_nat (seq 1 18))
  ++ map (fun d => ODelegate d 100 (U - 1)) (map Z.of_nat (seq 1 18))
  ++ [ORoot].

(* a deposit of 1 YOU on a validator holding 99.99 YOU of its own and a delegation of 50.49 YOU (stakes 99 + 50):
   booked by deltas the total stake becomes 150; recomputed as floor(total token / unit) = floor(151.48) it would be
   151 - that update is outside the callers' discipline (upd_ok) and breaks the decomposition *)
Definition C : Z := U / 100.
Definition dep_pre : list op := [OFund 1; OCreate 100 2 0 (9999 * C) 99; ODelegate 1 100 (5049 * C)].
Definition dep_by_deltas : list op := dep_pre ++ [OUpdate 100 (mkU 2 0 (15148 * C) 150 (10099 * C) 100 0 0 0)].
Definition dep_by_floor_of_total : list op := dep_pre ++ [OUpdate 100 (mkU 2 0 (15148 * C) 151 (10099 * C) 100 0 0 0)].

Definition refutes (w : list op) : Prop :=
  safe (removelast w) = true /\ safe w = false /\
  exists s, run init w = Some s /\ inv_all s = false.

Definition refutes_b (w : list op) : bool :=
  safe (removelast w) && negb (safe w) &&
  match run init w with Some s => negb (inv_all s) | None => false end.

Lemma refutes_b_spec w : refutes_b w = true -> refutes w.
Proof.
  unfold refutes_b, refutes. intros H. apply andb_prop in H as [H H3]. apply andb_prop in H as [H1 H2].
  split; [exact H1|]. split; [destruct (safe w); [discriminate|reflexivity]|].
  destruct (run init w) as [s|]; [|discriminate]. exists s. split; [reflexivity|].
  destruct (inv_all s); [discriminate|reflexivity].
Qed.

Lemma refuted_f5 : refutes w_f5. Proof. apply refutes_b_spec. vm_compute. reflexivity. Qed.
Lemma refuted_f7 : refutes w_f7. Proof. apply refutes_b_spec. vm_compute. reflexivity. Qed.
Lemma refuted_f8 : refutes w_f8. Proof. apply refutes_b_spec. vm_compute. reflexivity. Qed.

Lemma refuted_dep_by_floor : refutes dep_by_floor_of_total. Proof. apply refutes_b_spec. vm_compute. reflexivity. Qed.

Definition holds_b (w : list op) : bool :=
  safe w && match run init w with Some s => inv_all s | None => false end.
Lemma repaired_f2 : holds_b r_f2 = true. Proof. vm_compute. reflexivity. Qed.
Lemma repaired_f3 : holds_b r_f3 = true. Proof. vm_compute. reflexivity. Qed.
Lemma repaired_f6 : holds_b r_f6 = true. Proof. vm_compute. reflexivity. Qed.

Lemma repaired_f9 : holds_b w_f9 = true. Proof. vm_compute. reflexivity. Qed.
(* the model variant of the code before 7813a3d (what the harness compares with when it finds that
   behaviour in the tree) breaks the property on the same history *)
Definition prerepair_refutes (w : list op) : Prop :=
  match run_old init w with Some s => inv_all s = false | None => False end.
Lemma prerepair_f9 : prerepair_refutes w_f9.
Proof. vm_compute. reflexivity. Qed.
Lemma f9_then_and_now : holds_b w_f9 = true /\ prerepair_refutes w_f9.
Proof. split; [exact repaired_f9|exact prerepair_f9]. Qed.

Lemma dep_by_deltas_holds : holds_b dep_by_deltas = true. Proof. vm_compute. reflexivity. Qed.

Lemma inplace_holds : holds_b ex_inplace = true /\
  match run init ex_inplace with
  | Some s => (on_count (k0 (stat_ s)), off_count (k0 (stat_ s)), off_stake (k0 (stat_ s))) = (0, 1, 10)
  | None => False
  end.
Proof. vm_compute. auto. Qed.

Theorem full_statement_refuted : ~ (forall ops s, run init ops = Some s -> inv_all s = true).
Proof.
  intros H. destruct refuted_f5 as (_ & _ & s & Hr & Hi). rewrite (H _ _ Hr) in Hi. discriminate.
Qed.
