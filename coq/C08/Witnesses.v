(* C08 - witnesses inside each finding class: the faithful model violates the property. *)
From VF.C08 Require Import Model Abstract ProofsA ProofsSim Proofs.
Local Open Scope Z_scope.

(* ---- witnesses inside each finding class (the faithful model violates the property) --- *)

Definition U : Z := stake_unit.

(* F2: RemoveValidator leaves the removed validator in the index (and, w_f2b,
   IntermediateRoot decrements the statistics a second time) *)
Definition w_f2 : list op :=
  [OCreate 100 1 1 (10 * U) 10; OCreate 200 1 1 (20 * U) 20; ORoot; ORemove 100].
Definition w_f2b : list op := w_f2 ++ [ORoot].
(* F3: GetValidatorsForUpdate reloads the persisted index and forgets a new validator *)
Definition w_f3 : list op :=
  [OCreate 100 1 1 (10 * U) 10; ORoot; OCreate 200 2 1 (20 * U) 20; OList].
(* F5: a delegation from an address without account is recorded on the validator only *)
Definition w_f5 : list op :=
  [OCreate 100 1 1 (10 * U) 10; ODelegate 1 100 (3 * U)].
(* F6: IsInvalid() looks at the low 64 bits: a validator whose 19 components are
   all below one stake unit and sum to 2^64 is deleted with its delegations *)
Definition w_f6 : list op :=
  OCreate 100 1 0 446744073709551634 0
  :: map (fun d => OFund d) (map Z.of_nat (seq 1 18))
  ++ map (fun d => ODelegate d 100 (U - 1)) (map Z.of_nat (seq 1 18))
  ++ [ORoot].

Definition refutes (w : list op) : Prop :=
  safe (removelast w) = true /\ safe w = false /\
  exists s, run init w = Some s /\ inv_all s = false.

Definition refutes_b (w : list op) : bool :=
  safe (removelast w) && negb (safe w) &&
  match run init w with Some s => negb (inv_all s) | None => false end.

Lemma refutes_b_spec w : refutes_b w = true -> refutes w.
Proof.
  unfold refutes_b, refutes. intros H. apply andb_prop in H as [H H3]. apply andb_prop in H as [H1 H2].
  split; [exact H1|]. split; [destruct (safe w); [discriminate|reflexivity]|].
  destruct (run init w) as [s|]; [|discriminate]. exists s. split; [reflexivity|].
  destruct (inv_all s); [discriminate|reflexivity].
Qed.

Lemma refuted_f2 : refutes w_f2. Proof. apply refutes_b_spec. vm_compute. reflexivity. Qed.
Lemma refuted_f3 : refutes w_f3. Proof. apply refutes_b_spec. vm_compute. reflexivity. Qed.
Lemma refuted_f5 : refutes w_f5. Proof. apply refutes_b_spec. vm_compute. reflexivity. Qed.
Lemma refuted_f6 : refutes w_f6. Proof. apply refutes_b_spec. vm_compute. reflexivity. Qed.

Lemma f2_double_decrement :
  exists s, run init w_f2b = Some s /\ inv_stat s = false /\ on_count (k0 (stat_ s)) = 0 /\ length (live s) = 1%nat.
Proof. eexists. split; [vm_compute; reflexivity|]. vm_compute. auto. Qed.

Theorem full_statement_refuted : ~ (forall ops s, run init ops = Some s -> inv_all s = true).
Proof.
  intros H. destruct refuted_f2 as (_ & _ & s & Hr & Hi). rewrite (H _ _ Hr) in Hi. discriminate.
Qed.
