(* C08 - witnesses inside each finding class: the faithful model violates the property. *)
From VF.C08 Require Import Model Abstract ProofsA ProofsSim Proofs.
Local Open Scope Z_scope.

(* ---- witnesses inside each finding class (the faithful model violates the property) --- *)

Definition U : Z := stake_unit.

(* F1: a revert across an UpdateDelegation leaves the restored validator with
   another delegation list (shared backing array, cap 4 / len 3) *)
Definition w_f1 : list op :=
  [OFund 1; OFund 3; OFund 4; OFund 5; OCreate 100 1 1 (10 * U) 10;
   ODelegate 3 100 (3 * U); ODelegate 4 100 (4 * U); ODelegate 5 100 (5 * U);
   OSnapshot; ODelegate 1 100 U; ORevert 0].
(* F2: RemoveValidator decrements the statistics, IntermediateRoot decrements them again *)
Definition w_f2 : list op :=
  [OCreate 100 1 1 (10 * U) 10; OCreate 200 1 1 (20 * U) 20; ORoot; ORemove 100; ORoot].
(* F3: GetValidatorsForUpdate reloads the persisted index and forgets a new validator *)
Definition w_f3 : list op :=
  [OCreate 100 1 1 (10 * U) 10; ORoot; OCreate 200 2 1 (20 * U) 20; OList].
(* F4: Copy drops the uncommitted delegation list of an account *)
Definition w_f4 : list op :=
  [OFund 1; OCreate 100 1 1 (10 * U) 10; ODelegate 1 100 (3 * U); OCopy].
(* F5: a delegation from an address without account is recorded on the validator only *)
Definition w_f5 : list op :=
  [OCreate 100 1 1 (10 * U) 10; ODelegate 1 100 (3 * U)].
(* F6: IsInvalid() looks at the low 64 bits: a validator whose 19 components are
   all below one stake unit and sum to 2^64 is deleted with its delegations *)
Definition w_f6 : list op :=
  OCreate 100 1 0 446744073709551634 0
  :: map (fun d => OFund d) (map Z.of_nat (seq 1 18))
  ++ map (fun d => ODelegate d 100 (U - 1)) (map Z.of_nat (seq 1 18))
  ++ [ORoot].

Definition refutes (w : list op) : Prop :=
  safe (removelast w) = true /\ safe w = false /\
  exists s, run init w = Some s /\ inv_all s = false.

Lemma refuted_f1 : refutes w_f1. Proof. split; [|split]; [vm_compute; reflexivity..|]. eexists. split; vm_compute; reflexivity. Qed.
Lemma refuted_f2 : refutes w_f2. Proof. split; [|split]; [vm_compute; reflexivity..|]. eexists. split; vm_compute; reflexivity. Qed.
Lemma refuted_f3 : refutes w_f3. Proof. split; [|split]; [vm_compute; reflexivity..|]. eexists. split; vm_compute; reflexivity. Qed.
Lemma refuted_f4 : refutes w_f4. Proof. split; [|split]; [vm_compute; reflexivity..|]. eexists. split; vm_compute; reflexivity. Qed.
Lemma refuted_f5 : refutes w_f5. Proof. split; [|split]; [vm_compute; reflexivity..|]. eexists. split; vm_compute; reflexivity. Qed.
Lemma refuted_f6 : refutes w_f6. Proof. split; [|split]; [vm_compute; reflexivity..|]. eexists. split; vm_compute; reflexivity. Qed.

Theorem full_statement_refuted : ~ (forall ops s, run init ops = Some s -> inv_all s = true).
Proof.
  intros H. destruct refuted_f2 as (_ & _ & s & Hr & Hi). rewrite (H _ _ Hr) in Hi. discriminate.
Qed.
