(* C08 - the faithful model (Model.v: cache over the trie, tombstones, shared
   backing arrays) coincides with the value-level semantics (Abstract.v) on
   every history that stays outside the finding classes [hpre]. *)
From VF.C08 Require Import Model Abstract ProofsA.
From Coq Require Import Lia ZifyBool Setoid.
Local Open Scope Z_scope.

(* ---- abstraction ----------------------------------------------------------- *)

Definition stripd (l : list (option dfrom)) : list dfrom :=
  match strip l with Some l' => l' | None => [] end.
Definition absv (h : state) (v : val) : xval := (norm v, stripd (view h v)).

Definition xpeek (h : state) (a : Z) : option xval :=
  match aget (vmap h) a with
  | Some v => if v_deleted v then None else Some (absv h v)
  | None =>
    match aget (t_vals h) a with
    | Some p => if has_nil (p_dl p) then None else Some (norm (p_v p), stripd (p_dl p))
    | None => None
    end
  end.

Definition entry_vals (e : ventry) : list val :=
  match e with
  | VCreate _ (Some p) _ => [p]
  | VCreate _ None _ => []
  | VUpdate _ nw old => [nw; old]
  | VDelete _ old => [old]
  end.
Definition abs_entry (h : state) (e : ventry) : xentry :=
  match e with
  | VCreate a _ _ => XCreate a
  | VUpdate a nw old => XUpdate a (absv h nw) (absv h old)
  | VDelete a old => XDelete a (absv h old)
  end.

(* the newest journal entry of an address *)
Fixpoint jfirst (j : list ventry) (a : Z) : option ventry :=
  match j with
  | [] => None
  | e :: r => if Z.eqb (ventry_addr e) a then Some e else jfirst r a
  end.
Definition is_del (e : ventry) : bool := match e with VDelete _ _ => true | _ => false end.

(* the newest entries of the validator journal that no in-place slice mutation
   has touched (constrained) / the older, tainted ones *)
Definition cj (h : state) (t : nat) : list ventry := firstn (length (vjournal h) - t) (vjournal h).
Definition tj (h : state) (t : nat) : list ventry := skipn (length (vjournal h) - t) (vjournal h).

Definition val_wf (h : state) (a : Z) (v : val) : Prop :=
  v_addr v = a /\ v_deleted v = false /\ (v_aid v < length (arrs h))%nat /\
  (v_len v <= length (arr_of h (v_aid v)))%nat /\ has_nil (view h v) = false.

Definition coherent (h : state) (a : Z) (v : val) : Prop :=
  exists p, aget (t_vals h) a = Some p /\ norm (p_v p) = norm v /\ p_dl p = view h v.

(* a removed validator still in the cache: its slice is intact *)
Definition tomb_wf (h : state) (a : Z) (v : val) : Prop := val_wf h a (set_deleted v false).

Definition not_del_first (older : list ventry) (a : Z) : Prop :=
  match jfirst older a with Some e => is_del e = false | None => True end.

Definition entry_ok (h : state) (e : ventry) (older : list ventry) : Prop :=
  match e with
  | VCreate a prev indexed =>
    indexed = false /\
    match prev with
    | None => jfirst older a = None /\ ~ In a (vdirty h) /\ aget (t_vals h) a = None
    | Some p => v_deleted p = true /\ tomb_wf h a p /\
                match jfirst older a with Some e' => is_del e' = true | None => True end /\
                (~ In a (vdirty h) -> ~ In a (map ventry_addr older) -> aget (t_vals h) a = None)
    end
  | VUpdate a nw old =>
    val_wf h a nw /\ val_wf h a old /\ not_del_first older a /\
    (~ In a (map ventry_addr older) -> ~ In a (vdirty h) -> coherent h a old)
  | VDelete a old =>
    val_wf h a old /\ not_del_first older a /\
    (~ In a (map ventry_addr older) -> ~ In a (vdirty h) -> coherent h a old)
  end.
Fixpoint jwf (h : state) (j : list ventry) (older : list ventry) : Prop :=
  match j with
  | [] => True
  | e :: r => entry_ok h e (r ++ older) /\ jwf h r older
  end.

Definition reachable (h : state) (t : nat) (v : val) : Prop :=
  (exists a, aget (vmap h) a = Some v) \/ In v (flat_map entry_vals (cj h t)).

Record wfv (h : state) (t : nat) : Prop := {
  w_t : (t <= length (vjournal h))%nat;
  w_vmap : forall a v, aget (vmap h) a = Some v ->
             v_addr v = a /\ (v_deleted v = false -> val_wf h a v) /\ (v_deleted v = true -> tomb_wf h a v);
  w_range : forall v, reachable h t v -> (v_aid v < length (arrs h))%nat;
  w_sep : forall v w, reachable h t v -> reachable h t w -> v_addr v <> v_addr w -> v_aid v <> v_aid w;
  w_tvals : forall a p, aget (t_vals h) a = Some p -> v_addr (p_v p) = a /\ has_nil (p_dl p) = false;
  w_tomb : forall a v, aget (vmap h) a = Some v -> v_deleted v = true ->
             ~ In a (vdirty h) -> ~ In a (map ventry_addr (vjournal h)) -> aget (t_vals h) a = None;
  w_coh : forall a v, aget (vmap h) a = Some v -> v_deleted v = false ->
            ~ In a (vdirty h) -> ~ In a (map ventry_addr (vjournal h)) -> coherent h a v;
  w_jlive : forall a e, jfirst (vjournal h) a = Some e -> exists v, aget (vmap h) a = Some v /\ v_deleted v = is_del e;
  w_jwf : jwf h (cj h t) (tj h t);
  w_dirty : forall a, In a (vdirty h) -> aget (vmap h) a <> None;
  w_nodup : NoDup (map fst (vmap h));
  w_dsorted : zsorted (vdirty h);
  w_tnodup : NoDup (map fst (t_vals h)) }.

Fixpoint ajchain (j : list aentry) : Prop :=
  match j with
  | [] => True
  | e :: r => (match e with JCreate d => ~ In d (map aentry_addr r) | _ => True end) /\ ajchain r
  end.

Definition bok (bl : list (list Z)) (hs : list Z) : bool :=
  match hs with [] => true | l => existsb (list_eqb Z.eqb l) bl end.

Lemma blob_ok_bok s ac : blob_ok s ac = bok (blobs s) (a_hash ac).
Proof. unfold blob_ok, bok. destruct (a_hash ac); reflexivity. Qed.

(* the delegation list an account had before the first change journalled for it
   is stored in the trie database, unless the account is still in stateObjectsDirty *)
Fixpoint ajbase (h : state) (j : list aentry) : Prop :=
  match j with
  | [] => True
  | e :: r =>
    (match e with
     | JDlgs d prev => ~ In d (adirty h) -> (forall p, ~ In (JDlgs d p) r) ->
                       bok (blobs h) prev = true
     | _ => True
     end) /\ ajbase h r
  end.

Record wfa (h : state) : Prop := {
  w_acct : forall d ac, aget (accts h) d = Some ac ->
             (a_loaded ac = true \/ blob_ok h ac = true) /\ (a_ddirty ac = false -> blob_ok h ac = true);
  w_ajd : forall d prev, In (JDlgs d prev) (ajournal h) ->
            exists ac, aget (accts h) d = Some ac /\ a_ddirty ac = true;
  w_ajlive : forall e, In e (ajournal h) -> aget (accts h) (aentry_addr e) <> None;
  w_ajc : ajchain (ajournal h);
  w_anodup : NoDup (map fst (accts h));
  w_ab : forall d ac, aget (accts h) d = Some ac -> ~ In d (adirty h) ->
           (forall prev, ~ In (JDlgs d prev) (ajournal h)) -> blob_ok h ac = true;
  w_ajb : ajbase h (ajournal h);
  w_adsorted : zsorted (adirty h) }.

Definition wf (h : state) (t : nat) : Prop := wfv h t /\ wfa h.

Definition ess (ac : acct) : xacct := (a_dbal ac, a_hash ac).

Record R (h : state) (t : nat) (x : astate) : Prop := {
  r_xs : forall a, aget (xs (core x)) a = xpeek h a;
  r_index : xindex (core x) = vindex h;
  r_stat : xstat (core x) = stat_ h;
  r_accts : forall d, aget (xaccts (core x)) d = option_map ess (aget (accts h) d);
  r_dirty : xdirty x = vdirty h;
  r_aj : xaj x = ajournal h;
  r_revs : xrevs x = revs h;
  r_next : xnext x = next_id h;
  r_vjlen : length (xvj x) = length (vjournal h);
  r_vja : map xentry_addr (xvj x) = map ventry_addr (vjournal h);
  r_vj : firstn (length (vjournal h) - t) (xvj x) = map (abs_entry h) (cj h t) }.

(* ---- the finding classes (preconditions on the faithful state) ------------- *)

Definition hpre (h : state) (t : nat) (o : op) : bool :=
  match o with
  | OCreate a role status token stake =>
    role_ok role && Z.leb 0 token && Z.eqb stake (token / stake_unit)
  | OUpdate a u | OUpdateIn a u => match xpeek h a with None => true | Some (old, _) => upd_ok old u end
  | ORemove a =>
    (* caller discipline: a removed validator holds no delegations (only a cached, not yet removed one is touched) *)
    match aget (vmap h) a with
    | Some v => v_deleted v || Nat.eqb (v_len v) 0
    | None => true
    end
  | ODelegate d a amt =>
    match xpeek h a with
    | None => true
    | Some (v, l) =>
      Z.eqb amt 0 ||
      (match aget (accts h) d with Some _ => true | None => false end
       && Z.leb 0 (tokl l d + amt))
    end
  | ORevert id => match aget (revs h) id with Some (_, vj) => Nat.leb t vj | None => false end
  | OCopy =>
    (* finding copy-reindexes-removed-validator: a removed validator that is finalised but not yet rooted *)
    forallb (fun a => mem a (vj_dirties h)
                      || match aget (vmap h) a with Some v => negb (v_deleted v) | None => true end) (vdirty h)
  | OList =>
    (* finding stale-index-reload: empty in-memory index, non-empty persisted index *)
    match vindex h, t_index h with
    | [], Some (_ :: _) => false
    | _, _ => true
    end
  | _ => true
  end.

(* the taint after an operation *)
Definition taint_next (h : state) (t : nat) (o : op) (h' : state) : nat :=
  match o with
  | ORevert _ => Nat.min t (length (vjournal h'))
  | OFinalise | ORoot | OCommitReload | OCopy => 0%nat
  | _ => t
  end.

(* ---- heap frames ------------------------------------------------------------ *)

Lemma arr_of_ext h ext aid : (aid < length (arrs h))%nat -> arr_of (w_arrs h (arrs h ++ ext)) aid = arr_of h aid.
Proof. intros H. unfold arr_of; cbn. now rewrite app_nth1. Qed.

Lemma view_ext h ext v : (v_aid v < length (arrs h))%nat -> view (w_arrs h (arrs h ++ ext)) v = view h v.
Proof. intros H. unfold view. now rewrite arr_of_ext. Qed.

Lemma nth_upd_nth_other {A} (l : list A) i j x d : i <> j -> nth j (upd_nth l i x) d = nth j l d.
Proof.
  revert i j. induction l as [|y r IH]; intros i j Hne; destruct i, j; cbn; try reflexivity; try lia.
  apply IH. lia.
Qed.
Lemma nth_upd_nth_same {A} (l : list A) i x d : (i < length l)%nat -> nth i (upd_nth l i x) d = x.
Proof. revert i. induction l as [|y r IH]; intros i H; destruct i; cbn in *; try lia; [reflexivity|]. apply IH. lia. Qed.
Lemma length_upd_nth {A} (l : list A) i x : length (upd_nth l i x) = length l.
Proof. revert i. induction l as [|y r IH]; intros i; destruct i; cbn; auto. Qed.

Lemma strip_map_some l : strip (map Some l) = Some l.
Proof. induction l as [|e r IH]; cbn; [reflexivity|]. now rewrite IH. Qed.
Lemma has_nil_strip l : has_nil l = false -> exists l', strip l = Some l' /\ l = map Some l'.
Proof.
  induction l as [|[e|] r IH]; cbn; intros H.
  - exists []. auto.
  - destruct (IH H) as (l' & H1 & H2). exists (e :: l'). rewrite H1, H2. split; [reflexivity|]. cbn. now rewrite <- H2.
  - discriminate.
Qed.
Lemma stripd_map_some l : stripd (map Some l) = l.
Proof. unfold stripd. now rewrite strip_map_some. Qed.
Lemma has_nil_map_some l : has_nil (map Some l) = false.
Proof. induction l; cbn; auto. Qed.
Lemma view_stripd h v : has_nil (view h v) = false -> view h v = map Some (stripd (view h v)).
Proof. intros H. destruct (has_nil_strip _ H) as (l' & H1 & H2). unfold stripd. now rewrite H1. Qed.

(* two states with the same fields except a grown heap *)
Definition heap_le (h h' : state) : Prop :=
  (length (arrs h) <= length (arrs h'))%nat /\
  forall aid, (aid < length (arrs h))%nat -> arr_of h' aid = arr_of h aid.

Lemma heap_le_refl h : heap_le h h.
Proof. split; auto. Qed.

Lemma heap_le_alloc h ext : heap_le h (w_arrs h (arrs h ++ ext)).
Proof. split; [cbn; rewrite app_length; lia|]. intros; now apply arr_of_ext. Qed.

Lemma heap_le_trans a b c : heap_le a b -> heap_le b c -> heap_le a c.
Proof. intros [L1 H1] [L2 H2]. split; [lia|]. intros aid Hlt. rewrite H2 by lia. auto. Qed.

Lemma view_le h h' v : heap_le h h' -> (v_aid v < length (arrs h))%nat -> view h' v = view h v.
Proof. intros [_ H] Hlt. unfold view. now rewrite H. Qed.

Lemma absv_le h h' v : heap_le h h' -> (v_aid v < length (arrs h))%nat -> absv h' v = absv h v.
Proof. intros. unfold absv. now rewrite (view_le h h'). Qed.

Lemma val_wf_le h h' a v : heap_le h h' -> val_wf h a v -> val_wf h' a v.
Proof.
  intros Hle (H1 & H2 & H3 & H4 & H5). pose proof Hle as [L E].
  unfold val_wf. rewrite (view_le h h' v Hle H3), (E _ H3). repeat split; auto; lia.
Qed.

Lemma coherent_le h h' a v : heap_le h h' -> t_vals h' = t_vals h -> (v_aid v < length (arrs h))%nat ->
  coherent h a v -> coherent h' a v.
Proof.
  intros Hle Ht Hlt (p & H1 & H2 & H3). exists p. rewrite Ht, (view_le h h' v Hle Hlt). auto.
Qed.

Lemma entry_ok_le h h' e older : heap_le h h' -> t_vals h' = t_vals h -> vdirty h' = vdirty h ->
  entry_ok h e older -> entry_ok h' e older.
Proof.
  intros Hle Ht Hd. destruct e as [a prev idx|a nw old|a old]; cbn.
  - intros [H0 H]. split; [exact H0|]. destruct prev as [p|].
    + destruct H as (H1 & H2 & H3 & H4). split; [exact H1|]. split; [eapply val_wf_le; eauto|]. split; [exact H3|].
      rewrite Hd, Ht. exact H4.
    + rewrite Ht, Hd. exact H.
  - intros (H1 & H2 & H3 & H4). split; [eapply val_wf_le; eassumption|]. split; [eapply val_wf_le; eassumption|].
    split; [exact H3|]. rewrite Hd. intros N1 N2. eapply coherent_le; eauto. apply H2.
  - intros (H2 & H3 & H4). split; [eapply val_wf_le; eassumption|].
    split; [exact H3|]. rewrite Hd. intros N1 N2. eapply coherent_le; eauto. apply H2.
Qed.

Lemma jwf_le h h' j older : heap_le h h' -> t_vals h' = t_vals h -> vdirty h' = vdirty h ->
  jwf h j older -> jwf h' j older.
Proof.
  intros Hle Ht Hd. induction j as [|e r IH]; cbn; [tauto|]. intros [H1 H2].
  split; [eapply entry_ok_le; eassumption|auto].
Qed.

Lemma abs_entry_le h h' e : heap_le h h' -> (forall v, In v (entry_vals e) -> (v_aid v < length (arrs h))%nat) ->
  abs_entry h' e = abs_entry h e.
Proof.
  intros Hle H. destruct e as [a prev idx|a nw old|a old]; cbn in *; try reflexivity.
  - rewrite !(absv_le h h') by auto. reflexivity.
  - rewrite !(absv_le h h') by auto. reflexivity.
Qed.

Lemma map_abs_entry_le h h' j : heap_le h h' ->
  (forall v, In v (flat_map entry_vals j) -> (v_aid v < length (arrs h))%nat) ->
  map (abs_entry h') j = map (abs_entry h) j.
Proof.
  intros Hle. induction j as [|e r IH]; cbn; [reflexivity|]. intros H.
  rewrite (abs_entry_le h h' e Hle) by (intros; apply H, in_or_app; auto).
  rewrite IH by (intros; apply H, in_or_app; auto). reflexivity.
Qed.

Lemma ajbase_frame h h' j : blobs h' = blobs h -> adirty h' = adirty h -> ajbase h j -> ajbase h' j.
Proof.
  intros E3 E4. induction j as [|e r IH]; cbn; [tauto|]. intros [H1 H2]. split; [|auto].
  destruct e; try exact I. rewrite E3, E4. exact H1.
Qed.

Lemma wfa_frame h h' : accts h' = accts h -> ajournal h' = ajournal h -> blobs h' = blobs h ->
  adirty h' = adirty h -> wfa h -> wfa h'.
Proof.
  intros E1 E2 E3 E4 [A B C D E F G H]. constructor; unfold blob_ok in *; rewrite ?E1, ?E2, ?E3, ?E4; try assumption.
  eapply ajbase_frame; eauto.
Qed.

(* growing the heap (allocations, or mutation of arrays nothing reachable points to) *)
Lemma wf_grow h t A : heap_le h (w_arrs h A) -> wf h t -> wf (w_arrs h A) t.
Proof.
  intros Hle [W WA]. set (h' := w_arrs h A).
  split; [|apply (wfa_frame h); auto]. constructor.
  - apply W.
  - intros a v Hv. destruct (w_vmap _ _ W a v Hv) as (H1 & H2 & H3). split; [exact H1|]. split.
    + intros Hd. eapply val_wf_le; eauto.
    + intros Hd. unfold tomb_wf. eapply val_wf_le; eauto. apply (H3 Hd).
  - intros v Hr. pose proof (w_range _ _ W v Hr). destruct Hle as [L _]. cbn in *. lia.
  - apply (w_sep _ _ W).
  - apply (w_tvals _ _ W).
  - apply (w_tomb _ _ W).
  - intros a v Hv Hd N1 N2. eapply coherent_le; eauto.
    apply (w_range _ _ W). left. eauto.
    apply (w_coh _ _ W a v Hv Hd N1 N2).
  - apply (w_jlive _ _ W).
  - eapply jwf_le; eauto. apply (w_jwf _ _ W).
  - apply (w_dirty _ _ W).
  - apply (w_nodup _ _ W).
  - apply (w_dsorted _ _ W).
  - apply (w_tnodup _ _ W).
Qed.

Lemma xpeek_le h h' a : heap_le h h' -> vmap h' = vmap h -> t_vals h' = t_vals h ->
  (forall v, aget (vmap h) a = Some v -> (v_aid v < length (arrs h))%nat) -> xpeek h' a = xpeek h a.
Proof.
  intros Hle Hm Ht Hr. unfold xpeek. rewrite Hm, Ht.
  destruct (aget (vmap h) a) as [v|] eqn:E; [|reflexivity].
  destruct (v_deleted v); [reflexivity|]. now rewrite (absv_le h h') by auto.
Qed.

Lemma R_grow h t x A : heap_le h (w_arrs h A) -> wf h t -> R h t x -> R (w_arrs h A) t x.
Proof.
  intros Hle [W WA] Rx. constructor; try apply Rx.
  - intros a. rewrite (r_xs _ _ _ Rx). symmetry. apply xpeek_le; auto.
    intros v Hv. apply (w_range _ _ W). left; eauto.
  - cbn [vjournal w_arrs]. rewrite (r_vj _ _ _ Rx). symmetry.
    change (cj (w_arrs h A) t) with (cj h t).
    apply map_abs_entry_le; [assumption|]. intros v Hv. apply (w_range _ _ W). right. exact Hv.
Qed.

(* ---- unsorted association lists (Model.aset / adel) -------------------------- *)

Lemma aget_aset_same {A} (m : list (Z * A)) k x : aget (aset m k x) k = Some x.
Proof.
  induction m as [|[k' y] r IH]; cbn; [now rewrite Z.eqb_refl|].
  destruct (Z.eqb_spec k' k) as [->|Hne]; cbn; [now rewrite Z.eqb_refl|].
  destruct (Z.eqb_spec k' k); [lia|auto].
Qed.
Lemma aget_aset_other {A} (m : list (Z * A)) k x k' : k' <> k -> aget (aset m k x) k' = aget m k'.
Proof.
  intros Hne. induction m as [|[k2 y] r IH]; cbn.
  - destruct (Z.eqb_spec k k'); [lia|reflexivity].
  - destruct (Z.eqb_spec k2 k) as [->|Hne2]; cbn.
    + destruct (Z.eqb_spec k k'); [lia|reflexivity].
    + destruct (Z.eqb_spec k2 k'); [reflexivity|auto].
Qed.
Lemma keys_aset {A} (m : list (Z * A)) k x :
  map fst (aset m k x) = if mem k (map fst m) then map fst m else map fst m ++ [k].
Proof.
  induction m as [|[k2 y] r IH]; cbn; [reflexivity|].
  destruct (Z.eqb_spec k2 k) as [->|Hne]; cbn; [reflexivity|]. rewrite IH.
  destruct (mem k (map fst r)); reflexivity.
Qed.
Lemma NoDup_aset {A} (m : list (Z * A)) k x : NoDup (map fst m) -> NoDup (map fst (aset m k x)).
Proof.
  intros H. rewrite keys_aset. destruct (mem k (map fst m)) eqn:E; [assumption|].
  assert (Hn : ~ In k (map fst m)) by (intros Hin; apply mem_In in Hin; congruence).
  clear E. induction (map fst m) as [|y r IH]; cbn.
  - constructor; [tauto|constructor].
  - inversion H; subst. constructor.
    + rewrite in_app_iff. cbn. intros [H1|[H1|[]]]; [tauto|]. apply Hn. cbn; auto.
    + apply IH; [assumption|]. intros H1; apply Hn; cbn; auto.
Qed.
Lemma NoDup_adel {A} (m : list (Z * A)) k : NoDup (map fst m) -> NoDup (map fst (adel m k)).
Proof.
  induction m as [|[k2 y] r IH]; cbn; [auto|]. intros H. inversion H; subst.
  destruct (Z.eqb_spec k2 k); cbn; [assumption|]. constructor; [|auto].
  intros Hin. apply H2. apply in_map_iff in Hin as [[k3 z] [E Hin]]. cbn in E; subst.
  apply in_map_iff. exists (k2, z). split; [reflexivity|]. eapply In_adel, Hin.
Qed.
Lemma aget_adel_same_nodup {A} (m : list (Z * A)) k : NoDup (map fst m) -> aget (adel m k) k = None.
Proof.
  induction m as [|[k2 y] r IH]; cbn; [reflexivity|]. intros H. inversion H; subst.
  destruct (Z.eqb_spec k2 k) as [->|Hne]; cbn.
  - destruct (aget r k) eqn:E; [|reflexivity]. exfalso. apply H2.
    apply aget_In in E. apply in_map_iff. exists (k, a). auto.
  - destruct (Z.eqb_spec k2 k); [lia|auto].
Qed.

(* ---- lazy loading ------------------------------------------------------------ *)

Definition rest_eq (h h1 : state) : Prop :=
  stat_ h1 = stat_ h /\ vjournal h1 = vjournal h /\ vdirty h1 = vdirty h /\ accts h1 = accts h /\
  ajournal h1 = ajournal h /\ revs h1 = revs h /\ next_id h1 = next_id h /\ t_vals h1 = t_vals h /\
  t_index h1 = t_index h /\ t_stat h1 = t_stat h /\ blobs h1 = blobs h.

Lemma rest_eq_refl h : rest_eq h h.
Proof. repeat split. Qed.

Lemma index_live h t x a : R h t x -> J x -> xpeek h a <> None ->
  In a (vindex h) /\ zsorted (vindex h).
Proof.
  intros Rx (([Hs Hv Hst Hix] & _) & _) Hp. rewrite <- (r_index _ _ _ Rx), Hix. split.
  - apply aget_keys. now rewrite (r_xs _ _ _ Rx).
  - now apply ssorted_keys.
Qed.

Lemma length_pad {A} (l : list (option A)) cap : (length l <= length (pad l cap))%nat.
Proof. unfold pad. rewrite app_length. lia. Qed.
Lemma firstn_pad {A} (l : list (option A)) cap : firstn (length l) (pad l cap) = l.
Proof. unfold pad. rewrite firstn_app, Nat.sub_diag, firstn_all. cbn. apply app_nil_r. Qed.

Lemma norm_set_view v aid n : norm (set_view v aid n) = norm v.
Proof. destruct v; reflexivity. Qed.
Lemma norm_set_deleted v b : norm (set_deleted v b) = norm v.
Proof. destruct v; reflexivity. Qed.
Lemma norm_idem v : norm (norm v) = norm v.
Proof. destruct v; reflexivity. Qed.

Lemma reachable_vmap_ext h h1 t v :
  vjournal h1 = vjournal h -> reachable h1 t v ->
  (exists a, aget (vmap h1) a = Some v) \/ reachable h t v.
Proof.
  intros Hj [H|H]; [left; exact H|]. right. right. unfold cj in *. now rewrite Hj in H.
Qed.

Lemma get_validator_spec h t x a h1 r :
  wf h t -> R h t x -> J x -> get_validator h a = (h1, r) ->
  wf h1 t /\ R h1 t x /\ heap_le h h1 /\ rest_eq h h1 /\
  match r with
  | None => xpeek h a = None /\ h1 = h
  | Some v => aget (vmap h1) a = Some v /\ v_deleted v = false /\ xpeek h a = Some (absv h1 v)
  end.
Proof.
  intros [W WA] Rx HJ. unfold get_validator.
  destruct (aget (vmap h) a) as [v|] eqn:Ev.
  - destruct (v_deleted v) eqn:Ed; intros H; inversion H; subst.
    + refine (conj (conj W WA) (conj Rx (conj (heap_le_refl _) (conj (rest_eq_refl _) (conj _ eq_refl))))).
      unfold xpeek. now rewrite Ev, Ed.
    + refine (conj (conj W WA) (conj Rx (conj (heap_le_refl _) (conj (rest_eq_refl _) (conj Ev (conj Ed _)))))).
      unfold xpeek. now rewrite Ev, Ed.
  - destruct (aget (t_vals h) a) as [p|] eqn:Ep.
    2:{ intros H; inversion H; subst.
        refine (conj (conj W WA) (conj Rx (conj (heap_le_refl _) (conj (rest_eq_refl _) (conj _ eq_refl))))).
        unfold xpeek. now rewrite Ev, Ep. }
    destruct (w_tvals _ _ W _ _ Ep) as [Hpa Hnil]. rewrite Hnil.
    unfold alloc. set (arr := pad (p_dl p) (rlp_cap (length (p_dl p)))).
    set (h0 := w_arrs h (arrs h ++ [arr])). set (aid := length (arrs h)).
    remember (set_deleted (set_view (p_v p) aid (length (p_dl p))) false) as v eqn:Hvdef.
    intros H; inversion H; subst h1 r; clear H.
    assert (Hle : heap_le h h0) by apply heap_le_alloc.
    assert (Hxp : xpeek h a = Some (norm (p_v p), stripd (p_dl p))) by (unfold xpeek; now rewrite Ev, Ep, Hnil).
    destruct (index_live h t x a Rx HJ) as [Hin Hzs]; [rewrite Hxp; discriminate|].
    assert (Hva : v_addr v = a) by (rewrite Hvdef; destruct (p_v p); cbn in *; assumption).
    assert (Hvd : v_deleted v = false) by (rewrite Hvdef; destruct (p_v p); reflexivity).
    assert (Hvaid : v_aid v = aid) by (rewrite Hvdef; destruct (p_v p); reflexivity).
    assert (Hvlen : v_len v = length (p_dl p)) by (rewrite Hvdef; destruct (p_v p); reflexivity).
    assert (Harr : arr_of h0 aid = arr).
    { unfold arr_of, h0; cbn. rewrite app_nth2 by (unfold aid; lia). unfold aid. now rewrite Nat.sub_diag. }
    set (h1 := set_validator h0 v).
    assert (Hidx : vindex h1 = vindex h).
    { unfold h1, set_validator, index_add; cbn. rewrite Hva. now apply sins_present. }
    assert (Hvm : vmap h1 = aset (vmap h) a v) by (unfold h1, set_validator, index_add; cbn; now rewrite Hva).
    assert (Harrs : arrs h1 = arrs h ++ [arr]) by reflexivity.
    assert (Hle1 : heap_le h h1) by (split; [rewrite Harrs, app_length; lia | intros; unfold arr_of; rewrite Harrs; now rewrite app_nth1]).
    assert (Hview : view h1 v = p_dl p).
    { unfold view. rewrite Hvaid, Hvlen. change (arr_of h1 aid) with (arr_of h0 aid). rewrite Harr. apply firstn_pad. }
    assert (Hwfv : val_wf h1 a v).
    { unfold val_wf. rewrite Hview, Hvaid, Hvlen. change (arr_of h1 aid) with (arr_of h0 aid). rewrite Harr.
      repeat split; auto; [rewrite Harrs, app_length; unfold aid; cbn; lia | apply length_pad]. }
    assert (Hrest : rest_eq h h1) by (repeat split).
    assert (Hnorm : norm v = norm (p_v p)) by (rewrite Hvdef; now rewrite norm_set_deleted, norm_set_view).
    split; [|split; [|split; [exact Hle1|split; [exact Hrest|]]]].
    + (* wf *)
      split; [|apply (wfa_frame h); auto]. constructor.
      * apply W.
      * intros b w. rewrite Hvm. destruct (Z.eq_dec b a) as [->|Hne].
        -- rewrite aget_aset_same. intros E; inversion E; subst w.
           split; [exact Hva|split; [intros _; exact Hwfv|intros Hd; congruence]].
        -- rewrite aget_aset_other by assumption. intros Hw. destruct (w_vmap _ _ W _ _ Hw) as (H1 & H2 & H3).
           split; [exact H1|]. split; [intros Hd; eapply val_wf_le; eauto|].
           intros Hd. unfold tomb_wf. eapply val_wf_le; eauto. apply (H3 Hd).
      * intros w Hr. rewrite Harrs, app_length. cbn.
        destruct (reachable_vmap_ext h h1 t w eq_refl Hr) as [[b Hb]|Hr0].
        -- rewrite Hvm in Hb. destruct (Z.eq_dec b a) as [->|Hne].
           ++ rewrite aget_aset_same in Hb. inversion Hb; subst w. rewrite Hvaid. unfold aid. lia.
           ++ rewrite aget_aset_other in Hb by assumption.
              assert (reachable h t w) by (left; eauto). pose proof (w_range _ _ W _ H). lia.
        -- pose proof (w_range _ _ W _ Hr0). lia.
      * assert (Hold : forall w, reachable h1 t w -> w = v \/ reachable h t w).
        { intros w Hr. destruct (reachable_vmap_ext h h1 t w eq_refl Hr) as [[b Hb]|Hr0]; [|auto].
          rewrite Hvm in Hb. destruct (Z.eq_dec b a) as [->|Hne].
          - rewrite aget_aset_same in Hb. inversion Hb; auto.
          - rewrite aget_aset_other in Hb by assumption. right; left; eauto. }
        intros w1 w2 H1 H2 Hne. destruct (Hold _ H1) as [->|R1], (Hold _ H2) as [->|R2].
        -- congruence.
        -- rewrite Hvaid. pose proof (w_range _ _ W _ R2). unfold aid. lia.
        -- rewrite Hvaid. pose proof (w_range _ _ W _ R1). unfold aid. lia.
        -- apply (w_sep _ _ W); assumption.
      * apply (w_tvals _ _ W).
      * intros b w. rewrite Hvm. destruct (Z.eq_dec b a) as [->|Hne].
        -- rewrite aget_aset_same. intros E; inversion E; subst w. congruence.
        -- rewrite aget_aset_other by assumption. apply (w_tomb _ _ W).
      * intros b w. rewrite Hvm. destruct (Z.eq_dec b a) as [->|Hne].
        -- rewrite aget_aset_same. intros E; inversion E; subst w. intros _ _ _.
           exists p. repeat split; [exact Ep|now rewrite Hnorm|now rewrite Hview].
        -- rewrite aget_aset_other by assumption. intros Hw Hd N1 N2.
           eapply coherent_le; eauto. apply (w_range _ _ W). left; eauto.
           apply (w_coh _ _ W b w Hw Hd N1 N2).
      * intros b e He. rewrite Hvm. destruct (Z.eq_dec b a) as [->|Hne].
        -- exfalso. destruct (w_jlive _ _ W a e He) as (w & Hw & _). congruence.
        -- rewrite aget_aset_other by assumption. apply (w_jlive _ _ W b e He).
      * eapply jwf_le; eauto. apply (w_jwf _ _ W).
      * intros b Hb. rewrite Hvm. destruct (Z.eq_dec b a) as [->|Hne].
        -- rewrite aget_aset_same. discriminate.
        -- rewrite aget_aset_other by assumption. apply (w_dirty _ _ W b Hb).
      * rewrite Hvm. apply NoDup_aset, (w_nodup _ _ W).
      * apply (w_dsorted _ _ W).
      * apply (w_tnodup _ _ W).
    + (* R *)
      constructor; try apply Rx.
      * intros b. rewrite (r_xs _ _ _ Rx). unfold xpeek at 2. rewrite Hvm.
        destruct (Z.eq_dec b a) as [->|Hne].
        -- rewrite aget_aset_same, Hvd, Hxp. unfold absv. now rewrite Hview, Hnorm.
        -- rewrite aget_aset_other by assumption. unfold xpeek.
           destruct (aget (vmap h) b) as [w|] eqn:Ew; [|reflexivity].
           destruct (v_deleted w); [reflexivity|]. rewrite (absv_le h h1); auto.
           apply (w_range _ _ W). left; eauto.
      * rewrite Hidx. apply Rx.
      * change (vjournal h1) with (vjournal h). rewrite (r_vj _ _ _ Rx). symmetry.
        change (cj h1 t) with (cj h t). apply map_abs_entry_le; [assumption|].
        intros w Hw. apply (w_range _ _ W). right. exact Hw.
    + split; [rewrite Hvm; apply aget_aset_same|]. split; [exact Hvd|].
      rewrite Hxp. unfold absv. now rewrite Hview, Hnorm.
Qed.

(* ---- scalars are insensitive to norm ---------------------------------------- *)

Lemma stake_equal_norm a b : stake_equal (norm a) (norm b) = stake_equal a b.
Proof. destruct a, b; reflexivity. Qed.
Lemma incr_stat_norm st v : incr_stat st (norm v) = incr_stat st v.
Proof. destruct v; reflexivity. Qed.
Lemma decr_stat_norm st v : decr_stat st (norm v) = decr_stat st v.
Proof. destruct v; reflexivity. Qed.
Lemma norm_apply_upd v u : norm (apply_upd v u) = apply_upd (norm v) u.
Proof. destruct v; reflexivity. Qed.
Lemma norm_set_total v a b : norm (set_total v a b) = set_total (norm v) a b.
Proof. destruct v; reflexivity. Qed.
Lemma decr_stat_set_deleted_any st v b : decr_stat st (set_deleted v b) = decr_stat st v.
Proof. destruct v; reflexivity. Qed.
Lemma is_invalid_norm v : is_invalid (norm v) = is_invalid v.
Proof. destruct v; reflexivity. Qed.

Lemma adjust_sim st nw old st' :
  (if stake_equal nw old then Some st
   else match decr_stat st old with None => None | Some st1 => incr_stat st1 nw end) = Some st' ->
  a_adjust st (norm nw) (norm old) = st'.
Proof.
  unfold a_adjust. rewrite stake_equal_norm. destruct (stake_equal nw old); [congruence|].
  unfold a_decr, a_incr. rewrite decr_stat_norm. destruct (decr_stat st old) as [st1|]; [|discriminate].
  cbn [ostat]. rewrite incr_stat_norm. intros ->. reflexivity.
Qed.

Lemma heap_le_eq h h' : arrs h' = arrs h -> heap_le h h'.
Proof. intros E. split; [rewrite E; lia|]. intros. unfold arr_of. now rewrite E. Qed.

Lemma view_eq h h' v : arrs h' = arrs h -> view h' v = view h v.
Proof. intros E. unfold view, arr_of. now rewrite E. Qed.
Lemma absv_eq h h' v : arrs h' = arrs h -> absv h' v = absv h v.
Proof. intros E. unfold absv. now rewrite (view_eq h h'). Qed.
Lemma abs_entry_eq h h' e : arrs h' = arrs h -> abs_entry h' e = abs_entry h e.
Proof. intros E. destruct e; cbn; rewrite ?(absv_eq h h') by assumption; reflexivity. Qed.
Lemma map_abs_entry_eq h h' j : arrs h' = arrs h -> map (abs_entry h') j = map (abs_entry h) j.
Proof. intros E. apply map_ext. intros. now apply abs_entry_eq. Qed.
Lemma val_wf_eq h h' a v : arrs h' = arrs h -> val_wf h a v -> val_wf h' a v.
Proof. intros E. apply val_wf_le, heap_le_eq, E. Qed.

Lemma cj_push h h' e t : vjournal h' = e :: vjournal h -> (t <= length (vjournal h))%nat ->
  cj h' t = e :: cj h t /\ tj h' t = tj h t.
Proof.
  intros E Ht. unfold cj, tj. rewrite E. cbn [length].
  replace (S (length (vjournal h)) - t)%nat with (S (length (vjournal h) - t)) by lia. cbn. auto.
Qed.

Lemma cj_tj h t : cj h t ++ tj h t = vjournal h.
Proof. unfold cj, tj. apply firstn_skipn. Qed.

Lemma addrs_cj_tj h t : map ventry_addr (cj h t) ++ map ventry_addr (tj h t) = map ventry_addr (vjournal h).
Proof. unfold cj, tj. now rewrite <- map_app, firstn_skipn. Qed.

(* ---- UpdateValidator with an unchanged slice -------------------------------- *)

Lemma update_validator_fields h nw old h' : update_validator h nw old = Some h' ->
  arrs h' = arrs h /\ vmap h' = aset (vmap h) (v_addr nw) nw /\ vindex h' = sins (v_addr nw) (vindex h) /\
  vjournal h' = VUpdate (v_addr nw) nw old :: vjournal h /\
  (if stake_equal nw old then Some (stat_ h)
   else match decr_stat (stat_ h) old with None => None | Some st1 => incr_stat st1 nw end) = Some (stat_ h') /\
  vdirty h' = vdirty h /\ accts h' = accts h /\ ajournal h' = ajournal h /\ revs h' = revs h /\
  next_id h' = next_id h /\ t_vals h' = t_vals h /\ t_index h' = t_index h /\ t_stat h' = t_stat h /\
  blobs h' = blobs h /\ adirty h' = adirty h.
Proof.
  unfold update_validator, with_stat. destruct (stake_equal nw old).
  - intros H; inversion H; subst; cbn. repeat split.
  - cbn. destruct (decr_stat (stat_ h) old) as [st1|]; [|discriminate].
    destruct (incr_stat st1 nw) as [st2|]; [|discriminate].
    intros H; inversion H; subst; cbn. repeat split.
Qed.

Lemma firstn_S_cons {A} (x : A) l n : firstn (S n) (x :: l) = x :: firstn n l.
Proof. reflexivity. Qed.

Lemma update_validator_spec h t x a old nw l l' h' :
  wf h t -> R h t x -> J x ->
  aget (vmap h) a = Some old -> v_deleted old = false -> absv h old = (norm old, l) ->
  val_wf h a nw -> absv h nw = (norm nw, l') ->
  (forall u, reachable h t u -> v_addr u <> a -> v_aid u <> v_aid nw) ->
  update_validator h nw old = Some h' ->
  wf h' t /\
  R h' t (a_push x (c_update_validator (core x) a (norm nw, l') (norm old, l), [],
                    [XUpdate a (norm nw, l') (norm old, l)])).
Proof.
  intros [W WA] Rx HJ Hold Hod Habs Hnwf0 Habsn0 Hsepn Hu.
  destruct (update_validator_fields _ _ _ _ Hu) as
    (Earr & Evm & Eidx & Evj & Est & Edirty & Eacc & Eaj & Erev & Enext & Etv & Eti & Ets & Ebl & Ead).
  assert (Hna : v_addr nw = a) by apply Hnwf0. assert (Hnd : v_deleted nw = false) by apply Hnwf0.
  rewrite Hna in *.
  destruct (w_vmap _ _ W _ _ Hold) as (Hoa & Howf & _). specialize (Howf Hod).
  assert (Hle : heap_le h h') by (apply heap_le_eq, Earr).
  assert (Hnwf : val_wf h' a nw) by (eapply val_wf_eq; eauto).
  assert (Howf' : val_wf h' a old) by (eapply val_wf_eq; eauto).
  destruct (cj_push h h' _ t Evj (w_t _ _ W)) as [Ecj Etj].
  assert (Habsn : absv h' nw = (norm nw, l')) by (rewrite (absv_eq h h'); assumption).
  assert (Hreach : forall w, reachable h' t w -> w = nw \/ reachable h t w).
  { intros w [[b Hb]|Hin].
    - rewrite Evm in Hb. destruct (Z.eq_dec b a) as [->|Hne].
      + rewrite aget_aset_same in Hb. inversion Hb; auto.
      + rewrite aget_aset_other in Hb by assumption. right; left; eauto.
    - rewrite Ecj in Hin. cbn in Hin. destruct Hin as [<-|[<-|Hin]]; [auto| |].
      + right; left; eauto.
      + right; right; exact Hin. }
  assert (Holdr : reachable h t old) by (left; eauto).
  split.
  - split; [|apply (wfa_frame h); auto]. constructor.
    + rewrite Evj. cbn. pose proof (w_t _ _ W). lia.
    + intros b w. rewrite Evm. destruct (Z.eq_dec b a) as [->|Hne].
      * rewrite aget_aset_same. intros E; inversion E; subst w.
        split; [exact Hna|split; [intros _; exact Hnwf|intros Hd; congruence]].
      * rewrite aget_aset_other by assumption. intros Hw. destruct (w_vmap _ _ W _ _ Hw) as (H1 & H2 & H3).
        split; [exact H1|]. split; [intros Hd; eapply val_wf_eq; eauto|intros Hd; unfold tomb_wf; eapply val_wf_eq; [eauto|exact (H3 Hd)]].
    + intros w Hr. rewrite Earr. destruct (Hreach _ Hr) as [->|Hr0].
      * apply Hnwf0.
      * apply (w_range _ _ W _ Hr0).
    + intros w1 w2 H1 H2 Hne.
      destruct (Hreach _ H1) as [->|R1], (Hreach _ H2) as [->|R2].
      * congruence.
      * intros E. apply (Hsepn _ R2); congruence.
      * apply (Hsepn _ R1). congruence.
      * apply (w_sep _ _ W); assumption.
    + rewrite Etv. apply (w_tvals _ _ W).
    + intros b w. rewrite Evm, Etv. destruct (Z.eq_dec b a) as [->|Hne].
      * rewrite aget_aset_same. intros E; inversion E; subst w. congruence.
      * rewrite aget_aset_other by assumption. intros Hw Hd N1 N2. apply (w_tomb _ _ W b w Hw Hd).
        -- now rewrite <- Edirty.
        -- intros Hin. apply N2. rewrite Evj. cbn. auto.
    + intros b w. rewrite Evm, Edirty, Evj. destruct (Z.eq_dec b a) as [->|Hne].
      * intros _ _ _ N. exfalso. apply N. cbn. auto.
      * rewrite aget_aset_other by assumption. intros Hw Hd N1 N2.
        eapply coherent_le; eauto. apply (w_range _ _ W). left; eauto.
        apply (w_coh _ _ W b w Hw Hd N1). intros Hin. apply N2. cbn. auto.
    + intros b e. rewrite Evj, Evm. cbn [jfirst ventry_addr]. destruct (Z.eqb_spec a b) as [<-|Hne].
      * intros E; inversion E; subst e. rewrite aget_aset_same. exists nw. split; [reflexivity|exact Hnd].
      * rewrite aget_aset_other by congruence. apply (w_jlive _ _ W b e).
    + rewrite Ecj, Etj. cbn [jwf]. split.
      * cbn [entry_ok]. split; [exact Hnwf|]. split; [exact Howf'|]. rewrite cj_tj. split.
        -- unfold not_del_first. destruct (jfirst (vjournal h) a) as [e'|] eqn:Ef; [|exact I].
           destruct (w_jlive _ _ W a e' Ef) as (w & Hw & Hwd). congruence.
        -- rewrite Edirty. intros N1 N2. eapply coherent_le; eauto.
           apply (w_range _ _ W _ Holdr). apply (w_coh _ _ W a old Hold Hod N2 N1).
      * eapply jwf_le; eauto. apply (w_jwf _ _ W).
    + intros b. rewrite Edirty, Evm. intros Hb. destruct (Z.eq_dec b a) as [->|Hne].
      * rewrite aget_aset_same. discriminate.
      * rewrite aget_aset_other by assumption. apply (w_dirty _ _ W b Hb).
    + rewrite Evm. apply NoDup_aset, (w_nodup _ _ W).
    + rewrite Edirty. apply (w_dsorted _ _ W).
    + rewrite Etv. apply (w_tnodup _ _ W).
  - unfold a_push. constructor; cbn [core xdirty xvj xaj xrevs xnext app].
    + intros b. unfold c_update_validator, c_set_validator, c_stat, c_index, c_xs; cbn [xs].
      unfold xpeek. rewrite Evm, Etv. destruct (Z.eq_dec b a) as [->|Hne].
      * rewrite aget_sset_same, aget_aset_same, Hnd. now rewrite Habsn.
      * rewrite aget_sset_other, aget_aset_other by assumption. rewrite (r_xs _ _ _ Rx). unfold xpeek.
        destruct (aget (vmap h) b) as [w|]; [|reflexivity]. destruct (v_deleted w); [reflexivity|].
        now rewrite (absv_eq h h').
    + unfold c_update_validator, c_set_validator, c_stat, c_index, c_xs; cbn [xindex].
      now rewrite Eidx, (r_index _ _ _ Rx).
    + unfold c_update_validator, c_set_validator, c_stat, c_index, c_xs; cbn [xstat fst].
      rewrite (r_stat _ _ _ Rx). apply adjust_sim. exact Est.
    + intros d. unfold c_update_validator, c_set_validator, c_stat, c_index, c_xs; cbn [xaccts].
      rewrite Eacc. apply Rx.
    + rewrite Edirty. apply Rx.
    + rewrite Eaj. apply Rx.
    + rewrite Erev. apply Rx.
    + rewrite Enext. apply Rx.
    + rewrite Evj. cbn. now rewrite (r_vjlen _ _ _ Rx).
    + rewrite Evj. cbn. now rewrite (r_vja _ _ _ Rx).
    + rewrite Ecj, Evj. cbn [length].
      replace (S (length (vjournal h)) - t)%nat with (S (length (vjournal h) - t)) by (pose proof (w_t _ _ W); lia).
      rewrite firstn_S_cons. cbn [map abs_entry]. rewrite (r_vj _ _ _ Rx), (map_abs_entry_eq h h') by assumption.
      f_equal. f_equal; [exact (eq_sym Habsn)|].
      rewrite (absv_eq h h') by assumption. exact (eq_sym Habs).
Qed.

Lemma a_push_nil x : a_push x (core x, [], []) = x.
Proof. destruct x; reflexivity. Qed.

Lemma norm_set_oid v k : norm (set_oid v k) = norm v.
Proof. destruct v; reflexivity. Qed.
Lemma view_set_oid h v k : view h (set_oid v k) = view h v.
Proof. reflexivity. Qed.
Lemma absv_set_oid h v k : absv h (set_oid v k) = absv h v.
Proof. unfold absv. now rewrite norm_set_oid, view_set_oid. Qed.
Lemma val_wf_set_oid h a v k : val_wf h a v -> val_wf h a (set_oid v k).
Proof. intros H. exact H. Qed.

(* UpdateValidator(new, old) with new = a copy of the stored old carrying the written fields *)
Lemma update_tail h1 t x a u old k h' :
  wf h1 t -> R h1 t x -> J x -> aget (vmap h1) a = Some old -> v_deleted old = false ->
  update_validator h1 (set_oid (apply_upd old u) k) old = Some h' ->
  wf h' t /\
  R h' t (a_push x (c_update_validator (core x) a (apply_upd (norm old) u, stripd (view h1 old)) (absv h1 old), [],
                    [XUpdate a (apply_upd (norm old) u, stripd (view h1 old)) (absv h1 old)])).
Proof.
  intros W1 R1 HJ Hv Hd Hu.
  unfold absv at 1 2. rewrite <- norm_apply_upd. rewrite <- (norm_set_oid (apply_upd old u) k).
  destruct (w_vmap _ _ (proj1 W1) _ _ Hv) as (Hoa & Howf & _). specialize (Howf Hd).
  assert (Hsame : v_aid (set_oid (apply_upd old u) k) = v_aid old /\ v_len (set_oid (apply_upd old u) k) = v_len old)
    by (destruct old; auto).
  destruct Hsame as [Hsa Hsl].
  eapply (update_validator_spec h1 t x a old (set_oid (apply_upd old u) k) _ _ h' W1 R1 HJ Hv Hd eq_refl); try exact Hu.
  + destruct Howf as (A1 & A2 & A3 & A4 & A5). unfold val_wf, view in *. rewrite Hsa, Hsl.
    repeat split; auto; destruct old; auto.
  + unfold absv, view. now rewrite Hsa, Hsl.
  + intros w Hw Hne. rewrite Hsa. apply (w_sep _ _ (proj1 W1)); [exact Hw|left; eauto|congruence].
Qed.

Lemma sim_update h t x a u h' :
  wf h t -> R h t x -> J x -> step h (OUpdate a u) = Some h' ->
  wf h' t /\ R h' t (a_step x (OUpdate a u)).
Proof.
  intros W Rx HJ. cbn [step a_step]. destruct (get_validator h a) as [h1 r] eqn:Eg.
  destruct (get_validator_spec _ _ _ _ _ _ W Rx HJ Eg) as (W1 & R1 & Hle & Hrest & Hr).
  unfold c_update. rewrite (r_xs _ _ _ Rx).
  destruct r as [old|].
  - destruct Hr as (Hv & Hd & Hx). rewrite Hx. intros Hu.
    exact (update_tail _ _ _ _ _ _ _ _ W1 R1 HJ Hv Hd Hu).
  - destruct Hr as [Hx ->]. rewrite Hx. intros H; inversion H; subst. rewrite a_push_nil. auto.
Qed.

(* UpdateValidator(stored record written in place, copy): since the undo of an update reads the stored
   record and no pointer of the journal (7813a3d), only the values matter *)
Lemma sim_update_in h t x a u h' :
  wf h t -> R h t x -> J x -> step h (OUpdateIn a u) = Some h' ->
  wf h' t /\ R h' t (a_step x (OUpdateIn a u)).
Proof. exact (sim_update h t x a u h'). Qed.

(* ---- CreateValidator ---------------------------------------------------------- *)

Lemma xpeek_none_tvals h t a : wfv h t -> aget (vmap h) a = None -> xpeek h a = None -> aget (t_vals h) a = None.
Proof.
  intros W Ew. unfold xpeek. rewrite Ew.
  destruct (aget (t_vals h) a) as [p|] eqn:Ep; [|reflexivity].
  destruct (w_tvals _ _ W _ _ Ep) as [_ Hn]. rewrite Hn. discriminate.
Qed.

Lemma xpeek_live h a w : aget (vmap h) a = Some w -> v_deleted w = false -> xpeek h a = Some (absv h w).
Proof. intros E D. unfold xpeek. now rewrite E, D. Qed.

Lemma sim_create h t x a role status token stake h' :
  wf h t -> R h t x -> J x -> step h (OCreate a role status token stake) = Some h' ->
  wf h' t /\ R h' t (a_step x (OCreate a role status token stake)).
Proof.
  intros W0 Rx HJ. pose proof W0 as [W WA]. cbn [step a_step]. unfold create_validator.
  destruct (get_validator h a) as [h1 r] eqn:Eg.
  destruct (get_validator_spec _ _ _ _ _ _ W0 Rx HJ Eg) as (W1 & R1 & Hle & Hrest & Hr).
  unfold c_create. rewrite (r_xs _ _ _ Rx).
  destruct r as [old|].
  - destruct Hr as (Hv & Hd & Hx). rewrite Hx. intros H; inversion H; subst. rewrite a_push_nil. auto.
  - destruct Hr as [Hx ->]. rewrite Hx. clear W1 R1 Hle Hrest Eg.
    unfold alloc. set (aid := length (arrs h)).
    remember (new_validator a role status token stake aid) as v eqn:Hvdef.
    set (h0 := w_arrs h (arrs h ++ [[]])).
    set (prev := aget (vmap h) a).
    assert (Hnidx : mem a (vindex h) = false).
    { destruct (mem a (vindex h)) eqn:Em; [|reflexivity]. apply mem_In in Em.
      destruct HJ as (([_ _ _ Hix] & _) & _). rewrite <- (r_index _ _ _ Rx), Hix in Em.
      apply aget_keys in Em. rewrite (r_xs _ _ _ Rx), Hx in Em. congruence. }
    change (aget (vmap h0) a) with prev. change (vindex h0) with (vindex h). rewrite Hnidx.
    set (h3 := set_validator (vj_push h0 (VCreate a prev false)) v).
    unfold with_stat. destruct (incr_stat (stat_ h3) v) as [st|] eqn:Est; [|discriminate].
    intros H; inversion H; subst h'; clear H.
    assert (Hva : v_addr v = a) by (rewrite Hvdef; reflexivity).
    assert (Hvd : v_deleted v = false) by (rewrite Hvdef; reflexivity).
    assert (Hvaid : v_aid v = aid) by (rewrite Hvdef; reflexivity).
    assert (Hvlen : v_len v = 0%nat) by (rewrite Hvdef; reflexivity).
    assert (Hnorm : norm v = new_validator a role status token stake 0%nat) by (rewrite Hvdef; reflexivity).
    set (h' := w_stat h3 st).
    assert (Earr : arrs h' = arrs h ++ [[]]) by reflexivity.
    assert (Evm : vmap h' = aset (vmap h) a v) by (unfold h', h3, set_validator, index_add; cbn; now rewrite Hva).
    assert (Eidx : vindex h' = sins a (vindex h)) by (unfold h', h3, set_validator, index_add; cbn; now rewrite Hva).
    assert (Evj : vjournal h' = VCreate a prev false :: vjournal h) by reflexivity.
    assert (Hle : heap_le h h') by (split; [rewrite Earr, app_length; lia | intros; unfold arr_of; rewrite Earr; now rewrite app_nth1]).
    assert (Hview : view h' v = []) by (unfold view; now rewrite Hvlen).
    assert (Hwfv : val_wf h' a v).
    { unfold val_wf. rewrite Hview, Hvaid, Hvlen, Earr, app_length. cbn. unfold aid. repeat split; auto; lia. }
    destruct (cj_push h h' _ t Evj (w_t _ _ W)) as [Ecj Etj].
    (* what the new validator replaces: nothing or a removed validator *)
    assert (Hprev : match prev with
                    | Some p => v_deleted p = true /\ v_addr p = a /\ tomb_wf h a p
                    | None => True end).
    { unfold prev. destruct (aget (vmap h) a) as [p|] eqn:Ep; [|exact I].
      destruct (w_vmap _ _ W _ _ Ep) as (P1 & P2 & P3).
      destruct (v_deleted p) eqn:Ed; [auto|]. rewrite (xpeek_live _ _ _ Ep Ed) in Hx. discriminate. }
    assert (Hreach : forall w, reachable h' t w -> w = v \/ reachable h t w).
    { intros w [[b Hb]|Hin].
      - rewrite Evm in Hb. destruct (Z.eq_dec b a) as [->|Hne].
        + rewrite aget_aset_same in Hb. inversion Hb; auto.
        + rewrite aget_aset_other in Hb by assumption. right; left; eauto.
      - rewrite Ecj in Hin. cbn [flat_map entry_vals] in Hin. apply in_app_or in Hin as [Hin|Hin].
        + right. left. exists a. unfold prev in Hin. destruct (aget (vmap h) a) as [p|]; [|destruct Hin].
          destruct Hin as [<-|[]]. reflexivity.
        + right; right; exact Hin. }
    split.
    + split; [|apply (wfa_frame h); auto]. constructor.
      * rewrite Evj. cbn. pose proof (w_t _ _ W). lia.
      * intros b w. rewrite Evm. destruct (Z.eq_dec b a) as [->|Hne].
        -- rewrite aget_aset_same. intros E; inversion E; subst w.
           split; [exact Hva|split; [intros _; exact Hwfv|intros Hd; congruence]].
        -- rewrite aget_aset_other by assumption. intros Hw. destruct (w_vmap _ _ W _ _ Hw) as (H1 & H2 & H3).
           split; [exact H1|]. split; [intros Hd; eapply val_wf_le; eauto|].
           intros Hd. unfold tomb_wf. eapply val_wf_le; [eauto|exact (H3 Hd)].
      * intros w Hr. rewrite Earr, app_length. cbn. destruct (Hreach _ Hr) as [->|Hr0].
        -- rewrite Hvaid. unfold aid. lia.
        -- pose proof (w_range _ _ W _ Hr0). lia.
      * intros w1 w2 H1 H2 Hne. destruct (Hreach _ H1) as [->|R1], (Hreach _ H2) as [->|R2].
        -- congruence.
        -- rewrite Hvaid. pose proof (w_range _ _ W _ R2). unfold aid. lia.
        -- rewrite Hvaid. pose proof (w_range _ _ W _ R1). unfold aid. lia.
        -- apply (w_sep _ _ W); assumption.
      * apply (w_tvals _ _ W).
      * intros b w. rewrite Evm, Evj. destruct (Z.eq_dec b a) as [->|Hne].
        -- rewrite aget_aset_same. intros E; inversion E; subst w. congruence.
        -- rewrite aget_aset_other by assumption. intros Hw Hd N1 N2. apply (w_tomb _ _ W b w Hw Hd N1).
           intros Hin. apply N2. cbn. auto.
      * intros b w. rewrite Evm, Evj. destruct (Z.eq_dec b a) as [->|Hne].
        -- intros _ _ _ N. exfalso. apply N. cbn. auto.
        -- rewrite aget_aset_other by assumption. intros Hw Hd N1 N2.
           eapply coherent_le; eauto. apply (w_range _ _ W). left; eauto.
           apply (w_coh _ _ W b w Hw Hd N1). intros Hin. apply N2. cbn. auto.
      * intros b e. rewrite Evj, Evm. cbn [jfirst ventry_addr]. destruct (Z.eqb_spec a b) as [<-|Hne].
        -- intros E; inversion E; subst e. rewrite aget_aset_same. exists v. split; [reflexivity|exact Hvd].
        -- rewrite aget_aset_other by congruence. apply (w_jlive _ _ W b e).
      * rewrite Ecj, Etj. cbn [jwf]. split.
        -- cbn [entry_ok]. rewrite cj_tj. split; [reflexivity|].
           unfold prev in *. destruct (aget (vmap h) a) as [p|] eqn:Ep.
           ++ destruct Hprev as (P1 & P2 & P3). split; [exact P1|]. split; [eapply val_wf_le; [exact Hle|exact P3]|].
              split.
              ** destruct (jfirst (vjournal h) a) as [e'|] eqn:Ef; [|exact I].
                 destruct (w_jlive _ _ W a e' Ef) as (w & Hw & Hwd). congruence.
              ** intros N1 N2. apply (w_tomb _ _ W a p Ep P1 N1 N2).
           ++ split; [|split].
              ** destruct (jfirst (vjournal h) a) as [e'|] eqn:Ef; [|reflexivity].
                 destruct (w_jlive _ _ W a e' Ef) as (w & Hw & _). congruence.
              ** intros Hin. apply (w_dirty _ _ W a Hin). exact Ep.
              ** apply (xpeek_none_tvals h t a W Ep Hx).
        -- eapply jwf_le; eauto. apply (w_jwf _ _ W).
      * intros b Hb. rewrite Evm. destruct (Z.eq_dec b a) as [->|Hne].
        -- rewrite aget_aset_same. discriminate.
        -- rewrite aget_aset_other by assumption. apply (w_dirty _ _ W b Hb).
      * rewrite Evm. apply NoDup_aset, (w_nodup _ _ W).
      * apply (w_dsorted _ _ W).
      * apply (w_tnodup _ _ W).
    + unfold a_push. constructor; cbn [core xdirty xvj xaj xrevs xnext app];
        unfold c_set_validator, c_stat, c_index, c_xs; cbn [xs xindex xstat xaccts fst].
      * intros b. unfold xpeek. rewrite Evm. destruct (Z.eq_dec b a) as [->|Hne].
        -- rewrite aget_sset_same, aget_aset_same, Hvd. unfold absv. now rewrite Hview, Hnorm.
        -- rewrite aget_sset_other, aget_aset_other by assumption. rewrite (r_xs _ _ _ Rx). unfold xpeek.
           destruct (aget (vmap h) b) as [w|] eqn:Ew; [|reflexivity]. destruct (v_deleted w); [reflexivity|].
           rewrite (absv_le h h'); auto. apply (w_range _ _ W). left; eauto.
      * now rewrite Eidx, (r_index _ _ _ Rx).
      * rewrite (r_stat _ _ _ Rx). unfold a_incr. rewrite <- Hnorm, incr_stat_norm.
        change (stat_ h3) with (stat_ h) in Est. now rewrite Est.
      * apply Rx.
      * apply Rx.
      * apply Rx.
      * apply Rx.
      * apply Rx.
      * rewrite Evj. cbn. now rewrite (r_vjlen _ _ _ Rx).
      * rewrite Evj. cbn. now rewrite (r_vja _ _ _ Rx).
      * rewrite Ecj, Evj. cbn [length].
        replace (S (length (vjournal h)) - t)%nat with (S (length (vjournal h) - t)) by (pose proof (w_t _ _ W); lia).
        rewrite firstn_S_cons. cbn [map abs_entry]. rewrite (r_vj _ _ _ Rx). f_equal. symmetry.
        apply map_abs_entry_le; [assumption|]. intros w Hw. apply (w_range _ _ W). right. exact Hw.
Qed.

(* ---- frames: operations that leave the validator side / account side alone --- *)

Lemma wfv_frame h h' t :
  arrs h' = arrs h -> vmap h' = vmap h -> vdirty h' = vdirty h -> vjournal h' = vjournal h ->
  t_vals h' = t_vals h -> wfv h t -> wfv h' t.
Proof.
  intros Ea Em Ed Ej Et W.
  assert (Hle : heap_le h h') by (apply heap_le_eq, Ea).
  assert (Hcj : cj h' t = cj h t) by (unfold cj; now rewrite Ej).
  assert (Htj : tj h' t = tj h t) by (unfold tj; now rewrite Ej).
  assert (Hr : forall v, reachable h' t v <-> reachable h t v) by (intros v; unfold reachable; now rewrite Em, Hcj).
  constructor.
  - rewrite Ej. apply W.
  - intros a v. rewrite Em. intros Hv. destruct (w_vmap _ _ W _ _ Hv) as (H1 & H2 & H3). split; [exact H1|]. split; [intros Hd; eapply val_wf_eq; eauto|intros Hd; unfold tomb_wf; eapply val_wf_eq; [eauto|exact (H3 Hd)]].
  - intros v Hv. rewrite Ea. apply (w_range _ _ W), Hr, Hv.
  - intros v w Hv Hw. apply (w_sep _ _ W); now apply Hr.
  - rewrite Et. apply W.
  - rewrite Em, Et, Ed, Ej. apply W.
  - intros a v. rewrite Em, Ed, Ej. intros Hv Hd N1 N2. eapply coherent_le; eauto.
    apply (w_range _ _ W). left; eauto. apply (w_coh _ _ W a v Hv Hd N1 N2).
  - rewrite Ej, Em. apply W.
  - rewrite Hcj, Htj. eapply jwf_le; eauto. apply W.
  - rewrite Ed, Em. apply W.
  - rewrite Em. apply W.
  - rewrite Ed. apply W.
  - rewrite Et. apply W.
Qed.

Lemma xpeek_frame h h' a : arrs h' = arrs h -> vmap h' = vmap h -> t_vals h' = t_vals h -> xpeek h' a = xpeek h a.
Proof.
  intros Ea Em Et. unfold xpeek. rewrite Em, Et. destruct (aget (vmap h) a) as [v|]; [|reflexivity].
  destruct (v_deleted v); [reflexivity|]. now rewrite (absv_eq h h').
Qed.

(* ---- fund ---------------------------------------------------------------------- *)

Lemma NoDup_keys_aset_absent {A} (m : list (Z * A)) k x : NoDup (map fst m) -> NoDup (map fst (aset m k x)).
Proof. apply NoDup_aset. Qed.

Lemma sim_fund h t x d h' :
  wf h t -> R h t x -> step h (OFund d) = Some h' -> wf h' t /\ R h' t (a_step x (OFund d)).
Proof.
  intros [W WA] Rx. cbn [step a_step]. intros H; inversion H; subst h'; clear H.
  unfold fund, c_fund. rewrite (r_accts _ _ _ Rx d).
  destruct (aget (accts h) d) as [ac|] eqn:Ed; cbn [option_map].
  - split; [split|].
    + apply (wfv_frame h); auto.
    + destruct WA as [A B C D E F G Hsd]. constructor; cbn [accts ajournal blobs adirty aj_push w_ajournal].
      * exact A.
      * intros d' prev [H|H]; [discriminate|]. exact (B _ _ H).
      * intros e [<-|H]; [cbn; congruence|]. exact (C _ H).
      * split; [exact I|exact D].
      * exact E.
      * intros d' ac' Hac Hnd Hnj. apply (F d' ac' Hac Hnd). intros prev Hin. apply (Hnj prev). cbn; auto.
      * cbn [ajbase]. split; [exact I|]. eapply ajbase_frame; [| |exact G]; reflexivity.
      * exact Hsd.
    + unfold a_push. constructor; cbn; try apply Rx.
      all: try (now rewrite (r_aj _ _ _ Rx)).
      all: try (intros a; rewrite (r_xs _ _ _ Rx); symmetry; apply xpeek_frame; reflexivity).
      all: try (rewrite (r_vj _ _ _ Rx); reflexivity).
  - set (ac0 := mkA 0 [] false false). split; [split|].
    + apply (wfv_frame h); auto.
    + destruct WA as [A B C D E F G Hsd]. constructor; cbn [accts ajournal blobs adirty aj_push w_ajournal w_accts].
      * intros d' ac. destruct (Z.eq_dec d' d) as [->|Hne].
        -- rewrite aget_aset_same. intros H; inversion H; subst. cbn. split; auto.
        -- rewrite aget_aset_other by assumption. apply A.
      * intros d' prev [H|[H|H]]; [discriminate|discriminate|].
        destruct (B _ _ H) as (ac & Hac & Hdd). destruct (Z.eq_dec d' d) as [->|Hne]; [congruence|].
        exists ac. rewrite aget_aset_other by assumption. auto.
      * intros e [<-|[<-|H]]; cbn; [rewrite aget_aset_same; discriminate..|].
        specialize (C _ H). destruct (Z.eq_dec (aentry_addr e) d) as [->|Hne]; [rewrite aget_aset_same; discriminate|].
        now rewrite aget_aset_other.
      * split; [exact I|]. split; [|exact D].
        intros Hin. apply in_map_iff in Hin as (e & Ea & He). specialize (C _ He). congruence.
      * apply NoDup_aset, E.
      * intros d' ac'. destruct (Z.eq_dec d' d) as [->|Hne].
        -- rewrite aget_aset_same. intros H; inversion H; subst. reflexivity.
        -- rewrite aget_aset_other by assumption. intros Hac Hnd Hnj. apply (F d' ac' Hac Hnd).
           intros prev Hin. apply (Hnj prev). cbn; auto.
      * cbn [ajbase]. split; [exact I|]. split; [exact I|]. eapply ajbase_frame; [| |exact G]; reflexivity.
      * exact Hsd.
    + unfold a_push, c_accts. constructor; cbn; try apply Rx.
      all: try (now rewrite (r_aj _ _ _ Rx)).
      all: try (intros a; rewrite (r_xs _ _ _ Rx); symmetry; apply xpeek_frame; reflexivity).
      all: try (rewrite (r_vj _ _ _ Rx); reflexivity).
      intros d'. destruct (Z.eq_dec d' d) as [->|Hne].
      * now rewrite aget_sset_same, aget_aset_same.
      * rewrite aget_sset_other, aget_aset_other by assumption. apply Rx.
Qed.

(* ---- snapshot, RemoveValidator of an uncached address, Finalise ------------------ *)

Lemma sim_snapshot h t x h' :
  wf h t -> R h t x -> step h OSnapshot = Some h' -> wf h' t /\ R h' t (a_step x OSnapshot).
Proof.
  intros [W WA] Rx. cbn [step a_step]. intros H; inversion H; subst h'; clear H.
  unfold snapshot, a_snapshot. split; [split|].
  - apply (wfv_frame h); auto.
  - apply (wfa_frame h); auto.
  - constructor; cbn; try apply Rx.
    all: try (intros a; rewrite (r_xs _ _ _ Rx); symmetry; apply xpeek_frame; reflexivity).
    all: try (rewrite (r_vj _ _ _ Rx); reflexivity).
    + now rewrite (r_next _ _ _ Rx), (r_aj _ _ _ Rx), (r_vjlen _ _ _ Rx), (r_revs _ _ _ Rx).
    + now rewrite (r_next _ _ _ Rx).
Qed.

(* RemoveValidator acts on cached, not yet removed validators only: otherwise nothing happens *)
Definition a_step_h (h : state) (x : astate) (o : op) : astate :=
  match o with
  | ORemove a => match aget (vmap h) a with
                 | Some v => if v_deleted v then x else a_step x o
                 | None => x
                 end
  | _ => a_step x o
  end.

Lemma set_deleted_back v : v_deleted v = false -> set_deleted (set_deleted v true) false = v.
Proof. destruct v; cbn. intros ->. reflexivity. Qed.

Lemma J_sorted x : J x -> ssorted (xs (core x)).
Proof. intros (([Hs _ _ _] & _) & _). exact Hs. Qed.

Lemma sim_remove h t x a h' :
  wf h t -> R h t x -> J x -> hpre h t (ORemove a) = true -> step h (ORemove a) = Some h' ->
  wf h' t /\ R h' t (a_step_h h x (ORemove a)).
Proof.
  intros [W WA] Rx HJ. cbn [hpre step a_step_h a_step]. unfold remove_validator.
  destruct (aget (vmap h) a) as [v|] eqn:Hv; [|intros _ H; inversion H; subst; split; [split|]; assumption].
  destruct (v_deleted v) eqn:Hvd; [intros _ H; inversion H; subst; split; [split|]; assumption|].
  cbn [orb]. intros Hlen. apply Nat.eqb_eq in Hlen.
  destruct (w_vmap _ _ W _ _ Hv) as (Hva & Hvwf & _). specialize (Hvwf Hvd).
  set (v' := set_deleted v true).
  unfold with_stat. cbn [stat_ w_vindex Model.w_vmap vj_push w_vjournal].
  unfold v' at 1. rewrite decr_stat_set_deleted_any.
  destruct (decr_stat (stat_ h) v) as [st|] eqn:Est; [|discriminate].
  intros H; inversion H; subst h'; clear H.
  cbn [vmap vindex vj_push w_vjournal].
  set (vc := set_oid v (fresh_oid h)).
  set (h' := w_stat (w_vindex (Model.w_vmap (vj_push h (VDelete a vc)) (aset (vmap h) a v')) (srem a (vindex h))) st).
  assert (Earr : arrs h' = arrs h) by reflexivity.
  assert (Evm : vmap h' = aset (vmap h) a v') by reflexivity.
  assert (Evj : vjournal h' = VDelete a vc :: vjournal h) by reflexivity.
  assert (Hle : heap_le h h') by (apply heap_le_eq, Earr).
  destruct (cj_push h h' _ t Evj (w_t _ _ W)) as [Ecj Etj].
  assert (Hv'a : v_addr v' = a) by (destruct v; exact Hva).
  assert (Hv'aid : v_aid v' = v_aid v) by (destruct v; reflexivity).
  assert (Hv'd : v_deleted v' = true) by (destruct v; reflexivity).
  assert (Hvr : reachable h t v) by (left; eauto).
  assert (Hview : view h v = []) by (unfold view; now rewrite Hlen).
  assert (Hxa : aget (xs (core x)) a = Some (norm v, [])).
  { rewrite (r_xs _ _ _ Rx), (xpeek_live _ _ _ Hv Hvd). unfold absv. now rewrite Hview. }
  assert (Hreach : forall u, reachable h' t u ->
            exists u0, reachable h t u0 /\ v_addr u0 = v_addr u /\ v_aid u0 = v_aid u).
  { intros u [[b Hb]|Hin].
    - rewrite Evm in Hb. destruct (Z.eq_dec b a) as [->|Hne].
      + rewrite aget_aset_same in Hb. inversion Hb; subst u. exists v. split; [exact Hvr|]. split; congruence.
      + rewrite aget_aset_other in Hb by assumption. exists u. split; [left; eauto|auto].
    - rewrite Ecj in Hin. cbn in Hin. destruct Hin as [<-|Hin]; [exists v; split; [exact Hvr|split; reflexivity]|]. exists u. split; [right; exact Hin|auto]. }
  split; [split|].
  - constructor.
    + rewrite Evj. cbn. pose proof (w_t _ _ W). lia.
    + intros b w. rewrite Evm. destruct (Z.eq_dec b a) as [->|Hne].
      * rewrite aget_aset_same. intros E; inversion E; subst w. split; [exact Hv'a|].
        split; [intros Hd; congruence|]. intros _. unfold tomb_wf, v'. rewrite set_deleted_back by assumption.
        eapply val_wf_eq; eauto.
      * rewrite aget_aset_other by assumption. intros Hw. destruct (w_vmap _ _ W _ _ Hw) as (H1 & H2 & H3).
        split; [exact H1|]. split; [intros Hd; eapply val_wf_eq; eauto|intros Hd; unfold tomb_wf; eapply val_wf_eq; [eauto|exact (H3 Hd)]].
    + intros u Hu. destruct (Hreach _ Hu) as (u0 & R0 & _ & I0). rewrite <- I0, Earr. apply (w_range _ _ W _ R0).
    + intros u1 u2 H1 H2 Hne. destruct (Hreach _ H1) as (p1 & R1 & A1 & I1), (Hreach _ H2) as (p2 & R2 & A2 & I2).
      rewrite <- I1, <- I2. apply (w_sep _ _ W); congruence.
    + apply (w_tvals _ _ W).
    + intros b w. rewrite Evm, Evj. destruct (Z.eq_dec b a) as [->|Hne].
      * intros _ _ _ N. exfalso. apply N. cbn. auto.
      * rewrite aget_aset_other by assumption. intros Hw Hd N1 N2. apply (w_tomb _ _ W b w Hw Hd N1).
        intros Hin. apply N2. cbn. auto.
    + intros b w. rewrite Evm, Evj. destruct (Z.eq_dec b a) as [->|Hne].
      * rewrite aget_aset_same. intros E; inversion E; subst w. congruence.
      * rewrite aget_aset_other by assumption. intros Hw Hd N1 N2.
        eapply coherent_le; eauto. apply (w_range _ _ W). left; eauto.
        apply (w_coh _ _ W b w Hw Hd N1). intros Hin. apply N2. cbn. auto.
    + intros b e. rewrite Evj, Evm. cbn [jfirst ventry_addr]. destruct (Z.eqb_spec a b) as [<-|Hne].
      * intros E; inversion E; subst e. rewrite aget_aset_same. exists v'. split; [reflexivity|exact Hv'd].
      * rewrite aget_aset_other by congruence. apply (w_jlive _ _ W b e).
    + rewrite Ecj, Etj. cbn [jwf]. split.
      * cbn [entry_ok]. split; [exact (val_wf_eq h h' a v Earr Hvwf)|]. rewrite cj_tj. split.
        -- unfold not_del_first. destruct (jfirst (vjournal h) a) as [e'|] eqn:Ef; [|exact I].
           destruct (w_jlive _ _ W a e' Ef) as (w & Hw & Hwd). congruence.
        -- intros N1 N2. change (coherent h' a v). eapply coherent_le; eauto. apply (w_range _ _ W _ Hvr). apply (w_coh _ _ W a v Hv Hvd N2 N1).
      * eapply jwf_le; eauto. apply (w_jwf _ _ W).
    + intros b Hb. rewrite Evm. destruct (Z.eq_dec b a) as [->|Hne].
      * rewrite aget_aset_same. discriminate.
      * rewrite aget_aset_other by assumption. apply (w_dirty _ _ W b Hb).
    + rewrite Evm. apply NoDup_aset, (w_nodup _ _ W).
    + apply (w_dsorted _ _ W).
    + apply (w_tnodup _ _ W).
  - apply (wfa_frame h); auto.
  - unfold c_remove. rewrite Hxa. unfold a_push. constructor; cbn [core xdirty xvj xaj xrevs xnext app];
      unfold c_stat, c_index, c_xs; cbn [xs xindex xstat xaccts fst].
    + intros b. unfold xpeek. rewrite Evm. destruct (Z.eq_dec b a) as [->|Hne].
      * rewrite (aget_adel_same _ _ (J_sorted _ HJ)), aget_aset_same, Hv'd. reflexivity.
      * rewrite aget_adel_other, aget_aset_other by assumption. rewrite (r_xs _ _ _ Rx). unfold xpeek.
        destruct (aget (vmap h) b) as [w|]; [|reflexivity]. destruct (v_deleted w); [reflexivity|].
        now rewrite (absv_eq h h').
    + now rewrite (r_index _ _ _ Rx).
    + rewrite (r_stat _ _ _ Rx). unfold a_decr. now rewrite decr_stat_norm, Est.
    + apply Rx.
    + apply Rx.
    + apply Rx.
    + apply Rx.
    + apply Rx.
    + rewrite Evj. cbn. now rewrite (r_vjlen _ _ _ Rx).
    + rewrite Evj. cbn. now rewrite (r_vja _ _ _ Rx).
    + rewrite Ecj, Evj. cbn [length].
      replace (S (length (vjournal h)) - t)%nat with (S (length (vjournal h) - t)) by (pose proof (w_t _ _ W); lia).
      rewrite firstn_S_cons. cbn [map abs_entry]. rewrite (r_vj _ _ _ Rx).
      f_equal. f_equal. unfold vc. rewrite absv_set_oid. unfold absv. change (view h' v) with (view h v). now rewrite Hview.
Qed.

Lemma fold_sins_In l : forall d0 a, In a (fold_left (fun acc b => sins b acc) l d0) <-> In a d0 \/ In a l.
Proof.
  induction l as [|b r IH]; intros d0 a; cbn; [tauto|]. rewrite IH, In_sins. intuition.
Qed.

Lemma zsorted_fold_sins l : forall d0, zsorted d0 -> zsorted (fold_left (fun acc b => sins b acc) l d0).
Proof. induction l as [|b r IH]; intros d0 H; cbn; [exact H|]. apply IH, zsorted_sins, H. Qed.

Lemma fin_dirty_h h j d0 :
  (forall e, In e j -> aget (vmap h) (ventry_addr e) <> None) ->
  fold_left (fun acc e => let a := ventry_addr e in
                          match aget (vmap h) a with Some _ => sins a acc | None => acc end) j d0
  = fold_left (fun acc b => sins b acc) (map ventry_addr j) d0.
Proof.
  revert d0. induction j as [|e r IH]; intros d0 H; cbn; [reflexivity|].
  destruct (aget (vmap h) (ventry_addr e)) eqn:E; [|exfalso; apply (H e); cbn; auto].
  apply IH. intros; apply H; cbn; auto.
Qed.

Lemma fin_dirty_a j d0 :
  fold_left (fun acc e => sins (xentry_addr e) acc) j d0 = fold_left (fun acc b => sins b acc) (map xentry_addr j) d0.
Proof. revert d0. induction j as [|e r IH]; intros d0; cbn; [reflexivity|]. apply IH. Qed.

Lemma jfirst_In j e : In e j -> exists e', jfirst j (ventry_addr e) = Some e'.
Proof.
  induction j as [|x r IH]; cbn; [tauto|]. intros [->|Hin].
  - rewrite Z.eqb_refl. eauto.
  - destruct (Z.eqb (ventry_addr x) (ventry_addr e)); eauto.
Qed.
Lemma jfirst_addr j a e : jfirst j a = Some e -> ventry_addr e = a /\ In e j.
Proof.
  induction j as [|x r IH]; cbn; [discriminate|]. destruct (Z.eqb_spec (ventry_addr x) a).
  - intros H; inversion H; subst. auto.
  - intros H. destruct (IH H). auto.
Qed.
Lemma jfirst_none j a : jfirst j a = None <-> ~ In a (map ventry_addr j).
Proof.
  induction j as [|x r IH]; cbn; [tauto|]. destruct (Z.eqb_spec (ventry_addr x) a).
  - split; [discriminate|]. intros H. exfalso. apply H. auto.
  - rewrite IH. tauto.
Qed.

Lemma jlive_present h t e : wfv h t -> In e (vjournal h) -> aget (vmap h) (ventry_addr e) <> None.
Proof.
  intros W He. destruct (jfirst_In _ _ He) as (e' & Hf). destruct (w_jlive _ _ W _ _ Hf) as (v & Hv & _). congruence.
Qed.

Lemma finalise_dirty h t : wfv h t ->
  vdirty (finalise h) = fold_left (fun acc b => sins b acc) (map ventry_addr (vjournal h)) (vdirty h).
Proof.
  intros W. unfold finalise; cbn. apply fin_dirty_h. intros e He. eapply jlive_present; eauto.
Qed.

Lemma cj_nil h t : vjournal h = [] -> cj h t = [] /\ tj h t = [].
Proof. intros E. unfold cj, tj. rewrite E. cbn. destruct (0 - t)%nat; auto. Qed.

Lemma wfv_finalise h t : wfv h t -> wfv (finalise h) 0.
Proof.
  intros W. pose proof (finalise_dirty h t W) as Hd. set (h' := finalise h) in *.
  assert (Ea : arrs h' = arrs h) by reflexivity. assert (Em : vmap h' = vmap h) by reflexivity.
  assert (Ej : vjournal h' = []) by reflexivity. assert (Et : t_vals h' = t_vals h) by reflexivity.
  destruct (cj_nil h' 0 Ej) as [Ecj Etj].
  assert (Hr : forall v, reachable h' 0 v -> reachable h t v).
  { intros v [H|H]; [left; exact H|]. rewrite Ecj in H. destruct H. }
  constructor.
  - rewrite Ej. cbn. lia.
  - intros a v Hv. destruct (w_vmap _ _ W _ _ Hv) as (H1 & H2 & H3). split; [exact H1|]. split; [intros Hdl; eapply val_wf_eq; eauto|intros Hdl; unfold tomb_wf; eapply val_wf_eq; [eauto|exact (H3 Hdl)]].
  - intros v Hv. rewrite Ea. apply (w_range _ _ W), Hr, Hv.
  - intros v w Hv Hw. apply (w_sep _ _ W); now apply Hr.
  - apply W.
  - intros a v Hv Hdl N1 _. rewrite Hd in N1. rewrite fold_sins_In in N1.
    apply (w_tomb _ _ W a v Hv Hdl); tauto.
  - intros a v Hv Hdl N1 _. rewrite Hd in N1. rewrite fold_sins_In in N1.
    eapply coherent_le; [apply heap_le_eq, Ea|exact Et| |].
    + apply (w_range _ _ W). left; eauto.
    + apply (w_coh _ _ W a v Hv Hdl); tauto.
  - rewrite Ej. intros a e H; discriminate.
  - rewrite Ecj. exact I.
  - intros a. rewrite Hd, fold_sins_In. intros [H|H].
    + apply (w_dirty _ _ W a H).
    + apply in_map_iff in H as (e & <- & He). exact (jlive_present h t e W He).
  - apply W.
  - rewrite Hd. apply zsorted_fold_sins, W.
  - apply W.
Qed.

Lemma finalise_adirty_In h d : In d (finalise_adirty h) <->
  In d (adirty h) \/ (exists e, In e (ajournal h) /\ aentry_addr e = d /\ aget (accts h) d <> None).
Proof.
  unfold finalise_adirty. generalize (adirty h). induction (ajournal h) as [|e r IH]; intros d0; cbn.
  - split; [auto|]. intros [H|(e & [] & _)]; exact H.
  - rewrite IH. destruct (aget (accts h) (aentry_addr e)) eqn:E.
    + rewrite In_sins. split.
      * intros [[->|H]|(e' & H1 & H2 & H3)]; [right; exists e; split; [auto|split; [reflexivity|congruence]]|auto|].
        right. exists e'. auto.
      * intros [H|(e' & [<-|H1] & H2 & H3)]; [auto| |].
        -- left. left. congruence.
        -- right. exists e'. auto.
    + split.
      * intros [H|(e' & H1 & H2 & H3)]; [auto|]. right. exists e'. auto.
      * intros [H|(e' & [<-|H1] & H2 & H3)]; [auto| |].
        -- congruence.
        -- right. exists e'. auto.
Qed.

Lemma finalise_adirty_sorted h : zsorted (adirty h) -> zsorted (finalise_adirty h).
Proof.
  unfold finalise_adirty. generalize (adirty h). induction (ajournal h) as [|e r IH]; intros d0 H; cbn; [exact H|].
  apply IH. destruct (aget (accts h) (aentry_addr e)); [apply zsorted_sins, H|exact H].
Qed.

Lemma wfa_clear h h' : accts h' = accts h -> ajournal h' = [] -> blobs h' = blobs h ->
  adirty h' = finalise_adirty h -> wfa h -> wfa h'.
Proof.
  intros E1 E2 E3 E4 [A B C D E F G Hsd]. constructor; unfold blob_ok in *; rewrite ?E1, ?E2, ?E3; try assumption.
  - intros d prev [].
  - intros e [].
  - exact I.
  - intros d ac Hac Hnd _. rewrite E4, finalise_adirty_In in Hnd. apply (F d ac Hac); [tauto|].
    intros prev Hin. apply Hnd. right. exists (JDlgs d prev). split; [exact Hin|]. split; [reflexivity|congruence].
  - exact I.
  - rewrite E4. apply finalise_adirty_sorted, Hsd.
Qed.

Lemma sim_finalise h t x h' :
  wf h t -> R h t x -> step h OFinalise = Some h' -> wf h' 0 /\ R h' 0 (a_step x OFinalise).
Proof.
  intros [W WA] Rx. cbn [step a_step]. intros H; inversion H; subst h'; clear H.
  split; [split|].
  - apply (wfv_finalise h t W).
  - apply (wfa_clear h); auto.
  - unfold a_finalise. constructor; cbn [core xdirty xvj xaj xrevs xnext].
    + intros a. rewrite (r_xs _ _ _ Rx). symmetry. apply xpeek_frame; reflexivity.
    + apply Rx.
    + apply Rx.
    + apply Rx.
    + rewrite (finalise_dirty h t W), fin_dirty_a, (r_vja _ _ _ Rx), (r_dirty _ _ _ Rx). reflexivity.
    + reflexivity.
    + reflexivity.
    + apply Rx.
    + reflexivity.
    + reflexivity.
    + reflexivity.
Qed.

(* ---- GetValidatorsForUpdate outside the finding class ---------------------------- *)

Lemma list_eqb_eq l : forall l', list_eqb Z.eqb l l' = true -> l = l'.
Proof.
  induction l as [|a r IH]; intros [|b r']; cbn; try discriminate; [reflexivity|].
  intros H. apply andb_prop in H as [H1 H2]. apply Z.eqb_eq in H1. subst. f_equal. auto.
Qed.

Lemma list_vals_spec t x l : forall h, wf h t -> R h t x -> J x -> wf (list_vals h l) t /\ R (list_vals h l) t x.
Proof.
  induction l as [|a r IH]; intros h W Rx HJ; cbn [list_vals]; [auto|].
  destruct (aget (vmap h) a); [auto|].
  destruct (get_validator h a) as [h1 r0] eqn:Eg. cbn [fst].
  destruct (get_validator_spec _ _ _ _ _ _ W Rx HJ Eg) as (W1 & R1 & _). auto.
Qed.

Lemma w_vindex_eta h : w_vindex h (vindex h) = h.
Proof. destruct h; reflexivity. Qed.

Lemma sim_list h t x h' :
  wf h t -> R h t x -> J x -> hpre h t OList = true -> step h OList = Some h' ->
  wf h' t /\ R h' t (a_step x OList).
Proof.
  intros W Rx HJ. cbn [hpre step a_step]. unfold list_for_update. intros Hp H; inversion H; subst h'; clear H.
  assert (Hs1 : (match vindex h with
                 | [] => match t_index h with Some l => w_vindex h l | None => h end
                 | _ :: _ => h
                 end) = h).
  { destruct (vindex h) as [|i0 ir] eqn:Ei; [|reflexivity]. destruct (t_index h) as [[|l0 lr]|]; [|discriminate|reflexivity].
    rewrite <- Ei. apply w_vindex_eta. }
  rewrite Hs1. apply list_vals_spec; assumption.
Qed.

(* ---- IntermediateRoot --------------------------------------------------------------- *)

Definition Rc (h : state) (c : acore) : Prop :=
  (forall a, aget (xs c) a = xpeek h a) /\ xindex c = vindex h /\ xstat c = stat_ h /\
  (forall d, aget (xaccts c) d = option_map ess (aget (accts h) d)).

Definition same_other (h h' : state) : Prop :=
  arrs h' = arrs h /\ vjournal h' = vjournal h /\ vdirty h' = vdirty h /\ accts h' = accts h /\
  ajournal h' = ajournal h /\ revs h' = revs h /\ next_id h' = next_id h /\
  t_index h' = t_index h /\ t_stat h' = t_stat h /\ blobs h' = blobs h /\ adirty h' = adirty h.

Lemma same_other_refl h : same_other h h.
Proof. repeat split. Qed.
Lemma same_other_trans a b c : same_other a b -> same_other b c -> same_other a c.
Proof.
  intros (A1&A2&A3&A4&A5&A6&A7&A8&A9&A10&A11) (B1&B2&B3&B4&B5&B6&B7&B8&B9&B10&B11).
  repeat split; congruence.
Qed.

Lemma decr_stat_set_deleted st v b : decr_stat st (set_deleted v b) = decr_stat st v.
Proof. destruct v; reflexivity. Qed.

Lemma cj_nil0 h : vjournal h = [] -> cj h 0 = [].
Proof. intros E. unfold cj. now rewrite E. Qed.

Lemma zsorted_head_notin a r : zsorted (a :: r) -> ~ In a r.
Proof. intros [H _] Hin. specialize (H _ Hin). lia. Qed.

Lemma srem_absent k l : ~ In k l -> srem k l = l.
Proof.
  induction l as [|x r IH]; cbn; [reflexivity|]. intros H. destruct (Z.eqb_spec x k); [exfalso; apply H; auto|].
  f_equal. apply IH. tauto.
Qed.

Lemma set_deleted_twice v b c : set_deleted (set_deleted v b) c = set_deleted v c.
Proof. destruct v; reflexivity. Qed.

Lemma root_vals_sim l : forall h c h',
  wfv (w_vdirty h l) 0 -> vjournal h = [] -> Rc h c -> ssorted (xs c) -> xindex c = map fst (xs c) ->
  root_vals h l = Some h' ->
  wfv (w_vdirty h' []) 0 /\ Rc h' (c_root_vals c l) /\ same_other h h'.
Proof.
  induction l as [|a r IH]; intros h c h' W Ej HR Hs Hix; cbn [root_vals c_root_vals].
  - intros H; inversion H; subst. auto using same_other_refl.
  - destruct HR as (Rxs & Ridx & Rst & Racc).
    assert (Hpres : aget (vmap h) a <> None) by (apply (w_dirty _ _ W a); cbn; auto).
    destruct (aget (vmap h) a) as [v|] eqn:Hv; [clear Hpres|congruence].
    pose proof (zsorted_head_notin _ _ (w_dsorted _ _ W)) as Hnotin. cbn [vdirty w_vdirty] in Hnotin.
    destruct (w_vmap _ _ W _ _ Hv) as (Hva & Hvlive & Hvtomb).
    assert (Hcj0 : forall s, vjournal s = [] -> forall u, reachable s 0 u -> exists b, aget (vmap s) b = Some u).
    { intros s E u [H|H]; [exact H|]. rewrite (cj_nil0 s E) in H. destruct H. }
    set (v' := set_deleted v true).
    assert (Hv'a : v_addr v' = a) by (destruct v; exact Hva).
    assert (Hv'aid : v_aid v' = v_aid v) by (destruct v; reflexivity).
    assert (Hv'd : v_deleted v' = true) by (destruct v; reflexivity).
    (* the state after deleteValidator, statistics aside *)
    set (hd := w_vindex (w_t_vals (Model.w_vmap h (aset (vmap h) a v')) (adel (t_vals h) a)) (srem a (vindex h))).
    assert (Wdel : forall st, (v_deleted v = true -> tomb_wf (w_vdirty h (a :: r)) a v) ->
                   (v_deleted v = false -> val_wf (w_vdirty h (a :: r)) a v) ->
                   wfv (w_vdirty (w_stat hd st) r) 0).
    { intros st HT HL.
      assert (Hreach : forall u, reachable (w_vdirty (w_stat hd st) r) 0 u ->
                exists u0, reachable (w_vdirty h (a :: r)) 0 u0 /\ v_addr u0 = v_addr u /\ v_aid u0 = v_aid u).
      { intros u Hu. destruct (Hcj0 (w_vdirty (w_stat hd st) r) Ej u Hu) as (b & Hb). cbn in Hb.
        destruct (Z.eq_dec b a) as [->|Hne].
        - rewrite aget_aset_same in Hb. inversion Hb; subst u. exists v. split; [left; exists a; exact Hv|].
          split; congruence.
        - rewrite aget_aset_other in Hb by assumption. exists u. split; [left; exists b; exact Hb|auto]. }
      constructor.
      - cbn. rewrite Ej. cbn. lia.
      - intros b u. cbn [vmap w_vdirty hd w_stat w_vindex w_t_vals Model.w_vmap]. destruct (Z.eq_dec b a) as [->|Hne].
        + rewrite aget_aset_same. intros E; inversion E; subst u. split; [exact Hv'a|].
          split; [intros Hd; congruence|]. intros _. unfold tomb_wf, v'. rewrite set_deleted_twice.
          destruct (v_deleted v) eqn:Ed.
          * exact (HT eq_refl).
          * replace (set_deleted v false) with v by (destruct v; cbn in *; subst; reflexivity). exact (HL eq_refl).
        + rewrite aget_aset_other by assumption. intros Hu. destruct (w_vmap _ _ W _ _ Hu) as (H1 & H2 & H3).
          split; [exact H1|]. split; [intros Hd; exact (H2 Hd)|intros Hd; exact (H3 Hd)].
      - intros u Hu. destruct (Hreach _ Hu) as (u0 & R0 & _ & I0). rewrite <- I0. apply (w_range _ _ W _ R0).
      - intros u1 u2 H1 H2 Hne. destruct (Hreach _ H1) as (p1 & R1 & A1 & I1), (Hreach _ H2) as (p2 & R2 & A2 & I2).
        rewrite <- I1, <- I2. apply (w_sep _ _ W); congruence.
      - intros b p. cbn. destruct (Z.eq_dec b a) as [->|Hne].
        + rewrite (aget_adel_same_nodup _ _ (w_tnodup _ _ W)). discriminate.
        + rewrite aget_adel_other by assumption. apply (w_tvals _ _ W).
      - intros b u. cbn. destruct (Z.eq_dec b a) as [->|Hne].
        + intros _ _ _ _. apply (aget_adel_same_nodup _ _ (w_tnodup _ _ W)).
        + rewrite aget_aset_other, aget_adel_other by assumption. intros Hu Hd N1 N2.
          apply (w_tomb _ _ W b u Hu Hd); [cbn; intros [E|E]; [congruence|auto]|exact N2].
      - intros b u. cbn [vmap vdirty vjournal w_vdirty hd w_stat w_vindex w_t_vals Model.w_vmap]. destruct (Z.eq_dec b a) as [->|Hne].
        + rewrite aget_aset_same. intros E; inversion E; subst u. congruence.
        + rewrite aget_aset_other by assumption. intros Hu Hd N1 N2.
          destruct (w_coh _ _ W b u Hu Hd) as (p & P1 & P2 & P3).
          * cbn. intros [E|E]; [congruence|auto].
          * exact N2.
          * exists p. cbn. rewrite aget_adel_other by assumption. auto.
      - cbn. rewrite Ej. intros b e H; discriminate.
      - rewrite cj_nil0 by (cbn; exact Ej). exact I.
      - intros b Hb. cbn in Hb. cbn [vmap w_vdirty hd w_stat w_vindex w_t_vals Model.w_vmap].
        assert (b <> a) by (intros ->; contradiction).
        rewrite aget_aset_other by assumption. apply (w_dirty _ _ W b). cbn. auto.
      - cbn. apply NoDup_aset, (w_nodup _ _ W).
      - cbn. apply (w_dsorted _ _ W).
      - cbn. apply NoDup_adel, (w_tnodup _ _ W). }
    destruct (v_deleted v) eqn:Hvd; cbn [orb].
    + (* already removed: deleteValidator without touching the statistics *)
      assert (Hxa : aget (xs c) a = None) by (rewrite Rxs; unfold xpeek; now rewrite Hv, Hvd).
      rewrite Hxa. intros Hrun.
      assert (W1 : wfv (w_vdirty hd r) 0).
      { replace hd with (w_stat hd (stat_ h)) by (unfold hd; destruct h; reflexivity).
        apply Wdel; [intros _; exact (Hvtomb eq_refl)|intros Hc; discriminate]. }
      assert (Hnidx : ~ In a (vindex h)).
      { rewrite <- Ridx, Hix. intros Hin. apply aget_keys in Hin. congruence. }
      destruct (IH hd c h' W1 Ej) as (W2 & R2 & S2); try assumption.
      * repeat split; cbn.
        -- intros b. unfold xpeek. cbn. destruct (Z.eq_dec b a) as [->|Hne].
           ++ rewrite aget_aset_same, Hv'd. exact Hxa.
           ++ rewrite aget_aset_other, aget_adel_other by assumption. apply Rxs.
        -- now rewrite (srem_absent _ _ Hnidx).
        -- exact Rst.
        -- exact Racc.
      * split; [exact W2|]. split; [exact R2|]. eapply same_other_trans; [|exact S2]. repeat split.
    + assert (Hxa : aget (xs c) a = Some (absv h v)) by (rewrite Rxs; now apply xpeek_live).
      rewrite Hxa. unfold absv at 1. rewrite is_invalid_norm.
      specialize (Hvlive eq_refl).
      destruct (is_invalid v) eqn:Einv.
      * (* deleteValidator *)
        cbn [stat_ vindex t_vals Model.w_vmap w_t_vals w_vindex].
        unfold v' at 1. rewrite decr_stat_set_deleted.
        destruct (decr_stat (stat_ h) v) as [st|] eqn:Est; [|discriminate].
        fold hd. intros Hrun.
        assert (W1 : wfv (w_vdirty (w_stat hd st) r) 0) by (apply Wdel; [intros Hc; discriminate|intros _; exact Hvlive]).
        match goal with |- _ /\ Rc _ (c_root_vals ?C _) /\ _ => destruct (IH (w_stat hd st) C h' W1 Ej) as (W2 & R2 & S2) end; [| | |exact Hrun|].
        -- unfold c_stat, c_index, c_xs. repeat split; cbn.
           ++ intros b. unfold xpeek. cbn. destruct (Z.eq_dec b a) as [->|Hne].
              ** rewrite aget_aset_same, Hv'd. apply (aget_adel_same _ _ Hs).
              ** rewrite aget_adel_other, aget_aset_other, aget_adel_other by assumption. apply Rxs.
           ++ now rewrite Ridx.
           ++ rewrite Rst. unfold a_decr. now rewrite decr_stat_norm, Est.
           ++ exact Racc.
        -- cbn. apply ssorted_adel, Hs.
        -- cbn. rewrite keys_adel, Hix. reflexivity.
        -- split; [exact W2|]. split; [exact R2|]. eapply same_other_trans; [|exact S2]. repeat split.
      * (* updateValidator *)
        destruct (val_neg v || dl_neg (view h v)); [discriminate|].
        set (h1 := index_add (w_t_vals h (aset (t_vals h) a (mkP v (view h v)))) a).
        intros Hrun.
        assert (W1 : wfv (w_vdirty h1 r) 0).
        { assert (Hreach : forall u, reachable (w_vdirty h1 r) 0 u -> reachable (w_vdirty h (a :: r)) 0 u).
          { intros u Hu. destruct (Hcj0 (w_vdirty h1 r) Ej u Hu) as (b & Hb). left. exists b. exact Hb. }
          constructor.
          - cbn. rewrite Ej. cbn. lia.
          - apply (w_vmap _ _ W).
          - intros u Hu. apply (w_range _ _ W _ (Hreach _ Hu)).
          - intros u1 u2 H1 H2. apply (w_sep _ _ W); auto.
          - intros b p. cbn. destruct (Z.eq_dec b a) as [->|Hne].
            + rewrite aget_aset_same. intros E; inversion E; subst p. cbn. split; [exact Hva|apply Hvlive].
            + rewrite aget_aset_other by assumption. apply (w_tvals _ _ W).
          - intros b u. cbn. intros Hu Hd N1 N2. destruct (Z.eq_dec b a) as [->|Hne]; [congruence|].
            rewrite aget_aset_other by assumption.
            apply (w_tomb _ _ W _ _ Hu Hd); [cbn; intros [E|E]; [congruence|auto]|exact N2].
          - intros b u. cbn [vmap vdirty vjournal w_vdirty h1 index_add w_vindex w_t_vals]. intros Hu Hd N1 N2.
            destruct (Z.eq_dec b a) as [->|Hne].
            + assert (u = v) by congruence. subst u. exists (mkP v (view h v)). cbn.
              rewrite aget_aset_same. repeat split.
            + destruct (w_coh _ _ W b u Hu Hd) as (p & P1 & P2 & P3).
              * cbn. intros [E|E]; [congruence|auto].
              * exact N2.
              * exists p. cbn. rewrite aget_aset_other by assumption. auto.
          - cbn. rewrite Ej. intros b e H; discriminate.
          - rewrite cj_nil0 by (cbn; exact Ej). exact I.
          - intros b Hb. cbn in Hb. apply (w_dirty _ _ W b). cbn. auto.
          - apply (w_nodup _ _ W).
          - cbn. apply (w_dsorted _ _ W).
          - cbn. apply NoDup_aset, (w_tnodup _ _ W). }
        match goal with |- _ /\ Rc _ (c_root_vals ?C _) /\ _ => destruct (IH h1 C h' W1 Ej) as (W2 & R2 & S2) end; [| | |exact Hrun|].
        -- unfold c_index. repeat split; cbn.
           ++ intros b. rewrite Rxs. unfold xpeek. cbn.
              destruct (aget (vmap h) b) as [u|] eqn:Eu; [reflexivity|].
              assert (b <> a) by congruence. now rewrite aget_aset_other.
           ++ now rewrite Ridx.
           ++ exact Rst.
           ++ exact Racc.
        -- exact Hs.
        -- cbn. rewrite Hix. apply sins_present; [apply ssorted_keys, Hs|]. apply aget_keys. congruence.
        -- split; [exact W2|]. split; [exact R2|]. eapply same_other_trans; [|exact S2]. repeat split.
Qed.

Lemma w_vdirty_eta h : w_vdirty h (vdirty h) = h.
Proof. destruct h; reflexivity. Qed.

Lemma root_spec h t x h' :
  wf h t -> R h t x -> J x -> intermediate_root h = Some h' ->
  wf h' 0 /\ R h' 0 (a_root x) /\ t_index h' = Some (vindex h') /\
  (stat_neg (stat_ h') = false -> t_stat h' = stat_ h') /\ blobs h' = blobs h /\ accts h' = accts h /\
  adirty h' = finalise_adirty h.
Proof.
  intros W Rx HJ. unfold intermediate_root.
  destruct (sim_finalise h t x (finalise h) W Rx eq_refl) as ([W0 WA0] & R0).
  set (s0 := finalise h) in *. cbn [a_step] in R0.
  destruct (acct_neg s0); [discriminate|].
  destruct (root_vals s0 (vdirty s0)) as [s1|] eqn:Erv; [|discriminate].
  assert (Ej0 : vjournal s0 = []) by reflexivity.
  assert (HRc : Rc s0 (core (a_finalise x))).
  { split; [apply R0|]. split; [apply R0|]. split; apply R0. }
  assert (W0' : wfv (w_vdirty s0 (vdirty s0)) 0) by (rewrite w_vdirty_eta; exact W0).
  assert (Hix0 : xindex (core (a_finalise x)) = map fst (xs (core (a_finalise x)))).
  { destruct HJ as (([_ _ _ Hix] & _) & _). exact Hix. }
  destruct (root_vals_sim _ _ _ _ W0' Ej0 HRc (J_sorted _ HJ) Hix0 Erv) as (W1 & (Rxs & Ridx & Rst & Racc) & S1).
  destruct S1 as (Ea & Ejj & Ed & Eac & Eaj & Erev & Enx & Eti & Ets & Ebl & Ead).
  set (s2 := w_t_index (w_vdirty s1 []) (Some (vindex s1))).
  intros H.
  assert (Hfields : arrs h' = arrs s1 /\ vmap h' = vmap s1 /\ vdirty h' = [] /\ vjournal h' = vjournal s1 /\
                    t_vals h' = t_vals s1 /\ accts h' = accts s1 /\ ajournal h' = ajournal s1 /\ blobs h' = blobs s1 /\
                    vindex h' = vindex s1 /\ stat_ h' = stat_ s1 /\ revs h' = revs s1 /\ next_id h' = next_id s1 /\
                    t_index h' = Some (vindex s1) /\ (stat_neg (stat_ s1) = false -> t_stat h' = stat_ s1) /\
                    adirty h' = adirty s1).
  { destruct (stat_neg (stat_ s2)) eqn:En; inversion H; subst h'; cbn; repeat split; try discriminate.
    cbn in En. congruence. }
  destruct Hfields as (F1 & F2 & F3 & F4 & F5 & F6 & F7 & F8 & F9 & F10 & F11 & F12 & F13 & F14 & F15).
  split; [split|split; [|split; [|split; [|split; [|split]]]]].
  - apply (wfv_frame (w_vdirty s1 [])); auto.
  - apply (wfa_frame s0); [congruence|congruence|congruence|congruence|exact WA0].
  - unfold a_root. constructor; cbn [core xdirty xvj xaj xrevs xnext].
    + intros a. rewrite (r_dirty _ _ _ R0), Rxs. symmetry. apply xpeek_frame; auto.
    + rewrite (r_dirty _ _ _ R0), Ridx. auto.
    + rewrite (r_dirty _ _ _ R0), Rst. auto.
    + intros d. rewrite (r_dirty _ _ _ R0), Racc. now rewrite F6.
    + now rewrite F3.
    + rewrite F7, Eaj. reflexivity.
    + rewrite F11, Erev. reflexivity.
    + rewrite F12, Enx. apply R0.
    + rewrite F4, Ejj. reflexivity.
    + rewrite F4, Ejj. reflexivity.
    + rewrite (cj_nil0 h') by (rewrite F4, Ejj; reflexivity). now destruct (length (vjournal h') - 0)%nat.
  - now rewrite F13, F9.
  - rewrite F10. exact F14.
  - rewrite F8, Ebl. reflexivity.
  - rewrite F6, Eac. reflexivity.
  - rewrite F15, Ead. reflexivity.
Qed.

Lemma sim_root h t x h' :
  wf h t -> R h t x -> J x -> step h ORoot = Some h' -> wf h' 0 /\ R h' 0 (a_step x ORoot).
Proof.
  intros W Rx HJ H. destruct (root_spec h t x h' W Rx HJ H) as (A & B & _). auto.
Qed.

(* ---- journals: undoing one entry ------------------------------------------------------ *)

Definition Rj (h : state) (t : nat) (c : acore) (jv : list xentry) : Prop :=
  Rc h c /\ length jv = length (vjournal h) /\ map xentry_addr jv = map ventry_addr (vjournal h) /\
  firstn (length (vjournal h) - t) jv = map (abs_entry h) (cj h t).

Lemma R_Rj h t x : R h t x -> Rj h t (core x) (xvj x).
Proof. intros Rx. split; [split; [apply Rx|split; [apply Rx|split; apply Rx]]|]. split; [apply Rx|split; apply Rx]. Qed.

Lemma Rj_R h t x : Rj h t (core x) (xvj x) -> xdirty x = vdirty h -> xaj x = ajournal h -> xrevs x = revs h ->
  xnext x = next_id h -> R h t x.
Proof.
  intros ((A & B & C & D) & E & F & G) H1 H2 H3 H4. constructor; assumption.
Qed.

(* account journal *)
Lemma aundo1_sim h t c jv e r :
  wf h t -> Rj h t c jv -> ssorted (xaccts c) -> ajournal h = e :: r ->
  let h1 := aundo1 (w_ajournal h r) e in
  wf h1 t /\ Rj h1 t (c_aundo1 c e) jv /\ ssorted (xaccts (c_aundo1 c e)) /\
  ajournal h1 = r /\ vjournal h1 = vjournal h /\ revs h1 = revs h /\ next_id h1 = next_id h /\ vdirty h1 = vdirty h.
Proof.
  intros [W WA] ((Rxs & Ridx & Rst & Racc) & RJ) Hs Ej. cbn zeta.
  set (h0 := w_ajournal h r).
  assert (WA0 : forall e', In e' r -> In e' (ajournal h)) by (intros; rewrite Ej; cbn; auto).
  destruct WA as [A B C D E F G Hsd]. rewrite Ej in D. destruct D as [Dhd Dtl]. rewrite Ej in G. destruct G as [Ghd Gtl].
  assert (Hrest : forall hx, arrs hx = arrs h -> vmap hx = vmap h -> vdirty hx = vdirty h -> vjournal hx = vjournal h ->
                  t_vals hx = t_vals h -> vindex hx = vindex h -> stat_ hx = stat_ h ->
                  (forall d, aget (xaccts (c_aundo1 c e)) d = option_map ess (aget (accts hx) d)) ->
                  Rj hx t (c_aundo1 c e) jv).
  { intros hx Ea Em Ed Evj Et Ei Est Hacc. destruct RJ as (J1 & J2 & J3).
    assert (Hcj : cj hx t = cj h t) by (unfold cj; now rewrite Evj).
    split; [split; [|split; [|split]]|].
    - intros a. rewrite c_aundo1_l. cbn. rewrite Rxs. symmetry. apply xpeek_frame; assumption.
    - rewrite c_aundo1_l. cbn. congruence.
    - rewrite c_aundo1_l. cbn. congruence.
    - exact Hacc.
    - rewrite Evj, Hcj. split; [exact J1|]. split; [exact J2|]. rewrite J3. symmetry. now apply map_abs_entry_eq. }
  destruct e as [d|d|d prev|d prev]; cbn [aundo1].
  - (* JCreate *)
    set (h1 := w_accts h0 (adel (accts h0) d)).
    split; [split|split; [|split; [|repeat split]]].
    + apply (wfv_frame h); auto.
    + constructor; cbn.
      * intros d' ac. destruct (Z.eq_dec d' d) as [->|Hne].
        -- rewrite (aget_adel_same_nodup _ _ E). discriminate.
        -- rewrite aget_adel_other by assumption. apply A.
      * intros d' prev Hin. destruct (B _ _ (WA0 _ Hin)) as (ac & Hac & Hdd).
        assert (d' <> d). { intros ->. apply Dhd. apply in_map_iff. exists (JDlgs d prev). auto. }
        exists ac. rewrite aget_adel_other by assumption. auto.
      * intros e' Hin. assert (aentry_addr e' <> d). { intros Heq. apply Dhd. apply in_map_iff. exists e'. auto. }
        rewrite aget_adel_other by assumption. exact (C _ (WA0 _ Hin)).
      * exact Dtl.
      * apply NoDup_adel, E.
      * intros d' ac'. destruct (Z.eq_dec d' d) as [->|Hne].
        -- rewrite (aget_adel_same_nodup _ _ E). discriminate.
        -- rewrite aget_adel_other by assumption. intros Hac Hnd Hnj. apply (F d' ac' Hac Hnd).
           intros prev. rewrite Ej. intros [Hc|Hc]; [discriminate|exact (Hnj prev Hc)].
      * eapply ajbase_frame; [| |exact Gtl]; reflexivity.
      * exact Hsd.
    + apply Hrest; auto. intros d'. cbn. destruct (Z.eq_dec d' d) as [->|Hne].
      * rewrite (aget_adel_same _ _ Hs), (aget_adel_same_nodup _ _ E). reflexivity.
      * rewrite !aget_adel_other by assumption. apply Racc.
    + cbn. apply ssorted_adel, Hs.
  - (* JBal *)
    split; [split|split; [|split; [|repeat split]]].
    + apply (wfv_frame h); auto.
    + constructor; cbn.
      * exact A.
      * intros d' prev Hin. exact (B _ _ (WA0 _ Hin)).
      * intros e' Hin. exact (C _ (WA0 _ Hin)).
      * exact Dtl.
      * exact E.
      * intros d' ac' Hac Hnd Hnj. apply (F d' ac' Hac Hnd).
        intros prev. rewrite Ej. intros [Hc|Hc]; [discriminate|exact (Hnj prev Hc)].
      * eapply ajbase_frame; [| |exact Gtl]; reflexivity.
      * exact Hsd.
    + apply Hrest; auto.
    + exact Hs.
  - (* JDlgBal *)
    assert (Hd : aget (accts h) d <> None) by (apply (C (JDlgBal d prev)); rewrite Ej; cbn; auto).
    destruct (aget (accts h) d) as [ac|] eqn:Ed; [|congruence]. cbn [accts h0 w_ajournal]. rewrite Ed.
    set (ac1 := mkA prev (a_hash ac) (a_loaded ac) (a_ddirty ac)).
    assert (HA : aget (xaccts c) d = Some (ess ac)) by (rewrite Racc, Ed; reflexivity).
    split; [split|split; [|split; [|repeat split]]].
    + apply (wfv_frame h); auto.
    + constructor; cbn.
      * intros d' ac'. destruct (Z.eq_dec d' d) as [->|Hne].
        -- rewrite aget_aset_same. intros H; inversion H; subst ac'. apply (A _ _ Ed).
        -- rewrite aget_aset_other by assumption. apply A.
      * intros d' prev' Hin. destruct (B _ _ (WA0 _ Hin)) as (ac' & Hac & Hdd).
        destruct (Z.eq_dec d' d) as [->|Hne].
        -- exists ac1. rewrite aget_aset_same. split; [reflexivity|]. cbn. congruence.
        -- exists ac'. rewrite aget_aset_other by assumption. auto.
      * intros e' Hin. destruct (Z.eq_dec (aentry_addr e') d) as [->|Hne].
        -- rewrite aget_aset_same. discriminate.
        -- rewrite aget_aset_other by assumption. exact (C _ (WA0 _ Hin)).
      * exact Dtl.
      * apply NoDup_aset, E.
      * intros d' ac'. destruct (Z.eq_dec d' d) as [->|Hne].
        -- rewrite aget_aset_same. intros Hq; inversion Hq; subst ac'. intros Hnd Hnj.
           assert (Hb : blob_ok h ac = true).
           { apply (F d ac Ed Hnd). intros p. rewrite Ej. intros [Hc|Hc]; [discriminate|exact (Hnj p Hc)]. }
           exact Hb.
        -- rewrite aget_aset_other by assumption. intros Hac Hnd Hnj. apply (F d' ac' Hac Hnd).
           intros p. rewrite Ej. intros [Hc|Hc]; [discriminate|exact (Hnj p Hc)].
      * eapply ajbase_frame; [| |exact Gtl]; reflexivity.
      * exact Hsd.
    + apply Hrest; auto. intros d'. cbn [c_aundo1]. rewrite HA. cbn [ess]. unfold c_accts; cbn [xaccts accts w_accts].
      destruct (Z.eq_dec d' d) as [->|Hne].
      * now rewrite aget_sset_same, aget_aset_same.
      * rewrite aget_sset_other, aget_aset_other by assumption. apply Racc.
    + cbn [c_aundo1]. rewrite HA. cbn. apply ssorted_sset, Hs.
  - (* JDlgs *)
    assert (Hd : aget (accts h) d <> None) by (apply (C (JDlgs d prev)); rewrite Ej; cbn; auto).
    destruct (aget (accts h) d) as [ac|] eqn:Ed; [|congruence]. cbn [accts h0 w_ajournal]. rewrite Ed.
    set (ac1 := mkA (a_dbal ac) prev true (a_ddirty ac)).
    assert (HA : aget (xaccts c) d = Some (ess ac)) by (rewrite Racc, Ed; reflexivity).
    assert (Hdd : a_ddirty ac = true).
    { destruct (B d prev) as (ac' & Hac & Hdd); [rewrite Ej; cbn; auto|]. congruence. }
    split; [split|split; [|split; [|repeat split]]].
    + apply (wfv_frame h); auto.
    + constructor; cbn.
      * intros d' ac'. destruct (Z.eq_dec d' d) as [->|Hne].
        -- rewrite aget_aset_same. intros H; inversion H; subst ac'. cbn. split; [auto|]. rewrite Hdd. discriminate.
        -- rewrite aget_aset_other by assumption. apply A.
      * intros d' prev' Hin. destruct (B _ _ (WA0 _ Hin)) as (ac' & Hac & Hdd').
        destruct (Z.eq_dec d' d) as [->|Hne].
        -- exists ac1. rewrite aget_aset_same. split; [reflexivity|]. exact Hdd.
        -- exists ac'. rewrite aget_aset_other by assumption. auto.
      * intros e' Hin. destruct (Z.eq_dec (aentry_addr e') d) as [->|Hne].
        -- rewrite aget_aset_same. discriminate.
        -- rewrite aget_aset_other by assumption. exact (C _ (WA0 _ Hin)).
      * exact Dtl.
      * apply NoDup_aset, E.
      * intros d' ac'. destruct (Z.eq_dec d' d) as [->|Hne].
        -- rewrite aget_aset_same. intros Hq; inversion Hq; subst ac'. intros Hnd Hnj.
           rewrite blob_ok_bok. cbn [a_hash ac1 blobs w_accts h0 w_ajournal]. apply Ghd; assumption.
        -- rewrite aget_aset_other by assumption. intros Hac Hnd Hnj. apply (F d' ac' Hac Hnd).
           intros p. rewrite Ej. intros [Hc|Hc]; [inversion Hc; congruence|exact (Hnj p Hc)].
      * eapply ajbase_frame; [| |exact Gtl]; reflexivity.
      * exact Hsd.
    + apply Hrest; auto. intros d'. cbn [c_aundo1]. rewrite HA. cbn [ess]. unfold c_accts; cbn [xaccts accts w_accts].
      destruct (Z.eq_dec d' d) as [->|Hne].
      * now rewrite aget_sset_same, aget_aset_same.
      * rewrite aget_sset_other, aget_aset_other by assumption. apply Racc.
    + cbn [c_aundo1]. rewrite HA. cbn. apply ssorted_sset, Hs.
Qed.

(* validator journal *)
Lemma stake_equal_sym a b : stake_equal a b = stake_equal b a.
Proof. unfold stake_equal. rewrite (Z.eqb_sym (v_role a)), (Z.eqb_sym (v_stake a)), (Z.eqb_sym (v_token a)), (Z.eqb_sym (v_status a)). reflexivity. Qed.

Lemma cj_pop h e r t : vjournal h = e :: r -> (t < length (vjournal h))%nat ->
  cj h t = e :: firstn (length r - t) r /\ tj h t = skipn (length r - t) r.
Proof.
  intros E Ht. unfold cj, tj. rewrite E in *. cbn [length] in *.
  replace (S (length r) - t)%nat with (S (length r - t)) by lia. cbn. auto.
Qed.

(* undoing an update or a removal puts the journalled old record back *)
Lemma vundo_restore h t c jv' a old e0 r h1 :
  wfv h t -> wfa h -> Rc h c ->
  vjournal h = e0 :: r -> ventry_addr e0 = a -> (t <= length r)%nat ->
  length jv' = length r -> map xentry_addr jv' = map ventry_addr r ->
  firstn (length r - t) jv' = map (abs_entry h) (firstn (length r - t) r) ->
  val_wf h a old -> not_del_first r a ->
  (~ In a (map ventry_addr r) -> ~ In a (vdirty h) -> coherent h a old) ->
  jwf h (firstn (length r - t) r) (skipn (length r - t) r) ->
  reachable h t old ->
  arrs h1 = arrs h -> vmap h1 = aset (vmap h) a old -> vindex h1 = sins a (vindex h) -> vjournal h1 = r ->
  vdirty h1 = vdirty h -> t_vals h1 = t_vals h -> accts h1 = accts h -> ajournal h1 = ajournal h ->
  blobs h1 = blobs h -> adirty h1 = adirty h ->
  wf h1 t /\ Rj h1 t (c_stat (c_set_validator c a (absv h old)) (stat_ h1)) jv'.
Proof.
  intros W WA (Rxs & Ridx & Rst & Racc) Ej Hea Htr J1 J2 Hrest Howf Hndf Hcoh Hjtl Hold_r
         Earr Evm Eidx Evj Edirty Etv Eacc Eaj Ebl Ead.
  set (k := (length r - t)%nat) in *.
  assert (Hoa : v_addr old = a) by apply Howf.
  assert (Hod : v_deleted old = false) by apply Howf.
  assert (Hcj1 : cj h1 t = firstn k r /\ tj h1 t = skipn k r) by (unfold cj, tj; rewrite Evj; auto).
  destruct Hcj1 as [Ecj1 Etj1].
  assert (Hcjh : cj h t = e0 :: firstn k r).
  { unfold cj. rewrite Ej. cbn [length]. replace (S (length r) - t)%nat with (S k) by (unfold k; lia). reflexivity. }
  assert (Hreach : forall u, reachable h1 t u -> reachable h t u).
  { intros u [[b Hb]|Hin].
    - rewrite Evm in Hb. destruct (Z.eq_dec b a) as [->|Hne].
      + rewrite aget_aset_same in Hb. inversion Hb; subst u. exact Hold_r.
      + rewrite aget_aset_other in Hb by assumption. left; eauto.
    - right. rewrite Hcjh. cbn. apply in_or_app. right. rewrite Ecj1 in Hin. exact Hin. }
  assert (Hle : heap_le h h1) by (apply heap_le_eq, Earr).
  split; [split|].
  - constructor.
    + rewrite Evj. exact Htr.
    + intros b u. rewrite Evm. destruct (Z.eq_dec b a) as [->|Hne].
      * rewrite aget_aset_same. intros E; inversion E; subst u. split; [exact Hoa|].
        split; [intros _; eapply val_wf_eq; eauto|intros Hd; congruence].
      * rewrite aget_aset_other by assumption. intros Hb. destruct (w_vmap _ _ W _ _ Hb) as (H1 & H2 & H3).
        split; [exact H1|]. split; [intros Hd; eapply val_wf_eq; eauto|intros Hd; unfold tomb_wf; eapply val_wf_eq; [eauto|exact (H3 Hd)]].
    + intros u Hr. rewrite Earr. apply (w_range _ _ W _ (Hreach _ Hr)).
    + intros u1 u2 H1 H2. apply (w_sep _ _ W); auto.
    + rewrite Etv. apply (w_tvals _ _ W).
    + intros b u. rewrite Evm, Etv, Edirty, Evj. destruct (Z.eq_dec b a) as [->|Hne].
      * rewrite aget_aset_same. intros E; inversion E; subst u. congruence.
      * rewrite aget_aset_other by assumption. intros Hb Hd N1 N2. apply (w_tomb _ _ W b u Hb Hd N1).
        rewrite Ej. cbn. intros [E|E]; [congruence|auto].
    + intros b u. rewrite Evm, Edirty, Evj. destruct (Z.eq_dec b a) as [->|Hne].
      * rewrite aget_aset_same. intros E; inversion E; subst u. intros _ N1 N2.
        eapply coherent_le; eauto. apply (w_range _ _ W _ Hold_r).
      * rewrite aget_aset_other by assumption. intros Hb Hd N1 N2.
        eapply coherent_le; eauto. apply (w_range _ _ W). left; eauto.
        apply (w_coh _ _ W b u Hb Hd N1). rewrite Ej. cbn. intros [E|E]; [congruence|auto].
    + intros b e' He. rewrite Evj in He. rewrite Evm. destruct (Z.eq_dec b a) as [->|Hne].
      * rewrite aget_aset_same. exists old. split; [reflexivity|]. unfold not_del_first in Hndf. rewrite He in Hndf. congruence.
      * rewrite aget_aset_other by assumption. apply (w_jlive _ _ W). rewrite Ej. cbn.
        destruct (Z.eqb_spec (ventry_addr e0) b); [congruence|exact He].
    + rewrite Ecj1, Etj1. eapply jwf_le; eauto.
    + intros b. rewrite Edirty, Evm. intros Hb. destruct (Z.eq_dec b a) as [->|Hne].
      * rewrite aget_aset_same. discriminate.
      * rewrite aget_aset_other by assumption. apply (w_dirty _ _ W b Hb).
    + rewrite Evm. apply NoDup_aset, (w_nodup _ _ W).
    + rewrite Edirty. apply (w_dsorted _ _ W).
    + rewrite Etv. apply (w_tnodup _ _ W).
  - apply (wfa_frame h); auto.
  - unfold c_set_validator, c_index, c_xs, c_stat.
    split; [split; [|split; [|split]]|split; [|split]]; cbn [xs xindex xstat xaccts].
    + intros b. unfold xpeek. rewrite Evm, Etv. destruct (Z.eq_dec b a) as [->|Hne].
      * rewrite aget_sset_same, aget_aset_same, Hod. now rewrite (absv_eq h h1).
      * rewrite aget_sset_other, aget_aset_other by assumption. rewrite Rxs. unfold xpeek.
        destruct (aget (vmap h) b) as [u|]; [|reflexivity]. destruct (v_deleted u); [reflexivity|].
        now rewrite (absv_eq h h1).
    + now rewrite Eidx, Ridx.
    + reflexivity.
    + intros d. rewrite Eacc. apply Racc.
    + rewrite Evj. exact J1.
    + rewrite Evj. exact J2.
    + rewrite Ecj1, Evj. fold k. rewrite Hrest. symmetry. now apply map_abs_entry_eq.
Qed.

Lemma vundo1_sim h t c jv e r h1 :
  wf h t -> Rj h t c jv -> ssorted (xs c) -> vjournal h = e :: r -> (t < length (vjournal h))%nat ->
  vundo1 (w_vjournal h r) e = Some h1 ->
  exists ex jv', jv = ex :: jv' /\ wf h1 t /\ Rj h1 t (c_vundo1 c ex) jv' /\ ssorted (xs (c_vundo1 c ex)) /\
    vjournal h1 = r /\ ajournal h1 = ajournal h /\ revs h1 = revs h /\ next_id h1 = next_id h /\
    vdirty h1 = vdirty h /\ arrs h1 = arrs h.
Proof.
  intros [W WA] ((Rxs & Ridx & Rst & Racc) & J1 & J2 & J3) Hs Ej Ht Hu.
  destruct (cj_pop h e r t Ej Ht) as [Ecj Etj].
  assert (Htr : (t <= length r)%nat) by (rewrite Ej in Ht; cbn in Ht; lia).
  set (k := (length r - t)%nat) in *.
  assert (Hlen : (length (vjournal h) - t)%nat = S k) by (rewrite Ej in Ht |- *; cbn [length] in *; unfold k; lia).
  destruct jv as [|ex jv']; [rewrite Ej in J1; discriminate|].
  rewrite Hlen, Ecj in J3. cbn [firstn map] in J3. inversion J3 as [[Hex Hrest]]. clear J3.
  rewrite Ej in J1, J2. cbn in J1, J2. inversion J1 as [J1']. inversion J2 as [[J2a J2b]].
  subst ex. exists (abs_entry h e), jv'. split; [reflexivity|].
  pose proof (w_jwf _ _ W) as Hjwf. rewrite Ecj, Etj in Hjwf. cbn [jwf] in Hjwf. destruct Hjwf as [Hek Hjtl].
  rewrite firstn_skipn in Hek.
  set (h0 := w_vjournal h r) in *.
  assert (Hcj0 : forall hx, vjournal hx = r -> cj hx t = firstn k r /\ tj hx t = skipn k r)
    by (intros hx E; unfold cj, tj; rewrite E; auto).
  assert (Hreach0 : forall hx u, vjournal hx = r -> reachable hx t u ->
            (exists b, aget (vmap hx) b = Some u) \/ In u (flat_map entry_vals (firstn k r))).
  { intros hx u E [H|H]; [left; exact H|right]. destruct (Hcj0 hx E) as [-> _] in H. exact H. }
  assert (Hjr : forall u, In u (flat_map entry_vals (firstn k r)) -> reachable h t u).
  { intros u Hu'. right. rewrite Ecj. cbn. apply in_or_app. auto. }
  assert (Hhead : forall u, In u (entry_vals e) -> reachable h t u).
  { intros u Hu'. right. rewrite Ecj. cbn. apply in_or_app. auto. }
  (* the newest entry decides whether the address is live *)
  assert (Hjl : exists v, aget (vmap h) (ventry_addr e) = Some v /\ v_deleted v = is_del e).
  { apply (w_jlive _ _ W). rewrite Ej. cbn. now rewrite Z.eqb_refl. }
  assert (Hjl_other : forall b e', b <> ventry_addr e -> jfirst r b = Some e' ->
            exists v, aget (vmap h) b = Some v /\ v_deleted v = is_del e').
  { intros b e' Hne Hf. apply (w_jlive _ _ W). rewrite Ej. cbn. destruct (Z.eqb_spec (ventry_addr e) b); [congruence|exact Hf]. }
  destruct e as [a prev idx|a nw old|a old]; cbn [vundo1] in Hu; cbn [ventry_addr is_del] in *.
  - (* VCreate *)
    destruct Hek as (-> & Hprev).
    destruct Hjl as (v & Hv & Hvd).
    cbn [vmap h0 w_vjournal] in Hu. rewrite Hv in Hu. cbn [stat_ h0 w_vjournal] in Hu.
    destruct (decr_stat (stat_ h) v) as [st|] eqn:Est; [|discriminate]. inversion Hu; subst h1; clear Hu.
    set (m := match prev with Some p => aset (vmap h) a p | None => adel (vmap h) a end).
    set (h1 := w_vindex (Model.w_vmap (w_stat h0 st) m) (srem a (vindex h))).
    assert (Hxa : aget (xs c) a = Some (absv h v)) by (rewrite Rxs; now apply xpeek_live).
    assert (Hm_other : forall b, b <> a -> aget m b = aget (vmap h) b).
    { intros b Hne. unfold m. destruct prev; [apply aget_aset_other|apply aget_adel_other]; assumption. }
    assert (Hm_a : aget m a = prev).
    { unfold m. destruct prev; [apply aget_aset_same|apply (aget_adel_same_nodup _ _ (w_nodup _ _ W))]. }
    assert (Hreach : forall u, reachable h1 t u -> reachable h t u).
    { intros u Hr. destruct (Hreach0 h1 u eq_refl Hr) as [[b Hb]|Hin]; [|auto].
      cbn [vmap h1 w_vindex Model.w_vmap] in Hb. destruct (Z.eq_dec b a) as [->|Hne].
      - rewrite Hm_a in Hb. apply Hhead. rewrite Hb. cbn. auto.
      - rewrite Hm_other in Hb by assumption. left; eauto. }
    split; [split|split; [|split; [|repeat split]]].
    + constructor.
      * cbn. exact Htr.
      * intros b u. cbn [vmap h1 w_vindex Model.w_vmap]. destruct (Z.eq_dec b a) as [->|Hne].
        -- rewrite Hm_a. intros Hp. rewrite Hp in Hprev. destruct Hprev as (P1 & P2 & P3 & P4).
           split; [apply P2|]. split; [intros Hd; congruence|]. intros _. unfold tomb_wf. eapply val_wf_eq; [|exact P2]. reflexivity.
        -- rewrite Hm_other by assumption. intros Hb. destruct (w_vmap _ _ W _ _ Hb) as (H1 & H2 & H3).
           split; [exact H1|]. split; [intros Hd; eapply val_wf_eq; [|exact (H2 Hd)]; reflexivity|].
           intros Hd. unfold tomb_wf. eapply val_wf_eq; [|exact (H3 Hd)]. reflexivity.
      * intros u Hr. apply (w_range _ _ W _ (Hreach _ Hr)).
      * intros u1 u2 H1 H2. apply (w_sep _ _ W); auto.
      * apply (w_tvals _ _ W).
      * intros b u. cbn [vmap vdirty vjournal t_vals h1 w_vindex Model.w_vmap w_stat h0 w_vjournal]. destruct (Z.eq_dec b a) as [->|Hne].
        -- rewrite Hm_a. intros Hp. rewrite Hp in Hprev. destruct Hprev as (P1 & P2 & P3 & P4). intros _ N1 N2. apply P4; assumption.
        -- rewrite Hm_other by assumption. intros Hb Hd N1 N2. apply (w_tomb _ _ W b u Hb Hd N1).
           rewrite Ej. cbn. intros [E|E]; [congruence|auto].
      * intros b u. cbn [vmap vdirty vjournal t_vals h1 w_vindex Model.w_vmap w_stat h0 w_vjournal]. destruct (Z.eq_dec b a) as [->|Hne].
        -- rewrite Hm_a. intros Hp. rewrite Hp in Hprev. destruct Hprev as (P1 & _). congruence.
        -- rewrite Hm_other by assumption. intros Hb Hd N1 N2.
           apply (w_coh _ _ W b u Hb Hd N1). rewrite Ej. cbn. intros [E|E]; [congruence|auto].
      * intros b e' He. cbn [vjournal h1 w_vindex Model.w_vmap w_stat h0 w_vjournal] in He. cbn [vmap h1 w_vindex Model.w_vmap].
        destruct (Z.eq_dec b a) as [->|Hne].
        -- rewrite Hm_a. destruct prev as [p|].
           ++ destruct Hprev as (P1 & P2 & P3 & P4). rewrite He in P3. exists p. split; [reflexivity|congruence].
           ++ destruct Hprev as (P1 & _). congruence.
        -- rewrite Hm_other by assumption. apply (Hjl_other b e' Hne He).
      * destruct (Hcj0 h1 eq_refl) as [-> ->]. eapply jwf_le; [apply heap_le_eq| | |exact Hjtl]; reflexivity.
      * intros b Hb. cbn in Hb. cbn [vmap h1 w_vindex Model.w_vmap]. destruct (Z.eq_dec b a) as [->|Hne].
        -- rewrite Hm_a. destruct prev as [p|]; [discriminate|]. destruct Hprev as (_ & P2 & _). contradiction.
        -- rewrite Hm_other by assumption. apply (w_dirty _ _ W b Hb).
      * cbn [vmap h1 w_vindex Model.w_vmap]. unfold m. destruct prev; [apply NoDup_aset|apply NoDup_adel]; apply (w_nodup _ _ W).
      * apply (w_dsorted _ _ W).
      * apply (w_tnodup _ _ W).
    + apply (wfa_frame h); auto.
    + cbn [abs_entry c_vundo1]. rewrite Hxa. unfold absv at 1. unfold c_index, c_xs, c_stat.
      split; [split; [|split; [|split]]|split; [|split]]; cbn [xs xindex xstat xaccts].
      * intros b. unfold xpeek. cbn [vmap t_vals h1 w_vindex Model.w_vmap w_stat h0 w_vjournal]. destruct (Z.eq_dec b a) as [->|Hne].
        -- rewrite (aget_adel_same _ _ Hs), Hm_a. destruct prev as [p|].
           ++ destruct Hprev as (P1 & _). now rewrite P1.
           ++ destruct Hprev as (_ & _ & P3). now rewrite P3.
        -- rewrite aget_adel_other, Hm_other by assumption. rewrite Rxs. unfold xpeek.
           destruct (aget (vmap h) b) as [u|]; [|reflexivity]. destruct (v_deleted u); reflexivity.
      * now rewrite Ridx.
      * rewrite Rst. unfold a_decr. now rewrite decr_stat_norm, Est.
      * exact Racc.
      * exact J1'.
      * exact J2b.
      * destruct (Hcj0 h1 eq_refl) as [-> _]. cbn [vjournal h1 w_vindex Model.w_vmap w_stat h0 w_vjournal].
        fold k. rewrite Hrest. apply map_abs_entry_eq. reflexivity.
    + cbn [abs_entry c_vundo1]. rewrite Hxa. unfold absv at 1. cbn. apply ssorted_adel, Hs.
  - (* VUpdate *)
    destruct Hek as (Hnwf & Howf & Hndf & Hcoh).
    set (s1 := set_validator h0 old) in *.
    assert (Hoa : v_addr old = a) by apply Howf.
    (* the record taken out of the statistics is the stored one *)
    assert (Hcur : exists cv, aget (vmap h) a = Some cv /\ v_deleted cv = false).
    { assert (Hf : jfirst (vjournal h) a = Some (VUpdate a nw old))
        by (rewrite Ej; cbn [jfirst ventry_addr]; now rewrite Z.eqb_refl).
      destruct (w_jlive _ _ W _ _ Hf) as (cv & Hv & Hvd). exists cv. split; [exact Hv|exact Hvd]. }
    destruct Hcur as (cv & Hcv & Hcvd).
    change (aget (vmap h0) a) with (aget (vmap h) a) in Hu. rewrite Hcv in Hu.
    assert (Hfields : arrs h1 = arrs h /\ vmap h1 = aset (vmap h) a old /\ vindex h1 = sins a (vindex h) /\
              vjournal h1 = r /\ vdirty h1 = vdirty h /\ t_vals h1 = t_vals h /\ accts h1 = accts h /\
              ajournal h1 = ajournal h /\ blobs h1 = blobs h /\ revs h1 = revs h /\ next_id h1 = next_id h /\
              adirty h1 = adirty h /\
              a_adjust (stat_ h) (norm old) (norm cv) = stat_ h1).
    { unfold with_stat in Hu. rewrite stake_equal_sym in Hu.
      assert (Hadj : (if stake_equal old cv then Some (stat_ h)
                      else match decr_stat (stat_ h) cv with None => None | Some st1 => incr_stat st1 old end) = Some (stat_ h1)).
      { destruct (stake_equal old cv); [inversion Hu; reflexivity|].
        change (stat_ s1) with (stat_ h) in Hu. destruct (decr_stat (stat_ h) cv) as [st1|]; [|discriminate].
        destruct (incr_stat st1 old); [|discriminate]. inversion Hu; reflexivity. }
      apply adjust_sim in Hadj.
      destruct (stake_equal old cv).
      - inversion Hu; subst h1. unfold s1, set_validator, index_add; cbn. rewrite Hoa. repeat split. exact Hadj.
      - change (stat_ s1) with (stat_ h) in Hu. destruct (decr_stat (stat_ h) cv) as [st1|]; [|discriminate].
        destruct (incr_stat st1 old); [|discriminate]. inversion Hu; subst h1.
        unfold s1, set_validator, index_add; cbn. rewrite Hoa. repeat split. exact Hadj. }
    destruct Hfields as (Earr & Evm & Eidx & Evj & Edirty & Etv & Eacc & Eaj & Ebl & Erev & Enx & Ead & Estat).
    assert (Hrestore : wf h1 t /\ Rj h1 t (c_stat (c_set_validator c a (absv h old)) (stat_ h1)) jv').
    { apply (vundo_restore h t c jv' a old (VUpdate a nw old) r h1 W WA (conj Rxs (conj Ridx (conj Rst Racc))) Ej eq_refl Htr
               J1' J2b Hrest Howf Hndf Hcoh Hjtl (Hhead old (or_intror (or_introl eq_refl)))); assumption. }
    destruct Hrestore as [W1 R1].
    split; [exact W1|]. split; [|split; [|repeat split; assumption]].
    + cbn [abs_entry c_vundo1]. rewrite Rxs, (xpeek_live _ _ _ Hcv Hcvd).
      cbn [fst absv]. change (xstat (c_set_validator c a (absv h old))) with (xstat c).
      rewrite Rst, Estat. exact R1.
    + cbn [abs_entry c_vundo1]. unfold c_set_validator, c_index, c_xs, c_stat. cbn. apply ssorted_sset, Hs.
  - (* VDelete *)
    destruct Hek as (Howf & Hndf & Hcoh).
    set (s1 := set_validator h0 old) in *.
    assert (Hoa : v_addr old = a) by apply Howf.
    unfold with_stat in Hu. change (stat_ s1) with (stat_ h) in Hu.
    destruct (incr_stat (stat_ h) old) as [st|] eqn:Est; [|discriminate]. inversion Hu; subst h1; clear Hu.
    set (h1 := w_stat s1 st).
    assert (Hfields : arrs h1 = arrs h /\ vmap h1 = aset (vmap h) a old /\ vindex h1 = sins a (vindex h) /\
              vjournal h1 = r /\ vdirty h1 = vdirty h /\ t_vals h1 = t_vals h /\ accts h1 = accts h /\
              ajournal h1 = ajournal h /\ blobs h1 = blobs h /\ revs h1 = revs h /\ next_id h1 = next_id h /\
              adirty h1 = adirty h).
    { unfold h1, s1, set_validator, index_add; cbn. rewrite Hoa. repeat split. }
    destruct Hfields as (Earr & Evm & Eidx & Evj & Edirty & Etv & Eacc & Eaj & Ebl & Erev & Enx & Ead).
    assert (Hrestore : wf h1 t /\ Rj h1 t (c_stat (c_set_validator c a (absv h old)) (stat_ h1)) jv').
    { apply (vundo_restore h t c jv' a old (VDelete a old) r h1 W WA (conj Rxs (conj Ridx (conj Rst Racc))) Ej eq_refl Htr
               J1' J2b Hrest Howf Hndf Hcoh Hjtl (Hhead old (or_introl eq_refl))); assumption. }
    destruct Hrestore as [W1 R1].
    split; [exact W1|]. split; [|split; [|repeat split; assumption]].
    + cbn [abs_entry c_vundo1]. cbn [fst absv]. change (xstat (c_set_validator c a (absv h old))) with (xstat c).
      rewrite Rst. unfold a_incr. rewrite incr_stat_norm, Est. exact R1.
    + cbn [abs_entry c_vundo1]. unfold c_set_validator, c_index, c_xs, c_stat. cbn. apply ssorted_sset, Hs.
Qed.

(* ---- RevertToSnapshot ------------------------------------------------------------------ *)

Lemma c_aundo1_xs c e : xs (c_aundo1 c e) = xs c.
Proof. rewrite c_aundo1_l. reflexivity. Qed.

Lemma aundo_to_sim t jv n : forall fuel h c,
  (length (ajournal h) <= fuel)%nat -> wf h t -> Rj h t c jv -> ssorted (xaccts c) ->
  let h1 := aundo_to fuel h n in
  wf h1 t /\ Rj h1 t (fst (c_aundo c (ajournal h) n)) jv /\ xs (fst (c_aundo c (ajournal h) n)) = xs c /\
  ajournal h1 = snd (c_aundo c (ajournal h) n) /\ vjournal h1 = vjournal h /\ revs h1 = revs h /\
  next_id h1 = next_id h /\ vdirty h1 = vdirty h.
Proof.
  assert (Hbase : forall h c, wf h t -> Rj h t c jv ->
            wf h t /\ Rj h t c jv /\ xs c = xs c /\ ajournal h = ajournal h /\ vjournal h = vjournal h /\
            revs h = revs h /\ next_id h = next_id h /\ vdirty h = vdirty h).
  { intros. split; [assumption|split; [assumption|repeat split]]. }
  induction fuel as [|f IH]; intros h c Hf W HR Hs; cbn zeta.
  - destruct (ajournal h) eqn:E; [|cbn in Hf; lia]. cbn. rewrite <- E at 1. apply Hbase; assumption.
  - cbn [aundo_to]. destruct (ajournal h) as [|e r] eqn:E.
    + cbn. rewrite <- E at 1. apply Hbase; assumption.
    + cbn [c_aundo]. destruct (Nat.ltb n (length (e :: r))).
      * destruct (aundo1_sim h t c jv e r W HR Hs E) as (W1 & R1 & S1 & A1 & V1 & Rv1 & N1 & D1).
        set (h1 := aundo1 (w_ajournal h r) e) in *.
        destruct (IH h1 (c_aundo1 c e)) as (W2 & R2 & X2 & A2 & V2 & Rv2 & N2 & D2); try assumption.
        { rewrite A1. cbn in Hf. lia. }
        rewrite A1 in *. cbn zeta in *.
        split; [exact W2|]. split; [exact R2|]. split; [rewrite X2; apply c_aundo1_xs|].
        split; [exact A2|]. repeat split; congruence.
      * cbn [fst snd]. rewrite <- E at 1. apply Hbase; assumption.
Qed.

Lemma vundo_to_sim t n : (t <= n)%nat -> forall fuel h c jv h1,
  (length (vjournal h) <= fuel)%nat -> wf h t -> Rj h t c jv -> ssorted (xs c) ->
  vundo_to fuel h n = Some h1 ->
  wf h1 t /\ Rj h1 t (fst (c_vundo c jv n)) (snd (c_vundo c jv n)) /\
  vjournal h1 = skipn (length (vjournal h) - n) (vjournal h) /\ ajournal h1 = ajournal h /\ revs h1 = revs h /\
  next_id h1 = next_id h /\ vdirty h1 = vdirty h.
Proof.
  intros Htn.
  assert (Hbase : forall h c jv, wf h t -> Rj h t c jv -> (length (vjournal h) <= n)%nat ->
            wf h t /\ Rj h t (fst (c_vundo c jv n)) (snd (c_vundo c jv n)) /\
            vjournal h = skipn (length (vjournal h) - n) (vjournal h) /\ ajournal h = ajournal h /\
            revs h = revs h /\ next_id h = next_id h /\ vdirty h = vdirty h).
  { intros h c jv W HR Hn. assert (Hjl : length jv = length (vjournal h)) by apply HR.
    assert (Hcv : c_vundo c jv n = (c, jv)).
    { destruct jv as [|ex jv']; [reflexivity|]. cbn [c_vundo].
      destruct (Nat.ltb_spec n (length (ex :: jv'))); [lia|reflexivity]. }
    rewrite Hcv. cbn [fst snd]. replace (length (vjournal h) - n)%nat with 0%nat by lia. cbn [skipn].
    split; [assumption|split; [assumption|repeat split]]. }
  induction fuel as [|f IH]; intros h c jv h1 Hf W HR Hs Hu.
  - destruct (vjournal h) eqn:E; [|cbn in Hf; lia]. cbn in Hu. inversion Hu; subst h1.
    rewrite <- E. apply Hbase; try assumption. rewrite E. cbn. lia.
  - cbn [vundo_to] in Hu. destruct (vjournal h) as [|e r] eqn:E.
    + inversion Hu; subst h1. rewrite <- E. apply Hbase; try assumption. rewrite E. cbn. lia.
    + destruct (Nat.ltb_spec n (length (e :: r))) as [Hlt|Hge].
      * destruct (vundo1 (w_vjournal h r) e) as [h0|] eqn:Eu; [|discriminate].
        assert (Ht : (t < length (vjournal h))%nat) by (rewrite E; lia).
        destruct (vundo1_sim h t c jv e r h0 W HR Hs E Ht Eu) as (ex & jv' & -> & W1 & R1 & S1 & V1 & A1 & Rv1 & N1 & D1 & _).
        cbn [c_vundo]. destruct (Nat.ltb_spec n (length (ex :: jv'))) as [_|Hbad].
        2:{ destruct HR as (_ & J1 & _). rewrite E in J1. cbn in *. lia. }
        destruct (IH h0 (c_vundo1 c ex) jv' h1) as (W2 & R2 & V2 & A2 & Rv2 & N2 & D2); try assumption.
        { rewrite V1. cbn in Hf. lia. }
        rewrite V1 in V2.
        split; [exact W2|]. split; [exact R2|]. split.
        { rewrite V2. cbn [length] in *. replace (S (length r) - n)%nat with (S (length r - n)) by lia. reflexivity. }
        repeat split; congruence.
      * inversion Hu; subst h1. rewrite <- E. apply Hbase; try assumption. rewrite E. exact Hge.
Qed.

Lemma J_revs_mono x : J x -> revs_mono (length (xaj x)) (length (xvj x)) (xrevs x).
Proof. intros (_ & M & _). exact M. Qed.

Lemma sim_revert h t x id h' :
  wf h t -> R h t x -> J x -> hpre h t (ORevert id) = true -> step h (ORevert id) = Some h' ->
  wf h' t /\ R h' t (a_step x (ORevert id)) /\ Nat.min t (length (vjournal h')) = t.
Proof.
  intros W Rx HJ. cbn [hpre step a_step]. unfold revert, a_revert. rewrite (r_revs _ _ _ Rx).
  destruct (aget (revs h) id) as [[aj vj]|] eqn:Er; [|discriminate].
  intros Htv Hrun. apply Nat.leb_le in Htv.
  pose proof (J_revs_mono _ HJ) as HM. rewrite (r_revs _ _ _ Rx) in HM.
  destruct (drop_revs_spec _ _ _ _ _ _ HM Er) as (Hin & _ & _).
  destruct (revs_mono_In _ _ _ _ _ _ HM Hin) as [Haj Hvj].
  destruct HJ as ((GV & GL) & _).
  destruct (aundo_to_sim t (xvj x) aj (length (ajournal h)) h (core x) (le_n _) W (R_Rj _ _ _ Rx) (g_asorted _ GL))
    as (W1 & R1 & X1 & A1 & V1 & Rv1 & N1 & D1).
  cbn zeta in *. set (s1 := aundo_to (length (ajournal h)) h aj) in *.
  destruct (vundo_to (length (vjournal s1)) s1 vj) as [s2|] eqn:Ev; [|discriminate].
  inversion Hrun; subst h'; clear Hrun.
  rewrite (r_aj _ _ _ Rx).
  destruct (c_aundo (core x) (ajournal h) aj) as [c1 ja] eqn:Eca. cbn [fst snd] in *.
  assert (Hs1 : ssorted (xs c1)) by (rewrite X1; apply GV).
  destruct (vundo_to_sim t vj Htv (length (vjournal s1)) s1 c1 (xvj x) s2 (le_n _) W1 R1 Hs1 Ev)
    as (W2 & R2 & V2 & A2 & Rv2 & N2 & D2).
  destruct (c_vundo c1 (xvj x) vj) as [c2 jv] eqn:Ecv. cbn [fst snd] in *.
  assert (Hlen : length (vjournal s2) = vj).
  { rewrite V2, V1, skipn_length. rewrite (r_vjlen _ _ _ Rx) in Hvj. lia. }
  split; [|split].
  - destruct W2 as [W2 WA2]. split.
    + apply (wfv_frame s2); auto.
    + apply (wfa_frame s2); auto.
  - apply Rj_R; cbn [core xdirty xvj xaj xrevs xnext vdirty ajournal revs next_id w_revs].
    + destruct R2 as ((Q1 & Q2 & Q3 & Q4) & Q5 & Q6 & Q7).
      split; [split; [|split; [|split]]|split; [|split]]; assumption.
    + rewrite D2, D1. apply Rx.
    + rewrite A2, A1. reflexivity.
    + rewrite Rv2, Rv1. reflexivity.
    + rewrite N2, N1. apply Rx.
  - cbn [vjournal w_revs]. rewrite Hlen. lia.
Qed.

(* ---- sort.Search on a sorted delegation slice ---------------------------------------- *)

Definition dd : dfrom := mkD 0 0 0.

Lemma dsorted_nth l : dsorted l -> forall i j, (i < j)%nat -> (j < length l)%nat ->
  d_addr (nth i l dd) < d_addr (nth j l dd).
Proof.
  induction l as [|e r IH]; cbn; intros Hs i j Hij Hj; [lia|]. destruct Hs as [Hlt Hs].
  destruct i, j; try lia.
  - apply Hlt. apply nth_In. lia.
  - apply IH; [assumption|lia|lia].
Qed.

Lemma nth_map_some l k : (k < length l)%nat -> nth k (map Some l) None = Some (nth k l dd).
Proof.
  revert k. induction l as [|e r IH]; intros k Hk; cbn in *; [lia|]. destruct k; [reflexivity|]. apply IH. lia.
Qed.

(* the lower bound: first index whose delegator is >= d *)
Definition is_lb (l : list dfrom) (d : Z) (p : nat) : Prop :=
  (p <= length l)%nat /\ (forall k, (k < p)%nat -> d_addr (nth k l dd) < d) /\
  (forall k, (p <= k)%nat -> (k < length l)%nat -> d <= d_addr (nth k l dd)).

Lemma bsearch_spec l d : dsorted l -> forall fuel i j,
  (j - i < fuel)%nat -> (i <= j)%nat -> (j <= length l)%nat ->
  (forall k, (k < i)%nat -> d_addr (nth k l dd) < d) ->
  (forall k, (j <= k)%nat -> (k < length l)%nat -> d <= d_addr (nth k l dd)) ->
  exists p, bsearch fuel (map Some l) d i j = Some p /\ is_lb l d p.
Proof.
  intros Hs. induction fuel as [|f IH]; intros i j Hf Hij Hj Hlo Hhi; [lia|].
  cbn [bsearch]. destruct (Nat.ltb_spec i j) as [Hlt|Hge].
  - set (h := Nat.div (i + j) 2).
    assert (Hh : (i <= h < j)%nat).
    { unfold h. split; [apply Nat.div_le_lower_bound; lia|apply Nat.div_lt_upper_bound; lia]. }
    rewrite nth_map_some by lia.
    destruct (Z.leb_spec d (d_addr (nth h l dd))) as [Hle|Hgt].
    + apply IH; try lia; [assumption|].
      intros k Hk Hkl. destruct (Nat.eq_dec k h) as [->|Hne]; [assumption|].
      pose proof (dsorted_nth l Hs h k). lia.
    + apply IH; try lia; [|assumption].
      intros k Hk. destruct (Nat.eq_dec k h) as [->|Hne]; [lia|].
      pose proof (dsorted_nth l Hs k h). lia.
  - exists i. split; [reflexivity|]. assert (i = j) by lia. subst j. repeat split; assumption.
Qed.

Lemma dsearch_spec l d : dsorted l -> exists p, dsearch (map Some l) d = Some p /\ is_lb l d p.
Proof.
  intros Hs. unfold dsearch. rewrite map_length.
  apply (bsearch_spec l d Hs); intros; lia.
Qed.

(* consequences of the lower bound on the value-level list *)
Lemma In_firstn_nth (l : list dfrom) : forall p e, In e (firstn p l) -> exists k, (k < p)%nat /\ (k < length l)%nat /\ nth k l dd = e.
Proof.
  induction l as [|x r IH]; intros p e; destruct p; cbn; try tauto.
  intros [<-|Hin]; [exists 0%nat; repeat split; lia|].
  destruct (IH _ _ Hin) as (k & H1 & H2 & H3). exists (S k). repeat split; try lia. exact H3.
Qed.
Lemma In_skipn_nth (l : list dfrom) : forall p e, In e (skipn p l) -> exists k, (p <= k)%nat /\ (k < length l)%nat /\ nth k l dd = e.
Proof.
  induction l as [|x r IH]; intros p e; destruct p; cbn; try tauto.
  - intros [<-|Hin]; [exists 0%nat; repeat split; lia|].
    apply (In_nth _ _ dd) in Hin as (k & Hk & <-). exists (S k). repeat split; lia.
  - intros Hin. destruct (IH _ _ Hin) as (k & H1 & H2 & H3). exists (S k). repeat split; try lia. exact H3.
Qed.

Lemma lb_split l d p : dsorted l -> is_lb l d p ->
  exists l1 l2, l = l1 ++ l2 /\ length l1 = p /\ (forall e, In e l1 -> d_addr e < d) /\
                (forall e, In e l2 -> d <= d_addr e).
Proof.
  intros Hs (Hp & Hlo & Hhi). exists (firstn p l), (skipn p l).
  split; [now rewrite firstn_skipn|]. split; [apply firstn_length_le, Hp|]. split.
  - intros e Hin. destruct (In_firstn_nth _ _ _ Hin) as (k & H1 & H2 & <-). auto.
  - intros e Hin. destruct (In_skipn_nth _ _ _ Hin) as (k & H1 & H2 & <-). auto.
Qed.

Lemma dget_app_lt l1 l2 d : (forall e, In e l1 -> d_addr e < d) -> dget (l1 ++ l2) d = dget l2 d.
Proof.
  induction l1 as [|e r IH]; intros H; cbn; [reflexivity|].
  destruct (Z.eqb_spec (d_addr e) d) as [E|E]; [specialize (H e (or_introl eq_refl)); lia|].
  apply IH. intros; apply H; cbn; auto.
Qed.
Lemma dset_app_lt l1 l2 e : (forall x, In x l1 -> d_addr x < d_addr e) -> dset (l1 ++ l2) e = l1 ++ dset l2 e.
Proof.
  induction l1 as [|x r IH]; intros H; cbn; [reflexivity|].
  pose proof (H x (or_introl eq_refl)).
  destruct (Z.ltb_spec (d_addr e) (d_addr x)); [lia|]. destruct (Z.eqb_spec (d_addr e) (d_addr x)); [lia|].
  f_equal. apply IH. intros; apply H; cbn; auto.
Qed.
Lemma ddel_app_lt l1 l2 d : (forall x, In x l1 -> d_addr x < d) -> ddel (l1 ++ l2) d = l1 ++ ddel l2 d.
Proof.
  induction l1 as [|x r IH]; intros H; cbn; [reflexivity|].
  pose proof (H x (or_introl eq_refl)). destruct (Z.eqb_spec (d_addr x) d); [lia|].
  f_equal. apply IH. intros; apply H; cbn; auto.
Qed.

(* shape of the list around the lower bound *)
Lemma lb_cases l d p : dsorted l -> is_lb l d p ->
  exists l1 l2, l = l1 ++ l2 /\ length l1 = p /\ (forall e, In e l1 -> d_addr e < d) /\
    ((dget l d = None /\ (forall e, In e l2 -> d < d_addr e) /\
      (forall e', d_addr e' = d -> dset l e' = l1 ++ e' :: l2))
     \/ (exists e0 l3, l2 = e0 :: l3 /\ d_addr e0 = d /\ dget l d = Some e0 /\
           (forall e', d_addr e' = d -> dset l e' = l1 ++ e' :: l3) /\ ddel l d = l1 ++ l3)).
Proof.
  intros Hs Hlb. destruct (lb_split l d p Hs Hlb) as (l1 & l2 & -> & Hlen & Hlo & Hhi).
  exists l1, l2. split; [reflexivity|]. split; [assumption|]. split; [assumption|].
  destruct l2 as [|e0 l3].
  - left. split; [rewrite dget_app_lt by assumption; reflexivity|]. split; [intros e []|].
    intros e' He'. rewrite dset_app_lt by (intros; rewrite He'; auto). reflexivity.
  - destruct (Z.eq_dec (d_addr e0) d) as [E0|E0].
    + right. exists e0, l3. split; [reflexivity|]. split; [assumption|].
      split; [rewrite dget_app_lt by assumption; cbn; destruct (Z.eqb_spec (d_addr e0) d); [reflexivity|lia]|].
      split.
      * intros e' He'. rewrite dset_app_lt by (intros; rewrite He'; auto). cbn.
        destruct (Z.ltb_spec (d_addr e') (d_addr e0)); [lia|]. destruct (Z.eqb_spec (d_addr e') (d_addr e0)); [reflexivity|lia].
      * rewrite ddel_app_lt by assumption. cbn. destruct (Z.eqb_spec (d_addr e0) d); [reflexivity|lia].
    + left. assert (Hgt : forall e, In e (e0 :: l3) -> d < d_addr e).
      { intros e [<-|Hin].
        - specialize (Hhi e0 (or_introl eq_refl)). lia.
        - assert (Hs2 : dsorted (e0 :: l3)).
          { clear - Hs. induction l1 as [|x r IH]; [exact Hs|]. apply IH. apply Hs. }
          destruct Hs2 as [Hlt _]. specialize (Hlt _ Hin). specialize (Hhi e0 (or_introl eq_refl)). lia. }
      split.
      * rewrite dget_app_lt by assumption. cbn. destruct (Z.eqb_spec (d_addr e0) d); [lia|].
        destruct (dget l3 d) eqn:G; [|reflexivity]. apply dget_In in G as [Hin Ha].
        specialize (Hgt d0 (or_intror Hin)). lia.
      * split; [exact Hgt|]. intros e' He'. rewrite dset_app_lt by (intros; rewrite He'; auto). cbn.
        specialize (Hgt e0 (or_introl eq_refl)). destruct (Z.ltb_spec (d_addr e') (d_addr e0)); [reflexivity|lia].
Qed.

(* ---- UpdateDelegationFrom on the backing array ----------------------------------------- *)

Lemma upd_nth_app {A} (l1 : list A) x t y : upd_nth (l1 ++ x :: t) (length l1) y = l1 ++ y :: t.
Proof. induction l1 as [|z r IH]; cbn; [reflexivity|]. now rewrite IH. Qed.

Lemma firstn_app_exact {A} (l1 l2 : list A) : firstn (length l1) (l1 ++ l2) = l1.
Proof. rewrite firstn_app, Nat.sub_diag, firstn_all. cbn. apply app_nil_r. Qed.
Lemma skipn_app_exact {A} (l1 l2 : list A) : skipn (length l1) (l1 ++ l2) = l2.
Proof. rewrite skipn_app, Nat.sub_diag, skipn_all. reflexivity. Qed.

Lemma ins_at_app (A1 A2 : list (option dfrom)) y t x :
  ins_at (A1 ++ A2 ++ y :: t) (length A1) (length A1 + length A2) x = A1 ++ x :: A2 ++ t.
Proof.
  unfold ins_at. rewrite firstn_app_exact, skipn_app_exact.
  replace (length A1 + length A2 - length A1)%nat with (length A2) by lia. rewrite firstn_app_exact.
  replace (S (length A1 + length A2)) with (length (A1 ++ A2 ++ [y])) by (rewrite !app_length; cbn; lia).
  replace (A1 ++ A2 ++ y :: t) with ((A1 ++ A2 ++ [y]) ++ t) by (rewrite <- !app_assoc; reflexivity).
  now rewrite skipn_app_exact.
Qed.

Lemma skipn_S_app {A} (A1 : list A) z R : skipn (S (length A1)) (A1 ++ z :: R) = R.
Proof. induction A1 as [|x r IH]; cbn; [reflexivity|exact IH]. Qed.
Lemma skipn_plus_app {A} (A1 A2 : list A) z t : skipn (length A1 + S (length A2)) (A1 ++ z :: A2 ++ t) = t.
Proof.
  induction A1 as [|x r IH]; cbn; [|exact IH]. now rewrite skipn_app_exact.
Qed.

Lemma del_at_app (A1 A2 : list (option dfrom)) z t :
  del_at (A1 ++ z :: A2 ++ t) (length A1) (length A1 + S (length A2)) = A1 ++ A2 ++ None :: t.
Proof.
  unfold del_at. rewrite firstn_app_exact, skipn_S_app, skipn_plus_app.
  replace (length A1 + S (length A2) - S (length A1))%nat with (length A2) by lia.
  now rewrite firstn_app_exact.
Qed.

Lemma arr_decomp (arr : list (option dfrom)) n l : (n <= length arr)%nat -> firstn n arr = map Some l ->
  arr = map Some l ++ skipn n arr /\ length l = n.
Proof.
  intros Hn Hf. split; [rewrite <- Hf; now rewrite firstn_skipn|].
  rewrite <- (map_length Some l), <- Hf. apply firstn_length_le, Hn.
Qed.

Lemma arr_of_upd_same h aid x : (aid < length (arrs h))%nat -> arr_of (w_arrs h (upd_nth (arrs h) aid x)) aid = x.
Proof. intros H. unfold arr_of; cbn. now apply nth_upd_nth_same. Qed.
Lemma arr_of_upd_other h aid x k : k <> aid -> arr_of (w_arrs h (upd_nth (arrs h) aid x)) k = arr_of h k.
Proof. intros H. unfold arr_of; cbn. apply nth_upd_nth_other. congruence. Qed.

(* what UpdateDelegationFrom does, seen through the view *)
Definition dl_next (l : list dfrom) (e : dfrom) : list dfrom * Z :=
  match dget l (d_addr e) with
  | Some _ => if d_empty e then (ddel l (d_addr e), 3) else (dset l e, 2)
  | None => if d_empty e then (l, 0) else (dset l e, 1)
  end.

Lemma update_dfrom_spec h a v l e :
  val_wf h a v -> view h v = map Some l -> dsorted l ->
  exists h' v', update_dfrom h v e = Some (h', v', snd (dl_next l e)) /\
    view h' v' = map Some (fst (dl_next l e)) /\ val_wf h' a v' /\ norm v' = norm v /\
    h' = w_arrs h (arrs h') /\ (length (arrs h) <= length (arrs h'))%nat /\
    (forall k, (k < length (arrs h))%nat -> k <> v_aid v -> arr_of h' k = arr_of h k) /\
    (v_aid v' = v_aid v \/ v_aid v' = length (arrs h)).
Proof.
  intros (Hva & Hvd & Haid & Hlen & Hnil) Hview Hs.
  set (arr := arr_of h (v_aid v)) in *. set (n := v_len v) in *. set (d := d_addr e).
  assert (Hf : firstn n arr = map Some l) by exact Hview.
  destruct (arr_decomp arr n l Hlen Hf) as [Harr Hln].
  destruct (dsearch_spec l d Hs) as (p & Hds & Hlb).
  destruct (lb_cases l d p Hs Hlb) as (l1 & l2 & Hl & Hl1 & Hlo & Hcase).
  unfold update_dfrom. rewrite Hview. fold d. rewrite Hds.
  assert (Hpn : (p <= n)%nat) by (rewrite <- Hln, Hl, app_length; lia).
  unfold dl_next. fold d.
  assert (Hw : forall h1, h1 = w_arrs h1 (arrs h1)) by (intros h1; destruct h1; reflexivity).
  destruct Hcase as [(Hg & Hgt & Hset)|(e0 & l3 & -> & He0 & Hg & Hset & Hdel)]; rewrite Hg.
  - (* not present *)
    assert (Hex : (if Nat.ltb p n then match nth p (map Some l) None with
                                         | None => None | Some e1 => Some (Z.eqb (d_addr e1) d) end
                   else Some false) = Some false).
    { destruct (Nat.ltb_spec p n) as [Hlt|_]; [|reflexivity].
      rewrite nth_map_some by lia. rewrite Hl, app_nth2 by lia. rewrite Hl1, Nat.sub_diag.
      destruct l2 as [|x l2']; [rewrite Hl, app_length in Hln; cbn in Hln; lia|]. cbn.
      specialize (Hgt x (or_introl eq_refl)). destruct (Z.eqb_spec (d_addr x) d); [lia|reflexivity]. }
    fold n. rewrite Hex.
    destruct (d_empty e) eqn:Eem.
    + exists h, v. cbn [fst snd]. split; [reflexivity|]. split; [exact Hview|]. split; [repeat split; assumption|].
      split; [reflexivity|]. split; [apply Hw|]. split; [lia|]. split; [auto|auto].
    + fold arr. cbn [fst snd]. rewrite (Hset e eq_refl).
      assert (Hl2n : (p + length l2 = n)%nat) by (rewrite <- Hln, Hl, app_length; lia).
      destruct (Nat.ltb_spec n (length arr)) as [Hroom|Hfull].
      * (* append in place *)
        destruct (skipn n arr) as [|y t] eqn:Esk.
        { exfalso. assert (length (skipn n arr) = 0%nat) by now rewrite Esk. rewrite skipn_length in H. lia. }
        assert (Harr' : arr = map Some l1 ++ map Some l2 ++ y :: t) by (rewrite Harr, Hl, map_app, <- app_assoc; reflexivity).
        set (arr1 := upd_nth arr n (Some e)).
        assert (Harr1 : arr1 = map Some l1 ++ map Some l2 ++ Some e :: t).
        { unfold arr1. rewrite Harr'. rewrite app_assoc.
          replace n with (length (map Some l1 ++ map Some l2)) by (rewrite app_length, !map_length; lia).
          rewrite upd_nth_app. now rewrite <- app_assoc. }
        set (arr2 := if Nat.ltb p n then ins_at arr1 p n (Some e) else arr1).
        assert (Harr2 : arr2 = map Some (l1 ++ e :: l2) ++ t).
        { unfold arr2. destruct (Nat.ltb_spec p n) as [Hlt|Hge].
          - rewrite Harr1. replace p with (length (map Some l1)) by (rewrite map_length; lia).
            replace n with (length (map Some l1) + length (map Some l2))%nat by (rewrite !map_length; lia).
            rewrite ins_at_app. rewrite map_app. cbn. now rewrite <- app_assoc.
          - assert (l2 = []) by (destruct l2; [reflexivity|cbn in Hl2n; lia]). subst l2.
            rewrite Harr1. cbn. rewrite map_app. cbn. now rewrite <- app_assoc. }
        assert (Hlen2 : length arr2 = length arr).
        { rewrite Harr2, Harr', !app_length, !map_length, app_length. cbn. lia. }
        exists (w_arrs h (upd_nth (arrs h) (v_aid v) arr2)), (set_view v (v_aid v) (S n)).
        split; [reflexivity|].
        assert (Hview' : view (w_arrs h (upd_nth (arrs h) (v_aid v) arr2)) (set_view v (v_aid v) (S n)) = map Some (l1 ++ e :: l2)).
        { unfold view. replace (v_aid (set_view v (v_aid v) (S n))) with (v_aid v) by (destruct v; reflexivity).
          replace (v_len (set_view v (v_aid v) (S n))) with (S n) by (destruct v; reflexivity).
          rewrite arr_of_upd_same by assumption. rewrite Harr2.
          replace (S n) with (length (map Some (l1 ++ e :: l2))) by (rewrite map_length, app_length; cbn; lia).
          apply firstn_app_exact. }
        split; [exact Hview'|]. split.
        { unfold val_wf. rewrite Hview'. split; [destruct v; exact Hva|]. split; [destruct v; exact Hvd|].
          replace (v_aid (set_view v (v_aid v) (S n))) with (v_aid v) by (destruct v; reflexivity).
          replace (v_len (set_view v (v_aid v) (S n))) with (S n) by (destruct v; reflexivity).
          rewrite arr_of_upd_same by assumption. cbn [arrs w_arrs]. rewrite length_upd_nth.
          split; [assumption|]. split; [lia|apply has_nil_map_some]. }
        split; [apply norm_set_view|]. split; [reflexivity|]. split; [cbn; rewrite length_upd_nth; lia|].
        split; [intros k Hk Hne; now apply arr_of_upd_other|]. left. destruct v; reflexivity.
      * (* re-allocate *)
        assert (Hneq : n = length arr) by lia.
        set (cap := grow_cap (length arr)).
        set (arr1 := pad (firstn n arr ++ [Some e]) cap).
        assert (Harr1 : arr1 = map Some l1 ++ map Some l2 ++ Some e :: repeat None (cap - S n)).
        { unfold arr1, pad. rewrite Hf, Hl, map_app, app_length, !app_length, !map_length. cbn [length].
          replace (length l1 + length l2 + 1)%nat with (S n) by lia. rewrite <- !app_assoc. reflexivity. }
        set (arr2 := if Nat.ltb p n then ins_at arr1 p n (Some e) else arr1).
        assert (Harr2 : arr2 = map Some (l1 ++ e :: l2) ++ repeat None (cap - S n)).
        { unfold arr2. destruct (Nat.ltb_spec p n) as [Hlt|Hge].
          - rewrite Harr1. replace p with (length (map Some l1)) by (rewrite map_length; lia).
            replace n with (length (map Some l1) + length (map Some l2))%nat by (rewrite !map_length; lia).
            rewrite ins_at_app. rewrite map_app. cbn. now rewrite <- app_assoc.
          - assert (l2 = []) by (destruct l2; [reflexivity|cbn in Hl2n; lia]). subst l2.
            rewrite Harr1. cbn. rewrite map_app. cbn. now rewrite <- app_assoc. }
        unfold alloc.
        exists (w_arrs h (arrs h ++ [arr2])), (set_view v (length (arrs h)) (S n)).
        split; [reflexivity|].
        assert (Harrof : arr_of (w_arrs h (arrs h ++ [arr2])) (length (arrs h)) = arr2).
        { unfold arr_of; cbn. rewrite app_nth2 by lia. now rewrite Nat.sub_diag. }
        assert (Hview' : view (w_arrs h (arrs h ++ [arr2])) (set_view v (length (arrs h)) (S n)) = map Some (l1 ++ e :: l2)).
        { unfold view. replace (v_aid (set_view v (length (arrs h)) (S n))) with (length (arrs h)) by (destruct v; reflexivity).
          replace (v_len (set_view v (length (arrs h)) (S n))) with (S n) by (destruct v; reflexivity).
          rewrite Harrof, Harr2.
          replace (S n) with (length (map Some (l1 ++ e :: l2))) by (rewrite map_length, app_length; cbn; lia).
          apply firstn_app_exact. }
        split; [exact Hview'|]. split.
        { unfold val_wf. rewrite Hview'. split; [destruct v; exact Hva|]. split; [destruct v; exact Hvd|].
          replace (v_aid (set_view v (length (arrs h)) (S n))) with (length (arrs h)) by (destruct v; reflexivity).
          replace (v_len (set_view v (length (arrs h)) (S n))) with (S n) by (destruct v; reflexivity).
          rewrite Harrof. cbn [arrs w_arrs]. rewrite app_length. cbn.
          split; [lia|]. split; [|apply has_nil_map_some].
          rewrite Harr2, app_length, map_length, app_length. cbn. lia. }
        split; [apply norm_set_view|]. split; [reflexivity|]. split; [cbn; rewrite app_length; lia|].
        split; [intros k Hk Hne; now apply arr_of_ext|]. right. destruct v; reflexivity.
  - (* present *)
    assert (Hl2n : (p + S (length l3) = n)%nat) by (rewrite <- Hln, Hl, app_length; cbn; lia).
    assert (Hex : (if Nat.ltb p n then match nth p (map Some l) None with
                                         | None => None | Some e1 => Some (Z.eqb (d_addr e1) d) end
                   else Some false) = Some true).
    { destruct (Nat.ltb_spec p n) as [Hlt|Hge]; [|lia].
      rewrite nth_map_some by lia. rewrite Hl, app_nth2 by lia. rewrite Hl1, Nat.sub_diag. cbn.
      destruct (Z.eqb_spec (d_addr e0) d); [reflexivity|lia]. }
    fold n. rewrite Hex. fold arr.
    remember (skipn n arr) as T eqn:HT.
    assert (Harr' : arr = map Some l1 ++ Some e0 :: map Some l3 ++ T)
      by (rewrite Harr at 1; rewrite Hl, map_app; cbn; rewrite <- app_assoc; reflexivity).
    destruct (d_empty e) eqn:Eem; cbn [fst snd].
    + (* delete *)
      rewrite Hdel.
      set (arr2 := del_at arr p n).
      assert (Harr2 : arr2 = map Some (l1 ++ l3) ++ None :: T).
      { unfold arr2. rewrite Harr' at 1. replace p with (length (map Some l1)) by (rewrite map_length; lia).
        replace n with (length (map Some l1) + S (length (map Some l3)))%nat by (rewrite !map_length; lia).
        rewrite del_at_app, map_app. now rewrite <- app_assoc. }
      assert (Hlen2 : length arr2 = length arr).
      { rewrite Harr2, Harr'. rewrite !app_length, !map_length, app_length. cbn. rewrite app_length, map_length. lia. }
      exists (w_arrs h (upd_nth (arrs h) (v_aid v) arr2)), (set_view v (v_aid v) (n - 1)).
      split; [reflexivity|].
      assert (Hview' : view (w_arrs h (upd_nth (arrs h) (v_aid v) arr2)) (set_view v (v_aid v) (n - 1)) = map Some (l1 ++ l3)).
      { unfold view. replace (v_aid (set_view v (v_aid v) (n - 1))) with (v_aid v) by (destruct v; reflexivity).
        replace (v_len (set_view v (v_aid v) (n - 1))) with (n - 1)%nat by (destruct v; reflexivity).
        rewrite arr_of_upd_same by assumption. rewrite Harr2.
        replace (n - 1)%nat with (length (map Some (l1 ++ l3))) by (rewrite map_length, app_length; lia).
        apply firstn_app_exact. }
      split; [exact Hview'|]. split.
      { unfold val_wf. rewrite Hview'. split; [destruct v; exact Hva|]. split; [destruct v; exact Hvd|].
        replace (v_aid (set_view v (v_aid v) (n - 1))) with (v_aid v) by (destruct v; reflexivity).
        replace (v_len (set_view v (v_aid v) (n - 1))) with (n - 1)%nat by (destruct v; reflexivity).
        rewrite arr_of_upd_same by assumption. cbn [arrs w_arrs]. rewrite length_upd_nth.
        split; [assumption|]. split; [lia|apply has_nil_map_some]. }
      split; [apply norm_set_view|]. split; [reflexivity|]. split; [cbn; rewrite length_upd_nth; lia|].
      split; [intros k Hk Hne; now apply arr_of_upd_other|]. left. destruct v; reflexivity.
    + (* update in place *)
      rewrite (Hset e eq_refl).
      set (arr2 := upd_nth arr p (Some e)).
      assert (Harr2 : arr2 = map Some (l1 ++ e :: l3) ++ T).
      { unfold arr2. rewrite Harr' at 1. replace p with (length (map Some l1)) by (rewrite map_length; lia).
        rewrite upd_nth_app, map_app. cbn. now rewrite <- app_assoc. }
      assert (Hlen2 : length arr2 = length arr) by apply length_upd_nth.
      exists (w_arrs h (upd_nth (arrs h) (v_aid v) arr2)), v.
      split; [reflexivity|].
      assert (Hview' : view (w_arrs h (upd_nth (arrs h) (v_aid v) arr2)) v = map Some (l1 ++ e :: l3)).
      { unfold view. rewrite arr_of_upd_same by assumption. rewrite Harr2. fold n.
        replace n with (length (map Some (l1 ++ e :: l3))) by (rewrite map_length, app_length; cbn; lia).
        apply firstn_app_exact. }
      split; [exact Hview'|]. split.
      { unfold val_wf. rewrite Hview'. rewrite arr_of_upd_same by assumption. cbn [arrs w_arrs]. rewrite length_upd_nth.
        repeat split; try assumption; [fold n; lia|apply has_nil_map_some]. }
      split; [reflexivity|]. split; [reflexivity|]. split; [cbn; rewrite length_upd_nth; lia|].
      split; [intros k Hk Hne; now apply arr_of_upd_other|]. left. reflexivity.
Qed.

Lemma get_dfrom_spec l d : dsorted l -> get_dfrom (map Some l) d = Some (dget l d).
Proof.
  intros Hs. unfold get_dfrom. destruct (dsearch_spec l d Hs) as (p & Hds & Hlb). rewrite Hds, map_length.
  destruct (lb_cases l d p Hs Hlb) as (l1 & l2 & Hl & Hl1 & Hlo & Hcase).
  destruct Hcase as [(Hg & Hgt & _)|(e0 & l3 & -> & He0 & Hg & _)]; rewrite Hg.
  - destruct (Nat.ltb_spec p (length l)) as [Hlt|_]; [|reflexivity].
    rewrite nth_map_some by lia. rewrite Hl, app_nth2 by lia. rewrite Hl1, Nat.sub_diag.
    destruct l2 as [|x l2']; [rewrite Hl, app_length in Hlt; cbn in Hlt; lia|]. cbn.
    specialize (Hgt x (or_introl eq_refl)). destruct (Z.eqb_spec (d_addr x) d); [lia|reflexivity].
  - assert (Hlt : (p < length l)%nat) by (rewrite Hl, app_length; cbn; lia).
    destruct (Nat.ltb_spec p (length l)); [|lia].
    rewrite nth_map_some by lia. rewrite Hl, app_nth2 by lia. rewrite Hl1, Nat.sub_diag. cbn.
    destruct (Z.eqb_spec (d_addr e0) d); [reflexivity|lia].
Qed.

(* every journal entry tainted: only the cache itself is constrained *)
Lemma wf_full_taint h t : wf h t -> wf h (length (vjournal h)).
Proof.
  intros [W WA]. split; [|exact WA].
  assert (Hcj : cj h (length (vjournal h)) = []) by (unfold cj; now rewrite Nat.sub_diag).
  assert (Hr : forall v, reachable h (length (vjournal h)) v -> reachable h t v).
  { intros v [H|H]; [left; exact H|]. rewrite Hcj in H. destruct H. }
  constructor; try apply W.
  - lia.
  - intros v Hv. apply (w_range _ _ W), Hr, Hv.
  - intros v w Hv Hw. apply (w_sep _ _ W); auto.
  - rewrite Hcj. exact I.
Qed.

Lemma R_full_taint h t x : R h t x -> R h (length (vjournal h)) x.
Proof.
  intros Rx. constructor; try apply Rx. rewrite Nat.sub_diag. unfold cj. rewrite Nat.sub_diag. reflexivity.
Qed.

(* ---- the delegator side of UpdateDelegation ------------------------------------------------ *)

Lemma load_dlgs_spec h ac0 : acct_readable h ac0 = true ->
  exists ac, load_dlgs h ac0 = Some ac /\ a_dbal ac = a_dbal ac0 /\ a_hash ac = a_hash ac0 /\
             a_ddirty ac = a_ddirty ac0 /\ a_loaded ac = true.
Proof.
  unfold acct_readable, blob_ok, load_dlgs. destruct (a_loaded ac0) eqn:El; cbn [orb].
  - intros _. exists ac0. auto.
  - destruct (a_hash ac0) as [|z r] eqn:Eh.
    + intros _. eexists. split; [reflexivity|]. cbn. auto.
    + intros Hb. rewrite Hb. eexists. split; [reflexivity|]. cbn. auto.
Qed.

Lemma delegator_sim h t x d a delta del ac0 h' :
  wf h t -> R h t x -> aget (accts h) d = Some ac0 -> acct_readable h ac0 = true ->
  update_delegator h d a delta del = Some h' ->
  wf h' t /\
  R h' t (mkAS (fst (c_update_delegator (core x) d a delta del)) (xdirty x) (xvj x)
               (snd (c_update_delegator (core x) d a delta del) ++ xaj x) (xrevs x) (xnext x)).
Proof.
  intros [W WA] Rx Hd Hread. unfold update_delegator, c_update_delegator. rewrite Hd.
  destruct (load_dlgs_spec h ac0 Hread) as (ac & Hl & Hb & Hh & Hdd & Hlo). rewrite Hl.
  rewrite (r_accts _ _ _ Rx d), Hd. cbn [option_map ess]. rewrite <- Hh.
  destruct WA as [A B C D E F G Hsd].
  set (found := mem a (a_hash ac)).
  assert (Hfin : forall (changed : bool) (lst1 : list Z) (jnew : list aentry),
            (changed = true -> jnew = [JDlgs d (a_hash ac)]) -> (changed = false -> jnew = [] /\ lst1 = a_hash ac) ->
            let ac2 := mkA (a_dbal ac + delta) lst1 true (if changed then true else a_ddirty ac) in
            let hh := w_accts (w_ajournal h (JDlgBal d (a_dbal ac) :: jnew ++ ajournal h)) (aset (accts h) d ac2) in
            wf hh t /\
            R hh t (mkAS (c_accts (core x) (sset (xaccts (core x)) d (a_dbal ac0 + delta, lst1))) (xdirty x) (xvj x)
                         ((JDlgBal d (a_dbal ac0) :: jnew) ++ xaj x) (xrevs x) (xnext x))).
  { intros changed lst1 jnew Hc1 Hc0 ac2 hh. split; [split|].
    - apply (wfv_frame h); auto.
    - constructor; cbn [accts ajournal hh w_accts w_ajournal blobs adirty].
      + intros d' ac'. destruct (Z.eq_dec d' d) as [->|Hne].
        * rewrite aget_aset_same. intros H; inversion H; subst ac'. cbn. split; [auto|].
          destruct changed; [discriminate|]. intros Hdf. destruct (Hc0 eq_refl) as [_ ->].
          unfold blob_ok; cbn. destruct (A _ _ Hd) as [_ A2]. unfold blob_ok in A2. rewrite Hh. apply A2. cbn in Hdf. congruence.
        * rewrite aget_aset_other by assumption. apply A.
      + intros d' prev Hin. assert (Hcase : (changed = true /\ d' = d) \/ In (JDlgs d' prev) (ajournal h)).
        { destruct Hin as [H|Hin0]; [discriminate|]. apply in_app_or in Hin0 as [Hin1|Hin1]; [|auto].
          destruct changed; [|destruct (Hc0 eq_refl) as [-> _]; destruct Hin1].
          rewrite (Hc1 eq_refl) in Hin1. destruct Hin1 as [H|[]]. inversion H; auto. }
        destruct (Z.eq_dec d' d) as [->|Hne].
        * exists ac2. rewrite aget_aset_same. split; [reflexivity|]. cbn.
          destruct Hcase as [[-> _]|Hin2]; [reflexivity|].
          destruct (B _ _ Hin2) as (ac' & Hac' & Hdd'). destruct changed; [reflexivity|]. congruence.
        * destruct Hcase as [[_ ?]|Hin2]; [congruence|]. destruct (B _ _ Hin2) as (ac' & Hac' & Hdd').
          exists ac'. rewrite aget_aset_other by assumption. auto.
      + intros e Hin. assert (Hcase : aentry_addr e = d \/ In e (ajournal h)).
        { destruct Hin as [<-|Hin0]; [auto|]. apply in_app_or in Hin0 as [Hin1|Hin1]; [|auto].
          destruct changed; [|destruct (Hc0 eq_refl) as [-> _]; destruct Hin1].
          rewrite (Hc1 eq_refl) in Hin1. destruct Hin1 as [<-|[]]. auto. }
        destruct (Z.eq_dec (aentry_addr e) d) as [->|Hne]; [rewrite aget_aset_same; discriminate|].
        rewrite aget_aset_other by assumption. destruct Hcase as [?|Hin2]; [congruence|]. exact (C _ Hin2).
      + cbn [ajchain]. split; [exact I|]. destruct changed.
        * rewrite (Hc1 eq_refl). cbn. split; [exact I|exact D].
        * destruct (Hc0 eq_refl) as [-> _]. exact D.
      + apply NoDup_aset, E.
      + intros d' ac'. destruct (Z.eq_dec d' d) as [->|Hne].
        * rewrite aget_aset_same. intros Hq; inversion Hq; subst ac'. intros Hnd Hnj.
          destruct changed.
          -- exfalso. apply (Hnj (a_hash ac)). right. rewrite (Hc1 eq_refl). cbn. auto.
          -- destruct (Hc0 eq_refl) as [-> ->]. rewrite blob_ok_bok. cbn [a_hash ac2 blobs hh w_accts w_ajournal].
             rewrite Hh, <- blob_ok_bok. apply (F d ac0 Hd Hnd). intros p Hin. apply (Hnj p). right. exact Hin.
        * rewrite aget_aset_other by assumption. intros Hac Hnd Hnj. apply (F d' ac' Hac Hnd).
          intros p Hin. apply (Hnj p). right. apply in_or_app. right. exact Hin.
      + cbn [ajbase]. split; [exact I|]. destruct changed.
        * rewrite (Hc1 eq_refl). cbn [app ajbase]. split.
          -- intros Hnd Hnj. cbn [blobs hh w_accts w_ajournal]. rewrite Hh, <- blob_ok_bok. apply (F d ac0 Hd Hnd Hnj).
          -- eapply ajbase_frame; [| |exact G]; reflexivity.
        * destruct (Hc0 eq_refl) as [-> _]. cbn [app]. eapply ajbase_frame; [| |exact G]; reflexivity.
      + exact Hsd.
    - constructor; cbn [core xdirty xvj xaj xrevs xnext]; try apply Rx.
      all: try (intros b; unfold c_accts; cbn [xs]; rewrite (r_xs _ _ _ Rx); symmetry; apply xpeek_frame; reflexivity).
      all: try (rewrite (r_vj _ _ _ Rx); reflexivity).
      all: try (cbn [ajournal hh w_accts w_ajournal]; rewrite (r_aj _ _ _ Rx), Hb; reflexivity).
      intros d'. unfold c_accts; cbn [xaccts accts hh w_accts]. destruct (Z.eq_dec d' d) as [->|Hne].
      + rewrite aget_sset_same, aget_aset_same. unfold ac2, ess; cbn. now rewrite Hb.
      + rewrite aget_sset_other, aget_aset_other by assumption. apply Rx. }
  rewrite Hb in *.
  destruct found eqn:Ef; cbn [negb]; destruct del.
  - (* found, delete *)
    intros H; inversion H; subst h'; clear H. cbn [fst snd].
    destruct (Hfin true (srem a (a_hash ac)) [JDlgs d (a_hash ac)]) as [W' R']; [auto|discriminate|].
    cbn zeta in *. unfold aj_push. cbn [a_dbal a_hash a_loaded a_ddirty accts ajournal w_ajournal] in *.
    rewrite ?Hb, ?Hlo. split; [exact W'|exact R'].
  - (* found, keep *)
    intros H; inversion H; subst h'; clear H. cbn [fst snd].
    destruct (Hfin false (a_hash ac) []) as [W' R']; [discriminate|auto|].
    cbn zeta in *. unfold aj_push. cbn [app a_dbal a_hash a_loaded a_ddirty accts ajournal w_ajournal] in *.
    rewrite ?Hb, ?Hlo. split; [exact W'|exact R'].
  - (* not found, delete: nothing to remove *)
    intros H; inversion H; subst h'; clear H. cbn [fst snd].
    destruct (Hfin false (a_hash ac) []) as [W' R']; [discriminate|auto|].
    cbn zeta in *. unfold aj_push. cbn [app a_dbal a_hash a_loaded a_ddirty accts ajournal w_ajournal] in *.
    rewrite ?Hb, ?Hlo. split; [exact W'|exact R'].
  - (* not found, add *)
    intros H; inversion H; subst h'; clear H. cbn [fst snd].
    destruct (Hfin true (sins a (a_hash ac)) [JDlgs d (a_hash ac)]) as [W' R']; [auto|discriminate|].
    cbn zeta in *. unfold aj_push. cbn [a_dbal a_hash a_loaded a_ddirty accts ajournal w_ajournal] in *.
    rewrite ?Hb, ?Hlo. split; [exact W'|exact R'].
Qed.

(* ---- UpdateDelegation: the validator side ---------------------------------------------------- *)

Lemma c_delegate_unfold c d a amt v l :
  aget (xs c) a = Some (v, l) -> amt <> 0 -> (dget l d = None -> 0 <= amt) ->
  let e := match dget l d with Some e => e | None => mkD d 0 0 end in
  let tok := d_token e + amt in
  let e' := mkD d (tok / stake_unit) tok in
  let nv := set_total v (v_token v + amt) (v_stake v + (tok / stake_unit - d_stake e)) in
  let l' := fst (dl_next l e') in
  let del := Z.eqb (snd (dl_next l e')) 3 in
  let c1 := c_update_validator c a (nv, l') (v, l) in
  c_delegate c d a amt = (fst (c_update_delegator c1 d a amt del), snd (c_update_delegator c1 d a amt del),
                          [XUpdate a (nv, l') (v, l)]).
Proof.
  intros Hx Hnz Hpos. cbn zeta. unfold c_delegate, dl_next. rewrite Hx.
  destruct (Z.eqb_spec amt 0) as [|_]; [contradiction|]. cbn [d_addr].
  destruct (dget l d) as [e|] eqn:Ed.
  - destruct (d_empty (mkD d ((d_token e + amt) / stake_unit) (d_token e + amt))); cbn [fst snd Z.eqb Pos.eqb];
      destruct (c_update_delegator _ d a amt _); reflexivity.
  - specialize (Hpos eq_refl). destruct (Z.ltb_spec amt 0); [lia|]. cbn [d_token d_stake].
    destruct (d_empty (mkD d ((0 + amt) / stake_unit) (0 + amt))); cbn [fst snd Z.eqb Pos.eqb];
      destruct (c_update_delegator _ d a amt _); reflexivity.
Qed.

Lemma a_push_split x c1 c2 ja jv :
  a_push x (c2, ja, jv) =
  mkAS c2 (xdirty (a_push x (c1, [], jv))) (xvj (a_push x (c1, [], jv))) (ja ++ xaj (a_push x (c1, [], jv)))
       (xrevs (a_push x (c1, [], jv))) (xnext (a_push x (c1, [], jv))).
Proof. reflexivity. Qed.

Lemma val_ok_dsorted x a v l : J x -> aget (xs (core x)) a = Some (v, l) -> dsorted l.
Proof. intros (([_ Hv _ _] & _) & _) H. destruct (Hv _ _ H) as (_&_&_&_&_&_&_&[Hs _]&_). exact Hs. Qed.

Lemma w_arrs_w_arrs h A B : w_arrs (w_arrs h A) B = w_arrs h B.
Proof. reflexivity. Qed.

Lemma firstn_app_le {A} (l1 l2 : list A) n : (n <= length l1)%nat -> firstn n (l1 ++ l2) = firstn n l1.
Proof. intros H. rewrite firstn_app. replace (n - length l1)%nat with 0%nat by lia. cbn. apply app_nil_r. Qed.

Lemma acct_readable_wf h ac d : wfa h -> aget (accts h) d = Some ac -> acct_readable h ac = true.
Proof.
  intros WA Hd. unfold acct_readable. destruct (w_acct _ WA _ _ Hd) as [[E|E] _]; rewrite E; [reflexivity|apply orb_true_r].
Qed.

Lemma sim_delegate h t x d a amt h' :
  wf h t -> R h t x -> J x -> hpre h t (ODelegate d a amt) = true -> step h (ODelegate d a amt) = Some h' ->
  wf h' t /\ R h' t (a_step x (ODelegate d a amt)).
Proof.
  intros W Rx HJ Hp. cbn [step a_step]. cbn [hpre] in Hp.
  destruct (get_validator h a) as [h1 r] eqn:Eg.
  destruct (get_validator_spec _ _ _ _ _ _ W Rx HJ Eg) as (W1 & R1 & Hle & Hrest & Hr).
  destruct r as [v|].
  2:{ destruct Hr as [Hx ->]. intros H; inversion H; subst h'.
      unfold c_delegate. rewrite (r_xs _ _ _ Rx), Hx. rewrite a_push_nil. auto. }
  destruct Hr as (Hv & Hvd & Hx). rewrite Hx in Hp. unfold absv in Hp. unfold update_delegation.
  destruct (Z.eqb_spec amt 0) as [Hz|Hnz].
  { intros H; inversion H; subst h'. unfold c_delegate. rewrite (r_xs _ _ _ Rx), Hx. unfold absv.
    destruct (Z.eqb_spec amt 0); [|contradiction]. rewrite a_push_nil. auto. }
  cbn [orb] in Hp. apply andb_prop in Hp as [Hacc Hnn].
  destruct (aget (accts h) d) as [ac0|] eqn:Ead; [|discriminate].
  pose proof W1 as [W1v WA1]. destruct (w_vmap _ _ W1v _ _ Hv) as (Hva & Hvwf & _). specialize (Hvwf Hvd).
  set (l := stripd (view h1 v)) in *.
  assert (Hview : view h1 v = map Some l) by (apply view_stripd, Hvwf).
  assert (Hxs : aget (xs (core x)) a = Some (norm v, l)) by (rewrite (r_xs _ _ _ Rx), Hx; reflexivity).
  pose proof (val_ok_dsorted _ _ _ _ HJ Hxs) as Hsorted.
  rewrite Hview, (get_dfrom_spec l d Hsorted).
  assert (Hposs : dget l d = None -> 0 <= amt) by (intros E; unfold tokl in Hnn; rewrite E in Hnn; lia).
  set (e := match dget l d with Some e => e | None => mkD d 0 0 end).
  assert (Hstart : (match dget l d with Some e0 => Some e0 | None => if Z.ltb amt 0 then None else Some (mkD d 0 0) end) = Some e).
  { unfold e. destruct (dget l d) eqn:E; [reflexivity|]. specialize (Hposs eq_refl). destruct (Z.ltb_spec amt 0); [lia|reflexivity]. }
  rewrite Hstart.
  set (tok := d_token e + amt). set (e' := mkD d (tok / stake_unit) tok).
  (* the private slice *)
  unfold alloc. set (aid2 := length (arrs h1)).
  set (h2 := w_arrs h1 (arrs h1 ++ [map Some l ++ [None]])).
  assert (Hle2 : heap_le h1 h2) by apply heap_le_alloc.
  set (nv0 := set_view (set_total v (v_token v + amt) (v_stake v + (tok / stake_unit - d_stake e))) aid2 (v_len v)).
  assert (Hlenl : length l = v_len v).
  { destruct Hvwf as (_ & _ & _ & A4 & _). rewrite <- (map_length Some l), <- Hview. unfold view. apply firstn_length_le, A4. }
  assert (Harr2 : arr_of h2 aid2 = map Some l ++ [None]).
  { unfold arr_of, h2; cbn. rewrite app_nth2 by (unfold aid2; lia). unfold aid2. now rewrite Nat.sub_diag. }
  assert (Hnv0view : view h2 nv0 = map Some l).
  { unfold view. replace (v_aid nv0) with aid2 by (unfold nv0; destruct v; reflexivity).
    replace (v_len nv0) with (v_len v) by (unfold nv0; destruct v; reflexivity).
    rewrite Harr2, firstn_app_le by (rewrite map_length; lia). rewrite <- Hlenl, <- (map_length Some l). apply firstn_all. }
  assert (Hnv0wf : val_wf h2 a nv0).
  { unfold val_wf. rewrite Hnv0view.
    replace (v_aid nv0) with aid2 by (unfold nv0; destruct v; reflexivity).
    replace (v_len nv0) with (v_len v) by (unfold nv0; destruct v; reflexivity).
    rewrite Harr2. split; [unfold nv0; destruct v; exact Hva|]. split; [unfold nv0; destruct v; exact Hvd|].
    split; [unfold h2, aid2; cbn; rewrite app_length; cbn; lia|].
    split; [rewrite app_length, map_length; cbn; lia|apply has_nil_map_some]. }
  destruct (update_dfrom_spec h2 a nv0 l e' Hnv0wf Hnv0view Hsorted)
    as (s1 & nv & Hud & Hnview & Hnvwf & Hnnorm & Hs1w & Hs1len & Hs1fr & Hnaid).
  rewrite Hud.
  destruct (update_validator s1 nv v) as [s2|] eqn:Euv; [|discriminate].
  intros Hdel.
  assert (Hnv0aid : v_aid nv0 = aid2) by (unfold nv0; destruct v; reflexivity).
  assert (Hs1eq : s1 = w_arrs h1 (arrs s1)) by (rewrite Hs1w; reflexivity).
  assert (Hle1 : heap_le h1 (w_arrs h1 (arrs s1))).
  { split.
    - cbn. destruct Hle2 as [L2 _]. lia.
    - intros k Hk. change (arr_of (w_arrs h1 (arrs s1)) k) with (arr_of s1 k).
      rewrite Hs1fr; [apply Hle2, Hk | destruct Hle2; lia | rewrite Hnv0aid; unfold aid2; lia]. }
  pose proof (wf_grow h1 t (arrs s1) Hle1 W1) as Ws1. pose proof (R_grow h1 t x (arrs s1) Hle1 W1 R1) as Rs1.
  rewrite <- Hs1eq in Ws1, Rs1. rewrite <- Hs1eq in Hle1.
  assert (Hvs1 : aget (vmap s1) a = Some v) by (rewrite Hs1eq; exact Hv).
  assert (Habs_old : absv s1 v = (norm v, l)).
  { unfold absv. rewrite (view_le h1 s1 v Hle1) by apply Hvwf. reflexivity. }
  assert (Habs_new : absv s1 nv = (norm nv, fst (dl_next l e'))).
  { unfold absv. rewrite Hnview, stripd_map_some. reflexivity. }
  assert (Hsep : forall u, reachable s1 t u -> v_addr u <> a -> v_aid u <> v_aid nv).
  { intros u Hu _. assert (Hu1 : reachable h1 t u).
    { destruct Hu as [[b Hb]|Hin]; [left; exists b; rewrite Hs1eq in Hb; exact Hb|right; rewrite Hs1eq in Hin; exact Hin]. }
    pose proof (w_range _ _ W1v _ Hu1) as Hr. destruct Hnaid as [E|E]; rewrite E, ?Hnv0aid.
    - unfold aid2. lia.
    - destruct Hle2 as [L2 _]. lia. }
  destruct (update_validator_spec s1 t x a v nv l (fst (dl_next l e')) s2 Ws1 Rs1 HJ Hvs1 Hvd Habs_old Hnvwf Habs_new Hsep Euv)
    as (W2 & R2).
  (* delegator side *)
  destruct (update_validator_fields _ _ _ _ Euv) as
    (Earr & Evm & Eidx & Evj & Est & Edirty & Eacc & Eaj & Erev & Enext & Etv & Eti & Ets & Ebl & Eadr).
  assert (Hac2 : aget (accts s2) d = Some ac0).
  { rewrite Eacc, Hs1eq. cbn [accts w_arrs]. destruct Hrest as (_ & _ & _ & Ea & _). now rewrite Ea. }
  assert (Hread2 : acct_readable s2 ac0 = true) by (eapply acct_readable_wf; [apply W2|exact Hac2]).
  rewrite Hva in Hdel.
  destruct (delegator_sim s2 t _ d a amt _ ac0 h' W2 R2 Hac2 Hread2 Hdel) as (W3 & R3).
  split; [exact W3|].
  rewrite (c_delegate_unfold (core x) d a amt (norm v) l Hxs Hnz Hposs).
  fold e. replace (v_token (norm v)) with (v_token v) by (destruct v; reflexivity).
  replace (v_stake (norm v)) with (v_stake v) by (destruct v; reflexivity).
  fold tok. fold e'.
  assert (Hnorm2 : norm nv = set_total (norm v) (v_token v + amt) (v_stake v + (tok / stake_unit - d_stake e))).
  { rewrite Hnnorm. unfold nv0. now rewrite norm_set_view, norm_set_total. }
  rewrite <- Hnorm2.
  rewrite (a_push_split x (c_update_validator (core x) a (norm nv, fst (dl_next l e')) (norm v, l))). exact R3.
Qed.

(* ---- Commit followed by state.New ---------------------------------------------------------- *)

Lemma list_eqb_refl l : list_eqb Z.eqb l l = true.
Proof. induction l as [|a r IH]; cbn; [reflexivity|]. now rewrite Z.eqb_refl, IH. Qed.


Lemma bok_incl b0 b hs : (forall y, In y b0 -> In y b) -> bok b0 hs = true -> bok b hs = true.
Proof.
  unfold bok. destruct hs as [|z r]; [auto|]. intros Hi H. apply existsb_exists in H as (y & Hy & He).
  apply existsb_exists. exists y. auto.
Qed.
Lemma bok_in b hs : In hs b -> bok b hs = true.
Proof.
  unfold bok. destruct hs as [|z r]; [auto|]. intros Hi. apply existsb_exists. exists (z :: r).
  split; [assumption|apply list_eqb_refl].
Qed.

Lemma commit_blobs_spec dirty l : forall b0,
  (forall y, In y b0 -> In y (snd (commit_blobs dirty l b0))) /\
  map fst (fst (commit_blobs dirty l b0)) = map fst l /\
  (forall d ac', aget (fst (commit_blobs dirty l b0)) d = Some ac' ->
     exists ac, aget l d = Some ac /\ a_dbal ac' = a_dbal ac /\ a_hash ac' = a_hash ac /\
       (mem d dirty && a_ddirty ac = true \/ bok b0 (a_hash ac) = true -> bok (snd (commit_blobs dirty l b0)) (a_hash ac) = true)) /\
  (forall d, aget l d = None -> aget (fst (commit_blobs dirty l b0)) d = None).
Proof.
  induction l as [|[k ac] r IH]; intros b0; cbn [commit_blobs].
  - cbn. repeat split; auto; intros; discriminate.
  - destruct (IH b0) as (I1 & I2 & I3 & I4). destruct (commit_blobs dirty r b0) as [r' b'] eqn:Ec. cbn [fst snd] in *.
    assert (Hinc : forall y, In y b0 -> In y (snd (if mem k dirty && a_ddirty ac
                      then ((k, mkA (a_dbal ac) (a_hash ac) (a_loaded ac) false) :: r', match a_hash ac with [] => b' | h :: t => (h :: t) :: b' end)
                      else ((k, ac) :: r', b')))).
    { intros y Hy. destruct (mem k dirty && a_ddirty ac); cbn; [destruct (a_hash ac); cbn; auto|auto]. }
    destruct (mem k dirty && a_ddirty ac) eqn:Ed; cbn [fst snd] in *.
    + split; [exact Hinc|]. split; [cbn; now rewrite I2|]. split.
      * intros d ac'. cbn. destruct (Z.eqb_spec k d) as [->|Hne].
        -- intros H; inversion H; subst ac'. exists ac. cbn. repeat split; auto. intros _.
           destruct (a_hash ac) eqn:Eh; [reflexivity|]. apply bok_in. cbn. auto.
        -- intros H. destruct (I3 _ _ H) as (a0 & A1 & A2 & A3 & A4). exists a0. repeat split; auto.
           intros Hc. eapply bok_incl; [|exact (A4 Hc)]. intros y Hy. destruct (a_hash ac); cbn; auto.
      * intros d. cbn. destruct (Z.eqb_spec k d); [discriminate|]. apply I4.
    + split; [exact Hinc|]. split; [cbn; now rewrite I2|]. split.
      * intros d ac'. cbn. destruct (Z.eqb_spec k d) as [->|Hne].
        -- intros H; inversion H; subst ac'. exists ac. repeat split; auto. intros [Hc|Hc]; [congruence|].
           eapply bok_incl; [|exact Hc]. exact I1.
        -- intros H. destruct (I3 _ _ H) as (a0 & A1 & A2 & A3 & A4). exists a0. repeat split; auto.
      * intros d. cbn. destruct (Z.eqb_spec k d); [discriminate|]. apply I4.
Qed.

Lemma aget_map_snd {A B} (f : A -> B) (m : list (Z * A)) d :
  aget (map (fun p => (fst p, f (snd p))) m) d = option_map f (aget m d).
Proof. induction m as [|[k y] r IH]; cbn; [reflexivity|]. destruct (Z.eqb k d); [reflexivity|exact IH]. Qed.

Lemma stat_neg_wrap T : stat_nonneg T -> stat_neg (wrap_stat T) = false.
Proof.
  intros (A&B&C&D&E&F). unfold stat_neg, wrap_stat, k_neg, kwrap, k_nonneg in *; cbn in *. lia.
Qed.

Lemma sim_commit h t x h' :
  wf h t -> R h t x -> J x -> Good (core (a_root x)) -> step h OCommitReload = Some h' ->
  wf h' 0 /\ R h' 0 (a_step x OCommitReload).
Proof.
  intros W Rx HJ HG. cbn [step a_step]. unfold commit_reload.
  destruct (intermediate_root h) as [s1|] eqn:Er; [|discriminate].
  destruct (root_spec h t x s1 W Rx HJ Er) as ([W1 WA1] & R1 & Hti & Hts & Hbl & Hac & Hadr).
  destruct (commit_blobs (adirty s1) (accts s1) (blobs s1)) as [ac b] eqn:Ec.
  intros H; inversion H; subst h'; clear H.
  destruct (commit_blobs_spec (adirty s1) (accts s1) (blobs s1)) as (C1 & C2 & C3 & C4). rewrite Ec in *. cbn [fst snd] in *.
  assert (Haj1 : ajournal s1 = []) by (rewrite <- (r_aj _ _ _ R1); reflexivity).
  assert (Hd1 : vdirty s1 = []) by (rewrite <- (r_dirty _ _ _ R1); reflexivity).
  assert (Hj1 : vjournal s1 = []).
  { pose proof (r_vjlen _ _ _ R1) as Hl. cbn in Hl. destruct (vjournal s1); [reflexivity|discriminate]. }
  assert (Hstat : t_stat s1 = stat_ s1).
  { apply Hts. rewrite <- (r_stat _ _ _ R1). destruct HG as [GV _]. rewrite (g_stat _ GV).
    apply stat_neg_wrap, goodV_nonneg, GV. }
  set (ac' := map (fun p => (fst p, mkA (a_dbal (snd p)) (a_hash (snd p)) false false)) ac).
  set (h' := mkS (arrs s1) [] (match t_index s1 with Some l => l | None => [] end) (t_stat s1) [] [] ac' [] [] 0
                 (t_vals s1) (t_index s1) (t_stat s1) b []).
  assert (Hok_all : forall d a0, aget ac d = Some a0 -> bok b (a_hash a0) = true).
  { intros d a0 E0. destruct (C3 _ _ E0) as (a1 & A1 & A2 & A3 & A4). rewrite A3. apply A4.
    destruct (mem d (adirty s1)) eqn:Em; cbn [andb].
    - destruct (a_ddirty a1) eqn:Edd; [auto|]. right.
      destruct (w_acct _ WA1 _ _ A1) as [_ Hw]. specialize (Hw Edd). now rewrite <- blob_ok_bok.
    - right. rewrite <- blob_ok_bok. apply (w_ab _ WA1 _ _ A1).
      + intros Hin. apply mem_In in Hin. congruence.
      + intros prev. rewrite Haj1. intros []. }
  split; [split|].
  - constructor; cbn.
    + lia.
    + intros a v H; discriminate.
    + intros v [[a H]|H]; [discriminate|destruct H].
    + intros v w [[a H]|H]; [discriminate|destruct H].
    + apply (w_tvals _ _ W1).
    + intros a v H; discriminate.
    + intros a v H; discriminate.
    + intros a e H; discriminate.
    + exact I.
    + intros a [].
    + constructor.
    + exact I.
    + apply (w_tnodup _ _ W1).
  - constructor; cbn.
    + intros d ac1. unfold ac'. rewrite (aget_map_snd (fun a0 => mkA (a_dbal a0) (a_hash a0) false false)). destruct (aget ac d) as [a0|] eqn:E0; [|discriminate].
      cbn. intros H; inversion H; subst ac1; clear H. cbn.
      rewrite blob_ok_bok. cbn [blobs a_hash h'].
      pose proof (Hok_all _ _ E0) as Hok.
      split; [right; exact Hok|intros _; exact Hok].
    + intros d prev [].
    + intros e [].
    + exact I.
    + unfold ac'. rewrite map_map. cbn. change (map (fun x0 : Z * acct => fst x0) ac) with (map fst ac). rewrite C2. apply (w_anodup _ WA1).
    + intros d ac1. unfold ac'. rewrite (aget_map_snd (fun a0 => mkA (a_dbal a0) (a_hash a0) false false)).
      destruct (aget ac d) as [a0|] eqn:E0; [|discriminate]. cbn. intros Hq; inversion Hq; subst ac1. intros _ _.
      rewrite blob_ok_bok. cbn [blobs a_hash h']. apply (Hok_all _ _ E0).
    + exact I.
    + exact I.
  - unfold a_setnext. constructor; cbn [core xdirty xvj xaj xrevs xnext].
    + intros a. rewrite (r_xs _ _ _ R1). unfold xpeek. cbn.
      destruct (aget (vmap s1) a) as [v|] eqn:Ev; [|reflexivity].
      destruct (v_deleted v) eqn:Ed.
      * rewrite (w_tomb _ _ W1 _ _ Ev Ed); [reflexivity|rewrite Hd1; auto|rewrite Hj1; auto].
      * destruct (w_coh _ _ W1 a v Ev Ed) as (p & P1 & P2 & P3); [rewrite Hd1; auto|rewrite Hj1; auto|].
        rewrite P1. destruct (w_tvals _ _ W1 _ _ P1) as [_ Hn]. rewrite Hn. unfold absv.
        rewrite P3, P2. reflexivity.
    + cbn. rewrite Hti. apply R1.
    + cbn. rewrite Hstat. apply R1.
    + intros d. cbn [accts h']. unfold ac'. rewrite (aget_map_snd (fun a0 => mkA (a_dbal a0) (a_hash a0) false false)). rewrite (r_accts _ _ _ R1 d).
      destruct (aget (accts s1) d) as [a1|] eqn:E1.
      * destruct (aget ac d) as [a0|] eqn:E0.
        -- destruct (C3 _ _ E0) as (a2 & A1 & A2 & A3 & _). rewrite E1 in A1. inversion A1; subst a2.
           cbn. unfold ess. cbn. now rewrite A2, A3.
        -- exfalso. assert (In d (map fst ac)).
           { rewrite C2. apply aget_keys. congruence. }
           apply aget_keys in H. congruence.
      * rewrite (C4 _ E1). reflexivity.
    + reflexivity.
    + reflexivity.
    + reflexivity.
    + reflexivity.
    + reflexivity.
    + reflexivity.
    + reflexivity.
Qed.

(* ---- Copy ------------------------------------------------------------------------------------- *)

Record CI (h s : state) (m : list (Z * val)) (dirt : list Z) : Prop := {
  ci_s : s = w_arrs h (arrs s);
  ci_le : heap_le h s;
  ci_nodup : NoDup (map fst m);
  ci_sorted : zsorted dirt;
  ci_dirt : forall a, In a dirt <-> aget m a <> None;
  ci_vals : forall a w, aget m a = Some w ->
      exists v, aget (vmap h) a = Some v /\ v_deleted w = v_deleted v /\ norm w = norm v /\
                view s w = view h v /\ val_wf s a (set_deleted w false) /\
                (v_aid w = v_aid v \/ (length (arrs h) <= v_aid w)%nat);
  ci_sep : forall a b wa wb, a <> b -> aget m a = Some wa -> aget m b = Some wb -> v_aid wa <> v_aid wb }.

Lemma val_wf_view_le h s a v : heap_le h s -> val_wf h a v -> view s v = view h v.
Proof. intros Hle (_ & _ & H3 & _). now apply view_le. Qed.

Lemma set_deleted_false_live v : v_deleted v = false -> set_deleted v false = v.
Proof. destruct v; cbn. intros ->. reflexivity. Qed.

Lemma vmap_wf_any h t a v : wfv h t -> aget (vmap h) a = Some v -> v_addr v = a /\ val_wf h a (set_deleted v false).
Proof.
  intros W Hv. destruct (w_vmap _ _ W _ _ Hv) as (H1 & H2 & H3). split; [exact H1|].
  destruct (v_deleted v) eqn:Ed; [exact (H3 eq_refl)|]. rewrite set_deleted_false_live by assumption. exact (H2 eq_refl).
Qed.

Lemma view_set_deleted h v b : view h (set_deleted v b) = view h v.
Proof. destruct v; reflexivity. Qed.

Lemma deep_copy_spec h t s m dirt a v :
  wfv h t -> CI h s m dirt -> aget (vmap h) a = Some v ->
  exists s' w, deep_copy s v = Some (s', w) /\ CI h s' (aset m a w) (sins a dirt).
Proof.
  intros W C Hv. destruct (vmap_wf_any h t a v W Hv) as [Hva Hvwf].
  pose proof (ci_le _ _ _ _ C) as Hle.
  assert (Hview : view s v = view h v).
  { rewrite <- (view_set_deleted s v false), <- (view_set_deleted h v false). eapply val_wf_view_le; eauto. }
  assert (Hvwfs : val_wf s a (set_deleted v false)) by (eapply val_wf_le; eauto).
  assert (Haidv : (v_aid v < length (arrs h))%nat) by (destruct Hvwf as (_ & _ & H3 & _); destruct v; exact H3).
  assert (Hsep_old : forall b wb, a <> b -> aget m b = Some wb -> v_aid wb <> v_aid v /\ (v_aid wb < length (arrs s))%nat).
  { intros b wb Hne Hb. destruct (ci_vals _ _ _ _ C _ _ Hb) as (vb & B1 & B2 & B3 & B5 & B6 & B7).
    split; [|destruct B6 as (_ & _ & H3 & _); destruct wb; exact H3]. destruct B7 as [E|E].
    - rewrite E. destruct (w_vmap _ _ W _ _ B1) as (Hba & _). apply (w_sep _ _ W); [left; eauto|left; eauto|congruence].
    - lia. }
  assert (Hcommon : forall s' w, heap_le s s' -> s' = w_arrs h (arrs s') -> v_deleted w = v_deleted v -> norm w = norm v ->
            view s' w = view h v -> val_wf s' a (set_deleted w false) -> (v_aid w = v_aid v \/ (length (arrs h) <= v_aid w)%nat) ->
            (forall b wb, a <> b -> aget m b = Some wb -> v_aid wb <> v_aid w) ->
            CI h s' (aset m a w) (sins a dirt)).
  { intros s' w Hle' Hs' Hwd Hwn Hwv Hwwf Hwaid Hwsep. constructor.
    - exact Hs'.
    - eapply heap_le_trans; eauto.
    - apply NoDup_aset, C.
    - apply zsorted_sins, C.
    - intros b. rewrite In_sins. destruct (Z.eq_dec b a) as [->|Hne].
      + rewrite aget_aset_same. split; [discriminate|auto].
      + rewrite aget_aset_other by assumption. rewrite (ci_dirt _ _ _ _ C). intuition.
    - intros b wb. destruct (Z.eq_dec b a) as [->|Hne].
      + rewrite aget_aset_same. intros E; inversion E; subst wb. exists v.
        exact (conj Hv (conj Hwd (conj Hwn (conj Hwv (conj Hwwf Hwaid))))).
      + rewrite aget_aset_other by assumption. intros Hb.
        destruct (ci_vals _ _ _ _ C _ _ Hb) as (vb & B1 & B2 & B3 & B5 & B6 & B7).
        exists vb. split; [exact B1|]. split; [exact B2|]. split; [exact B3|].
        assert (Hr : (v_aid wb < length (arrs s))%nat) by (destruct B6 as (_ & _ & H3 & _); destruct wb; exact H3).
        split; [rewrite <- B5; apply view_le; assumption|]. split; [eapply val_wf_le; eauto|exact B7].
    - intros b1 b2 w1 w2 Hne. destruct (Z.eq_dec b1 a) as [->|N1], (Z.eq_dec b2 a) as [->|N2]; try congruence.
      + rewrite aget_aset_same, aget_aset_other by assumption. intros E Hb; inversion E; subst w1.
        intros Heq. apply (Hwsep _ _ Hne Hb). congruence.
      + rewrite aget_aset_other, aget_aset_same by assumption. intros Hb E; inversion E; subst w2.
        apply (Hwsep b1 w1); [congruence|exact Hb].
      + rewrite !aget_aset_other by assumption. apply (ci_sep _ _ _ _ C); assumption. }
  unfold deep_copy. destruct (Nat.eqb_spec (v_len v) 0) as [Hz|Hnz].
  - exists s, v. split; [reflexivity|]. apply Hcommon; auto.
    + apply heap_le_refl.
    + apply C.
    + intros b wb Hne Hb. apply (Hsep_old _ _ Hne Hb).
  - rewrite Hview. destruct Hvwf as (A1 & A2 & A3 & A4 & A5).
    rewrite view_set_deleted in A5. rewrite A5. unfold alloc.
    set (s' := w_arrs s (arrs s ++ [view h v])). set (w := set_view v (length (arrs s)) (v_len v)).
    exists s', w. split; [reflexivity|].
    assert (Harrof : arr_of s' (length (arrs s)) = view h v).
    { unfold arr_of, s'; cbn. rewrite app_nth2 by lia. now rewrite Nat.sub_diag. }
    assert (Hlenv : length (view h v) = v_len v).
    { unfold view. apply firstn_length_le. destruct v; exact A4. }
    assert (Hwv : view s' w = view h v).
    { unfold view at 1. replace (v_aid w) with (length (arrs s)) by (destruct v; reflexivity).
      replace (v_len w) with (v_len v) by (destruct v; reflexivity). rewrite Harrof, <- Hlenv. apply firstn_all. }
    apply Hcommon.
    + apply heap_le_alloc.
    + unfold s'. rewrite (ci_s _ _ _ _ C). reflexivity.
    + destruct v; reflexivity.
    + apply norm_set_view.
    + exact Hwv.
    + unfold val_wf. rewrite view_set_deleted, Hwv.
      replace (v_aid (set_deleted w false)) with (length (arrs s)) by (destruct v; reflexivity).
      replace (v_len (set_deleted w false)) with (v_len v) by (destruct v; reflexivity). rewrite Harrof.
      split; [destruct v; exact A1|]. split; [destruct v; reflexivity|]. cbn [arrs s' w_arrs]. rewrite app_length. cbn.
      split; [lia|]. split; [lia|exact A5].
    + right. replace (v_aid w) with (length (arrs s)) by (destruct v; reflexivity). destruct Hle. lia.
    + intros b wb Hne Hb. destruct (Hsep_old _ _ Hne Hb) as [_ Hr].
      replace (v_aid w) with (length (arrs s)) by (destruct v; reflexivity). lia.
Qed.

Lemma copy_vals1_spec h t l : forall s m dirt r,
  wfv h t -> CI h s m dirt ->
  (forall a, In a l -> aget (vmap h) a <> None) ->
  copy_vals1 s l m dirt = Some r ->
  let '(s', m', dirt') := r in
  CI h s' m' dirt' /\ (forall a, aget m' a <> None <-> aget m a <> None \/ In a l).
Proof.
  induction l as [|a r0 IH]; intros s m dirt r W C Hl; cbn [copy_vals1].
  - intros H; inversion H; subst r. split; [exact C|]. intros a. cbn. tauto.
  - assert (vmap s = vmap h) as Evm by (rewrite (ci_s _ _ _ _ C); reflexivity). rewrite Evm.
    pose proof (Hl a (or_introl eq_refl)) as Hpa. destruct (aget (vmap h) a) as [v|] eqn:Hv; [|congruence].
    destruct (deep_copy_spec h t s m dirt a v W C Hv) as (s' & w & Hdc & C'). rewrite Hdc.
    intros Hr. specialize (IH s' (aset m a w) (sins a dirt) r W C' (fun b Hb => Hl b (or_intror Hb)) Hr).
    destruct r as [[s2 m2] d2]. destruct IH as [C2 Hk]. split; [exact C2|].
    intros b. rewrite Hk. cbn. destruct (Z.eq_dec b a) as [->|Hne].
    + rewrite aget_aset_same. split; [auto|intros _; left; discriminate].
    + rewrite aget_aset_other by assumption. intuition.
Qed.

Lemma copy_vals2_spec h t l : forall s m dirt idx r,
  wfv h t -> CI h s m dirt -> zsorted idx ->
  (forall a, In a l -> aget (vmap h) a <> None) ->
  (forall a, In a l -> aget m a <> None \/ In a idx) ->
  copy_vals2 s l m dirt idx = Some r ->
  let '(s', m', dirt', idx') := r in
  CI h s' m' dirt' /\ idx' = idx /\ (forall a, aget m' a <> None <-> aget m a <> None \/ In a l).
Proof.
  induction l as [|a r0 IH]; intros s m dirt idx r W C Hzs Hl Hidx; cbn [copy_vals2].
  - intros H; inversion H; subst r. split; [exact C|]. split; [reflexivity|]. intros a. cbn. tauto.
  - destruct (aget m a) as [w0|] eqn:Em.
    + intros Hr. specialize (IH s m dirt idx r W C Hzs (fun b Hb => Hl b (or_intror Hb)) (fun b Hb => Hidx b (or_intror Hb)) Hr).
      destruct r as [[[s2 m2] d2] i2]. destruct IH as (C2 & Hi & Hk). split; [exact C2|]. split; [exact Hi|].
      intros b. rewrite Hk. cbn. split; [tauto|]. intros [H|[<-|H]]; [auto| |auto]. left. congruence.
    + assert (vmap s = vmap h) as Evm by (rewrite (ci_s _ _ _ _ C); reflexivity). rewrite Evm.
      pose proof (Hl a (or_introl eq_refl)) as Hpa. destruct (aget (vmap h) a) as [v|] eqn:Hv; [|congruence].
      destruct (deep_copy_spec h t s m dirt a v W C Hv) as (s' & w & Hdc & C'). rewrite Hdc.
      assert (Hina : In a idx) by (destruct (Hidx a (or_introl eq_refl)) as [H|H]; [congruence|exact H]).
      rewrite (sins_present a idx Hzs Hina).
      intros Hr.
      assert (Hidx' : forall b, In b r0 -> aget (aset m a w) b <> None \/ In b idx).
      { intros b Hb. destruct (Hidx b (or_intror Hb)) as [H|H]; [|auto]. left.
        destruct (Z.eq_dec b a) as [->|Hne]; [rewrite aget_aset_same; discriminate|now rewrite aget_aset_other]. }
      specialize (IH s' (aset m a w) (sins a dirt) idx r W C' Hzs (fun b Hb => Hl b (or_intror Hb)) Hidx' Hr).
      destruct r as [[[s2 m2] d2] i2]. destruct IH as (C2 & Hi & Hk). split; [exact C2|]. split; [exact Hi|].
      intros b. rewrite Hk. cbn. destruct (Z.eq_dec b a) as [->|Hne].
      * rewrite aget_aset_same. split; [auto|intros _; left; discriminate].
      * rewrite aget_aset_other by assumption. intuition.
Qed.

Lemma zsorted_ext l1 : forall l2, zsorted l1 -> zsorted l2 -> (forall a, In a l1 <-> In a l2) -> l1 = l2.
Proof.
  induction l1 as [|x r IH]; intros [|y r2] H1 H2 He.
  - reflexivity.
  - exfalso. apply (proj2 (He y)). cbn; auto.
  - exfalso. apply (proj1 (He x)). cbn; auto.
  - destruct H1 as [L1 S1], H2 as [L2 S2].
    assert (x = y).
    { destruct (proj1 (He x) (or_introl eq_refl)) as [E|Hin]; [auto|].
      destruct (proj2 (He y) (or_introl eq_refl)) as [E|Hin2]; [auto|].
      specialize (L1 _ Hin2). specialize (L2 _ Hin). lia. }
    subst y. f_equal. apply IH; try assumption. intros a. split; intros Hin.
    + destruct (proj1 (He a) (or_intror Hin)) as [E|H]; [|exact H]. subst a. specialize (L1 _ Hin). lia.
    + destruct (proj2 (He a) (or_intror Hin)) as [E|H]; [|exact H]. subst a. specialize (L2 _ Hin). lia.
Qed.

Lemma vj_dirties_In h a : In a (vj_dirties h) <-> In a (map ventry_addr (vjournal h)).
Proof.
  unfold vj_dirties.
  assert (forall j d0, fold_left (fun acc e => sins (ventry_addr e) acc) j d0
                       = fold_left (fun acc b => sins b acc) (map ventry_addr j) d0) as E
    by (induction j as [|e r IH]; intros d0; cbn; [reflexivity|apply IH]).
  rewrite E, fold_sins_In. cbn. tauto.
Qed.

Lemma J_index_sorted h t x : R h t x -> J x -> zsorted (vindex h).
Proof.
  intros Rx (([Hs _ _ Hix] & _) & _). rewrite <- (r_index _ _ _ Rx), Hix. now apply ssorted_keys.
Qed.

Lemma sim_copy h t x h' :
  wf h t -> R h t x -> J x -> hpre h t OCopy = true -> step h OCopy = Some h' ->
  wf h' 0 /\ R h' 0 (a_step x OCopy).
Proof.
  intros [W WA] Rx HJ Hp. cbn [step a_step hpre] in *. unfold copy.
  assert (C0 : CI h h [] []).
  { constructor; try (intros; discriminate).
    - destruct h; reflexivity.
    - apply heap_le_refl.
    - constructor.
    - exact I.
    - intros a. cbn. tauto. }
  assert (Hl1 : forall a, In a (vj_dirties h) -> aget (vmap h) a <> None).
  { intros a Ha. apply vj_dirties_In in Ha. apply in_map_iff in Ha as (e & <- & He). exact (jlive_present h t e W He). }
  destruct (copy_vals1 h (vj_dirties h) [] []) as [[[s1 m1] d1]|] eqn:E1; [|discriminate].
  pose proof (copy_vals1_spec h t (vj_dirties h) h [] [] _ W C0 Hl1 E1) as [C1 K1].
  assert (Hzs : zsorted (vindex h)) by (eapply J_index_sorted; eauto).
  assert (Hl2 : forall a, In a (vdirty h) -> aget (vmap h) a <> None) by apply (w_dirty _ _ W).
  assert (Hidx : forall a, In a (vdirty h) -> aget m1 a <> None \/ In a (vindex h)).
  { intros a Ha. rewrite forallb_forall in Hp. specialize (Hp a Ha).
    destruct (mem a (vj_dirties h)) eqn:Em.
    - left. apply K1. right. now apply mem_In.
    - cbn in Hp. right. pose proof (Hl2 a Ha) as Hpa. destruct (aget (vmap h) a) as [v|] eqn:Hv; [|congruence].
      destruct (v_deleted v) eqn:Hvd; [discriminate|].
      destruct (index_live h t x a Rx HJ) as [Hin _]; [rewrite (xpeek_live _ _ _ Hv Hvd); discriminate|exact Hin]. }
  destruct (copy_vals2 s1 (vdirty h) m1 d1 (vindex h)) as [[[[s2 m2] d2] idx]|] eqn:E2; [|discriminate].
  pose proof (copy_vals2_spec h t (vdirty h) s1 m1 d1 (vindex h) _ W C1 Hzs Hl2 Hidx E2) as (C2 & -> & K2).
  intros H; inversion H; subst h'; clear H.
  set (adirt := finalise_adirty h).
  set (g := fun (k : Z) (a0 : acct) => if mem k adirt then a0 else mkA (a_dbal a0) (a_hash a0) false false).
  set (ac' := map (fun p => (fst p, if mem (fst p) adirt then snd p
                                    else mkA (a_dbal (snd p)) (a_hash (snd p)) false false)) (accts h)).
  assert (Hacg : forall d, aget ac' d = option_map (g d) (aget (accts h) d)).
  { intros d. unfold ac', g. induction (accts h) as [|[k y] r IH]; cbn; [reflexivity|].
    destruct (Z.eqb_spec k d) as [->|Hne]; [reflexivity|exact IH]. }
  assert (Hreset : forall d a0, aget (accts h) d = Some a0 -> mem d adirt = false -> blob_ok h a0 = true).
  { intros d a0 Hd Hm. apply (w_ab _ WA _ _ Hd).
    - intros Hin. assert (In d adirt) by (apply finalise_adirty_In; auto). apply mem_In in H. congruence.
    - intros prev Hin. assert (In d adirt).
      { apply finalise_adirty_In. right. exists (JDlgs d prev). split; [exact Hin|]. split; [reflexivity|congruence]. }
      apply mem_In in H. congruence. }
  set (h' := mkS (arrs s2) m2 (vindex h) (stat_ h) [] d2 ac' [] [] 0 (t_vals h) (t_index h) (t_stat h) (blobs h) adirt).
  assert (Hkeys : forall a, aget m2 a <> None <-> In a (map ventry_addr (vjournal h)) \/ In a (vdirty h)).
  { intros a. rewrite K2, K1. cbn. rewrite vj_dirties_In. intuition congruence. }
  assert (Harr : arrs h' = arrs s2) by reflexivity.
  assert (Hreach : forall u, reachable h' 0 u -> exists a, aget m2 a = Some u).
  { intros u [Hu|Hu]; [exact Hu|destruct Hu]. }
  assert (Hval : forall a w, aget m2 a = Some w -> v_addr w = a /\ val_wf h' a (set_deleted w false)).
  { intros a w Hw. destruct (ci_vals _ _ _ _ C2 _ _ Hw) as (v & B1 & B2 & B3 & B5 & B6 & B7).
    split; [destruct B6 as (Ha & _); destruct w; exact Ha|]. eapply val_wf_eq; [exact Harr|exact B6]. }
  split; [split|].
  - constructor; cbn [vjournal vmap vdirty t_vals arrs h'].
    + cbn. lia.
    + intros a w Hw. destruct (Hval _ _ Hw) as (A1 & A2). split; [exact A1|]. split.
      * intros Hd. rewrite <- (set_deleted_false_live w Hd). exact A2.
      * intros _. exact A2.
    + intros u Hu. destruct (Hreach _ Hu) as (a & Ha). destruct (Hval _ _ Ha) as (_ & (_ & _ & A3 & _)). destruct u; exact A3.
    + intros u1 u2 H1 H2 Hne. destruct (Hreach _ H1) as (a1 & Ha1), (Hreach _ H2) as (a2 & Ha2).
      destruct (Hval _ _ Ha1) as (A1 & _), (Hval _ _ Ha2) as (A2 & _).
      apply (ci_sep _ _ _ _ C2 a1 a2); [congruence|assumption|assumption].
    + apply (w_tvals _ _ W).
    + intros a w Hw Hd N1 N2. exfalso. apply N1. apply (ci_dirt _ _ _ _ C2). congruence.
    + intros a w Hw Hd N1 N2. exfalso. apply N1. apply (ci_dirt _ _ _ _ C2). congruence.
    + intros a e H; discriminate.
    + exact I.
    + intros a Ha. apply (ci_dirt _ _ _ _ C2) in Ha. exact Ha.
    + apply C2.
    + apply C2.
    + apply (w_tnodup _ _ W).
  - constructor; cbn [accts ajournal blobs adirty h'].
    + intros d ac1. rewrite Hacg. destruct (aget (accts h) d) as [a0|] eqn:E0; [|discriminate]. cbn.
      intros H; inversion H; subst ac1; clear H. unfold g. destruct (mem d adirt) eqn:Em.
      * apply (w_acct _ WA _ _ E0).
      * pose proof (Hreset _ _ E0 Em) as Hb.
        assert (Hb' : blob_ok h' (mkA (a_dbal a0) (a_hash a0) false false) = true) by exact Hb.
        split; [right; exact Hb'|intros _; exact Hb'].
    + intros d prev [].
    + intros e [].
    + exact I.
    + unfold ac'. rewrite map_map. cbn. change (map (fun x0 : Z * acct => fst x0) (accts h)) with (map fst (accts h)).
      apply (w_anodup _ WA).
    + intros d ac1. rewrite Hacg. destruct (aget (accts h) d) as [a0|] eqn:E0; [|discriminate]. cbn.
      intros H; inversion H; subst ac1; clear H. intros Hnd _. unfold g.
      destruct (mem d adirt) eqn:Em; [exfalso; apply Hnd, mem_In, Em|].
      exact (Hreset _ _ E0 Em).
    + exact I.
    + apply finalise_adirty_sorted, (w_adsorted _ WA).
  - unfold a_setnext, a_finalise. constructor; cbn [core xdirty xvj xaj xrevs xnext].
    + intros a. rewrite (r_xs _ _ _ Rx). unfold xpeek at 2. cbn [vmap t_vals h'].
      destruct (aget m2 a) as [w|] eqn:Ew.
      * destruct (ci_vals _ _ _ _ C2 _ _ Ew) as (v & B1 & B2 & B3 & B5 & B6 & B7).
        unfold xpeek. rewrite B1, B2. destruct (v_deleted v); [reflexivity|]. unfold absv. rewrite B3.
        replace (view h' w) with (view s2 w) by (unfold view, arr_of; reflexivity). now rewrite B5.
      * assert (Hnd : ~ (In a (map ventry_addr (vjournal h)) \/ In a (vdirty h))).
        { intros Hc. apply Hkeys in Hc. congruence. }
        unfold xpeek. destruct (aget (vmap h) a) as [v|] eqn:Ev; [|reflexivity].
        destruct (v_deleted v) eqn:Ed.
        -- rewrite (w_tomb _ _ W _ _ Ev Ed); [reflexivity|tauto|tauto].
        -- destruct (w_coh _ _ W a v Ev Ed) as (p & P1 & P2 & P3); [tauto|tauto|].
           rewrite P1. destruct (w_tvals _ _ W _ _ P1) as [_ Hn]. rewrite Hn. unfold absv. rewrite P3, P2. reflexivity.
    + apply Rx.
    + apply Rx.
    + intros d. cbn [accts h']. rewrite Hacg.
      rewrite (r_accts _ _ _ Rx d). destruct (aget (accts h) d); [|reflexivity]. cbn. unfold g.
      destruct (mem d adirt); reflexivity.
    + cbn [vdirty h']. apply zsorted_ext.
      * rewrite fin_dirty_a. apply zsorted_fold_sins. rewrite (r_dirty _ _ _ Rx). apply (w_dsorted _ _ W).
      * apply C2.
      * intros a. rewrite fin_dirty_a, fold_sins_In, (r_dirty _ _ _ Rx), (r_vja _ _ _ Rx).
        rewrite (ci_dirt _ _ _ _ C2), Hkeys. tauto.
    + reflexivity.
    + reflexivity.
    + reflexivity.
    + reflexivity.
    + reflexivity.
    + reflexivity.
Qed.
