(* C08 - the property holds for the value-level semantics (Abstract.v) on every
   history whose operations meet the callers' discipline [a_pre], including
   reverts to any valid revision. *)
From VF.C08 Require Import Model Abstract.
From Coq Require Import Lia ZifyBool.
Local Open Scope Z_scope.

(* ---- sorted association lists ------------------------------------------- *)

Fixpoint ssorted {A} (m : list (Z * A)) : Prop :=
  match m with
  | [] => True
  | (k, _) :: r => (forall k' x, In (k', x) r -> k < k') /\ ssorted r
  end.

Lemma aget_In {A} (m : list (Z * A)) k x : aget m k = Some x -> In (k, x) m.
Proof.
  induction m as [|[k' y] r IH]; cbn; [discriminate|].
  destruct (Z.eqb_spec k' k) as [->|Hne]; intros H.
  - inversion H; subst; auto.
  - right; auto.
Qed.

Lemma In_aget {A} (m : list (Z * A)) k x : ssorted m -> In (k, x) m -> aget m k = Some x.
Proof.
  induction m as [|[k' y] r IH]; cbn; [tauto|].
  intros [Hlt Hs] [Heq|Hin].
  - inversion Heq; subst. now rewrite Z.eqb_refl.
  - destruct (Z.eqb_spec k' k) as [->|Hne]; [|auto].
    specialize (Hlt _ _ Hin). lia.
Qed.

Lemma aget_None_notin {A} (m : list (Z * A)) k x : aget m k = None -> ~ In (k, x) m.
Proof.
  induction m as [|[k' y] r IH]; cbn; [tauto|].
  destruct (Z.eqb_spec k' k) as [->|Hne]; [discriminate|].
  intros H [Heq|Hin]; [inversion Heq; congruence | now apply IH].
Qed.

Lemma aget_sset_same {A} (m : list (Z * A)) k x : aget (sset m k x) k = Some x.
Proof.
  induction m as [|[k' y] r IH]; cbn; [now rewrite Z.eqb_refl|].
  destruct (Z.ltb_spec k k'); cbn; [now rewrite Z.eqb_refl|].
  destruct (Z.eqb_spec k k') as [->|Hne]; cbn; [now rewrite Z.eqb_refl|].
  destruct (Z.eqb_spec k' k); [lia|auto].
Qed.

Lemma aget_sset_other {A} (m : list (Z * A)) k x k' : k' <> k -> aget (sset m k x) k' = aget m k'.
Proof.
  intros Hne. induction m as [|[k2 y] r IH]; cbn.
  - destruct (Z.eqb_spec k k'); [lia|reflexivity].
  - destruct (Z.ltb_spec k k2); cbn.
    + destruct (Z.eqb_spec k k'); [lia|reflexivity].
    + destruct (Z.eqb_spec k k2) as [->|Hne2]; cbn.
      * destruct (Z.eqb_spec k2 k'); [lia|reflexivity].
      * destruct (Z.eqb_spec k2 k'); [reflexivity|auto].
Qed.

Lemma aget_adel_other {A} (m : list (Z * A)) k k' : k' <> k -> aget (adel m k) k' = aget m k'.
Proof.
  intros Hne. induction m as [|[k2 y] r IH]; cbn; [reflexivity|].
  destruct (Z.eqb_spec k2 k) as [->|Hne2]; cbn.
  - destruct (Z.eqb_spec k k'); [lia|reflexivity].
  - destruct (Z.eqb_spec k2 k'); [reflexivity|auto].
Qed.

Lemma In_adel {A} (m : list (Z * A)) k p : In p (adel m k) -> In p m.
Proof.
  induction m as [|[k2 y] r IH]; cbn; [tauto|].
  destruct (Z.eqb_spec k2 k); cbn; tauto.
Qed.

Lemma ssorted_adel {A} (m : list (Z * A)) k : ssorted m -> ssorted (adel m k).
Proof.
  induction m as [|[k2 y] r IH]; cbn; [tauto|].
  intros [Hlt Hs]. destruct (Z.eqb_spec k2 k); cbn; [assumption|].
  split; [|auto]. intros k' x Hin. eapply Hlt, In_adel, Hin.
Qed.

Lemma aget_adel_same {A} (m : list (Z * A)) k : ssorted m -> aget (adel m k) k = None.
Proof.
  induction m as [|[k2 y] r IH]; cbn; [reflexivity|].
  intros [Hlt Hs]. destruct (Z.eqb_spec k2 k) as [->|Hne]; cbn.
  - destruct (aget r k) eqn:E; [|reflexivity].
    apply aget_In in E. specialize (Hlt _ _ E). lia.
  - destruct (Z.eqb_spec k2 k); [lia|auto].
Qed.

Lemma In_sset {A} (m : list (Z * A)) k x p : In p (sset m k x) -> p = (k, x) \/ In p m.
Proof.
Show.
