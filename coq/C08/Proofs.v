(* C08 - assembly: the property holds for the faithful model on every history
   outside the finding classes; witnesses inside each class; the validator order. *)
From VF.C08 Require Import Model Abstract ProofsA ProofsSim.
From Coq Require Import Lia ZifyBool Setoid.
Local Open Scope Z_scope.

(* ---- histories outside the finding classes ----------------------------------- *)

Fixpoint safe_from (h : state) (t : nat) (ops : list op) : bool :=
  match ops with
  | [] => true
  | o :: r => hpre h t o && match step h o with
                            | Some h' => safe_from h' (taint_next h t o h') r
                            | None => true
                            end
  end.
Definition safe (ops : list op) : bool := safe_from init 0 ops.

(* ---- the preconditions on the faithful state imply the value-level ones -------- *)

Lemma universe_In h a : In a (universe h) <-> In a (keys (vmap h)) \/ In a (keys (t_vals h)).
Proof.
  unfold universe.
  assert (E : forall l d0, In a (fold_left (fun acc b => sins b acc) l d0) <-> In a d0 \/ In a l) by (intros; apply fold_sins_In).
  rewrite E, in_app_iff. cbn. tauto.
Qed.

Lemma xpeek_universe h a : xpeek h a <> None -> In a (universe h).
Proof.
  unfold xpeek. intros H. apply universe_In. unfold keys.
  destruct (aget (vmap h) a) eqn:E1; [left; apply aget_keys; congruence|].
  destruct (aget (t_vals h) a) eqn:E2; [right; apply aget_keys; congruence|congruence].
Qed.

Lemma hpre_apre h t x o : R h t x -> J x -> hpre h t o = true ->
  (forall a, o = ORemove a -> exists v, aget (vmap h) a = Some v /\ v_deleted v = false) ->
  a_pre x o = true.
Proof.
  intros Rx HJ Hp Hrm. destruct o; cbn [hpre a_pre] in *; try reflexivity.
  - auto.
  - now rewrite (r_xs _ _ _ Rx).
  - now rewrite (r_xs _ _ _ Rx).
  - destruct (Hrm a eq_refl) as (v & Hv & Hvd). rewrite Hv, Hvd in Hp. cbn in Hp. apply Nat.eqb_eq in Hp.
    rewrite (r_xs _ _ _ Rx), (xpeek_live _ _ _ Hv Hvd). unfold absv, view. now rewrite Hp.
  - rewrite (r_xs _ _ _ Rx). destruct (xpeek h a) as [[v l]|]; [|auto].
    rewrite (r_accts _ _ _ Rx d). unfold tokl. destruct (aget (accts h) d); cbn; auto.
  - rewrite (r_revs _ _ _ Rx). destruct (aget (revs h) id) as [[aj vj]|]; auto.
Qed.

(* ---- one step -------------------------------------------------------------------- *)

Theorem sim_step h t x o h' :
  wf h t -> R h t x -> J x -> hpre h t o = true -> step h o = Some h' ->
  wf h' (taint_next h t o h') /\ R h' (taint_next h t o h') (a_step_h h x o) /\ J (a_step_h h x o).
Proof.
  intros W Rx HJ Hp Hs.
  assert (HJ' : J (a_step_h h x o)).
  { destruct o; cbn [a_step_h]; try (apply J_step; [assumption|eapply hpre_apre; eauto; intros ? E; discriminate]).
    destruct (aget (vmap h) a) as [v|] eqn:Hv; [|assumption]. destruct (v_deleted v) eqn:Hvd; [assumption|].
    apply J_step; [assumption|]. eapply hpre_apre; eauto. intros a0 E. inversion E; subst a0. eauto. }
  destruct o; cbn [taint_next a_step_h] in *.
  - destruct (sim_fund _ _ _ _ _ W Rx Hs); auto.
  - destruct (sim_create _ _ _ _ _ _ _ _ _ W Rx HJ Hs); auto.
  - destruct (sim_update _ _ _ _ _ _ W Rx HJ Hs); auto.
  - destruct (sim_update_in _ _ _ _ _ _ W Rx HJ Hs); auto.
  - destruct (sim_remove _ _ _ _ _ W Rx HJ Hp Hs); auto.
  - destruct (sim_delegate _ _ _ _ _ _ _ W Rx HJ Hp Hs) as [A B]. auto.
  - destruct (sim_snapshot _ _ _ _ W Rx Hs); auto.
  - destruct (sim_revert _ _ _ _ _ W Rx HJ Hp Hs) as (A & B & C). rewrite C. auto.
  - destruct (sim_finalise _ _ _ _ W Rx Hs); auto.
  - destruct (sim_root _ _ _ _ W Rx HJ Hs); auto.
  - assert (HG : Good (core (a_root x))).
    { assert (J (a_step x ORoot)) as (G & _) by (apply J_step; [assumption|reflexivity]). exact G. }
    destruct (sim_commit _ _ _ _ W Rx HJ HG Hs); auto.
  - destruct (sim_copy _ _ _ _ W Rx HJ Hp Hs); auto.
  - destruct (sim_list _ _ _ _ W Rx HJ Hp Hs); auto.
Qed.

Lemma wf_init : wf init 0.
Proof.
  split.
  - constructor; cbn; try (intros; discriminate); try exact I; try constructor.
    all: try (intros v [[a H]|[]]; discriminate).
    all: try (intros v w [[a H]|[]]; discriminate).
    all: try (intros a []).
  - constructor; cbn; try (intros; discriminate); try exact I; try constructor.
    all: try (intros d prev H; destruct H; fail).
    all: try (intros e H; destruct H; fail).
Qed.

Lemma R_init : R init 0 ainit.
Proof. constructor; cbn; try reflexivity; intros; reflexivity. Qed.

Theorem run_sim ops : forall h t x s,
  wf h t -> R h t x -> J x -> safe_from h t ops = true -> run h ops = Some s ->
  exists t' x', wf s t' /\ R s t' x' /\ J x'.
Proof.
  induction ops as [|o r IH]; intros h t x s W Rx HJ Hsafe Hrun; cbn in *.
  - inversion Hrun; subst. eauto.
  - apply andb_prop in Hsafe as [Hp Hr]. destruct (step h o) as [h'|] eqn:Es; [|discriminate].
    destruct (sim_step _ _ _ _ _ W Rx HJ Hp Es) as (W' & R' & J'). eapply IH; eauto.
Qed.

(* ---- the decomposition of every record into its components ------------------------ *)

(* total = own part + delegations, and every stake is the floor of its own token: the total stake is the SUM
   of the floors, not the floor of the total token *)
Definition decomposed (x : xval) : Prop :=
  v_token (fst x) = v_stoken (fst x) + dsum d_token (snd x) /\
  v_stake (fst x) = v_sstake (fst x) + dsum d_stake (snd x) /\
  v_sstake (fst x) = v_stoken (fst x) / stake_unit /\
  forall e, In e (snd x) -> d_stake e = d_token e / stake_unit.

(* every operation that meets the callers' discipline keeps every record decomposed ... *)
Lemma decomposition_preserved s o : J s -> a_pre s o = true ->
  forall a x, aget (xs (core (a_step s o))) a = Some x -> decomposed x.
Proof.
  intros HJ Hp a x Hx. destruct (J_step s o HJ Hp) as ((V & _) & _).
  destruct (g_vals _ V _ _ Hx) as (_ & _ & _ & _ & H5 & H6 & H7 & (_ & H8) & _).
  refine (conj H6 (conj H7 (conj H5 _))). intros e He. apply (H8 e He).
Qed.

(* ... and for an update the discipline is exactly "adjust the totals by the deltas of the own part" *)
Lemma upd_ok_deltas old u : upd_ok old u = true ->
  u_token u - v_token old = u_stoken u - v_stoken old /\
  u_stake u - v_stake old = u_sstake u - v_sstake old /\
  u_sstake u = u_stoken u / stake_unit.
Proof.
  unfold upd_ok. intros H. repeat (apply andb_prop in H as [H ?]).
  repeat match goal with E : Z.eqb _ _ = true |- _ => apply Z.eqb_eq in E end. lia.
Qed.

(* ---- from the value-level invariant to the executable property -------------------- *)

Definition absx (y : val * list (option dfrom)) : xval := (norm (fst y), stripd (snd y)).

Lemma xpeek_peek h a : xpeek h a = option_map absx (peek h a).
Proof.
  unfold xpeek, peek. destruct (aget (vmap h) a) as [v|].
  - destruct (v_deleted v); reflexivity.
  - destruct (aget (t_vals h) a) as [p|]; [|reflexivity]. destruct (has_nil (p_dl p)); reflexivity.
Qed.

Lemma peek_wf h t a v l : wf h t -> peek h a = Some (v, l) -> has_nil l = false /\ v_addr v = a.
Proof.
  intros [W _]. unfold peek. destruct (aget (vmap h) a) as [w|] eqn:Ew.
  - destruct (v_deleted w) eqn:Ed; [discriminate|]. intros H; inversion H; subst.
    destruct (w_vmap _ _ W _ _ Ew) as (H1 & H2 & _). split; [apply (H2 Ed)|exact H1].
  - destruct (aget (t_vals h) a) as [p|] eqn:Ep; [|discriminate].
    destruct (has_nil (p_dl p)) eqn:En; [discriminate|]. intros H; inversion H; subst.
    split; [exact En|apply (w_tvals _ _ W _ _ Ep)].
Qed.

Lemma flat_map_ext_In {A B} (f g : A -> list B) l : (forall a, In a l -> f a = g a) -> flat_map f l = flat_map g l.
Proof. induction l as [|a r IH]; intros H; cbn; [reflexivity|]. rewrite (H a) by (cbn; auto). f_equal. apply IH. intros; apply H; cbn; auto. Qed.

Lemma flat_sorted {A} (U : list Z) : forall (m : list (Z * A)),
  ssorted m -> zsorted U -> (forall a, aget m a <> None -> In a U) ->
  flat_map (fun a => match aget m a with Some y => [y] | None => [] end) U = map snd m.
Proof.
  induction U as [|u U' IH]; intros m Hs Hz Hk.
  - destruct m as [|[k y] r]; [reflexivity|]. exfalso. apply (Hk k). cbn. now rewrite Z.eqb_refl.
  - destruct Hz as [Hlt Hz']. cbn [flat_map]. destruct m as [|[k y] r].
    + cbn. apply (IH []); [exact I|assumption|intros a H; cbn in H; congruence].
    + destruct Hs as [Hklt Hs']. destruct (Z.eq_dec u k) as [->|Hne].
      * cbn [aget]. rewrite Z.eqb_refl. cbn [app map snd]. f_equal.
        rewrite <- (IH r Hs' Hz').
        -- apply flat_map_ext_In. intros a Ha. cbn. specialize (Hlt _ Ha). destruct (Z.eqb_spec k a); [lia|reflexivity].
        -- intros a Ha. assert (aget ((k, y) :: r) a <> None).
           { cbn. destruct (Z.eqb_spec k a); [discriminate|exact Ha]. }
           destruct (Hk a H) as [E|Hin]; [|exact Hin]. subst a.
           destruct (aget r k) eqn:E; [|congruence]. apply aget_In in E. specialize (Hklt _ _ E). lia.
      * assert (Hku : In k U').
        { destruct (Hk k) as [E|Hin]; [cbn; now rewrite Z.eqb_refl|congruence|exact Hin]. }
        assert (u < k) by (apply Hlt, Hku).
        assert (aget ((k, y) :: r) u = None).
        { cbn. destruct (Z.eqb_spec k u); [lia|]. destruct (aget r u) eqn:E; [|reflexivity].
          apply aget_In in E. specialize (Hklt _ _ E). lia. }
        rewrite H0. cbn [app]. apply (IH ((k, y) :: r)); [split; assumption|assumption|].
        intros a Ha. destruct (Hk a Ha) as [E|Hin]; [congruence|exact Hin].
Qed.

Lemma universe_sorted h : zsorted (universe h).
Proof. unfold universe. apply zsorted_fold_sins. exact I. Qed.

Lemma live_xs h t x : R h t x -> J x -> map absx (live h) = map snd (xs (core x)).
Proof.
  intros Rx HJ. unfold live.
  rewrite <- (flat_sorted (universe h) (xs (core x)) (J_sorted _ HJ) (universe_sorted h)).
  - induction (universe h) as [|a r IH]; [reflexivity|]. cbn [flat_map]. rewrite map_app, IH. f_equal.
    rewrite (r_xs _ _ _ Rx), xpeek_peek. destruct (peek h a); reflexivity.
  - intros a Ha. apply xpeek_universe. now rewrite <- (r_xs _ _ _ Rx).
Qed.

Lemma live_In h t v l : In (v, l) (live h) -> wf h t -> exists a, peek h a = Some (v, l).
Proof.
  unfold live. intros Hin _. apply in_flat_map in Hin as (b & _ & Hb).
  destruct (peek h b) as [y|] eqn:E; [|destruct Hb]. destruct Hb as [<-|[]]. eauto.
Qed.

Lemma k_eqb_refl k : k_eqb k k = true.
Proof. unfold k_eqb. now rewrite !Z.eqb_refl. Qed.
Lemma stat_eqb_refl s : stat_eqb s s = true.
Proof. unfold stat_eqb. now rewrite !k_eqb_refl. Qed.

Lemma contrib_norm v : contrib (norm v) = contrib v.
Proof. destruct v; reflexivity. Qed.

Lemma total_map_norm l : total (map norm l) = total l.
Proof.
  induction l as [|v r IH]; [reflexivity|]. cbn [map].
  change (total (norm v :: map norm r)) with (stat_plus (contrib (norm v)) (total (map norm r))).
  rewrite contrib_norm, IH. reflexivity.
Qed.

Lemma dl_sum_some f l : dl_sum f (map Some l) = dsum f l.
Proof. induction l as [|e r IH]; [reflexivity|]. unfold dl_sum in *. cbn. now rewrite IH. Qed.
Lemma dl_sorted_some l : dsorted l -> dl_sorted (map Some l) = true.
Proof.
  induction l as [|e r IH]; [reflexivity|]. intros [Hlt Hs]. specialize (IH Hs).
  destruct r as [|e' r']; [reflexivity|]. specialize (Hlt e' (or_introl eq_refl)).
  change (dl_sorted (map Some (e :: e' :: r'))) with (Z.ltb (d_addr e) (d_addr e') && dl_sorted (map Some (e' :: r'))).
  rewrite IH. lia.
Qed.
Lemma dl_find_some l d : dl_find (map Some l) d = dget l d.
Proof. induction l as [|e r IH]; [reflexivity|]. unfold dl_find in *. cbn. rewrite IH. destruct (Z.eqb (d_addr e) d); reflexivity. Qed.

Lemma In_aget_nodup {A} (m : list (Z * A)) k y : NoDup (map fst m) -> In (k, y) m -> aget m k = Some y.
Proof.
  induction m as [|[k2 z] r IH]; cbn; [tauto|]. intros Hn. inversion Hn; subst. intros [E|Hin].
  - inversion E; subst. now rewrite Z.eqb_refl.
  - destruct (Z.eqb_spec k2 k) as [->|Hne]; [|auto]. exfalso. apply H1. apply in_map_iff. exists (k, y). auto.
Qed.

Theorem inv_of_R h t x : wf h t -> R h t x -> J x -> inv_all h = true.
Proof.
  intros W Rx HJ. pose proof (live_xs h t x Rx HJ) as Hlx.
  destruct HJ as (([Gs Gv Gst Gix] & [La Ll Lk Lb Lo]) & HM & HH).
  assert (HJ : J x) by (split; [split; constructor; assumption|split; assumption]).
  (* every live record, its value-level image and its address *)
  assert (Hlive : forall v l, In (v, l) (live h) ->
            exists a, peek h a = Some (v, l) /\ l = map Some (stripd l) /\ v_addr v = a /\
                      aget (xs (core x)) a = Some (norm v, stripd l)).
  { intros v l Hin. destruct (live_In h t _ _ Hin W) as (a & Ha).
    destruct (peek_wf h t a v l W Ha) as [Hn Hva]. exists a. split; [exact Ha|].
    destruct (has_nil_strip _ Hn) as (l' & S1 & S2). split; [unfold stripd; now rewrite S1|]. split; [exact Hva|].
    rewrite (r_xs _ _ _ Rx), xpeek_peek, Ha. reflexivity. }
  unfold inv_all. apply andb_true_intro; split; [apply andb_true_intro; split; [apply andb_true_intro; split; [apply andb_true_intro; split|]|]|].
  - (* statistics *)
    unfold inv_stat, recompute. rewrite <- (r_stat _ _ _ Rx), Gst. unfold tot.
    replace (map (fun p => fst (snd p)) (xs (core x))) with (map fst (map snd (xs (core x)))) by (rewrite map_map; reflexivity).
    rewrite <- Hlx, map_map. cbn [absx fst].
    replace (map (fun y => norm (fst y)) (live h)) with (map norm (map fst (live h))) by (rewrite map_map; reflexivity).
    rewrite total_map_norm. apply stat_eqb_refl.
  - (* totals *)
    unfold inv_sums. apply forallb_forall. intros [v l] Hin. destruct (Hlive _ _ Hin) as (a & Ha & Hl & Hva & Hx).
    destruct (Gv _ _ Hx) as (_&_&_&_&_&H6&H7&[H8 _]&_). cbn [fst snd] in *.
    unfold val_sums. rewrite Hl, !dl_sum_some, (dl_sorted_some _ H8).
    replace (v_token (norm v)) with (v_token v) in H6 by (destruct v; reflexivity).
    replace (v_stoken (norm v)) with (v_stoken v) in H6 by (destruct v; reflexivity).
    replace (v_stake (norm v)) with (v_stake v) in H7 by (destruct v; reflexivity).
    replace (v_sstake (norm v)) with (v_sstake v) in H7 by (destruct v; reflexivity). lia.
  - (* stake units *)
    unfold inv_units. apply forallb_forall. intros [v l] Hin. destruct (Hlive _ _ Hin) as (a & Ha & Hl & Hva & Hx).
    destruct (Gv _ _ Hx) as (_&_&_&_&H5&_&_&[_ H8]&_). cbn [fst snd] in *.
    unfold val_units. replace (v_sstake (norm v)) with (v_sstake v) in H5 by (destruct v; reflexivity).
    replace (v_stoken (norm v)) with (v_stoken v) in H5 by (destruct v; reflexivity).
    apply andb_true_intro. split; [lia|]. unfold dl_units. rewrite Hl. apply forallb_forall.
    intros o Ho. apply in_map_iff in Ho as (e & <- & He). destruct (H8 _ He). lia.
  - (* index *)
    unfold inv_index. rewrite <- (r_index _ _ _ Rx), Gix.
    assert (E : map (fun y => v_addr (fst y)) (live h) = map fst (xs (core x))).
    { transitivity (map (fun y : xval => v_addr (fst y)) (map absx (live h))).
      - rewrite map_map. apply map_ext. intros [v l]. destruct v; reflexivity.
      - rewrite Hlx, map_map. apply map_ext_in. intros [k y] Hin. cbn.
        apply (In_aget _ _ _ Gs) in Hin. destruct (Gv _ _ Hin) as (H1 & _). exact H1. }
    rewrite E. apply list_eqb_refl.
  - (* delegator accounts *)
    unfold inv_links. apply andb_true_intro. split.
    + apply forallb_forall. intros [d ac] Hin. cbn [fst snd].
      pose proof W as [WV WA]. pose proof (In_aget_nodup _ _ _ (w_anodup _ WA) Hin) as Hd.
      assert (Hxa : aget (xaccts (core x)) d = Some (a_dbal ac, a_hash ac)) by (rewrite (r_accts _ _ _ Rx), Hd; reflexivity).
      unfold acct_links. apply andb_true_intro; split; [apply andb_true_intro; split|].
      * unfold acct_readable. destruct (w_acct _ WA _ _ Hd) as [[E|E] _]; rewrite E; [reflexivity|apply orb_true_r].
      * apply forallb_forall. intros a Ha. apply (Lk _ _ _ a Hxa) in Ha as (y & Hy & Hg).
        rewrite (r_xs _ _ _ Rx), xpeek_peek in Hy. destruct (peek h a) as [[v l]|] eqn:Ep; [|discriminate].
        cbn in Hy. inversion Hy; subst y. cbn in Hg.
        destruct (peek_wf h t a v l W Ep) as [Hn _].
        destruct (has_nil_strip _ Hn) as (l' & S1 & S2). unfold stripd in Hg. rewrite S1 in Hg.
        rewrite S2, dl_find_some. destruct (dget l' d); [reflexivity|congruence].
      * rewrite (Lb _ _ _ Hxa). apply Z.eqb_eq.
        assert (E : forall L : list (val * list (option dfrom)),
                  (forall v l, In (v, l) L -> l = map Some (stripd l)) ->
                  lsum (tokd d) (map (fun y => (0, absx y)) L) =
                  fold_right (fun y acc => match dl_find (snd y) d with Some e => d_token e + acc | None => acc end) 0 L).
        { induction L as [|[v l] r IH]; intros HL; [reflexivity|].
          cbn [map lsum fold_right snd]. rewrite IH by (intros; eapply HL; cbn; eauto). unfold tokd, absx; cbn [snd fst].
          pose proof (HL v l (or_introl eq_refl)) as El.
          assert (Hf : dl_find l d = dget (stripd l) d) by (rewrite El at 1; apply dl_find_some).
          rewrite Hf. destruct (dget (stripd l) d); lia. }
        rewrite <- E by (intros v l Hvl; destruct (Hlive _ _ Hvl) as (_ & _ & Hl & _); exact Hl).
        assert (E2 : forall (m : list (Z * xval)) m2, map snd m = map snd m2 -> lsum (tokd d) m = lsum (tokd d) m2).
        { induction m as [|p r IH]; intros [|p2 r2] Hm; cbn in *; try discriminate; [reflexivity|].
          inversion Hm. rewrite H0, (IH r2 H1). reflexivity. }
        apply E2. rewrite map_map. cbn. rewrite <- Hlx. reflexivity.
    + apply forallb_forall. intros [v l] Hin. destruct (Hlive _ _ Hin) as (a & Ha & Hl & Hva & Hx).
      unfold val_links. rewrite Hl. apply forallb_forall. intros o Ho. apply in_map_iff in Ho as (e & <- & He).
      pose proof (Lo _ _ _ Hx He) as Hex. rewrite (r_accts _ _ _ Rx) in Hex.
      destruct (aget (accts h) (d_addr e)) as [ac|] eqn:Eac; [|cbn in Hex; congruence].
      assert (Hxa : aget (xaccts (core x)) (d_addr e) = Some (a_dbal ac, a_hash ac)) by (rewrite (r_accts _ _ _ Rx), Eac; reflexivity).
      apply mem_In. apply (Lk _ _ _ (v_addr v) Hxa). exists (norm v, stripd l). rewrite Hva. split; [exact Hx|].
      cbn. rewrite (In_dget _ _ (val_ok_dsorted x a (norm v) (stripd l) HJ Hx) He). discriminate.
Qed.

(* ---- main theorem ------------------------------------------------------------------ *)

Theorem inv_holds_outside ops s : safe ops = true -> run init ops = Some s -> inv_all s = true.
Proof.
  intros Hs Hr. destruct (run_sim ops init 0%nat ainit s wf_init R_init J_init Hs Hr) as (t' & x' & W & Rx & HJ).
  eapply inv_of_R; eauto.
Qed.

Lemma run_app l1 : forall h l2, run h (l1 ++ l2) = match run h l1 with Some h' => run h' l2 | None => None end.
Proof. induction l1 as [|o r IH]; intros h l2; cbn; [reflexivity|]. destruct (step h o); [apply IH|reflexivity]. Qed.

Lemma safe_from_app l1 : forall h t l2, safe_from h t (l1 ++ l2) = true -> safe_from h t l1 = true.
Proof.
  induction l1 as [|o r IH]; intros h t l2; cbn; [reflexivity|]. intros H. apply andb_prop in H as [H1 H2].
  rewrite H1. cbn. destruct (step h o); [eapply IH; eauto|reflexivity].
Qed.

(* the invariant holds after every prefix of a safe history *)
Theorem inv_holds_at_every_point l1 l2 s :
  safe (l1 ++ l2) = true -> run init l1 = Some s -> inv_all s = true.
Proof. intros Hs Hr. eapply inv_holds_outside; [eapply safe_from_app; exact Hs|exact Hr]. Qed.

(* ---- Validator.Less is a strict total order on validators with distinct addresses --- *)

Theorem vless_irrefl a : vless a a = false.
Proof. unfold vless. rewrite !Z.eqb_refl. apply Z.ltb_irrefl. Qed.

Theorem vless_trans a b c : vless a b = true -> vless b c = true -> vless a c = true.
Proof.
  unfold vless.
  destruct (Z.eqb_spec (u64 (v_stake a)) (u64 (v_stake b))), (Z.eqb_spec (u64 (v_stake b)) (u64 (v_stake c))),
           (Z.eqb_spec (u64 (v_stake a)) (u64 (v_stake c))),
           (Z.eqb_spec (v_token a) (v_token b)), (Z.eqb_spec (v_token b) (v_token c)), (Z.eqb_spec (v_token a) (v_token c)); lia.
Qed.

Theorem vless_total a b : v_addr a <> v_addr b -> vless a b = true \/ vless b a = true.
Proof.
  unfold vless. intros Hne.
  destruct (Z.eqb_spec (u64 (v_stake a)) (u64 (v_stake b))), (Z.eqb_spec (u64 (v_stake b)) (u64 (v_stake a))),
           (Z.eqb_spec (v_token a) (v_token b)), (Z.eqb_spec (v_token b) (v_token a)); lia.
Qed.

Theorem vless_asym a b : vless a b = true -> vless b a = false.
Proof.
  unfold vless.
  destruct (Z.eqb_spec (u64 (v_stake a)) (u64 (v_stake b))), (Z.eqb_spec (u64 (v_stake b)) (u64 (v_stake a))),
           (Z.eqb_spec (v_token a) (v_token b)), (Z.eqb_spec (v_token b) (v_token a)); lia.
Qed.

