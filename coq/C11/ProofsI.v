(* C11 - restart (loadLastState / repair), reflection of the invariants into the
   executable checks, and the theorems over all histories. *)
From VF.C11 Require Import Model ProofsA ProofsB ProofsC ProofsD ProofsE ProofsF ProofsH.
From Coq Require Import Lia ZifyBool ZifyN ZifyNat.
Local Open Scope N_scope.

Section Final.
Variable t : tree.
Variable g : block.
Hypothesis Hg : info t (bid g) = Some g.
Hypothesis Hg0 : bnum g = 0.
Hypothesis Hid0 : info t 0 = None.
Hypothesis Hgood : good_block g = true.

Notation DInv := (DInv t g).
Notation Qd := (Qd t).
Notation J := (J t g).

(* ---- restart ---------------------------------------------------------------------------- *)

Lemma repair_ok : forall d, DInv d -> forall fuel hb, info t (bid hb) = Some hb -> In (bid hb) (d_hdr d) ->
  (N.to_nat (bnum hb) < fuel)%nat -> exists hb', repair t fuel d hb = Some hb'.
Proof.
  intros d HD. induction fuel as [|f IH]; intros hb Hb Hs Hf; [lia|].
  cbn [repair]. destruct (has_state d (broot hb)) eqn:Est; [eauto|].
  destruct (D_info t g d HD _ Hs) as [b [I1 [_ [I3 I4]]]].
  rewrite Hb in I1. inversion I1; subst b.
  destruct (N.eq_dec (bnum hb) 0) as [E0|E0].
  - exfalso. pose proof (I3 E0) as Eg.
    assert (hb = g) by (apply (info_inj t); auto). subst hb.
    destruct (D_g t g d HD) as [_ [_ Gs]]. apply memN_In in Gs. unfold has_state in Est. congruence.
  - destruct (I4 E0) as [Hp [p [P1 P2]]].
    assert (Hgb : get_block t d (bpar hb) (bnum hb - 1) = Some p).
    { replace (bnum hb - 1) with (bnum p) by lia. apply (get_block_intro t g); auto. }
    unfold parent_block. apply N.eqb_neq in E0. rewrite E0, Hgb.
    apply IH.
    + rewrite (info_bid _ _ _ P1); auto.
    + rewrite (info_bid _ _ _ P1); auto.
    + apply N.eqb_neq in E0. lia.
Qed.

Lemma genesis_reads : forall d, DInv d ->
  get_header_by_number t d 0 = Some g /\ get_block_by_number t d 0 = Some g.
Proof.
  intros d HD. destruct (D_g t g d HD) as [G1 [G2 G3]].
  unfold get_header_by_number, get_block_by_number. rewrite G1. rewrite <- Hg0.
  split; [apply get_header_intro; auto|apply (get_block_intro t g); auto].
Qed.

Lemma recover_succeeds : forall d, DInv d -> exists d' h, recover t d = Some (d', h).
Proof.
  intros d HD. unfold recover. destruct (genesis_reads d HD) as [-> ->].
  destruct (if d_headB d =? 0 then None else get_block_by_hash t d (d_headB d)) as [hb|] eqn:E; [|eauto].
  destruct (d_headB d =? 0); try discriminate.
  unfold get_block_by_hash in E. destruct (memN (d_headB d) (d_hnum d)); try discriminate.
  destruct (info t (d_headB d)) as [x|] eqn:Ei; try discriminate.
  apply get_block_spec in E. destruct E as [E1 [E2 [E3 [E4 E5]]]].
  destruct (repair_ok d HD (fuel_of hb) hb) as [hb' Hr].
  - rewrite E5; auto.
  - rewrite E5; auto.
  - unfold fuel_of; lia.
  - rewrite Hr. eauto.
Qed.

Lemma recover_Qd : forall d, DInv d -> Qd d ->
  recover t d = Some (apply_write [WHeadH (d_headB d)] d, d_headB d).
Proof.
  intros d HD [[hb [Q1 [Q2 _]]]]. unfold recover. destruct (genesis_reads d HD) as [-> ->].
  pose proof (D_head t g d HD) as Hh. destruct (D_body t g d HD _ Hh) as [Hbody Hhnum].
  assert (Hn0 : d_headB d <> 0) by (intros E; rewrite E in Q1; congruence).
  apply N.eqb_neq in Hn0. rewrite Hn0.
  unfold get_block_by_hash. apply memN_In in Hhnum. rewrite Hhnum, Q1.
  rewrite (get_block_intro t g d (d_headB d) hb HD Hh Q1).
  unfold fuel_of. cbn [repair]. apply memN_In in Q2. unfold has_state. rewrite Q2.
  rewrite (info_bid _ _ _ Q1). reflexivity.
Qed.

(* ---- the invariants imply the executable checks --------------------------------------------- *)

Lemma linked_down_ok : forall d hb, DInv d ->
  (forall n, n <= bnum hb -> exists b, canon d n = Some (bid b) /\ info t (bid b) = Some b /\ bnum b = n /\
                              (n <> 0 -> canon d (n - 1) = Some (bpar b))) ->
  forall fuel n h, n <= bnum hb -> canon d n = Some h -> (N.to_nat n < fuel)%nat -> linked_down t fuel d n h = true.
Proof.
  intros d hb HD Hl. induction fuel as [|f IH]; intros n h Hn Hc Hf; [lia|].
  destruct (Hl n Hn) as [b [L1 [L2 [L3 L4]]]]. rewrite Hc in L1. inversion L1; subst h.
  destruct (canon_stored t g d n (bid b) HD Hc) as [Hs _].
  cbn [linked_down]. rewrite <- L3. rewrite (get_block_intro t g d (bid b) b HD Hs L2).
  destruct (bnum b =? 0) eqn:E0; auto. apply N.eqb_neq in E0.
  rewrite L3 in *. rewrite (L4 E0), N.eqb_refl. simpl. apply IH; auto; lia.
Qed.

Lemma chain_consistent_of_Qd : forall d, DInv d -> Qd d -> chain_consistent_b t d (d_headB d) = true.
Proof.
  intros d HD [[hb [Q1 [Q2 [Q3 [Q4 Q5]]]]]]. unfold chain_consistent_b. rewrite Q1, Q3, N.eqb_refl.
  assert (Hld : linked_down t (fuel_of hb) d (bnum hb) (d_headB d) = true).
  { apply (linked_down_ok d hb HD Q4); auto; try lia; unfold fuel_of; lia. }
  rewrite Hld.
  apply memN_In in Q2. unfold has_state. rewrite Q2. simpl.
  unfold lookups_ok. apply forallb_forall. intros [tx h] Hin.
  destruct (Q5 tx h Hin) as [b [B1 [B2 [B3 B4]]]]. cbn [fst snd]. rewrite B1.
  apply memN_In in B4. rewrite B4, B3, (info_bid _ _ _ B1), N.eqb_refl.
  assert (E : (bnum b <=? bnum hb) = true) by (apply N.leb_le; auto). rewrite E. reflexivity.
Qed.

Lemma canon_good_of_DInv : forall d, DInv d -> canon_good t d = true.
Proof.
  intros d HD. unfold canon_good. apply forallb_forall. intros [n h] Hin. cbn [snd].
  destruct (D_canon t g d HD n h Hin) as [Hs _].
  destruct (D_info t g d HD h Hs) as [b [I1 [I2 _]]]; rewrite I1; auto.
Qed.

Lemma consistent_of_Good : forall d, Good t g d -> consistent_b t d (d_headB d) = true.
Proof.
  intros d [HD [_ HQ]]. unfold consistent_b. rewrite chain_consistent_of_Qd, canon_good_of_DInv; auto.
Qed.

Lemma DInv_headH : forall d h, DInv d -> DInv (apply_write [WHeadH h] d).
Proof. intros. apply (DInv_soft_write t g); auto. Qed.

Lemma Qd_headH : forall d h, Qd d -> Qd (apply_write [WHeadH h] d).
Proof. intros. apply (Qd_add t (WHeadH h)); auto. Qed.

Lemma Good_headH : forall d h, Good t g d -> Good t g (apply_write [WHeadH h] d).
Proof.
  intros d h [HD [HB HQ]]. split; [apply DInv_headH; auto|]. split; [exact HB|apply Qd_headH; auto].
Qed.


(* ---- histories -------------------------------------------------------------------------------- *)

Lemma blocks_of_tb : forall ids, Forall (tb t) (blocks_of t ids).
Proof. intros. apply Forall_forall. intros b Hb. eapply blocks_of_info; eauto. Qed.

Lemma J_run : forall fuel hist s, J s -> J (run t fuel s hist).
Proof.
  intros fuel. induction hist as [|ids hist IH]; intros s H; simpl; auto.
  apply IH. apply (J_InsertChain t g); auto. apply blocks_of_tb.
Qed.

(* clauses 1-3 unconditionally *)
Lemma import_chain_consistent : forall fuel hist, let s := run t fuel (init_st g) hist in
  chain_consistent_b t (disk_of s) (d_headB (disk_of s)) = true /\
  (budget s = None -> cur s = d_headB (disk_of s)).
Proof.
  intros fuel hist s.
  pose proof (J_run fuel hist _ (init_J t g Hg Hg0 Hgood)) as [[HD [_ HQ]] HC]. fold s in HD, HQ, HC.
  split; [apply chain_consistent_of_Qd; auto|].
  intros Hb. apply HC. unfold alive. rewrite Hb. discriminate.
Qed.

(* every state of a history: its database is good, and the running node's head
   is the database's head marker *)
Lemma import_consistent : forall fuel hist, let s := run t fuel (init_st g) hist in
  consistent_b t (disk_of s) (d_headB (disk_of s)) = true /\
  (budget s = None -> cur s = d_headB (disk_of s)).
Proof.
  intros fuel hist s.
  pose proof (J_run fuel hist _ (init_J t g Hg Hg0 Hgood)) as [HG HC]. fold s in HG, HC.
  split; [apply consistent_of_Good; auto|].
  intros Hb. apply HC. unfold alive. rewrite Hb. discriminate.
Qed.

(* the node is killed after the k-th write of the next import *)
Lemma J_crash_run : forall fuel hist batch k, let s0 := run t fuel (init_st g) hist in
  budget s0 = None -> J (crash_run t fuel s0 batch k).
Proof.
  intros fuel hist batch k s0 Hb. unfold crash_run.
  apply (J_InsertChain t g); auto; [|apply blocks_of_tb].
  pose proof (J_run fuel hist _ (init_J t g Hg Hg0 Hgood)) as [HG HC]. fold s0 in HG, HC.
  split; [exact HG|]. intros _. simpl. apply HC. unfold alive. rewrite Hb. discriminate.
Qed.

Lemma crash_consistent : forall fuel hist batch k, let s0 := run t fuel (init_st g) hist in
  let sk := crash_run t fuel s0 batch k in
  budget s0 = None ->
  exists d, recover t (disk_of sk) = Some (d, d_headB (disk_of sk)) /\
            consistent_b t d (d_headB (disk_of sk)) = true /\ Good t g d /\ d_headB d = d_headB (disk_of sk).
Proof.
  intros fuel hist batch k s0 sk Hb. destruct (J_crash_run fuel hist batch k Hb) as [HG _]. fold s0 sk in HG.
  pose proof HG as [HD [HB HQ]].
  exists (apply_write [WHeadH (d_headB (disk_of sk))] (disk_of sk)).
  split; [apply recover_Qd; auto|].
  pose proof (Good_headH _ (d_headB (disk_of sk)) HG) as HG'.
  split; [|split; [exact HG'|reflexivity]].
  apply (consistent_of_Good _ HG').
Qed.

Lemma crash_chain_consistent : forall fuel hist batch k, let s0 := run t fuel (init_st g) hist in
  let sk := crash_run t fuel s0 batch k in
  budget s0 = None ->
  exists d, recover t (disk_of sk) = Some (d, d_headB (disk_of sk)) /\
            chain_consistent_b t d (d_headB (disk_of sk)) = true.
Proof.
  intros fuel hist batch k s0 sk Hb. destruct (J_crash_run fuel hist batch k Hb) as [HG _]. fold s0 sk in HG.
  pose proof HG as [HD [HB HQ]].
  exists (apply_write [WHeadH (d_headB (disk_of sk))] (disk_of sk)).
  split; [apply recover_Qd; auto|].
  apply (chain_consistent_of_Qd (apply_write [WHeadH (d_headB (disk_of sk))] (disk_of sk))).
  - apply DInv_headH; auto.
  - apply Qd_headH; auto.
Qed.

(* only valid blocks are in the index - after every import and at every crash point *)
Lemma import_canon_good : forall fuel hist, canon_good t (disk_of (run t fuel (init_st g) hist)) = true.
Proof.
  intros fuel hist. pose proof (J_run fuel hist _ (init_J t g Hg Hg0 Hgood)) as [[HD _] _].
  apply canon_good_of_DInv; auto.
Qed.

Lemma crash_canon_good : forall fuel hist batch k, let s0 := run t fuel (init_st g) hist in
  budget s0 = None -> canon_good t (disk_of (crash_run t fuel s0 batch k)) = true.
Proof.
  intros fuel hist batch k s0 Hb. destruct (J_crash_run fuel hist batch k Hb) as [[HD _] _].
  apply canon_good_of_DInv; auto.
Qed.

(* the restarted node is a node in good standing again: everything proved about
   histories from a freshly initialised database holds from it *)
Lemma J_fresh : forall d, Good t g d -> J (fresh d (d_headB d)).
Proof. intros d HG. split; auto. Qed.

Lemma restarted_run_consistent : forall fuel hist batch k hist2, let s0 := run t fuel (init_st g) hist in
  let sk := crash_run t fuel s0 batch k in
  budget s0 = None ->
  exists d, recover t (disk_of sk) = Some (d, d_headB (disk_of sk)) /\
    let s := run t fuel (fresh d (d_headB (disk_of sk))) hist2 in
    consistent_b t (disk_of s) (d_headB (disk_of s)) = true /\ (budget s = None -> cur s = d_headB (disk_of s)).
Proof.
  intros fuel hist batch k hist2 s0 sk Hb.
  destruct (crash_consistent fuel hist batch k Hb) as [d [R [_ [HG Hh]]]]. fold s0 sk in R, Hh.
  exists d. split; auto. intros s.
  assert (HJ : J (fresh d (d_headB (disk_of sk)))) by (rewrite <- Hh; apply J_fresh; auto).
  pose proof (J_run fuel hist2 _ HJ) as [HG2 HC2]. fold s in HG2, HC2.
  split; [apply consistent_of_Good; auto|].
  intros Hb2. apply HC2. unfold alive. rewrite Hb2. discriminate.
Qed.

End Final.
