(* C11 - one import step in general position: a good new block b whose parent p is
   any stored block with state, while the head c0 is anywhere (so the head switch
   may reorganise: old chain empty or not, shorter or longer).  The databases a
   crash can leave inside the step, and idempotence of the step on them. *)
From VF.C11 Require Import Model ProofsA ProofsB ProofsC ProofsD ProofsE ProofsF ProofsG ProofsH ProofsI ProofsJ.
From Coq Require Import Lia ZifyBool ZifyN ZifyNat.
Local Open Scope N_scope.

Lemma apply_ew_setH : forall e h y, exists h', apply_ew e (setH h y) = setH h' (apply_ew e y).
Proof. intros e h y. destruct e; eexists; reflexivity. Qed.

Lemma apply_setH : forall w h y, exists h', apply_write w (setH h y) = setH h' (apply_write w y).
Proof.
  induction w as [|e w IH]; intros h y; [exists h; reflexivity|].
  rewrite !apply_write_cons. destruct (apply_ew_setH e h y) as [h1 E]. rewrite E. apply IH.
Qed.

Lemma reorg_setH : forall t h y o n, reorg t (setH h y) o n = reorg t y o n.
Proof. reflexivity. Qed.

Section Step.
Variable t : tree.
Variable g : block.
Hypothesis Hg : info t (bid g) = Some g.
Hypothesis Hg0 : bnum g = 0.
Hypothesis Hid0 : info t 0 = None.
Hypothesis Hgood : good_block g = true.

Variable d0 : disk.
Variable c0 p b : block.
Variable rg : write.
Hypothesis HG0 : Good t g d0.
Hypothesis Hc0 : info t (d_headB d0) = Some c0.
Hypothesis Hb : info t (bid b) = Some b.
Hypothesis Hn0 : bnum b <> 0.
Hypothesis Hp : get_block t d0 (bpar b) (bnum b - 1) = Some p.
Hypothesis Hps : In (broot p) (d_state d0).
Hypothesis Hhv : bhv b = 0.
Hypothesis Hbv : bbv b = 0.
Hypothesis Hfree : canon d0 (bnum b) = None.

Definition gst_w : write := if broot b =? broot p then [] else [WState (broot b)].
Definition g1 : disk := apply_write (block_batch b) d0.
Definition g2 : disk := apply_write gst_w g1.
Definition rc_w : write := match btxs b with [] => [] | _ :: _ => [WRcpt (bid b)] end.

(* what reorg stages (nothing if the parent is the head) *)
Hypothesis Hrg : (if bpar b =? bid c0 then Some [] else reorg t g2 c0 b) = Some rg.

Definition gsw_w : write := rc_w ++ rg ++ map (fun tx => WLook tx (bid b)) (btxs b) ++ stage_head b.
Definition g3 : disk := apply_write gsw_w g2.

Inductive GFam : disk -> Prop :=
| GF0 : GFam d0 | GF1 : GFam g1 | GF2 : GFam g2
| GFH : forall d h, GFam d -> GFam (setH h d).

Lemma c0_id : bid c0 = d_headB d0.
Proof. eapply info_bid; eauto. Qed.

Lemma p_facts : In (bpar b) (d_hdr d0) /\ In (bpar b) (d_body d0) /\ info t (bpar b) = Some p /\
                bnum p = bnum b - 1 /\ bid p = bpar b.
Proof. apply get_block_spec in Hp. tauto. Qed.

Lemma GFam_fields : forall d, GFam d ->
  d_canon d = d_canon d0 /\ d_look d = d_look d0 /\ d_headB d = d_headB d0 /\ d_rcpt d = d_rcpt d0 /\
  (d_body d = d_body d0 \/ d_body d = addN (bid b) (d_body d0)) /\
  (d_hnum d = d_hnum d0 \/ d_hnum d = addN (bid b) (d_hnum d0)) /\
  (d_hdr d = d_hdr d0 \/ d_hdr d = addN (bid b) (d_hdr d0)) /\
  (d_state d = d_state d0 \/ d_state d = addN (broot b) (d_state d0)).
Proof.
  induction 1.
  - repeat split; auto.
  - unfold g1; simpl. repeat split; auto.
  - unfold g2, g1, gst_w. destruct (broot b =? broot p); simpl; repeat split; auto.
  - destruct IHGFam as [A [B [C [D [E [F [G H']]]]]]]. simpl. repeat split; auto.
Qed.

Lemma apply_gsw_setH : forall h d, apply_write gsw_w (setH h d) = apply_write gsw_w d.
Proof.
  intros h d. unfold gsw_w. rewrite !app_assoc. rewrite !apply_write_app.
  match goal with |- apply_write (stage_head b) (apply_write ?w (setH h d)) = _ =>
    destruct (apply_setH w h d) as [h' E]; rewrite E end.
  reflexivity.
Qed.

(* after the block batch and the state commit every database of the family is g2 (up to the head-header marker) *)
Lemma GFam_g2 : forall d, GFam d ->
  apply_write gst_w (apply_write (block_batch b) d) = g2 \/
  exists h, apply_write gst_w (apply_write (block_batch b) d) = setH h g2.
Proof.
  induction 1.
  - left; reflexivity.
  - left. unfold g2. f_equal. unfold g1. simpl. rewrite !addN_idem. reflexivity.
  - left. unfold g2, g1, gst_w. destruct (broot b =? broot p); simpl; rewrite !addN_idem; reflexivity.
  - assert (E : apply_write gst_w (apply_write (block_batch b) (setH h d)) = setH h (apply_write gst_w (apply_write (block_batch b) d))).
    { unfold gst_w. destruct (broot b =? broot p); reflexivity. }
    rewrite E. destruct IHGFam as [->|[h' ->]]; right; [exists h|exists h]; reflexivity.
Qed.

Lemma GFam_lands : forall d, GFam d -> apply_write gsw_w (apply_write gst_w (apply_write (block_batch b) d)) = g3.
Proof.
  intros d HF. destruct (GFam_g2 d HF) as [->|[h ->]]; [reflexivity|apply apply_gsw_setH].
Qed.

(* the reads of the step on any database of the family *)
Lemma GFam_reads : forall d, GFam d ->
  get_block t d (bpar b) (bnum b - 1) = Some p /\ has_state d (broot p) = true /\
  get_header t d (bpar b) (bnum b - 1) = Some p /\ canon d (bnum b) = None.
Proof.
  intros d HF. destruct (GFam_fields d HF) as [Fc [_ [_ [_ [Fb [_ [Fd Fs]]]]]]].
  destruct p_facts as [P1 [P2 [P3 [P4 P5]]]].
  assert (Hh : get_header t d (bpar b) (bnum b - 1) = Some p).
  { rewrite <- P4. apply get_header_intro; auto. apply (In_either _ (bid b) (d_hdr d0)); auto. }
  split; [|split; [|split; auto]].
  - unfold get_block. assert (Hm : memN (bpar b) (d_body d) = true) by (apply memN_In; apply (In_either _ (bid b) (d_body d0)); auto).
    rewrite Hm; auto.
  - apply memN_In. apply (In_either _ (broot b) (d_state d0)); auto.
  - unfold canon. rewrite Fc. exact Hfree.
Qed.

(* one step of insertChain's loop: the block is processed on p by WriteBlockWithState *)
Lemma ic_step_gen : forall side s rest prev v, GFam (disk_of s) -> (prev = None \/ prev = Some p) ->
  (v = ENone \/ (v = EExist /\ prev = Some p)) ->
  ic_loop t side s ((b, v) :: rest) prev =
  match write_block_with_state t p b s with
  | (s', ENone) => ic_loop t side s' rest (Some b)
  | (s', e) => (s', e)
  end.
Proof.
  intros side s rest prev v HF Hprev Hv. set (d := disk_of s) in *.
  destruct (GFam_reads d HF) as [Rb [Rs [Rh Rc]]].
  assert (Hn0' : (bnum b =? 0) = false) by (apply N.eqb_neq; auto).
  assert (Hnone : get_header_by_number t d (bnum b) = None).
  { unfold get_header_by_number. rewrite Rc. auto. }
  assert (Hvb : validate_body t d b = ENone).
  { unfold validate_body. rewrite Hnone, andb_false_r, Hn0'.
    unfold has_block_and_state. rewrite Rb, Rs, Hbv. reflexivity. }
  assert (Hpp : match prev with Some q => Some q | None => parent_block t d b end = Some p).
  { destruct Hprev as [->| ->]; auto. unfold parent_block. rewrite Hn0', Rb. auto. }
  cbn [ic_loop]. fold d.
  destruct Hv as [->|[-> Hps']].
  - rewrite Hvb, Hpp. fold d. rewrite Rs, Hbv. cbn [negb N.eqb].
    destruct (write_block_with_state t p b s) as [s' e']. destruct e'; reflexivity.
  - rewrite Hps', Hhv. cbn [N.eqb orb]. rewrite Hvb. fold d. rewrite Rs, Hbv. cbn [negb N.eqb].
    destruct (write_block_with_state t p b s) as [s' e']. destruct e'; reflexivity.
Qed.

(* the not-already test is false on the family: b's height is free *)
Lemma gen_not_already : forall (s2 : st), d_canon (disk_of s2) = d_canon d0 ->
  match info t (cur s2) with
  | Some c => (bnum b <=? bnum c) && (match canon (disk_of s2) (bnum b) with Some h => h =? bid b | None => false end)
  | None => false
  end = false.
Proof.
  intros s2 E. destruct (info t (cur s2)); auto. unfold canon. rewrite E. fold (canon d0 (bnum b)). rewrite Hfree.
  apply andb_false_r.
Qed.

(* WriteBlockWithState on a node that is never killed, from any database of the family *)
Lemma wbws_gen : forall s, GFam (disk_of s) -> cur s = bid c0 -> budget s = None ->
  let r := write_block_with_state t p b s in
  snd r = ENone /\ disk_of (fst r) = g3 /\ cur (fst r) = bid b /\ budget (fst r) = None.
Proof.
  intros s HF Hc Hbud. unfold write_block_with_state, write_block.
  set (s1 := wr (block_batch b) s).
  assert (H1 : budget s1 = None /\ cur s1 = cur s /\ disk_of s1 = apply_write (block_batch b) (disk_of s)).
  { unfold s1. split; [apply wr_budget_none; auto|]. split; [apply wr_cur|apply wr_alive_disk; apply alive_none; auto]. }
  destruct H1 as [B1 [C1 D1]].
  set (s2 := if broot b =? broot p then s1 else wr [WState (broot b)] s1).
  assert (H2 : budget s2 = None /\ cur s2 = cur s /\
               disk_of s2 = apply_write gst_w (apply_write (block_batch b) (disk_of s))).
  { unfold s2, gst_w. destruct (broot b =? broot p).
    - rewrite D1. auto.
    - split; [apply wr_budget_none; auto|]. split; [rewrite wr_cur; auto|].
      rewrite wr_alive_disk; [rewrite D1; auto|apply alive_none; auto]. }
  destruct H2 as [B2 [C2 D2]].
  assert (Ecan : d_canon (disk_of s2) = d_canon d0).
  { destruct (GFam_fields _ HF) as [Fc _]. rewrite D2, <- Fc. unfold gst_w. destruct (broot b =? broot p); reflexivity. }
  cbv zeta. rewrite (gen_not_already s2 Ecan).
  (* the staged reorg is rg *)
  assert (Er : (if bpar b =? cur s2 then Some []
                else match info t (cur s2) with Some c => reorg t (disk_of s2) c b | None => None end) = Some rg).
  { rewrite C2, Hc. rewrite c0_id, Hc0. rewrite <- c0_id.
    rewrite <- Hrg. destruct (bpar b =? bid c0); auto.
    rewrite D2. destruct (GFam_g2 _ HF) as [->|[h ->]]; [reflexivity|apply reorg_setH]. }
  rewrite Er. cbn [fst snd]. split; [reflexivity|].
  cbn [disk_of cur budget set_future set_cur].
  split; [|split; [reflexivity|apply wr_budget_none; auto]].
  rewrite wr_alive_disk; [|apply alive_none; auto]. rewrite D2. apply GFam_lands; auto.
Qed.

(* from the database before the step, under any budget: where a crash leaves the database *)
Lemma wbws_crash : forall s, disk_of s = d0 -> cur s = bid c0 ->
  let r := write_block_with_state t p b s in
  (disk_of (fst r) = d0 \/ disk_of (fst r) = g1 \/ disk_of (fst r) = g2 \/ disk_of (fst r) = g3) /\
  (alive (fst r) -> snd r = ENone /\ disk_of (fst r) = g3 /\ cur (fst r) = bid b).
Proof.
  intros s Hd Hc. unfold write_block_with_state, write_block.
  set (s1 := wr (block_batch b) s).
  assert (C1 : cur s1 = cur s) by apply wr_cur.
  set (s2 := if broot b =? broot p then s1 else wr [WState (broot b)] s1).
  assert (C2 : cur s2 = cur s) by (unfold s2; destruct (broot b =? broot p); [auto|rewrite wr_cur; auto]).
  (* the database of s2 *)
  assert (E2 : (disk_of s2 = d0 /\ ~ alive s2) \/ (disk_of s2 = g1 /\ ~ alive s2) \/ (disk_of s2 = g2)).
  { destruct (wr_disk_cases (block_batch b) s) as [[E1 D1]|[A1 E1]]; fold s1 in E1.
    - left. assert (Hdead : budget s = Some O) by (destruct (alive_dec s); [contradiction|auto]).
      unfold s2, s1. rewrite (wr_dead _ s Hdead). destruct (broot b =? broot p); rewrite ?(wr_dead _ s Hdead); auto.
    - rewrite Hd in E1. fold g1 in E1. unfold s2, g2, gst_w. destruct (broot b =? broot p).
      + right; right. exact E1.
      + destruct (wr_disk_cases [WState (broot b)] s1) as [[E D]|[A E]]; rewrite E, E1; auto.
        right; left. split; auto. intros Ha. apply D. eapply wr_alive_back; eauto. }
  assert (Ecan : d_canon (disk_of s2) = d_canon d0).
  { destruct E2 as [[-> _]|[[-> _]| ->]]; auto.
    unfold g2, g1, gst_w. destruct (broot b =? broot p); reflexivity. }
  cbv zeta. rewrite (gen_not_already s2 Ecan).
  destruct E2 as [[E2 Dd]|[[E2 Dd]|E2]].
  - (* dead: nothing more is written *)
    assert (Hdead : budget s2 = Some O) by (destruct (alive_dec s2); [contradiction|auto]).
    destruct (if bpar b =? cur s2 then Some [] else match info t (cur s2) with Some c => reorg t (disk_of s2) c b | None => None end) as [rg'|];
      cbn [fst snd].
    + cbn [disk_of set_future set_cur]. rewrite wr_dead; auto. split; [rewrite E2; auto|].
      intros Ha. exfalso. apply Dd. exact Ha.
    + split; [rewrite E2; auto|]. intros Ha; contradiction.
  - assert (Hdead : budget s2 = Some O) by (destruct (alive_dec s2); [contradiction|auto]).
    destruct (if bpar b =? cur s2 then Some [] else match info t (cur s2) with Some c => reorg t (disk_of s2) c b | None => None end) as [rg'|];
      cbn [fst snd].
    + cbn [disk_of set_future set_cur]. rewrite wr_dead; auto. split; [rewrite E2; auto|].
      intros Ha. exfalso. apply Dd. exact Ha.
    + split; [rewrite E2; auto|]. intros Ha; contradiction.
  - assert (Er : (if bpar b =? cur s2 then Some []
                  else match info t (cur s2) with Some c => reorg t (disk_of s2) c b | None => None end) = Some rg).
    { rewrite C2, Hc. rewrite c0_id, Hc0. rewrite <- c0_id. rewrite <- Hrg. rewrite E2. reflexivity. }
    rewrite Er. cbn [fst snd disk_of cur set_future set_cur].
    fold gsw_w.
    destruct (wr_disk_cases gsw_w s2) as [[E3 D3]|[A3 E3]]; rewrite E3, E2.
    + split; auto. intros Ha. exfalso. apply D3. eapply wr_alive_back; eauto.
    + split; auto.
Qed.

End Step.
