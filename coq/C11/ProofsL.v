(* C11 - one import step in general position: a good new block b whose parent p is
   any stored block with state, while the head c0 is anywhere (so the head switch
   may reorganise: old chain empty or not, shorter or longer).  The databases a
   crash can leave inside the step, and idempotence of the step on them. *)
From VF.C11 Require Import Model ProofsA ProofsB ProofsC ProofsD ProofsE ProofsF ProofsG ProofsH ProofsI ProofsJ.
From Coq Require Import Lia ZifyBool ZifyN ZifyNat.
Local Open Scope N_scope.

Lemma apply_ew_setH : forall e h y, exists h', apply_ew e (setH h y) = setH h' (apply_ew e y).
Proof. intros e h y. destruct e; eexists; reflexivity. Qed.

Lemma apply_setH : forall w h y, exists h', apply_write w (setH h y) = setH h' (apply_write w y).
Proof.
  induction w as [|e w IH]; intros h y; [exists h; reflexivity|].
  rewrite !apply_write_cons. destruct (apply_ew_setH e h y) as [h1 E]. rewrite E. apply IH.
Qed.

Lemma parent_block_setH : forall t h y x, parent_block t (setH h y) x = parent_block t y x.
Proof. reflexivity. Qed.

Lemma walk_down_setH : forall t h y fuel x n acc, walk_down t fuel (setH h y) x n acc = walk_down t fuel y x n acc.
Proof.
  intros t h y. induction fuel as [|f IH]; intros x n acc; cbn [walk_down]; auto.
  rewrite parent_block_setH. destruct (bnum x =? n); auto. destruct (parent_block t y x); auto.
Qed.

Lemma find_common_setH : forall t h y fuel o n oc nc, find_common t fuel (setH h y) o n oc nc = find_common t fuel y o n oc nc.
Proof.
  intros t h y. induction fuel as [|f IH]; intros o n oc nc; cbn [find_common]; auto.
  rewrite !parent_block_setH. destruct (bid o =? bid n); auto.
  destruct (parent_block t y o); auto. destruct (parent_block t y n); auto.
Qed.

Lemma reorg_setH : forall t h y o n, reorg t (setH h y) o n = reorg t y o n.
Proof.
  intros. unfold reorg, reorg_chains. rewrite !walk_down_setH.
  destruct (bnum n <? bnum o).
  - destruct (walk_down t (fuel_of o) y o (bnum n) []) as [[o' oc]|]; auto. rewrite find_common_setH. reflexivity.
  - destruct (walk_down t (fuel_of n) y n (bnum o) []) as [[n' nc]|]; auto. rewrite find_common_setH. reflexivity.
Qed.

Section Step.
Variable t : tree.
Variable g : block.
Hypothesis Hg : info t (bid g) = Some g.
Hypothesis Hg0 : bnum g = 0.
Hypothesis Hid0 : info t 0 = None.
Hypothesis Hgood : good_block g = true.

Variable d0 : disk.
Variable c0 p b : block.
Variable rg : write.
Hypothesis HG0 : Good t g d0.
Hypothesis Hc0 : info t (d_headB d0) = Some c0.
Hypothesis Hb : info t (bid b) = Some b.
Hypothesis Hn0 : bnum b <> 0.
Hypothesis Hp : get_block t d0 (bpar b) (bnum b - 1) = Some p.
Hypothesis Hps : In (broot p) (d_state d0).
Hypothesis Hhv : bhv b = 0.
Hypothesis Hbv : bbv b = 0.
Hypothesis Hfree : canon d0 (bnum b) = None.

Definition gst_w : write := if broot b =? broot p then [] else [WState (broot b)].
Definition g1 : disk := apply_write (block_batch b) d0.
Definition g2 : disk := apply_write gst_w g1.
Definition rc_w : write := match btxs b with [] => [] | _ :: _ => [WRcpt (bid b)] end.

(* what reorg stages (nothing if the parent is the head) *)
Hypothesis Hrg : (if bpar b =? bid c0 then Some [] else reorg t g2 c0 b) = Some rg.

Definition gsw_w : write := rc_w ++ rg ++ map (fun tx => WLook tx (bid b)) (btxs b) ++ stage_head b.
Definition g3 : disk := apply_write gsw_w g2.

Inductive GFam : disk -> Prop :=
| GF0 : GFam d0 | GF1 : GFam g1 | GF2 : GFam g2
| GFH : forall d h, GFam d -> GFam (setH h d).

Lemma c0_id : bid c0 = d_headB d0.
Proof. eapply info_bid; eauto. Qed.

Lemma p_facts : In (bpar b) (d_hdr d0) /\ In (bpar b) (d_body d0) /\ info t (bpar b) = Some p /\
                bnum p = bnum b - 1 /\ bid p = bpar b.
Proof. apply get_block_spec in Hp. tauto. Qed.

Lemma GFam_fields : forall d, GFam d ->
  d_canon d = d_canon d0 /\ d_look d = d_look d0 /\ d_headB d = d_headB d0 /\ d_rcpt d = d_rcpt d0 /\
  (d_body d = d_body d0 \/ d_body d = addN (bid b) (d_body d0)) /\
  (d_hnum d = d_hnum d0 \/ d_hnum d = addN (bid b) (d_hnum d0)) /\
  (d_hdr d = d_hdr d0 \/ d_hdr d = addN (bid b) (d_hdr d0)) /\
  (d_state d = d_state d0 \/ d_state d = addN (broot b) (d_state d0)).
Proof.
  induction 1.
  - repeat split; auto.
  - unfold g1; simpl. repeat split; auto.
  - unfold g2, g1, gst_w. destruct (broot b =? broot p); simpl; repeat split; auto.
  - destruct IHGFam as [A [B [C [D [E [F [G H']]]]]]]. simpl. repeat split; auto.
Qed.

Lemma apply_gsw_setH : forall h d, apply_write gsw_w (setH h d) = apply_write gsw_w d.
Proof.
  intros h d. unfold gsw_w. rewrite !apply_write_app.
  destruct (apply_setH rc_w h d) as [h1 E1]. rewrite E1.
  destruct (apply_setH rg h1 (apply_write rc_w d)) as [h2 E2]. rewrite E2.
  destruct (apply_setH (map (fun tx => WLook tx (bid b)) (btxs b)) h2 (apply_write rg (apply_write rc_w d))) as [h3 E3]. rewrite E3.
  reflexivity.
Qed.

(* after the block batch and the state commit every database of the family is g2 (up to the head-header marker) *)
Lemma GFam_g2 : forall d, GFam d ->
  apply_write gst_w (apply_write (block_batch b) d) = g2 \/
  exists h, apply_write gst_w (apply_write (block_batch b) d) = setH h g2.
Proof.
  induction 1.
  - left; reflexivity.
  - left. unfold g2. f_equal. unfold g1. simpl. rewrite !addN_idem. reflexivity.
  - left. unfold g2, g1, gst_w. destruct (broot b =? broot p); simpl; rewrite !addN_idem; reflexivity.
  - assert (E : apply_write gst_w (apply_write (block_batch b) (setH h d)) = setH h (apply_write gst_w (apply_write (block_batch b) d))).
    { unfold gst_w. destruct (broot b =? broot p); reflexivity. }
    rewrite E. destruct IHGFam as [->|[h' ->]]; right; [exists h|exists h]; reflexivity.
Qed.

Lemma GFam_lands : forall d, GFam d -> apply_write gsw_w (apply_write gst_w (apply_write (block_batch b) d)) = g3.
Proof.
  intros d HF. destruct (GFam_g2 d HF) as [->|[h ->]]; [reflexivity|apply apply_gsw_setH].
Qed.

(* the reads of the step on any database of the family *)
Lemma GFam_reads : forall d, GFam d ->
  get_block t d (bpar b) (bnum b - 1) = Some p /\ has_state d (broot p) = true /\
  get_header t d (bpar b) (bnum b - 1) = Some p /\ canon d (bnum b) = None.
Proof.
  intros d HF. destruct (GFam_fields d HF) as [Fc [_ [_ [_ [Fb [_ [Fd Fs]]]]]]].
  destruct p_facts as [P1 [P2 [P3 [P4 P5]]]].
  assert (Hh : get_header t d (bpar b) (bnum b - 1) = Some p).
  { rewrite <- P4. apply get_header_intro; auto. apply (In_either _ (bid b) (d_hdr d0)); auto. }
  split; [|split; [|split; auto]].
  - unfold get_block. assert (Hm : memN (bpar b) (d_body d) = true) by (apply memN_In; apply (In_either _ (bid b) (d_body d0)); auto).
    rewrite Hm; auto.
  - apply memN_In. apply (In_either _ (broot b) (d_state d0)); auto.
  - unfold canon. rewrite Fc. exact Hfree.
Qed.

(* one step of insertChain's loop: the block is processed on p by WriteBlockWithState *)
Lemma ic_step_gen : forall side s rest prev v, GFam (disk_of s) -> (prev = None \/ prev = Some p) ->
  (v = ENone \/ (v = EExist /\ prev = Some p)) ->
  ic_loop t side s ((b, v) :: rest) prev =
  match write_block_with_state t p b s with
  | (s', ENone) => ic_loop t side s' rest (Some b)
  | (s', e) => (s', e)
  end.
Proof.
  intros side s rest prev v HF Hprev Hv. set (d := disk_of s) in *.
  destruct (GFam_reads d HF) as [Rb [Rs [Rh Rc]]].
  assert (Hn0' : (bnum b =? 0) = false) by (apply N.eqb_neq; auto).
  assert (Hnone : get_header_by_number t d (bnum b) = None).
  { unfold get_header_by_number. rewrite Rc. auto. }
  assert (Hvb : validate_body t d b = ENone).
  { unfold validate_body. rewrite Hnone, andb_false_r, Hn0'.
    unfold has_block_and_state. rewrite Rb, Rs, Hbv. reflexivity. }
  assert (Hpp : match prev with Some q => Some q | None => parent_block t d b end = Some p).
  { destruct Hprev as [->| ->]; auto. unfold parent_block. rewrite Hn0', Rb. auto. }
  cbn [ic_loop]. fold d.
  destruct Hv as [->|[-> Hps']].
  - rewrite Hvb, Hpp. fold d. rewrite Rs, Hbv. cbn [negb N.eqb].
    destruct (write_block_with_state t p b s) as [s' e']. destruct e'; reflexivity.
  - rewrite Hps', Hhv. cbn [N.eqb orb]. rewrite Hvb. fold d. rewrite Rs, Hbv. cbn [negb N.eqb].
    destruct (write_block_with_state t p b s) as [s' e']. destruct e'; reflexivity.
Qed.

(* the not-already test is false on the family: b's height is free *)
Lemma gen_not_already : forall (s2 : st), d_canon (disk_of s2) = d_canon d0 ->
  match info t (cur s2) with
  | Some c => (bnum b <=? bnum c) && (match canon (disk_of s2) (bnum b) with Some h => h =? bid b | None => false end)
  | None => false
  end = false.
Proof.
  intros s2 E. destruct (info t (cur s2)); auto. unfold canon. rewrite E. fold (canon d0 (bnum b)). rewrite Hfree.
  apply andb_false_r.
Qed.

(* WriteBlockWithState on a node that is never killed, from any database of the family *)
Lemma wbws_gen : forall s, GFam (disk_of s) -> cur s = bid c0 -> budget s = None ->
  let r := write_block_with_state t p b s in
  snd r = ENone /\ disk_of (fst r) = g3 /\ cur (fst r) = bid b /\ budget (fst r) = None.
Proof.
  intros s HF Hc Hbud. unfold write_block_with_state, write_block.
  set (s1 := wr (block_batch b) s).
  assert (H1 : budget s1 = None /\ cur s1 = cur s /\ disk_of s1 = apply_write (block_batch b) (disk_of s)).
  { unfold s1. split; [apply wr_budget_none; auto|]. split; [apply wr_cur|apply wr_alive_disk; apply alive_none; auto]. }
  destruct H1 as [B1 [C1 D1]].
  set (s2 := if broot b =? broot p then s1 else wr [WState (broot b)] s1).
  assert (H2 : budget s2 = None /\ cur s2 = cur s /\
               disk_of s2 = apply_write gst_w (apply_write (block_batch b) (disk_of s))).
  { unfold s2, gst_w. destruct (broot b =? broot p).
    - rewrite D1. auto.
    - split; [apply wr_budget_none; auto|]. split; [rewrite wr_cur; auto|].
      rewrite wr_alive_disk; [rewrite D1; auto|apply alive_none; auto]. }
  destruct H2 as [B2 [C2 D2]].
  assert (Ecan : d_canon (disk_of s2) = d_canon d0).
  { destruct (GFam_fields _ HF) as [Fc _]. rewrite D2, <- Fc. unfold gst_w. destruct (broot b =? broot p); reflexivity. }
  cbv zeta. rewrite (gen_not_already s2 Ecan).
  (* the staged reorg is rg *)
  assert (Er : (if bpar b =? cur s2 then Some []
                else match info t (cur s2) with Some c => reorg t (disk_of s2) c b | None => None end) = Some rg).
  { rewrite C2, Hc. rewrite c0_id, Hc0. rewrite <- c0_id.
    rewrite <- Hrg. destruct (bpar b =? bid c0); auto.
    rewrite D2. destruct (GFam_g2 _ HF) as [->|[h ->]]; [reflexivity|apply reorg_setH]. }
  rewrite Er. cbn [fst snd]. split; [reflexivity|].
  cbn [disk_of cur budget set_future set_cur].
  split; [|split; [reflexivity|apply wr_budget_none; auto]].
  rewrite wr_alive_disk; [|apply alive_none; auto]. rewrite D2. apply GFam_lands; auto.
Qed.

(* from the database before the step, under any budget: where a crash leaves the database *)
Lemma wbws_crash : forall s, disk_of s = d0 -> cur s = bid c0 ->
  let r := write_block_with_state t p b s in
  (disk_of (fst r) = d0 \/ disk_of (fst r) = g1 \/ disk_of (fst r) = g2 \/ disk_of (fst r) = g3) /\
  (alive (fst r) -> snd r = ENone /\ disk_of (fst r) = g3 /\ cur (fst r) = bid b).
Proof.
  intros s Hd Hc. unfold write_block_with_state, write_block.
  set (s1 := wr (block_batch b) s).
  assert (C1 : cur s1 = cur s) by apply wr_cur.
  set (s2 := if broot b =? broot p then s1 else wr [WState (broot b)] s1).
  assert (C2 : cur s2 = cur s) by (unfold s2; destruct (broot b =? broot p); [auto|rewrite wr_cur; auto]).
  (* the database of s2 *)
  assert (E2 : (disk_of s2 = d0 /\ ~ alive s2) \/ (disk_of s2 = g1 /\ ~ alive s2) \/ (disk_of s2 = g2)).
  { destruct (wr_disk_cases (block_batch b) s) as [[E1 D1]|[A1 E1]]; fold s1 in E1.
    - left. assert (Hdead : budget s = Some O) by (destruct (alive_dec s); [contradiction|auto]).
      unfold s2, s1. rewrite (wr_dead _ s Hdead). destruct (broot b =? broot p); rewrite ?(wr_dead _ s Hdead); auto.
    - rewrite Hd in E1. fold g1 in E1. unfold s2, g2, gst_w. destruct (broot b =? broot p).
      + right; right. exact E1.
      + destruct (wr_disk_cases [WState (broot b)] s1) as [[E D]|[A E]]; rewrite E, E1; auto.
        right; left. split; auto. intros Ha. apply D. eapply wr_alive_back; eauto. }
  assert (Ecan : d_canon (disk_of s2) = d_canon d0).
  { destruct E2 as [[-> _]|[[-> _]| ->]]; auto.
    unfold g2, g1, gst_w. destruct (broot b =? broot p); reflexivity. }
  cbv zeta. rewrite (gen_not_already s2 Ecan).
  destruct E2 as [[E2 Dd]|[[E2 Dd]|E2]].
  - (* dead: nothing more is written *)
    assert (Hdead : budget s2 = Some O) by (destruct (alive_dec s2); [contradiction|auto]).
    destruct (if bpar b =? cur s2 then Some [] else match info t (cur s2) with Some c => reorg t (disk_of s2) c b | None => None end) as [rg'|];
      cbn [fst snd].
    + cbn [disk_of set_future set_cur]. rewrite wr_dead; auto. split; [rewrite E2; auto|].
      intros Ha. exfalso. apply Dd. exact Ha.
    + split; [rewrite E2; auto|]. intros Ha; contradiction.
  - assert (Hdead : budget s2 = Some O) by (destruct (alive_dec s2); [contradiction|auto]).
    destruct (if bpar b =? cur s2 then Some [] else match info t (cur s2) with Some c => reorg t (disk_of s2) c b | None => None end) as [rg'|];
      cbn [fst snd].
    + cbn [disk_of set_future set_cur]. rewrite wr_dead; auto. split; [rewrite E2; auto|].
      intros Ha. exfalso. apply Dd. exact Ha.
    + split; [rewrite E2; auto|]. intros Ha; contradiction.
  - assert (Er : (if bpar b =? cur s2 then Some []
                  else match info t (cur s2) with Some c => reorg t (disk_of s2) c b | None => None end) = Some rg).
    { rewrite C2, Hc. rewrite c0_id, Hc0. rewrite <- c0_id. rewrite <- Hrg. rewrite E2. reflexivity. }
    rewrite Er. cbn [fst snd disk_of cur set_future set_cur].
    match goal with |- context [wr ?w s2] => destruct (wr_disk_cases w s2) as [[E3 D3]|[A3 E3]]; rewrite E3, E2 end.
    + split; auto. intros Ha. exfalso. apply D3. unfold alive in Ha. cbn [budget set_future set_cur] in Ha.
      eapply wr_alive_back. exact Ha.
    + split; [right; right; right; reflexivity|]. intros _. split; [reflexivity|]. split; reflexivity.
Qed.

(* ---- the database after the complete step ------------------------------------------------ *)

Hypothesis Hfa : forall n, bnum b < n -> canon d0 n = None.

(* the head-switch batch has the shape analysed in ProofsE *)
Lemma g3_shape : exists ncl diff, g3 = applyl (switch_l ncl diff rc_w b) g2 /\ (forall x, In x ncl -> bnum x <= bnum b).
Proof.
  destruct (bpar b =? bid c0) eqn:Elin.
  - injection Hrg as Erg. exists [], []. split; [|intros x []].
    unfold g3, gsw_w. rewrite <- Erg. rewrite <- apply_write_concat, <- switch_batch_concat. reflexivity.
  - unfold reorg in Hrg. destruct (reorg_chains t g2 c0 b) as [[oc nc]|] eqn:Erc; try discriminate.
    injection Hrg as Erg.
    assert (Hsc0 : In (bid c0) (d_hdr g2)).
    { destruct HG0 as [HD _]. pose proof (D_head t g d0 HD) as Hd. rewrite c0_id.
      unfold g2, g1, gst_w. destruct (broot b =? broot p); simpl; apply In_addN; auto. }
    assert (Hsb : In (bid b) (d_hdr g2)).
    { unfold g2, g1, gst_w. destruct (broot b =? broot p); simpl; apply In_addN; auto. }
    assert (Hc0i : info t (bid c0) = Some c0) by (rewrite c0_id; auto).
    destruct (reorg_chains_spec t _ _ _ _ _ Erc Hc0i Hb Hsc0 Hsb) as [c [Q1 [Q2 [Q3 [Q4 Q5]]]]].
    exists (rev nc), (filter (fun x => negb (memN x (all_txs nc))) (all_txs oc)). split.
    + unfold g3, gsw_w. rewrite <- Erg. rewrite <- apply_write_concat, <- switch_batch_concat. reflexivity.
    + intros x Hx. apply in_rev in Hx. pose proof (down_path_heights t g2 nc c Q2 x Hx) as Hh2.
      rewrite Q4 in Hh2. lia.
Qed.

Lemma g3_facts :
  Good t g g3 /\ info t (d_headB g3) = Some b /\ d_headB g3 = bid b /\
  (forall n, bnum b < n -> canon g3 n = None) /\
  apply_write [WHeadH (d_headB g3)] g3 = g3 /\
  (forall h, In h (d_hdr d0) -> In h (d_hdr g3)) /\ (forall h, In h (d_body d0) -> In h (d_body g3)) /\
  (forall r, In r (d_state d0) -> In r (d_state g3)).
Proof.
  destruct p_facts as [P1 [P2 [P3 [P4 P5]]]].
  set (s := mkS d0 (bid c0) [] [] None).
  assert (HJ : J t g s) by (split; auto; intros _; simpl; apply c0_id).
  assert (Hw : J t g (fst (write_block_with_state t p b s))).
  { apply (J_wbws t g); auto.
    - unfold goodish, good_block. rewrite Hhv, Hbv. reflexivity.
    - exists p. split; auto. lia. }
  destruct (wbws_gen s GF0 eq_refl eq_refl) as [_ [W2 [W3 W4]]].
  destruct Hw as [HGw HCw]. rewrite W2 in HGw.
  assert (Hh : d_headB g3 = bid b).
  { rewrite <- W2. rewrite <- HCw; auto. unfold alive. rewrite W4. discriminate. }
  assert (Hrc : rc_ok rc_w). { unfold rc_w. destruct (btxs b); [left; auto|right; eexists; eauto]. }
  destruct g3_shape as [ncl [diff [E Hncl]]].
  destruct (switch_fields ncl diff rc_w b g2 Hrc) as [[S1 [S2 [S3 S4]]] [_ [Fc _]]]. rewrite <- E in S1, S3, S4, Fc.
  split; [exact HGw|]. split; [rewrite Hh; auto|]. split; [exact Hh|]. split; [|split; [|split; [|split]]].
  - intros n Hn.
    assert (Hc2 : d_canon g2 = d_canon d0).
    { unfold g2, g1, gst_w. destruct (broot b =? broot p); reflexivity. }
    unfold canon. rewrite Fc, alookup_aset. destruct (bnum b =? n) eqn:En; [apply N.eqb_eq in En; lia|].
    rewrite canon_fold_other.
    + rewrite Hc2. apply Hfa; auto.
    + intros x Hx E2. apply Hncl in Hx. lia.
  - rewrite Hh. unfold g3, gsw_w. rewrite !app_assoc, apply_write_app. reflexivity.
  - intros h Hin. rewrite S3. unfold g2, g1, gst_w. destruct (broot b =? broot p); simpl; apply In_addN; auto.
  - intros h Hin. rewrite S1. unfold g2, g1, gst_w. destruct (broot b =? broot p); simpl; apply In_addN; auto.
  - intros r Hin. rewrite S4. unfold g2, g1, gst_w. destruct (broot b =? broot p); simpl; auto. apply In_addN; auto.
Qed.

End Step.
