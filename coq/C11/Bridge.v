(* C11 - facts about coq/gen/C11Calls.v, the inventory of batch operations that the
   translator "c11 calls" reads from the working tree's core/blockchain.go on every
   run.  The model (Model.v) writes a block as ONE batch, and receipts + reorg's
   entries + lookups + head markers as ONE batch; that is only a faithful picture
   of the code while these functions contain exactly these batch operations: no
   size-triggered flush (ValueSize / Write / Reset inside reorg or inside a loop),
   no additional Write.  A new flush site changes the inventory and breaks the
   obligations below whatever the data sizes of the generated cases are. *)
From Coq Require Import String List Bool Arith.
Import ListNotations.
From VF.gen Require Import C11Calls.
Open Scope string_scope.

Definition c11_expected_calls : list (string * string * string) :=
  [("WriteBlockWithoutState", "bc.db", "NewBatch");
   ("WriteBlockWithoutState", "blockBatch", "Write");
   ("WriteBlockWithState", "bc.db", "NewBatch");
   ("WriteBlockWithState", "blockBatch", "Write");
   ("WriteBlockWithState", "bc.db", "NewBatch");
   ("WriteBlockWithState", "batch", "Write");      (* block already canonical at or below the head: receipts only *)
   ("WriteBlockWithState", "batch", "Write")].     (* the head switch *)

Definition ops (f m : string) : nat :=
  length (filter (fun c => String.eqb (fst (fst c)) f && String.eqb (snd c) m) c11_calls).
Definition ops_any (m : string) : nat :=
  length (filter (fun c => String.eqb (snd c) m) c11_calls).

Lemma batch_call_inventory : c11_calls = c11_expected_calls.
Proof. reflexivity. Qed.

(* what the model relies on, spelled out *)
Definition head_switch_one_write_stmt : Prop :=
  ops_any "Reset" = 0 /\ ops_any "ValueSize" = 0 /\ ops_any "MISSING" = 0 /\
  ops "reorg" "Write" = 0 /\ ops "stageHead" "Write" = 0 /\ ops "adoptHead" "Write" = 0 /\
  ops "insertChain" "Write" = 0 /\ ops "insertSidechain" "Write" = 0 /\ ops "verifyAllSideChainBlocks" "Write" = 0 /\
  ops "WriteBlockWithoutState" "Write" = 1 /\ ops "WriteBlockWithState" "Write" = 3 /\
  ops "WriteBlockWithState" "NewBatch" = 2.

Lemma head_switch_is_one_write : head_switch_one_write_stmt.
Proof. vm_compute. repeat split; reflexivity. Qed.
