(* C11 - not wedged for batches that extend the head linearly (any number of
   blocks): killed after any write, the restarted node that is offered the
   batch again ends with exactly the database and head of the node that never
   crashed. *)
From VF.C11 Require Import Model ProofsA ProofsB ProofsC ProofsD ProofsE ProofsF ProofsG ProofsH ProofsI ProofsJ.
From Coq Require Import Lia ZifyBool ZifyN ZifyNat.
Local Open Scope N_scope.

Section Multi.
Variable t : tree.
Variable g : block.
Hypothesis Hg : info t (bid g) = Some g.
Hypothesis Hg0 : bnum g = 0.
Hypothesis Hid0 : info t 0 = None.
Hypothesis Hgood : good_block g = true.

Notation Good := (Good t g).

(* a chain of good blocks on top of hb *)
Fixpoint lin_chain (hb : block) (chain : list block) : Prop :=
  match chain with
  | [] => True
  | b :: r => info t (bid b) = Some b /\ bpar b = bid hb /\ bnum b = bnum hb + 1 /\ bhv b = 0 /\ bbv b = 0 /\ lin_chain b r
  end.

(* no (stale) index entries above the head *)
Definition free_above (d : disk) (hb : block) : Prop := forall n, bnum hb < n -> canon d n = None.

(* the database after the crash-free import of the chain *)
Fixpoint lin_disk (d : disk) (hb : block) (chain : list block) : disk :=
  match chain with
  | [] => d
  | b :: r => lin_disk (d3 d hb b) b r
  end.

(* the databases a crash can leave: inside block b's import (family of b), or further on *)
Fixpoint CrashDisk (d : disk) (hb : block) (chain : list block) (x : disk) : Prop :=
  match chain with
  | [] => x = d
  | b :: r => Fam d hb b x \/ CrashDisk (d3 d hb b) b r x
  end.

Lemma CrashDisk_start : forall chain d hb, CrashDisk d hb chain d.
Proof. destruct chain; simpl; auto. intros; left; apply Fam0. Qed.

Lemma d3_unfold : forall d hb b, d3 d hb b = apply_write (sw_w b) (apply_write (st_w hb b) (apply_write (block_batch b) d)).
Proof. reflexivity. Qed.

Lemma hb_facts : forall d hb, Good d -> info t (d_headB d) = Some hb ->
  bid hb = d_headB d /\ In (bid hb) (d_hdr d) /\ In (bid hb) (d_body d) /\ In (broot hb) (d_state d) /\
  canon d (bnum hb) = Some (bid hb).
Proof.
  intros d hb [HD [HB [[x [Q1 [Q2 [Q3 _]]]]]]] Hh. rewrite Hh in Q1. inversion Q1; subst x.
  assert (E : bid hb = d_headB d) by (eapply info_bid; eauto). rewrite E.
  pose proof (D_head t g d HD) as H1. destruct (D_body t g d HD _ H1). auto.
Qed.

(* one crash-free step keeps the hypotheses *)
Lemma step_good : forall d hb b r, Good d -> info t (d_headB d) = Some hb -> free_above d hb -> lin_chain hb (b :: r) ->
  Good (d3 d hb b) /\ info t (d_headB (d3 d hb b)) = Some b /\ free_above (d3 d hb b) b /\
  apply_write [WHeadH (d_headB (d3 d hb b))] (d3 d hb b) = d3 d hb b.
Proof.
  intros d hb b r HG Hh Hf [L1 [L2 [L3 [L4 [L5 _]]]]].
  destruct (hb_facts d hb HG Hh) as [E [S1 [S2 [S3 S4]]]].
  destruct (d3_fields t g d hb b HG Hh) as [Fc [Fd [Fb [Fh [FH [Fs Fid]]]]]].
  split; [|split; [rewrite Fh; auto|split; [|rewrite Fh; auto]]].
  - set (s := mkS d (bid hb) [] [] None).
    assert (HJ : J t g s) by (split; auto; intros _; simpl; auto).
    assert (Hw : J t g (fst (write_block_with_state t hb b s))).
    { apply (J_wbws t g); auto.
      - unfold goodish, good_block. rewrite L4, L5. reflexivity.
      - lia.
      - simpl. rewrite L2; auto.
      - exists hb. rewrite L2, E. split; auto. }
    assert (Hab : forall c, info t (cur s) = Some c -> bnum c < bnum b).
    { intros c Hcc. simpl in Hcc. rewrite E, Hh in Hcc. inversion Hcc; subst. lia. }
    destruct (wbws_linear t hb b s eq_refl L2 Hab) as [_ [W2 _]]. destruct Hw as [HGw _]. rewrite W2 in HGw. exact HGw.
  - intros n Hn. unfold canon. rewrite Fc, alookup_aset.
    destruct (bnum b =? n) eqn:En; [apply N.eqb_eq in En; lia|]. apply Hf. lia.
Qed.

(* every database of a crash set keeps what the database before the chain had *)
Lemma Fam_mono : forall d hb b x, Fam d hb b x ->
  (forall h, In h (d_hdr d) -> In h (d_hdr x)) /\ (forall h, In h (d_body d) -> In h (d_body x)) /\
  (forall r, In r (d_state d) -> In r (d_state x)) /\ d_canon x = d_canon d /\ d_headB x = d_headB d.
Proof.
  intros d hb b x HF. destruct (Fam_fields d hb b x HF) as [Fc [_ [Fh [_ [Fb [_ [Fd Fs]]]]]]].
  repeat split; auto; intros y Hy.
  - destruct Fd as [->| ->]; auto. apply In_addN; auto.
  - destruct Fb as [->| ->]; auto. apply In_addN; auto.
  - destruct Fs as [->| ->]; auto. apply In_addN; auto.
Qed.

Lemma CrashDisk_mono : forall chain d hb x, Good d -> info t (d_headB d) = Some hb -> free_above d hb -> lin_chain hb chain ->
  CrashDisk d hb chain x ->
  (forall h, In h (d_hdr d) -> In h (d_hdr x)) /\ (forall h, In h (d_body d) -> In h (d_body x)) /\
  (forall r, In r (d_state d) -> In r (d_state x)) /\ (forall n, n <= bnum hb -> canon x n = canon d n).
Proof.
  induction chain as [|b r IH]; intros d hb x HG Hh Hf Hl HC; simpl in HC.
  - subst x. repeat split; auto.
  - destruct HC as [HF|HC].
    + destruct (Fam_mono d hb b x HF) as [A [B [C [D _]]]]. repeat split; auto. intros n _. unfold canon. rewrite D; auto.
    + destruct (step_good d hb b r HG Hh Hf Hl) as [G1 [G2 [G3 _]]].
      destruct Hl as [L1 [L2 [L3 [L4 [L5 L6]]]]].
      destruct (IH (d3 d hb b) b x G1 G2 G3 L6 HC) as [A [B [C D]]].
      destruct (d3_fields t g d hb b HG Hh) as [Fc [Fd [Fb [_ [_ [Fs _]]]]]].
      assert (Hst : forall r0, In r0 (d_state d) -> In r0 (d_state (d3 d hb b))).
      { intros r0 Hr. rewrite d3_unfold. unfold sw_w. rewrite !apply_write_app.
        assert (Hsoft : forall w y, forallb soft_ew w = true -> d_state (apply_write w y) = d_state y).
        { induction w as [|e w IHw]; intros y Hw; auto. cbn [forallb] in Hw. apply andb_true_iff in Hw. destruct Hw.
          rewrite apply_write_cons, IHw; auto. destruct (soft_ew_fields e y) as [_ [_ [_ [E _]]]]; auto. }
        simpl apply_write at 1. change (apply_write [] ?z) with z.
        rewrite Hsoft; [|apply forallb_soft_look]. rewrite Hsoft; [|destruct (btxs b); reflexivity].
        unfold st_w. destruct (broot b =? broot hb); simpl; auto. apply In_addN; auto. }
      repeat split.
      * intros h Hin. apply A. rewrite Fd. apply In_addN; auto.
      * intros h Hin. apply B. rewrite Fb. apply In_addN; auto.
      * intros r0 Hr. apply C. apply Hst; auto.
      * intros n Hn. rewrite D; [|lia]. unfold canon. rewrite Fc, alookup_aset.
        destruct (bnum b =? n) eqn:En; auto. apply N.eqb_eq in En. lia.
Qed.

(* ---- verdicts ------------------------------------------------------------------------------------ *)

Lemma verdicts_lin : forall d' chain hb prev, lin_chain hb chain ->
  (prev = Some hb \/ (prev = None /\ get_header t d' (bid hb) (bnum hb) = Some hb)) ->
  (forall b, In b chain -> canon d' (bnum b) = None \/ canon d' (bnum b) = Some (bid b)) ->
  combine chain (verdicts t d' prev chain) = map (fun b => (b, ENone)) chain.
Proof.
  intros d'. induction chain as [|b r IH]; intros hb prev Hl Hp Hc; auto.
  destruct Hl as [L1 [L2 [L3 [L4 [L5 L6]]]]]. cbn [verdicts combine map]. f_equal.
  - f_equal. unfold verify_header. rewrite L4. cbn.
    assert (Hn0 : (bnum b =? 0) = false) by (apply N.eqb_neq; lia). rewrite Hn0.
    assert (Hpp : match prev with Some p => Some p | None => parent_header t d' b end = Some hb).
    { destruct Hp as [->|[-> Hh]]; auto. unfold parent_header. rewrite Hn0, L2.
      replace (bnum b - 1) with (bnum hb) by lia. auto. }
    rewrite Hpp. rewrite L2, N.eqb_refl.
    assert (E : (bnum hb + 1 =? bnum b) = true) by (apply N.eqb_eq; lia). rewrite E. cbn.
    unfold get_header_by_number. destruct (Hc b (or_introl eq_refl)) as [->| ->]; auto.
    destruct (get_header t d' (bid b) (bnum b)) as [l|] eqn:El; auto.
    apply get_header_spec in El. destruct El as [_ [_ [_ El]]]. rewrite El, N.eqb_refl. reflexivity.
  - apply (IH b); auto. intros x Hx. apply Hc; right; auto.
Qed.

Lemma lin_contiguous : forall chain hb, lin_chain hb chain -> contiguous chain = true.
Proof.
  induction chain as [|a r IH]; intros hb Hl; auto.
  destruct Hl as [_ [_ [_ [_ [_ L6]]]]]. destruct r as [|b r']; auto.
  change (contiguous (a :: b :: r')) with ((bnum a + 1 =? bnum b) && (bid a =? bpar b) && contiguous (b :: r')).
  rewrite (IH a L6). destruct L6 as [_ [M2 [M3 _]]].
  assert (E : (bnum a + 1 =? bnum b) = true) by (apply N.eqb_eq; lia). rewrite E, M2, N.eqb_refl. reflexivity.
Qed.

Lemma last_default : forall (l : list block) a c, l <> [] -> last l a = last l c.
Proof.
  induction l as [|x l IH]; intros a c H; [congruence|].
  destruct l as [|y l]; auto. change (last (x :: y :: l) a) with (last (y :: l) a).
  change (last (x :: y :: l) c) with (last (y :: l) c). apply IH. discriminate.
Qed.

Definition side_of (f : nat) := insert_sidechain t (insert_chain t f).

(* ---- the crash-free loop, and the loop from any database of the first block's family ----------- *)

Lemma lin_loop : forall f chain d hb s prev,
  Good d -> info t (d_headB d) = Some hb -> free_above d hb -> lin_chain hb chain ->
  (match chain with b :: _ => Fam d hb b (disk_of s) | [] => disk_of s = d end) ->
  cur s = bid hb -> budget s = None -> (prev = None \/ prev = Some hb) ->
  let r := ic_loop t (side_of f) s (map (fun b => (b, ENone)) chain) prev in
  disk_of (fst r) = lin_disk d hb chain /\ cur (fst r) = bid (last chain hb) /\ budget (fst r) = None.
Proof.
  intros f. induction chain as [|b r IH]; intros d hb s prev HG Hh Hf Hl HF Hc Hb Hp.
  - simpl. auto.
  - destruct (step_good d hb b r HG Hh Hf Hl) as [G1 [G2 [G3 _]]].
    pose proof Hl as [L1 [L2 [L3 [L4 [L5 L6]]]]].
    cbn [map]. cbv zeta.
    assert (Hfree : canon d (bnum b) = None) by (apply Hf; lia).
    rewrite (ic_step t g Hg0 Hgood d hb b HG Hh L2 L3 L4 L5 Hfree); auto.
    assert (Hpc : bpar b = cur s) by congruence.
    assert (Hab : forall c, info t (cur s) = Some c -> bnum c < bnum b).
    { intros c Hcc. rewrite Hc in Hcc. destruct (hb_facts d hb HG Hh) as [E _]. rewrite E, Hh in Hcc. inversion Hcc; subst. lia. }
    destruct (wbws_linear t hb b s Hb Hpc Hab) as [W1 [W2 [W3 W4]]].
    destruct (write_block_with_state t hb b s) as [s' e']. cbn [fst snd] in W1, W2, W3, W4. subst e'.
    assert (W2' : disk_of s' = d3 d hb b) by (rewrite W2; exact (Fam_lands d hb b (disk_of s) HF)).
    destruct (IH (d3 d hb b) b s' (Some b) G1 G2 G3 L6) as [I1 [I2 I3]]; auto.
    { destruct r as [|b2 r2]; [exact W2'|]. rewrite W2'. apply Fam0. }
    cbn [lin_disk]. split; [exact I1|]. split; [|exact I3].
    rewrite I2. destruct r as [|b2 r2]; [reflexivity|].
    change (last (b :: b2 :: r2) hb) with (last (b2 :: r2) hb). f_equal. apply last_default. discriminate.
Qed.

(* ---- where a killed import leaves the database ----------------------------------------------- *)

Lemma crash_loop : forall f chain d hb s prev,
  Good d -> info t (d_headB d) = Some hb -> free_above d hb -> lin_chain hb chain ->
  disk_of s = d -> cur s = bid hb -> (prev = None \/ prev = Some hb) ->
  CrashDisk d hb chain (disk_of (fst (ic_loop t (side_of f) s (map (fun b => (b, ENone)) chain) prev))).
Proof.
  intros f. induction chain as [|b r IH]; intros d hb s prev HG Hh Hf Hl Hd Hc Hp.
  - simpl. auto.
  - destruct (step_good d hb b r HG Hh Hf Hl) as [G1 [G2 [G3 _]]].
    pose proof Hl as [L1 [L2 [L3 [L4 [L5 L6]]]]].
    assert (Hfree : canon d (bnum b) = None) by (apply Hf; lia).
    assert (HF : Fam d hb b (disk_of s)) by (rewrite Hd; apply Fam0).
    cbn [map]. rewrite (ic_step t g Hg0 Hgood d hb b HG Hh L2 L3 L4 L5 Hfree); auto.
    assert (Hpc : bpar b = cur s) by congruence.
    assert (Hab : forall c, info t (cur s) = Some c -> bnum c < bnum b).
    { intros c Hcc. rewrite Hc in Hcc. destruct (hb_facts d hb HG Hh) as [E _]. rewrite E, Hh in Hcc. inversion Hcc; subst. lia. }
    destruct (wbws_alive t hb b s Hpc Hab) as [W1 [W2 W3]].
    pose proof (wbws_budget_disk t hb b s Hpc Hab) as W4.
    destruct (write_block_with_state t hb b s) as [s' e']. cbn [fst snd] in W1, W2, W3, W4. subst e'.
    destruct (alive_dec s') as [Ha|Hdead].
    + right. apply IH; auto. rewrite (W3 Ha), Hd. reflexivity.
    + rewrite (dead_ic_loop t (side_of f) (dead_side t f)); auto.
      rewrite Hd in W4. destruct W4 as [E|[E|[E|E]]]; rewrite E.
      * left. apply Fam0.
      * left. apply Fam1.
      * left. apply Fam2.
      * right. apply CrashDisk_start.
Qed.

Lemma lin_heights : forall chain hb b, lin_chain hb chain -> In b chain -> bnum hb < bnum b.
Proof.
  induction chain as [|a r IH]; intros hb b Hl Hin; [contradiction|].
  destruct Hl as [_ [_ [L3 [_ [_ L6]]]]]. destruct Hin as [<-|Hin]; [lia|].
  specialize (IH a b L6 Hin). lia.
Qed.

Lemma CrashDisk_canon : forall chain d hb x, Good d -> info t (d_headB d) = Some hb -> free_above d hb -> lin_chain hb chain ->
  CrashDisk d hb chain x ->
  forall b, In b chain -> canon x (bnum b) = None \/ canon x (bnum b) = Some (bid b).
Proof.
  induction chain as [|a r IH]; intros d hb x HG Hh Hf Hl HC b Hin; [contradiction|].
  simpl in HC. destruct HC as [HF|HC].
  - left. destruct (Fam_mono d hb a x HF) as [_ [_ [_ [D _]]]]. unfold canon. rewrite D.
    apply Hf. eapply lin_heights; eauto.
  - destruct (step_good d hb a r HG Hh Hf Hl) as [G1 [G2 [G3 _]]].
    pose proof Hl as [L1 [L2 [L3 [L4 [L5 L6]]]]].
    destruct Hin as [<-|Hin].
    + right. destruct (CrashDisk_mono r (d3 d hb a) a x G1 G2 G3 L6 HC) as [_ [_ [_ D]]].
      rewrite D; [|lia]. destruct (d3_fields t g d hb a HG Hh) as [Fc _].
      unfold canon. rewrite Fc, alookup_aset, N.eqb_refl. reflexivity.
    + apply (IH (d3 d hb a) a x); auto.
Qed.

(* ---- the re-import on a database of the crash set --------------------------------------------- *)

Lemma vb_headH : forall h x b, validate_body t (apply_write [WHeadH h] x) b = validate_body t x b.
Proof. reflexivity. Qed.

Lemma known_done : forall d hb b r x, Good d -> info t (d_headB d) = Some hb -> free_above d hb -> lin_chain hb (b :: r) ->
  CrashDisk (d3 d hb b) b r x -> validate_body t x b = EKnown.
Proof.
  intros d hb b r x HG Hh Hf Hl HC.
  destruct (step_good d hb b r HG Hh Hf Hl) as [G1 [G2 [G3 _]]].
  pose proof Hl as [L1 [L2 [L3 [L4 [L5 L6]]]]].
  destruct (CrashDisk_mono r (d3 d hb b) b x G1 G2 G3 L6 HC) as [A [B [C D]]].
  destruct (d3_fields t g d hb b HG Hh) as [Fc [Fd [Fb [_ [_ [Fs _]]]]]].
  assert (Hh1 : In (bid b) (d_hdr x)) by (apply A; rewrite Fd; apply In_addN; auto).
  assert (Hb1 : In (bid b) (d_body x)) by (apply B; rewrite Fb; apply In_addN; auto).
  assert (Hs1 : In (broot b) (d_state x)) by (apply C; auto).
  assert (Hc1 : canon x (bnum b) = Some (bid b)).
  { rewrite D; [|lia]. unfold canon. rewrite Fc, alookup_aset, N.eqb_refl. reflexivity. }
  assert (Hgh : get_header t x (bid b) (bnum b) = Some b) by (apply get_header_intro; auto).
  unfold validate_body, has_block_and_state, get_block, get_header_by_number, has_state.
  apply memN_In in Hb1, Hs1. rewrite Hb1, Hgh, Hs1, Hc1, Hgh, N.eqb_refl. reflexivity.
Qed.

Lemma reimport_loop : forall f chain d hb x s prev,
  Good d -> info t (d_headB d) = Some hb -> free_above d hb -> lin_chain hb chain ->
  CrashDisk d hb chain x ->
  (disk_of s = x \/ disk_of s = apply_write [WHeadH (d_headB x)] x) ->
  cur s = d_headB x -> budget s = None -> (prev = None \/ prev = Some hb) ->
  (chain = [] -> disk_of s = d) ->
  let r := ic_loop t (side_of f) s (map (fun b => (b, ENone)) chain) prev in
  disk_of (fst r) = lin_disk d hb chain /\ cur (fst r) = bid (last chain hb) /\ budget (fst r) = None.
Proof.
  intros f. induction chain as [|b r IH]; intros d hb x s prev HG Hh Hf Hl HC Hs Hc Hb Hp Hnil.
  - simpl in HC. subst x. simpl. split; auto. split; auto.
    rewrite Hc. destruct (hb_facts d hb HG Hh) as [E _]. auto.
  - simpl in HC. destruct HC as [HF|HC].
    + (* the first block was being imported *)
      destruct (Fam_mono d hb b x HF) as [_ [_ [_ [_ Ehead]]]].
      destruct (hb_facts d hb HG Hh) as [E _].
      apply (lin_loop f (b :: r) d hb s prev); auto.
      * destruct Hs as [->| ->]; auto. apply (FamH d hb b x (d_headB x) HF).
      * congruence.
    + (* the first block is done: known, skipped *)
      destruct (step_good d hb b r HG Hh Hf Hl) as [G1 [G2 [G3 G4]]].
      pose proof Hl as [L1 [L2 [L3 [L4 [L5 L6]]]]].
      assert (Hk : validate_body t (disk_of s) b = EKnown).
      { destruct Hs as [Hs|Hs]; rewrite Hs; [|rewrite vb_headH]; apply (known_done d hb b r x HG Hh Hf Hl HC). }
      cbn [map ic_loop]. cbv zeta. rewrite Hk.
      destruct (IH (d3 d hb b) b x s (Some b) G1 G2 G3 L6 HC Hs Hc Hb) as [I1 [I2 I3]]; auto.
      { intros ->. simpl in HC. subst x. destruct Hs as [Hs|Hs]; rewrite Hs; auto. }
      cbn [lin_disk]. split; [exact I1|]. split; [|exact I3].
      rewrite I2. destruct r as [|b2 r2]; [reflexivity|].
      change (last (b :: b2 :: r2) hb) with (last (b2 :: r2) hb). f_equal. apply last_default. discriminate.
Qed.

(* ---- InsertChain on such a batch is insertChain's loop with all verdicts nil ------------------- *)

Lemma InsertChain_lin : forall f s chain hb,
  chain <> [] -> lin_chain hb chain ->
  get_header t (disk_of s) (bid hb) (bnum hb) = Some hb -> canon (disk_of s) (bnum hb) = Some (bid hb) ->
  (forall b, In b chain -> canon (disk_of s) (bnum b) = None \/ canon (disk_of s) (bnum b) = Some (bid b)) ->
  InsertChain t (S f) s chain = ic_loop t (side_of f) s (map (fun b => (b, ENone)) chain) None.
Proof.
  intros f s chain hb Hne Hl Hgh Hcan Hc. destruct chain as [|b1 r]; [congruence|].
  unfold InsertChain. rewrite (lin_contiguous _ hb Hl). cbn [negb].
  pose proof Hl as [L1 [L2 [L3 _]]].
  assert (Hn0 : (bnum b1 =? 0) = false) by (apply N.eqb_neq; lia). rewrite Hn0. cbn [orb].
  replace (bnum b1 - 1) with (bnum hb) by lia.
  unfold get_header_by_number at 1. rewrite Hcan, Hgh.
  cbn [insert_chain]. rewrite (verdicts_lin (disk_of s) (b1 :: r) hb None); auto.
Qed.

(* NOT WEDGED for any batch that extends the head linearly *)
Lemma not_wedged_linear : forall f chain d0 hb cur0 fut lg k,
  Good d0 -> info t (d_headB d0) = Some hb -> free_above d0 hb -> lin_chain hb chain -> chain <> [] ->
  cur0 = bid hb ->
  let s0 := mkS d0 cur0 fut lg None in
  let free := fst (InsertChain t (S f) s0 chain) in
  let sk := fst (InsertChain t (S f) (with_budget (Some k) s0) chain) in
  exists d h, recover t (disk_of sk) = Some (d, h) /\
    let again := fst (InsertChain t (S f) (fresh d h) chain) in
    disk_of again = disk_of free /\ cur again = cur free /\ budget again = None /\
    cur free = bid (last chain hb).
Proof.
  intros f chain d0 hb cur0 fut lg k HG Hh Hf Hl Hne Hc0 s0 free sk. subst cur0.
  destruct (hb_facts d0 hb HG Hh) as [E [S1 [S2 [S3 S4]]]].
  assert (Hhbi : info t (bid hb) = Some hb) by (rewrite E; auto).
  assert (Hgh0 : get_header t d0 (bid hb) (bnum hb) = Some hb) by (apply get_header_intro; auto).
  assert (Hfree0 : forall b, In b chain -> canon d0 (bnum b) = None \/ canon d0 (bnum b) = Some (bid b)).
  { intros b Hin. left. apply Hf. eapply lin_heights; eauto. }
  (* the run that is never killed *)
  assert (Hfr : disk_of free = lin_disk d0 hb chain /\ cur free = bid (last chain hb)).
  { unfold free. rewrite (InsertChain_lin f s0 chain hb); auto.
    destruct (lin_loop f chain d0 hb s0 None HG Hh Hf Hl) as [A [B _]]; auto.
    destruct chain; [congruence|apply Fam0]. }
  destruct Hfr as [Efd Efc].
  (* the killed run *)
  assert (Hsk : CrashDisk d0 hb chain (disk_of sk)).
  { unfold sk. rewrite (InsertChain_lin f (with_budget (Some k) s0) chain hb); auto.
    apply crash_loop; auto. }
  destruct HG as [HD0 [HB0 HQ0]].
  assert (HJk : J t g sk).
  { unfold sk. apply (J_InsertChain t g); auto.
    - split; [split; auto|]. intros _. simpl. auto.
    - clear -Hl. revert hb Hl. induction chain as [|b r IH]; intros hb Hl; constructor.
      + destruct Hl as [L1 _]. exact L1.
      + destruct Hl as [_ [_ [_ [_ [_ L6]]]]]. apply (IH b); auto. }
  destruct HJk as [HGk _]. pose proof HGk as [HDk [_ HQk]].
  set (x := disk_of sk) in *.
  exists (apply_write [WHeadH (d_headB x)] x), (d_headB x).
  split; [apply (recover_Qd t g Hg Hg0 Hid0); auto|].
  cbv zeta. rewrite Efd, Efc.
  assert (HG0 : Good d0) by (split; auto).
  destruct (CrashDisk_mono chain d0 hb x HG0 Hh Hf Hl Hsk) as [A [B [C D]]].
  assert (Hghx : get_header t (apply_write [WHeadH (d_headB x)] x) (bid hb) (bnum hb) = Some hb).
  { apply get_header_intro; auto. }
  assert (Hcx : canon (apply_write [WHeadH (d_headB x)] x) (bnum hb) = Some (bid hb)).
  { change (canon (apply_write [WHeadH (d_headB x)] x) (bnum hb)) with (canon x (bnum hb)). rewrite D; [auto|lia]. }
  assert (Hfx : forall b, In b chain -> canon (disk_of (fresh (apply_write [WHeadH (d_headB x)] x) (d_headB x))) (bnum b) = None \/
                                         canon (disk_of (fresh (apply_write [WHeadH (d_headB x)] x) (d_headB x))) (bnum b) = Some (bid b)).
  { intros b Hin. change (canon (disk_of (fresh (apply_write [WHeadH (d_headB x)] x) (d_headB x))) (bnum b)) with (canon x (bnum b)).
    eapply CrashDisk_canon; eauto. }
  rewrite (InsertChain_lin f (fresh (apply_write [WHeadH (d_headB x)] x) (d_headB x)) chain hb Hne Hl Hghx Hcx Hfx).
  destruct (reimport_loop f chain d0 hb x (fresh (apply_write [WHeadH (d_headB x)] x) (d_headB x)) None HG0 Hh Hf Hl Hsk) as [R1 [R2 R3]]; auto.
  intros ->. congruence.
Qed.

End Multi.

(* the same, for the node after any history *)
Lemma not_wedged_linear_run : forall t g, info t (bid g) = Some g -> bnum g = 0 -> info t 0 = None -> good_block g = true ->
  forall fuel hist f k hb chain,
  let s0 := run t fuel (init_st g) hist in
  budget s0 = None ->
  info t (d_headB (disk_of s0)) = Some hb ->
  free_above (disk_of s0) hb -> lin_chain t hb chain -> chain <> [] ->
  let free := fst (InsertChain t (S f) s0 chain) in
  let sk := fst (InsertChain t (S f) (with_budget (Some k) s0) chain) in
  exists d h, recover t (disk_of sk) = Some (d, h) /\
    let again := fst (InsertChain t (S f) (fresh d h) chain) in
    disk_of again = disk_of free /\ cur again = cur free /\ budget again = None /\
    cur free = bid (last chain hb).
Proof.
  intros t g Hg Hg0 Hid0 Hgood fuel hist f k hb chain s0 Hbud Hhb Hf Hl Hne.
  pose proof (J_run t g Hg0 fuel hist _ (init_J t g Hg Hg0 Hgood)) as [HG HC]. fold s0 in HG, HC.
  assert (Hc : cur s0 = bid hb).
  { rewrite HC; [symmetry; eapply info_bid; eauto|]. unfold alive. rewrite Hbud. discriminate. }
  destruct s0 as [d0 c0 fu lg bu] eqn:Es0. cbn [disk_of cur budget] in *. subst bu.
  exact (not_wedged_linear t g Hg Hg0 Hid0 Hgood f chain d0 hb c0 fu lg k HG Hhb Hf Hl Hne Hc).
Qed.
