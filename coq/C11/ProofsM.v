(* C11 - not wedged for batches whose first head switch may reorganise: the
   first block sits on any stored block with state (the head can be anywhere:
   another fork, a shorter chain with stale index entries above it, a block far
   below), the rest of the batch extends it linearly. *)
From VF.C11 Require Import Model ProofsA ProofsB ProofsC ProofsD ProofsE ProofsF ProofsG ProofsH ProofsI ProofsJ ProofsK ProofsL.
From Coq Require Import Lia ZifyBool ZifyN ZifyNat.
Local Open Scope N_scope.

Section Reorg.
Variable t : tree.
Variable g : block.
Hypothesis Hg : info t (bid g) = Some g.
Hypothesis Hg0 : bnum g = 0.
Hypothesis Hid0 : info t 0 = None.
Hypothesis Hgood : good_block g = true.

Variable d0 : disk.
Variable c0 p b1 q : block.
Variable rg : write.
Variable rest : list block.
Hypothesis HG0 : Good t g d0.
Hypothesis Hc0 : info t (d_headB d0) = Some c0.
Hypothesis Hb : info t (bid b1) = Some b1.
Hypothesis Hn0 : bnum b1 <> 0.
Hypothesis Hp : get_block t d0 (bpar b1) (bnum b1 - 1) = Some p.
Hypothesis Hps : In (broot p) (d_state d0).
Hypothesis Hhv : bhv b1 = 0.
Hypothesis Hbv : bbv b1 = 0.
(* no index entries above the parent of the first block *)
Hypothesis Hfa : forall n, bnum p < n -> canon d0 n = None.
Hypothesis Hrg : (if bpar b1 =? bid c0 then Some [] else reorg t (g2 d0 p b1) c0 b1) = Some rg.
Hypothesis Hrest : lin_chain t b1 rest.
(* InsertChain's version-state check finds a canonical header one below the batch *)
Hypothesis Hdoor : get_header_by_number t d0 (bnum b1 - 1) = Some q.

Notation G3 := (g3 d0 p b1 rg).
Notation side := (side_of t).

Lemma p_num : bnum p = bnum b1 - 1 /\ bid p = bpar b1 /\ info t (bpar b1) = Some p /\ In (bpar b1) (d_hdr d0).
Proof. pose proof Hp as H. apply get_block_spec in H. tauto. Qed.

Lemma Hfree1 : canon d0 (bnum b1) = None.
Proof. apply Hfa. destruct p_num as [E _]. lia. Qed.

Lemma Hfa1 : forall n, bnum b1 < n -> canon d0 n = None.
Proof. intros n H. apply Hfa. destruct p_num as [E _]. lia. Qed.

Lemma G3f :
  Good t g G3 /\ info t (d_headB G3) = Some b1 /\ d_headB G3 = bid b1 /\ free_above G3 b1 /\
  apply_write [WHeadH (d_headB G3)] G3 = G3 /\
  (forall h, In h (d_hdr d0) -> In h (d_hdr G3)) /\ (forall h, In h (d_body d0) -> In h (d_body G3)) /\
  (forall r, In r (d_state d0) -> In r (d_state G3)).
Proof. exact (g3_facts t g Hg0 Hgood d0 c0 p b1 rg HG0 Hc0 Hb Hn0 Hp Hps Hhv Hbv Hfree1 Hrg Hfa1). Qed.

(* the crash set of the batch *)
Definition GCrash (x : disk) : Prop := GFam d0 p b1 x \/ CrashDisk G3 b1 rest x.

Definition items : list (block * err) := (b1, ENone) :: map (fun b => (b, ENone)) rest.

(* ---- InsertChain on a database of the crash set is the loop over [items] ------------------ *)

Lemma contig : contiguous (b1 :: rest) = true.
Proof.
  destruct rest as [|b2 r] eqn:E; auto.
  change (contiguous (b1 :: b2 :: r)) with ((bnum b1 + 1 =? bnum b2) && (bid b1 =? bpar b2) && contiguous (b2 :: r)).
  rewrite (lin_contiguous t g Hg0 Hgood (b2 :: r) b1 Hrest).
  destruct Hrest as [_ [M2 [M3 _]]].
  assert (E1 : (bnum b1 + 1 =? bnum b2) = true) by (apply N.eqb_eq; lia). rewrite E1, M2, N.eqb_refl. reflexivity.
Qed.

Lemma IC_items : forall f s,
  (exists q', get_header_by_number t (disk_of s) (bnum b1 - 1) = Some q') ->
  get_header t (disk_of s) (bpar b1) (bnum b1 - 1) = Some p ->
  (forall b, In b (b1 :: rest) -> canon (disk_of s) (bnum b) = None \/ canon (disk_of s) (bnum b) = Some (bid b)) ->
  InsertChain t (S f) s (b1 :: rest) = ic_loop t (side f) s items None.
Proof.
  intros f s [q' Hq] Hph Hc. unfold InsertChain. rewrite contig. cbn [negb].
  assert (Hz : (bnum b1 =? 0) = false) by (apply N.eqb_neq; auto). rewrite Hz. cbn [orb]. rewrite Hq.
  cbn [insert_chain verdicts combine]. unfold items. f_equal. f_equal.
  - f_equal. unfold verify_header. rewrite Hhv. cbn. rewrite Hz.
    unfold parent_header. rewrite Hz, Hph.
    destruct p_num as [P1 [P2 _]]. rewrite P2, N.eqb_refl.
    assert (E : (bnum p + 1 =? bnum b1) = true) by (apply N.eqb_eq; lia). rewrite E. cbn.
    unfold get_header_by_number. destruct (Hc b1 (or_introl eq_refl)) as [->| ->]; auto.
    destruct (get_header t (disk_of s) (bid b1) (bnum b1)) as [l|] eqn:El; auto.
    apply get_header_spec in El. destruct El as [_ [_ [_ El]]]. rewrite El, N.eqb_refl. reflexivity.
  - apply (verdicts_lin t g Hg0 Hgood (disk_of s) rest b1 (Some b1)); auto.
    intros b Hin. apply Hc; right; auto.
Qed.

(* reads on the family of the first step *)
Lemma GFam_door : forall x, GFam d0 p b1 x ->
  (exists q', get_header_by_number t x (bnum b1 - 1) = Some q') /\
  get_header t x (bpar b1) (bnum b1 - 1) = Some p /\
  (forall b, In b (b1 :: rest) -> canon x (bnum b) = None \/ canon x (bnum b) = Some (bid b)).
Proof.
  intros x HF. destruct (GFam_fields d0 p b1 x HF) as [Fc [_ [_ [_ [_ [_ [Fd _]]]]]]].
  destruct (GFam_reads t d0 p b1 Hp Hps Hfree1 x HF) as [_ [_ [Rh _]]].
  split; [|split; auto].
  - exists q. unfold get_header_by_number in *. unfold canon in *. rewrite Fc.
    destruct (alookup (bnum b1 - 1) (d_canon d0)) as [h|]; try discriminate.
    apply get_header_spec in Hdoor. destruct Hdoor as [D1 [D2 [D3 D4]]]. rewrite <- D3.
    apply get_header_intro; auto. apply (In_either _ (bid b1) (d_hdr d0)); auto.
  - intros b Hin. left. unfold canon. rewrite Fc. apply Hfa. destruct p_num as [E _].
    destruct Hin as [<-|Hin]; [lia|]. pose proof (lin_heights t g Hg0 Hgood rest b1 b Hrest Hin). lia.
Qed.

(* reads on the databases after the first step *)
Lemma Crash_door : forall x, CrashDisk G3 b1 rest x ->
  (exists q', get_header_by_number t x (bnum b1 - 1) = Some q') /\
  get_header t x (bpar b1) (bnum b1 - 1) = Some p /\
  (forall b, In b (b1 :: rest) -> canon x (bnum b) = None \/ canon x (bnum b) = Some (bid b)) /\
  validate_body t x b1 = EKnown.
Proof.
  intros x HC. destruct G3f as [HG3 [Hh3 [Hhb3 [Hf3 [_ [M1 [M2 M3]]]]]]].
  destruct (CrashDisk_mono t g Hg0 Hgood rest G3 b1 x HG3 Hh3 Hf3 Hrest HC) as [A [B [C D]]].
  destruct p_num as [P1 [P2 [P3 P4]]].
  pose proof HG3 as [HD3 [_ [[hb' [Q1 [Q2 [Q3 [Q4 Q5]]]]]]]].
  rewrite Hh3 in Q1. inversion Q1; subst hb'.
  split; [|split; [|split]].
  - destruct (Q4 (bnum b1 - 1)) as [bx [L1 [L2 [L3 _]]]]; [lia|].
    exists bx. unfold get_header_by_number. rewrite D; [|lia]. rewrite L1. rewrite <- L3.
    apply get_header_intro; auto. apply A. eapply canon_stored; eauto.
  - rewrite <- P1. apply get_header_intro; auto.
  - intros b [<-|Hin].
    + right. rewrite D; [|lia]. rewrite Q3, Hhb3. reflexivity.
    + eapply (CrashDisk_canon t g Hg0 Hgood rest G3 b1 x); eauto.
  - assert (Hs1 : In (bid b1) (d_hdr G3)) by (rewrite <- Hhb3; apply (D_head t g); auto).
    destruct (D_body t g G3 HD3 _ Hs1) as [Hb1 _].
    assert (Hgh : get_header t x (bid b1) (bnum b1) = Some b1) by (apply get_header_intro; auto).
    assert (Hc1 : canon x (bnum b1) = Some (bid b1)) by (rewrite D; [|lia]; rewrite Q3, Hhb3; reflexivity).
    unfold validate_body, has_block_and_state, get_block, get_header_by_number, has_state.
    assert (Hbx : memN (bid b1) (d_body x) = true) by (apply memN_In; auto).
    assert (Hsx : memN (broot b1) (d_state x) = true) by (apply memN_In; auto).
    rewrite Hbx, Hgh, Hsx, Hc1, Hgh, N.eqb_refl. reflexivity.
Qed.

(* ---- the three runs --------------------------------------------------------------------------- *)

Definition final : disk := lin_disk G3 b1 rest.

(* from any database of the first step's family, never killed *)
Lemma run_from_family : forall f s, GFam d0 p b1 (disk_of s) -> cur s = bid c0 -> budget s = None ->
  let r := ic_loop t (side f) s items None in
  disk_of (fst r) = final /\ cur (fst r) = bid (last rest b1) /\ budget (fst r) = None.
Proof.
  intros f s HF Hc Hbud. unfold items. cbv zeta.
  rewrite (ic_step_gen t d0 p b1 Hn0 Hp Hps Hhv Hbv Hfree1); auto.
  destruct (wbws_gen t d0 c0 p b1 rg Hc0 Hfree1 Hrg s HF Hc Hbud) as [W1 [W2 [W3 W4]]].
  destruct (write_block_with_state t p b1 s) as [s' e']. cbn [fst snd] in W1, W2, W3, W4. subst e'.
  destruct G3f as [HG3 [Hh3 [_ [Hf3 _]]]].
  apply (lin_loop t g Hg0 Hgood f rest G3 b1 s' (Some b1)); auto.
  destruct rest as [|b2 r]; [exact W2|]. rewrite W2. apply Fam0.
Qed.

(* killed anywhere: the database is in the crash set *)
Lemma run_killed : forall f s, disk_of s = d0 -> cur s = bid c0 ->
  GCrash (disk_of (fst (ic_loop t (side f) s items None))).
Proof.
  intros f s Hd Hc. unfold items.
  assert (HF : GFam d0 p b1 (disk_of s)) by (rewrite Hd; apply GF0).
  rewrite (ic_step_gen t d0 p b1 Hn0 Hp Hps Hhv Hbv Hfree1); auto.
  destruct (wbws_crash t d0 c0 p b1 rg Hc0 Hfree1 Hrg s Hd Hc) as [W1 W2].
  destruct (write_block_with_state t p b1 s) as [s' e']. cbn [fst snd] in W1, W2.
  destruct G3f as [HG3 [Hh3 [_ [Hf3 _]]]].
  destruct (alive_dec s') as [Ha|Hdead].
  - destruct (W2 Ha) as [-> [E3 C3]]. right.
    apply (crash_loop t g Hg0 Hgood f rest G3 b1 s' (Some b1)); auto.
  - assert (Hfz : disk_of (fst (match e' with ENone => ic_loop t (side f) s' (map (fun b => (b, ENone)) rest) (Some b1) | _ => (s', e') end)) = disk_of s').
    { destruct e'; try reflexivity. apply (dead_ic_loop t (side f) (dead_side t f)); auto. }
    rewrite Hfz. destruct W1 as [E|[E|[E|E]]]; rewrite E.
    + left; apply GF0.
    + left; apply GF1.
    + left; apply GF2.
    + right. apply CrashDisk_start.
Qed.

(* the restarted node, offered the batch again *)
Lemma run_again : forall f x s, GCrash x ->
  (disk_of s = x \/ disk_of s = apply_write [WHeadH (d_headB x)] x) -> cur s = d_headB x -> budget s = None ->
  let r := ic_loop t (side f) s items None in
  disk_of (fst r) = final /\ cur (fst r) = bid (last rest b1) /\ budget (fst r) = None.
Proof.
  intros f x s [HF|HC] Hs Hc Hbud.
  - apply run_from_family; auto.
    + destruct Hs as [->| ->]; auto. apply (GFH d0 p b1 x (d_headB x) HF).
    + destruct (GFam_fields d0 p b1 x HF) as [_ [_ [Fh _]]]. rewrite Hc, Fh. symmetry. eapply info_bid; eauto.
  - destruct (Crash_door x HC) as [_ [_ [_ Hk]]].
    assert (Hk' : validate_body t (disk_of s) b1 = EKnown).
    { destruct Hs as [->| ->]; auto. }
    unfold items. cbv zeta. cbn [ic_loop]. rewrite Hk'.
    destruct G3f as [HG3 [Hh3 [_ [Hf3 [Hid3 _]]]]].
    apply (reimport_loop t g Hg0 Hgood f rest G3 b1 x s (Some b1)); auto.
    intros ->. simpl in HC. subst x. destruct Hs as [Hs|Hs]; rewrite Hs; auto.
Qed.

(* NOT WEDGED for the batch b1 :: rest *)
Lemma not_wedged_reorg : forall f cur0 fut lg k, cur0 = bid c0 ->
  let s0 := mkS d0 cur0 fut lg None in
  let free := fst (InsertChain t (S f) s0 (b1 :: rest)) in
  let sk := fst (InsertChain t (S f) (with_budget (Some k) s0) (b1 :: rest)) in
  exists d h, recover t (disk_of sk) = Some (d, h) /\
    let again := fst (InsertChain t (S f) (fresh d h) (b1 :: rest)) in
    disk_of again = disk_of free /\ cur again = cur free /\ budget again = None /\
    cur free = bid (last rest b1).
Proof.
  intros f cur0 fut lg k Hc0' s0 free sk. subst cur0.
  destruct (GFam_door d0 (GF0 d0 p b1)) as [D1 [D2 D3]].
  assert (Efree : disk_of free = final /\ cur free = bid (last rest b1)).
  { unfold free. rewrite (IC_items f s0 D1 D2 D3).
    destruct (run_from_family f s0 (GF0 d0 p b1) eq_refl eq_refl) as [A [B _]]. auto. }
  destruct Efree as [Efd Efc].
  assert (Hsk : GCrash (disk_of sk)).
  { unfold sk. rewrite (IC_items f (with_budget (Some k) s0) D1 D2 D3). apply run_killed; auto. }
  assert (HJ0 : J t g s0).
  { split; auto. intros _. simpl. eapply info_bid; eauto. }
  assert (HJk : J t g sk).
  { unfold sk. apply (J_InsertChain t g); auto.
    - destruct HJ0 as [HGx HCx]. split; auto. intros _. simpl. eapply info_bid; eauto.
    - constructor; [exact Hb|]. clear -Hrest. revert Hrest. generalize b1. induction rest as [|b r IH]; intros hb Hl; constructor.
      + destruct Hl as [L1 _]. exact L1.
      + destruct Hl as [_ [_ [_ [_ [_ L6]]]]]. apply (IH b); auto. }
  destruct HJk as [HGk _]. pose proof HGk as [HDk [_ HQk]].
  set (x := disk_of sk) in *.
  exists (apply_write [WHeadH (d_headB x)] x), (d_headB x).
  split; [apply (recover_Qd t g Hg Hg0 Hid0); auto|].
  cbv zeta. rewrite Efd, Efc.
  assert (Hx : (exists q', get_header_by_number t x (bnum b1 - 1) = Some q') /\
               get_header t x (bpar b1) (bnum b1 - 1) = Some p /\
               (forall b, In b (b1 :: rest) -> canon x (bnum b) = None \/ canon x (bnum b) = Some (bid b))).
  { destruct Hsk as [HF|HC]; [apply GFam_door; auto|]. destruct (Crash_door x HC) as [A [B [C _]]]. auto. }
  destruct Hx as [X1 [X2 X3]].
  rewrite (IC_items f (fresh (apply_write [WHeadH (d_headB x)] x) (d_headB x)) X1 X2 X3).
  destruct (run_again f x (fresh (apply_write [WHeadH (d_headB x)] x) (d_headB x)) Hsk) as [R1 [R2 R3]]; auto.
Qed.

End Reorg.

(* the same, for the node after any history; the reorg hypothesis as "reorg, if needed, succeeds" *)
Lemma not_wedged_reorg_run : forall t g, info t (bid g) = Some g -> bnum g = 0 -> info t 0 = None -> good_block g = true ->
  forall fuel hist f k c0 p b1 q rest,
  let s0 := run t fuel (init_st g) hist in
  budget s0 = None ->
  info t (d_headB (disk_of s0)) = Some c0 ->
  info t (bid b1) = Some b1 -> bnum b1 <> 0 -> bhv b1 = 0 -> bbv b1 = 0 ->
  get_block t (disk_of s0) (bpar b1) (bnum b1 - 1) = Some p -> In (broot p) (d_state (disk_of s0)) ->
  (forall n, bnum p < n -> canon (disk_of s0) n = None) ->
  (bpar b1 = bid c0 \/ reorg t (g2 (disk_of s0) p b1) c0 b1 <> None) ->
  lin_chain t b1 rest ->
  get_header_by_number t (disk_of s0) (bnum b1 - 1) = Some q ->
  let free := fst (InsertChain t (S f) s0 (b1 :: rest)) in
  let sk := fst (InsertChain t (S f) (with_budget (Some k) s0) (b1 :: rest)) in
  exists d h, recover t (disk_of sk) = Some (d, h) /\
    let again := fst (InsertChain t (S f) (fresh d h) (b1 :: rest)) in
    disk_of again = disk_of free /\ cur again = cur free /\ budget again = None /\
    cur free = bid (last rest b1).
Proof.
  intros t g Hg Hg0 Hid0 Hgood fuel hist f k c0 p b1 q rest s0 Hbud Hc0 Hb Hn0 Hhv Hbv Hp Hps Hfa Hre Hrest Hdoor.
  pose proof (J_run t g Hg0 fuel hist _ (init_J t g Hg Hg0 Hgood)) as [HG HC]. fold s0 in HG, HC.
  assert (Hc : cur s0 = bid c0).
  { rewrite HC; [symmetry; eapply info_bid; eauto|]. unfold alive. rewrite Hbud. discriminate. }
  assert (Hrg : exists rg, (if bpar b1 =? bid c0 then Some [] else reorg t (g2 (disk_of s0) p b1) c0 b1) = Some rg).
  { destruct (bpar b1 =? bid c0) eqn:E; [eexists; reflexivity|].
    destruct Hre as [Hre|Hre]; [apply N.eqb_neq in E; contradiction|].
    destruct (reorg t (g2 (disk_of s0) p b1) c0 b1) as [rg|]; [eexists; reflexivity|congruence]. }
  destruct Hrg as [rg Hrg].
  destruct s0 as [d0 c0' fu lg bu] eqn:Es0. cbn [disk_of cur budget] in *. subst bu.
  exact (not_wedged_reorg t g Hg Hg0 Hid0 Hgood d0 c0 p b1 q rg rest HG Hc0 Hb Hn0 Hp Hps Hhv Hbv Hfa Hrg Hrest Hdoor f c0' fu lg k Hc).
Qed.
