(* C11 - the import procedures preserve the node invariant J (any write budget). *)
From VF.C11 Require Import Model ProofsA ProofsB ProofsC ProofsD ProofsE ProofsF.
From Coq Require Import Lia ZifyBool ZifyN ZifyNat.
Local Open Scope N_scope.

Section Dispatch.
Variable t : tree.
Variable g : block.
Hypothesis Hg : info t (bid g) = Some g.
Hypothesis Hg0 : bnum g = 0.

Notation DInv := (DInv t g).
Notation Qd := (Qd t).
Notation J := (J t g).

Definition tb (b : block) : Prop := info t (bid b) = Some b.

(* ---- insertSidechain ---------------------------------------------------------------------- *)

Fixpoint sc_links (prev : block) (chain : list block) : Prop :=
  match chain with
  | [] => True
  | b :: r => bnum prev + 1 = bnum b /\ bid prev = bpar b /\ tb b /\ goodish b /\ sc_links b r
  end.

(* storing a block of a verified chain keeps J, keeps what was stored, and stores the block *)
Lemma side_store_J : forall b prev s, J s -> tb prev -> tb b -> goodish b ->
  bnum prev + 1 = bnum b -> bid prev = bpar b ->
  (alive s -> In (bid prev) (d_hdr (disk_of s))) ->
  let s' := if has_block (disk_of s) (bid b) then s else write_block b s in
  J s' /\ (alive s' -> In (bid b) (d_hdr (disk_of s'))) /\
  (forall h, In h (d_hdr (disk_of s)) -> In h (d_hdr (disk_of s'))) /\ (alive s' -> alive s).
Proof.
  intros b prev s HJ Hp Hb Hgd L1 L2 Hps s'. unfold s'.
  destruct (has_block (disk_of s) (bid b)) eqn:Eh.
  - split; auto. split; [|auto]. intros Ha. destruct HJ as [[_ [Hb0 _]] _]. apply Hb0. apply memN_In; auto.
  - destruct (J_write_block t g b s HJ Hb) as [A [B [C _]]].
    + intros Ha. repeat split; auto; try lia.
      * rewrite <- L2; auto.
      * exists prev. rewrite <- L2. auto.
    + split; auto. split; auto. split; auto. unfold write_block. apply wr_alive_back.
Qed.

(* verifyAllSideChainBlocks' loop: it keeps J and what was stored; when it
   succeeds the chain is linked, verified, and (if the node is alive) stored *)
Lemma vasc_loop_J : forall first chain prev s,
  J s -> tb prev -> Forall tb chain -> (alive s -> In (bid prev) (d_hdr (disk_of s))) ->
  let r := vasc_loop t s first prev chain in
  J (fst r) /\ (forall h, In h (d_hdr (disk_of s)) -> In h (d_hdr (disk_of (fst r)))) /\
  (alive (fst r) -> alive s) /\ (snd r = ENone -> sc_links prev chain).
Proof.
  intros first. induction chain as [|b r IH]; intros prev s HJ Hp Ht Hps; cbn [vasc_loop].
  - cbn [fst snd]. split; [exact HJ|]. split; [auto|]. split; [auto|]. intros _; exact I.
  - inversion Ht; subst.
    destruct ((lookback (bnum b) <? first) && _); [cbn [fst snd]; split; [exact HJ|split; [auto|split; [auto|discriminate]]]|].
    destruct ((bnum prev + 1 =? bnum b) && (bid prev =? bpar b)) eqn:E1; cbn [negb]; [|cbn [fst snd]; split; [exact HJ|split; [auto|split; [auto|discriminate]]]].
    destruct ((bhv b =? 1) || (bhv b =? 2)) eqn:E2; [cbn [fst snd]; split; [exact HJ|split; [auto|split; [auto|discriminate]]]|].
    destruct ((bbv b =? 1) || (bbv b =? 5)) eqn:E3'; [cbn [fst snd]; split; [exact HJ|split; [auto|split; [auto|discriminate]]]|].
    destruct (bbv b =? 0) eqn:E3; cbn [negb]; [|cbn [fst snd]; split; [exact HJ|split; [auto|split; [auto|discriminate]]]].
    apply andb_true_iff in E1. destruct E1 as [E1 E1']. apply N.eqb_eq in E1, E1'.
    apply orb_false_iff in E2. destruct E2 as [E2 E2'].
    assert (Hgd : goodish b).
    { unfold goodish, good_block. rewrite E2, E2', E3. reflexivity. }
    destruct (side_store_J b prev s HJ Hp H1 Hgd E1 E1' Hps) as [A [B [C D]]].
    set (s1 := if has_block (disk_of s) (bid b) then s else write_block b s) in *.
    destruct (IH b s1 A H1 H2 B) as [I1 [I2 [I3 I4]]].
    split; [exact I1|]. split; [intros h Hh; apply I2; apply C; auto|]. split; [intros Ha; apply D; apply I3; auto|].
    intros He. simpl. repeat split; auto.
Qed.

Lemma side_fold_J : forall chain prev s, J s -> tb prev ->
  (alive s -> In (bid prev) (d_hdr (disk_of s))) -> sc_links prev chain ->
  J (fold_left (fun s b => if has_block (disk_of s) (bid b) then s else write_block b s) chain s).
Proof.
  induction chain as [|b r IH]; intros prev s HJ Hp Hps Hl; simpl; auto.
  destruct Hl as [L1 [L2 [L3 [L4 L5]]]].
  destruct (side_store_J b prev s HJ Hp L3 L4 L1 L2 Hps) as [A [B _]].
  apply (IH b); auto.
Qed.

Lemma skip_canonical_incl : forall d chain x, In x (skip_canonical t d chain) -> In x chain.
Proof.
  induction chain as [|b r IH]; simpl; intros x H; auto.
  destruct (get_block_by_number t d (bnum b)) as [c|]; auto.
  destruct (bid c =? bid b); auto.
Qed.

Lemma get_blocks_tb : forall d l bs, get_blocks t d l = Some bs -> Forall tb bs.
Proof.
  induction l as [|b r IH]; simpl; intros bs H.
  - inversion H; constructor.
  - destruct (get_block t d (bid b) (bnum b)) as [x|] eqn:E; try discriminate.
    destruct (get_blocks t d r) as [xs|]; try discriminate. inversion H; subst.
    constructor; auto. apply get_block_spec in E. destruct E as [_ [_ [E1 [_ E2]]]]. unfold tb. rewrite E2; auto.
Qed.

Lemma J_sidechain : forall ic, (forall s l, J s -> Forall tb l -> J (fst (ic s l))) ->
  forall s chain, J s -> Forall tb chain -> J (fst (insert_sidechain t ic s chain)).
Proof.
  intros ic Hic s chain HJ Ht. unfold insert_sidechain.
  destruct (skip_canonical t (disk_of s) chain) as [|b0 ch] eqn:Esk; [exact HJ|].
  assert (Ht' : Forall tb (b0 :: ch)).
  { apply Forall_forall. intros x Hx. rewrite Forall_forall in Ht. apply Ht.
    apply (skip_canonical_incl (disk_of s)). rewrite Esk; auto. }
  unfold verify_all_side_chain_blocks.
  destruct (parent_block t (disk_of s) b0) as [p|] eqn:Ep; [|exact HJ].
  destruct (negb (has_state (disk_of s) (broot p))); [exact HJ|].
  destruct (parent_block_spec t _ _ _ Ep) as [P1 [P2 [P3 [P4 P5]]]].
  assert (Hp : tb p) by (unfold tb; rewrite P5; auto).
  destruct (vasc_loop_J (bnum b0) (b0 :: ch) p s HJ Hp Ht') as [V1 [V2 [V3 V4]]]; [intros _; rewrite P5; auto|].
  destruct (vasc_loop t s (bnum b0) p (b0 :: ch)) as [sv ev]. cbn [fst snd] in V1, V2, V3, V4.
  destruct ev; try exact V1; try (apply (J_die t g); exact V1).
  assert (Hl : sc_links p (b0 :: ch)) by (apply V4; reflexivity).
  set (s1 := fold_left _ (b0 :: ch) sv).
  assert (H1 : J s1).
  { apply (side_fold_J (b0 :: ch) p); auto. intros _. apply V2. rewrite P5; auto. }
  destruct (info t (cur s1)) as [c|]; [|apply (J_die t g); auto].
  destruct (bnum (last (b0 :: ch) (mkB 0 0 0 0 [] 0 0)) <=? bnum c); [exact H1|].
  destruct (collect_side t _ (disk_of s1) _ []) as [[hs anc]|]; [|apply (J_die t g); auto].
  destruct hs as [|h hs]; [exact H1|].
  destruct (get_blocks t (disk_of s1) _) as [blocks|] eqn:Eg; [|apply (J_die t g); auto].
  apply Hic; auto. eapply get_blocks_tb; eauto.
Qed.

(* ---- insertChain ------------------------------------------------------------------------------ *)

(* a verdict "no error" for a block above the genesis implies a good header *)
Definition verdict_sound (bv : block * err) : Prop :=
  snd bv = ENone -> bnum (fst bv) <> 0 -> bhv (fst bv) <> 1 /\ bhv (fst bv) <> 2.

Lemma verify_header_sound : forall d prev b, verdict_sound (b, verify_header t d prev b).
Proof.
  intros d prev b. unfold verdict_sound, verify_header; simpl. intros H Hn.
  destruct (bhv b =? 3); try discriminate.
  destruct (bhv b =? 1) eqn:E1; try discriminate.
  destruct (bnum b =? 0) eqn:E0; [apply N.eqb_eq in E0; congruence|].
  apply N.eqb_neq in E1. split; auto.
  destruct (match prev with Some p => Some p | None => parent_header t d b end) as [p|]; try discriminate.
  destruct (negb _); try discriminate.
  destruct (get_header_by_number t d (bnum b)) as [l|].
  - destruct (negb (bid l =? bid b)); try discriminate.
    destruct (bhv b =? 2) eqn:E2; try discriminate. apply N.eqb_neq; auto.
  - destruct (bhv b =? 2) eqn:E2; try discriminate. apply N.eqb_neq; auto.
Qed.

Lemma verdicts_sound : forall d chain prev, Forall verdict_sound (combine chain (verdicts t d prev chain)).
Proof.
  induction chain as [|b r IH]; intros prev; simpl; constructor; auto. apply verify_header_sound.
Qed.

(* what ValidateBody = nil tells about the database *)
Lemma validate_body_ok : forall d b, validate_body t d b = ENone ->
  bnum b <> 0 /\ bbv b <> 1 /\ exists pp, get_block t d (bpar b) (bnum b - 1) = Some pp.
Proof.
  intros d b H. unfold validate_body in H.
  destruct (has_block_and_state t d (bid b) (bnum b) && _); try discriminate.
  destruct (bnum b =? 0) eqn:E0; simpl in H.
  - destruct (has_block d (bpar b)); discriminate.
  - destruct (has_block_and_state t d (bpar b) (bnum b - 1)) eqn:Eh; simpl in H.
    + destruct (bbv b =? 1) eqn:E1; try discriminate.
      apply N.eqb_neq in E0, E1. repeat split; auto.
      unfold has_block_and_state in Eh. destruct (get_block t d (bpar b) (bnum b - 1)) as [pp|]; try discriminate.
      exists pp; auto.
    + destruct (has_block d (bpar b)); discriminate.
Qed.

Lemma combine_tb : forall (chain : list block) (vs : list err) x, Forall tb chain -> In x (combine chain vs) -> tb (fst x).
Proof.
  intros chain vs [b v] Ht Hin. apply in_combine_l in Hin. rewrite Forall_forall in Ht. apply Ht; auto.
Qed.

Lemma J_ic_loop : forall side, (forall s l, J s -> Forall tb l -> J (fst (side s l))) ->
  forall items s prev, J s ->
    Forall (fun bv => tb (fst bv)) items -> Forall verdict_sound items ->
    (match prev with Some p => tb p | None => True end) ->
    J (fst (ic_loop t side s items prev)).
Proof.
  intros side Hside. induction items as [|[b v] rest IH]; intros s prev HJ Ht Hv Hprev; [exact HJ|].
  inversion Ht as [|x1 x2 Htb Ht']; subst. inversion Hv as [|y1 y2 Hvs Hv']; subst.
  cbn [fst snd] in Htb.
  assert (Hrest : Forall tb (map fst rest)).
  { apply Forall_forall. intros x Hx. apply in_map_iff in Hx. destruct Hx as [bv [<- Hbv]].
    rewrite Forall_forall in Ht'. apply Ht'; auto. }
  cbn [ic_loop].
  set (proc := fun s0 : st =>
      match match prev with Some p => Some p | None => parent_block t (disk_of s) b end with
      | Some p =>
          if negb (has_state (disk_of s0) (broot p)) then (s0, EStateMissing)
          else if negb (bbv b =? 0) then (s0, EBadState)
          else let (s', e0) := write_block_with_state t p b s0 in
               match e0 with ENone => ic_loop t side s' rest (Some b) | _ => (s', e0) end
      | None => ic_loop t side s0 rest (Some b)
      end).
  (* processing is reached only after ValidateBody returned nil on the current
     database and the header was found good *)
  assert (Hproc : validate_body t (disk_of s) b = ENone -> (bhv b <> 1 /\ bhv b <> 2) -> J (fst (proc s))).
  { intros Hvb [Hh1 Hh2]. destruct (validate_body_ok _ _ Hvb) as [Hn0 [_ [pp Hpp]]].
    apply get_block_spec in Hpp. destruct Hpp as [G1 [G2 [G3 [G4 G5]]]].
    unfold proc.
    destruct (match prev with Some p => Some p | None => parent_block t (disk_of s) b end) as [p|]; [|apply IH; auto].
    destruct (negb (has_state (disk_of s) (broot p))) eqn:Es; [exact HJ|].
    destruct (negb (bbv b =? 0)) eqn:Eb; [exact HJ|].
    apply negb_false_iff in Es, Eb. apply memN_In in Es. apply N.eqb_eq in Eb.
    assert (Hw : J (fst (write_block_with_state t p b s))).
    { apply (J_wbws t g); auto.
      - unfold goodish, good_block. apply N.eqb_neq in Hh1, Hh2. rewrite Hh1, Hh2, Eb. reflexivity.
      - exists pp. split; auto. lia. }
    destruct (write_block_with_state t p b s) as [s' e0]. cbn [fst] in Hw.
    destruct e0; try exact Hw. apply IH; auto. }
  assert (Hfut : J (set_future (bid b :: future s) s)) by (apply (J_set_future t g); auto).
  destruct v; cbn [snd fst] in *;
    try (exact HJ);
    try (apply IH; auto; fail);
    try (apply Hside; auto; constructor; auto; fail).
  - (* verdict nil: ValidateBody decides *)
    destruct (validate_body t (disk_of s) b) eqn:Evb; try exact HJ; try (apply IH; auto; fail).
    + apply Hproc; auto. apply Hvs; auto. destruct (validate_body_ok _ _ Evb); auto.
    + destruct (memN (bpar b) (future s)); [apply IH; auto|exact HJ].
    + apply Hside; auto.
    + (* EExist cannot come from ValidateBody, but the dispatch is the same *)
      destruct prev as [pp|]; [|apply Hside; auto].
      destruct ((bhv b =? 1) || (bhv b =? 2)) eqn:Eh; [exact HJ|].
      exact HJ.
  - destruct (memN (bpar b) (future s)); [apply IH; auto|exact HJ].
  - (* exist canonical *)
    destruct prev as [pp|]; [|apply Hside; auto].
    destruct ((bhv b =? 1) || (bhv b =? 2)) eqn:Eh; [exact HJ|].
    apply orb_false_iff in Eh. destruct Eh as [Eh1 Eh2]. apply N.eqb_neq in Eh1, Eh2.
    destruct (validate_body t (disk_of s) b) eqn:Evb; try exact HJ.
    apply Hproc; auto.
Qed.

Lemma J_insert_chain : forall fuel s chain, J s -> Forall tb chain -> J (fst (insert_chain t fuel s chain)).
Proof.
  induction fuel as [|f IH]; intros s chain HJ Ht; [exact HJ|].
  cbn [insert_chain]. apply J_ic_loop; auto.
  - intros s0 l H0 Hl. apply J_sidechain; auto.
  - apply Forall_forall. intros x Hx. eapply combine_tb; eauto.
  - apply verdicts_sound.
Qed.

Lemma J_InsertChain : forall fuel s chain, J s -> Forall tb chain -> J (fst (InsertChain t fuel s chain)).
Proof.
  intros fuel s chain HJ Ht. unfold InsertChain. destruct chain as [|b0 r]; [exact HJ|].
  destruct (negb (contiguous (b0 :: r))); [exact HJ|].
  destruct ((bnum b0 =? 0) || _); [exact HJ|]. apply J_insert_chain; auto.
Qed.

End Dispatch.
