(* C11 - WriteBlockWithState preserves the node invariant under any write budget. *)
From VF.C11 Require Import Model ProofsA ProofsB ProofsC ProofsD ProofsE.
From Coq Require Import Lia ZifyBool ZifyN ZifyNat.
Local Open Scope N_scope.

Section WBWS.
Variable t : tree.
Variable g : block.
Hypothesis Hg : info t (bid g) = Some g.
Hypothesis Hg0 : bnum g = 0.

Notation DInv := (DInv t g).
Notation Qd := (Qd t).
Notation J := (J t g).

Lemma nodup_height_inj : forall (l : list block) x y, NoDup (map bnum l) -> In x l -> In y l -> bnum x = bnum y -> x = y.
Proof.
  induction l as [|z l IH]; simpl; intros x y Hnd Hx Hy E; [contradiction|].
  inversion Hnd; subst. destruct Hx as [->|Hx], Hy as [->|Hy]; auto.
  - exfalso. apply H1. rewrite E. apply in_map; auto.
  - exfalso. apply H1. rewrite <- E. apply in_map; auto.
Qed.

Lemma DInv_win_write : forall d bs w, DInv d ->
  (forall x, In x bs -> info t (bid x) = Some x /\ In (bid x) (d_hdr d)) ->
  win_write_ok bs w -> DInv (apply_write w d).
Proof.
  intros d bs w HD Hbs [Hs|[[x [Hx ->]]|[x [Hx ->]]]].
  - apply DInv_soft_write; auto.
  - destruct (Hbs x Hx). apply (DInv_canon t g); auto.
  - destruct (Hbs x Hx). apply (DInv_headB t g); auto.
Qed.

Lemma win_write_hdr : forall bs w d, win_write_ok bs w -> d_hdr (apply_write w d) = d_hdr d /\ d_body (apply_write w d) = d_body d.
Proof.
  intros bs w d [Hs|[[x [Hx ->]]|[x [Hx ->]]]]; [|simpl; auto|simpl; auto].
  revert d. induction w as [|e w IH]; intros d; [simpl; auto|].
  cbn [forallb] in Hs. apply andb_true_iff in Hs. destruct Hs as [H1 H2].
  rewrite apply_write_cons. destruct (IH H2 (apply_ew e d)) as [A B].
  destruct (soft_ew_fields e d H1) as [E1 [E2 [E3 _]]]. rewrite A, B. auto.
Qed.

(* the complete window, under any budget *)
Lemma J_window : forall s2 sF ncl diff rc b pth oc c hb,
  J s2 -> alive s2 ->
  same sF (wrs (window_ws ncl diff rc b) s2) -> cur sF = bid b -> rc_ok rc ->
  info t (bid b) = Some b -> In (broot b) (d_state (disk_of s2)) ->
  info t (d_headB (disk_of s2)) = Some hb -> In (bid b) (d_hdr (disk_of s2)) ->
  down_path t (disk_of s2) pth c -> hd c pth = b ->
  down_path t (disk_of s2) oc c -> hd c oc = hb -> info t (bid c) = Some c ->
  incl ncl pth -> (forall x, In x pth -> x = b \/ In x ncl) -> NoDup (map bnum ncl) ->
  (forall tx, ~ In tx diff -> ~ In tx (all_txs ncl) -> ~ In tx (btxs b) -> ~ In tx (all_txs oc)) ->
  J sF.
Proof.
  intros s2 sF ncl diff rc b pth oc c hb [HD [HA HX]] Ha2 Hsame Hcur Hrc Hb Hst Hhb Hsb Hp Htop Hoc Hoctop Hc Hincl Hcover Hnd Hdiff.
  destruct (HA Ha2) as [Hb0 [HQ Hc2]].
  set (d2 := disk_of s2) in *.
  set (W := window_ws ncl diff rc b) in *.
  set (dF := applyl (map snd W) d2).
  assert (Hbin : forall x, In x pth -> In b pth).
  { intros x Hx. destruct pth as [|y pth]; [contradiction|]. simpl in Htop. subst y. left; auto. }
  assert (Hstored : forall x, In x (b :: pth) -> info t (bid x) = Some x /\ In (bid x) (d_hdr d2)).
  { intros x [<-|Hx]; auto. destruct (down_path_link t d2 pth c Hp x Hx) as [I _]; auto. }
  assert (Hshape : forall w, In w (map snd W) -> win_write_ok (b :: pth) w).
  { apply window_ws_shape; auto.
    - intros x Hx. right. apply Hincl; auto.
    - left; auto. }
  (* DInv and unchanged header/body sets along every prefix *)
  assert (Hpre : forall pre post, map snd W = pre ++ post ->
            DInv (applyl pre d2) /\ d_hdr (applyl pre d2) = d_hdr d2 /\ d_body (applyl pre d2) = d_body d2).
  { apply (prefix_inv (fun d => DInv d /\ d_hdr d = d_hdr d2 /\ d_body d = d_body d2)); auto.
    intros pre w post E [PD [PH PB]].
    assert (Hw : win_write_ok (b :: pth) w). { apply Hshape. rewrite E. apply in_or_app; right; left; auto. }
    destruct (win_write_hdr (b :: pth) w (applyl pre d2) Hw) as [E1 E2].
    split; [|rewrite E1, E2; auto].
    eapply DInv_win_write; eauto. intros x Hx. rewrite PH. auto. }
  assert (HFull : DInv dF /\ d_hdr dF = d_hdr d2 /\ d_body dF = d_body d2).
  { apply (Hpre (map snd W) []). rewrite app_nil_r; auto. }
  destruct HFull as [HDF [HhF HbF]].
  (* the complete switch is consistent *)
  assert (HQF : Qd dF).
  { destruct (window_fields ncl diff rc b d2 Hrc) as [[S1 [S2 [S3 S4]]] [Fh [Fc Fl]]]. fold W in S1, S2, S3, S4, Fh, Fc, Fl. fold dF in S1, S2, S3, S4, Fh, Fc, Fl.
    pose proof (down_path_nodup t d2 pth c Hp) as Hndp.
    apply (switch_Qd t g d2 dF b c pth oc); auto.
    - rewrite S4; auto.
    - exists hb; auto.
    - unfold canon. rewrite Fc, alookup_aset, N.eqb_refl; auto.
    - intros x Hx. unfold canon. rewrite Fc, alookup_aset.
      destruct (bnum b =? bnum x) eqn:E.
      + apply N.eqb_eq in E. assert (x = b) by (apply (nodup_height_inj pth); eauto). subst; auto.
      + destruct (Hcover x Hx) as [->|Hin]; [rewrite N.eqb_refl in E; discriminate|].
        apply canon_fold_in; auto.
    - intros n Hnb Hn. unfold canon. rewrite Fc, alookup_aset.
      destruct (bnum b =? n) eqn:E; [apply N.eqb_eq in E; congruence|].
      apply canon_fold_other. intros x Hx. apply Hn; auto.
    - intros tx h Hin. rewrite Fl in Hin.
      apply look_txs_in in Hin. destruct Hin as [[-> Htx]|[Hin Hnb]].
      + left; exists b; auto.
      + apply unlook_in in Hin. destruct Hin as [Hin Hnd2].
        apply look_fold_in in Hin. destruct Hin as [[x [Hx [-> Htx]]]|[Hin Hnn]].
        * left; exists x. split; [right; apply Hincl; auto|auto].
        * right; split; auto. }
  (* assemble J for the final state *)
  set (sW := wrs W s2) in *.
  destruct Hsame as [SA SB SC].
  unfold ProofsB.J. rewrite SA. unfold alive. rewrite SB, SC. fold (alive sW).
  destruct (alive_dec sW) as [HaW|HdW].
  - assert (Ed : disk_of sW = dF) by (apply wrs_alive_disk; auto).
    rewrite Ed. split; auto. split.
    + intros _. split; [|split; auto].
      * intros h Hh. rewrite HhF. rewrite HbF in Hh. auto.
      * rewrite Hcur. destruct (window_fields ncl diff rc b d2 Hrc) as [_ [Fh _]]. symmetry; exact Fh.
    + intros Hx; contradiction.
  - assert (HnW : ~ alive sW) by (intros Hx; apply Hx; auto).
    destruct (wrs_dead_split W s2 Ha2 HnW) as [pre [m [w [post [EW [Hw [Ed Ec]]]]]]].
    fold sW in Ed, Ec. fold d2 in Ed.
    assert (Esplit : map snd W = map snd pre ++ w :: map snd post) by (rewrite EW, map_app; auto).
    split.
    + rewrite Ed.
      destruct (Hpre (map snd pre ++ [w]) (map snd post)) as [PD _].
      { rewrite Esplit, <- app_assoc; auto. }
      rewrite applyl_app in PD. exact PD.
    + split; [intros Hx; contradiction|].
      intros _ Hm. rewrite Ec in Hm. rewrite Hm in EW.
      assert (post = []) by (apply (window_ws_last ncl diff rc b pre w post); exact EW). subst post.
      rewrite Ed. replace (apply_write w (applyl (map snd pre) d2)) with dF; auto.
      unfold dF. rewrite EW, map_app, applyl_app. reflexivity.
Qed.

Lemma same_set_future : forall f s, same (set_future f s) s.
Proof. intros; constructor; reflexivity. Qed.

(* dead: nothing happens any more *)
Lemma reorg_dead_same : forall s c b s', budget s = Some O -> reorg t s c b = Some s' -> same s' s.
Proof.
  intros s c b s' Hd H. unfold reorg in H.
  destruct (reorg_chains t (disk_of s) c b) as [[oc nc]|]; try discriminate. inversion H; subst s'.
  pose proof (reorg_apply_same (rev nc) s s (same_refl s)) as Hs.
  rewrite (wrs_dead _ _ Hd) in Hs.
  assert (Hb : budget (reorg_apply (rev nc) s) = Some O) by (destruct Hs as [_ B _]; congruence).
  rewrite wr_dead; auto.
Qed.

Lemma all_txs_rev : forall l tx, In tx (all_txs (rev l)) <-> In tx (all_txs l).
Proof.
  intros l tx. unfold all_txs. rewrite !in_flat_map. split; intros [x [Hx H]]; exists x; split; auto.
  - apply in_rev; auto.
  - apply -> in_rev; auto.
Qed.

Lemma J_wbws : forall p b s, J s ->
  info t (bid b) = Some b -> goodish b -> bnum b <> 0 -> In (bpar b) (d_hdr (disk_of s)) ->
  (exists pp, info t (bpar b) = Some pp /\ bnum pp + 1 = bnum b) ->
  In (broot p) (d_state (disk_of s)) ->
  J (fst (write_block_with_state t p b s)).
Proof.
  intros p b s HJ Hb Hgd Hn0 Hpar Hpp Hps. unfold write_block_with_state.
  destruct (J_write_block t g b s HJ Hb Hgd Hn0 Hpar Hpp) as [HJ1 [Hext1 [Hst1 Hcur1]]].
  set (s1 := write_block b s) in *.
  set (s2 := if broot b =? broot p then s1 else wr false [WState (broot b)] s1).
  assert (H2 : J s2 /\ (alive s2 -> In (bid b) (d_hdr (disk_of s2)) /\ In (broot b) (d_state (disk_of s2))
                                     /\ In (bpar b) (d_hdr (disk_of s2)))).
  { unfold s2. destruct (broot b =? broot p) eqn:E.
    - split; auto. intros Ha. apply N.eqb_eq in E. destruct Hext1 as [X1 [X2 [X3 _]]].
      split; auto. split; [rewrite E; apply X3; auto|apply X1; auto].
    - destruct HJ1 as [HD1 [HA1 HX1]]. split.
      + apply J_wr_add; [split; auto| reflexivity | | | reflexivity].
        * intros _. apply (DInv_state t g); auto.
        * intros Ha. destruct (HA1 (wr_alive_back _ _ _ Ha)) as [Hb0 _]. exact Hb0.
      + intros Ha. pose proof (wr_alive_back _ _ _ Ha) as Ha1. rewrite wr_alive_disk; auto. simpl.
        destruct Hext1 as [X1 _]. split; auto. split; [apply In_addN; auto|apply X1; auto]. }
  destruct H2 as [HJ2 Hfacts].
  set (rc := match btxs b with [] => [] | _ :: _ => [WRcpt (bid b)] end).
  assert (Hrc : rc_ok rc). { unfold rc. destruct (btxs b); [left; auto|right; eexists; eauto]. }
  set (batch := rc ++ map (fun tx => WLook tx (bid b)) (btxs b)).
  destruct (alive_dec s2) as [Ha2|Hd2].
  - (* alive when the head switch starts *)
    destruct (Hfacts Ha2) as [Hsb [Hstb Hparb]].
    pose proof HJ2 as [HD2 [HA2 HX2]]. destruct (HA2 Ha2) as [Hb02 [HQ2 Hc2]].
    pose proof HQ2 as [[hb [Q1 [Q2 [Q3 [Q4 Q5]]]]]].
    assert (Hhbid : bid hb = d_headB (disk_of s2)) by (eapply info_bid; eauto).
    assert (Hhb : info t (bid hb) = Some hb) by (rewrite Hhbid; auto).
    assert (Hshb : In (bid hb) (d_hdr (disk_of s2))) by (rewrite Hhbid; apply (D_head t g); auto).
    destruct (bpar b =? cur s2) eqn:Elin.
    + (* parent is the head *)
      apply N.eqb_eq in Elin. cbn [fst].
      apply (J_window s2 _ [] [] rc b [b] [] hb hb); auto.
      * unfold window_ws. cbn [reorg_ws flat_map map app]. cbn [wrs]. rewrite wr_nil.
        fold batch. eapply same_trans; [|apply set_head_same].
        constructor; auto.
      * simpl. destruct Hpp as [pp [P1 P2]]. rewrite Elin, Hc2, Q1 in P1. inversion P1; subst pp.
        repeat split; auto. rewrite Elin, Hc2; auto.
      * simpl; auto.
      * intros x Hx; contradiction.
      * intros x [<-|[]]; auto.
      * constructor.
    + (* reorg *)
      rewrite Hc2, Q1. unfold reorg.
      destruct (reorg_chains t (disk_of s2) hb b) as [[oc nc]|] eqn:Erc; [|exact HJ2].
      destruct (reorg_chains_spec t _ _ _ _ _ Erc Hhb Hb Hshb Hsb) as [c [P1 [P2 [P3 [P4 P5]]]]].
      cbn [fst].
      set (diff := filter (fun x => negb (memN x (all_txs nc))) (all_txs oc)).
      apply (J_window s2 _ (rev nc) diff rc b nc oc c hb); auto.
      * unfold window_ws. rewrite wrs_app. cbn [app wrs]. fold batch.
        eapply same_trans; [apply same_set_future|].
        eapply same_trans; [apply set_head_same|].
        apply same_wrs. apply same_wr. apply same_wr. apply reorg_apply_same. apply same_refl.
      * intros x Hx. apply in_rev; auto.
      * intros x Hx. right. apply -> in_rev; auto.
      * pose proof (down_path_nodup t _ nc c P2) as Hn. rewrite map_rev. apply NoDup_rev; auto.
      * intros tx Hnd Hnn _ Hin. apply Hnd. unfold diff. apply filter_In. split; auto.
        destruct (memN tx (all_txs nc)) eqn:Em; auto. apply memN_In in Em.
        exfalso. apply Hnn. apply all_txs_rev; auto.
  - (* dead before the head switch: nothing is written any more *)
    assert (Hfin : forall s3, same s3 s2 ->
              J (set_future (filter (fun x => negb (x =? bid b)) (future (set_head false b (wr true batch s3))))
                   (set_head false b (wr true batch s3)))).
    { intros s3 H3. apply (J_same t g s2); auto.
      - apply same_sym. eapply same_trans; [|exact H3].
        eapply same_trans; [apply same_set_future|].
        eapply same_trans; [apply set_head_same|].
        assert (Hd3 : budget s3 = Some O) by (destruct H3 as [_ B _]; congruence).
        rewrite wr_dead; auto. rewrite wrs_dead; auto. apply same_refl.
      - intros Ha. exfalso. apply Ha.
        assert (Hd3 : budget s3 = Some O) by (destruct H3 as [_ B _]; congruence).
        assert (E : wr true batch s3 = s3) by (apply wr_dead; auto). rewrite E.
        unfold set_head. rewrite (wr_dead true [WHeadH (bid b)] s3 Hd3).
        rewrite (wr_dead true [WCanon (bnum b) (bid b)] s3 Hd3). rewrite (wr_dead false [WHeadB (bid b)] s3 Hd3).
        exact Hd3. }
    destruct (bpar b =? cur s2).
    + cbn [fst]. apply Hfin. apply same_refl.
    + destruct (info t (cur s2)) as [c|]; [|exact HJ2].
      destruct (reorg t s2 c b) as [s3|] eqn:Er; [|exact HJ2].
      cbn [fst]. apply Hfin. eapply reorg_dead_same; eauto.
Qed.

End WBWS.
