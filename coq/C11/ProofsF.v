(* C11 - every database write of WriteBlock / WriteBlockWithState keeps the
   database good; WriteBlockWithState preserves the node invariant under any
   write budget. *)
From VF.C11 Require Import Model ProofsA ProofsB ProofsC ProofsD ProofsE.
From Coq Require Import Lia ZifyBool ZifyN ZifyNat.
Local Open Scope N_scope.

Section WBWS.
Variable t : tree.
Variable g : block.
Hypothesis Hg : info t (bid g) = Some g.
Hypothesis Hg0 : bnum g = 0.

Notation DInv := (DInv t g).
Notation Qd := (Qd t).
Notation Good := (Good t g).
Notation J := (J t g).

Lemma nodup_height_inj : forall (l : list block) x y, NoDup (map bnum l) -> In x l -> In y l -> bnum x = bnum y -> x = y.
Proof.
  induction l as [|z l IH]; simpl; intros x y Hnd Hx Hy E; [contradiction|].
  inversion Hnd; subst. destruct Hx as [->|Hx], Hy as [->|Hy]; auto.
  - exfalso. apply H1. rewrite E. apply in_map; auto.
  - exfalso. apply H1. rewrite <- E. apply in_map; auto.
Qed.

(* ---- the block batch ------------------------------------------------------------------------- *)

Lemma Good_block_batch : forall b d, Good d ->
  info t (bid b) = Some b -> goodish b -> bnum b <> 0 -> In (bpar b) (d_hdr d) ->
  (exists p, info t (bpar b) = Some p /\ bnum p + 1 = bnum b) ->
  let d' := apply_write (block_batch b) d in
  Good d' /\ d_headB d' = d_headB d /\ In (bid b) (d_hdr d') /\
  (forall h, In h (d_hdr d) -> In h (d_hdr d')) /\ (forall r, In r (d_state d) -> In r (d_state d')).
Proof.
  intros b d [HD [HB HQ]] Hinfo Hgd Hn0 Hpar Hp d'.
  assert (E : d' = apply_ew (WHdr (bid b)) (apply_ew (WHNum (bid b)) (apply_ew (WBody (bid b)) d))) by reflexivity.
  rewrite E. split; [split; [|split]|].
  - assert (H1 : DInv (apply_ew (WHNum (bid b)) (apply_ew (WBody (bid b)) d)))
      by (apply (DInv_hnum t g); apply (DInv_body t g); auto).
    apply (DInv_hdr t g); auto; simpl; try (apply In_addN; auto).
  - intros h Hh. simpl in *. apply In_addN. apply In_addN in Hh. destruct Hh as [->|Hh]; auto.
  - apply (Qd_add t (WHdr (bid b))); auto. apply (Qd_add t (WHNum (bid b))); auto. apply (Qd_add t (WBody (bid b))); auto.
  - simpl. repeat split; auto.
    + apply In_addN; auto.
    + intros h Hh. apply In_addN; auto.
Qed.

Lemma Good_state : forall r d, Good d -> Good (apply_write [WState r] d).
Proof.
  intros r d [HD [HB HQ]]. split; [|split].
  - apply (DInv_state t g); auto.
  - exact HB.
  - apply (Qd_add t (WState r)); auto.
Qed.

(* ---- the head-switch batch --------------------------------------------------------------------- *)

Lemma DInv_win_write : forall d bs w, DInv d ->
  (forall x, In x bs -> info t (bid x) = Some x /\ In (bid x) (d_hdr d)) ->
  win_write_ok bs w ->
  DInv (apply_write w d) /\ d_hdr (apply_write w d) = d_hdr d /\ d_body (apply_write w d) = d_body d.
Proof.
  intros d bs w HD Hbs [Hs|[x [Hx ->]]].
  - split; [apply (DInv_soft_write t g); auto|].
    clear HD Hbs. revert d. induction w as [|e w IH]; intros d; [simpl; auto|].
    cbn [forallb] in Hs. apply andb_true_iff in Hs. destruct Hs as [H1 H2].
    rewrite apply_write_cons. destruct (IH H2 (apply_ew e d)) as [A B].
    destruct (soft_ew_fields e d H1) as [E1 [E2 [E3 _]]]. rewrite A, B. auto.
  - destruct (Hbs x Hx) as [I1 I2].
    assert (E : apply_write (stage_head x) d =
                apply_ew (WHeadB (bid x)) (apply_ew (WCanon (bnum x) (bid x)) (apply_ew (WHeadH (bid x)) d))) by reflexivity.
    rewrite E. split; [|simpl; auto].
    apply (DInv_headB t g); [|simpl; auto].
    apply (DInv_canon t g); auto. apply (DInv_soft t g); auto.
Qed.

Lemma Good_switch : forall d ncl diff rc b pth oc c hb,
  Good d -> rc_ok rc ->
  info t (bid b) = Some b -> In (broot b) (d_state d) ->
  info t (d_headB d) = Some hb -> In (bid b) (d_hdr d) ->
  down_path t d pth c -> hd c pth = b ->
  down_path t d oc c -> hd c oc = hb -> info t (bid c) = Some c ->
  incl ncl pth -> (forall x, In x pth -> x = b \/ In x ncl) -> NoDup (map bnum ncl) ->
  (forall tx, ~ In tx diff -> ~ In tx (all_txs ncl) -> ~ In tx (btxs b) -> ~ In tx (all_txs oc)) ->
  let d' := apply_write (concat (switch_l ncl diff rc b)) d in
  Good d' /\ d_headB d' = bid b.
Proof.
  intros d ncl diff rc b pth oc c hb [HD [HB HQ]] Hrc Hb Hst Hhb Hsb Hp Htop Hoc Hoctop Hc Hincl Hcover Hnd Hdiff d'.
  assert (Ed : d' = applyl (switch_l ncl diff rc b) d) by (apply apply_write_concat).
  assert (Ed2 : d' = applyl (switch_l2 ncl diff rc b) d).
  { rewrite <- apply_write_concat, switch_l2_concat. reflexivity. }
  assert (Hbin : forall x, In x pth -> In b pth).
  { intros x Hx. destruct pth as [|y pth]; [contradiction|]. simpl in Htop. subst y. left; auto. }
  assert (Hstored : forall x, In x (b :: pth) -> info t (bid x) = Some x /\ In (bid x) (d_hdr d)).
  { intros x [<-|Hx]; auto. destruct (down_path_link t d pth c Hp x Hx) as [I _]; auto. }
  assert (Hshape : forall w, In w (switch_l2 ncl diff rc b) -> win_write_ok (b :: pth) w).
  { apply switch_l2_shape; auto.
    - intros x Hx. right. apply Hincl; auto.
    - left; auto. }
  assert (Hpre : forall pre post, switch_l2 ncl diff rc b = pre ++ post ->
            DInv (applyl pre d) /\ d_hdr (applyl pre d) = d_hdr d /\ d_body (applyl pre d) = d_body d).
  { apply (prefix_inv (fun x => DInv x /\ d_hdr x = d_hdr d /\ d_body x = d_body d)); auto.
    intros pre w post E [PD [PH PB]].
    assert (Hw : win_write_ok (b :: pth) w). { apply Hshape. rewrite E. apply in_or_app; right; left; auto. }
    destruct (DInv_win_write (applyl pre d) (b :: pth) w PD) as [W1 [W2 W3]]; auto.
    - intros x Hx. rewrite PH. auto.
    - split; auto. split; congruence. }
  destruct (Hpre (switch_l2 ncl diff rc b) []) as [HDF [HhF HbF]]; [rewrite app_nil_r; auto|].
  rewrite <- Ed2 in HDF, HhF, HbF.
  destruct (switch_fields ncl diff rc b d Hrc) as [[S1 [S2 [S3 S4]]] [Fh [Fc Fl]]]. rewrite <- Ed in S1, S2, S3, S4, Fh, Fc, Fl.
  split; [|exact Fh]. split; [exact HDF|]. split.
  - intros h Hh. rewrite HhF. rewrite HbF in Hh. auto.
  - pose proof (down_path_nodup t d pth c Hp) as Hndp.
    apply (switch_Qd t g d d' b c pth oc); auto.
    + rewrite S4; auto.
    + exists hb; auto.
    + unfold canon. rewrite Fc, alookup_aset, N.eqb_refl; auto.
    + intros x Hx. unfold canon. rewrite Fc, alookup_aset.
      destruct (bnum b =? bnum x) eqn:E.
      * apply N.eqb_eq in E. assert (x = b) by (apply (nodup_height_inj pth); eauto). subst; auto.
      * destruct (Hcover x Hx) as [->|Hin]; [rewrite N.eqb_refl in E; discriminate|].
        apply canon_fold_in; auto.
    + intros n Hnb Hn. unfold canon. rewrite Fc, alookup_aset.
      destruct (bnum b =? n) eqn:E; [apply N.eqb_eq in E; congruence|].
      apply canon_fold_other. intros x Hx. apply Hn; auto.
    + intros tx h Hin. rewrite Fl in Hin.
      apply look_txs_in in Hin. destruct Hin as [[-> Htx]|[Hin Hnb]].
      * left; exists b; auto.
      * apply unlook_in in Hin. destruct Hin as [Hin Hnd2].
        apply look_fold_in in Hin. destruct Hin as [[x [Hx [-> Htx]]]|[Hin Hnn]].
        -- left; exists x. split; [right; apply Hincl; auto|auto].
        -- right; split; auto.
Qed.

Lemma all_txs_rev : forall l tx, In tx (all_txs (rev l)) <-> In tx (all_txs l).
Proof.
  intros l tx. unfold all_txs. rewrite !in_flat_map. split; intros [x [Hx H]]; exists x; split; auto.
  - apply in_rev; auto.
  - apply -> in_rev; auto.
Qed.

(* ---- WriteBlockWithState ------------------------------------------------------------------------ *)

Lemma J_write_block : forall b s, J s -> info t (bid b) = Some b ->
  (alive s -> goodish b /\ bnum b <> 0 /\ In (bpar b) (d_hdr (disk_of s)) /\
              exists p, info t (bpar b) = Some p /\ bnum p + 1 = bnum b) ->
  J (write_block b s) /\ (alive (write_block b s) -> In (bid b) (d_hdr (disk_of (write_block b s)))) /\
  (forall h, In h (d_hdr (disk_of s)) -> In h (d_hdr (disk_of (write_block b s)))) /\
  (forall r, In r (d_state (disk_of s)) -> In r (d_state (disk_of (write_block b s)))) /\
  cur (write_block b s) = cur s.
Proof.
  intros b s HJ Hb Hpre. unfold write_block. destruct (alive_dec s) as [Ha|Hd].
  - destruct (Hpre Ha) as [A [B [C D]]]. pose proof HJ as [HG _].
    destruct (Good_block_batch b (disk_of s) HG Hb A B C D) as [G1 [G2 [G3 [G4 G5]]]].
    split; [apply J_wr; auto|]. rewrite wr_alive_disk; auto. rewrite wr_cur. auto.
  - rewrite wr_dead; auto. split; [auto|]. split; [intros Ha; exfalso; apply Ha; auto|]. auto.
Qed.

Lemma J_wbws : forall p b s, J s ->
  info t (bid b) = Some b -> goodish b -> bnum b <> 0 -> In (bpar b) (d_hdr (disk_of s)) ->
  (exists pp, info t (bpar b) = Some pp /\ bnum pp + 1 = bnum b) ->
  In (broot p) (d_state (disk_of s)) ->
  J (fst (write_block_with_state t p b s)).
Proof.
  intros p b s HJ Hb Hgd Hn0 Hpar Hpp Hps. unfold write_block_with_state.
  destruct (J_write_block b s HJ Hb) as [HJ1 [Hst1 [Hh1 [Hs1 Hcur1]]]]; [intros _; auto|].
  set (s1 := write_block b s) in *.
  set (s2 := if broot b =? broot p then s1 else wr [WState (broot b)] s1).
  assert (H2 : J s2 /\ (alive s2 -> In (bid b) (d_hdr (disk_of s2)) /\ In (broot b) (d_state (disk_of s2)))).
  { unfold s2. destruct (broot b =? broot p) eqn:E.
    - split; auto. intros Ha. apply N.eqb_eq in E. split; auto. rewrite E; auto.
    - split.
      + apply J_wr; auto. intros _. destruct HJ1 as [HG1 _]. split; [apply Good_state; auto|reflexivity].
      + intros Ha. pose proof (wr_alive_back _ _ Ha) as Ha1. rewrite wr_alive_disk; auto. simpl.
        split; auto. apply In_addN; auto. }
  destruct H2 as [HJ2 Hfacts].
  set (rc := match btxs b with [] => [] | _ :: _ => [WRcpt (bid b)] end).
  assert (Hrc : rc_ok rc). { unfold rc. destruct (btxs b); [left; auto|right; eexists; eauto]. }
  (* already canonical at or below the head: only the receipts are written *)
  assert (Hrcw : J (wr rc s2)).
  { apply J_wr; auto. intros _. destruct HJ2 as [[HD [HB HQ]] _].
    destruct Hrc as [->|[h ->]]; [split; [split; auto|reflexivity]|].
    split; [|reflexivity]. split; [apply (DInv_soft_write t g); auto|]. split; [exact HB|].
    apply (Qd_add t (WRcpt h)); auto. }
  match goal with |- context [if ?c then (wr rc s2, ENone) else _] => destruct c eqn:Ealr end; [cbn [fst]; exact Hrcw|].
  (* whatever is staged: if it is a good switch the final state satisfies J *)
  assert (Hfin : forall rg,
            (alive s2 -> let d' := apply_write (rc ++ rg ++ map (fun tx => WLook tx (bid b)) (btxs b) ++ stage_head b) (disk_of s2) in
                         Good d' /\ d_headB d' = bid b) ->
            J (set_future (filter (fun x => negb (x =? bid b))
                 (future (set_cur (bid b) (wr (rc ++ rg ++ map (fun tx => WLook tx (bid b)) (btxs b) ++ stage_head b) s2))))
                 (set_cur (bid b) (wr (rc ++ rg ++ map (fun tx => WLook tx (bid b)) (btxs b) ++ stage_head b) s2)))).
  { intros rg Hgood. destruct HJ2 as [HG2 HC2].
    destruct (wr_disk_cases (rc ++ rg ++ map (fun tx => WLook tx (bid b)) (btxs b) ++ stage_head b) s2) as [[E Hd]|[Ha E]].
    - split; [simpl; rewrite E; auto|]. intros Ha2. exfalso. apply Hd.
      apply (wr_alive_back (rc ++ rg ++ map (fun tx => WLook tx (bid b)) (btxs b) ++ stage_head b)). exact Ha2.
    - destruct (Hgood Ha) as [G1 G2]. split; [simpl; rewrite E; auto|].
      intros _. simpl. rewrite E. auto. }
  destruct (alive_dec s2) as [Ha2|Hd2].
  - destruct (Hfacts Ha2) as [Hsb Hstb].
    pose proof HJ2 as [[HD2 [HB2 HQ2]] HC2]. pose proof (HC2 Ha2) as Hc2.
    pose proof HQ2 as [[hb [Q1 [Q2 [Q3 [Q4 Q5]]]]]].
    assert (Hhbid : bid hb = d_headB (disk_of s2)) by (eapply info_bid; eauto).
    assert (Hhb : info t (bid hb) = Some hb) by (rewrite Hhbid; auto).
    assert (Hshb : In (bid hb) (d_hdr (disk_of s2))) by (rewrite Hhbid; apply (D_head t g); auto).
    destruct (bpar b =? cur s2) eqn:Elin.
    + (* parent is the head *)
      apply N.eqb_eq in Elin. cbn [fst]. apply Hfin. intros _.
      change (rc ++ [] ++ map (fun tx => WLook tx (bid b)) (btxs b) ++ stage_head b)
        with (rc ++ (flat_map stage_block [] ++ map WUnlook []) ++ map (fun tx => WLook tx (bid b)) (btxs b) ++ stage_head b).
      rewrite switch_batch_concat.
      apply (Good_switch (disk_of s2) [] [] rc b [b] [] hb hb); auto.
      * split; auto.
      * simpl. destruct Hpp as [pp [P1 P2]]. rewrite Elin, Hc2, Q1 in P1. inversion P1; subst pp.
        repeat split; auto. rewrite Elin, Hc2; auto.
      * simpl; auto.
      * intros x Hx; contradiction.
      * intros x [<-|[]]; auto.
      * constructor.
    + (* reorg *)
      rewrite Hc2, Q1. unfold reorg.
      destruct (reorg_chains t (disk_of s2) hb b) as [[oc nc]|] eqn:Erc; [|exact HJ2].
      destruct (reorg_chains_spec t _ _ _ _ _ Erc Hhb Hb Hshb Hsb) as [c [P1 [P2 [P3 [P4 P5]]]]].
      cbn [fst]. apply Hfin. intros _.
      set (diff := filter (fun x => negb (memN x (all_txs nc))) (all_txs oc)).
      rewrite switch_batch_concat.
      apply (Good_switch (disk_of s2) (rev nc) diff rc b nc oc c hb); auto.
      * split; auto.
      * intros x Hx. apply in_rev; auto.
      * intros x Hx. right. apply -> in_rev; auto.
      * pose proof (down_path_nodup t _ nc c P2) as Hn. rewrite map_rev. apply NoDup_rev; auto.
      * intros tx Hnd Hnn _ Hin. apply Hnd. unfold diff. apply filter_In. split; auto.
        destruct (memN tx (all_txs nc)) eqn:Em; auto. apply memN_In in Em.
        exfalso. apply Hnn. apply all_txs_rev; auto.
  - (* dead before the head switch: nothing is written any more *)
    destruct (bpar b =? cur s2).
    + cbn [fst]. apply Hfin. intros Ha. exfalso; apply Ha; auto.
    + destruct (info t (cur s2)) as [c|]; [|exact HJ2].
      destruct (reorg t (disk_of s2) c b) as [rg|] eqn:Er; [|exact HJ2].
      cbn [fst]. apply Hfin. intros Ha. exfalso; apply Ha; auto.
Qed.

End WBWS.
