(* C11 - the invariants: [DInv] holds after every single database write (it is
   what a restart can rely on at any crash point); [Qd] is the property's
   consistency statement on a database, relative to its head-block marker. *)
From VF.C11 Require Import Model ProofsA.
From Coq Require Import Lia ZifyBool ZifyN ZifyNat.
Local Open Scope N_scope.

Section ReadLemmas.
Variable t : tree.

Lemma get_header_spec : forall d h n b, get_header t d h n = Some b ->
  In h (d_hdr d) /\ info t h = Some b /\ bnum b = n /\ bid b = h.
Proof.
  unfold get_header; intros d h n b H.
  destruct (memN h (d_hdr d)) eqn:E; try discriminate. apply memN_In in E.
  destruct (info t h) as [x|] eqn:Ei; try discriminate.
  destruct (bnum x =? n) eqn:En; try discriminate. inversion H; subst.
  apply N.eqb_eq in En. repeat split; auto. eapply info_bid; eauto.
Qed.

Lemma get_block_spec : forall d h n b, get_block t d h n = Some b ->
  In h (d_hdr d) /\ In h (d_body d) /\ info t h = Some b /\ bnum b = n /\ bid b = h.
Proof.
  unfold get_block; intros d h n b H.
  destruct (memN h (d_body d)) eqn:E; try discriminate. apply memN_In in E.
  apply get_header_spec in H. intuition.
Qed.

Lemma get_header_intro : forall d h b, In h (d_hdr d) -> info t h = Some b -> get_header t d h (bnum b) = Some b.
Proof.
  intros d h b Hi Hb. unfold get_header. apply memN_In in Hi. rewrite Hi, Hb, N.eqb_refl; auto.
Qed.

Lemma parent_block_spec : forall d b p, parent_block t d b = Some p ->
  bnum b <> 0 /\ In (bpar b) (d_hdr d) /\ info t (bpar b) = Some p /\ bnum p + 1 = bnum b /\ bid p = bpar b.
Proof.
  unfold parent_block; intros d b p H. destruct (bnum b =? 0) eqn:E; try discriminate.
  apply N.eqb_neq in E. apply get_block_spec in H. destruct H as [H1 [H2 [H3 [H4 H5]]]].
  repeat split; auto. lia.
Qed.

Lemma get_header_by_number_spec : forall d n b, get_header_by_number t d n = Some b ->
  canon d n = Some (bid b) /\ In (bid b) (d_hdr d) /\ info t (bid b) = Some b /\ bnum b = n.
Proof.
  unfold get_header_by_number; intros d n b H. destruct (canon d n) as [h|] eqn:E; try discriminate.
  apply get_header_spec in H. destruct H as [H1 [H2 [H3 H4]]]. subst h. auto.
Qed.

End ReadLemmas.

Section Inv.
Variable t : tree.
Variable g : block.
Hypothesis Hg : info t (bid g) = Some g.
Hypothesis Hg0 : bnum g = 0.
Hypothesis Hid0 : info t 0 = None.
Hypothesis Hgood : good_block g = true.

(* a stored block passed the full verification, or the side-chain verification, which
   executes the body and checks signature, consensus field and state but does not
   compare the transaction root with the header (class 5) *)
Definition goodish (b : block) : Prop := good_block b = true.

Record DInv (d : disk) : Prop := mkDInv {
  D_body : forall h, In h (d_hdr d) -> In h (d_body d) /\ In h (d_hnum d);
  D_info : forall h, In h (d_hdr d) -> exists b, info t h = Some b /\ goodish b /\
             (bnum b = 0 -> h = bid g) /\
             (bnum b <> 0 -> In (bpar b) (d_hdr d) /\ exists p, info t (bpar b) = Some p /\ bnum p + 1 = bnum b);
  D_canon : forall n h, In (n, h) (d_canon d) -> In h (d_hdr d) /\ exists b, info t h = Some b /\ bnum b = n;
  D_g : canon d 0 = Some (bid g) /\ In (bid g) (d_hdr d) /\ In (broot g) (d_state d);
  D_head : In (d_headB d) (d_hdr d) }.

Lemma init_DInv : DInv (init_disk g).
Proof.
  constructor; simpl.
  - intros h [<-|[]]; auto.
  - intros h [<-|[]]. exists g. split; auto. split; [exact Hgood|]. split; auto.
    intros Hn; congruence.
  - intros n h [E|[]]. inversion E; subst. split; auto. exists g; auto.
  - unfold canon; simpl. auto.
  - auto.
Qed.

(* ---- reads on a database satisfying DInv --------------------------------------- *)

Lemma get_block_intro : forall d h b, DInv d -> In h (d_hdr d) -> info t h = Some b -> get_block t d h (bnum b) = Some b.
Proof.
  intros d h b HD Hi Hb. unfold get_block.
  destruct (D_body d HD h Hi) as [Hbody _]. apply memN_In in Hbody. rewrite Hbody.
  apply get_header_intro; auto.
Qed.

Lemma canon_stored : forall d n h, DInv d -> canon d n = Some h ->
  In h (d_hdr d) /\ exists b, info t h = Some b /\ bnum b = n /\ bid b = h.
Proof.
  intros d n h HD H. unfold canon in H. apply alookup_In in H.
  destruct (D_canon d HD n h H) as [H1 [b [H2 H3]]]. split; auto. exists b; repeat split; auto.
  eapply info_bid; eauto.
Qed.

(* ---- per-write preservation of DInv ---------------------------------------------- *)

Lemma DInv_soft : forall e d, soft_ew e = true -> DInv d -> DInv (apply_ew e d).
Proof.
  intros e d Hs HD. destruct (soft_ew_fields e d Hs) as [E1 [E2 [E3 [E4 [E5 E6]]]]].
  destruct HD as [A B C D E]. constructor; unfold canon in *; rewrite ?E1, ?E2, ?E3, ?E4, ?E5, ?E6; auto.
Qed.

Lemma DInv_soft_write : forall w d, forallb soft_ew w = true -> DInv d -> DInv (apply_write w d).
Proof.
  induction w as [|e w IH]; intros d H HD; auto. cbn [forallb] in H.
  apply andb_true_iff in H. destruct H as [H1 H2]. rewrite apply_write_cons. apply IH; auto. apply DInv_soft; auto.
Qed.

Lemma DInv_body : forall h d, DInv d -> DInv (apply_ew (WBody h) d).
Proof.
  intros h d [A B C D E]. constructor; simpl; auto.
  intros x Hx. destruct (A x Hx). split; auto. apply In_addN; auto.
Qed.

Lemma DInv_hnum : forall h d, DInv d -> DInv (apply_ew (WHNum h) d).
Proof.
  intros h d [A B C D E]. constructor; simpl; auto.
  intros x Hx. destruct (A x Hx). split; auto. apply In_addN; auto.
Qed.

Lemma DInv_state : forall r d, DInv d -> DInv (apply_ew (WState r) d).
Proof.
  intros r d [A B C D E]. constructor; simpl; auto.
  destruct D as [D1 [D2 D3]]. repeat split; auto. apply In_addN; auto.
Qed.

(* the header of b may be written once body and hash->number entry are there,
   b is a block of the tree that passed a verification, and its parent is stored *)
Lemma DInv_hdr : forall b d, DInv d ->
  In (bid b) (d_body d) -> In (bid b) (d_hnum d) -> info t (bid b) = Some b -> goodish b ->
  bnum b <> 0 -> In (bpar b) (d_hdr d) -> (exists p, info t (bpar b) = Some p /\ bnum p + 1 = bnum b) ->
  DInv (apply_ew (WHdr (bid b)) d).
Proof.
  intros b d [A B C D E] Hbody Hhnum Hinfo Hgd Hn0 Hpar Hp. constructor; simpl.
  - intros x Hx. apply In_addN in Hx. destruct Hx as [->|Hx]; auto.
  - intros x Hx. apply In_addN in Hx. destruct Hx as [->|Hx].
    + exists b. split; auto. split; auto. split; [intros; congruence|].
      intros _. split; auto. apply In_addN; auto.
    + destruct (B x Hx) as [bx [I1 [I2 [I3 I4]]]]. exists bx. split; auto. split; auto. split; auto.
      intros Hn. destruct (I4 Hn) as [I5 I6]. split; auto. apply In_addN; auto.
  - intros n h Hc. destruct (C n h Hc) as [C1 C2]. split; auto. apply In_addN; auto.
  - destruct D as [D1 [D2 D3]]. repeat split; auto. apply In_addN; auto.
  - apply In_addN; auto.
Qed.

Lemma DInv_canon : forall b d, DInv d -> In (bid b) (d_hdr d) -> info t (bid b) = Some b ->
  DInv (apply_ew (WCanon (bnum b) (bid b)) d).
Proof.
  intros b d HD Hi Hinfo. pose proof HD as [A B C D E]. constructor; simpl; auto.
  - intros n h Hc. apply In_aset in Hc. destruct Hc as [[-> ->]|[Hc _]]; auto.
    split; auto. exists b; auto.
  - destruct D as [D1 [D2 D3]]. repeat split; auto.
    unfold canon in *; cbn [d_canon]. rewrite alookup_aset. destruct (bnum b =? 0) eqn:E0; auto.
    apply N.eqb_eq in E0. destruct (B _ Hi) as [bx [I1 [_ [I3 _]]]].
    rewrite Hinfo in I1. inversion I1; subst bx. rewrite (I3 E0); auto.
Qed.

Lemma DInv_headB : forall h d, DInv d -> In h (d_hdr d) -> DInv (apply_ew (WHeadB h) d).
Proof. intros h d [A B C D E] Hi. constructor; simpl; auto. Qed.

(* ---- the consistency statement on a database --------------------------------------- *)

Record Qd (d : disk) : Prop := mkQd {
  Q_all : exists hb, info t (d_headB d) = Some hb /\ In (broot hb) (d_state d) /\
    canon d (bnum hb) = Some (d_headB d) /\
    (forall n, n <= bnum hb -> exists b, canon d n = Some (bid b) /\ info t (bid b) = Some b /\ bnum b = n /\
                              (n <> 0 -> canon d (n - 1) = Some (bpar b))) /\
    (forall tx h, In (tx, h) (d_look d) -> exists b, info t h = Some b /\ bnum b <= bnum hb /\
                              canon d (bnum b) = Some h /\ In tx (btxs b)) }.

Definition B0 (d : disk) : Prop := forall h, In h (d_body d) -> In h (d_hdr d).

Lemma init_Qd : Qd (init_disk g).
Proof.
  constructor. exists g. simpl. rewrite Hg, Hg0. unfold canon; simpl. repeat split; auto.
  - intros n Hn. assert (n = 0) by lia. subst. exists g. simpl. repeat split; auto. intros; congruence.
  - intros tx h [].
Qed.

Lemma init_B0 : B0 (init_disk g).
Proof. intros h; simpl; auto. Qed.

(* writes that only add blocks or states keep Qd *)
Definition add_ew (e : ew) : bool :=
  match e with WBody _ | WHNum _ | WHdr _ | WState _ | WRcpt _ | WHeadH _ => true | _ => false end.

Lemma Qd_add : forall e d, add_ew e = true -> Qd d -> Qd (apply_ew e d).
Proof.
  intros e d He [[hb [H1 [H2 [H3 [H4 H5]]]]]]. constructor.
  destruct e; simpl in *; try discriminate; exists hb; unfold canon in *; simpl; repeat split; auto.
  apply In_addN; auto.
Qed.

(* ---- the invariant of the running (or just killed) node ------------------------------- *)

(* with block writes and head switches atomic, every database the node ever
   leaves behind is good: what a restart can rely on, no body without header,
   and consistent relative to its own head marker *)
Definition Good (d : disk) : Prop := DInv d /\ B0 d /\ Qd d.

Definition J (s : st) : Prop := Good (disk_of s) /\ (alive s -> cur s = d_headB (disk_of s)).

Lemma init_J : J (init_st g).
Proof.
  unfold J, init_st, Good; simpl. split; [split; [apply init_DInv|split; [apply init_B0|apply init_Qd]]|auto].
Qed.

Lemma J_set_future : forall f s, J s -> J (set_future f s).
Proof. intros f s H; exact H. Qed.

Lemma J_die : forall s, J s -> J (die s).
Proof. intros s [H _]. split; auto. intros Ha. exfalso. apply Ha. reflexivity. Qed.

(* a write that keeps the head marker *)
Lemma J_wr : forall w s, J s ->
  (alive s -> Good (apply_write w (disk_of s)) /\ d_headB (apply_write w (disk_of s)) = d_headB (disk_of s)) ->
  J (wr w s).
Proof.
  intros w s [HG HC] Hw. destruct (wr_disk_cases w s) as [[E Hd]|[Ha E]].
  - split; [rewrite E; auto|]. intros Ha2. exfalso. apply Hd. eapply wr_alive_back; eauto.
  - destruct (Hw Ha) as [HG' Hh]. split; [rewrite E; auto|].
    intros _. rewrite wr_cur, E, Hh. auto.
Qed.

End Inv.
