(* C11 - the head switch: what reorg computes, what the writes of a complete
   switch do to the canonical index and the lookups, and why the result is
   consistent again. *)
From VF.C11 Require Import Model ProofsA ProofsB.
From Coq Require Import Lia ZifyBool ZifyN ZifyNat.
Local Open Scope N_scope.

Section Switch.
Variable t : tree.

Lemma info_inj : forall x y, info t (bid x) = Some x -> info t (bid y) = Some y -> bid x = bid y -> x = y.
Proof. intros x y Hx Hy E. rewrite E in Hx. congruence. Qed.

(* ---- descending paths -------------------------------------------------------------
   [down_path d l c]: l lists blocks highest first; each block is a block of the
   tree stored in d, its parent is the next element, the parent of the last is c. *)
Fixpoint down_path (d : disk) (l : list block) (c : block) : Prop :=
  match l with
  | [] => True
  | x :: r =>
    (info t (bid x) = Some x /\ In (bid x) (d_hdr d)) /\ bnum x <> 0 /\
    bpar x = bid (hd c r) /\ bnum (hd c r) + 1 = bnum x /\
    down_path d r c
  end.

Lemma down_path_app : forall d l1 l2 m c,
  down_path d l1 m -> down_path d l2 c -> hd c l2 = m -> down_path d (l1 ++ l2) c.
Proof.
  induction l1 as [|x l1 IH]; simpl; intros l2 m c H1 H2 Hm; auto.
  destruct H1 as [A [B [C [D E]]]].
  assert (Eh : hd c (l1 ++ l2) = hd m l1) by (destruct l1; simpl in *; congruence).
  rewrite Eh. split; auto. split; auto. split; auto. split; auto. eapply IH; eauto.
Qed.

Lemma hd_app_ne : forall (c : block) l1 l2, l1 <> [] -> hd c (l1 ++ l2) = hd c l1.
Proof. intros c [|x l1] l2 H; simpl; congruence. Qed.

(* heights along a path: strictly between c and the top, each exactly once *)
Lemma down_path_heights : forall d l c, down_path d l c ->
  forall x, In x l -> bnum c < bnum x /\ bnum x <= bnum (hd c l).
Proof.
  induction l as [|y l IH]; simpl; intros c H x Hx; [contradiction|].
  destruct H as [A [B [C [D E]]]]. destruct Hx as [->|Hx].
  - split; [|lia]. destruct l as [|z l]; simpl in *; [lia|].
    specialize (IH c E z (or_introl eq_refl)). lia.
  - specialize (IH c E x Hx). destruct l as [|z l]; simpl in *; [contradiction|]. lia.
Qed.

Lemma down_path_cover : forall d l c, down_path d l c ->
  forall n, bnum c < n -> n <= bnum (hd c l) -> exists x, In x l /\ bnum x = n.
Proof.
  induction l as [|y l IH]; simpl; intros c H n H1 H2; [lia|].
  destruct H as [A [B [C [D E]]]].
  destruct (N.eq_dec n (bnum y)) as [->|Hn].
  - exists y; auto.
  - destruct (IH c E n H1) as [x [Hx Ex]]; [lia|]. exists x; auto.
Qed.

Lemma down_path_nodup : forall d l c, down_path d l c -> NoDup (map bnum l).
Proof.
  induction l as [|y l IH]; simpl; intros c H; [constructor|].
  destruct H as [A [B [C [D E]]]]. constructor; [|eapply IH; eauto].
  intros Hin. apply in_map_iff in Hin. destruct Hin as [x [Ex Hx]].
  pose proof (down_path_heights d l c E x Hx). lia.
Qed.

(* the parent link of each element, by height *)
Lemma down_path_link : forall d l c, down_path d l c ->
  forall x, In x l ->
    (info t (bid x) = Some x /\ In (bid x) (d_hdr d)) /\ bnum x <> 0 /\
    ((bnum x = bnum c + 1 /\ bpar x = bid c) \/ (exists y, In y l /\ bnum y + 1 = bnum x /\ bpar x = bid y)).
Proof.
  induction l as [|z l IH]; simpl; intros c H x Hx; [contradiction|].
  destruct H as [A [B [C [D E]]]]. destruct Hx as [->|Hx].
  - split; auto. split; auto. destruct l as [|y l]; simpl in *.
    + left; split; [lia|auto].
    + right. exists y. auto.
  - destruct (IH c E x Hx) as [I1 [I2 [I3|[y [Hy I4]]]]]; split; auto; split; auto.
    right. exists y; auto.
Qed.

(* ---- walk_down / find_common -------------------------------------------------------- *)

Lemma walk_down_spec : forall fuel d b n acc b' acc',
  walk_down t fuel d b n acc = Some (b', acc') -> info t (bid b) = Some b -> In (bid b) (d_hdr d) ->
  exists l, acc' = acc ++ l /\ down_path d l b' /\ hd b' l = b /\ bnum b' = n /\ info t (bid b') = Some b' /\
            (l <> [] -> In (bid b') (d_hdr d)).
Proof.
  induction fuel as [|f IH]; intros d b n acc b' acc' H Hb Hsb; simpl in H.
  - destruct (bnum b =? n) eqn:E; try discriminate. inversion H; subst.
    exists []. rewrite app_nil_r. apply N.eqb_eq in E. simpl. repeat split; auto; try congruence.
  - destruct (bnum b =? n) eqn:E.
    + inversion H; subst. exists []. rewrite app_nil_r. apply N.eqb_eq in E. simpl. repeat split; auto; try congruence.
    + destruct (parent_block t d b) as [p|] eqn:Ep; try discriminate.
      destruct (parent_block_spec t d b p Ep) as [P1 [P2 [P3 [P4 P5]]]].
      assert (Hp : info t (bid p) = Some p) by (rewrite P5; auto).
      assert (Hsp : In (bid p) (d_hdr d)) by (rewrite P5; auto).
      destruct (IH d p n (acc ++ [b]) b' acc' H Hp Hsp) as [l [E1 [E2 [E3 [E4 [E5 E6]]]]]].
      exists (b :: l). rewrite E1, <- app_assoc. simpl. split; auto. split.
      * repeat split; auto; rewrite E3; auto.
      * repeat split; auto. intros _. destruct l as [|y l].
        { simpl in E3. subst b'. rewrite P5; auto. }
        { apply E6. discriminate. }
Qed.

Lemma find_common_spec : forall fuel d o n oc nc oc' nc',
  find_common t fuel d o n oc nc = Some (oc', nc') ->
  info t (bid o) = Some o -> info t (bid n) = Some n -> In (bid o) (d_hdr d) -> In (bid n) (d_hdr d) ->
  exists lo ln c, oc' = oc ++ lo /\ nc' = nc ++ ln /\
    down_path d lo c /\ down_path d ln c /\ hd c lo = o /\ hd c ln = n /\ info t (bid c) = Some c.
Proof.
  induction fuel as [|f IH]; intros d o n oc nc oc' nc' H Ho Hn Hso Hsn; simpl in H.
  - destruct (bid o =? bid n) eqn:E; try discriminate. inversion H; subst.
    apply N.eqb_eq in E. assert (o = n) by (apply info_inj; auto). subst n.
    exists [], [], o. rewrite !app_nil_r. simpl. repeat split; auto.
  - destruct (bid o =? bid n) eqn:E.
    + inversion H; subst. apply N.eqb_eq in E. assert (o = n) by (apply info_inj; auto). subst n.
      exists [], [], o. rewrite !app_nil_r. simpl. repeat split; auto.
    + destruct (parent_block t d o) as [o1|] eqn:Eo; try discriminate.
      destruct (parent_block t d n) as [n1|] eqn:En; try discriminate.
      destruct (parent_block_spec t d o o1 Eo) as [P1 [P2 [P3 [P4 P5]]]].
      destruct (parent_block_spec t d n n1 En) as [R1 [R2 [R3 [R4 R5]]]].
      assert (Ho1 : info t (bid o1) = Some o1) by (rewrite P5; auto).
      assert (Hn1 : info t (bid n1) = Some n1) by (rewrite R5; auto).
      assert (Hso1 : In (bid o1) (d_hdr d)) by (rewrite P5; auto).
      assert (Hsn1 : In (bid n1) (d_hdr d)) by (rewrite R5; auto).
      destruct (IH d o1 n1 (oc ++ [o]) (nc ++ [n]) oc' nc' H Ho1 Hn1 Hso1 Hsn1) as [lo [ln [c [E1 [E2 [E3 [E4 [E5 [E6 E7]]]]]]]]].
      exists (o :: lo), (n :: ln), c. rewrite E1, E2, <- !app_assoc. simpl.
      repeat split; auto; try (rewrite E5; auto); try (rewrite E6; auto).
Qed.

(* what reorg(old, new) works with: a common ancestor c and the two descending paths *)
Lemma reorg_chains_spec : forall d o n oc nc,
  reorg_chains t d o n = Some (oc, nc) -> info t (bid o) = Some o -> info t (bid n) = Some n ->
  In (bid o) (d_hdr d) -> In (bid n) (d_hdr d) ->
  exists c, down_path d oc c /\ down_path d nc c /\ hd c oc = o /\ hd c nc = n /\ info t (bid c) = Some c.
Proof.
  unfold reorg_chains; intros d o n oc nc H Ho Hn Hso Hsn.
  destruct (bnum n <? bnum o) eqn:E.
  - destruct (walk_down t (fuel_of o) d o (bnum n) []) as [[o' l1]|] eqn:Ew; try discriminate.
    destruct (walk_down_spec _ _ _ _ _ _ _ Ew Ho Hso) as [l [E1 [E2 [E3 [E4 [E5 E6]]]]]]. simpl in E1. subst l1.
    assert (Hso' : In (bid o') (d_hdr d)).
    { destruct l as [|x l]; [simpl in E3; subst; auto|apply E6; discriminate]. }
    destruct (find_common_spec _ _ _ _ _ _ _ _ H E5 Hn Hso' Hsn) as [lo [ln [c [F1 [F2 [F3 [F4 [F5 [F6 F7]]]]]]]]].
    simpl in F2. subst oc nc. exists c. repeat split; auto.
    + eapply down_path_app; eauto.
    + destruct l as [|x l]; simpl in *; [congruence|auto].
  - destruct (walk_down t (fuel_of n) d n (bnum o) []) as [[n' l1]|] eqn:Ew; try discriminate.
    destruct (walk_down_spec _ _ _ _ _ _ _ Ew Hn Hsn) as [l [E1 [E2 [E3 [E4 [E5 E6]]]]]]. simpl in E1. subst l1.
    assert (Hsn' : In (bid n') (d_hdr d)).
    { destruct l as [|x l]; [simpl in E3; subst; auto|apply E6; discriminate]. }
    destruct (find_common_spec _ _ _ _ _ _ _ _ H Ho E5 Hso Hsn') as [lo [ln [c [F1 [F2 [F3 [F4 [F5 [F6 F7]]]]]]]]].
    simpl in F1. subst oc nc. exists c. repeat split; auto.
    + eapply down_path_app; eauto.
    + destruct l as [|x l]; simpl in *; [congruence|auto].
Qed.

(* ---- folds over the canonical index and the lookups --------------------------------- *)

Definition canon_fold (l : list block) (c : list (N * N)) : list (N * N) :=
  fold_left (fun c x => aset (bnum x) (bid x) c) l c.

Lemma canon_fold_other : forall l c n, (forall x, In x l -> bnum x <> n) -> alookup n (canon_fold l c) = alookup n c.
Proof.
  induction l as [|y l IH]; simpl; intros c n H; auto.
  unfold canon_fold in *; simpl. rewrite IH; auto.
  rewrite alookup_aset. destruct (bnum y =? n) eqn:E; auto.
  apply N.eqb_eq in E. exfalso. eapply H; eauto.
Qed.

Lemma canon_fold_in : forall l c x, NoDup (map bnum l) -> In x l -> alookup (bnum x) (canon_fold l c) = Some (bid x).
Proof.
  induction l as [|y l IH]; simpl; intros c x Hnd Hx; [contradiction|].
  inversion Hnd; subst. unfold canon_fold in *; simpl. destruct Hx as [->|Hx].
  - fold (canon_fold l (aset (bnum x) (bid x) c)). rewrite canon_fold_other.
    + rewrite alookup_aset, N.eqb_refl; auto.
    + intros z Hz E. apply H1. apply in_map_iff. exists z; auto.
  - apply IH; auto.
Qed.

Lemma canon_fold_entries : forall l c n h, In (n, h) (canon_fold l c) -> In (n, h) c \/ exists x, In x l /\ n = bnum x /\ h = bid x.
Proof.
  induction l as [|y l IH]; simpl; intros c n h H; auto.
  unfold canon_fold in *; simpl in H. apply IH in H. destruct H as [H|[x [Hx E]]].
  - apply In_aset in H. destruct H as [[-> ->]|[H _]]; auto. right; exists y; auto.
  - right; exists x; auto.
Qed.

Definition look_block (x : block) (m : list (N * N)) : list (N * N) :=
  fold_left (fun m tx => aset tx (bid x) m) (btxs x) m.
Definition look_fold (l : list block) (m : list (N * N)) : list (N * N) := fold_left (fun m x => look_block x m) l m.

Lemma look_txs_in : forall txs h m tx v, In (tx, v) (fold_left (fun m tx => aset tx h m) txs m) ->
  (v = h /\ In tx txs) \/ (In (tx, v) m /\ ~ In tx txs).
Proof.
  induction txs as [|a txs IH]; simpl; intros h m tx v H; auto.
  apply IH in H. destruct H as [[-> H]|[H Hn]]; auto.
  apply In_aset in H. destruct H as [[-> ->]|[H Hne]]; auto.
  right; split; auto. intros [E|E]; auto.
Qed.

Lemma look_fold_in : forall l m tx v, In (tx, v) (look_fold l m) ->
  (exists x, In x l /\ v = bid x /\ In tx (btxs x)) \/ (In (tx, v) m /\ ~ In tx (all_txs l)).
Proof.
  induction l as [|y l IH]; simpl; intros m tx v H; auto.
  unfold look_fold in *; simpl in H. apply IH in H. destruct H as [[x [Hx E]]|[H Hn]].
  - left; exists x; auto.
  - unfold look_block in H. apply look_txs_in in H. destruct H as [[-> H]|[H Hn2]].
    + left; exists y; auto.
    + right; split; auto. unfold all_txs in *; simpl. rewrite in_app_iff. intros [E|E]; auto.
Qed.

Lemma unlook_in : forall diff m tx v, In (tx, v) (fold_left (fun m x => aremove x m) diff m) -> In (tx, v) m /\ ~ In tx diff.
Proof.
  induction diff as [|a diff IH]; simpl; intros m tx v H; auto.
  apply IH in H. destruct H as [H Hn]. apply In_aremove in H. destruct H as [H Hne]. split; auto.
  intros [E|E]; auto.
Qed.

End Switch.
