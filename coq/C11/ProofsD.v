(* C11 - a complete head switch re-establishes consistency (semantic core). *)
From VF.C11 Require Import Model ProofsA ProofsB ProofsC.
From Coq Require Import Lia ZifyBool ZifyN ZifyNat.
Local Open Scope N_scope.

Section SwitchQd.
Variable t : tree.

(* the old chain from the head down to the fork point is canonical *)
Lemma old_path_canon : forall d hb (Hlink : forall n, n <= bnum hb -> exists b, canon d n = Some (bid b) /\ info t (bid b) = Some b /\ bnum b = n /\
                              (n <> 0 -> canon d (n - 1) = Some (bpar b))),
  forall l c top, down_path t d l c -> hd c l = top -> info t (bid top) = Some top -> info t (bid c) = Some c ->
    canon d (bnum top) = Some (bid top) -> bnum top <= bnum hb ->
    (forall x, In x l -> canon d (bnum x) = Some (bid x)) /\ canon d (bnum c) = Some (bid c) /\ bnum c <= bnum top.
Proof.
  intros d hb Hlink. induction l as [|x r IH]; intros c top Hp Hh Ht Hc Hct Hle; simpl in *.
  - subst top. repeat split; auto; try lia; try (intros x []).
  - subst top. destruct Hp as [[A A'] [B [C [D E]]]].
    destruct (Hlink (bnum x) Hle) as [bx [L1 [L2 [L3 L4]]]].
    rewrite Hct in L1. inversion L1 as [Eid].
    assert (bx = x) by (apply (info_inj t); auto). subst bx.
    specialize (L4 B). rewrite C in L4.
    assert (Hn : bnum (hd c r) = bnum x - 1) by lia.
    assert (Hinfo : info t (bid (hd c r)) = Some (hd c r)).
    { destruct r as [|y r]; simpl in *; auto. destruct E as [[E1 _] _]; auto. }
    destruct (IH c (hd c r) E eq_refl Hinfo Hc) as [I1 [I2 I3]].
    + rewrite Hn; auto.
    + lia.
    + repeat split; auto; try lia. intros y [<-|Hy]; auto.
Qed.

(* [pth]: the blocks made canonical (highest first, ending just above c, top = b;
   empty when b itself is the fork point, i.e. an ancestor of the old head);
   [oc]: the old chain above c; the effect of the switch on the fields is given
   abstractly (it is computed for the concrete writes in ProofsE). *)
Lemma switch_Qd : forall g d d' b c pth oc,
  DInv t g d -> Qd t d ->
  info t (bid b) = Some b -> In (broot b) (d_state d') ->
  d_headB d' = bid b ->
  down_path t d pth c -> hd c pth = b ->
  (exists hb, info t (d_headB d) = Some hb /\ down_path t d oc c /\ hd c oc = hb) ->
  info t (bid c) = Some c ->
  canon d' (bnum b) = Some (bid b) ->
  (forall x, In x pth -> canon d' (bnum x) = Some (bid x)) ->
  (forall n, n <> bnum b -> (forall x, In x pth -> bnum x <> n) -> canon d' n = canon d n) ->
  (forall tx h, In (tx, h) (d_look d') ->
     (exists x, (x = b \/ In x pth) /\ h = bid x /\ In tx (btxs x)) \/ (In (tx, h) (d_look d) /\ ~ In tx (all_txs oc))) ->
  Qd t d'.
Proof.
  intros g d d' b c pth oc HD [[hb [Q1 [Q2 [Q3 [Q4 Q5]]]]]] Hb Hst Hhead Hp Htop [hb' [Hb' [Hoc Hoctop]]] Hc Hcb Hc1 Hc2 Hl.
  assert (Ehb : hb' = hb) by congruence. rewrite Ehb in *. clear Ehb Hb'.
  assert (Hhbid : bid hb = d_headB d) by (eapply info_bid; eauto).
  assert (Hhb : info t (bid hb) = Some hb) by (rewrite Hhbid; auto).
  destruct (old_path_canon d hb Q4 oc c hb Hoc Hoctop Hhb Hc) as [O1 [O2 O3]]; [rewrite Hhbid; auto|lia|].
  assert (Hbtop : forall x, In x pth -> bnum c < bnum x /\ bnum x <= bnum b).
  { intros x Hx. pose proof (down_path_heights t d pth c Hp x Hx). rewrite Htop in H. auto. }
  assert (Hcb' : bnum c <= bnum b).
  { destruct pth as [|y pth]; simpl in Htop; subst; [lia|].
    pose proof (Hbtop b (or_introl eq_refl)). lia. }
  (* at and below the fork point the index is unchanged *)
  assert (Hlow : forall n, n <= bnum c -> canon d' n = canon d n).
  { intros n Hn. destruct (N.eq_dec n (bnum b)) as [->|Hnb].
    - destruct pth as [|y pth]; simpl in Htop.
      + subst c. rewrite Hcb; auto.
      + subst y. pose proof (Hbtop b (or_introl eq_refl)). lia.
    - apply Hc2; auto. intros x Hx E. apply Hbtop in Hx. lia. }
  constructor. exists b. rewrite Hhead. repeat split; auto.
  - (* linked *)
    intros n Hn. destruct (N.le_gt_cases n (bnum c)) as [Hle|Hgt].
    + destruct (Q4 n) as [bx [L1 [L2 [L3 L4]]]]; [lia|].
      exists bx. rewrite Hlow; auto.
      repeat split; auto. intros Hn0. rewrite Hlow; [auto|lia].
    + destruct (down_path_cover t d pth c Hp n Hgt) as [x [Hx Ex]]; [rewrite Htop; auto|].
      destruct (down_path_link t d pth c Hp x Hx) as [[I1 I1'] [I2 I3]].
      exists x. rewrite <- Ex. repeat split; auto.
      intros _. destruct I3 as [[I3 I4]|[y [Hy [I3 I4]]]].
      * rewrite I4. replace (bnum x - 1) with (bnum c) by lia.
        rewrite Hlow; auto. lia.
      * rewrite I4. replace (bnum x - 1) with (bnum y) by lia. auto.
  - (* lookups *)
    intros tx h Hin. destruct (Hl tx h Hin) as [[x [[->|Hx] [-> Htx]]]|[Hold Hno]].
    + exists b. repeat split; auto. lia.
    + destruct (down_path_link t d pth c Hp x Hx) as [[I1 _] _].
      exists x. repeat split; auto. apply Hbtop; auto.
    + destruct (Q5 tx h Hold) as [bh [B1 [B2 [B3 B4]]]].
      assert (Hle : bnum bh <= bnum c).
      { destruct (N.le_gt_cases (bnum bh) (bnum c)) as [|Hgt]; auto. exfalso.
        destruct (down_path_cover t d oc c Hoc (bnum bh) Hgt) as [x [Hx Ex]]; [rewrite Hoctop; auto|].
        pose proof (O1 x Hx) as Ox. rewrite Ex, B3 in Ox. inversion Ox; subst h.
        destruct (down_path_link t d oc c Hoc x Hx) as [[I1 _] _].
        rewrite I1 in B1. inversion B1; subst bh.
        apply Hno. unfold all_txs. apply in_flat_map. exists x; auto. }
      exists bh. repeat split; auto; try lia.
      rewrite Hlow; auto.
Qed.

End SwitchQd.
