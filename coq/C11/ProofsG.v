(* C11 - the import procedures preserve the node invariant: insertSidechain,
   insertChain's dispatch, InsertChain, whole histories; and a frame lemma for
   predicates that only depend on how the primitives treat budget/crashmid. *)
From VF.C11 Require Import Model ProofsA ProofsB ProofsC ProofsD ProofsE ProofsF.
From Coq Require Import Lia ZifyBool ZifyN ZifyNat.
Local Open Scope N_scope.

(* ---- frame: predicates closed under the primitive state transformers ------------------ *)

Record prim_closed (P : st -> Prop) : Prop := mkPC {
  pc_wr : forall m w s, P s -> P (wr m w s);
  pc_cur : forall h s, P s -> P (set_cur h s);
  pc_future : forall f s, P s -> P (set_future f s);
  pc_die : forall s, P s -> P (die s) }.

Section Frame.
Variable t : tree.
Variable P : st -> Prop.
Hypothesis HP : prim_closed P.

Lemma fr_write_block : forall b s, P s -> P (write_block b s).
Proof. intros; unfold write_block; repeat apply (pc_wr P HP); auto. Qed.

Lemma fr_set_head : forall m b s, P s -> P (set_head m b s).
Proof. intros; unfold set_head. apply (pc_cur P HP). repeat apply (pc_wr P HP); auto. Qed.

Lemma fr_looks : forall txs h s, P s -> P (fold_left (fun s tx => wr true [WLook tx h] s) txs s).
Proof. induction txs as [|a txs IH]; simpl; intros; auto. apply IH. apply (pc_wr P HP); auto. Qed.

Lemma fr_reorg_apply : forall l s, P s -> P (reorg_apply l s).
Proof.
  induction l as [|x l IH]; intros s H; auto. cbn [reorg_apply]. apply IH. apply fr_looks. apply fr_set_head; auto.
Qed.

Lemma fr_reorg : forall s o n s', P s -> reorg t s o n = Some s' -> P s'.
Proof.
  intros s o n s' H E. unfold reorg in E. destruct (reorg_chains t (disk_of s) o n) as [[oc nc]|]; try discriminate.
  inversion E; subst. apply (pc_wr P HP). apply fr_reorg_apply; auto.
Qed.

Lemma fr_wbws : forall p b s, P s -> P (fst (write_block_with_state t p b s)).
Proof.
  intros p b s H. unfold write_block_with_state.
  set (s1 := write_block b s). assert (H1 : P s1) by (apply fr_write_block; auto).
  set (s2 := if broot b =? broot p then s1 else wr false [WState (broot b)] s1).
  assert (H2 : P s2) by (unfold s2; destruct (broot b =? broot p); auto; apply (pc_wr P HP); auto).
  assert (Hfin : forall s3, P s3 -> P (set_future (filter (fun x => negb (x =? bid b))
             (future (set_head false b (wr true (match btxs b with [] => [] | _ :: _ => [WRcpt (bid b)] end ++ map (fun tx => WLook tx (bid b)) (btxs b)) s3))))
             (set_head false b (wr true (match btxs b with [] => [] | _ :: _ => [WRcpt (bid b)] end ++ map (fun tx => WLook tx (bid b)) (btxs b)) s3)))).
  { intros s3 H3. apply (pc_future P HP). apply fr_set_head. apply (pc_wr P HP); auto. }
  destruct (bpar b =? cur s2).
  - cbn [fst]. apply Hfin; auto.
  - destruct (info t (cur s2)) as [c|]; [|exact H2].
    destruct (reorg t s2 c b) as [s3|] eqn:Er; [|exact H2].
    cbn [fst]. apply Hfin. eapply fr_reorg; eauto.
Qed.

Lemma fr_side_fold : forall chain s, P s ->
  P (fold_left (fun s b => if has_block (disk_of s) (bid b) then s else write_block b s) chain s).
Proof.
  induction chain as [|b chain IH]; simpl; intros s H; auto. apply IH.
  destruct (has_block (disk_of s) (bid b)); auto. apply fr_write_block; auto.
Qed.

Lemma fr_sidechain : forall ic, (forall s l, P s -> P (fst (ic s l))) ->
  forall s chain, P s -> P (fst (insert_sidechain t ic s chain)).
Proof.
  intros ic Hic s chain H. unfold insert_sidechain.
  destruct (skip_canonical t (disk_of s) chain) as [|b0 ch]; [exact H|].
  destruct (verify_all_side_chain_blocks t (disk_of s) (b0 :: ch)); try exact H; try (apply (pc_die P HP); exact H).
  set (s1 := fold_left _ (b0 :: ch) s). assert (H1 : P s1) by (apply fr_side_fold; auto).
  destruct (info t (cur s1)) as [c|]; [|apply (pc_die P HP); auto].
  destruct (bnum (last (b0 :: ch) (mkB 0 0 0 0 [] 0 0)) <=? bnum c); [exact H1|].
  destruct (collect_side t _ (disk_of s1) _ []) as [[hs anc]|]; [|apply (pc_die P HP); auto].
  destruct hs as [|h hs]; [exact H1|].
  destruct (get_blocks t (disk_of s1) _) as [blocks|]; [|apply (pc_die P HP); auto].
  apply Hic; auto.
Qed.

Lemma fr_ic_loop : forall side, (forall s l, P s -> P (fst (side s l))) ->
  forall items s prev, P s -> P (fst (ic_loop t side s items prev)).
Proof.
  intros side Hside. induction items as [|[b v] rest IH]; intros s prev H; [exact H|].
  cbn [ic_loop].
  set (proc := fun s0 : st =>
      match match prev with Some p => Some p | None => parent_block t (disk_of s) b end with
      | Some p =>
          if negb (has_state (disk_of s0) (broot p)) then (s0, EStateMissing)
          else if negb (bbv b =? 0) then (s0, EBadState)
          else let (s', e0) := write_block_with_state t p b s0 in
               match e0 with ENone => ic_loop t side s' rest (Some b) | _ => (s', e0) end
      | None => ic_loop t side s0 rest (Some b)
      end).
  assert (Hproc : forall s0, P s0 -> P (fst (proc s0))).
  { intros s0 H0. unfold proc.
    destruct (match prev with Some p => Some p | None => parent_block t (disk_of s) b end) as [p|]; [|apply IH; auto].
    destruct (negb (has_state (disk_of s0) (broot p))); [exact H0|].
    destruct (negb (bbv b =? 0)); [exact H0|].
    pose proof (fr_wbws p b s0 H0) as Hw.
    destruct (write_block_with_state t p b s0) as [s' e0]. cbn [fst] in Hw.
    destruct e0; try exact Hw. apply IH; auto. }
  assert (Hfut : P (set_future (bid b :: future s) s)) by (apply (pc_future P HP); auto).
  destruct (match v with ENone => validate_body t (disk_of s) b | _ => v end) eqn:Ee; try exact H.
  - apply Hproc; auto.
  - apply IH; auto.
  - apply IH; auto.
  - destruct (memN (bpar b) (future s)); [apply IH; auto|exact H].
  - apply Hside; auto.
  - destruct prev as [pp|]; [|apply Hside; auto].
    destruct ((bhv b =? 1) || (bhv b =? 2)); [exact H|].
    destruct (validate_body t (disk_of s) b); try exact H. apply Hproc; auto.
Qed.

Lemma fr_insert_chain : forall fuel s chain, P s -> P (fst (insert_chain t fuel s chain)).
Proof.
  induction fuel as [|f IH]; intros s chain H; [exact H|].
  cbn [insert_chain]. apply fr_ic_loop; auto.
  intros s0 l H0. apply fr_sidechain; auto.
Qed.

Lemma fr_InsertChain : forall fuel s chain, P s -> P (fst (InsertChain t fuel s chain)).
Proof.
  intros fuel s chain H. unfold InsertChain. destruct chain as [|b0 r]; [exact H|].
  destruct (negb (contiguous (b0 :: r))); [exact H|].
  destruct ((bnum b0 =? 0) || _); [exact H|]. apply fr_insert_chain; auto.
Qed.

End Frame.

(* a node that was started with an unlimited budget: it is never "inside a switch" *)
Definition nocrash (s : st) : Prop := crashmid s = false /\ (budget s = None \/ budget s = Some O).

Lemma nocrash_closed : prim_closed nocrash.
Proof.
  constructor.
  - intros m w s [A [B|B]].
    + unfold nocrash, wr. destruct w as [|e w]; [auto|]. rewrite B. simpl. auto.
    + rewrite wr_dead; auto. split; auto.
  - intros h s H; exact H.
  - intros f s H; exact H.
  - intros s [A B]. split; auto.
Qed.
