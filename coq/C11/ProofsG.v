(* C11 - frame lemma: a predicate on node states that is closed under the
   primitive state transformers is preserved by every import procedure.  Used
   for "a killed node does not change its database any more". *)
From VF.C11 Require Import Model ProofsA.
From Coq Require Import Lia ZifyBool ZifyN ZifyNat.
Local Open Scope N_scope.

Record prim_closed (P : st -> Prop) : Prop := mkPC {
  pc_wr : forall w s, P s -> P (wr w s);
  pc_cur : forall h s, P s -> P (set_cur h s);
  pc_future : forall f s, P s -> P (set_future f s);
  pc_die : forall s, P s -> P (die s) }.

Section Frame.
Variable t : tree.
Variable P : st -> Prop.
Hypothesis HP : prim_closed P.

Lemma fr_write_block : forall b s, P s -> P (write_block b s).
Proof. intros; unfold write_block; apply (pc_wr P HP); auto. Qed.

Lemma fr_wbws : forall p b s, P s -> P (fst (write_block_with_state t p b s)).
Proof.
  intros p b s H. unfold write_block_with_state.
  set (s1 := write_block b s). assert (H1 : P s1) by (apply fr_write_block; auto).
  set (s2 := if broot b =? broot p then s1 else wr [WState (broot b)] s1).
  assert (H2 : P s2) by (unfold s2; destruct (broot b =? broot p); auto; apply (pc_wr P HP); auto).
  match goal with |- context [if ?c then (wr ?rc s2, ENone) else _] => destruct c; [cbn [fst]; apply (pc_wr P HP); exact H2|] end.
  destruct (if bpar b =? cur s2 then Some [] else match info t (cur s2) with Some c => reorg t (disk_of s2) c b | None => None end) as [rg|];
    [|exact H2].
  cbn [fst]. apply (pc_future P HP). apply (pc_cur P HP). apply (pc_wr P HP); auto.
Qed.

Lemma fr_vasc : forall first chain prev s, P s -> P (fst (vasc_loop t s first prev chain)).
Proof.
  intros first. induction chain as [|b r IH]; intros prev s H; cbn [vasc_loop]; [exact H|].
  destruct ((lookback (bnum b) <? first) && _); [exact H|].
  destruct (negb _); [exact H|].
  destruct ((bhv b =? 1) || (bhv b =? 2)); [exact H|].
  destruct ((bbv b =? 1) || (bbv b =? 5)); [exact H|].
  destruct (negb (bbv b =? 0)); [exact H|].
  apply IH. destruct (has_block (disk_of s) (bid b)); auto. apply fr_write_block; auto.
Qed.

Lemma fr_side_fold : forall chain s, P s ->
  P (fold_left (fun s b => if has_block (disk_of s) (bid b) then s else write_block b s) chain s).
Proof.
  induction chain as [|b chain IH]; simpl; intros s H; auto. apply IH.
  destruct (has_block (disk_of s) (bid b)); auto. apply fr_write_block; auto.
Qed.

Lemma fr_sidechain : forall ic, (forall s l, P s -> P (fst (ic s l))) ->
  forall s chain, P s -> P (fst (insert_sidechain t ic s chain)).
Proof.
  intros ic Hic s chain H. unfold insert_sidechain.
  destruct (skip_canonical t (disk_of s) chain) as [|b0 ch]; [exact H|].
  assert (Hv : P (fst (verify_all_side_chain_blocks t s (b0 :: ch)))).
  { unfold verify_all_side_chain_blocks. destruct (parent_block t (disk_of s) b0) as [p|]; [|exact H].
    destruct (negb (has_state (disk_of s) (broot p))); [exact H|]. apply fr_vasc; auto. }
  destruct (verify_all_side_chain_blocks t s (b0 :: ch)) as [sv ev]. cbn [fst] in Hv.
  destruct ev; try exact Hv; try (apply (pc_die P HP); exact Hv).
  set (s1 := fold_left _ (b0 :: ch) sv). assert (H1 : P s1) by (apply fr_side_fold; auto).
  destruct (info t (cur s1)) as [c|]; [|apply (pc_die P HP); auto].
  destruct (bnum (last (b0 :: ch) (mkB 0 0 0 0 [] 0 0)) <=? bnum c); [exact H1|].
  destruct (collect_side t _ (disk_of s1) _ []) as [[hs anc]|]; [|apply (pc_die P HP); auto].
  destruct hs as [|h hs]; [exact H1|].
  destruct (get_blocks t (disk_of s1) _) as [blocks|]; [|apply (pc_die P HP); auto].
  apply Hic; auto.
Qed.

Lemma fr_ic_loop : forall side, (forall s l, P s -> P (fst (side s l))) ->
  forall items s prev, P s -> P (fst (ic_loop t side s items prev)).
Proof.
  intros side Hside. induction items as [|[b v] rest IH]; intros s prev H; [exact H|].
  cbn [ic_loop].
  set (proc := fun s0 : st =>
      match match prev with Some p => Some p | None => parent_block t (disk_of s) b end with
      | Some p =>
          if negb (has_state (disk_of s0) (broot p)) then (s0, EStateMissing)
          else if negb (bbv b =? 0) then (s0, EBadState)
          else let (s', e0) := write_block_with_state t p b s0 in
               match e0 with ENone => ic_loop t side s' rest (Some b) | _ => (s', e0) end
      | None => ic_loop t side s0 rest (Some b)
      end).
  assert (Hproc : forall s0, P s0 -> P (fst (proc s0))).
  { intros s0 H0. unfold proc.
    destruct (match prev with Some p => Some p | None => parent_block t (disk_of s) b end) as [p|]; [|apply IH; auto].
    destruct (negb (has_state (disk_of s0) (broot p))); [exact H0|].
    destruct (negb (bbv b =? 0)); [exact H0|].
    pose proof (fr_wbws p b s0 H0) as Hw.
    destruct (write_block_with_state t p b s0) as [s' e0]. cbn [fst] in Hw.
    destruct e0; try exact Hw. apply IH; auto. }
  assert (Hfut : P (set_future (bid b :: future s) s)) by (apply (pc_future P HP); auto).
  destruct (match v with ENone => validate_body t (disk_of s) b | _ => v end) eqn:Ee; try exact H.
  - apply Hproc; auto.
  - apply IH; auto.
  - apply IH; auto.
  - destruct (memN (bpar b) (future s)); [apply IH; auto|exact H].
  - apply Hside; auto.
  - destruct prev as [pp|]; [|apply Hside; auto].
    destruct ((bhv b =? 1) || (bhv b =? 2)); [exact H|].
    destruct (validate_body t (disk_of s) b); try exact H. apply Hproc; auto.
Qed.

Lemma fr_insert_chain : forall fuel s chain, P s -> P (fst (insert_chain t fuel s chain)).
Proof.
  induction fuel as [|f IH]; intros s chain H; [exact H|].
  cbn [insert_chain]. apply fr_ic_loop; auto.
  intros s0 l H0. apply fr_sidechain; auto.
Qed.

End Frame.

(* a killed node: its database is frozen *)
Definition frozen (d : disk) (s : st) : Prop := budget s = Some O /\ disk_of s = d.

Lemma frozen_closed : forall d, prim_closed (frozen d).
Proof.
  intros d. constructor.
  - intros w s [A B]. rewrite wr_dead; auto. split; auto.
  - intros h s H; exact H.
  - intros f s H; exact H.
  - intros s [A B]. split; auto.
Qed.

Lemma dead_ic_loop : forall t side, (forall d s l, frozen d s -> frozen d (fst (side s l))) ->
  forall items s prev, budget s = Some O -> disk_of (fst (ic_loop t side s items prev)) = disk_of s.
Proof.
  intros t side Hs items s prev Hb.
  destruct (fr_ic_loop t (frozen (disk_of s)) (frozen_closed _) side (Hs (disk_of s)) items s prev) as [_ E]; auto.
  split; auto.
Qed.

Lemma dead_side : forall t f d s l, frozen d s -> frozen d (fst (insert_sidechain t (insert_chain t f) s l)).
Proof.
  intros t f d s l H. apply (fr_sidechain t (frozen d) (frozen_closed d)); auto.
  intros s0 l0 H0. apply (fr_insert_chain t (frozen d) (frozen_closed d)); auto.
Qed.
