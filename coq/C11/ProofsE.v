(* C11 - the batches of WriteBlock / WriteBlockWithState: their effect on the
   fields and their shape. *)
From VF.C11 Require Import Model ProofsA ProofsB ProofsC ProofsD.
From Coq Require Import Lia ZifyBool ZifyN ZifyNat.
Local Open Scope N_scope.

(* ---- field effects ------------------------------------------------------------------ *)

Definition sameS (d d' : disk) : Prop :=
  d_body d' = d_body d /\ d_hnum d' = d_hnum d /\ d_hdr d' = d_hdr d /\ d_state d' = d_state d.

Lemma sameS_refl : forall d, sameS d d.
Proof. intros; repeat split; auto. Qed.

Lemma sameS_trans : forall a b c, sameS a b -> sameS b c -> sameS a c.
Proof. intros a b c [A1 [A2 [A3 A4]]] [B1 [B2 [B3 B4]]]; repeat split; congruence. Qed.

Lemma applyl_cons : forall w ws d, applyl (w :: ws) d = applyl ws (apply_write w d).
Proof. reflexivity. Qed.

Lemma look_batch_fields : forall txs h d,
  let d' := apply_write (map (fun tx => WLook tx h) txs) d in
  sameS d d' /\ d_canon d' = d_canon d /\ d_headB d' = d_headB d /\
  d_look d' = fold_left (fun m tx => aset tx h m) txs (d_look d).
Proof.
  induction txs as [|a txs IH]; intros h d; cbn [map fold_left].
  - simpl. repeat split; auto.
  - rewrite apply_write_cons. destruct (IH h (apply_ew (WLook a h) d)) as [S [C [H L]]]. cbv zeta in *.
    split; [|split; [|split]].
    + eapply sameS_trans; [|exact S]. repeat split; auto.
    + rewrite C; auto.
    + rewrite H; auto.
    + rewrite L; auto.
Qed.

Lemma unlook_fields : forall diff d,
  let d' := apply_write (map WUnlook diff) d in
  sameS d d' /\ d_canon d' = d_canon d /\ d_headB d' = d_headB d /\
  d_look d' = fold_left (fun m x => aremove x m) diff (d_look d).
Proof.
  induction diff as [|a diff IH]; intros d; cbn [map fold_left].
  - simpl. repeat split; auto.
  - rewrite apply_write_cons. destruct (IH (apply_ew (WUnlook a) d)) as [S [C [H L]]]. cbv zeta in *.
    split; [|split; [|split]].
    + eapply sameS_trans; [|exact S]. repeat split; auto.
    + rewrite C; auto.
    + rewrite H; auto.
    + rewrite L; auto.
Qed.

Lemma stage_block_fields : forall x d,
  let d' := apply_write (stage_block x) d in
  sameS d d' /\ d_canon d' = aset (bnum x) (bid x) (d_canon d) /\ d_look d' = look_block x (d_look d).
Proof.
  intros x d. unfold stage_block. rewrite apply_write_app.
  set (d1 := apply_write (stage_head x) d).
  destruct (look_batch_fields (btxs x) (bid x) d1) as [S [C [H L]]]. cbv zeta in *.
  split; [|split].
  - eapply sameS_trans; [|exact S]. repeat split; auto.
  - rewrite C. reflexivity.
  - rewrite L. reflexivity.
Qed.

Lemma stage_blocks_fields : forall l d,
  let d' := applyl (map stage_block l) d in
  sameS d d' /\ d_canon d' = canon_fold l (d_canon d) /\ d_look d' = look_fold l (d_look d).
Proof.
  induction l as [|x l IH]; intros d.
  - simpl. repeat split; auto.
  - cbn [map]. rewrite applyl_cons.
    destruct (stage_block_fields x d) as [S1 [C1 L1]]. cbv zeta in *.
    set (d1 := apply_write (stage_block x) d) in *.
    destruct (IH d1) as [S2 [C2 L2]]. cbv zeta in *.
    split; [|split].
    + eapply sameS_trans; eauto.
    + rewrite C2, C1. reflexivity.
    + rewrite L2, L1. reflexivity.
Qed.

(* the head-switch batch as a list of pieces *)
Definition switch_l (ncl : list block) (diff : list N) (rc : write) (b : block) : list write :=
  [rc] ++ map stage_block ncl ++ [map WUnlook diff; map (fun tx => WLook tx (bid b)) (btxs b); stage_head b].

Definition rc_ok (rc : write) : Prop := rc = [] \/ exists h, rc = [WRcpt h].

Lemma switch_fields : forall ncl diff rc b d, rc_ok rc ->
  let d' := applyl (switch_l ncl diff rc b) d in
  sameS d d' /\ d_headB d' = bid b /\
  d_canon d' = aset (bnum b) (bid b) (canon_fold ncl (d_canon d)) /\
  d_look d' = fold_left (fun m tx => aset tx (bid b) m) (btxs b)
                (fold_left (fun m x => aremove x m) diff (look_fold ncl (d_look d))).
Proof.
  intros ncl diff rc b d Hrc. unfold switch_l. cbn [app]. rewrite applyl_cons, applyl_app.
  set (d0 := apply_write rc d).
  assert (R : sameS d d0 /\ d_canon d0 = d_canon d /\ d_look d0 = d_look d).
  { unfold d0. destruct Hrc as [->|[h ->]]; simpl; repeat split; auto. }
  destruct R as [S0 [C0 L0]].
  destruct (stage_blocks_fields ncl d0) as [S1 [C1 L1]]. cbv zeta in *.
  set (d1 := applyl (map stage_block ncl) d0) in *.
  rewrite !applyl_cons.
  destruct (unlook_fields diff d1) as [S2 [C2 [H2 L2]]]. cbv zeta in *.
  set (d2 := apply_write (map WUnlook diff) d1) in *.
  destruct (look_batch_fields (btxs b) (bid b) d2) as [S3 [C3 [H3 L3]]]. cbv zeta in *.
  set (d3 := apply_write (map (fun tx => WLook tx (bid b)) (btxs b)) d2) in *.
  simpl. split; [|split; [|split]].
  - eapply sameS_trans; [|repeat split; reflexivity].
    eapply sameS_trans; [exact S0|]. eapply sameS_trans; [exact S1|]. eapply sameS_trans; [exact S2|exact S3].
  - reflexivity.
  - rewrite C3, C2, C1, C0. reflexivity.
  - rewrite L3, L2, L1, L0. reflexivity.
Qed.

(* the batch WriteBlockWithState writes is the concatenation of these pieces *)
Lemma switch_batch_concat : forall ncl diff rc b,
  rc ++ (flat_map stage_block ncl ++ map WUnlook diff) ++ map (fun tx => WLook tx (bid b)) (btxs b) ++ stage_head b
  = concat (switch_l ncl diff rc b).
Proof.
  intros. unfold switch_l. rewrite concat_app. cbn [concat]. rewrite app_nil_r.
  rewrite concat_app. cbn [concat]. rewrite app_nil_r. rewrite <- flat_map_concat_map.
  rewrite <- !app_assoc. reflexivity.
Qed.

(* ---- shape of the batch ------------------------------------------------------------------ *)

Definition win_write_ok (bs : list block) (w : write) : Prop :=
  forallb soft_ew w = true \/
  (exists x, In x bs /\ w = stage_head x).

Lemma forallb_soft_look : forall txs h, forallb soft_ew (map (fun tx => WLook tx h) txs) = true.
Proof. induction txs; simpl; auto. Qed.

Lemma forallb_soft_unlook : forall diff, forallb soft_ew (map WUnlook diff) = true.
Proof. induction diff; simpl; auto. Qed.

(* pieces, refined: stage_block x = stage_head x ++ lookups *)
Definition switch_l2 (ncl : list block) (diff : list N) (rc : write) (b : block) : list write :=
  [rc] ++ flat_map (fun x => [stage_head x; map (fun tx => WLook tx (bid x)) (btxs x)]) ncl
       ++ [map WUnlook diff; map (fun tx => WLook tx (bid b)) (btxs b); stage_head b].

Lemma switch_l2_concat : forall ncl diff rc b, concat (switch_l2 ncl diff rc b) = concat (switch_l ncl diff rc b).
Proof.
  intros. unfold switch_l2, switch_l. rewrite !concat_app. f_equal. f_equal.
  induction ncl as [|x l IH]; auto. cbn [flat_map map]. rewrite concat_app. cbn [concat]. rewrite IH.
  unfold stage_block. rewrite app_nil_r, <- app_assoc. reflexivity.
Qed.

Lemma switch_l2_shape : forall ncl diff rc b bs, rc_ok rc -> incl ncl bs -> In b bs ->
  forall w, In w (switch_l2 ncl diff rc b) -> win_write_ok bs w.
Proof.
  intros ncl diff rc b bs Hrc Hi Hb w Hw. unfold switch_l2 in Hw.
  apply in_app_or in Hw. destruct Hw as [[<-|[]]|Hw].
  - left. destruct Hrc as [->|[h ->]]; reflexivity.
  - apply in_app_or in Hw. destruct Hw as [Hw|Hw].
    + apply in_flat_map in Hw. destruct Hw as [x [Hx [<-|[<-|[]]]]].
      * right. exists x. split; auto.
      * left. apply forallb_soft_look.
    + simpl in Hw. destruct Hw as [<-|[<-|[<-|[]]]].
      * left. apply forallb_soft_unlook.
      * left. apply forallb_soft_look.
      * right. exists b; auto.
Qed.
