(* C11 - the concrete writes of WriteBlock / WriteBlockWithState: their effect on
   the fields, their shape, and the preservation of the node invariant J under
   any write budget. *)
From VF.C11 Require Import Model ProofsA ProofsB ProofsC ProofsD.
From Coq Require Import Lia ZifyBool ZifyN ZifyNat.
Local Open Scope N_scope.

(* ---- field effects ------------------------------------------------------------------ *)

Definition sameS (d d' : disk) : Prop :=
  d_body d' = d_body d /\ d_hnum d' = d_hnum d /\ d_hdr d' = d_hdr d /\ d_state d' = d_state d.

Lemma sameS_refl : forall d, sameS d d.
Proof. intros; repeat split; auto. Qed.

Lemma sameS_trans : forall a b c, sameS a b -> sameS b c -> sameS a c.
Proof. intros a b c [A1 [A2 [A3 A4]]] [B1 [B2 [B3 B4]]]; repeat split; congruence. Qed.

Lemma applyl_cons : forall w ws d, applyl (w :: ws) d = applyl ws (apply_write w d).
Proof. reflexivity. Qed.

Lemma look_ws_fields : forall txs h d,
  let d' := applyl (map snd (look_ws txs h)) d in
  sameS d d' /\ d_canon d' = d_canon d /\ d_headB d' = d_headB d /\
  d_look d' = fold_left (fun m tx => aset tx h m) txs (d_look d).
Proof.
  induction txs as [|a txs IH]; intros h d; cbn [look_ws map fold_left snd].
  - simpl. repeat split; auto.
  - rewrite applyl_cons. fold (look_ws txs h). destruct (IH h (apply_write [WLook a h] d)) as [S [C [H L]]].
    cbv zeta in *. split; [|split; [|split]].
    + eapply sameS_trans; [|exact S]. repeat split; auto.
    + rewrite C; auto.
    + rewrite H; auto.
    + rewrite L; auto.
Qed.

Lemma reorg_ws_fields : forall l d,
  let d' := applyl (map snd (reorg_ws l)) d in
  sameS d d' /\ d_canon d' = canon_fold l (d_canon d) /\ d_look d' = look_fold l (d_look d).
Proof.
  induction l as [|x l IH]; intros d.
  - simpl. repeat split; auto.
  - cbn [reorg_ws flat_map]. rewrite map_app, applyl_app. rewrite map_app, applyl_app.
    set (d1 := applyl (map snd (head_ws true x)) d).
    destruct (look_ws_fields (btxs x) (bid x) d1) as [S1 [C1 [H1 L1]]]. cbv zeta in *.
    set (d2 := applyl (map snd (look_ws (btxs x) (bid x))) d1) in *.
    destruct (IH d2) as [S2 [C2 L2]]. cbv zeta in *.
    fold (reorg_ws l).
    split; [|split].
    + eapply sameS_trans; [|exact S2]. eapply sameS_trans; [|exact S1]. repeat split; auto.
    + rewrite C2, C1. reflexivity.
    + rewrite L2, L1. reflexivity.
Qed.

Definition window_ws (ncl : list block) (diff : list N) (rc : write) (b : block) : list (bool * write) :=
  reorg_ws ncl ++ [(true, map WUnlook diff); (true, rc ++ map (fun tx => WLook tx (bid b)) (btxs b))] ++ head_ws false b.

Lemma unlook_fields : forall diff d,
  let d' := apply_write (map WUnlook diff) d in
  sameS d d' /\ d_canon d' = d_canon d /\ d_headB d' = d_headB d /\
  d_look d' = fold_left (fun m x => aremove x m) diff (d_look d).
Proof.
  induction diff as [|a diff IH]; intros d; cbn [map fold_left].
  - simpl. repeat split; auto.
  - rewrite apply_write_cons. destruct (IH (apply_ew (WUnlook a) d)) as [S [C [H L]]]. cbv zeta in *.
    split; [|split; [|split]].
    + eapply sameS_trans; [|exact S]. repeat split; auto.
    + rewrite C; auto.
    + rewrite H; auto.
    + rewrite L; auto.
Qed.

Lemma look_batch_fields : forall txs h d,
  let d' := apply_write (map (fun tx => WLook tx h) txs) d in
  sameS d d' /\ d_canon d' = d_canon d /\ d_headB d' = d_headB d /\
  d_look d' = fold_left (fun m tx => aset tx h m) txs (d_look d).
Proof.
  induction txs as [|a txs IH]; intros h d; cbn [map fold_left].
  - simpl. repeat split; auto.
  - rewrite apply_write_cons. destruct (IH h (apply_ew (WLook a h) d)) as [S [C [H L]]]. cbv zeta in *.
    split; [|split; [|split]].
    + eapply sameS_trans; [|exact S]. repeat split; auto.
    + rewrite C; auto.
    + rewrite H; auto.
    + rewrite L; auto.
Qed.

Definition rc_ok (rc : write) : Prop := rc = [] \/ exists h, rc = [WRcpt h].

Lemma window_fields : forall ncl diff rc b d, rc_ok rc ->
  let d' := applyl (map snd (window_ws ncl diff rc b)) d in
  sameS d d' /\ d_headB d' = bid b /\
  d_canon d' = aset (bnum b) (bid b) (canon_fold ncl (d_canon d)) /\
  d_look d' = fold_left (fun m tx => aset tx (bid b) m) (btxs b)
                (fold_left (fun m x => aremove x m) diff (look_fold ncl (d_look d))).
Proof.
  intros ncl diff rc b d Hrc. unfold window_ws. rewrite map_app, applyl_app.
  destruct (reorg_ws_fields ncl d) as [S1 [C1 L1]]. cbv zeta in *.
  set (d1 := applyl (map snd (reorg_ws ncl)) d) in *.
  cbn [map snd app]. rewrite !applyl_cons.
  destruct (unlook_fields diff d1) as [S2 [C2 [H2 L2]]]. cbv zeta in *.
  set (d2 := apply_write (map WUnlook diff) d1) in *.
  rewrite apply_write_app.
  set (d3 := apply_write rc d2).
  assert (R : sameS d2 d3 /\ d_canon d3 = d_canon d2 /\ d_headB d3 = d_headB d2 /\ d_look d3 = d_look d2).
  { unfold d3. destruct Hrc as [->|[h ->]]; simpl; repeat split; auto. }
  destruct R as [S3 [C3 [H3 L3]]].
  destruct (look_batch_fields (btxs b) (bid b) d3) as [S4 [C4 [H4 L4]]]. cbv zeta in *.
  set (d4 := apply_write (map (fun tx => WLook tx (bid b)) (btxs b)) d3) in *.
  simpl. split; [|split; [|split]].
  - eapply sameS_trans; [|repeat split; reflexivity].
    eapply sameS_trans; [exact S1|]. eapply sameS_trans; [exact S2|]. eapply sameS_trans; [exact S3|exact S4].
  - reflexivity.
  - rewrite C4, C3, C2, C1. reflexivity.
  - rewrite L4, L3, L2, L1. reflexivity.
Qed.

(* ---- shape of the window ---------------------------------------------------------------- *)

(* every write of a window is "soft", or sets a canonical entry / the head-block
   marker for one of the listed blocks *)
Definition win_write_ok (bs : list block) (w : write) : Prop :=
  forallb soft_ew w = true \/
  (exists x, In x bs /\ w = [WCanon (bnum x) (bid x)]) \/
  (exists x, In x bs /\ w = [WHeadB (bid x)]).

Lemma forallb_soft_look : forall txs h, forallb soft_ew (map (fun tx => WLook tx h) txs) = true.
Proof. induction txs; simpl; auto. Qed.

Lemma forallb_soft_unlook : forall diff, forallb soft_ew (map WUnlook diff) = true.
Proof. induction diff; simpl; auto. Qed.

Lemma reorg_ws_shape : forall l bs, incl l bs -> forall w, In w (map snd (reorg_ws l)) -> win_write_ok bs w.
Proof.
  induction l as [|x l IH]; intros bs Hi w Hw; simpl in Hw; [contradiction|].
  assert (Hx : In x bs) by (apply Hi; left; auto).
  destruct Hw as [<-|[<-|[<-|Hw]]].
  - left; reflexivity.
  - right; left; exists x; auto.
  - right; right; exists x; auto.
  - rewrite map_app in Hw. apply in_app_or in Hw. destruct Hw as [Hw|Hw].
    + unfold look_ws in Hw. rewrite map_map in Hw. apply in_map_iff in Hw. destruct Hw as [tx [<- _]]. left; reflexivity.
    + apply IH; auto. intros y Hy; apply Hi; right; auto.
Qed.

Lemma window_ws_shape : forall ncl diff rc b bs, rc_ok rc -> incl ncl bs -> In b bs ->
  forall w, In w (map snd (window_ws ncl diff rc b)) -> win_write_ok bs w.
Proof.
  intros ncl diff rc b bs Hrc Hi Hb w Hw. unfold window_ws in Hw. rewrite map_app in Hw.
  apply in_app_or in Hw. destruct Hw as [Hw|Hw]; [eapply reorg_ws_shape; eauto|].
  simpl in Hw. destruct Hw as [<-|[<-|[<-|[<-|[<-|[]]]]]].
  - left. apply forallb_soft_unlook.
  - left. rewrite forallb_app, forallb_soft_look. destruct Hrc as [->|[h ->]]; reflexivity.
  - left; reflexivity.
  - right; left; exists b; auto.
  - right; right; exists b; auto.
Qed.

Lemma reorg_ws_flags : forall l mw, In mw (reorg_ws l) -> fst mw = true.
Proof.
  induction l as [|x l IH]; intros mw H; simpl in H; [contradiction|].
  destruct H as [<-|[<-|[<-|H]]]; auto.
  apply in_app_or in H. destruct H as [H|H]; auto.
  unfold look_ws in H. apply in_map_iff in H. destruct H as [tx [<- _]]; auto.
Qed.

(* the only write of a window whose completion leaves the node outside the switch
   is the last one *)
Lemma window_ws_last : forall ncl diff rc b pre w post,
  window_ws ncl diff rc b = pre ++ (false, w) :: post -> post = [].
Proof.
  intros ncl diff rc b pre w post E.
  assert (Hall : forall mw, In mw (removelast (window_ws ncl diff rc b)) -> fst mw = true).
  { unfold window_ws. intros mw H.
    replace (reorg_ws ncl ++ [(true, map WUnlook diff); (true, rc ++ map (fun tx => WLook tx (bid b)) (btxs b))] ++ head_ws false b)
      with ((reorg_ws ncl ++ [(true, map WUnlook diff); (true, rc ++ map (fun tx => WLook tx (bid b)) (btxs b));
                              (true, [WHeadH (bid b)]); (true, [WCanon (bnum b) (bid b)])]) ++ [(false, [WHeadB (bid b)])]) in H
      by (rewrite <- app_assoc; reflexivity).
    rewrite removelast_last in H. apply in_app_or in H. destruct H as [H|H].
    - eapply reorg_ws_flags; eauto.
    - simpl in H. destruct H as [<-|[<-|[<-|[<-|[]]]]]; auto. }
  destruct post as [|p post]; auto. exfalso.
  rewrite E in Hall.
  assert (In (false, w) (removelast (pre ++ (false, w) :: p :: post))).
  { rewrite removelast_app; [|discriminate]. apply in_or_app. right.
    simpl. left; auto. }
  apply Hall in H. discriminate.
Qed.

Section Prim.
Variable t : tree.
Variable g : block.
Hypothesis Hg : info t (bid g) = Some g.
Hypothesis Hg0 : bnum g = 0.

Notation DInv := (DInv t g).
Notation Qd := (Qd t).
Notation J := (J t g).

Lemma J_same : forall s s', same s s' -> J s -> (alive s' -> cur s' = cur s) -> J s'.
Proof.
  intros s s' [A B C] [HD [HA HX]] Hc. unfold ProofsB.J, alive in *. rewrite <- A, <- B, <- C.
  split; auto. split; auto.
  intros Ha. destruct (HA Ha) as [H1 [H2 H3]]. split; auto. split; auto.
  rewrite <- H3. apply Hc. rewrite <- B; auto.
Qed.

(* ---- WriteBlock --------------------------------------------------------------------------- *)

Definition block_ws (b : block) : list (bool * write) :=
  [(false, [WBody (bid b)]); (false, [WHNum (bid b)]); (false, [WHdr (bid b)])].

Lemma write_block_wrs : forall b s, write_block b s = wrs (block_ws b) s.
Proof. reflexivity. Qed.

(* what a caller may keep across added blocks/states *)
Definition ext (d d' : disk) : Prop :=
  incl (d_hdr d) (d_hdr d') /\ incl (d_body d) (d_body d') /\ incl (d_state d) (d_state d') /\
  d_canon d' = d_canon d /\ d_look d' = d_look d /\ d_headB d' = d_headB d.

Lemma ext_refl : forall d, ext d d.
Proof. intros; repeat split; auto using incl_refl. Qed.

Lemma ext_trans : forall a b c, ext a b -> ext b c -> ext a c.
Proof.
  intros a b c [A1 [A2 [A3 [A4 [A5 A6]]]]] [B1 [B2 [B3 [B4 [B5 B6]]]]].
  repeat split; try congruence; eapply incl_tran; eauto.
Qed.

Lemma ext_add_ew : forall e d, add_ew e = true -> ext d (apply_ew e d).
Proof.
  intros [] d H; simpl in H; try discriminate; repeat split; simpl; auto using incl_refl;
    intros x Hx; apply In_addN; auto.
Qed.

Lemma J_write_block : forall b s, J s ->
  info t (bid b) = Some b -> goodish b -> bnum b <> 0 -> In (bpar b) (d_hdr (disk_of s)) ->
  (exists p, info t (bpar b) = Some p /\ bnum p + 1 = bnum b) ->
  J (write_block b s) /\ ext (disk_of s) (disk_of (write_block b s)) /\
  (alive (write_block b s) -> In (bid b) (d_hdr (disk_of (write_block b s)))) /\
  cur (write_block b s) = cur s.
Proof.
  intros b s [HD [HA HX]] Hinfo Hgd Hn0 Hpar Hp.
  rewrite write_block_wrs.
  set (d0 := disk_of s).
  (* along every prefix: DInv, extension of d0, and Qd if it held *)
  assert (Hpre : forall pre w post, map snd (block_ws b) = pre ++ w :: post ->
            (pre = [] /\ w = [WBody (bid b)]) \/ (pre = [[WBody (bid b)]] /\ w = [WHNum (bid b)]) \/
            (pre = [[WBody (bid b)]; [WHNum (bid b)]] /\ w = [WHdr (bid b)])).
  { intros pre w post E. simpl in E.
    destruct pre as [|p1 pre]; simpl in E; [inversion E; auto|].
    destruct pre as [|p2 pre]; simpl in E; [inversion E; auto|].
    destruct pre as [|p3 pre]; simpl in E; [inversion E; auto 6|].
    inversion E. destruct pre; discriminate. }
  assert (HP : DInv (disk_of (wrs (block_ws b) s)) /\ ext d0 (disk_of (wrs (block_ws b) s))).
  { apply (wrs_inv (fun d => DInv d /\ ext d0 d)).
    - split; auto. apply ext_refl.
    - intros pre w post E [PD PE]. destruct (Hpre pre w post E) as [[-> ->]|[[-> ->]|[-> ->]]];
        cbn [applyl apply_write fold_left] in *.
      + split; [apply DInv_body; auto|]. eapply ext_trans; [exact PE|]. apply (ext_add_ew (WBody (bid b))); auto.
      + split; [apply DInv_hnum; auto|]. eapply ext_trans; [exact PE|]. apply (ext_add_ew (WHNum (bid b))); auto.
      + split; [|eapply ext_trans; [exact PE|]; apply (ext_add_ew (WHdr (bid b))); auto].
        destruct PE as [PE1 _].
        apply DInv_hdr; auto; simpl.
        * apply In_addN; auto.
        * apply In_addN; auto. }
  destruct HP as [HPD HPE]. split; [|split; [exact HPE|split]].
  - unfold ProofsB.J. split; auto. split.
    + intros Ha. pose proof (wrs_alive_back _ _ Ha) as Ha0. destruct (HA Ha0) as [Hb0 [HQ Hc]].
      assert (Ed : disk_of (wrs (block_ws b) s) =
                   apply_ew (WHdr (bid b)) (apply_ew (WHNum (bid b)) (apply_ew (WBody (bid b)) d0))).
      { rewrite wrs_alive_disk; auto. }
      rewrite Ed, wrs_cur. split; [|split].
      * intros h Hh. simpl in *. apply In_addN. apply In_addN in Hh. destruct Hh as [->|Hh]; auto.
      * apply (Qd_add t (WHdr (bid b))); auto. apply (Qd_add t (WHNum (bid b))); auto. apply (Qd_add t (WBody (bid b))); auto.
      * simpl. exact Hc.
    + intros Hd Hm. destruct (alive_dec s) as [Ha0|Hd0].
      * destruct (HA Ha0) as [Hb0 [HQ Hc]].
        apply (wrs_inv (fun d => Qd d)); auto.
        intros pre w post E PQ. destruct (Hpre pre w post E) as [[-> ->]|[[-> ->]|[-> ->]]];
          cbn [applyl apply_write fold_left] in *; apply (Qd_add t); auto.
      * rewrite wrs_dead in *; auto.
  - intros Ha. rewrite wrs_alive_disk; auto. simpl. apply In_addN; auto.
  - apply wrs_cur.
Qed.

End Prim.
