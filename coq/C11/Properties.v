(* C11 - property theorems only.  Each is closed by [exact] of a lemma of the
   Proofs files (or, for witnesses, by computation) and followed by
   Print Assumptions.

   Setting.  [t] is any list of blocks (ids = hashes, parent ids, numbers, state
   roots, transaction ids, header class, body class - all arbitrary), [g] its
   genesis.  [run t fuel (init_st g) hist] is the node after the batches [hist]
   were offered to InsertChain one after the other (any batches: in order, out of
   order, duplicated, invalid, competing forks, blocks unknown to the tree are
   dropped by [blocks_of]); [fuel] bounds the insertChain/insertSidechain
   recursion and is arbitrary.  [crash_run t fuel s batch k] is the import of
   [batch] killed after its k-th database write; [recover] is NewBlockChain's
   loadLastState/repair on the database left behind.  [crashmid] tells whether
   the last write that reached the disk was an inner write of a head switch
   (receipt/lookup batch, reorg's marker and lookup writes, the head-header and
   canonical-number writes of insert) - the finding class
   fixes/C11_head_switch_not_atomic.md. *)
From VF.C11 Require Import Model ProofsA ProofsB ProofsC ProofsD ProofsE ProofsF ProofsG ProofsH ProofsI.
Local Open Scope N_scope.

Definition wf (t : tree) (g : block) : Prop :=
  info t (bid g) = Some g /\ bnum g = 0 /\ info t 0 = None /\ good_block g = true.

(* ---- the property at full strength (reference statements) --------------------------------- *)

(* imports: after any history the database is consistent (all four clauses) and
   the running node's head is the database's head *)
Definition C11_import_full : Prop :=
  forall t g fuel hist, wf t g ->
    let s := run t fuel (init_st g) hist in
    consistent_b t (disk_of s) (d_headB (disk_of s)) = true /\ (budget s = None -> cur s = d_headB (disk_of s)).

(* crashes: whatever write the process dies after, the restart succeeds with a consistent chain *)
Definition C11_crash_full : Prop :=
  forall t g fuel hist batch k, wf t g ->
    let s0 := run t fuel (init_st g) hist in
    budget s0 = None ->
    exists d h, recover t (disk_of (crash_run t fuel s0 batch k)) = Some (d, h) /\ consistent_b t d h = true.

(* not wedged: interrupted batch again + one further good block on the crash-free
   head = the head of the node that never crashed *)
Definition C11_not_wedged_full : Prop :=
  forall t g fuel hist batch k f, wf t g ->
    let s0 := run t fuel (init_st g) hist in
    budget s0 = None ->
    let free := fst (InsertChain t fuel s0 (blocks_of t batch)) in
    info t (bid f) = Some f -> good_block f = true -> bpar f = cur free -> budget free = None ->
    forall d h, recover t (disk_of (crash_run t fuel s0 batch k)) = Some (d, h) ->
      let again := fst (InsertChain t fuel (fresh d h) (blocks_of t batch)) in
      budget again = None /\
      cur (fst (InsertChain t fuel again [f])) = cur (fst (InsertChain t fuel free [f])).

(* ---- imports ---------------------------------------------------------------------------------- *)

(* Clauses 1-3 after ANY history, over any tree: the number->hash index from the
   genesis to the head is a parent-linked chain of stored blocks ending in the
   head, the head's state is on disk, every lookup entry points to a canonical
   block at or below the head that contains the transaction; and the running
   node's head is the head marker (if no import panicked). *)
Theorem C11_import_chain_consistent :
  forall t g fuel hist, wf t g ->
    let s := run t fuel (init_st g) hist in
    chain_consistent_b t (disk_of s) (d_headB (disk_of s)) = true /\
    (budget s = None -> cur s = d_headB (disk_of s)).
Proof. intros t g fuel hist [A [B [C D]]]. exact (import_consistent t g A B D fuel hist). Qed.
Print Assumptions C11_import_chain_consistent.

(* Clause 4 outside the finding class "the tree contains a block with a bad header
   signature" (fixes/C11_side_chain_skips_signature_check.md): no block that fails
   the consensus-field, body or state check is ever in the canonical index - not
   even above the head. *)
Theorem C11_import_no_invalid_canonical_holds_outside :
  forall t g fuel hist, wf t g -> (forall h b, info t h = Some b -> bhv b <> 1) ->
    canon_good t (disk_of (run t fuel (init_st g) hist)) = true.
Proof. intros t g fuel hist [A [B [C D]]] Hnb. exact (import_canon_good t g A B D fuel hist Hnb). Qed.
Print Assumptions C11_import_no_invalid_canonical_holds_outside.

(* the witness inside the class: X1 (id 4) has the state of canonical Y1, S2 (id 5)
   is an empty child with a bad signature stored by the side-chain path, C3 (id 6)
   imports on top of it and reorg makes 4,5,6 canonical *)
Definition w4_tree : tree :=
  [mkB 1 0 0 1 [] 0 0; mkB 2 1 1 2 [1] 0 0; mkB 3 2 2 3 [2] 0 0;
   mkB 4 1 1 2 [1] 0 0; mkB 5 4 2 2 [] 1 0; mkB 6 5 3 2 [] 0 0].
Theorem C11_import_refuted : ~ C11_import_full.
Proof.
  intros H. specialize (H w4_tree (mkB 1 0 0 1 [] 0 0) 6%nat [[2;3];[4;5];[6]]).
  assert (Hwf : wf w4_tree (mkB 1 0 0 1 [] 0 0)) by (repeat split; reflexivity).
  destruct (H Hwf) as [E _]. vm_compute in E. discriminate.
Qed.
Print Assumptions C11_import_refuted.

(* ---- crashes ------------------------------------------------------------------------------------- *)

(* At EVERY crash point of every import after every history the restart succeeds
   (NewBlockChain returns a node: genesis found, head block found, repair terminates). *)
Theorem C11_restart_succeeds :
  forall t g fuel hist batch k, wf t g ->
    let s0 := run t fuel (init_st g) hist in
    budget s0 = None ->
    exists d h, recover t (disk_of (crash_run t fuel s0 batch k)) = Some (d, h).
Proof. intros t g fuel hist batch k [A [B [C D]]]. exact (restart_succeeds t g A B D fuel hist batch k). Qed.
Print Assumptions C11_restart_succeeds.

(* At every crash point that is not an inner write of a head switch the restarted
   node is consistent (clauses 1-3; clause 4 outside the bad-signature class). *)
Theorem C11_crash_consistent_outside_head_switch :
  forall t g fuel hist batch k, wf t g ->
    let s0 := run t fuel (init_st g) hist in
    let sk := crash_run t fuel s0 batch k in
    budget s0 = None -> crashmid sk = false ->
    exists d h, recover t (disk_of sk) = Some (d, h) /\ chain_consistent_b t d h = true /\
                ((forall x b, info t x = Some b -> bhv b <> 1) -> canon_good t d = true).
Proof. intros t g fuel hist batch k [A [B [C D]]]. exact (crash_consistent_outside t g A B C D fuel hist batch k). Qed.
Print Assumptions C11_crash_consistent_outside_head_switch.

(* No crash point at all puts an invalid block into the index (outside the bad-signature class). *)
Theorem C11_crash_no_invalid_canonical :
  forall t g fuel hist batch k, wf t g ->
    let s0 := run t fuel (init_st g) hist in
    budget s0 = None -> (forall x b, info t x = Some b -> bhv b <> 1) ->
    canon_good t (disk_of (crash_run t fuel s0 batch k)) = true.
Proof. intros t g fuel hist batch k [A [B [C D]]]. exact (crash_canon_good t g A B D fuel hist batch k). Qed.
Print Assumptions C11_crash_no_invalid_canonical.

(* inside the head switch the statement is false: one block with one transaction,
   killed after the receipt/lookup batch (5th write) *)
Definition w1_tree : tree := [mkB 1 0 0 1 [] 0 0; mkB 2 1 1 2 [1] 0 0].
Theorem C11_crash_refuted : ~ C11_crash_full.
Proof.
  intros H. specialize (H w1_tree (mkB 1 0 0 1 [] 0 0) 6%nat [] [2] 5%nat).
  assert (Hwf : wf w1_tree (mkB 1 0 0 1 [] 0 0)) by (repeat split; reflexivity).
  destruct (H Hwf eq_refl) as [d [h [E1 E2]]].
  vm_compute in E1. inversion E1; subst. vm_compute in E2. discriminate.
Qed.
Print Assumptions C11_crash_refuted.

(* ---- not wedged: refuted in both windows --------------------------------------------------------- *)

(* head switch: G-A1-A2-A3, batch [A1,B2], killed after WriteCanonicalHash(2,B2):
   the restarted node stays on A3 while the crash-free node is on B2's child *)
Definition w2_tree : tree :=
  [mkB 1 0 0 1 [] 0 0; mkB 2 1 1 1 [] 0 0; mkB 3 2 2 1 [] 0 0; mkB 4 3 3 1 [] 0 0;
   mkB 5 2 2 2 [1;2] 0 0; mkB 7 5 3 2 [] 0 0].
Theorem C11_not_wedged_refuted : ~ C11_not_wedged_full.
Proof.
  intros H. specialize (H w2_tree (mkB 1 0 0 1 [] 0 0) 6%nat [[2;3;4]] [2;5] 6%nat (mkB 7 5 3 2 [] 0 0)).
  assert (Hwf : wf w2_tree (mkB 1 0 0 1 [] 0 0)) by (repeat split; reflexivity).
  specialize (H Hwf eq_refl eq_refl eq_refl eq_refl eq_refl).
  match type of H with forall d h, ?r = _ -> _ => remember r as rr eqn:Er end.
  vm_compute in Er. subst rr.
  specialize (H _ _ eq_refl). destruct H as [_ E]. vm_compute in E. discriminate.
Qed.
Print Assumptions C11_not_wedged_refuted.

(* block write (fixes/C11_block_write_not_atomic.md): killed after WriteBody of a
   side-chain block, the batch offered again ends in the nil dereference of
   insertSidechain (EPanic), and the process is dead *)
Definition w3_tree : tree :=
  [mkB 1 0 0 1 [] 0 0; mkB 2 1 1 2 [1;2] 0 0; mkB 3 2 2 2 [] 0 0; mkB 4 1 1 3 [1] 0 0].
Theorem C11_body_without_header_panics :
  let g := mkB 1 0 0 1 [] 0 0 in
  let s0 := run w3_tree 6 (init_st g) [[4]] in
  let sk := crash_run w3_tree 6 s0 [2;3] 1 in
  crashmid sk = false /\
  match recover w3_tree (disk_of sk) with
  | Some (d, h) =>
    snd (InsertChain w3_tree 6 (fresh d h) (blocks_of w3_tree [2;3])) = EPanic /\
    budget (fst (InsertChain w3_tree 6 (fresh d h) (blocks_of w3_tree [2;3]))) = Some O
  | None => False
  end.
Proof. vm_compute. split; [reflexivity|]. split; reflexivity. Qed.
Print Assumptions C11_body_without_header_panics.

(* ---- non-vacuity ------------------------------------------------------------------------------------ *)

(* a history with a stored side chain that is later adopted (reorg over two blocks),
   transactions whose lookups move, and the old branch offered again *)
Definition ex_tree : tree :=
  [mkB 1 0 0 1 [] 0 0; mkB 2 1 1 2 [1] 0 0; mkB 3 2 2 2 [] 0 0; mkB 4 3 3 3 [2;3] 0 0;
   mkB 5 2 2 4 [4] 0 0; mkB 6 5 3 4 [] 0 0; mkB 7 6 4 4 [] 0 0; mkB 8 1 1 9 [5] 2 0].
Definition ex_g : block := mkB 1 0 0 1 [] 0 0.
Definition ex_hist : list (list N) := [[2;3;4]; [5;6]; [8]; [5;6;7]; [2;5]; [3;4]].

Example C11_nonvacuous_import :
  wf ex_tree ex_g /\ (forall h b, info ex_tree h = Some b -> bhv b <> 1) /\
  let s := run ex_tree 6 (init_st ex_g) ex_hist in
  budget s = None /\ cur s = 7 /\ d_canon (disk_of s) = [(4, 7); (3, 6); (2, 5); (1, 2); (0, 1)] /\
  d_look (disk_of s) = [(4, 5); (1, 2)] /\ consistent_b ex_tree (disk_of s) (cur s) = true.
Proof.
  split; [repeat split; reflexivity|]. split.
  - intros h b H. unfold ex_tree in H. simpl in H.
    repeat (match type of H with (if ?c then _ else _) = _ => destruct c end; [inversion H; subst; simpl; discriminate|]).
    discriminate.
  - vm_compute. repeat split; reflexivity.
Qed.
Print Assumptions C11_nonvacuous_import.

(* crash points of the reorganising import: write 7 (the state commit of block 5)
   is outside the switch and restarts consistent on the old head 4; write 9
   (WriteCanonicalHash(2,5) inside reorg) is inside it and restarts with head 4
   but canonical[2] = 5 *)
Example C11_nonvacuous_crash :
  let s0 := run ex_tree 6 (init_st ex_g) [[2;3;4]; [5;6]] in
  budget s0 = None /\
  crashmid (crash_run ex_tree 6 s0 [5;6;7] 7) = false /\
  match recover ex_tree (disk_of (crash_run ex_tree 6 s0 [5;6;7] 7)) with
  | Some (d, h) => h = 4 /\ consistent_b ex_tree d h = true
  | None => False
  end /\
  crashmid (crash_run ex_tree 6 s0 [5;6;7] 9) = true /\
  match recover ex_tree (disk_of (crash_run ex_tree 6 s0 [5;6;7] 9)) with
  | Some (d, h) => h = 4 /\ chain_consistent_b ex_tree d h = false
  | None => False
  end.
Proof. vm_compute. repeat split; reflexivity. Qed.
Print Assumptions C11_nonvacuous_crash.
