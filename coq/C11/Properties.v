(* C11 - property theorems only.  Each is closed by [exact] of a lemma of the
   Proofs files and followed by Print Assumptions.

   Setting.  [t] is any list of blocks (ids = hashes, parent ids, numbers, state
   roots, transaction ids, header class, body class - all arbitrary), [g] its
   genesis.  [run t fuel (init_st g) hist] is the node after the batches [hist]
   were offered to InsertChain one after the other (any batches: in order, out of
   order, duplicated, invalid, competing forks; ids unknown to the tree are
   dropped by [blocks_of]); [fuel] bounds the insertChain/insertSidechain
   recursion and is arbitrary.  [crash_run t fuel s batch k] is the import of
   [batch] killed after its k-th database write (a block batch, a state commit or
   a head-switch batch); [recover] is NewBlockChain's loadLastState/repair on the
   database left behind; [fresh d h] the restarted node.
   The model follows /repo after the repairs dee6410 (block written in one batch),
   2b21c7f (head switch in one batch), 3eba51b (side chain checks the signature),
   599b875 (verifyAllSideChainBlocks stores each fork block once it is verified),
   0702a5f (a block already canonical at or below the head does not become the head again),
   d4052ba (side-chain verification compares the transaction root). *)
From VF.C11 Require Import Model ProofsA ProofsB ProofsC ProofsD ProofsE ProofsF ProofsG ProofsH ProofsI ProofsJ ProofsK ProofsL ProofsM Bridge.
From VF.gen Require Import C11Calls.
Local Open Scope N_scope.

Definition wf (t : tree) (g : block) : Prop :=
  info t (bid g) = Some g /\ bnum g = 0 /\ info t 0 = None /\ good_block g = true.

(* ---- bridge: the atomic writes the model assumes are the batch operations of the code ------ *)

(* The inventory of batch operations (NewBatch / Write / Reset / ValueSize) in
   InsertChain, insertChain, insertSidechain, verifyAllSideChainBlocks,
   WriteBlockWithoutState, WriteBlockWithState, reorg, stageHead, adoptHead, insert,
   updateHeadBlock is regenerated from /repo's core/blockchain.go on every run: a
   block is written by one Write, the head switch (receipts, reorg's canonical
   entries, lookups and lookup deletions, head markers) by one Write; there is no
   Reset and no ValueSize test - no size-dependent flush - anywhere on that path. *)
Theorem C11_batch_call_inventory : c11_calls = c11_expected_calls.
Proof. exact batch_call_inventory. Qed.
Print Assumptions C11_batch_call_inventory.

(* [head_switch_one_write_stmt] (Bridge.v): no Reset, no ValueSize and no missing function
   anywhere in the inventory; no Write in reorg, stageHead, adoptHead, insertChain,
   insertSidechain, verifyAllSideChainBlocks; one Write in WriteBlockWithoutState; three in
   WriteBlockWithState (block batch, receipts-only early return, head switch) on two batches *)
Theorem C11_head_switch_is_one_write : head_switch_one_write_stmt.
Proof. exact head_switch_is_one_write. Qed.
Print Assumptions C11_head_switch_is_one_write.

(* ---- imports ---------------------------------------------------------------------------------- *)

(* After ANY history over any tree: the number->hash index from the genesis to the
   head is a parent-linked chain of stored blocks ending in the head, the head's
   state is on disk, every lookup entry points to a canonical block at or below the
   head that contains the transaction; and the running node's head is the
   database's head marker (if no import panicked). *)
Theorem C11_import_consistent :
  forall t g fuel hist, wf t g ->
    let s := run t fuel (init_st g) hist in
    consistent_b t (disk_of s) (d_headB (disk_of s)) = true /\
    (budget s = None -> cur s = d_headB (disk_of s)).
Proof. intros t g fuel hist [A [B [C D]]]. exact (import_consistent t g A B D fuel hist). Qed.
Print Assumptions C11_import_consistent.

(* ONLY VALID BLOCKS ARE CANONICAL - over all histories and at every crash point of
   every import: every entry of the number index (stale ones above the head
   included) is a block with a good signature, a good consensus field, a body that
   matches the header's transaction root and executes to the header's
   state/receipt/bloom/gas.  Block validity is checked on every dispatch path of the
   model (plain, known, ErrExistCanonical at index 0 -> side chain -> handed back,
   ErrExistCanonical with i > 0, pruned ancestor, future). *)
Theorem C11_only_valid_blocks_canonical :
  forall t g fuel hist batch k, wf t g ->
    let s0 := run t fuel (init_st g) hist in
    canon_good t (disk_of s0) = true /\
    (budget s0 = None -> canon_good t (disk_of (crash_run t fuel s0 batch k)) = true).
Proof.
  intros t g fuel hist batch k [A [B [C D]]] s0. split.
  - exact (import_canon_good t g A B D fuel hist).
  - exact (crash_canon_good t g A B D fuel hist batch k).
Qed.
Print Assumptions C11_only_valid_blocks_canonical.

(* ---- crashes ------------------------------------------------------------------------------------- *)

(* Whatever database write of whatever import the process dies after: the restart
   succeeds, its head is the database's head marker, and the restarted node is
   consistent (all four clauses). *)
Theorem C11_crash_consistent :
  forall t g fuel hist batch k, wf t g ->
    let s0 := run t fuel (init_st g) hist in
    let sk := crash_run t fuel s0 batch k in
    budget s0 = None ->
    exists d, recover t (disk_of sk) = Some (d, d_headB (disk_of sk)) /\
              consistent_b t d (d_headB (disk_of sk)) = true.
Proof.
  intros t g fuel hist batch k [A [B [C D]]] s0 sk Hb.
  destruct (crash_consistent t g A B C D fuel hist batch k Hb) as [d [R [Q _]]]. exists d. exact (conj R Q).
Qed.
Print Assumptions C11_crash_consistent.

(* The restarted node is a node in good standing: whatever is offered to it
   afterwards (the interrupted batch, further blocks, other forks, in any order),
   it stays consistent (all four clauses) and its head follows the database. *)
Theorem C11_restarted_node_stays_consistent :
  forall t g fuel hist batch k hist2, wf t g ->
    let s0 := run t fuel (init_st g) hist in
    let sk := crash_run t fuel s0 batch k in
    budget s0 = None ->
    exists d, recover t (disk_of sk) = Some (d, d_headB (disk_of sk)) /\
      let s := run t fuel (fresh d (d_headB (disk_of sk))) hist2 in
      consistent_b t (disk_of s) (d_headB (disk_of s)) = true /\ (budget s = None -> cur s = d_headB (disk_of s)).
Proof. intros t g fuel hist batch k hist2 [A [B [C D]]]. exact (restarted_run_consistent t g A B C D fuel hist batch k hist2). Qed.
Print Assumptions C11_restarted_node_stays_consistent.

(* ---- process memory ------------------------------------------------------------------------------ *)

(* The model has database-only semantics: a node is [mkS disk cur future wlog budget];
   no block/header/number cache exists in it, every read of an import goes to [disk_of s]
   (the correspondence run compares this with the long-lived real process on every case,
   and the harness additionally replays every case with a restart between all calls).
   The only memory of the running process besides the queue of future blocks is its head,
   and that is determined by the database: after any history a fresh process over the same
   database starts on exactly the head the running process holds.
   PARTIAL: the full statement "InsertChain's database and error are the same from [s] and
   from [fresh (disk_of s) (cur s)]" additionally needs a simulation lemma through
   ic_loop/insert_sidechain (independence of [wlog]; [future] empty or equal) - not proved. *)
Theorem C11_import_is_a_function_of_database_and_offer_partial :
  forall t g fuel hist, wf t g ->
    let s := run t fuel (init_st g) hist in
    budget s = None ->
    exists d, recover t (disk_of s) = Some (d, cur s) /\ consistent_b t d (cur s) = true.
Proof.
  intros t g fuel hist [A [B [C D]]] s Hb.
  destruct (import_consistent t g A B D fuel hist) as [_ Hc]. fold s in Hc. rewrite (Hc Hb).
  destruct (crash_consistent t g A B C D fuel hist [] 0%nat Hb) as [d [R [Q _]]].
  exists d. exact (conj R Q).
Qed.
Print Assumptions C11_import_is_a_function_of_database_and_offer_partial.

(* ---- not wedged ------------------------------------------------------------------------------------ *)

(* full statement (reference): interrupted batch again + one further good block on
   the crash-free head = the head of the node that never crashed *)
Definition C11_not_wedged_full : Prop :=
  forall t g fuel hist batch k f, wf t g ->
    let s0 := run t fuel (init_st g) hist in
    budget s0 = None ->
    let free := fst (InsertChain t fuel s0 (blocks_of t batch)) in
    info t (bid f) = Some f -> good_block f = true -> bpar f = cur free -> budget free = None ->
    forall d h, recover t (disk_of (crash_run t fuel s0 batch k)) = Some (d, h) ->
      let again := fst (InsertChain t fuel (fresh d h) (blocks_of t batch)) in
      cur (fst (InsertChain t fuel again [f])) = cur (fst (InsertChain t fuel free [f])).

(* Proved for every batch that EXTENDS THE HEAD LINEARLY (the steady state of a
   synchronised node and the block-by-block or chunk-by-chunk download of a
   longer chain): after any history, [chain] = any number of good blocks, the
   first on the head, each on its predecessor, with no stale index entries above
   the head.  Killed after ANY database write of the import (block batch, state
   commit or head switch of any of its blocks), the restart succeeds and offering
   the batch again leaves the node with EXACTLY the database (hence the same
   canonical index, lookups, states) and the head of the node that never crashed,
   so every later import behaves identically and no further block is needed. *)
Theorem C11_not_wedged_linear_batch :
  forall t g fuel hist f k hb chain, wf t g ->
    let s0 := run t fuel (init_st g) hist in
    budget s0 = None ->
    info t (d_headB (disk_of s0)) = Some hb ->
    free_above (disk_of s0) hb -> lin_chain t hb chain -> chain <> [] ->
    let free := fst (InsertChain t (S f) s0 chain) in
    let sk := fst (InsertChain t (S f) (with_budget (Some k) s0) chain) in
    exists d h, recover t (disk_of sk) = Some (d, h) /\
      let again := fst (InsertChain t (S f) (fresh d h) chain) in
      disk_of again = disk_of free /\ cur again = cur free /\ budget again = None /\
      cur free = bid (last chain hb).
Proof. intros t g fuel hist f k hb chain [A [B [C D]]]. exact (not_wedged_linear_run t g A B C D fuel hist f k hb chain). Qed.
Print Assumptions C11_not_wedged_linear_batch.

(* Proved for batches whose first head switch REORGANISES: the first block b1 is a
   good new block on ANY stored block p whose state is on disk - the head c0 can
   be anywhere: on another fork (a side chain with state becomes canonical), on a
   shorter chain with stale index entries between it and p (the old chain is
   re-extended after a switch to a shorter fork), or several blocks below p on the
   same chain (reorg with an empty old chain) - and the rest of the batch extends
   b1 linearly.  Stale index entries at or below p's height - in particular between
   a lowered head and p, the case "head moved down, old branch re-adopted above it"
   (C11_nonvacuous_reorganising_batch is exactly [A1 A2 A3], switch down to B2, then
   [A4 A5]) - are allowed: stageHead overwrites every height of the new chain.
   Side conditions: no index entries above p - the index is filled bottom-up and
   the import paths never delete from it, so this says that b1's own height is
   free, i.e. b1 is dispatched to the top-level import; the complement (b1's height
   occupied: ErrExistCanonical at index 0) goes through insertSidechain and is not
   covered by this theorem; reorg, if it is needed, finds the fork point;
   InsertChain's version-state check finds a canonical header one below the batch.  Killed after ANY database write of the
   import (b1's block batch, state commit or the one batch that re-organises the
   chain, or any write of the later blocks), the restart succeeds and offering the
   batch again leaves the node with EXACTLY the database and head of the node that
   never crashed.  [g2 d p b1] is d after b1's block batch and state commit. *)
Theorem C11_not_wedged_reorganising_batch :
  forall t g fuel hist f k c0 p b1 q rest, wf t g ->
    let s0 := run t fuel (init_st g) hist in
    budget s0 = None ->
    info t (d_headB (disk_of s0)) = Some c0 ->
    info t (bid b1) = Some b1 -> bnum b1 <> 0 -> bhv b1 = 0 -> bbv b1 = 0 ->
    get_block t (disk_of s0) (bpar b1) (bnum b1 - 1) = Some p -> In (broot p) (d_state (disk_of s0)) ->
    (forall n, bnum p < n -> canon (disk_of s0) n = None) ->
    (bpar b1 = bid c0 \/ reorg t (g2 (disk_of s0) p b1) c0 b1 <> None) ->
    lin_chain t b1 rest ->
    get_header_by_number t (disk_of s0) (bnum b1 - 1) = Some q ->
    let free := fst (InsertChain t (S f) s0 (b1 :: rest)) in
    let sk := fst (InsertChain t (S f) (with_budget (Some k) s0) (b1 :: rest)) in
    exists d h, recover t (disk_of sk) = Some (d, h) /\
      let again := fst (InsertChain t (S f) (fresh d h) (b1 :: rest)) in
      disk_of again = disk_of free /\ cur again = cur free /\ budget again = None /\
      cur free = bid (last rest b1).
Proof. intros t g fuel hist f k c0 p b1 q rest [A [B [C D]]]. exact (not_wedged_reorg_run t g A B C D fuel hist f k c0 p b1 q rest). Qed.
Print Assumptions C11_not_wedged_reorganising_batch.

(* The single-block case with the weaker side condition "the block's own height is
   free" (stale entries higher up are allowed).
   PARTIAL with respect to C11_not_wedged_full: batches that reach insertSidechain
   (first block ErrExistCanonical or ErrPrunedAncestor: a competing fork, stored
   first and adopted by the nested insertChain whose verdicts are taken on another
   database than at top level) and blocks imported over stale index entries
   (ErrExistCanonical with i > 0, VerifySeal path) are not covered by a theorem;
   for them the statement is checked by enumeration of every crash point on the
   implementation and in the model. *)
Theorem C11_not_wedged_next_block_partial :
  forall t g fuel hist f k hb b, wf t g ->
    let s0 := run t fuel (init_st g) hist in
    budget s0 = None ->
    info t (d_headB (disk_of s0)) = Some hb ->
    info t (bid b) = Some b -> bpar b = bid hb -> bnum b = bnum hb + 1 -> bhv b = 0 -> bbv b = 0 ->
    canon (disk_of s0) (bnum b) = None ->
    let free := fst (InsertChain t (S f) s0 [b]) in
    let sk := fst (InsertChain t (S f) (with_budget (Some k) s0) [b]) in
    exists d h, recover t (disk_of sk) = Some (d, h) /\
      let again := fst (InsertChain t (S f) (fresh d h) [b]) in
      disk_of again = disk_of free /\ cur again = cur free /\ budget again = None /\ cur free = bid b.
Proof. intros t g fuel hist f k hb b [A [B [C D]]]. exact (not_wedged_next_block_run t g A B C D fuel hist f k hb b). Qed.
Print Assumptions C11_not_wedged_next_block_partial.

(* ---- non-vacuity and regression witnesses ------------------------------------------------------------ *)

(* a history with a stored side chain that is later adopted (reorg over two blocks),
   transactions whose lookups move, a bad block, and the old branch offered again *)
Definition ex_tree : tree :=
  [mkB 1 0 0 1 [] 0 0; mkB 2 1 1 2 [1] 0 0; mkB 3 2 2 2 [] 0 0; mkB 4 3 3 3 [2;3] 0 0;
   mkB 5 2 2 4 [4] 0 0; mkB 6 5 3 4 [] 0 0; mkB 7 6 4 4 [] 0 0; mkB 8 1 1 9 [5] 2 0; mkB 9 7 5 4 [] 0 0].
Definition ex_g : block := mkB 1 0 0 1 [] 0 0.
Definition ex_hist : list (list N) := [[2;3;4]; [5;6]; [8]; [5;6;7]; [2;5]; [3;4]].

Example C11_nonvacuous_import :
  wf ex_tree ex_g /\
  let s := run ex_tree 6 (init_st ex_g) ex_hist in
  budget s = None /\ cur s = 7 /\ d_canon (disk_of s) = [(4, 7); (3, 6); (2, 5); (1, 2); (0, 1)] /\
  d_look (disk_of s) = [(4, 5); (1, 2)] /\ consistent_b ex_tree (disk_of s) (cur s) = true.
Proof. split; [repeat split; reflexivity|]. vm_compute. repeat split; reflexivity. Qed.
Print Assumptions C11_nonvacuous_import.

(* every crash point of the reorganising import [5;6;7] (9 writes) restarts
   consistent: on the old head 4 before the switch batch of block 5, on 5, 6, 7 after *)
Example C11_nonvacuous_crash :
  let s0 := run ex_tree 6 (init_st ex_g) [[2;3;4]; [5;6]] in
  budget s0 = None /\
  map (fun k => match recover ex_tree (disk_of (crash_run ex_tree 6 s0 [5;6;7] k)) with
                | Some (d, h) => (h, consistent_b ex_tree d h)
                | None => (0, false)
                end) (seq 0 12)
  = [(4, true); (4, true); (4, true); (4, true); (5, true); (5, true); (6, true); (6, true); (7, true); (7, true); (7, true); (7, true)].
Proof. vm_compute. split; reflexivity. Qed.
Print Assumptions C11_nonvacuous_crash.

(* the hypotheses of the partial not-wedged theorem are satisfiable: block 9 on head 7 *)
Example C11_nonvacuous_next_block :
  let s0 := run ex_tree 6 (init_st ex_g) ex_hist in
  budget s0 = None /\ info ex_tree (d_headB (disk_of s0)) = Some (mkB 7 6 4 4 [] 0 0) /\
  info ex_tree 9 = Some (mkB 9 7 5 4 [] 0 0) /\ canon (disk_of s0) 5 = None /\
  cur (fst (InsertChain ex_tree 6 s0 (blocks_of ex_tree [9]))) = 9.
Proof. vm_compute. repeat split; reflexivity. Qed.
Print Assumptions C11_nonvacuous_next_block.

(* the hypotheses of the linear-batch theorem are satisfiable: [9;10] on head 7 *)
Definition ex_tree2 : tree := ex_tree ++ [mkB 10 9 6 5 [6] 0 0].
Example C11_nonvacuous_linear_batch :
  let s0 := run ex_tree2 6 (init_st ex_g) ex_hist in
  let hb := mkB 7 6 4 4 [] 0 0 in
  let chain := [mkB 9 7 5 4 [] 0 0; mkB 10 9 6 5 [6] 0 0] in
  budget s0 = None /\ info ex_tree2 (d_headB (disk_of s0)) = Some hb /\
  lin_chain ex_tree2 hb chain /\
  (forallb (fun n => match canon (disk_of s0) n with None => true | _ => false end) [5; 6; 7; 8] = true) /\
  cur (fst (InsertChain ex_tree2 6 s0 chain)) = 10.
Proof. vm_compute. repeat split; reflexivity. Qed.
Print Assumptions C11_nonvacuous_linear_batch.

(* the witnesses of the four repaired defects, now regression examples of the model
   (the same inputs run against the implementation from corpus/C11 on every check) *)
Definition w2_tree : tree :=
  [mkB 1 0 0 1 [] 0 0; mkB 2 1 1 1 [] 0 0; mkB 3 2 2 1 [] 0 0; mkB 4 3 3 1 [] 0 0;
   mkB 5 2 2 2 [1;2] 0 0; mkB 7 5 3 2 [] 0 0].
Definition w3_tree : tree :=
  [mkB 1 0 0 1 [] 0 0; mkB 2 1 1 2 [1;2] 0 0; mkB 3 2 2 2 [] 0 0; mkB 4 1 1 3 [1] 0 0].
Definition w4_tree : tree :=
  [mkB 1 0 0 1 [] 0 0; mkB 2 1 1 2 [1] 0 0; mkB 3 2 2 3 [2] 0 0;
   mkB 4 1 1 2 [1] 0 0; mkB 5 4 2 2 [] 1 0; mkB 6 5 3 2 [] 0 0].
Definition w5_tree : tree :=
  [mkB 1 0 0 1 [] 0 0; mkB 2 1 1 2 [1;2] 0 0; mkB 3 2 2 2 [] 0 0;
   mkB 4 1 1 3 [1] 0 0; mkB 5 4 2 2 [2] 0 0; mkB 6 5 3 2 [] 0 0; mkB 10 6 4 2 [] 0 0].
(* pre-d4052ba witness: X1 (id 4) has the content and state root of canonical Y1 (id 2)
   but commits to a wrong transaction root (body class 5); corpus/C11/w6_tx_root_only_via_sidechain.json *)
Definition w6_tree : tree :=
  [mkB 1 0 0 1 [] 0 0; mkB 2 1 1 2 [1] 0 0; mkB 3 2 2 3 [2] 0 0;
   mkB 4 1 1 2 [1] 0 5; mkB 5 4 2 2 [] 0 0; mkB 6 5 3 2 [] 0 0].
Definition reoffer (t : tree) (s0 : st) (batch : list N) (further : list N) (k : nat) : N * N :=
  match recover t (disk_of (crash_run t 6 s0 batch k)) with
  | Some (d, h) =>
    let s1 := fst (InsertChain t 6 (fresh d h) (blocks_of t batch)) in
    (err_code (snd (InsertChain t 6 (fresh d h) (blocks_of t batch))), cur (fst (InsertChain t 6 s1 (blocks_of t further))))
  | None => (99, 0)
  end.
(* the hypotheses of the reorganising-batch theorem are satisfiable: G-2-3-4 (head 4),
   then [2;5] switches to the shorter fork 2-5 (index entry 3 -> 4 stays, stale);
   the batch [6;7] on block 4 re-extends the old chain: reorg(5, 6) with old chain [5]
   and new chain [6;4;3]; every crash point of that import ends on 7 after the re-offer *)
Definition ex_tree3 : tree :=
  [mkB 1 0 0 1 [] 0 0; mkB 2 1 1 2 [1] 0 0; mkB 3 2 2 3 [2] 0 0; mkB 4 3 3 4 [3] 0 0;
   mkB 5 2 2 5 [4] 0 0; mkB 6 4 4 6 [5] 0 0; mkB 7 6 5 6 [] 0 0].
Example C11_nonvacuous_reorganising_batch :
  let s0 := run ex_tree3 6 (init_st ex_g) [[2;3;4]; [2;5]] in
  let c0 := mkB 5 2 2 5 [4] 0 0 in let p := mkB 4 3 3 4 [3] 0 0 in let b1 := mkB 6 4 4 6 [5] 0 0 in
  budget s0 = None /\ info ex_tree3 (d_headB (disk_of s0)) = Some c0 /\
  d_canon (disk_of s0) = [(2, 5); (3, 4); (1, 2); (0, 1)] /\
  get_block ex_tree3 (disk_of s0) (bpar b1) (bnum b1 - 1) = Some p /\ has_state (disk_of s0) (broot p) = true /\
  bpar b1 <> bid c0 /\ reorg ex_tree3 (g2 (disk_of s0) p b1) c0 b1 <> None /\
  lin_chain ex_tree3 b1 [mkB 7 6 5 6 [] 0 0] /\
  (exists q, get_header_by_number ex_tree3 (disk_of s0) (bnum b1 - 1) = Some q) /\
  d_canon (disk_of (fst (InsertChain ex_tree3 6 s0 (blocks_of ex_tree3 [6;7])))) = [(5, 7); (4, 6); (3, 4); (2, 3); (1, 2); (0, 1)] /\
  map (reoffer ex_tree3 s0 [6;7] []) (seq 0 8) = [(0, 7); (0, 7); (0, 7); (0, 7); (0, 7); (0, 7); (0, 7); (0, 7)].
Proof.
  vm_compute. repeat split; try reflexivity; try discriminate. eexists; reflexivity.
Qed.
Print Assumptions C11_nonvacuous_reorganising_batch.

Example C11_regression_witnesses :
  (* shorter-fork switch [2;5] on G-2-3-4, then block 7: every crash point ends on 7 *)
  (let s0 := run w2_tree 6 (init_st ex_g) [[2;3;4]] in
   map (reoffer w2_tree s0 [2;5] [7]) (seq 0 5) = [(0, 7); (0, 7); (0, 7); (0, 7); (0, 7)]) /\
  (* fork [2;3] against canonical 4: no crash point panics when the batch is offered again *)
  (let s0 := run w3_tree 6 (init_st ex_g) [[4]] in
   map (fun k => fst (reoffer w3_tree s0 [2;3] [] k)) (seq 0 9) = [0; 0; 0; 0; 0; 0; 0; 0; 0]) /\
  (* bad-signature block 5 offered inside a fork: rejected, never canonical *)
  (let s := run w4_tree 6 (init_st ex_g) [[2;3]; [4;5]; [6]] in
   cur s = 3 /\ d_canon (disk_of s) = [(2, 3); (1, 2); (0, 1)]) /\
  (* block 4 is canonical without its own state (block 6 was imported directly on 5,
     whose root is block 2's); offered again it only gets state and receipts, the head
     stays 6 - crash-free and after every crash point - and block 10 on 6 is adopted *)
  (let s0 := run w5_tree 6 (init_st ex_g) [[2;3]; [4;5]; [6]] in
   cur s0 = 6 /\ cur (fst (InsertChain w5_tree 6 s0 (blocks_of w5_tree [4]))) = 6 /\
   map (reoffer w5_tree s0 [4] [10]) (seq 0 5) = [(0, 10); (0, 10); (0, 10); (0, 10); (0, 10)]) /\
  (* tx-root-only block 4 offered as a side chain whose state root is already on disk:
     rejected as a bad body by the side-chain verification, not stored; its descendants
     have no parent, the index stays 1-2-3 *)
  (let s1 := run w6_tree 6 (init_st ex_g) [[2;3]] in
   let s := run w6_tree 6 (init_st ex_g) [[2;3]; [4;5]; [6]] in
   snd (InsertChain w6_tree 6 s1 (blocks_of w6_tree [4;5])) = EBadBody /\
   cur s = 3 /\ d_canon (disk_of s) = [(2, 3); (1, 2); (0, 1)] /\ d_hdr (disk_of s) = d_hdr (disk_of s1)).
Proof. vm_compute. repeat split; reflexivity. Qed.
Print Assumptions C11_regression_witnesses.
