(* C11 - basic lemmas: finite maps, reads under writes, the write budget. *)
From VF.C11 Require Import Model.
From Coq Require Import Lia ZifyBool ZifyN ZifyNat.
Local Open Scope N_scope.

Global Arguments wr : simpl never.
Global Arguments write_block : simpl never.

(* ---- memN / addN / association lists ---------------------------------------- *)

Lemma memN_In : forall x l, memN x l = true <-> In x l.
Proof.
  unfold memN; intros x l; rewrite existsb_exists; split.
  - intros [y [Hy He]]. apply N.eqb_eq in He. subst; auto.
  - intros H; exists x; split; auto. apply N.eqb_refl.
Qed.

Lemma memN_false : forall x l, memN x l = false <-> ~ In x l.
Proof.
  intros x l. rewrite <- memN_In. destruct (memN x l); split; intros; try discriminate; auto.
  exfalso; apply H; auto.
Qed.

Lemma In_addN : forall x y l, In x (addN y l) <-> x = y \/ In x l.
Proof.
  intros x y l; unfold addN. destruct (memN y l) eqn:E.
  - apply memN_In in E. split; auto. intros [->|H]; auto.
  - simpl. split; intros [H|H]; auto.
Qed.

Lemma alookup_In : forall k v m, alookup k m = Some v -> In (k, v) m.
Proof.
  induction m as [|[k' v'] m IH]; simpl; intros H; try discriminate.
  destruct (k' =? k) eqn:E.
  - apply N.eqb_eq in E. inversion H; subst; auto.
  - auto.
Qed.

Lemma In_aremove : forall k k' v m, In (k', v) (aremove k m) <-> In (k', v) m /\ k' <> k.
Proof.
  intros; unfold aremove; rewrite filter_In; simpl. split; intros [H1 H2]; split; auto.
  - intros ->. rewrite N.eqb_refl in H2; discriminate.
  - apply N.eqb_neq in H2. rewrite H2; auto.
Qed.

Lemma alookup_aremove_same : forall k m, alookup k (aremove k m) = None.
Proof.
  induction m as [|[k' v'] m IH]; simpl; auto.
  destruct (k' =? k) eqn:E; simpl; auto. rewrite E; auto.
Qed.

Lemma alookup_aremove_other : forall k k' m, k' <> k -> alookup k' (aremove k m) = alookup k' m.
Proof.
  induction m as [|[k2 v2] m IH]; simpl; intros Hn; auto.
  destruct (k2 =? k) eqn:E; simpl.
  - apply N.eqb_eq in E; subst. destruct (k =? k') eqn:E2; auto. apply N.eqb_eq in E2; congruence.
  - destruct (k2 =? k'); auto.
Qed.

Lemma alookup_aset : forall k v k' m, alookup k' (aset k v m) = if k =? k' then Some v else alookup k' m.
Proof.
  intros; unfold aset; simpl. destruct (k =? k') eqn:E; auto.
  apply alookup_aremove_other. apply N.eqb_neq in E; auto.
Qed.

Lemma In_aset : forall k v k' v' m, In (k', v') (aset k v m) <-> (k' = k /\ v' = v) \/ (In (k', v') m /\ k' <> k).
Proof.
  intros; unfold aset; simpl. rewrite In_aremove. split.
  - intros [H|H]; [inversion H; auto|auto].
  - intros [[-> ->]|H]; auto.
Qed.

(* ---- info ----------------------------------------------------------------------- *)

Lemma info_bid : forall t h b, info t h = Some b -> bid b = h.
Proof.
  induction t as [|x t IH]; simpl; intros h b H; try discriminate.
  destruct (bid x =? h) eqn:E; auto. inversion H; subst. apply N.eqb_eq; auto.
Qed.

Lemma blocks_of_info : forall t ids b, In b (blocks_of t ids) -> info t (bid b) = Some b.
Proof.
  intros t ids b H. unfold blocks_of in H. apply in_flat_map in H. destruct H as [h [_ H]].
  destruct (info t h) eqn:E; simpl in H; [|contradiction].
  destruct H as [<-|[]]. rewrite (info_bid _ _ _ E); auto.
Qed.

(* ---- effect of writes on the fields ------------------------------------------------ *)

Definition applyl (ws : list write) (d : disk) : disk := fold_left (fun d w => apply_write w d) ws d.

Lemma applyl_app : forall a b d, applyl (a ++ b) d = applyl b (applyl a d).
Proof. intros; unfold applyl; apply fold_left_app. Qed.

Lemma apply_write_app : forall a b d, apply_write (a ++ b) d = apply_write b (apply_write a d).
Proof. intros; unfold apply_write; apply fold_left_app. Qed.

Lemma apply_write_cons : forall e w d, apply_write (e :: w) d = apply_write w (apply_ew e d).
Proof. reflexivity. Qed.

(* a write that only touches lookups / receipts / the head-header marker *)
Definition soft_ew (e : ew) : bool :=
  match e with WRcpt _ | WLook _ _ | WUnlook _ | WHeadH _ => true | _ => false end.

Lemma soft_ew_fields : forall e d, soft_ew e = true ->
  d_body (apply_ew e d) = d_body d /\ d_hnum (apply_ew e d) = d_hnum d /\ d_hdr (apply_ew e d) = d_hdr d /\
  d_state (apply_ew e d) = d_state d /\ d_canon (apply_ew e d) = d_canon d /\ d_headB (apply_ew e d) = d_headB d.
Proof. intros [] d H; simpl in *; try discriminate; repeat split. Qed.

(* ---- the write budget ------------------------------------------------------------ *)

Definition alive (s : st) : Prop := budget s <> Some O.

Lemma alive_dec : forall s, {alive s} + {budget s = Some O}.
Proof.
  intros s; unfold alive. destruct (budget s) as [[|k]|]; [right; auto|left; discriminate|left; discriminate].
Qed.

Lemma wr_dead : forall w s, budget s = Some O -> wr w s = s.
Proof. intros w s H; unfold wr. destruct w; auto. rewrite H; auto. Qed.

Lemma wr_nil : forall s, wr [] s = s.
Proof. reflexivity. Qed.

Lemma wr_alive_disk : forall w s, alive s -> disk_of (wr w s) = apply_write w (disk_of s).
Proof.
  intros w s H; unfold wr, alive in *. destruct w; auto.
  destruct (budget s) as [[|k]|]; simpl; auto. congruence.
Qed.

Lemma wr_alive_back : forall w s, alive (wr w s) -> alive s.
Proof. intros w s H Hd. rewrite wr_dead in H; auto. Qed.

Lemma wr_cur : forall w s, cur (wr w s) = cur s.
Proof. intros w s; unfold wr. destruct w; auto. destruct (budget s) as [[|k]|]; auto. Qed.

Lemma wr_future : forall w s, future (wr w s) = future s.
Proof. intros w s; unfold wr. destruct w; auto. destruct (budget s) as [[|k]|]; auto. Qed.

(* the disk after a budgeted write is the old one or the written one *)
Lemma wr_disk_cases : forall w s,
  (disk_of (wr w s) = disk_of s /\ ~ alive s) \/ (alive s /\ disk_of (wr w s) = apply_write w (disk_of s)).
Proof.
  intros w s. destruct (alive_dec s) as [H|H].
  - right; split; auto. apply wr_alive_disk; auto.
  - left. rewrite wr_dead; auto.
Qed.

Lemma wr_budget_none : forall w s, budget s = None -> budget (wr w s) = None.
Proof. intros w s H; unfold wr. destruct w; auto. rewrite H; auto. Qed.

Lemma prefix_inv : forall (P : disk -> Prop) ws d0,
  P d0 ->
  (forall pre w post, ws = pre ++ w :: post -> P (applyl pre d0) -> P (apply_write w (applyl pre d0))) ->
  forall pre post, ws = pre ++ post -> P (applyl pre d0).
Proof.
  intros P ws d0 H0 Hstep pre. induction pre as [|w pre IH] using rev_ind; intros post E; auto.
  rewrite applyl_app. simpl. rewrite <- app_assoc in E. simpl in E.
  apply (Hstep pre w post); auto. apply (IH (w :: post)); auto.
Qed.

(* one batch = its elementary writes applied one after the other *)
Lemma apply_write_concat : forall ws d, apply_write (concat ws) d = applyl ws d.
Proof.
  induction ws as [|w ws IH]; intros d; simpl; auto.
  rewrite apply_write_app. rewrite IH. reflexivity.
Qed.
