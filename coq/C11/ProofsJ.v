(* C11 - not wedged, for the import of the next block on the head: whatever write
   the process dies after, the restarted node that is offered the block again
   ends with exactly the database and head of the node that never crashed. *)
From VF.C11 Require Import Model ProofsA ProofsB ProofsC ProofsD ProofsE ProofsF ProofsH ProofsI.
From Coq Require Import Lia ZifyBool ZifyN ZifyNat.
Local Open Scope N_scope.

Lemma alive_none : forall s, budget s = None -> alive s.
Proof. intros s H. unfold alive. rewrite H. discriminate. Qed.

(* a block above the head is not "already canonical at or below the head" *)
Lemma not_already : forall t x (s2 : st), (forall c, info t (cur s2) = Some c -> bnum c < bnum x) ->
  match info t (cur s2) with
  | Some c => (bnum x <=? bnum c) && (match canon (disk_of s2) (bnum x) with Some h => h =? bid x | None => false end)
  | None => false
  end = false.
Proof.
  intros t x s2 H. destruct (info t (cur s2)) as [c|] eqn:E; auto.
  assert (L : (bnum x <=? bnum c) = false) by (apply N.leb_gt; apply H; auto). rewrite L. reflexivity.
Qed.

(* WriteBlockWithState of a child of the head on a node that is never killed *)
Lemma wbws_linear : forall t p x s, budget s = None -> bpar x = cur s ->
  (forall c, info t (cur s) = Some c -> bnum c < bnum x) ->
  let r := write_block_with_state t p x s in
  snd r = ENone /\
  disk_of (fst r) =
    apply_write ((match btxs x with [] => [] | _ :: _ => [WRcpt (bid x)] end) ++ [] ++ map (fun tx => WLook tx (bid x)) (btxs x) ++ stage_head x)
      (apply_write (if broot x =? broot p then [] else [WState (broot x)]) (apply_write (block_batch x) (disk_of s))) /\
  cur (fst r) = bid x /\ budget (fst r) = None.
Proof.
  intros t p x s Hb Hp Hab. unfold write_block_with_state, write_block.
  set (s1 := wr (block_batch x) s).
  assert (H1 : budget s1 = None /\ cur s1 = cur s /\ disk_of s1 = apply_write (block_batch x) (disk_of s)).
  { unfold s1. split; [apply wr_budget_none; auto|]. split; [apply wr_cur|apply wr_alive_disk; apply alive_none; auto]. }
  destruct H1 as [B1 [C1 D1]].
  set (s2 := if broot x =? broot p then s1 else wr [WState (broot x)] s1).
  assert (H2 : budget s2 = None /\ cur s2 = cur s /\
               disk_of s2 = apply_write (if broot x =? broot p then [] else [WState (broot x)]) (apply_write (block_batch x) (disk_of s))).
  { unfold s2. destruct (broot x =? broot p).
    - rewrite D1. auto.
    - split; [apply wr_budget_none; auto|]. split; [rewrite wr_cur; auto|].
      rewrite wr_alive_disk; [rewrite D1; auto|apply alive_none; auto]. }
  destruct H2 as [B2 [C2 D2]].
  cbv zeta. rewrite (not_already t x s2) by (rewrite C2; exact Hab).
  rewrite C2, Hp, N.eqb_refl. cbn [fst snd].
  split; [reflexivity|]. cbn [disk_of cur budget set_future set_cur].
  split; [rewrite wr_alive_disk; [rewrite D2; reflexivity|apply alive_none; auto]|].
  split; [reflexivity|apply wr_budget_none; auto].
Qed.

Section Linear.
Variable t : tree.
Variable g : block.
Hypothesis Hg : info t (bid g) = Some g.
Hypothesis Hg0 : bnum g = 0.
Hypothesis Hid0 : info t 0 = None.
Hypothesis Hgood : good_block g = true.

(* d0: the database before the import; hb: its head; b: a good block on top of
   the head that the database has not seen and whose height is free *)
Variable d0 : disk.
Variable hb b : block.
Hypothesis HG0 : Good t g d0.
Hypothesis Hhb : info t (d_headB d0) = Some hb.
Hypothesis Hb : info t (bid b) = Some b.
Hypothesis Hpar : bpar b = bid hb.
Hypothesis Hnum : bnum b = bnum hb + 1.
Hypothesis Hhv : bhv b = 0.
Hypothesis Hbv : bbv b = 0.
Hypothesis Hfree : canon d0 (bnum b) = None.

Definition st_w : write := if broot b =? broot hb then [] else [WState (broot b)].
Definition sw_w : write :=
  (match btxs b with [] => [] | _ :: _ => [WRcpt (bid b)] end) ++ [] ++ map (fun tx => WLook tx (bid b)) (btxs b) ++ stage_head b.

Definition d1 : disk := apply_write (block_batch b) d0.
Definition d2 : disk := apply_write st_w d1.
Definition d3 : disk := apply_write sw_w d2.

Definition setH (h : N) (d : disk) : disk :=
  mkD (d_body d) (d_hnum d) (d_hdr d) (d_state d) (d_rcpt d) (d_look d) (d_canon d) h (d_headB d).

(* the databases a restart can find, with and without loadLastState's rewrite of the head-header marker *)
Inductive Fam : disk -> Prop :=
| Fam0 : Fam d0 | Fam1 : Fam d1 | Fam2 : Fam d2
| FamH : forall d h, Fam d -> Fam (setH h d).

Lemma hb_id : bid hb = d_headB d0.
Proof. eapply info_bid; eauto. Qed.

Lemma above_hb : forall c, info t (bid hb) = Some c -> bnum c < bnum b.
Proof. intros c H. rewrite hb_id, Hhb in H. inversion H; subst. lia. Qed.

Lemma addN_idem : forall x l, addN x (addN x l) = addN x l.
Proof.
  intros x l. unfold addN at 1. destruct (memN x (addN x l)) eqn:E; auto.
  exfalso. apply memN_false in E. apply E. apply In_addN; auto.
Qed.

Lemma addN_in : forall x l, In x l -> addN x l = l.
Proof. intros x l H. unfold addN. apply memN_In in H. rewrite H. auto. Qed.

(* what the reads see on any database of the family *)
Lemma Fam_fields : forall d, Fam d ->
  d_canon d = d_canon d0 /\ d_look d = d_look d0 /\ d_headB d = d_headB d0 /\ d_rcpt d = d_rcpt d0 /\
  (d_body d = d_body d0 \/ d_body d = addN (bid b) (d_body d0)) /\
  (d_hnum d = d_hnum d0 \/ d_hnum d = addN (bid b) (d_hnum d0)) /\
  (d_hdr d = d_hdr d0 \/ d_hdr d = addN (bid b) (d_hdr d0)) /\
  (d_state d = d_state d0 \/ d_state d = addN (broot b) (d_state d0)).
Proof.
  induction 1.
  - repeat split; auto.
  - unfold d1; simpl. repeat split; auto.
  - unfold d2, d1, st_w. destruct (broot b =? broot hb); simpl; repeat split; auto.
  - destruct IHFam as [A [B [C [D [E [F [G H']]]]]]]. simpl. repeat split; auto.
Qed.

(* the writes of the import land every database of the family on d3 *)
Lemma apply_sw_setH : forall h d, apply_write sw_w (setH h d) = apply_write sw_w d.
Proof.
  intros h d. unfold sw_w. rewrite !apply_write_app.
  assert (Hsoft : forall w, (forall e, In e w -> match e with WRcpt _ | WLook _ _ => True | _ => False end) ->
            forall x, apply_write w (setH h x) = setH h (apply_write w x)).
  { induction w as [|e w IH]; intros Hw x; auto. rewrite !apply_write_cons.
    assert (He := Hw e (or_introl eq_refl)).
    destruct e; try contradiction; simpl; rewrite <- IH; auto; intros e' He'; apply Hw; right; auto. }
  assert (Enil : forall x, apply_write [] x = x) by reflexivity.
  rewrite Hsoft.
  - rewrite !Enil. rewrite Hsoft.
    + reflexivity.
    + intros e He. apply in_map_iff in He. destruct He as [tx [<- _]]. exact I.
  - intros e He. destruct (btxs b); [contradiction|]. destruct He as [<-|[]]. exact I.
Qed.

Lemma Fam_lands : forall d, Fam d -> apply_write sw_w (apply_write st_w (apply_write (block_batch b) d)) = d3.
Proof.
  induction 1.
  - reflexivity.
  - unfold d3, d2. f_equal. f_equal. unfold d1. simpl. rewrite !addN_idem. reflexivity.
  - unfold d3. f_equal. unfold d2, d1, st_w. destruct (broot b =? broot hb); simpl.
    + rewrite !addN_idem. reflexivity.
    + rewrite !addN_idem. reflexivity.
  - rewrite <- IHFam.
    assert (E : apply_write st_w (apply_write (block_batch b) (setH h d)) = setH h (apply_write st_w (apply_write (block_batch b) d))).
    { unfold st_w. destruct (broot b =? broot hb); reflexivity. }
    rewrite E. apply apply_sw_setH.
Qed.

Lemma hb_stored : In (bid hb) (d_hdr d0) /\ In (bid hb) (d_body d0) /\ In (broot hb) (d_state d0) /\
                  canon d0 (bnum hb) = Some (bid hb).
Proof.
  destruct HG0 as [HD [HB [[x [Q1 [Q2 [Q3 _]]]]]]].
  rewrite Hhb in Q1. inversion Q1; subst x. rewrite hb_id.
  pose proof (D_head t g d0 HD) as Hh. destruct (D_body t g d0 HD _ Hh). auto.
Qed.

Lemma In_either : forall x y l l', In x l -> (l' = l \/ l' = addN y l) -> In x l'.
Proof. intros x y l l' H [->| ->]; auto. apply In_addN; auto. Qed.

(* on a node whose database is in the family and whose head is hb, the import of
   [b] is WriteBlockWithState(b) on top of hb - whatever the write budget *)
Lemma import_reduces : forall f s, Fam (disk_of s) -> cur s = bid hb ->
  InsertChain t (S f) s [b] =
  (let (s', e) := write_block_with_state t hb b s in match e with ENone => (s', ENone) | _ => (s', e) end).
Proof.
  intros f s HF Hc. set (d := disk_of s) in *.
  destruct (Fam_fields d HF) as [Fc [Fl [Fh [Fr [Fb [Fn [Fd Fs]]]]]]].
  destruct hb_stored as [S1 [S2 [S3 S4]]].
  assert (Hhbi : info t (bid hb) = Some hb) by (rewrite hb_id; auto).
  assert (Hn0 : (bnum b =? 0) = false) by (apply N.eqb_neq; lia).
  assert (Hpred : bnum b - 1 = bnum hb) by lia.
  assert (Hcan : forall n, canon d n = canon d0 n) by (intros n; unfold canon; rewrite Fc; auto).
  assert (Hgh : get_header t d (bid hb) (bnum hb) = Some hb).
  { apply get_header_intro; auto. apply (In_either _ (bid b) (d_hdr d0)); auto. }
  assert (Hgb : get_block t d (bid hb) (bnum hb) = Some hb).
  { unfold get_block. assert (Hm : memN (bid hb) (d_body d) = true) by (apply memN_In; apply (In_either _ (bid b) (d_body d0)); auto).
    rewrite Hm; auto. }
  assert (Hst : has_state d (broot hb) = true) by (apply memN_In; apply (In_either _ (broot b) (d_state d0)); auto).
  assert (Hghn : get_header_by_number t d (bnum hb) = Some hb).
  { unfold get_header_by_number. rewrite Hcan, S4. auto. }
  assert (Hnone : get_header_by_number t d (bnum b) = None).
  { unfold get_header_by_number. rewrite Hcan, Hfree. auto. }
  unfold InsertChain. cbn [contiguous negb]. rewrite Hn0. cbn [orb].
  fold d. rewrite Hpred, Hghn.
  cbn [insert_chain verdicts combine].
  assert (Hv : verify_header t d None b = ENone).
  { unfold verify_header. rewrite Hhv. cbn. rewrite Hn0.
    unfold parent_header. rewrite Hn0, Hpar, Hpred, Hgh.
    rewrite ?Hpar, N.eqb_refl. assert (E : (bnum hb + 1 =? bnum b) = true) by (apply N.eqb_eq; lia). rewrite E. cbn.
    rewrite Hnone. reflexivity. }
  fold d. rewrite Hv.
  assert (Hvb : validate_body t d b = ENone).
  { unfold validate_body. rewrite Hnone, andb_false_r, Hn0.
    unfold has_block_and_state. rewrite Hpar, Hpred, Hgb, Hst, Hbv. reflexivity. }
  cbn [ic_loop]. fold d. rewrite Hvb.
  unfold parent_block. rewrite Hn0, Hpar, Hpred, Hgb.
  fold d. rewrite Hst, Hbv. cbn [negb N.eqb].
  destruct (write_block_with_state t hb b s) as [s' e']. destruct e'; reflexivity.
Qed.

Lemma import_on_Fam : forall f d fut lg,
  Fam d ->
  let r := InsertChain t (S f) (mkS d (bid hb) fut lg None) [b] in
  snd r = ENone /\ disk_of (fst r) = d3 /\ cur (fst r) = bid b /\ budget (fst r) = None.
Proof.
  intros f d fut lg HF. cbv zeta. rewrite import_reduces; auto.
  destruct (wbws_linear t hb b (mkS d (bid hb) fut lg None) eq_refl Hpar above_hb) as [W1 [W2 [W3 W4]]].
  destruct (write_block_with_state t hb b (mkS d (bid hb) fut lg None)) as [s' e'].
  cbn [fst snd] in W1, W2, W3, W4. subst e'. cbn [fst snd].
  split; [reflexivity|]. split; [|split; auto].
  rewrite W2. cbn [disk_of]. apply Fam_lands; auto.
Qed.

(* killed after any number of writes, the database is one of d0, d1, d2, d3 *)
Lemma wbws_budget_disk : forall p x s, 
  let r := write_block_with_state t p x s in
  bpar x = cur s -> (forall c, info t (cur s) = Some c -> bnum c < bnum x) ->
  let a := apply_write (block_batch x) (disk_of s) in
  let c := apply_write (if broot x =? broot p then [] else [WState (broot x)]) a in
  let e := apply_write ((match btxs x with [] => [] | _ :: _ => [WRcpt (bid x)] end) ++ [] ++ map (fun tx => WLook tx (bid x)) (btxs x) ++ stage_head x) c in
  disk_of (fst r) = disk_of s \/ disk_of (fst r) = a \/ disk_of (fst r) = c \/ disk_of (fst r) = e.
Proof.
  intros p x s r Hp Hab a c e. unfold r, write_block_with_state, write_block.
  set (s1 := wr (block_batch x) s).
  assert (C1 : cur s1 = cur s) by apply wr_cur.
  set (s2 := if broot x =? broot p then s1 else wr [WState (broot x)] s1).
  assert (C2 : cur s2 = cur s) by (unfold s2; destruct (broot x =? broot p); [auto|rewrite wr_cur; auto]).
  cbv zeta. rewrite (not_already t x s2) by (rewrite C2; exact Hab).
  rewrite C2, Hp, N.eqb_refl. cbn [fst disk_of set_future set_cur].
  destruct (wr_disk_cases (block_batch x) s) as [[E1 D1]|[A1 E1]]; fold s1 in E1.
  - (* dead from the start *)
    assert (Hd : budget s = Some O) by (destruct (alive_dec s); [contradiction|auto]).
    left. unfold s2, s1. rewrite (wr_dead (block_batch x) s Hd).
    destruct (broot x =? broot p); rewrite ?(wr_dead _ s Hd); auto.
  - assert (E2 : disk_of s2 = a \/ disk_of s2 = c).
    { unfold s2, c. destruct (broot x =? broot p); [left; auto|].
      destruct (wr_disk_cases [WState (broot x)] s1) as [[E D]|[A E]]; rewrite E, E1; auto. }
    match goal with |- context [wr ?w s2] => destruct (wr_disk_cases w s2) as [[E3 D3]|[A3 E3]]; rewrite E3 end.
    + destruct E2 as [->| ->]; auto.
    + (* the last write was applied: all were *)
      right; right; right. unfold e. f_equal.
      unfold s2, c in *. destruct (broot x =? broot p); [auto|].
      rewrite wr_alive_disk, E1; auto. eapply wr_alive_back; eauto.
Qed.

(* one step of insertChain's loop on a database of the family: the block is
   processed on top of hb by WriteBlockWithState - whatever the budget, whatever
   else is in the batch *)
Lemma ic_step : forall side s rest prev, Fam (disk_of s) -> (prev = None \/ prev = Some hb) ->
  ic_loop t side s ((b, ENone) :: rest) prev =
  match write_block_with_state t hb b s with
  | (s', ENone) => ic_loop t side s' rest (Some b)
  | (s', e) => (s', e)
  end.
Proof.
  intros side s rest prev HF Hprev. set (d := disk_of s) in *.
  destruct (Fam_fields d HF) as [Fc [Fl [Fh [Fr [Fb [Fn [Fd Fs]]]]]]].
  destruct hb_stored as [S1 [S2 [S3 S4]]].
  assert (Hhbi : info t (bid hb) = Some hb) by (rewrite hb_id; auto).
  assert (Hn0 : (bnum b =? 0) = false) by (apply N.eqb_neq; lia).
  assert (Hpred : bnum b - 1 = bnum hb) by lia.
  assert (Hcan : forall n, canon d n = canon d0 n) by (intros n; unfold canon; rewrite Fc; auto).
  assert (Hgb : get_block t d (bid hb) (bnum hb) = Some hb).
  { unfold get_block. assert (Hm : memN (bid hb) (d_body d) = true) by (apply memN_In; apply (In_either _ (bid b) (d_body d0)); auto).
    rewrite Hm. apply get_header_intro; auto. apply (In_either _ (bid b) (d_hdr d0)); auto. }
  assert (Hst : has_state d (broot hb) = true) by (apply memN_In; apply (In_either _ (broot b) (d_state d0)); auto).
  assert (Hnone : get_header_by_number t d (bnum b) = None).
  { unfold get_header_by_number. rewrite Hcan, Hfree. auto. }
  assert (Hvb : validate_body t d b = ENone).
  { unfold validate_body. rewrite Hnone, andb_false_r, Hn0.
    unfold has_block_and_state. rewrite Hpar, Hpred, Hgb, Hst, Hbv. reflexivity. }
  cbn [ic_loop]. fold d. rewrite Hvb.
  assert (Hpp : match prev with Some p => Some p | None => parent_block t d b end = Some hb).
  { destruct Hprev as [->| ->]; auto. unfold parent_block. rewrite Hn0, Hpar, Hpred, Hgb. auto. }
  rewrite Hpp. fold d. rewrite Hst, Hbv. cbn [negb N.eqb].
  destruct (write_block_with_state t hb b s) as [s' e']. destruct e'; reflexivity.
Qed.

(* if the node is alive after WriteBlockWithState of a child of its head, all three writes were applied *)
Lemma wbws_alive : forall p x s, bpar x = cur s ->
  (forall c, info t (cur s) = Some c -> bnum c < bnum x) ->
  let r := write_block_with_state t p x s in
  snd r = ENone /\ cur (fst r) = bid x /\
  (alive (fst r) ->
   disk_of (fst r) =
     apply_write ((match btxs x with [] => [] | _ :: _ => [WRcpt (bid x)] end) ++ [] ++ map (fun tx => WLook tx (bid x)) (btxs x) ++ stage_head x)
       (apply_write (if broot x =? broot p then [] else [WState (broot x)]) (apply_write (block_batch x) (disk_of s)))).
Proof.
  intros p x s Hp Hab. unfold write_block_with_state, write_block.
  set (s1 := wr (block_batch x) s).
  assert (C1 : cur s1 = cur s) by apply wr_cur.
  set (s2 := if broot x =? broot p then s1 else wr [WState (broot x)] s1).
  assert (C2 : cur s2 = cur s) by (unfold s2; destruct (broot x =? broot p); [auto|rewrite wr_cur; auto]).
  cbv zeta. rewrite (not_already t x s2) by (rewrite C2; exact Hab).
  rewrite C2, Hp, N.eqb_refl. cbn [fst snd]. split; [reflexivity|]. split; [reflexivity|].
  cbn [disk_of budget set_future set_cur]. unfold alive. cbn [budget set_future set_cur].
  intros Ha. fold (alive (wr ((match btxs x with [] => [] | _ :: _ => [WRcpt (bid x)] end) ++ [] ++ map (fun tx => WLook tx (bid x)) (btxs x) ++ stage_head x) s2)) in Ha.
  pose proof (wr_alive_back _ _ Ha) as A2.
  rewrite wr_alive_disk; auto. f_equal.
  assert (A1 : alive s1).
  { unfold s2 in A2. destruct (broot x =? broot p); auto. eapply wr_alive_back; eauto. }
  assert (A0 : alive s) by (eapply wr_alive_back; eauto).
  unfold s2. destruct (broot x =? broot p).
  - unfold s1. rewrite wr_alive_disk; auto.
  - rewrite wr_alive_disk; auto. unfold s1. rewrite wr_alive_disk; auto.
Qed.

(* the fields of the database after the complete import *)
Lemma d3_fields :
  d_canon d3 = aset (bnum b) (bid b) (d_canon d0) /\ d_hdr d3 = addN (bid b) (d_hdr d0) /\
  d_body d3 = addN (bid b) (d_body d0) /\ d_headB d3 = bid b /\ d_headH d3 = bid b /\
  In (broot b) (d_state d3) /\ apply_write [WHeadH (bid b)] d3 = d3.
Proof.
  set (x0 := apply_write (match btxs b with [] => [] | _ :: _ => [WRcpt (bid b)] end) d2).
  set (x1 := apply_write (map (fun tx => WLook tx (bid b)) (btxs b)) x0).
  assert (E3 : d3 = apply_write (stage_head b) x1).
  { unfold d3, sw_w, x1, x0. rewrite !apply_write_app. reflexivity. }
  assert (X0 : sameS d2 x0 /\ d_canon x0 = d_canon d2).
  { unfold x0. destruct (btxs b); simpl; repeat split; auto. }
  destruct X0 as [[A1 [A2 [A3 A4]]] A5].
  destruct (look_batch_fields (btxs b) (bid b) x0) as [[B1 [B2 [B3 B4]]] [B5 [B6 B7]]]. cbv zeta in *.
  fold x1 in B1, B2, B3, B4, B5, B6, B7.
  assert (E2 : d_canon d2 = d_canon d0 /\ d_hdr d2 = addN (bid b) (d_hdr d0) /\ d_body d2 = addN (bid b) (d_body d0) /\
               In (broot b) (d_state d2)).
  { unfold d2, d1, st_w. destruct (broot b =? broot hb) eqn:E; simpl; repeat split; auto.
    - apply N.eqb_eq in E. rewrite E. destruct hb_stored as [_ [_ [S3 _]]]. auto.
    - apply In_addN; auto. }
  destruct E2 as [C1 [C2 [C3 C4]]].
  rewrite E3. simpl. rewrite B5, A5, C1, B3, A3, C2, B1, A1, C3, B4, A4. repeat split; auto.
Qed.

(* offering [b] to a node that already has it as its head changes nothing *)
Lemma import_on_d3 : forall f fut lg,
  let s := mkS d3 (bid b) fut lg None in
  InsertChain t (S f) s [b] = (s, ENone).
Proof.
  intros f fut lg s.
  destruct d3_fields as [Fc [Fd [Fb [Fh [FH [Fs _]]]]]].
  destruct hb_stored as [S1 [S2 [S3 S4]]].
  assert (Hhbi : info t (bid hb) = Some hb) by (rewrite hb_id; auto).
  assert (Hn0 : (bnum b =? 0) = false) by (apply N.eqb_neq; lia).
  assert (Hpred : bnum b - 1 = bnum hb) by lia.
  assert (Hne : (bnum b =? bnum hb) = false) by (apply N.eqb_neq; lia).
  assert (Hgh : get_header t d3 (bid hb) (bnum hb) = Some hb).
  { apply get_header_intro; auto. rewrite Fd. apply In_addN; auto. }
  assert (Hghn : get_header_by_number t d3 (bnum hb) = Some hb).
  { unfold get_header_by_number, canon. rewrite Fc, alookup_aset, Hne. fold (canon d0 (bnum hb)). rewrite S4. auto. }
  assert (Hgb : get_header t d3 (bid b) (bnum b) = Some b).
  { apply get_header_intro; auto. rewrite Fd. apply In_addN; auto. }
  assert (Hself : get_header_by_number t d3 (bnum b) = Some b).
  { unfold get_header_by_number, canon. rewrite Fc, alookup_aset, N.eqb_refl. auto. }
  unfold InsertChain. cbn [contiguous negb]. rewrite Hn0. cbn [orb].
  unfold s at 1. cbn [disk_of]. rewrite Hpred, Hghn.
  cbn [insert_chain verdicts combine]. unfold s at 2. cbn [disk_of].
  assert (Hv : verify_header t d3 None b = ENone).
  { unfold verify_header. rewrite Hhv. cbn. rewrite Hn0.
    unfold parent_header. rewrite Hn0, Hpar, Hpred, Hgh.
    rewrite ?Hpar, N.eqb_refl. assert (E : (bnum hb + 1 =? bnum b) = true) by (apply N.eqb_eq; lia). rewrite E. cbn.
    rewrite Hself, N.eqb_refl. reflexivity. }
  rewrite Hv.
  assert (Hvb : validate_body t d3 b = EKnown).
  { unfold validate_body, has_block_and_state, get_block.
    assert (Hm : memN (bid b) (d_body d3) = true) by (apply memN_In; rewrite Fb; apply In_addN; auto).
    rewrite Hm, Hgb. unfold has_state. apply memN_In in Fs. rewrite Fs, Hself, N.eqb_refl. reflexivity. }
  cbn [ic_loop]. unfold s at 1. cbn [disk_of]. rewrite Hvb. reflexivity.
Qed.

(* NOT WEDGED for the next block on the head: killed after any write of the
   import of [b], the restart succeeds, and offering [b] again leaves the node
   with exactly the database and head of the node that was never killed. *)
Lemma not_wedged_next_block : forall f cur0 fut lg k,
  cur0 = bid hb ->
  let s0 := mkS d0 cur0 fut lg None in
  let free := fst (InsertChain t (S f) s0 [b]) in
  let sk := fst (InsertChain t (S f) (with_budget (Some k) s0) [b]) in
  exists d h, recover t (disk_of sk) = Some (d, h) /\
    let again := fst (InsertChain t (S f) (fresh d h) [b]) in
    disk_of again = disk_of free /\ cur again = cur free /\ budget again = None /\
    cur free = bid b.
Proof.
  intros f cur0 fut lg k Hc0 s0 free sk. subst cur0.
  destruct (import_on_Fam f d0 fut lg Fam0) as [_ [Ef [Ecf _]]]. fold s0 in Ef, Ecf. fold free in Ef, Ecf.
  (* where the killed import leaves the database *)
  assert (Hsk : disk_of sk = d0 \/ disk_of sk = d1 \/ disk_of sk = d2 \/ disk_of sk = d3).
  { unfold sk. rewrite import_reduces; [|apply Fam0|reflexivity].
    pose proof (wbws_budget_disk hb b (with_budget (Some k) s0) Hpar above_hb) as Hw. cbv zeta in Hw.
    destruct (write_block_with_state t hb b (with_budget (Some k) s0)) as [s' e']. cbn [fst] in Hw.
    assert (Es : disk_of (fst (match e' with ENone => (s', ENone) | _ => (s', e') end)) = disk_of s') by (destruct e'; reflexivity).
    rewrite Es. exact Hw. }
  destruct HG0 as [HD0 [HB0 HQ0]].
  assert (HJ0 : J t g s0) by (split; [split; auto|]; intros _; simpl; rewrite hb_id; auto).
  assert (HJk : J t g sk).
  { unfold sk. apply (J_InsertChain t g); auto.
    all: try (constructor; [exact Hb|constructor]).
    all: try (destruct HJ0 as [HGx HCx]; split; auto; intros _; simpl; rewrite hb_id; auto). }
  destruct HJk as [HGk _].
  pose proof HGk as [HDk [_ HQk]].
  exists (apply_write [WHeadH (d_headB (disk_of sk))] (disk_of sk)), (d_headB (disk_of sk)).
  split; [apply (recover_Qd t g Hg Hg0 Hid0); auto|].
  cbv zeta. rewrite Ef, Ecf.
  destruct d3_fields as [_ [_ [_ [Fh [_ [_ Fid]]]]]].
  assert (Hfam : forall x, Fam x -> d_headB x = bid hb ->
            let again := fst (InsertChain t (S f) (fresh (apply_write [WHeadH (d_headB x)] x) (d_headB x)) [b]) in
            disk_of again = d3 /\ cur again = bid b /\ budget again = None /\ bid b = bid b).
  { intros x Hx Hhx. cbv zeta. rewrite Hhx.
    change (apply_write [WHeadH (bid hb)] x) with (setH (bid hb) x).
    destruct (import_on_Fam f (setH (bid hb) x) [] [] (FamH x (bid hb) Hx)) as [_ [A [B C]]].
    unfold fresh. auto. }
  destruct Hsk as [E|[E|[E|E]]]; rewrite E.
  - apply Hfam; [apply Fam0|rewrite hb_id; auto].
  - apply Hfam; [apply Fam1|]. unfold d1; simpl. rewrite hb_id; auto.
  - apply Hfam; [apply Fam2|]. unfold d2, d1, st_w. destruct (broot b =? broot hb); simpl; rewrite hb_id; auto.
  - rewrite Fh, Fid. unfold fresh. rewrite import_on_d3. cbn [fst disk_of cur budget]. auto.
Qed.

End Linear.

(* the same, for the node after any history *)
Lemma not_wedged_next_block_run : forall t g, info t (bid g) = Some g -> bnum g = 0 -> info t 0 = None -> good_block g = true ->
  forall fuel hist f k hb b,
  let s0 := run t fuel (init_st g) hist in
  budget s0 = None ->
  info t (d_headB (disk_of s0)) = Some hb ->
  info t (bid b) = Some b -> bpar b = bid hb -> bnum b = bnum hb + 1 -> bhv b = 0 -> bbv b = 0 ->
  canon (disk_of s0) (bnum b) = None ->
  let free := fst (InsertChain t (S f) s0 [b]) in
  let sk := fst (InsertChain t (S f) (with_budget (Some k) s0) [b]) in
  exists d h, recover t (disk_of sk) = Some (d, h) /\
    let again := fst (InsertChain t (S f) (fresh d h) [b]) in
    disk_of again = disk_of free /\ cur again = cur free /\ budget again = None /\ cur free = bid b.
Proof.
  intros t g Hg Hg0 Hid0 Hgood fuel hist f k hb b s0 Hbud Hhb Hb Hpar Hnum Hhv Hbv Hfree.
  pose proof (J_run t g Hg0 fuel hist _ (init_J t g Hg Hg0 Hgood)) as [HG HC]. fold s0 in HG, HC.
  assert (Hc : cur s0 = bid hb).
  { rewrite HC; [symmetry; eapply info_bid; eauto|]. unfold alive. rewrite Hbud. discriminate. }
  destruct s0 as [d0 c0 fu lg bu] eqn:Es0. cbn [disk_of cur budget] in *. subst bu.
  exact (not_wedged_next_block t g Hg Hg0 Hid0 Hgood d0 hb b HG Hhb Hb Hpar Hnum Hhv Hbv Hfree f c0 fu lg k Hc).
Qed.
