(* C11 - executable model of block import and restart in core/blockchain.go:
   InsertChain / insertChain (error dispatch) / insertSidechain /
   verifyAllSideChainBlocks / WriteBlockWithState / reorg / stageHead / adoptHead /
   loadLastState / repair, BlockValidator.ValidateBody, and the rawdb accessors
   they use, over abstract blocks.  The database is a record of finite maps;
   every database write (a direct Put or one atomic batch) is one [write];
   "the process is killed after the k-th write of an import" is the same run
   with a write budget of k (later writes are dropped).
   Header verification is the labelled oracle of the harness' test engine
   (harness/cmd/c11/engine.go), which mirrors ucon.Server.verifyHeader's
   chain-dependent checks.
   State of /repo modelled: after dee6410 (block = one batch), 2b21c7f (head switch
   = one batch), 3eba51b (side-chain verification checks the signature), 599b875 (each fork block
   is stored as soon as verifyAllSideChainBlocks has verified it), 0702a5f (a block
   already canonical at or below the head does not become the head again).
   No proofs in this file. *)
From Coq Require Export List NArith Bool.
Export ListNotations.
Open Scope N_scope.

(* ---- blocks -------------------------------------------------------------- *)

(* bhv: header class  0 good, 1 bad signature, 2 bad consensus field, 3 future
   bbv: body class    0 good, 1 body/tx-root mismatch (the body does not execute either),
                      5 tx root only: the header commits to a wrong transaction root, body and all
                        other roots are consistent (only the tx-root test of ValidateBody / of
                        verifyAllSideChainBlocks sees it),
                      other: state / receipt root / bloom / gas-used mismatch (ValidateState fails)
   broot: the state root the header claims; bid: the block hash (0 = no hash) *)
Record block := mkB { bid : N; bpar : N; bnum : N; broot : N; btxs : list N; bhv : N; bbv : N }.

Definition tree := list block.

Fixpoint info (t : tree) (h : N) : option block :=
  match t with
  | [] => None
  | b :: r => if bid b =? h then Some b else info r h
  end.

Definition memN (x : N) (l : list N) : bool := existsb (N.eqb x) l.

(* ---- the database ---------------------------------------------------------- *)

Inductive ew :=
| WBody (b : N) | WHNum (b : N) | WHdr (b : N)   (* rawdb.WriteBlock = body, hash->number, header *)
| WState (r : N)                                  (* trie.Database.Commit of a root not yet on disk *)
| WRcpt (b : N)
| WLook (t b : N) | WUnlook (t : N)
| WHeadH (b : N) | WCanon (n b : N) | WHeadB (b : N)
| WUncanon (n : N).   (* rawdb.DeleteCanonicalHash: never issued by the import paths of the code as it is;
                         present so that an observed deletion is a comparable write, not a harness failure *)

Definition write := list ew.   (* one direct write, or the content of one atomic batch *)

Record disk := mkD {
  d_body : list N; d_hnum : list N; d_hdr : list N;
  d_state : list N; d_rcpt : list N;
  d_look : list (N * N);      (* tx -> block *)
  d_canon : list (N * N);     (* number -> block *)
  d_headH : N; d_headB : N }.

Fixpoint alookup (k : N) (m : list (N * N)) : option N :=
  match m with
  | [] => None
  | (k', v) :: r => if k' =? k then Some v else alookup k r
  end.
Definition aremove (k : N) (m : list (N * N)) : list (N * N) :=
  filter (fun kv => negb (fst kv =? k)) m.
Definition aset (k v : N) (m : list (N * N)) : list (N * N) := (k, v) :: aremove k m.
Definition addN (x : N) (l : list N) : list N := if memN x l then l else x :: l.

Definition apply_ew (e : ew) (d : disk) : disk :=
  match e with
  | WBody b => mkD (addN b (d_body d)) (d_hnum d) (d_hdr d) (d_state d) (d_rcpt d) (d_look d) (d_canon d) (d_headH d) (d_headB d)
  | WHNum b => mkD (d_body d) (addN b (d_hnum d)) (d_hdr d) (d_state d) (d_rcpt d) (d_look d) (d_canon d) (d_headH d) (d_headB d)
  | WHdr b => mkD (d_body d) (d_hnum d) (addN b (d_hdr d)) (d_state d) (d_rcpt d) (d_look d) (d_canon d) (d_headH d) (d_headB d)
  | WState r => mkD (d_body d) (d_hnum d) (d_hdr d) (addN r (d_state d)) (d_rcpt d) (d_look d) (d_canon d) (d_headH d) (d_headB d)
  | WRcpt b => mkD (d_body d) (d_hnum d) (d_hdr d) (d_state d) (addN b (d_rcpt d)) (d_look d) (d_canon d) (d_headH d) (d_headB d)
  | WLook t b => mkD (d_body d) (d_hnum d) (d_hdr d) (d_state d) (d_rcpt d) (aset t b (d_look d)) (d_canon d) (d_headH d) (d_headB d)
  | WUnlook t => mkD (d_body d) (d_hnum d) (d_hdr d) (d_state d) (d_rcpt d) (aremove t (d_look d)) (d_canon d) (d_headH d) (d_headB d)
  | WHeadH b => mkD (d_body d) (d_hnum d) (d_hdr d) (d_state d) (d_rcpt d) (d_look d) (d_canon d) b (d_headB d)
  | WCanon n b => mkD (d_body d) (d_hnum d) (d_hdr d) (d_state d) (d_rcpt d) (d_look d) (aset n b (d_canon d)) (d_headH d) (d_headB d)
  | WHeadB b => mkD (d_body d) (d_hnum d) (d_hdr d) (d_state d) (d_rcpt d) (d_look d) (d_canon d) (d_headH d) b
  | WUncanon n => mkD (d_body d) (d_hnum d) (d_hdr d) (d_state d) (d_rcpt d) (d_look d) (aremove n (d_canon d)) (d_headH d) (d_headB d)
  end.

Definition apply_write (w : write) (d : disk) : disk := fold_left (fun d e => apply_ew e d) w d.

(* ---- reads (rawdb + the BlockChain/HeaderChain getters; the LRU caches only
   hold what was read from the database and nothing is deleted on these paths) *)

Section Reads.
Variable t : tree.

(* GetHeader(hash, number): the key holds the number *)
Definition get_header (d : disk) (h n : N) : option block :=
  if memN h (d_hdr d) then
    match info t h with Some b => if bnum b =? n then Some b else None | None => None end
  else None.
(* GetBlock(hash, number) = ReadHeader + ReadBody *)
Definition get_block (d : disk) (h n : N) : option block :=
  if memN h (d_body d) then get_header d h n else None.
(* HasBlock = HasBody *)
Definition has_block (d : disk) (h : N) : bool := memN h (d_body d).
Definition canon (d : disk) (n : N) : option N := alookup n (d_canon d).
Definition get_header_by_number (d : disk) (n : N) : option block :=
  match canon d n with Some h => get_header d h n | None => None end.
Definition get_block_by_number (d : disk) (n : N) : option block :=
  match canon d n with Some h => get_block d h n | None => None end.
(* GetBlockByHash / GetHeaderByHash go through the hash->number entry *)
Definition get_block_by_hash (d : disk) (h : N) : option block :=
  if memN h (d_hnum d) then match info t h with Some b => get_block d h (bnum b) | None => None end else None.
Definition has_state (d : disk) (r : N) : bool := memN r (d_state d).
Definition has_block_and_state (d : disk) (h n : N) : bool :=
  match get_block d h n with Some b => has_state d (broot b) | None => false end.
(* parent by (ParentHash, Number-1); Number-1 wraps for the genesis: nothing is found *)
Definition parent_block (d : disk) (b : block) : option block :=
  if bnum b =? 0 then None else get_block d (bpar b) (bnum b - 1).
Definition parent_header (d : disk) (b : block) : option block :=
  if bnum b =? 0 then None else get_header d (bpar b) (bnum b - 1).
End Reads.

(* ---- the running node ------------------------------------------------------ *)

Inductive err :=
| ENone | EKnown | EFuture | EUnknownAnc | EPruned | EExist
| EBadHeader | EBadBody | EBadState | EStateMissing | EMissingParent | EReorg
| ENonContig | EDoor | EPanic | EFuel.

Definition err_code (e : err) : N :=
  match e with
  | ENone => 0 | EKnown => 1 | EFuture => 2 | EUnknownAnc => 3 | EPruned => 4 | EExist => 5
  | EBadHeader => 6 | EBadBody => 7 | EBadState => 8 | EStateMissing => 9 | EMissingParent => 10
  | EReorg => 11 | ENonContig => 12 | EDoor => 13 | EPanic => 14 | EFuel => 15
  end.

(* budget: None = the process is never killed; Some k = k more writes reach the
   disk, the rest is lost. *)
Record st := mkS {
  disk_of : disk; cur : N; future : list N;
  wlog : list write; budget : option nat }.

Definition wr (w : write) (s : st) : st :=
  match w with
  | [] => s       (* an empty batch changes nothing *)
  | _ =>
    match budget s with
    | None => mkS (apply_write w (disk_of s)) (cur s) (future s) (wlog s ++ [w]) None
    | Some O => s
    | Some (S k) => mkS (apply_write w (disk_of s)) (cur s) (future s) (wlog s ++ [w]) (Some k)
    end
  end.

Definition set_cur (h : N) (s : st) : st := mkS (disk_of s) h (future s) (wlog s) (budget s).
Definition set_future (f : list N) (s : st) : st := mkS (disk_of s) (cur s) f (wlog s) (budget s).
Definition die (s : st) : st := mkS (disk_of s) (cur s) (future s) (wlog s) (Some O).

(* rawdb.WriteBlock through one batch: body, hash->number, header *)
Definition block_batch (b : block) : write := [WBody (bid b); WHNum (bid b); WHdr (bid b)].
Definition write_block (b : block) (s : st) : st := wr (block_batch b) s.

(* stageHead: head-header marker, canonical hash, head-block marker (into the batch) *)
Definition stage_head (b : block) : write := [WHeadH (bid b); WCanon (bnum b) (bid b); WHeadB (bid b)].

Section Import.
Variable t : tree.

(* ---- header verdicts: testEngine.verifyHeader (mirrors ucon verifyHeader) ---- *)
Definition verify_header (d : disk) (prev : option block) (b : block) : err :=
  if bhv b =? 3 then EFuture
  else if bhv b =? 1 then EBadHeader
  else if bnum b =? 0 then ENone
  else
    match (match prev with Some p => Some p | None => parent_header t d b end) with
    | None => EUnknownAnc
    | Some p =>
      if negb ((bnum p + 1 =? bnum b) && (bid p =? bpar b)) then EUnknownAnc
      else
        match get_header_by_number t d (bnum b) with
        | Some l => if negb (bid l =? bid b) then EExist else if bhv b =? 2 then EBadHeader else ENone
        | None => if bhv b =? 2 then EBadHeader else ENone
        end
    end.

(* VerifyHeaders, all verdicts on the database as it is when insertChain starts *)
Fixpoint verdicts (d : disk) (prev : option block) (chain : list block) : list err :=
  match chain with
  | [] => []
  | b :: r => verify_header d prev b :: verdicts d (Some b) r
  end.

(* BlockValidator.ValidateBody *)
Definition validate_body (d : disk) (b : block) : err :=
  let known :=
    has_block_and_state t d (bid b) (bnum b) &&
    match get_header_by_number t d (bnum b) with Some l => bid l =? bid b | None => false end in
  if known then EKnown
  else if negb (if bnum b =? 0 then false else has_block_and_state t d (bpar b) (bnum b - 1)) then
    (if has_block d (bpar b) then EPruned else EUnknownAnc)
  else if (bbv b =? 1) || (bbv b =? 5) then EBadBody else ENone.

(* ---- reorg ---------------------------------------------------------------- *)

(* "first reduce whoever is higher": walk b down to height n, collecting *)
Fixpoint walk_down (fuel : nat) (d : disk) (b : block) (n : N) (acc : list block) : option (block * list block) :=
  if bnum b =? n then Some (b, acc)
  else match fuel with
       | O => None
       | S f => match parent_block t d b with
                | None => None
                | Some p => walk_down f d p n (acc ++ [b])
                end
       end.

Fixpoint find_common (fuel : nat) (d : disk) (o n : block) (oc nc : list block) : option (list block * list block) :=
  if bid o =? bid n then Some (oc, nc)
  else match fuel with
       | O => None
       | S f => match parent_block t d o with
                | None => None
                | Some o' => match parent_block t d n with
                             | None => None
                             | Some n' => find_common f d o' n' (oc ++ [o]) (nc ++ [n])
                             end
                end
       end.

Definition fuel_of (b : block) : nat := S (N.to_nat (bnum b)).

(* the old and new chains of reorg(old, new), highest block first *)
Definition reorg_chains (d : disk) (o n : block) : option (list block * list block) :=
  if bnum n <? bnum o then
    match walk_down (fuel_of o) d o (bnum n) [] with
    | None => None
    | Some (o', oc) => find_common (fuel_of n) d o' n oc []
    end
  else
    match walk_down (fuel_of n) d n (bnum o) [] with
    | None => None
    | Some (n', nc) => find_common (fuel_of o) d o n' [] nc
    end.

Definition all_txs (l : list block) : list N := flat_map btxs l.

(* what reorg stages into the caller's batch: for the new chain, lowest block
   first, the head markers and lookups of each block; then the deletion of the
   lookups of transactions that are only in the old chain *)
Definition stage_block (x : block) : write := stage_head x ++ map (fun tx => WLook tx (bid x)) (btxs x).

Definition reorg (d : disk) (o n : block) : option write :=
  match reorg_chains d o n with
  | None => None
  | Some (oc, nc) =>
    let added := all_txs nc in
    let diff := filter (fun x => negb (memN x added)) (all_txs oc) in
    Some (flat_map stage_block (rev nc) ++ map WUnlook diff)
  end.

(* ---- WriteBlockWithState -------------------------------------------------- *)
(* p: the parent the block was processed on.  Three database writes: the block
   (one batch), the state (trie.Database.Commit flushes the nodes the block's
   execution created, whether or not they are on disk already; a block that
   leaves the state unchanged creates none), and the head switch (one batch:
   receipts, reorg's entries, the block's lookups, the head markers).  The
   in-memory head moves after the batch is written. *)
Definition write_block_with_state (p b : block) (s : st) : st * err :=
  let s := write_block b s in
  let s := if broot b =? broot p then s else wr [WState (broot b)] s in
  let rc := match btxs b with [] => [] | _ => [WRcpt (bid b)] end in
  (* a block that is already canonical at or below the head (executed again because
     its state was missing): only state and receipts are new, the head stays *)
  let already :=
    match info t (cur s) with
    | Some c => (bnum b <=? bnum c) && (match canon (disk_of s) (bnum b) with Some h => h =? bid b | None => false end)
    | None => false
    end in
  if already then (wr rc s, ENone) else
  let r :=
    if bpar b =? cur s then Some []
    else match info t (cur s) with
         | None => None
         | Some c => reorg (disk_of s) c b
         end in
  match r with
  | None => (s, EReorg)
  | Some rg =>
    let s := wr (rc ++ rg ++ map (fun tx => WLook tx (bid b)) (btxs b) ++ stage_head b) s in
    let s := set_cur (bid b) s in
    (set_future (filter (fun x => negb (x =? bid b)) (future s)) s, ENone)
  end.

(* ---- verifyAllSideChainBlocks (test engine: look-back of two rounds) -------- *)
Definition lookback (n : N) : N := if 2 <? n then n - 2 else 0.

(* each block is stored (WriteBlockWithoutState, one batch) as soon as it is verified:
   an error at a later block leaves the verified prefix of the fork in the database *)
Fixpoint vasc_loop (s : st) (first : N) (prev : block) (chain : list block) : st * err :=
  match chain with
  | [] => (s, ENone)
  | b :: r =>
    let d := disk_of s in
    let lb := lookback (bnum b) in
    if (lb <? first) && (match get_header_by_number t d lb with None => true | Some _ => false end) then (s, EPanic)
    else if negb ((bnum prev + 1 =? bnum b) && (bid prev =? bpar b)) then (s, EUnknownAnc)
    else if (bhv b =? 1) || (bhv b =? 2) then (s, EBadHeader)       (* verifySignature, consensus field *)
    (* the state-independent part of ValidateBody (transaction root), then Process + ValidateState *)
    else if (bbv b =? 1) || (bbv b =? 5) then (s, EBadBody)
    else if negb (bbv b =? 0) then (s, EBadState)
    else vasc_loop (if has_block d (bid b) then s else write_block b s) first b r
  end.

Definition verify_all_side_chain_blocks (s : st) (chain : list block) : st * err :=
  match chain with
  | [] => (s, ENone)
  | b0 :: _ =>
    match parent_block t (disk_of s) b0 with
    | None => (s, EUnknownAnc)
    | Some p => if negb (has_state (disk_of s) (broot p)) then (s, EStateMissing) else vasc_loop s (bnum b0) p chain
    end
  end.

(* ---- insertSidechain ------------------------------------------------------ *)
Fixpoint skip_canonical (d : disk) (chain : list block) : list block :=
  match chain with
  | [] => []
  | b :: r =>
    match get_block_by_number t d (bnum b) with
    | Some c => if bid c =? bid b then skip_canonical d r else chain
    | None => chain
    end
  end.

(* the walk from the side chain's tip down to the first block that is canonical
   and has state; None = nil dereference (GetHeader returned nil) *)
Fixpoint collect_side (fuel : nat) (d : disk) (p : block) (acc : list block) : option (list block * block) :=
  let stop :=
    match get_header_by_number t d (bnum p) with
    | None => false
    | Some l => has_state d (broot p) && (bid l =? bid p)
    end in
  if stop then Some (acc, p)
  else match fuel with
       | O => None
       | S f => match parent_header t d p with
                | None => None
                | Some q => collect_side f d q (acc ++ [p])
                end
       end.

Fixpoint get_blocks (d : disk) (l : list block) : option (list block) :=
  match l with
  | [] => Some []
  | b :: r => match get_block t d (bid b) (bnum b), get_blocks d r with
              | Some x, Some xs => Some (x :: xs)
              | _, _ => None
              end
  end.

Definition insert_sidechain (ic : st -> list block -> st * err) (s : st) (chain : list block) : st * err :=
  match skip_canonical (disk_of s) chain with
  | [] => (s, ENone)
  | chain =>
    match verify_all_side_chain_blocks s chain with
    | (s, ENone) =>
      let s := fold_left (fun s b => if has_block (disk_of s) (bid b) then s else write_block b s) chain s in
      let last := last chain (mkB 0 0 0 0 [] 0 0) in
      match info t (cur s) with
      | None => (die s, EPanic)
      | Some c =>
        if bnum last <=? bnum c then (s, ENone)
        else
          match collect_side (fuel_of last) (disk_of s) last [] with
          | None => (die s, EPanic)
          | Some (hs, anc) =>
            match hs with
            | [] => (s, ENone)
            | _ =>
              match get_blocks (disk_of s) (rev (hs ++ [anc])) with
              | None => (die s, EPanic)
              | Some blocks => ic s blocks
              end
            end
          end
      end
    | (s, EPanic) => (die s, EPanic)
    | (s, e) => (s, e)
    end
  end.

(* ---- insertChain ----------------------------------------------------------- *)
Fixpoint ic_loop (side : st -> list block -> st * err) (s : st) (items : list (block * err)) (prev : option block) : st * err :=
  match items with
  | [] => (s, ENone)
  | (b, v) :: rest =>
    let d := disk_of s in
    let process (s : st) :=
      match (match prev with Some p => Some p | None => parent_block t d b end) with
      | None => ic_loop side s rest (Some b)          (* parent == nil: continue *)
      | Some p =>
        if negb (has_state (disk_of s) (broot p)) then (s, EStateMissing)
        else if negb (bbv b =? 0) then (s, EBadState)
        else match write_block_with_state p b s with
             | (s', ENone) => ic_loop side s' rest (Some b)
             | (s', e) => (s', e)
             end
      end in
    let e := match v with ENone => validate_body d b | _ => v end in
    match e with
    | EKnown => ic_loop side s rest (Some b)
    | EFuture => ic_loop side (set_future (bid b :: future s) s) rest (Some b)
    | EUnknownAnc =>
      if memN (bpar b) (future s) then ic_loop side (set_future (bid b :: future s) s) rest (Some b)
      else (s, EUnknownAnc)
    | EPruned => side s (b :: map fst rest)
    | EExist =>
      match prev with
      | None => side s (b :: map fst rest)
      | Some _ =>
        if (bhv b =? 1) || (bhv b =? 2) then (s, EBadHeader)       (* VerifySeal *)
        else match validate_body d b with
             | ENone => process s
             | e' => (s, e')
             end
      end
    | ENone => process s
    | e' => (s, e')
    end
  end.

Fixpoint insert_chain (fuel : nat) (s : st) (chain : list block) : st * err :=
  match fuel with
  | O => (s, EFuel)
  | S f =>
    ic_loop (insert_sidechain (insert_chain f)) s
            (combine chain (verdicts (disk_of s) None chain)) None
  end.

(* ---- InsertChain (exported): contiguity, version-state door, insertChain ---- *)
Fixpoint contiguous (chain : list block) : bool :=
  match chain with
  | a :: ((b :: _) as r) => (bnum a + 1 =? bnum b) && (bid a =? bpar b) && contiguous r
  | _ => true
  end.

Definition InsertChain (fuel : nat) (s : st) (chain : list block) : st * err :=
  match chain with
  | [] => (s, ENone)
  | b0 :: _ =>
    if negb (contiguous chain) then (s, ENonContig)
    else if (bnum b0 =? 0) || (match get_header_by_number t (disk_of s) (bnum b0 - 1) with None => true | Some _ => false end)
    then (s, EDoor)
    else insert_chain fuel s chain
  end.

(* ---- restart: NewHeaderChain + loadLastState + repair ------------------------- *)
Fixpoint repair (fuel : nat) (d : disk) (h : block) : option block :=
  if has_state d (broot h) then Some h
  else match fuel with
       | O => None
       | S f => match parent_block t d h with
                | None => None
                | Some p => repair f d p
                end
       end.

(* result: the database after the start (loadLastState rewrites the head-header
   marker; Reset rewrites the genesis) and the in-memory head *)
Definition recover (d : disk) : option (disk * N) :=
  match get_header_by_number t d 0, get_block_by_number t d 0 with
  | Some _, Some g =>
    match (if d_headB d =? 0 then None else get_block_by_hash t d (d_headB d)) with
    | None =>
      let ws := [[WBody (bid g)]; [WHNum (bid g)]; [WHdr (bid g)]; [WHeadH (bid g)]; [WCanon 0 (bid g)]; [WHeadB (bid g)]] in
      Some (fold_left (fun d w => apply_write w d) ws d, bid g)
    | Some hb =>
      match repair (fuel_of hb) d hb with
      | None => None
      | Some hb' => Some (apply_write [WHeadH (bid hb')] d, bid hb')
      end
    end
  | _, _ => None
  end.

(* ---- the property, executable ------------------------------------------------ *)

Definition good_block (b : block) : bool := negb (bhv b =? 1) && negb (bhv b =? 2) && (bbv b =? 0).

(* canonical index parent-linked from height n down to the genesis, every entry a
   stored block of that height *)
Fixpoint linked_down (fuel : nat) (d : disk) (n : N) (h : N) : bool :=
  match get_block t d h n with
  | None => false
  | Some b =>
    if n =? 0 then true
    else match fuel with
         | O => false
         | S f => match canon d (n - 1) with
                  | Some p => (p =? bpar b) && linked_down f d (n - 1) p
                  | None => false
                  end
         end
  end.

Definition lookups_ok (d : disk) (headnum : N) : bool :=
  forallb (fun kv =>
    match info t (snd kv) with
    | None => false
    | Some b => (bnum b <=? headnum) && memN (fst kv) (btxs b) &&
                match canon d (bnum b) with Some h => h =? bid b | None => false end
    end) (d_look d).

Definition canon_good (d : disk) : bool :=
  forallb (fun nh => match info t (snd nh) with Some b => good_block b | None => false end) (d_canon d).

(* clauses 1-3 of the property: index parent-linked from genesis to head, head
   state available, lookups point into canonical blocks at or below the head *)
Definition chain_consistent_b (d : disk) (head : N) : bool :=
  match info t head with
  | None => false
  | Some hb =>
    match canon d (bnum hb) with
    | Some h => (h =? head) && linked_down (fuel_of hb) d (bnum hb) head
    | None => false
    end
    && has_state d (broot hb) && lookups_ok d (bnum hb)
  end.

(* plus clause 4: no invalid block anywhere in the canonical index *)
Definition consistent_b (d : disk) (head : N) : bool := chain_consistent_b d head && canon_good d.

End Import.

(* ---- histories ------------------------------------------------------------------ *)

Definition blocks_of (t : tree) (ids : list N) : list block :=
  flat_map (fun h => match info t h with Some b => [b] | None => [] end) ids.

Definition import_fuel : nat := 6.

(* a freshly initialised database: genesis g written by Genesis.Commit *)
Definition init_disk (g : block) : disk :=
  mkD [bid g] [bid g] [bid g] [broot g] [bid g] [] [(0, bid g)] (bid g) (bid g).
Definition init_st (g : block) : st := mkS (init_disk g) (bid g) [] [] None.

Definition clear_log (s : st) : st := mkS (disk_of s) (cur s) (future s) [] (budget s).
Definition with_budget (k : option nat) (s : st) : st := mkS (disk_of s) (cur s) (future s) [] k.
Definition fresh (d : disk) (head : N) : st := mkS d head [] [] None.

(* a history: batches of block ids offered to InsertChain one after the other *)
Definition run (t : tree) (fuel : nat) (s : st) (hist : list (list N)) : st :=
  fold_left (fun s ids => fst (InsertChain t fuel s (blocks_of t ids))) hist s.

(* the process is killed after the k-th database write of the import of [batch] *)
Definition crash_run (t : tree) (fuel : nat) (s : st) (batch : list N) (k : nat) : st :=
  fst (InsertChain t fuel (with_budget (Some k) s) (blocks_of t batch)).

(* ---- correspondence runner ----------------------------------------------------- *)

(* what the harness reads back from the real database (sorted) *)
Record obs := mkO {
  o_head : N; o_headB : N; o_headH : N;
  o_canon : list (N * N); o_state : list N; o_hdr : list N; o_body : list N; o_hnum : list N;
  o_rcpt : list N; o_look : list (N * N) }.

Definition subsetN (a b : list N) : bool := forallb (fun x => memN x b) a.
Definition eqsetN (a b : list N) : bool := subsetN a b && subsetN b a.
Definition memP (x : N * N) (l : list (N * N)) : bool := existsb (fun y => (fst x =? fst y) && (snd x =? snd y)) l.
Definition eqsetP (a b : list (N * N)) : bool := forallb (fun x => memP x b) a && forallb (fun x => memP x a) b.

Definition obs_ok (s : st) (o : obs) : bool :=
  let d := disk_of s in
  (cur s =? o_head o) && (d_headB d =? o_headB o) && (d_headH d =? o_headH o)
  && eqsetP (d_canon d) (o_canon o) && eqsetN (d_state d) (o_state o)
  && eqsetN (d_hdr d) (o_hdr o) && eqsetN (d_body d) (o_body o) && eqsetN (d_hnum d) (o_hnum o)
  && eqsetN (d_rcpt d) (o_rcpt o) && eqsetP (d_look d) (o_look o).

Definition ew_eqb (a b : ew) : bool :=
  match a, b with
  | WBody x, WBody y | WHNum x, WHNum y | WHdr x, WHdr y | WState x, WState y
  | WRcpt x, WRcpt y | WUnlook x, WUnlook y | WHeadH x, WHeadH y | WHeadB x, WHeadB y | WUncanon x, WUncanon y => x =? y
  | WLook x1 x2, WLook y1 y2 | WCanon x1 x2, WCanon y1 y2 => (x1 =? y1) && (x2 =? y2)
  | _, _ => false
  end.
Fixpoint list_eqb {A} (f : A -> A -> bool) (a b : list A) : bool :=
  match a, b with
  | [], [] => true
  | x :: a', y :: b' => f x y && list_eqb f a' b'
  | _, _ => false
  end.
Definition log_eqb := list_eqb (list_eqb ew_eqb).

(* one crash point: killed after the k-th write (k = position in the list + 1) *)
Record crashobs := mkCr {
  cr_ok : bool;            (* NewBlockChain returned without error *)
  cr_head : N;             (* head after the restart *)
  cr_cons : bool;          (* the harness' own consistency verdict on the restarted node *)
  cr_mid : bool;           (* the harness' classification of the crash point: inside a head switch *)
  cr_rerr : N;             (* result of offering the interrupted batch again *)
  cr_rhead : N;            (* head after that *)
  cr_fhead : N }.          (* head after the further block *)

(* one offered batch with everything observed around it *)
Record step := mkStep {
  sp_batch : list N;
  sp_err : N; sp_log : list write; sp_obs : obs;
  sp_cons : bool;                  (* harness' consistency verdict after the batch *)
  sp_further : N;                  (* id of the further valid block (0 = none generated) *)
  sp_fhead : N;                    (* crash-free head after batch + further block *)
  sp_crash : list crashobs }.      (* empty = crash points not enumerated for this batch *)

Definition crash_ok (t : tree) (s0 : st) (batch : list block) (further : list block) (k : nat) (c : crashobs) : bool :=
  let (sk, _) := InsertChain t import_fuel (with_budget (Some k) s0) batch in
  negb (cr_mid c) &&      (* no crash point is inside a head switch any more *)
  match recover t (disk_of sk) with
  | None => negb (cr_ok c)
  | Some (d, h) =>
    cr_ok c && (h =? cr_head c) && Bool.eqb (consistent_b t d h) (cr_cons c) &&
    let (s1, e1) := InsertChain t import_fuel (fresh d h) batch in
    (err_code e1 =? cr_rerr c) && (cur s1 =? cr_rhead c) &&
    match further, e1 with
    | [], _ | _, EPanic => true
    | _, _ => let (s2, _) := InsertChain t import_fuel s1 further in cur s2 =? cr_fhead c
    end
  end.

Fixpoint crashes_ok (t : tree) (s0 : st) (batch further : list block) (k : nat) (l : list crashobs) : bool :=
  match l with
  | [] => true
  | c :: r => crash_ok t s0 batch further k c && crashes_ok t s0 batch further (S k) r
  end.

(* returns the verdict and the state after the last step (None after a panic) *)
Fixpoint steps_ok (t : tree) (s : st) (l : list step) : bool * option st :=
  match l with
  | [] => (true, Some s)
  | p :: r =>
    let batch := blocks_of t (sp_batch p) in
    let further := blocks_of t [sp_further p] in
    let (s', e) := InsertChain t import_fuel (clear_log s) batch in
    let ok :=
      (err_code e =? sp_err p) && log_eqb (wlog s') (sp_log p) && obs_ok s' (sp_obs p)
      && Bool.eqb (consistent_b t (disk_of s') (cur s')) (sp_cons p)
      && (match further, e with
          | [], _ | _, EPanic => true
          | _, _ => let (s2, _) := InsertChain t import_fuel s' further in cur s2 =? sp_fhead p
          end)
      && crashes_ok t s batch further 1 (sp_crash p) in
    match e with
    | EPanic => (ok, None)
    | _ => let (ok', fin) := steps_ok t s' r in (ok && ok', fin)
    end
  end.

(* a database that lost some state roots (not a crash point of this code: it
   exercises loadLastState's repair): restart result as observed *)
Record dmg := mkDmg { dm_roots : list N; dm_ok : bool; dm_head : N; dm_cons : bool }.

Definition drop_states (roots : list N) (d : disk) : disk :=
  mkD (d_body d) (d_hnum d) (d_hdr d) (filter (fun r => negb (memN r roots)) (d_state d)) (d_rcpt d)
      (d_look d) (d_canon d) (d_headH d) (d_headB d).

Definition dmg_ok (t : tree) (d : disk) (x : dmg) : bool :=
  match recover t (drop_states (dm_roots x) d) with
  | None => negb (dm_ok x)
  | Some (d', h) => dm_ok x && (h =? dm_head x) && Bool.eqb (consistent_b t d' h) (dm_cons x)
  end.

Record case := mkCase { c_tree : tree; c_steps : list step; c_damage : list dmg }.

Definition genesis_of (t : tree) : block := hd (mkB 0 0 0 0 [] 0 0) t.

Definition case_ok (c : case) : bool :=
  let (ok, fin) := steps_ok (c_tree c) (init_st (genesis_of (c_tree c))) (c_steps c) in
  ok && match fin with
        | None => true
        | Some s => forallb (dmg_ok (c_tree c) (disk_of s)) (c_damage c)
        end.

Fixpoint mismatches_from (i : N) (l : list case) : list N :=
  match l with
  | [] => []
  | c :: r => if case_ok c then mismatches_from (i + 1) r else i :: mismatches_from (i + 1) r
  end.
Definition mismatches := mismatches_from 0.
