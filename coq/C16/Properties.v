(* C16 - property theorems only.  Each is closed by [exact] of a lemma of
   ProofsEvm.v / Bridge.v and followed by Print Assumptions.

   Reading guide.  [run G P fuel] is the interpreter on the abstract byte code of
   program table P under gas table G; [call_frame] is evm.Call / CallCode /
   DelegateCall / StaticCall (by kind), [create_frame] is evm.create; both take
   the interpreter as argument, so every statement below holds for every frame at
   every depth of every execution (the callee frames are instances of the same
   functions).  All statements quantify over every program table, every action
   list, every state, value, gas allotment and fuel; a model run that exhausts
   its fuel has status OutOfFuel and never Failed/Reverted.
   [seq a b]: same accounts (existence, nonce, balance, code, the three storage layers,
   suicided flag - [alookup] equal at every address), same logs, same refund counter,
   same set of objects deleted earlier in the block.
   [veq a b]: the same, except that a missing account and a pristine empty one
   are not distinguished (evm.Call materialises the callee account even for a
   zero-value call under STATICCALL; Finalise(true) removes it again - EIP-161). *)
From VF.C16 Require Import Model ProofsState ProofsEvm Bridge.
From VF.gen Require Import C16Table C16Aliasing.
Local Open Scope N_scope.

(* 1a. A call frame of any kind that ends in an error or a revert leaves accounts
   (balances, nonces, storage, code, created accounts), logs and refund exactly as
   they were before the frame. *)
Theorem C16_failed_call_no_trace :
  forall G P fuel k cx to gas value s r,
    r = call_frame G P (run G P fuel) k cx to gas value s ->
    r_status r = Failed \/ r_status r = Reverted ->
    (forall a, alookup a (accts (r_st r)) = alookup a (accts s)) /\ logs (r_st r) = logs s /\
    (refund (r_st r) = refund s /\ graves (r_st r) = graves s).
Proof. exact failed_call_no_trace. Qed.
Print Assumptions C16_failed_call_no_trace.

(* 1a in any transaction of a block.  [block_state G P fuel txs s0] is the state in which
   the next transaction starts after the transactions [txs] have run on s0 with
   Finalise(true) after each (dirty storage parked in the pending layer, suicided and
   empty touched accounts deleted, journal cleared).  A failing frame leaves every
   account as it found it there too - in particular every slot as GetState (dirty,
   then pending, then trie) and GetCommittedState (pending, then trie) read it. *)
Theorem C16_failed_call_no_trace_in_block :
  forall G P fuel txs s0 k cx to gas value r,
    r = call_frame G P (run G P fuel) k cx to gas value (block_state G P fuel txs s0) ->
    r_status r = Failed \/ r_status r = Reverted ->
    seq (r_st r) (block_state G P fuel txs s0) /\
    (forall a key, get_state a key (r_st r) = get_state a key (block_state G P fuel txs s0) /\
                   get_committed a key (r_st r) = get_committed a key (block_state G P fuel txs s0)).
Proof. exact failed_call_no_trace_in_block. Qed.
Print Assumptions C16_failed_call_no_trace_in_block.

(* 1b. The same for CREATE/CREATE2 frames; the only thing that may remain is the
   creator's nonce increment, which evm.create performs before taking the snapshot. *)
Theorem C16_failed_create_no_trace :
  forall G P fuel cx init gas value address s r,
    r = create_frame G P (run G P fuel) cx init gas value address s ->
    r_status r = Failed \/ r_status r = Reverted ->
    seq (r_st r) s \/ seq (r_st r) (set_nonce (c_self cx) (get_nonce (c_self cx) s + 1) s).
Proof. exact failed_create_no_trace. Qed.
Print Assumptions C16_failed_create_no_trace.

(* 2. Static mode: code run with readOnly set changes nothing, whatever it does and
   however it ends; so does a STATICCALL from any context, and any call issued
   beneath one (CALL only with zero value - the interpreter refuses the others). *)
Theorem C16_static_pure :
  forall G P fuel, writes_ok G = true -> no_resurrection G = true ->
    (forall cx acts mem gas s, c_static cx = true -> veq s (r_st (run G P fuel cx acts mem gas s))) /\
    (forall k cx to gas value s, c_static cx = true \/ k = KStatic -> (k = KCall -> value = 0) ->
       veq s (r_st (call_frame G P (run G P fuel) k cx to gas value s))).
Proof. exact static_pure. Qed.
Print Assumptions C16_static_pure.

(* 3. The sum of all balances after any frame plus the value it reports as burnt
   equals the sum before; [r_burnt] grows only at SELFDESTRUCT with beneficiary =
   the destructed account, by its balance, and is dropped when the frame is
   reverted.  ([wf]: no address occurs twice in the account map - an invariant,
   also proved here.) *)
Theorem C16_value_conserved :
  forall G P fuel, no_resurrection G = true ->
    (forall cx acts mem gas s, wf s -> let r := run G P fuel cx acts mem gas s in
       wf (r_st r) /\ total (r_st r) + r_burnt r = total s) /\
    (forall k cx to gas value s, wf s -> let r := call_frame G P (run G P fuel) k cx to gas value s in
       wf (r_st r) /\ total (r_st r) + r_burnt r = total s) /\
    (forall cx init gas value address s, wf s -> let r := create_frame G P (run G P fuel) cx init gas value address s in
       wf (r_st r) /\ total (r_st r) + r_burnt r = total s).
Proof. exact value_conserved. Qed.
Print Assumptions C16_value_conserved.

(* 3 over a block: no value appears - execution conserves it up to the burns and Finalise
   only removes the balances of the accounts it deletes.  This needs [no_resurrection]:
   CreateAccount must not hand the balance of an account deleted earlier in the block to
   the re-created one (it did until /repo commit af1e035; the translator probes it). *)
Theorem C16_block_no_value_created :
  forall G P fuel txs s, no_resurrection G = true -> wf s ->
    wf (block_state G P fuel txs s) /\ total (block_state G P fuel txs s) <= total s.
Proof. exact block_no_value_created. Qed.
Print Assumptions C16_block_no_value_created.

(* 4. Gas: what a frame hands back never exceeds what it was given - for the
   interpreter loop, for the four call kinds (the stipend included in "given")
   and for create. *)
Theorem C16_gas :
  forall G P fuel, stipend_ok G = true ->
    (forall cx acts mem gas s, r_gas (run G P fuel cx acts mem gas s) <= gas) /\
    (forall k cx to gas value s, r_gas (call_frame G P (run G P fuel) k cx to gas value s) <= gas) /\
    (forall cx init gas value address s, r_gas (create_frame G P (run G P fuel) cx init gas value address s) <= gas).
Proof. exact gas_bounded. Qed.
Print Assumptions C16_gas.

(* the whole property as one statement about one (gas table, program, fuel):
   see [C16_full] in ProofsEvm.v - parts 1-4 above plus their transaction-level
   instances [tx_call] / [tx_create] *)
Theorem C16_full_holds : C16_full.
Proof. exact c16_full. Qed.
Print Assumptions C16_full_holds.

(* bridge: the regenerated jump table / parameters meet the side conditions, and the
   rows agree with the model (writes exactly on SSTORE, LOG0-4, CREATE, CREATE2,
   SELFDESTRUCT; constant gas; halts/reverts/jumps flags; 0xfe invalid) *)
Theorem C16_real_table_ok : writes_ok real_gas = true /\ stipend_ok real_gas = true /\ no_resurrection real_gas = true.
Proof. exact (table_ok_split real_gas real_table_ok). Qed.
Print Assumptions C16_real_table_ok.

Theorem C16_real_rows_ok : rows_ok real_ops real_gas = true.
Proof. exact real_rows_ok. Qed.
Print Assumptions C16_real_rows_ok.

(* bridge: no in-place modification of a stored account balance (journal-shared big.Int
   values), and no in-place big.Int write on a stored field beyond the pinned inventory *)
Theorem C16_inplace_writes_pinned : inplace_ok C16Aliasing.inplace_writes = true.
Proof. exact real_inplace_writes_pinned. Qed.
Print Assumptions C16_inplace_writes_pinned.

(* ---- non-vacuity ------------------------------------------------------------------ *)

(* contract 1: SSTORE, LOG, then call contract 2 with value 3 and require success;
   contract 2: SSTORE, SELFDESTRUCT-free, then REVERT.  The inner frame reverts
   after writing, the outer one reverts because of it. *)
Definition ex_prog : prog :=
  [(1, mkCode [ASstore 0 7; ALog [5] 32; ACall KCall 50000 (Base 2) 3 true; ASstore 1 1] 200);
   (2, mkCode [ASstore 0 9; ARevert] 80);
   (3, mkCode [ACall KStatic 60000 (Base 4) 0 false] 90);
   (4, mkCode [ACall KCall 30000 (Base 9) 0 false; AReturn 0] 90);
   (5, mkCode [ASelfdestruct (Base 5)] 30);
   (* contract 6: first transaction of the block moves slot 0 away from its committed value 7;
      the second puts 7 back and then delegate-calls code 7, which writes the slot and reverts *)
   (6, mkCode [AIf 9 1 true 3; ASstore 0 7; ACall KDelegate 100000000 (Base 7) 0 false; ASstore 9 2; ANop 1;
               AIf 9 0 true 2; ASstore 0 5; ASstore 9 1; ANop 1] 400);
   (7, mkCode [ASstore 0 8; ARevert] 80)].
Definition ex_state : state :=
  mkSt [(Base 0, mkAcct 0 1000 0 [] [] [] false); (Base 1, mkAcct 1 10 1 [] [] [] false); (Base 2, mkAcct 1 0 2 [] [] [] false);
        (Base 3, mkAcct 1 0 3 [] [] [] false); (Base 4, mkAcct 1 0 4 [] [] [] false); (Base 5, mkAcct 1 5 5 [] [] [] false); (Base 6, mkAcct 1 0 6 [] [] [(0, 7)] false)] [] 0 [] [].

(* the inner frame (contract 2, entered with value 3) writes and reverts; the outer
   transaction reverts too; both are instances of theorem 1a with a frame that did
   change the state before failing *)
Example C16_nonvacuous_failed_frame :
  let inner := call_frame real_gas ex_prog (run real_gas ex_prog 100) KCall (mkCtx (Base 1) (Base 0) 0 false 1) (Base 2) 50000 3 ex_state in
  let outer := tx_call real_gas ex_prog 100 (Base 0) (Base 1) 200000 0 ex_state in
  r_status inner = Reverted /\ r_gas inner < 50000 /\ r_status outer = Reverted /\
  jrnl (r_st inner) = [] /\ get_balance (Base 2) (r_st inner) = 0 /\ get_state (Base 2) 0 (r_st inner) = 0 /\
  wf ex_state.
Proof.
  vm_compute. repeat split; try reflexivity.
  repeat constructor; cbn; intuition discriminate.
Qed.
Print Assumptions C16_nonvacuous_failed_frame.

(* a block: slot 0 of contract 6 is 7 in the trie; transaction 1 sets it to 5 (parked in
   the pending layer by Finalise); in transaction 2 the surviving frame sets it back to 7
   and a nested DELEGATECALL frame writes 8 and reverts: the slot reads 7 afterwards, not
   the 5 of the pending layer *)
Example C16_nonvacuous_block :
  let t := mkTx false (Base 0) (Base 6) 0 1000000 0 in
  let s1 := block_state real_gas ex_prog 100 [t] ex_state in
  let r := run_tx real_gas ex_prog 100 t s1 in
  get_state (Base 6) 0 ex_state = 7 /\ get_state (Base 6) 0 s1 = 5 /\ get_committed (Base 6) 0 s1 = 5 /\ jrnl s1 = [] /\
  r_status r = Done /\ get_state (Base 6) 0 (r_st r) = 7 /\ get_committed (Base 6) 0 (r_st r) = 5 /\ get_state (Base 6) 9 (r_st r) = 2.
Proof. vm_compute. repeat split; reflexivity. Qed.
Print Assumptions C16_nonvacuous_block.

(* a STATICCALL whose callee calls a missing address: succeeds, and the only
   difference is the materialised empty account - which is why theorem 2 is stated
   with [veq] *)
Example C16_nonvacuous_static :
  let r := tx_call real_gas ex_prog 100 (Base 0) (Base 3) 200000 0 ex_state in
  r_status r = Done /\ exist (Base 9) ex_state = false /\ exist (Base 9) (r_st r) = true /\
  view (get_obj (Base 9) (r_st r)) = fresh /\ logs (r_st r) = [] /\ total (r_st r) = total ex_state.
Proof. vm_compute. repeat split; reflexivity. Qed.
Print Assumptions C16_nonvacuous_static.

(* SELFDESTRUCT to self burns the balance: total drops by exactly the reported amount *)
Example C16_nonvacuous_burn :
  let r := tx_call real_gas ex_prog 100 (Base 0) (Base 5) 200000 2 ex_state in
  r_status r = Done /\ r_burnt r = 7 /\ total ex_state = 1015 /\ total (r_st r) = 1008 /\ r_gas r <= 200000.
Proof. vm_compute. repeat split; try reflexivity. discriminate. Qed.
Print Assumptions C16_nonvacuous_burn.
