(* C16 - executable model of the call/create/revert/gas skeleton of core/vm/evm.go
   (Call, CallCode, DelegateCall, StaticCall, create), of the parts of the
   interpreter loop that decide it (core/vm/interpreter.go: readOnly test, gas
   charging, halts/reverts), of the state-touching opcodes
   (core/vm/instructions.go: opSstore, makeLog, opSuicide, opCall.., opCreate..),
   of core/evm.go (CanTransfer, Transfer) and of the journaled StateDB they run on
   (core/state/statedb.go, journal.go, state_object.go - only what the EVM uses).
   No proofs in this file.

   Abstraction.  Byte code is abstracted to a list of *actions*; every action
   stands for one fixed byte sequence emitted by the harness compiler
   (harness/cmd/c16: compile()), e.g. ASstore k v = PUSH32 v PUSH32 k SSTORE.
   Gas is charged exactly as the interpreter charges the sequence, so that the
   gas left over by the real EVM can be compared with the model's.
   Addresses are symbolic: CREATE/CREATE2 addresses are constructors (the model
   assumes these hashes do not collide; the harness maps real addresses back).
   Code is referred to by an identifier into a program table (id 0 = no code).
   Numbers are unbounded N: uint64 wrap-around of gas/nonce is outside the model
   (gas < 2^64 at the top, as in the implementation).
   Precompiled contracts are called with the empty input only (their outcome is then
   decided by the gas: table p_pregas, read from the running code). *)
From Coq Require Export List NArith Bool.
Export ListNotations.
Open Scope N_scope.

(* ---- addresses ----------------------------------------------------------- *)

Inductive addr :=
| Base (n : N)                          (* an address chosen by the harness *)
| Cr (s : addr) (nonce : N)             (* crypto.CreateAddress(s, nonce) *)
| Cr2 (s : addr) (salt init : N).       (* crypto.CreateAddress2(s, salt, code of id init) *)

Fixpoint addr_eqb (a b : addr) : bool :=
  match a, b with
  | Base x, Base y => N.eqb x y
  | Cr s n, Cr t m => addr_eqb s t && N.eqb n m
  | Cr2 s x i, Cr2 t y j => addr_eqb s t && N.eqb x y && N.eqb i j
  | _, _ => false
  end.

(* ---- program table ------------------------------------------------------- *)

Inductive kind := KCall | KCallCode | KDelegate | KStatic.

Inductive act :=
| ASstore (k v : N)                         (* PUSH32 v PUSH32 k SSTORE *)
| ALog (topics : list N) (dlen : N)         (* PUSH32 t.. PUSH2 dlen PUSH1 0 LOGn *)
| ACall (k : kind) (g : N) (to : addr) (v : N) (req : bool)
    (* PUSH1 0 x4 [PUSH32 v] PUSH20 to PUSH32 g CALL..; then POP, or (req)
       PUSH2 ok JUMPI PUSH1 0 PUSH1 0 REVERT JUMPDEST *)
| ACreate (two : bool) (salt v init : N) (req : bool)
    (* PUSH2 len PUSH2 off PUSH1 0 CODECOPY [PUSH32 salt] PUSH2 len PUSH1 0 PUSH32 v
       CREATE/CREATE2; then as for ACall *)
| ASelfdestruct (ben : addr)                (* PUSH20 ben SELFDESTRUCT *)
| ANop (n : N)                              (* n times JUMPDEST *)
| AIf (k v : N) (neg : bool) (n : nat)      (* PUSH32 v PUSH32 k SLOAD EQ [ISZERO] PUSH2 dest JUMPI: skip the next n actions when
                                               (storage[k] = v) xor neg; dest is the JUMPDEST of the ANop that follows them *)
| AStop                                     (* STOP *)
| AReturn (c : N)                           (* c = 0: PUSH1 0 PUSH1 0 RETURN; else
                                               PUSH2 len PUSH2 off PUSH1 0 CODECOPY PUSH2 len PUSH1 0 RETURN *)
| ARevert                                   (* PUSH1 0 PUSH1 0 REVERT *)
| AInvalid.                                 (* an opcode/stack/jump error: 0xfe, POP on empty stack, bad JUMP *)

Record code := mkCode { k_acts : list act; k_len : N (* byte length of the compiled code *) }.
Definition prog := list (N * code).

Fixpoint plookup (p : prog) (c : N) : option code :=
  match p with
  | [] => None
  | (k, x) :: r => if N.eqb k c then Some x else plookup r c
  end.
Definition code_acts (p : prog) (c : N) : list act :=
  match plookup p c with Some x => k_acts x | None => [] end.
Definition code_len (p : prog) (c : N) : N :=
  match plookup p c with Some x => k_len x | None => 0 end.

(* ---- gas table (regenerated from the running code into gen/C16Table.v) ---- *)

Record gastab := mkGas {
  (* constantGas of the jump table rows the compiled actions use *)
  g_push : N; g_pop : N; g_jumpi : N; g_jumpdest : N; g_codecopy : N; g_sload : N; g_eq : N; g_iszero : N;
  g_call : N; g_callcode : N; g_delegate : N; g_static : N;
  g_create : N; g_create2 : N; g_sstore : N; g_log : N; g_selfdestruct : N;
  g_return : N; g_revert : N; g_stop : N;
  (* writes flags of the jump table *)
  w_sstore : bool; w_log : N -> bool (* LOG0..LOG4 *); w_create : bool; w_create2 : bool; w_selfdestruct : bool;
  w_call : bool; w_callcode : bool; w_delegate : bool; w_static : bool;
  (* params *)
  p_callvalue : N; p_newacct : N; p_stipend : N; p_depth : N;
  p_sentry : N; p_noop : N; p_dirty : N; p_init : N; p_initref : N; p_clean : N; p_cleanref : N; p_clearref : N;
  p_log : N; p_logtopic : N; p_logdata : N; p_copy : N; p_sha3word : N;
  p_create : N; p_createdata : N; p_maxcode : N;
  p_selfdestruct : N; p_createbysd : N; p_suicideref : N;
  p_memgas : N; p_quad : N;
  (* behaviour probed by the translator: does CreateAccount carry over the balance of an
     object that an earlier Finalise of the block has deleted? *)
  p_resurrect : bool;
  (* the active precompiled contracts: RequiredGas on the empty input, keyed by the model name of
     the address (Base (1000000 + n) for address n); None = not a precompile *)
  p_pregas : N -> option N
}.

(* one row of the jump table as dumped by the translator:
   opcode, valid, constantGas, writes, halts, reverts, jumps, returns, has dynamicGas *)
Record oprow := mkRow { o_code : N; o_valid : bool; o_cgas : N; o_writes : bool; o_halts : bool;
                        o_reverts : bool; o_jumps : bool; o_returns : bool; o_dyn : bool }.

(* ---- journaled state (core/state) ---------------------------------------- *)

Definition smap := list (N * N).     (* storage: first match wins, default 0 *)
Fixpoint sget (k : N) (m : smap) : N :=
  match m with [] => 0 | (k', v) :: r => if N.eqb k k' then v else sget k r end.
Fixpoint sdel (k : N) (m : smap) : smap :=
  match m with [] => [] | (k', v) :: r => if N.eqb k k' then sdel k r else (k', v) :: sdel k r end.
Definition sset (k v : N) (m : smap) : smap := (k, v) :: sdel k m.
Fixpoint sfind (k : N) (m : smap) : option N :=
  match m with [] => None | (k', v) :: r => if N.eqb k k' then Some v else sfind k r end.

(* stateObject: data.Nonce, data.Balance, code (as id), the three storage layers
   dirtyStorage (written in this transaction), pendingStorage (written by earlier
   transactions of the block, parked there by Finalise), originStorage + storage trie
   (the value at block start; absent = 0), and the suicided flag *)
Record account := mkAcct {
  a_nonce : N; a_bal : N; a_code : N; a_dirty : smap; a_pend : smap; a_trie : smap; a_dead : bool }.
Definition fresh : account := mkAcct 0 0 0 [] [] [] false.     (* newObject(db, addr, Account{}) *)
(* stateObject.GetCommittedState: pending first, then origin / trie *)
Definition o_committed (x : account) (k : N) : N :=
  match sfind k (a_pend x) with Some v => v | None => sget k (a_trie x) end.
(* stateObject.GetState: dirty first *)
Definition o_state (x : account) (k : N) : N :=
  match sfind k (a_dirty x) with Some v => v | None => o_committed x k end.

Definition amap := list (addr * account).
Fixpoint alookup (a : addr) (m : amap) : option account :=
  match m with [] => None | (b, x) :: r => if addr_eqb a b then Some x else alookup a r end.
Fixpoint adel (a : addr) (m : amap) : amap :=
  match m with [] => [] | (b, x) :: r => if addr_eqb a b then adel a r else (b, x) :: adel a r end.
Definition aset (a : addr) (x : account) (m : amap) : amap := (a, x) :: adel a m.

Definition log := (addr * list N * N)%type.    (* address, topics, len(data) *)

Inductive jentry :=
| JCreate (a : addr)                            (* createObjectChange *)
| JReset (a : addr) (prev : account)            (* resetObjectChange{prev} *)
| JSuicide (a : addr) (prev : bool) (prevbal : N)
| JBalance (a : addr) (prev : N)
| JNonce (a : addr) (prev : N)
| JStorage (a : addr) (prev : smap)             (* storageChange{key, prevalue}: the model keeps the previous
                                                   dirty map of the object; putting it back reads like
                                                   dirtyStorage[key] = prevalue because prevalue was read
                                                   through dirty -> pending -> origin when it was recorded *)
| JResetDel (a : addr)                          (* resetObjectChange{prev} with prev deleted by an earlier Finalise *)
| JCode (a : addr) (prev : N)
| JRefund (prev : N)
| JLog                                          (* addLogChange *)
| JTouch (a : addr).

(* accts: the live objects (stateObjects entries that are not deleted, together with the
   accounts of the trie); graves: objects marked deleted by a Finalise of this block -
   getStateObject does not see them, getDeletedStateObject does *)
Record state := mkSt { accts : amap; logs : list log (* newest first *); refund : N; jrnl : list jentry (* newest first *);
                       graves : amap }.

Definition with_accts (m : amap) (s : state) := mkSt m (logs s) (refund s) (jrnl s) (graves s).
Definition with_jrnl (j : list jentry) (s : state) := mkSt (accts s) (logs s) (refund s) j (graves s).
Definition push_j (e : jentry) (s : state) := with_jrnl (e :: jrnl s) s.
Definition set_obj (a : addr) (x : account) (s : state) := with_accts (aset a x (accts s)) s.

Definition get_obj (a : addr) (s : state) : option account := alookup a (accts s).   (* getStateObject *)
Definition acct_empty (x : account) : bool :=                                        (* stateObject.empty *)
  N.eqb (a_nonce x) 0 && N.eqb (a_bal x) 0 && N.eqb (a_code x) 0.
Definition exist (a : addr) (s : state) : bool := match get_obj a s with Some _ => true | None => false end.
Definition empty (a : addr) (s : state) : bool := match get_obj a s with Some x => acct_empty x | None => true end.
Definition get_balance (a : addr) (s : state) : N := match get_obj a s with Some x => a_bal x | None => 0 end.
Definition get_nonce (a : addr) (s : state) : N := match get_obj a s with Some x => a_nonce x | None => 0 end.
Definition get_code (a : addr) (s : state) : N := match get_obj a s with Some x => a_code x | None => 0 end.
Definition get_state (a : addr) (k : N) (s : state) : N := match get_obj a s with Some x => o_state x k | None => 0 end.
Definition get_committed (a : addr) (k : N) (s : state) : N := match get_obj a s with Some x => o_committed x k | None => 0 end.
Definition has_suicided (a : addr) (s : state) : bool := match get_obj a s with Some x => a_dead x | None => false end.

(* createObject: a brand-new object replaces whatever is there; prev comes from
   getDeletedStateObject, so it may be an object a Finalise has deleted *)
Definition create_object (a : addr) (s : state) : state :=
  match get_obj a s with
  | Some prev => set_obj a fresh (push_j (JReset a prev) s)
  | None =>
    match alookup a (graves s) with
    | Some _ => set_obj a fresh (push_j (JResetDel a) s)
    | None => set_obj a fresh (push_j (JCreate a) s)
    end
  end.
(* CreateAccount: the balance of the previous object is carried over (setBalance: not
   journaled).  [rz]: whether this also happens for a deleted previous object (the
   behaviour of the running code, probed by the translator - gastab.p_resurrect) *)
Definition create_account (rz : bool) (a : addr) (s : state) : state :=
  match get_obj a s with
  | Some prev => set_obj a (mkAcct 0 (a_bal prev) 0 [] [] [] false) (push_j (JReset a prev) s)
  | None =>
    match alookup a (graves s) with
    | Some g => if rz then set_obj a (mkAcct 0 (a_bal g) 0 [] [] [] false) (push_j (JResetDel a) s)
                else create_object a s
    | None => create_object a s
    end
  end.
Definition get_or_new (a : addr) (s : state) : state :=
  match get_obj a s with Some _ => s | None => create_object a s end.
Definition obj_of (a : addr) (s : state) : account := match get_obj a s with Some x => x | None => fresh end.

Definition set_bal (x : account) (b : N) := mkAcct (a_nonce x) b (a_code x) (a_dirty x) (a_pend x) (a_trie x) (a_dead x).
Definition set_nonce_f (x : account) (n : N) := mkAcct n (a_bal x) (a_code x) (a_dirty x) (a_pend x) (a_trie x) (a_dead x).
Definition set_code_f (x : account) (c : N) := mkAcct (a_nonce x) (a_bal x) c (a_dirty x) (a_pend x) (a_trie x) (a_dead x).
Definition set_stor_f (x : account) (m : smap) := mkAcct (a_nonce x) (a_bal x) (a_code x) m (a_pend x) (a_trie x) (a_dead x).
Definition set_dead_f (x : account) (d : bool) (b : N) := mkAcct (a_nonce x) b (a_code x) (a_dirty x) (a_pend x) (a_trie x) d.

(* stateObject.SetBalance *)
Definition set_balance (a : addr) (b : N) (s : state) : state :=
  let x := obj_of a s in set_obj a (set_bal x b) (push_j (JBalance a (a_bal x)) s).
Definition add_balance (a : addr) (amt : N) (s : state) : state :=
  let s1 := get_or_new a s in
  let x := obj_of a s1 in
  if N.eqb amt 0 then (if acct_empty x then push_j (JTouch a) s1 else s1)
  else set_balance a (a_bal x + amt) s1.
(* big.Int subtraction may go negative in Go; every caller checks CanTransfer first *)
Definition sub_balance (a : addr) (amt : N) (s : state) : state :=
  let s1 := get_or_new a s in
  let x := obj_of a s1 in
  if N.eqb amt 0 then s1 else set_balance a (a_bal x - amt) s1.
Definition set_nonce (a : addr) (n : N) (s : state) : state :=
  let s1 := get_or_new a s in
  let x := obj_of a s1 in set_obj a (set_nonce_f x n) (push_j (JNonce a (a_nonce x)) s1).
Definition set_code (a : addr) (c : N) (s : state) : state :=
  let s1 := get_or_new a s in
  let x := obj_of a s1 in set_obj a (set_code_f x c) (push_j (JCode a (a_code x)) s1).
Definition set_state (a : addr) (k v : N) (s : state) : state :=
  let s1 := get_or_new a s in
  let x := obj_of a s1 in
  if N.eqb (o_state x k) v then s1
  else set_obj a (set_stor_f x (sset k v (a_dirty x))) (push_j (JStorage a (a_dirty x)) s1).
Definition suicide (a : addr) (s : state) : state :=
  match get_obj a s with
  | None => s
  | Some x => set_obj a (set_dead_f x true 0) (push_j (JSuicide a (a_dead x) (a_bal x)) s)
  end.
Definition add_log (l : log) (s : state) : state := mkSt (accts s) (l :: logs s) (refund s) (JLog :: jrnl s) (graves s).
Definition add_refund (g : N) (s : state) : state := mkSt (accts s) (logs s) (refund s + g) (JRefund (refund s) :: jrnl s) (graves s).
(* SubRefund panics below zero; EIP-2200 never gets there *)
Definition sub_refund (g : N) (s : state) : state := mkSt (accts s) (logs s) (refund s - g) (JRefund (refund s) :: jrnl s) (graves s).

(* journalEntry.revert, applied to the state whose journal has already been popped *)
Definition undo1 (e : jentry) (s : state) : state :=
  match e with
  | JCreate a => with_accts (adel a (accts s)) s
  | JReset a prev => set_obj a prev s
  | JSuicide a d b => match get_obj a s with Some x => set_obj a (set_dead_f x d b) s | None => s end
  | JBalance a b => match get_obj a s with Some x => set_obj a (set_bal x b) s | None => s end
  | JNonce a n => match get_obj a s with Some x => set_obj a (set_nonce_f x n) s | None => s end
  | JStorage a m => match get_obj a s with Some x => set_obj a (set_stor_f x m) s | None => s end
  | JCode a c => match get_obj a s with Some x => set_obj a (set_code_f x c) s | None => s end
  | JResetDel a => with_accts (adel a (accts s)) s
  | JRefund r => mkSt (accts s) (logs s) r (jrnl s) (graves s)
  | JLog => mkSt (accts s) (tl (logs s)) (refund s) (jrnl s) (graves s)
  | JTouch _ => s
  end.
(* journal.revert: undo the k newest entries *)
Fixpoint undo_n (k : nat) (s : state) : state :=
  match k with
  | O => s
  | S k' => match jrnl s with
            | [] => s
            | e :: j => undo_n k' (undo1 e (with_jrnl j s))
            end
  end.
Definition snapshot (s : state) : nat := length (jrnl s).                 (* Snapshot: the journal length *)
Definition revert_to (n : nat) (s : state) : state := undo_n (length (jrnl s) - n) s.   (* RevertToSnapshot *)

(* Finalise(true) between the transactions of a block: every address the journal
   marks dirty whose object is suicided or empty is deleted (it moves to the graves),
   the others get their dirty storage parked in the pending layer; journal and refund
   are cleared.  (resetObjectChange and the log/refund entries mark nothing dirty.) *)
Definition dirtied (e : jentry) : option addr :=
  match e with
  | JCreate a | JSuicide a _ _ | JBalance a _ | JNonce a _ | JStorage a _ | JCode a _ | JTouch a => Some a
  | JReset _ _ | JResetDel _ | JRefund _ | JLog => None
  end.
Definition park (x : account) : account :=                                 (* stateObject.finalise *)
  mkAcct (a_nonce x) (a_bal x) (a_code x) [] (fold_right (fun kv p => sset (fst kv) (snd kv) p) (a_pend x) (a_dirty x)) (a_trie x) (a_dead x).
Definition finalise1 (a : addr) (s : state) : state :=
  match get_obj a s with
  | None => s
  | Some x => if a_dead x || acct_empty x
              then mkSt (adel a (accts s)) (logs s) (refund s) (jrnl s) (aset a x (graves s))
              else set_obj a (park x) s
  end.
Definition finalise (s : state) : state :=
  let s1 := fold_right (fun e s => match dirtied e with Some a => finalise1 a s | None => s end) s (jrnl s) in
  mkSt (accts s1) (logs s1) 0 [] (graves s1).

(* core/evm.go *)
Definition can_transfer (a : addr) (amt : N) (s : state) : bool := N.leb amt (get_balance a s).
Definition transfer (from to : addr) (amt : N) (s : state) : state := add_balance to amt (sub_balance from amt s).

(* ---- the EVM -------------------------------------------------------------- *)

Inductive status := Done | Reverted | Failed | OutOfFuel.
Definition status_eqb (a b : status) : bool :=
  match a, b with Done, Done | Reverted, Reverted | Failed, Failed | OutOfFuel, OutOfFuel => true | _, _ => false end.

(* what a frame hands back: error class, contract.Gas, state, returned data (a code id,
   0 = empty), and - ghost output, not in the Go code - the value destroyed by
   SELFDESTRUCT-to-self in this frame and its successful sub-frames *)
Record res := mkRes { r_status : status; r_gas : N; r_st : state; r_ret : N; r_burnt : N }.

(* the frame: contract.self, contract.CallerAddress, contract.value, in.readOnly, evm.depth *)
Record ctx := mkCtx { c_self : addr; c_caller : addr; c_value : N; c_static : bool; c_depth : N }.

Definition runner := ctx -> list act -> N (* memory words *) -> N (* gas *) -> state -> res.

Section EVM.
Variable G : gastab.
Variable P : prog.

Definition charge (c gas : N) : option N := if N.leb c gas then Some (gas - c) else None.   (* Contract.UseGas *)
Definition words (len : N) : N := (len + 31) / 32.                                      (* toWordSize *)
Definition memcost (w : N) : N := w * p_memgas G + w * w / p_quad G.
(* memoryGasCost: fee for growing to w words, and the new size *)
Definition mem_expand (mem w : N) : N * N :=
  if N.ltb mem w then (memcost w - memcost mem, w) else (0, mem).

(* run(): interpreter.Run on the code (no code = immediate success); precompiles excluded *)
Definition run_code (runf : runner) (cx : ctx) (c : N) (gas : N) (s : state) : res :=
  match code_acts P c with
  | [] => if N.eqb (code_len P c) 0 then mkRes Done gas s 0 0 else runf cx [] 0 gas s
  | acts => runf cx acts 0 gas s
  end.

(* run() for a call: a precompiled contract at the code address is a total function of the input
   (here always the empty input: it succeeds if its required gas can be paid -
   RunPrecompiledContract - and touches no state), anything else is interpreted *)
Definition pre_gas (to : addr) : option N := match to with Base n => p_pregas G n | _ => None end.
Definition run_target (runf : runner) (cx : ctx) (to : addr) (gas : N) (s : state) : res :=
  match pre_gas to with
  | Some need => match charge need gas with
                 | Some g => mkRes Done g s 0 0
                 | None => mkRes Failed gas s 0 0       (* ErrOutOfGas *)
                 end
  | None => run_code runf cx (get_code to s) gas s
  end.

(* the common tail of Call/CallCode/DelegateCall/StaticCall:
   if err != nil { RevertToSnapshot; if err != errExecutionReverted { UseGas(all) } } *)
Definition finish (snap : nat) (r : res) : res :=
  match r_status r with
  | Done | OutOfFuel => r
  | Reverted => mkRes Reverted (r_gas r) (revert_to snap (r_st r)) (r_ret r) 0
  | Failed => mkRes Failed 0 (revert_to snap (r_st r)) 0 0
  end.

(* evm.Call / CallCode / DelegateCall / StaticCall, called from the frame cx *)
Definition call_frame (runf : runner) (k : kind) (cx : ctx) (to : addr) (gas value : N) (s : state) : res :=
  let self := c_self cx in
  if N.ltb (p_depth G) (c_depth cx) then mkRes Failed gas s 0 0                   (* ErrDepth: gas is handed back *)
  else match k with
  | KCall =>
    if negb (can_transfer self value s) then mkRes Failed gas s 0 0              (* ErrInsufficientBalance *)
    else
      let snap := snapshot s in
      let s1 := if exist to s then s else create_account (p_resurrect G) to s in
      let s2 := transfer self to value s1 in
      finish snap (run_target runf (mkCtx to self value (c_static cx) (c_depth cx + 1)) to gas s2)
  | KCallCode =>
    if negb (can_transfer self value s) then mkRes Failed gas s 0 0
    else
      let snap := snapshot s in
      finish snap (run_target runf (mkCtx self self value (c_static cx) (c_depth cx + 1)) to gas s)
  | KDelegate =>
      let snap := snapshot s in
      finish snap (run_target runf (mkCtx self (c_caller cx) (c_value cx) (c_static cx) (c_depth cx + 1)) to gas s)
  | KStatic =>
      let snap := snapshot s in
      finish snap (run_target runf (mkCtx to self 0 true (c_depth cx + 1)) to gas s)
  end.

(* evm.create, called from the frame cx with the init code [init] for [address] *)
Definition create_frame (runf : runner) (cx : ctx) (init : N) (gas value : N) (address : addr) (s : state) : res :=
  let self := c_self cx in
  if N.ltb (p_depth G) (c_depth cx) then mkRes Failed gas s 0 0
  else if negb (can_transfer self value s) then mkRes Failed gas s 0 0
  else
    let s1 := set_nonce self (get_nonce self s + 1) s in
    if negb (N.eqb (get_nonce address s1) 0) || negb (N.eqb (get_code address s1) 0)
    then mkRes Failed 0 s1 0 0                                                   (* ErrContractAddressCollision *)
    else
      let snap := snapshot s1 in
      let s2 := create_account (p_resurrect G) address s1 in
      let s3 := set_nonce address 1 s2 in
      let s4 := transfer self address value s3 in
      let r := run_code runf (mkCtx address self value (c_static cx) (c_depth cx + 1)) init gas s4 in
      match r_status r with
      | OutOfFuel => r
      | Done =>
        let len := code_len P (r_ret r) in
        if N.ltb (p_maxcode G) len then mkRes Failed 0 (revert_to snap (r_st r)) 0 0       (* errMaxCodeSizeExceeded *)
        else match charge (len * p_createdata G) (r_gas r) with
             | Some g' => mkRes Done g' (set_code address (r_ret r) (r_st r)) (r_ret r) (r_burnt r)
             | None => mkRes Failed 0 (revert_to snap (r_st r)) 0 0                        (* ErrCodeStoreOutOfGas *)
             end
      | Reverted => mkRes Reverted (r_gas r) (revert_to snap (r_st r)) (r_ret r) 0
      | Failed => mkRes Failed 0 (revert_to snap (r_st r)) 0 0
      end.

(* one action either continues the frame or ends it *)
Inductive sres :=
| SCont (mem gas : N) (s : state) (burnt : N)
| SHalt (r : res).

Definition fail (gas : N) (s : state) : sres := SHalt (mkRes Failed gas s 0 0).

(* callGas (core/vm/gas.go) - this fork's variant of the 63/64 rule *)
Definition call_gas (avail base g : N) : option N :=
  if N.leb (2 ^ 64) g then None
  else if N.eqb g 0 then Some (p_stipend G)
  else if N.leb avail g then
    if N.ltb avail base then None
    else let a := avail - base in Some (a - a / 64)
  else Some g.

(* gasSStoreEIP2200 after the sentry: cost and refund bookkeeping *)
Definition sstore_gas (cur orig v : N) (s : state) : N * state :=
  if N.eqb cur v then (p_noop G, s)
  else if N.eqb orig cur then
    if N.eqb orig 0 then (p_init G, s)
    else (p_clean G, if N.eqb v 0 then add_refund (p_clearref G) s else s)
  else
    let s1 := if negb (N.eqb orig 0) then
                if N.eqb cur 0 then sub_refund (p_clearref G) s
                else if N.eqb v 0 then add_refund (p_clearref G) s else s
              else s in
    let s2 := if N.eqb orig v then
                if N.eqb orig 0 then add_refund (p_initref G) s1 else add_refund (p_cleanref G) s1
              else s1 in
    (p_dirty G, s2).

(* what follows a call or create opcode in the compiled code: POP, or REVERT unless it succeeded *)
Definition epilogue (req ok : bool) (mem gas : N) (s : state) (burnt : N) : sres :=
  let failb g := SHalt (mkRes Failed g s 0 burnt) in   (* burnt: ghost, dropped by the caller's revert *)
  if req then
    match charge (g_push G + g_jumpi G) gas with
    | None => failb gas
    | Some g1 =>
      if ok then match charge (g_jumpdest G) g1 with Some g2 => SCont mem g2 s burnt | None => failb g1 end
      else match charge (g_push G + g_push G + g_revert G) g1 with
           | Some g2 => SHalt (mkRes Reverted g2 s 0 burnt)
           | None => failb g1
           end
    end
  else match charge (g_pop G) gas with Some g1 => SCont mem g1 s burnt | None => failb gas end.

Definition step (runf : runner) (cx : ctx) (a : act) (mem gas : N) (s : state) : sres :=
  let self := c_self cx in
  match a with
  | ASstore k v =>
    match charge (2 * g_push G) gas with
    | None => fail gas s
    | Some g1 =>
      if c_static cx && w_sstore G then fail g1 s                          (* errWriteProtection *)
      else match charge (g_sstore G) g1 with
      | None => fail g1 s
      | Some g2 =>
        if N.leb g2 (p_sentry G) then fail g2 s
        else
          let '(cost, s1) := sstore_gas (get_state self k s) (get_committed self k s) v s in
          match charge cost g2 with
          | None => fail g2 s1
          | Some g3 => SCont mem g3 (set_state self k v s1) 0
          end
      end
    end
  | ALog topics dlen =>
    let nt := N.of_nat (length topics) in
    match charge ((nt + 2) * g_push G) gas with
    | None => fail gas s
    | Some g1 =>
      if N.ltb 4 nt then fail g1 s                                           (* there is no LOG5 *)
      else if c_static cx && w_log G nt then fail g1 s
      else match charge (g_log G) g1 with
      | None => fail g1 s
      | Some g2 =>
        let '(mc, mem') := if N.eqb dlen 0 then (0, mem) else mem_expand mem (words dlen) in
        match charge (mc + p_log G + nt * p_logtopic G + dlen * p_logdata G) g2 with
        | None => fail g2 s
        | Some g3 => SCont mem' g3 (add_log (self, topics, dlen) s) 0
        end
      end
    end
  | ACall k g to v req =>
    let hasv := match k with KCall | KCallCode => true | _ => false end in
    let v := if hasv then v else 0 in
    match charge ((if hasv then 7 else 6) * g_push G) gas with
    | None => fail gas s
    | Some g1 =>
      let w := match k with KCall => w_call G | KCallCode => w_callcode G | KDelegate => w_delegate G | KStatic => w_static G end in
      if c_static cx && (w || (match k with KCall => negb (N.eqb v 0) | _ => false end)) then fail g1 s
      else match charge (match k with KCall => g_call G | KCallCode => g_callcode G | KDelegate => g_delegate G | KStatic => g_static G end) g1 with
      | None => fail g1 s
      | Some g2 =>
        let base := match k with
                    | KCall => if N.eqb v 0 then 0 else p_callvalue G + (if empty to s then p_newacct G else 0)
                    | KCallCode => if N.eqb v 0 then 0 else p_callvalue G
                    | _ => 0 end in
        match call_gas g2 base g with
        | None => fail g2 s
        | Some temp =>
          match charge (base + temp) g2 with
          | None => fail g2 s
          | Some g3 =>
            let given := temp + (if N.eqb v 0 then 0 else p_stipend G) in
            let r := call_frame runf k cx to given v s in
            match r_status r with
            | OutOfFuel => SHalt r
            | st => epilogue req (status_eqb st Done) mem (g3 + r_gas r) (r_st r) (r_burnt r)
            end
          end
        end
      end
    end
  | ACreate two salt v init req =>
    let len := code_len P init in
    let w := words len in
    match charge (3 * g_push G + g_codecopy G) gas with
    | None => fail gas s
    | Some g1 =>
      let '(mc, mem') := if N.eqb len 0 then (0, mem) else mem_expand mem w in
      match charge (mc + w * p_copy G) g1 with
      | None => fail g1 s
      | Some g2 =>
        match charge ((if two then 4 else 3) * g_push G) g2 with
        | None => fail g2 s
        | Some g3 =>
          if c_static cx && (if two then w_create2 G else w_create G) then fail g3 s
          else match charge (if two then g_create2 G + w * p_sha3word G else g_create G + p_create G) g3 with
          | None => fail g3 s
          | Some g4 =>
            let given := if two then g4 - g4 / 64 else g4 in
            let address := if two then Cr2 self salt init else Cr self (get_nonce self s) in
            let r := create_frame runf cx init given v address s in
            match r_status r with
            | OutOfFuel => SHalt r
            | st => epilogue req (status_eqb st Done) mem' (g4 - given + r_gas r) (r_st r) (r_burnt r)
            end
          end
        end
      end
    end
  | ASelfdestruct ben =>
    match charge (g_push G) gas with
    | None => fail gas s
    | Some g1 =>
      if c_static cx && w_selfdestruct G then fail g1 s
      else match charge (g_selfdestruct G) g1 with
      | None => fail g1 s
      | Some g2 =>
        let bal := get_balance self s in
        let cost := p_selfdestruct G + (if empty ben s && negb (N.eqb bal 0) then p_createbysd G else 0) in
        let s1 := if has_suicided self s then s else add_refund (p_suicideref G) s in
        match charge cost g2 with
        | None => fail g2 s1
        | Some g3 =>
          let s2 := add_balance ben bal s1 in
          SHalt (mkRes Done g3 (suicide self s2) 0 (if addr_eqb ben self then bal else 0))
        end
      end
    end
  | ANop n =>
    match charge (n * g_jumpdest G) gas with Some g1 => SCont mem g1 s 0 | None => fail gas s end
  | AIf k v neg n =>                                   (* the test itself; [run] does the skipping *)
    match charge (3 * g_push G + g_sload G + g_eq G + (if neg then g_iszero G else 0) + g_jumpi G) gas with
    | Some g1 => SCont mem g1 s 0
    | None => fail gas s
    end
  | AStop =>
    match charge (g_stop G) gas with Some g1 => SHalt (mkRes Done g1 s 0 0) | None => fail gas s end
  | AReturn c =>
    if N.eqb c 0 then
      match charge (2 * g_push G + g_return G) gas with Some g1 => SHalt (mkRes Done g1 s 0 0) | None => fail gas s end
    else
      let len := code_len P c in
      let w := words len in
      match charge (3 * g_push G + g_codecopy G) gas with
      | None => fail gas s
      | Some g1 =>
        let '(mc, mem') := if N.eqb len 0 then (0, mem) else mem_expand mem w in
        match charge (mc + w * p_copy G) g1 with
        | None => fail g1 s
        | Some g2 =>
          match charge (2 * g_push G + g_return G) g2 with
          | Some g3 => SHalt (mkRes Done g3 s c 0)
          | None => fail g2 s
          end
        end
      end
  | ARevert =>
    match charge (2 * g_push G + g_revert G) gas with Some g1 => SHalt (mkRes Reverted g1 s 0 0) | None => fail gas s end
  | AInvalid => fail gas s
  end.

Definition add_burnt (b : N) (r : res) : res := mkRes (r_status r) (r_gas r) (r_st r) (r_ret r) (b + r_burnt r).

(* the interpreter loop at action granularity; running off the end is STOP *)
Fixpoint run (fuel : nat) (cx : ctx) (acts : list act) (mem gas : N) (s : state) : res :=
  match fuel with
  | O => mkRes OutOfFuel gas s 0 0
  | S f =>
    match acts with
    | [] => match charge (g_stop G) gas with Some g1 => mkRes Done g1 s 0 0 | None => mkRes Failed gas s 0 0 end
    | a :: rest =>
      match step (run f) cx a mem gas s with
      | SCont mem' gas' s' b =>
        let rest' := match a with
                     | AIf k v neg n => if xorb (N.eqb (get_state (c_self cx) k s) v) neg then skipn n rest else rest
                     | _ => rest end in
        add_burnt b (run f cx rest' mem' gas' s')
      | SHalt r => r
      end
    end
  end.

(* a transaction-level entry: evm.Call / evm.Create from an externally owned origin at depth 0 *)
Definition origin_ctx (origin : addr) : ctx := mkCtx origin origin 0 false 0.
Definition tx_call (fuel : nat) (origin to : addr) (gas value : N) (s : state) : res :=
  call_frame (run fuel) KCall (origin_ctx origin) to gas value s.
Definition tx_create (fuel : nat) (origin : addr) (init : N) (gas value : N) (s : state) : res :=
  create_frame (run fuel) (origin_ctx origin) init gas value (Cr origin (get_nonce origin s)) s.

End EVM.

(* ---- blocks: transactions on one StateDB with Finalise(true) in between -------- *)

Record tx := mkTx {
  t_create : bool;            (* false: evm.Call(origin, to, nil, gas, value); true: evm.Create(origin, code init, gas, value) *)
  t_origin : addr; t_to : addr; t_init : N; t_gas : N; t_value : N }.

Definition run_tx (G : gastab) (P : prog) (fuel : nat) (t : tx) (s : state) : res :=
  if t_create t then tx_create G P fuel (t_origin t) (t_init t) (t_gas t) (t_value t) s
  else tx_call G P fuel (t_origin t) (t_to t) (t_gas t) (t_value t) s.

(* the state in which the next transaction starts after [txs] have run and been finalised *)
Fixpoint block_state (G : gastab) (P : prog) (fuel : nat) (txs : list tx) (s : state) : state :=
  match txs with
  | [] => s
  | t :: r => block_state G P fuel r (finalise (r_st (run_tx G P fuel t s)))
  end.

(* ---- correspondence runner ------------------------------------------------ *)

(* one account as the harness sees it through the StateDB API after a transaction (before Finalise) *)
Record obs := mkObs { o_addr : addr; o_exists : bool; o_nonce : N; o_bal : N; o_cod : N; o_dead : bool; o_stor : list (N * N) }.

(* what the implementation did in one transaction *)
Record txobs := mkTxObs {
  x_status : N;               (* 0 nil error, 1 errExecutionReverted, 2 any other error *)
  x_gas : N;                  (* leftOverGas *)
  x_refund : N;
  x_logs : N;                 (* StateDB.logSize: the block-wide log counter that AddLog stamps into Log.Index *)
  x_burnt : N;                (* value destroyed by SELFDESTRUCT-to-self in surviving frames (from the tracer) *)
  x_accts : list obs          (* every address the harness knows about, after the transaction, before Finalise *)
}.

(* one case: program table, accounts committed in the previous block, the transactions of
   the block, and what the implementation did *)
Record case := mkCase {
  i_prog : prog;
  i_accts : amap;
  i_txs : list tx;
  e_txs : list txobs;
  e_logs : list log;          (* all logs of the block, oldest first *)
  e_logidx : list N;          (* their Log.Index fields *)
  e_final : list obs          (* the same addresses read from a fresh StateDB opened on the roots committed after the
                                 last transaction's Finalise (on a copy of the state, flushed to disk) *)
}.

Definition model_fuel : nat := N.to_nat 40000.

Definition status_code (s : status) : N := match s with Done => 0 | Reverted => 1 | Failed => 2 | OutOfFuel => 3 end.

Fixpoint list_eqb {A} (eqb : A -> A -> bool) (a b : list A) : bool :=
  match a, b with
  | [], [] => true
  | x :: r, y :: t => eqb x y && list_eqb eqb r t
  | _, _ => false
  end.
Definition log_eqb (a b : log) : bool :=
  let '(x, t, n) := a in let '(y, u, m) := b in addr_eqb x y && list_eqb N.eqb t u && N.eqb n m.

Definition obs_ok (s : state) (o : obs) : bool :=
  match get_obj (o_addr o) s with
  | None => negb (o_exists o)
  | Some x => o_exists o && N.eqb (a_nonce x) (o_nonce o) && N.eqb (a_bal x) (o_bal o) && N.eqb (a_code x) (o_cod o)
              && Bool.eqb (a_dead x) (o_dead o) && forallb (fun kv => N.eqb (o_state x (fst kv)) (snd kv)) (o_stor o)
  end.

(* logSize: one per journalled log of the block that is still there - a failed frame's addLogChange
   entries are undone with the rest of its journal *)
Definition log_count (s : state) : N := N.of_nat (length (logs s)).

Definition tx_ok (r : res) (x : txobs) : bool :=
  N.eqb (status_code (r_status r)) (x_status x)
  && N.eqb (r_gas r) (x_gas x)
  && forallb (obs_ok (r_st r)) (x_accts x)
  && forallb (fun p => existsb (fun o => addr_eqb (fst p) (o_addr o) && o_exists o) (x_accts x)) (accts (r_st r))
  && N.eqb (refund (r_st r)) (x_refund x)
  && N.eqb (log_count (r_st r)) (x_logs x)
  && N.eqb (r_burnt r) (x_burnt x).

(* runs the block; None = some transaction disagreed *)
Fixpoint check_block (G : gastab) (P : prog) (txs : list tx) (exp : list txobs) (s : state) : option state :=
  match txs, exp with
  | [], [] => Some s
  | t :: txs', x :: exp' =>
    let r := run_tx G P model_fuel t s in
    if tx_ok r x then
      match txs' with
      | [] => Some (r_st r)
      | _ => check_block G P txs' exp' (finalise (r_st r))
      end
    else None
  | _, _ => None
  end.

Definition case_ok (G : gastab) (c : case) : bool :=
  match check_block G (i_prog c) (i_txs c) (e_txs c) (mkSt (i_accts c) [] 0 [] []) with
  | Some s =>
    list_eqb log_eqb (rev (logs s)) (e_logs c)
    && list_eqb N.eqb (map N.of_nat (List.seq 0 (length (logs s)))) (e_logidx c)
    && match i_txs c with
       | [] => true
       | _ => let f := finalise s in
              forallb (obs_ok f) (e_final c)
              && forallb (fun p => existsb (fun o => addr_eqb (fst p) (o_addr o) && o_exists o) (e_final c)) (accts f)
       end
  | None => false
  end.

Fixpoint mismatches_from (G : gastab) (i : N) (l : list case) : list N :=
  match l with
  | [] => []
  | c :: r => if case_ok G c then mismatches_from G (i + 1) r else i :: mismatches_from G (i + 1) r
  end.
Definition mismatches (G : gastab) := mismatches_from G 0.
