(* C16 - invariants of the EVM model, by induction over the fuel (all programs,
   all nesting): every frame extends the journaled state (so a revert restores it),
   keeps the account map well-formed, conserves the balance total up to the
   reported burn, hands back no more gas than it got, and changes nothing in
   static mode. *)
From VF.C16 Require Import Model ProofsState.
From Coq Require Import Lia ZifyBool ZifyN ZifyNat.
Local Open Scope N_scope.

(* side conditions on the jump table / parameters (proved for the real table in Bridge.v) *)
Definition writes_ok (G : gastab) : bool :=
  w_sstore G && forallb (w_log G) [0; 1; 2; 3; 4] && w_create G && w_create2 G && w_selfdestruct G.
(* CreateAccount does not hand the balance of an account deleted earlier in the block to the new one *)
Definition no_resurrection (G : gastab) : bool := negb (p_resurrect G).
Definition stipend_ok (G : gastab) : bool := N.leb (p_stipend G) (p_callvalue G).
Definition table_ok (G : gastab) : bool := writes_ok G && stipend_ok G && no_resurrection G.

Section Inv.
Variable G : gastab.
Variable P : prog.

Definition R (pv : Prop) (s : state) (gas : N) (s' : state) (gas' : N) (b : N) : Prop :=
  (stipend_ok G = true -> gas' <= gas) /\
  ext s s' /\
  (no_resurrection G = true -> wf s -> wf s' /\ total s' + b = total s) /\
  (writes_ok G = true -> no_resurrection G = true -> pv -> veq s s').

Definition good (pv : Prop) (s : state) (gas : N) (r : res) : Prop := R pv s gas (r_st r) (r_gas r) (r_burnt r).
Definition sgood (pv : Prop) (s : state) (gas : N) (sr : sres) : Prop :=
  match sr with SCont _ g s' b => R pv s gas s' g b | SHalt r => good pv s gas r end.
Definition runner_good (runf : runner) : Prop :=
  forall cx acts mem gas s, good (c_static cx = true) s gas (runf cx acts mem gas s).

Ltac Rsplit := unfold good, R; cbn [r_st r_gas r_burnt]; split; [|split; [|split]].

Lemma R_same : forall (pv : Prop) s gas gas', gas' <= gas -> R pv s gas s gas' 0.
Proof.
  intros. Rsplit.
  - intro; assumption.
  - apply ext_refl.
  - intros _ W. split; [assumption | lia].
  - intros _ _ _. apply veq_refl.
Qed.

Ltac Rsame := unfold sgood, fail, good; cbn [r_st r_gas r_burnt]; apply R_same; try lia.

Lemma R_trans : forall (pv : Prop) s g s1 g1 b1 s2 g2 b2,
  R pv s g s1 g1 b1 -> R pv s1 g1 s2 g2 b2 -> R pv s g s2 g2 (b1 + b2).
Proof.
  intros pv s g s1 g1 b1 s2 g2 b2 (A1 & A2 & A3 & A4) (B1 & B2 & B3 & B4). Rsplit.
  - intro H. specialize (A1 H). specialize (B1 H). lia.
  - eapply ext_trans; eassumption.
  - intros NR H. pose proof (A3 NR H) as [W T]. pose proof (B3 NR W) as [W2 T2]. split; [assumption | lia].
  - intros Hw NR Hp. eapply veq_trans; [apply A4 | apply B4]; assumption.
Qed.

Lemma R_weaken : forall (pv pv' : Prop) s g s' g' b, (pv' -> pv) -> R pv s g s' g' b -> R pv' s g s' g' b.
Proof. intros pv pv' s g s' g' b H (A & B & C & D). Rsplit; try tauto. Qed.

Lemma R_gas : forall (pv : Prop) s g s' g' b g'', g'' <= g' -> R pv s g s' g' b -> R pv s g s' g'' b.
Proof. intros pv s g s' g' b g'' H (A & B & C & D). Rsplit; try tauto. intro K. specialize (A K). lia. Qed.

(* a step on the state alone that keeps total and (when pv) the view *)
Lemma R_prim : forall (pv : Prop) s g s', ext s s' -> (no_resurrection G = true -> wf s -> wf s' /\ total s' = total s) ->
  (no_resurrection G = true -> pv -> veq s s') -> R pv s g s' g 0.
Proof.
  intros pv s g s' E W V. Rsplit; try assumption.
  - intro; lia.
  - intros NR H. destruct (W NR H) as [W1 T]. split; [assumption | lia].
  - intros _. exact V.
Qed.

Lemma nr_false : no_resurrection G = true -> p_resurrect G = false.
Proof. unfold no_resurrection. destruct (p_resurrect G); [discriminate | reflexivity]. Qed.

Lemma charge_le : forall c g g', charge c g = Some g' -> g' <= g.
Proof. unfold charge. intros c g g' H. destruct (N.leb c g) eqn:E; inversion H. lia. Qed.

Lemma charge_eq : forall c g g', charge c g = Some g' -> g' = g - c /\ c <= g.
Proof. unfold charge. intros c g g' H. destruct (N.leb c g) eqn:E; inversion H. lia. Qed.

(* ---- balances seen through the preludes of Call and create ------------------- *)

Lemma get_balance_set_obj : forall a b x s,
  get_balance a (set_obj b x s) = if addr_eqb a b then a_bal x else get_balance a s.
Proof. intros. unfold get_balance. rewrite get_obj_set_obj. destruct (addr_eqb a b); reflexivity. Qed.

Lemma get_balance_create_object_new : forall a b s, get_obj b s = None -> get_balance a (create_object b s) = get_balance a s.
Proof.
  intros a b s E. destruct (create_object_new b s E) as (e & He & _). rewrite He, get_balance_set_obj.
  destruct (addr_eqb a b) eqn:Eb; [|reflexivity].
  apply addr_eqb_eq in Eb. subst. cbn [a_bal fresh]. unfold get_balance. rewrite E. reflexivity.
Qed.

Lemma get_balance_create_account : forall a b s, get_balance a (create_account false b s) = get_balance a s.
Proof.
  intros a b s. unfold create_account. destruct (get_obj b s) as [prev|] eqn:E.
  - rewrite get_balance_set_obj. destruct (addr_eqb a b) eqn:Eb; [|reflexivity].
    apply addr_eqb_eq in Eb. subst. cbn [a_bal]. unfold get_balance. rewrite E. reflexivity.
  - destruct (alookup b (graves s)); apply get_balance_create_object_new; exact E.
Qed.

Lemma get_balance_get_or_new_any : forall a b s, get_balance a (get_or_new b s) = get_balance a s.
Proof.
  intros. unfold get_or_new. destruct (get_obj b s) eqn:E; [reflexivity|].
  apply get_balance_create_object_new. exact E.
Qed.

Lemma get_balance_set_nonce : forall a b n s, get_balance a (set_nonce b n s) = get_balance a s.
Proof.
  intros. unfold set_nonce. rewrite get_balance_set_obj. destruct (addr_eqb a b) eqn:Eb.
  - apply addr_eqb_eq in Eb. subst. cbn [set_nonce_f a_bal]. rewrite <- (get_balance_get_or_new_any b b s).
    unfold get_balance, obj_of. destruct (get_or_new_some b s) as [x Hx]. rewrite Hx. reflexivity.
  - unfold get_balance. rewrite get_obj_push_j. apply get_balance_get_or_new_any.
Qed.

(* placeholder *)
(* ---- frames ------------------------------------------------------------------ *)

Lemma run_code_good : forall runf cx c gas s, runner_good runf -> good (c_static cx = true) s gas (run_code P runf cx c gas s).
Proof.
  intros runf cx c gas s H. unfold run_code. destruct (code_acts P c).
  - destruct (N.eqb (code_len P c) 0); [Rsame | apply H].
  - apply H.
Qed.

Lemma run_target_good : forall runf cx to gas s, runner_good runf -> good (c_static cx = true) s gas (run_target G P runf cx to gas s).
Proof.
  intros runf cx to gas s H. unfold run_target. destruct (pre_gas G to) as [need|]; [|apply run_code_good; exact H].
  destruct (charge need gas) as [g|] eqn:C; [apply charge_le in C|]; Rsame.
Qed.

Lemma finish_good : forall (pv : Prop) s gas r, good pv s gas r -> good pv s gas (finish (snapshot s) r).
Proof.
  intros pv s gas r (A & B & C & D). unfold finish.
  assert (forall g ret, (stipend_ok G = true -> g <= gas) -> good pv s gas (mkRes (r_status r) g (revert_to (snapshot s) (r_st r)) ret 0)) as K.
  { intros g ret Hg. pose proof (revert_restores s (r_st r) B) as [J _]. Rsplit.
    - assumption.
    - apply ext_revert; [apply ext_refl | assumption].
    - intros NR W. split; [apply wf_revert; apply C; assumption|].
      rewrite N.add_0_r. apply seq_total; [apply wf_revert; apply C; assumption | assumption | assumption].
    - intros _ _ _. apply veq_sym. apply seq_veq. assumption. }
  destruct (r_status r) eqn:E; try (Rsplit; assumption).
  - exact (K (r_gas r) (r_ret r) A).
  - apply (K 0 0). intro. lia.
Qed.

(* the first statement of the property: a frame that ends in an error or a revert
   hands back the state it was entered with *)
Lemma finish_restores : forall s r, ext s (r_st r) -> r_status r = Failed \/ r_status r = Reverted ->
  jeq (r_st (finish (snapshot s) r)) s.
Proof.
  intros s r E [H|H]; unfold finish; rewrite H; cbn [r_st]; apply revert_restores; assumption.
Qed.

Lemma finish_status : forall n r, r_status (finish n r) = r_status r.
Proof. intros. unfold finish. destruct (r_status r) eqn:E; cbn [r_status]; congruence. Qed.

Lemma good_R_trans : forall (pv : Prop) s g s1 r, R pv s g s1 g 0 -> good pv s1 g r -> good pv s g r.
Proof.
  intros pv s g s1 r H K. unfold good in *. replace (r_burnt r) with (0 + r_burnt r) by lia.
  eapply R_trans; eassumption.
Qed.

Definition call_pv (k : kind) (cx : ctx) (value : N) : Prop :=
  (c_static cx = true \/ k = KStatic) /\ (k = KCall -> value = 0).

Lemma call_frame_good : forall runf k cx to gas value s, runner_good runf ->
  good (call_pv k cx value) s gas (call_frame G P runf k cx to gas value s).
Proof.
  intros runf k cx to gas value s H. unfold call_frame.
  destruct (N.ltb (p_depth G) (c_depth cx)); [Rsame|].
  destruct k.
  - (* Call *)
    destruct (can_transfer (c_self cx) value s) eqn:C; cbn [negb]; [|Rsame].
    apply finish_good.
    set (s1 := if exist to s then s else create_account (p_resurrect G) to s).
    assert (R (call_pv KCall cx value) s gas s1 gas 0) as R1.
    { subst s1. destruct (exist to s) eqn:Ex; [Rsame|].
      apply R_prim; [apply ext_create_account | | ].
      - intros NR W. rewrite (nr_false NR). split; [apply wf_create_account; assumption | apply total_create_account; assumption].
      - intros NR _. rewrite (nr_false NR). apply veq_create_account_new. assumption. }
    assert (no_resurrection G = true -> can_transfer (c_self cx) value s1 = true) as C1.
    { intro NR. subst s1. destruct (exist to s); [assumption|]. unfold can_transfer in *. rewrite (nr_false NR), get_balance_create_account. assumption. }
    eapply good_R_trans; [exact R1|].
    apply (good_R_trans _ _ _ (transfer (c_self cx) to value s1)).
    + apply R_prim; [apply ext_transfer | | ].
      * intros NR W. split; [apply wf_transfer; assumption | apply total_transfer; [assumption | apply C1; assumption]].
      * intros _ [_ Hv]. rewrite (Hv eq_refl). apply veq_transfer_zero.
    + eapply R_weaken; [|apply run_target_good; assumption]. cbn [c_static]. intros [[Hs|Hs] _]; [assumption | discriminate].
  - (* CallCode *)
    destruct (can_transfer (c_self cx) value s) eqn:C; cbn [negb]; [|Rsame].
    apply finish_good. eapply R_weaken; [|apply run_target_good; assumption]. cbn [c_static]. intros [[Hs|Hs] _]; [assumption | discriminate].
  - (* DelegateCall *)
    apply finish_good. eapply R_weaken; [|apply run_target_good; assumption]. cbn [c_static]. intros [[Hs|Hs] _]; [assumption | discriminate].
  - (* StaticCall *)
    apply finish_good. eapply R_weaken; [|apply run_target_good; assumption]. cbn [c_static]. intros _. reflexivity.
Qed.

Lemma call_frame_failed : forall runf k cx to gas value s r, runner_good runf ->
  r = call_frame G P runf k cx to gas value s -> r_status r = Failed \/ r_status r = Reverted -> jeq (r_st r) s.
Proof.
  intros runf k cx to gas value s r H Hr Hst. subst r. unfold call_frame in *.
  destruct (N.ltb (p_depth G) (c_depth cx)); [apply jeq_refl|].
  assert (forall cx' t s2, ext s s2 ->
            r_status (finish (snapshot s) (run_target G P runf cx' t gas s2)) = Failed \/
            r_status (finish (snapshot s) (run_target G P runf cx' t gas s2)) = Reverted ->
            jeq (r_st (finish (snapshot s) (run_target G P runf cx' t gas s2))) s) as K.
  { intros cx' t s2 E Hs. rewrite finish_status in Hs. apply finish_restores; [|assumption].
    eapply ext_trans; [exact E|]. apply (run_target_good runf cx' t gas s2 H). }
  destruct k.
  - destruct (can_transfer (c_self cx) value s); cbn [negb] in *; [|apply jeq_refl].
    apply K; [|assumption]. eapply ext_trans; [|apply ext_transfer].
    destruct (exist to s); [apply ext_refl | apply ext_create_account].
  - destruct (can_transfer (c_self cx) value s); cbn [negb] in *; [|apply jeq_refl].
    apply K; [apply ext_refl | assumption].
  - apply K; [apply ext_refl | assumption].
  - apply K; [apply ext_refl | assumption].
Qed.

Lemma create_frame_good : forall runf cx init gas value address s, runner_good runf ->
  good False s gas (create_frame G P runf cx init gas value address s).
Proof.
  intros runf cx init gas value address s H. unfold create_frame.
  destruct (N.ltb (p_depth G) (c_depth cx)); [Rsame|].
  destruct (can_transfer (c_self cx) value s) eqn:C; cbn [negb]; [|Rsame].
  set (s1 := set_nonce (c_self cx) (get_nonce (c_self cx) s + 1) s).
  assert (forall g, R False s g s1 g 0) as R1.
  { intro g. apply R_prim; [apply ext_set_nonce | | tauto].
    intros _ W. split; [apply wf_set_nonce; assumption | apply total_set_nonce; assumption]. }
  destruct (negb (N.eqb (get_nonce address s1) 0) || negb (N.eqb (get_code address s1) 0)).
  { eapply R_gas; [|apply (R1 gas)]. cbn [r_gas]. lia. }
  set (s2 := create_account (p_resurrect G) address s1). set (s3 := set_nonce address 1 s2). set (s4 := transfer (c_self cx) address value s3).
  assert (forall g, R False s1 g s4 g 0) as R2.
  { intro g. apply R_prim; [ | | tauto].
    - eapply ext_trans; [apply ext_create_account|]. eapply ext_trans; [apply ext_set_nonce | apply ext_transfer].
    - intros NR W. assert (wf s3) as W3 by (apply wf_set_nonce, wf_create_account; assumption).
      split; [apply wf_transfer; assumption|].
      subst s4. rewrite total_transfer; [| assumption |].
      + subst s3. rewrite total_set_nonce by (apply wf_create_account; assumption). subst s2. rewrite (nr_false NR). apply total_create_account. assumption.
      + unfold can_transfer in *. subst s3 s2 s1. rewrite (nr_false NR), get_balance_set_nonce, get_balance_create_account, get_balance_set_nonce. assumption. }
  set (r := run_code P runf (mkCtx address (c_self cx) value (c_static cx) (c_depth cx + 1)) init gas s4).
  assert (good False s gas r) as Gr.
  { eapply good_R_trans; [apply R1|]. eapply good_R_trans; [apply R2|].
    eapply R_weaken; [|apply run_code_good; assumption]. tauto. }
  assert (ext s1 (r_st r)) as E1.
  { eapply ext_trans; [apply (R2 gas)|]. apply (run_code_good runf _ init gas s4 H). }
  assert (forall st g ret, (stipend_ok G = true -> g <= gas) -> good False s gas (mkRes st g (revert_to (snapshot s1) (r_st r)) ret 0)) as K.
  { intros st g ret Hg. destruct Gr as (A & B & Cc & D).
    pose proof (revert_restores s1 (r_st r) E1) as [J _]. Rsplit; try tauto.
    - apply ext_revert; [apply (R1 gas) | assumption].
    - intros NR W0. split; [apply wf_revert; apply Cc; assumption|].
      rewrite N.add_0_r. destruct (R1 gas) as (_ & _ & T1 & _). destruct (T1 NR W0) as [W1 T1'].
      rewrite (seq_total _ s1); [lia | apply wf_revert; apply Cc; assumption | assumption | assumption]. }
  destruct (r_status r) eqn:Est.
  - (* Done: code deposit *)
    destruct (N.ltb (p_maxcode G) (code_len P (r_ret r))); [apply K; intro; lia|].
    destruct (charge (code_len P (r_ret r) * p_createdata G) (r_gas r)) as [g'|] eqn:Ch; [|apply K; intro; lia].
    apply charge_le in Ch. unfold good. cbn [r_st r_gas r_burnt].
    replace (r_burnt r) with (r_burnt r + 0) by lia. eapply R_trans; [exact Gr|].
    eapply R_gas; [exact Ch|]. apply R_prim; [apply ext_set_code | | tauto].
    intros _ W. split; [apply wf_set_code; assumption | apply total_set_code; assumption].
  - apply K. destruct Gr as (A & _). exact A.
  - apply K. intro. lia.
  - exact Gr.
Qed.

(* failed create: the state is the one at entry, or that with the creator's nonce bumped *)
Lemma create_frame_failed : forall runf cx init gas value address s r, runner_good runf ->
  r = create_frame G P runf cx init gas value address s -> r_status r = Failed \/ r_status r = Reverted ->
  jeq (r_st r) s \/ jeq (r_st r) (set_nonce (c_self cx) (get_nonce (c_self cx) s + 1) s).
Proof.
  intros runf cx init gas value address s r H Hr Hst. subst r. unfold create_frame in *.
  destruct (N.ltb (p_depth G) (c_depth cx)); [left; apply jeq_refl|].
  destruct (can_transfer (c_self cx) value s); cbn [negb] in *; [|left; apply jeq_refl].
  set (s1 := set_nonce (c_self cx) (get_nonce (c_self cx) s + 1) s) in *.
  destruct (negb (N.eqb (get_nonce address s1) 0) || negb (N.eqb (get_code address s1) 0)); [right; apply jeq_refl|].
  set (s4 := transfer (c_self cx) address value (set_nonce address 1 (create_account (p_resurrect G) address s1))) in *.
  set (r := run_code P runf (mkCtx address (c_self cx) value (c_static cx) (c_depth cx + 1)) init gas s4) in *.
  assert (ext s1 (r_st r)) as E1.
  { eapply ext_trans; [|apply (run_code_good runf _ init gas s4 H)].
    eapply ext_trans; [apply ext_create_account|]. eapply ext_trans; [apply ext_set_nonce | apply ext_transfer]. }
  right. destruct (r_status r) eqn:Est.
  - destruct (N.ltb (p_maxcode G) (code_len P (r_ret r))); [apply revert_restores; assumption|].
    destruct (charge (code_len P (r_ret r) * p_createdata G) (r_gas r)); [|apply revert_restores; assumption].
    cbn [r_status] in Hst. destruct Hst; discriminate.
  - apply revert_restores; assumption.
  - apply revert_restores; assumption.
  - rewrite Est in Hst. destruct Hst; discriminate.
Qed.

(* ---- one action ---------------------------------------------------------------- *)

Lemma writes_ok_sstore : writes_ok G = true -> w_sstore G = true.
Proof. unfold writes_ok. intro H. repeat (apply andb_prop in H; destruct H as [H ?]). assumption. Qed.
Lemma writes_ok_create : writes_ok G = true -> w_create G = true.
Proof. unfold writes_ok. intro H. repeat (apply andb_prop in H; destruct H as [H ?]). assumption. Qed.
Lemma writes_ok_create2 : writes_ok G = true -> w_create2 G = true.
Proof. unfold writes_ok. intro H. repeat (apply andb_prop in H; destruct H as [H ?]). assumption. Qed.
Lemma writes_ok_selfdestruct : writes_ok G = true -> w_selfdestruct G = true.
Proof. unfold writes_ok. intro H. repeat (apply andb_prop in H; destruct H as [H ?]). assumption. Qed.
Lemma writes_ok_log : forall n, writes_ok G = true -> n <= 4 -> w_log G n = true.
Proof.
  unfold writes_ok. intros n H L. repeat (apply andb_prop in H; destruct H as [H ?]).
  cbn [forallb] in H3. repeat (apply andb_prop in H3; destruct H3 as [? H3]).
  assert (n = 0 \/ n = 1 \/ n = 2 \/ n = 3 \/ n = 4) as D by lia.
  destruct D as [D|[D|[D|[D|D]]]]; subst; assumption.
Qed.

(* in a branch taken although [static && w] should have stopped it, pv is absurd *)
Lemma R_nonstatic : forall cx w s g s' g' b,
  c_static cx && w = false -> (writes_ok G = true -> w = true) ->
  (stipend_ok G = true -> g' <= g) -> ext s s' -> (no_resurrection G = true -> wf s -> wf s' /\ total s' + b = total s) ->
  R (c_static cx = true) s g s' g' b.
Proof.
  intros cx w s g s' g' b E Hw A B C. Rsplit; try tauto.
  intros K1 _ K2. rewrite K2, (Hw K1) in E. discriminate.
Qed.

Lemma fail_good : forall (pv : Prop) s gas g, g <= gas -> sgood pv s gas (fail g s).
Proof. intros. unfold fail, sgood, good. cbn [r_st r_gas r_burnt]. apply R_same. assumption. Qed.

Lemma ext_sstore_gas : forall cur orig v s, ext s (snd (sstore_gas G cur orig v s)).
Proof.
  intros. unfold sstore_gas.
  destruct (N.eqb cur v); [apply ext_refl|].
  destruct (N.eqb orig cur).
  { destruct (N.eqb orig 0); cbn [snd]; [apply ext_refl|]. destruct (N.eqb v 0); [apply ext_add_refund | apply ext_refl]. }
  cbn [snd].
  match goal with |- ext s (if _ then (if _ then add_refund _ ?x else add_refund _ ?x) else ?x) => assert (ext s x) as E1 end.
  { destruct (negb (N.eqb orig 0)); [|apply ext_refl].
    destruct (N.eqb cur 0); [apply ext_sub_refund|]. destruct (N.eqb v 0); [apply ext_add_refund | apply ext_refl]. }
  destruct (N.eqb orig v); [|exact E1].
  destruct (N.eqb orig 0); (eapply ext_trans; [exact E1 | apply ext_add_refund]).
Qed.

Lemma accts_sstore_gas : forall cur orig v s, accts (snd (sstore_gas G cur orig v s)) = accts s.
Proof.
  intros. unfold sstore_gas.
  destruct (N.eqb cur v); [reflexivity|].
  destruct (N.eqb orig cur).
  { destruct (N.eqb orig 0); cbn [snd]; [reflexivity|]. destruct (N.eqb v 0); reflexivity. }
  cbn [snd].
  destruct (N.eqb orig v), (N.eqb orig 0), (N.eqb cur 0), (N.eqb v 0); reflexivity.
Qed.

Lemma epilogue_good : forall (pv : Prop) req ok mem gas s b s0 g0,
  R pv s0 g0 s gas b -> sgood pv s0 g0 (epilogue G req ok mem gas s b).
Proof.
  intros pv req ok mem gas s b s0 g0 H. unfold epilogue.
  assert (forall g, g <= gas -> R pv s0 g0 s g b) as K by (intros; eapply R_gas; eassumption).
  assert (forall g st, g <= gas -> sgood pv s0 g0 (SHalt (mkRes st g s 0 b))) as K2.
  { intros. unfold sgood, good. cbn [r_st r_gas r_burnt]. apply K. assumption. }
  destruct req.
  - destruct (charge (g_push G + g_jumpi G) gas) as [g1|] eqn:C1; [|apply K2; lia].
    apply charge_le in C1. destruct ok.
    + destruct (charge (g_jumpdest G) g1) as [g2|] eqn:C2; [apply charge_le in C2; cbn [sgood]; apply K; lia | apply K2; lia].
    + destruct (charge (g_push G + g_push G + g_revert G) g1) as [g2|] eqn:C2; [apply charge_le in C2|]; apply K2; lia.
  - destruct (charge (g_pop G) gas) as [g1|] eqn:C1; [apply charge_le in C1; cbn [sgood]; apply K; lia | apply K2; lia].
Qed.

Lemma call_gas_le : forall avail base g temp, call_gas G avail base g = Some temp ->
  temp = p_stipend G \/ (base <= avail /\ temp <= avail - base) \/ temp < avail.
Proof.
  unfold call_gas. intros avail base g temp H.
  destruct (N.leb (2 ^ 64) g); [discriminate|].
  destruct (N.eqb g 0); [inversion H; auto|].
  destruct (N.leb avail g) eqn:E.
  - destruct (N.ltb avail base) eqn:E2; [discriminate|]. inversion H. right. left.
    split; [lia|]. apply N.le_sub_l.
  - inversion H. subst. right. right. lia.
Qed.

Lemma step_good : forall runf cx a mem gas s, runner_good runf ->
  sgood (c_static cx = true) s gas (step G P runf cx a mem gas s).
Proof.
  intros runf cx a mem gas s H. destruct a; cbn [step].
  - (* SSTORE *)
    destruct (charge (2 * g_push G) gas) as [g1|] eqn:C1; [apply charge_le in C1 | apply fail_good; lia].
    destruct (c_static cx && w_sstore G) eqn:Ew; [apply fail_good; lia|].
    destruct (charge (g_sstore G) g1) as [g2|] eqn:C2; [apply charge_le in C2 | apply fail_good; lia].
    destruct (N.leb g2 (p_sentry G)); [apply fail_good; lia|].
    pose proof (ext_sstore_gas (get_state (c_self cx) k s) (get_committed (c_self cx) k s) v s) as E1.
    pose proof (accts_sstore_gas (get_state (c_self cx) k s) (get_committed (c_self cx) k s) v s) as A1.
    destruct (sstore_gas G (get_state (c_self cx) k s) (get_committed (c_self cx) k s) v s) as [cost s1]. cbn [snd] in *.
    assert (wf s -> wf s1 /\ total s1 = total s) as W1.
    { intro W. unfold wf, total. rewrite A1. split; [assumption | reflexivity]. }
    destruct (charge cost g2) as [g3|] eqn:C3.
    + apply charge_le in C3. cbn [sgood].
      apply (R_nonstatic cx (w_sstore G)); [assumption | apply writes_ok_sstore | intro; lia | | ].
      * eapply ext_trans; [exact E1 | apply ext_set_state].
      * intros _ W. destruct (W1 W) as [W2 T2]. split; [apply wf_set_state; assumption|].
        rewrite total_set_state by assumption. lia.
    + unfold fail, sgood, good. cbn [r_st r_gas r_burnt].
      apply (R_nonstatic cx (w_sstore G)); [assumption | apply writes_ok_sstore | intro; lia | assumption | ].
      intros _ W. destruct (W1 W). split; [assumption | lia].
  - (* LOG *)
    destruct (charge ((N.of_nat (length topics) + 2) * g_push G) gas) as [g1|] eqn:C1; [apply charge_le in C1 | apply fail_good; lia].
    destruct (N.ltb 4 (N.of_nat (length topics))) eqn:E4; [apply fail_good; lia|].
    destruct (c_static cx && w_log G (N.of_nat (length topics))) eqn:Ew; [apply fail_good; lia|].
    destruct (charge (g_log G) g1) as [g2|] eqn:C2; [apply charge_le in C2 | apply fail_good; lia].
    destruct (if N.eqb dlen 0 then (0, mem) else mem_expand G mem (words dlen)) as [mc mem'].
    destruct (charge _ g2) as [g3|] eqn:C3; [apply charge_le in C3 | apply fail_good; lia].
    cbn [sgood]. apply (R_nonstatic cx (w_log G (N.of_nat (length topics)))); [assumption | | intro; lia | apply ext_add_log | ].
    + intro Hw. apply writes_ok_log; [assumption | lia].
    + intros _ W. split; [exact W | unfold total; cbn; lia].
  - (* CALL family *)
    set (hasv := match k with KCall | KCallCode => true | _ => false end).
    set (v' := if hasv then v else 0).
    destruct (charge ((if hasv then 7 else 6) * g_push G) gas) as [g1|] eqn:C1; [apply charge_le in C1 | apply fail_good; lia].
    match goal with |- context [if c_static cx && ?w then _ else _] => destruct (c_static cx && w) eqn:Ew end; [apply fail_good; lia|].
    match goal with |- context [charge ?c g1] => destruct (charge c g1) as [g2|] eqn:C2 end; [apply charge_le in C2 | apply fail_good; lia].
    match goal with |- context [call_gas G g2 ?b g] => set (base := b) end.
    destruct (call_gas G g2 base g) as [temp|] eqn:CG; [|apply fail_good; lia].
    destruct (charge (base + temp) g2) as [g3|] eqn:C3; [apply charge_eq in C3; destruct C3 as [C3 C3'] | apply fail_good; lia].
    set (given := temp + (if N.eqb v' 0 then 0 else p_stipend G)).
    pose proof (call_frame_good runf k cx to given v' s H) as Gf.
    set (r := call_frame G P runf k cx to given v' s) in *.
    assert (R (c_static cx = true) s gas (r_st r) (g3 + r_gas r) (r_burnt r)) as Rr.
    { destruct Gf as (A & B & C & D). Rsplit; try tauto.
      - intro Hs. specialize (A Hs). unfold stipend_ok in Hs. apply N.leb_le in Hs.
        assert (N.eqb v' 0 = false -> p_callvalue G <= base) as Hb.
        { intro Hv. subst base v' hasv. destruct k; cbn in Hv |- *; try discriminate; rewrite Hv; lia. }
        subst given. destruct (N.eqb v' 0) eqn:Ev; [lia|]. specialize (Hb eq_refl). lia.
      - intros Hw NR Hs. apply D; [assumption | assumption|]. split; [left; assumption|].
        intro Hk. subst k. subst v' hasv. cbn in Ew |- *. rewrite Hs in Ew. cbn in Ew.
        apply orb_false_iff in Ew. destruct Ew as [_ Ew]. apply negb_false_iff in Ew. apply N.eqb_eq in Ew. exact Ew. }
    destruct (r_status r) eqn:Est; try (apply epilogue_good; exact Rr).
    cbn [sgood]. unfold good. eapply R_gas; [|exact Rr]. lia.
  - (* CREATE family *)
    set (len := code_len P init). set (w := words len).
    destruct (charge (3 * g_push G + g_codecopy G) gas) as [g1|] eqn:C1; [apply charge_le in C1 | apply fail_good; lia].
    destruct (if N.eqb len 0 then (0, mem) else mem_expand G mem w) as [mc mem'].
    destruct (charge (mc + w * p_copy G) g1) as [g2|] eqn:C2; [apply charge_le in C2 | apply fail_good; lia].
    destruct (charge ((if two then 4 else 3) * g_push G) g2) as [g3|] eqn:C3; [apply charge_le in C3 | apply fail_good; lia].
    destruct (c_static cx && (if two then w_create2 G else w_create G)) eqn:Ew; [apply fail_good; lia|].
    match goal with |- context [charge ?c g3] => destruct (charge c g3) as [g4|] eqn:C4 end; [apply charge_le in C4 | apply fail_good; lia].
    set (given := if two then g4 - g4 / 64 else g4).
    set (address := if two then Cr2 (c_self cx) salt init else Cr (c_self cx) (get_nonce (c_self cx) s)).
    pose proof (create_frame_good runf cx init given v address s H) as Gf.
    set (r := create_frame G P runf cx init given v address s) in *.
    assert (given <= g4) as Lg by (subst given; destruct two; [apply N.le_sub_l | lia]).
    assert (R (c_static cx = true) s gas (r_st r) (g4 - given + r_gas r) (r_burnt r)) as Rr.
    { destruct Gf as (A & B & C & D).
      apply (R_nonstatic cx (if two then w_create2 G else w_create G)); try assumption.
      - intro Hw. destruct two; [apply writes_ok_create2 | apply writes_ok_create]; assumption.
      - intro Hs. specialize (A Hs). lia. }
    destruct (r_status r) eqn:Est; try (apply epilogue_good; exact Rr).
    cbn [sgood]. unfold good. destruct Gf as (A & B & C & D).
    apply (R_nonstatic cx (if two then w_create2 G else w_create G)); try assumption.
    + intro Hw. destruct two; [apply writes_ok_create2 | apply writes_ok_create]; assumption.
    + intro Hs. specialize (A Hs). lia.
  - (* SELFDESTRUCT *)
    destruct (charge (g_push G) gas) as [g1|] eqn:C1; [apply charge_le in C1 | apply fail_good; lia].
    destruct (c_static cx && w_selfdestruct G) eqn:Ew; [apply fail_good; lia|].
    destruct (charge (g_selfdestruct G) g1) as [g2|] eqn:C2; [apply charge_le in C2 | apply fail_good; lia].
    set (bal := get_balance (c_self cx) s).
    set (s1 := if has_suicided (c_self cx) s then s else add_refund (p_suicideref G) s).
    assert (ext s s1) as E1 by (subst s1; destruct (has_suicided (c_self cx) s); [apply ext_refl | apply ext_add_refund]).
    assert (accts s1 = accts s) as A1 by (subst s1; destruct (has_suicided (c_self cx) s); reflexivity).
    match goal with |- context [charge ?c g2] => destruct (charge c g2) as [g3|] eqn:C3 end.
    + apply charge_le in C3. unfold sgood, good. cbn [r_st r_gas r_burnt].
      apply (R_nonstatic cx (w_selfdestruct G)); [assumption | apply writes_ok_selfdestruct | intro; lia | | ].
      * eapply ext_trans; [exact E1|]. eapply ext_trans; [apply ext_add_balance | apply ext_suicide].
      * intros _ W. assert (wf s1) as W1 by (unfold wf; rewrite A1; exact W).
        assert (total s1 = total s) as T1 by (unfold total; rewrite A1; reflexivity).
        split; [apply wf_suicide, wf_add_balance; assumption|].
        pose proof (total_suicide (c_self cx) (add_balance ben bal s1) (wf_add_balance ben bal s1 W1)) as TS.
        rewrite total_add_balance in TS by assumption.
        assert (get_balance (c_self cx) (add_balance ben bal s1) = (if addr_eqb ben (c_self cx) then bal + bal else bal)) as GB.
        { unfold add_balance. destruct (get_or_new_some ben s1) as [x Hx].
          assert (get_balance (c_self cx) (get_or_new ben s1) = bal) as B0.
          { rewrite get_balance_get_or_new_any. subst bal. unfold get_balance, get_obj. rewrite A1. reflexivity. }
          destruct (N.eqb bal 0) eqn:Eb.
          - apply N.eqb_eq in Eb. assert (get_balance (c_self cx) (if acct_empty (obj_of ben (get_or_new ben s1)) then push_j (JTouch ben) (get_or_new ben s1) else get_or_new ben s1) = bal) as B1.
            { destruct (acct_empty _); exact B0. }
            rewrite B1. destruct (addr_eqb ben (c_self cx)); lia.
          - unfold set_balance. rewrite get_balance_set_obj. rewrite (addr_eqb_sym (c_self cx) ben).
            destruct (addr_eqb ben (c_self cx)) eqn:Ebs.
            + apply addr_eqb_eq in Ebs. subst ben. cbn [set_bal a_bal]. rewrite (obj_of_some _ _ _ Hx).
              unfold get_balance in B0. rewrite Hx in B0. lia.
            + unfold get_balance. rewrite get_obj_push_j. exact B0. }
        rewrite GB in TS. destruct (addr_eqb ben (c_self cx)); lia.
    + unfold fail, sgood, good. cbn [r_st r_gas r_burnt].
      apply (R_nonstatic cx (w_selfdestruct G)); [assumption | apply writes_ok_selfdestruct | intro; lia | assumption | ].
      intros _ W. unfold wf, total. rewrite A1. split; [assumption | lia].
  - (* NOP *)
    destruct (charge (n * g_jumpdest G) gas) as [g1|] eqn:C1; [apply charge_le in C1; Rsame | apply fail_good; lia].
  - (* IF: only the test *)
    match goal with |- context [charge ?c gas] => destruct (charge c gas) as [g1|] eqn:C1 end;
      [apply charge_le in C1; Rsame | apply fail_good; lia].
  - (* STOP *)
    destruct (charge (g_stop G) gas) as [g1|] eqn:C1; [apply charge_le in C1; Rsame | apply fail_good; lia].
  - (* RETURN *)
    destruct (N.eqb c 0).
    + destruct (charge (2 * g_push G + g_return G) gas) as [g1|] eqn:C1; [apply charge_le in C1; Rsame | apply fail_good; lia].
    + destruct (charge (3 * g_push G + g_codecopy G) gas) as [g1|] eqn:C1; [apply charge_le in C1 | apply fail_good; lia].
      destruct (if N.eqb (code_len P c) 0 then (0, mem) else mem_expand G mem (words (code_len P c))) as [mc mem'].
      destruct (charge (mc + words (code_len P c) * p_copy G) g1) as [g2|] eqn:C2; [apply charge_le in C2 | apply fail_good; lia].
      destruct (charge (2 * g_push G + g_return G) g2) as [g3|] eqn:C3; [apply charge_le in C3; Rsame | apply fail_good; lia].
  - (* REVERT *)
    destruct (charge (2 * g_push G + g_revert G) gas) as [g1|] eqn:C1; [apply charge_le in C1; Rsame | apply fail_good; lia].
  - apply fail_good. lia.
Qed.

Theorem run_good : forall fuel, runner_good (run G P fuel).
Proof.
  induction fuel as [|f IH]; intros cx acts mem gas s; cbn [run].
  - Rsame.
  - destruct acts as [|a rest].
    + destruct (charge (g_stop G) gas) as [g1|] eqn:C1; [apply charge_le in C1|]; Rsame.
    + pose proof (step_good (run G P f) cx a mem gas s IH) as Hs.
      destruct (step G P (run G P f) cx a mem gas s) as [mem' gas' s' b | r]; [|exact Hs].
      cbn [sgood] in Hs. unfold good, add_burnt. cbn [r_st r_gas r_burnt].
      eapply R_trans; [exact Hs | apply IH].
Qed.

End Inv.

(* ---- the statements, for the interpreter [run] at any fuel -------------------- *)

Lemma failed_call_no_trace : forall G P fuel k cx to gas value s r,
  r = call_frame G P (run G P fuel) k cx to gas value s ->
  r_status r = Failed \/ r_status r = Reverted -> seq (r_st r) s.
Proof.
  intros G P fuel k cx to gas value s r Hr Hs.
  apply (call_frame_failed G P (run G P fuel) k cx to gas value s r (run_good G P fuel) Hr Hs).
Qed.

Lemma failed_create_no_trace : forall G P fuel cx init gas value address s r,
  r = create_frame G P (run G P fuel) cx init gas value address s ->
  r_status r = Failed \/ r_status r = Reverted ->
  seq (r_st r) s \/ seq (r_st r) (set_nonce (c_self cx) (get_nonce (c_self cx) s + 1) s).
Proof.
  intros G P fuel cx init gas value address s r Hr Hs.
  destruct (create_frame_failed G P (run G P fuel) cx init gas value address s r (run_good G P fuel) Hr Hs) as [[H _]|[H _]]; [left | right]; exact H.
Qed.

Lemma static_pure : forall G P fuel, writes_ok G = true -> no_resurrection G = true ->
  (forall cx acts mem gas s, c_static cx = true -> veq s (r_st (run G P fuel cx acts mem gas s))) /\
  (forall k cx to gas value s, c_static cx = true \/ k = KStatic -> (k = KCall -> value = 0) ->
     veq s (r_st (call_frame G P (run G P fuel) k cx to gas value s))).
Proof.
  intros G P fuel Hw NR. split.
  - intros cx acts mem gas s Hs. destruct (run_good G P fuel cx acts mem gas s) as (_ & _ & _ & D). apply D; assumption.
  - intros k cx to gas value s H1 H2.
    destruct (call_frame_good G P (run G P fuel) k cx to gas value s (run_good G P fuel)) as (_ & _ & _ & D).
    apply D; [assumption | assumption | split; assumption].
Qed.

Lemma value_conserved : forall G P fuel, no_resurrection G = true ->
  (forall cx acts mem gas s, wf s -> let r := run G P fuel cx acts mem gas s in wf (r_st r) /\ total (r_st r) + r_burnt r = total s) /\
  (forall k cx to gas value s, wf s -> let r := call_frame G P (run G P fuel) k cx to gas value s in
     wf (r_st r) /\ total (r_st r) + r_burnt r = total s) /\
  (forall cx init gas value address s, wf s -> let r := create_frame G P (run G P fuel) cx init gas value address s in
     wf (r_st r) /\ total (r_st r) + r_burnt r = total s).
Proof.
  intros G P fuel NR. split; [|split].
  - intros cx acts mem gas s W. destruct (run_good G P fuel cx acts mem gas s) as (_ & _ & C & _). apply C; assumption.
  - intros k cx to gas value s W.
    destruct (call_frame_good G P (run G P fuel) k cx to gas value s (run_good G P fuel)) as (_ & _ & C & _). apply C; assumption.
  - intros cx init gas value address s W.
    destruct (create_frame_good G P (run G P fuel) cx init gas value address s (run_good G P fuel)) as (_ & _ & C & _). apply C; assumption.
Qed.

Lemma gas_bounded : forall G P fuel, stipend_ok G = true ->
  (forall cx acts mem gas s, r_gas (run G P fuel cx acts mem gas s) <= gas) /\
  (forall k cx to gas value s, r_gas (call_frame G P (run G P fuel) k cx to gas value s) <= gas) /\
  (forall cx init gas value address s, r_gas (create_frame G P (run G P fuel) cx init gas value address s) <= gas).
Proof.
  intros G P fuel Hs. split; [|split].
  - intros cx acts mem gas s. destruct (run_good G P fuel cx acts mem gas s) as (A & _). apply A. exact Hs.
  - intros k cx to gas value s.
    destruct (call_frame_good G P (run G P fuel) k cx to gas value s (run_good G P fuel)) as (A & _). apply A. exact Hs.
  - intros cx init gas value address s.
    destruct (create_frame_good G P (run G P fuel) cx init gas value address s (run_good G P fuel)) as (A & _). apply A. exact Hs.
Qed.

Lemma table_ok_split : forall G, table_ok G = true -> writes_ok G = true /\ stipend_ok G = true /\ no_resurrection G = true.
Proof.
  intros G H. unfold table_ok in H. apply andb_prop in H. destruct H as [H H3]. apply andb_prop in H. destruct H as [H1 H2].
  repeat split; assumption.
Qed.

(* the whole property in one statement *)
Definition C16_full : Prop :=
  forall G P fuel, table_ok G = true ->
    (* failed frames leave no trace *)
    (forall k cx to gas value s r, r = call_frame G P (run G P fuel) k cx to gas value s ->
       r_status r = Failed \/ r_status r = Reverted -> seq (r_st r) s) /\
    (forall cx init gas value address s r, r = create_frame G P (run G P fuel) cx init gas value address s ->
       r_status r = Failed \/ r_status r = Reverted ->
       seq (r_st r) s \/ seq (r_st r) (set_nonce (c_self cx) (get_nonce (c_self cx) s + 1) s)) /\
    (* static calls change nothing *)
    (forall cx acts mem gas s, c_static cx = true -> veq s (r_st (run G P fuel cx acts mem gas s))) /\
    (forall k cx to gas value s, c_static cx = true \/ k = KStatic -> (k = KCall -> value = 0) ->
       veq s (r_st (call_frame G P (run G P fuel) k cx to gas value s))) /\
    (* value is conserved up to the reported burn, in a whole transaction too *)
    (forall origin to gas value s, wf s -> let r := tx_call G P fuel origin to gas value s in
       total (r_st r) + r_burnt r = total s) /\
    (forall origin init gas value s, wf s -> let r := tx_create G P fuel origin init gas value s in
       total (r_st r) + r_burnt r = total s) /\
    (* gas *)
    (forall cx acts mem gas s, r_gas (run G P fuel cx acts mem gas s) <= gas) /\
    (forall k cx to gas value s, r_gas (call_frame G P (run G P fuel) k cx to gas value s) <= gas) /\
    (forall cx init gas value address s, r_gas (create_frame G P (run G P fuel) cx init gas value address s) <= gas).

Lemma c16_full : C16_full.
Proof.
  intros G P fuel Ht. destruct (table_ok_split G Ht) as (Hw & Hs & NR).
  destruct (static_pure G P fuel Hw NR) as [S1 S2].
  destruct (value_conserved G P fuel NR) as (V1 & V2 & V3).
  destruct (gas_bounded G P fuel Hs) as (G1 & G2 & G3).
  refine (conj _ (conj _ (conj S1 (conj S2 (conj _ (conj _ (conj G1 (conj G2 G3)))))))).
  - intros k cx to gas value s r Hr Hst. eapply failed_call_no_trace; eassumption.
  - intros cx init gas value address s r Hr Hst. eapply failed_create_no_trace; eassumption.
  - intros origin to gas value s W. apply (V2 KCall (origin_ctx origin) to gas value s W).
  - intros origin init gas value s W. apply (V3 (origin_ctx origin) init gas value (Cr origin (get_nonce origin s)) s W).
Qed.

(* ---- blocks: the same statements in any transaction of a block --------------------- *)

Lemma seq_storage : forall s1 s2, seq s1 s2 ->
  forall a k, get_state a k s1 = get_state a k s2 /\ get_committed a k s1 = get_committed a k s2.
Proof.
  intros s1 s2 H a k. unfold get_state, get_committed. rewrite (get_obj_jeq s1 s2 a H). split; reflexivity.
Qed.

(* whatever earlier transactions of the block did and Finalise parked in the pending
   layer: a failing frame of the current transaction leaves every account, and so every
   slot as read by GetState and GetCommittedState, as it found it *)
Lemma failed_call_no_trace_in_block : forall G P fuel txs s0 k cx to gas value r,
  r = call_frame G P (run G P fuel) k cx to gas value (block_state G P fuel txs s0) ->
  r_status r = Failed \/ r_status r = Reverted ->
  seq (r_st r) (block_state G P fuel txs s0) /\
  (forall a key, get_state a key (r_st r) = get_state a key (block_state G P fuel txs s0) /\
                 get_committed a key (r_st r) = get_committed a key (block_state G P fuel txs s0)).
Proof.
  intros G P fuel txs s0 k cx to gas value r Hr Hs.
  pose proof (failed_call_no_trace G P fuel k cx to gas value _ r Hr Hs) as H.
  split; [exact H | apply seq_storage; exact H].
Qed.

Lemma run_tx_conserved : forall G P fuel t s, no_resurrection G = true -> wf s ->
  let r := run_tx G P fuel t s in wf (r_st r) /\ total (r_st r) + r_burnt r = total s.
Proof.
  intros G P fuel t s NR W. destruct (value_conserved G P fuel NR) as (_ & V2 & V3).
  unfold run_tx. destruct (t_create t).
  - apply (V3 (origin_ctx (t_origin t)) (t_init t) (t_gas t) (t_value t) _ s W).
  - apply (V2 KCall (origin_ctx (t_origin t)) (t_to t) (t_gas t) (t_value t) s W).
Qed.

(* over a whole block no value appears: execution conserves it up to the burns, and
   Finalise only removes the balances of the accounts it deletes *)
Lemma block_no_value_created : forall G P fuel txs s, no_resurrection G = true -> wf s ->
  wf (block_state G P fuel txs s) /\ total (block_state G P fuel txs s) <= total s.
Proof.
  intros G P fuel txs. induction txs as [|t txs IH]; intros s NR W; cbn [block_state].
  - split; [exact W | lia].
  - destruct (run_tx_conserved G P fuel t s NR W) as [W1 T1].
    pose proof (wf_finalise _ W1) as W2. pose proof (total_finalise _ W1) as T2.
    destruct (IH _ NR W2) as [W3 T3]. split; [exact W3 | lia].
Qed.
