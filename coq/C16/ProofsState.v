(* C16 - lemmas about the journaled state: lookup/update algebra, journal undo
   restores the state it was taken from, key uniqueness, balance totals. *)
From VF.C16 Require Import Model.
From Coq Require Import Lia ZifyBool ZifyN ZifyNat Permutation.
Local Open Scope N_scope.

(* ---- addresses ------------------------------------------------------------ *)

Lemma addr_eqb_refl : forall a, addr_eqb a a = true.
Proof.
  induction a; cbn [addr_eqb]; rewrite ?IHa, ?N.eqb_refl; reflexivity.
Qed.

Lemma addr_eqb_eq : forall a b, addr_eqb a b = true <-> a = b.
Proof.
  induction a as [n|s IH n|s IH x i]; destruct b as [m|t m|t y j]; cbn [addr_eqb]; split; intro H;
    try discriminate; try (inversion H; subst; rewrite ?N.eqb_refl, ?addr_eqb_refl; reflexivity).
  - apply N.eqb_eq in H. subst. reflexivity.
  - apply andb_prop in H. destruct H as [H1 H2]. apply IH in H1. apply N.eqb_eq in H2. subst. reflexivity.
  - apply andb_prop in H. destruct H as [H H3]. apply andb_prop in H. destruct H as [H1 H2].
    apply IH in H1. apply N.eqb_eq in H2. apply N.eqb_eq in H3. subst. reflexivity.
Qed.

Lemma addr_eqb_neq : forall a b, addr_eqb a b = false <-> a <> b.
Proof.
  intros a b. split; intro H.
  - intro E. apply addr_eqb_eq in E. congruence.
  - destruct (addr_eqb a b) eqn:E; [apply addr_eqb_eq in E; contradiction | reflexivity].
Qed.

Lemma addr_eqb_sym : forall a b, addr_eqb a b = addr_eqb b a.
Proof.
  intros a b. destruct (addr_eqb a b) eqn:E.
  - apply addr_eqb_eq in E. subst. symmetry. apply addr_eqb_refl.
  - symmetry. apply addr_eqb_neq. apply addr_eqb_neq in E. congruence.
Qed.

Lemma addr_eq_dec : forall a b : addr, {a = b} + {a <> b}.
Proof.
  intros a b. destruct (addr_eqb a b) eqn:E.
  - left. apply addr_eqb_eq. exact E.
  - right. apply addr_eqb_neq. exact E.
Qed.

(* ---- account maps --------------------------------------------------------- *)

Lemma alookup_adel : forall m a b, alookup b (adel a m) = if addr_eqb b a then None else alookup b m.
Proof.
  induction m as [|[c x] r IH]; intros a b; cbn [adel alookup].
  - destruct (addr_eqb b a); reflexivity.
  - destruct (addr_eqb a c) eqn:Eac.
    + apply addr_eqb_eq in Eac. subst c. rewrite IH. destruct (addr_eqb b a); reflexivity.
    + cbn [alookup]. rewrite IH. destruct (addr_eqb b c) eqn:Ebc; [|reflexivity].
      apply addr_eqb_eq in Ebc. subst c. rewrite (addr_eqb_sym b a), Eac. reflexivity.
Qed.

Lemma alookup_aset : forall m a x b, alookup b (aset a x m) = if addr_eqb b a then Some x else alookup b m.
Proof.
  intros. unfold aset. cbn [alookup]. rewrite alookup_adel. destruct (addr_eqb b a); reflexivity.
Qed.

Definition keys (m : amap) := map fst m.

Lemma keys_adel_in : forall m a b, In b (keys (adel a m)) -> In b (keys m) /\ b <> a.
Proof.
  induction m as [|[c x] r IH]; intros a b H; cbn [adel keys map] in *.
  - contradiction.
  - destruct (addr_eqb a c) eqn:E.
    + apply IH in H. destruct H. split; [right; assumption | assumption].
    + cbn [map fst In] in H. destruct H as [H|H].
      * subst. split; [left; reflexivity|]. apply addr_eqb_neq in E. congruence.
      * apply IH in H. destruct H. split; [right; assumption | assumption].
Qed.

Lemma nodup_adel : forall m a, NoDup (keys m) -> NoDup (keys (adel a m)).
Proof.
  induction m as [|[c x] r IH]; intros a H; cbn [adel keys map] in *.
  - constructor.
  - inversion H; subst. destruct (addr_eqb a c).
    + apply IH. assumption.
    + cbn [map fst]. constructor; [|apply IH; assumption].
      intro Hin. apply keys_adel_in in Hin. destruct Hin. contradiction.
Qed.

Lemma nodup_aset : forall m a x, NoDup (keys m) -> NoDup (keys (aset a x m)).
Proof.
  intros. unfold aset. cbn [keys map fst]. constructor.
  - intro Hin. apply keys_adel_in in Hin. destruct Hin. congruence.
  - apply nodup_adel. assumption.
Qed.

Lemma alookup_none_notin : forall m a, alookup a m = None <-> ~ In a (keys m).
Proof.
  induction m as [|[c x] r IH]; intros a; cbn [alookup keys map fst In].
  - split; auto.
  - destruct (addr_eqb a c) eqn:E.
    + apply addr_eqb_eq in E. subst. split; [discriminate | intro H; exfalso; apply H; left; reflexivity].
    + apply addr_eqb_neq in E. rewrite IH. split; intro H.
      * intros [H1|H1]; [congruence | contradiction].
      * intro H1. apply H. right. assumption.
Qed.

Lemma in_alookup : forall m a x, NoDup (keys m) -> (In (a, x) m <-> alookup a m = Some x).
Proof.
  induction m as [|[c y] r IH]; intros a x H; cbn [alookup In].
  - split; [contradiction | discriminate].
  - cbn [keys map fst] in H. inversion H; subst. destruct (addr_eqb a c) eqn:E.
    + apply addr_eqb_eq in E. subst c. split.
      * intros [H1|H1]; [congruence|]. exfalso. apply H2. apply (in_map fst) in H1. exact H1.
      * intro H1. left. congruence.
    + apply addr_eqb_neq in E. rewrite <- IH by assumption. split.
      * intros [H1|H1]; [congruence | assumption].
      * intro H1. right. assumption.
Qed.

Definition aeq (m1 m2 : amap) := forall a, alookup a m1 = alookup a m2.

Lemma nodup_pairs : forall m : amap, NoDup (keys m) -> NoDup m.
Proof.
  induction m as [|[c y] r IH]; intro H; [constructor|].
  cbn [keys map fst] in H. inversion H; subst. constructor; [|apply IH; assumption].
  intro Hin. apply H2. apply (in_map fst) in Hin. exact Hin.
Qed.

Lemma aeq_perm : forall m1 m2, NoDup (keys m1) -> NoDup (keys m2) -> aeq m1 m2 -> Permutation m1 m2.
Proof.
  intros m1 m2 H1 H2 E. apply NoDup_Permutation; try (apply nodup_pairs; assumption).
  intros [a x]. rewrite (in_alookup m1 a x H1), (in_alookup m2 a x H2), (E a). reflexivity.
Qed.

(* total balance *)
Fixpoint asum (m : amap) : N := match m with [] => 0 | (_, x) :: r => a_bal x + asum r end.
Definition obal (o : option account) : N := match o with Some x => a_bal x | None => 0 end.

Lemma asum_perm : forall m1 m2, Permutation m1 m2 -> asum m1 = asum m2.
Proof.
  induction 1; cbn [asum]; try destruct x; try destruct y; cbn [asum]; lia.
Qed.

Lemma asum_adel : forall m a, NoDup (keys m) -> asum (adel a m) + obal (alookup a m) = asum m.
Proof.
  induction m as [|[c x] r IH]; intros a H; cbn [adel alookup asum].
  - reflexivity.
  - cbn [keys map fst] in H. inversion H; subst. destruct (addr_eqb a c) eqn:E.
    + apply addr_eqb_eq in E. subst c. cbn [obal].
      assert (alookup a r = None) as Hn by (apply alookup_none_notin; assumption).
      specialize (IH a H3). rewrite Hn in IH. cbn [obal] in IH. lia.
    + cbn [asum]. specialize (IH a H3). lia.
Qed.

Lemma asum_aset : forall m a x, NoDup (keys m) -> asum (aset a x m) + obal (alookup a m) = asum m + a_bal x.
Proof.
  intros. unfold aset. cbn [asum]. pose proof (asum_adel m a H). lia.
Qed.

(* ---- states ---------------------------------------------------------------- *)

Definition wf (s : state) := NoDup (keys (accts s)).
Definition total (s : state) := asum (accts s).

(* equal as far as the EVM and a dump can tell (existence included), journal aside *)
Definition seq (s1 s2 : state) :=
  aeq (accts s1) (accts s2) /\ logs s1 = logs s2 /\ (refund s1 = refund s2 /\ graves s1 = graves s2).
Definition jeq (s1 s2 : state) := seq s1 s2 /\ jrnl s1 = jrnl s2.

(* the EIP-161 view: a missing account and a pristine empty one are the same *)
Definition view (o : option account) : account := match o with Some x => x | None => fresh end.
Definition veq (s1 s2 : state) :=
  (forall a, view (alookup a (accts s1)) = view (alookup a (accts s2))) /\ logs s1 = logs s2 /\
  (refund s1 = refund s2 /\ graves s1 = graves s2).

Ltac seq3 := split; [ | split ].
Lemma seq_refl : forall s, seq s s. Proof. intro s. split; [intro a; reflexivity | split; [reflexivity | split; reflexivity]]. Qed.
Lemma seq_sym : forall a b, seq a b -> seq b a.
Proof. intros a b (H1 & H2 & H3 & H4). split; [|split; [|split]; congruence]. intro x. symmetry. apply H1. Qed.
Lemma seq_trans : forall a b c, seq a b -> seq b c -> seq a c.
Proof. intros a b c (H1 & H2 & H3 & H4) (K1 & K2 & K3 & K4). split; [|split; [|split]; congruence]. intro x. rewrite H1. apply K1. Qed.
Lemma jeq_refl : forall s, jeq s s. Proof. intro s. split; [apply seq_refl | reflexivity]. Qed.
Lemma jeq_sym : forall a b, jeq a b -> jeq b a.
Proof. intros a b [H1 H2]. split; [apply seq_sym; assumption | congruence]. Qed.
Lemma jeq_trans : forall a b c, jeq a b -> jeq b c -> jeq a c.
Proof. intros a b c [H1 H2] [K1 K2]. split; [eapply seq_trans; eassumption | congruence]. Qed.
Lemma veq_refl : forall s, veq s s. Proof. intro s. split; [intro a; reflexivity | split; [reflexivity | split; reflexivity]]. Qed.
Lemma veq_sym : forall a b, veq a b -> veq b a.
Proof. intros a b (H1 & H2 & H3 & H4). split; [|split; [|split]; congruence]. intro x. symmetry. apply H1. Qed.
Lemma veq_trans : forall a b c, veq a b -> veq b c -> veq a c.
Proof. intros a b c (H1 & H2 & H3 & H4) (K1 & K2 & K3 & K4). split; [|split; [|split]; congruence]. intro x. rewrite H1. apply K1. Qed.
Lemma seq_veq : forall a b, seq a b -> veq a b.
Proof. intros a b (H1 & H2 & H3). split; [|split; assumption]. intro x. rewrite H1. reflexivity. Qed.

Lemma seq_total : forall a b, wf a -> wf b -> seq a b -> total a = total b.
Proof.
  intros a b Wa Wb (H & _). unfold total. apply asum_perm. apply aeq_perm; assumption.
Qed.

(* ---- undo respects equality of states -------------------------------------- *)

Lemma get_obj_jeq : forall s1 s2 a, seq s1 s2 -> get_obj a s1 = get_obj a s2.
Proof. intros s1 s2 a (H & _). apply H. Qed.

Lemma seq_set_obj : forall s1 s2 a x, seq s1 s2 -> seq (set_obj a x s1) (set_obj a x s2).
Proof.
  intros s1 s2 a x (H1 & H2 & H3). seq3; cbn; try assumption.
  intro b. rewrite !alookup_aset. destruct (addr_eqb b a); [reflexivity | apply H1].
Qed.

Lemma undo1_seq : forall e s1 s2, seq s1 s2 -> seq (undo1 e s1) (undo1 e s2).
Proof.
  intros e s1 s2 H. pose proof H as (H1 & H2 & H3 & H4).
  assert (forall a f, seq (match get_obj a s1 with Some x => set_obj a (f x) s1 | None => s1 end)
                          (match get_obj a s2 with Some x => set_obj a (f x) s2 | None => s2 end)) as F.
  { intros a f. rewrite (get_obj_jeq s1 s2 a H). destruct (get_obj a s2); [apply seq_set_obj; assumption | assumption]. }
  assert (forall a, seq (with_accts (adel a (accts s1)) s1) (with_accts (adel a (accts s2)) s2)) as D.
  { intro a. seq3; cbn; try assumption; [|split; assumption].
    intro b. rewrite !alookup_adel. destruct (addr_eqb b a); [reflexivity | apply H1]. }
  destruct e; cbn [undo1].
  - apply D.
  - apply seq_set_obj; assumption.
  - apply (F a (fun x => set_dead_f x prev prevbal)).
  - apply (F a (fun x => set_bal x prev)).
  - apply (F a (fun x => set_nonce_f x prev)).
  - apply (F a (fun x => set_stor_f x prev)).
  - apply D.
  - apply (F a (fun x => set_code_f x prev)).
  - seq3; cbn; try assumption. split; [reflexivity | assumption].
  - seq3; cbn; try assumption; [congruence | split; assumption].
  - assumption.
Qed.

Lemma undo1_jrnl : forall e s, jrnl (undo1 e s) = jrnl s.
Proof.
  intros e s. destruct e; cbn [undo1]; try reflexivity; destruct (get_obj a s); reflexivity.
Qed.

Lemma undo_n_jeq : forall k s1 s2, jeq s1 s2 -> jeq (undo_n k s1) (undo_n k s2).
Proof.
  induction k as [|k IH]; intros s1 s2 H; cbn [undo_n]; [assumption|].
  destruct H as [Hs Hj]. rewrite Hj. destruct (jrnl s2) as [|e j] eqn:E.
  - split; [assumption | congruence].
  - apply IH. split.
    + apply undo1_seq. destruct Hs as (A & B & C). seq3; cbn; assumption.
    + rewrite !undo1_jrnl. reflexivity.
Qed.

Lemma undo_n_nil : forall k s, jrnl s = [] -> undo_n k s = s.
Proof. destruct k; intros s H; cbn [undo_n]; [reflexivity | rewrite H; reflexivity]. Qed.

Lemma undo_n_add : forall k1 k2 s, undo_n (k1 + k2) s = undo_n k2 (undo_n k1 s).
Proof.
  induction k1 as [|k1 IH]; intros k2 s; cbn [undo_n plus]; [reflexivity|].
  destruct (jrnl s) as [|e j] eqn:E.
  - symmetry. apply undo_n_nil. assumption.
  - apply IH.
Qed.

(* s' extends s: its journal is the journal of s plus k entries whose undoing gives s back *)
Definition ext (s s' : state) :=
  exists k, length (jrnl s') = (k + length (jrnl s))%nat /\ jeq (undo_n k s') s.

Lemma ext_refl : forall s, ext s s.
Proof. intro s. exists O. split; [reflexivity | apply jeq_refl]. Qed.

Lemma ext_trans : forall a b c, ext a b -> ext b c -> ext a c.
Proof.
  intros a b c (k1 & L1 & E1) (k2 & L2 & E2). exists (k2 + k1)%nat. split; [lia|].
  rewrite undo_n_add. eapply jeq_trans; [apply undo_n_jeq; eassumption | assumption].
Qed.

Lemma ext_jeq_r : forall a b b', ext a b -> jeq b' b -> ext a b'.
Proof.
  intros a b b' (k & L & E) H. exists k. split.
  - destruct H as [_ Hj]. rewrite Hj. assumption.
  - eapply jeq_trans; [apply undo_n_jeq; eassumption | assumption].
Qed.

Lemma revert_restores : forall s s', ext s s' -> jeq (revert_to (snapshot s) s') s.
Proof.
  intros s s' (k & L & E). unfold revert_to, snapshot. replace (length (jrnl s') - length (jrnl s))%nat with k by lia. assumption.
Qed.

Lemma ext_revert : forall s0 s s', ext s0 s -> ext s s' -> ext s0 (revert_to (snapshot s) s').
Proof. intros s0 s s' H0 H. eapply ext_jeq_r; [eassumption | apply revert_restores; assumption]. Qed.

(* one journal entry *)
Lemma ext_one : forall s s' e,
  jrnl s' = e :: jrnl s -> seq (undo1 e (with_jrnl (jrnl s) s')) s -> ext s s'.
Proof.
  intros s s' e Hj Hs. exists 1%nat. split; [rewrite Hj; reflexivity|].
  cbn [undo_n]. rewrite Hj. split; [assumption|]. rewrite undo1_jrnl. reflexivity.
Qed.

Lemma ext_nojournal : forall s s', jrnl s' = jrnl s -> seq s' s -> ext s s'.
Proof. intros s s' Hj Hs. exists O. split; [rewrite Hj; reflexivity | split; assumption]. Qed.

(* ---- wf is preserved by undo ----------------------------------------------- *)

Lemma wf_set_obj : forall a x s, wf s -> wf (set_obj a x s).
Proof. intros. unfold wf. change (accts (set_obj a x s)) with (aset a x (accts s)). apply nodup_aset. assumption. Qed.

Lemma wf_undo1 : forall e s, wf s -> wf (undo1 e s).
Proof.
  intros e s H. destruct e; cbn [undo1];
    try (match goal with |- context [get_obj ?a s] => destruct (get_obj a s) end); try (apply wf_set_obj); try assumption.
  all: unfold wf, with_accts; cbn [accts]; apply nodup_adel; assumption.
Qed.

Lemma wf_undo_n : forall k s, wf s -> wf (undo_n k s).
Proof.
  induction k as [|k IH]; intros s H; cbn [undo_n]; [assumption|].
  destruct (jrnl s); [assumption|]. apply IH. apply wf_undo1. exact H.
Qed.

Lemma wf_revert : forall n s, wf s -> wf (revert_to n s).
Proof. intros. apply wf_undo_n. assumption. Qed.

(* ---- the primitives: each extends the state, keeps wf, and moves the total as stated ---- *)

Ltac st := unfold set_obj, with_accts, with_jrnl, push_j, add_log, add_refund, sub_refund, get_obj; cbn [accts logs refund jrnl graves tl].
Ltac seq_tac := seq3; st; try reflexivity; try (split; reflexivity).

Lemma get_obj_set_obj : forall a x s b, get_obj b (set_obj a x s) = if addr_eqb b a then Some x else get_obj b s.
Proof. intros. unfold get_obj, set_obj. cbn. apply alookup_aset. Qed.

Lemma get_obj_push_j : forall e s b, get_obj b (push_j e s) = get_obj b s.
Proof. reflexivity. Qed.

Lemma ext_push_touch : forall a s, ext s (push_j (JTouch a) s).
Proof. intros. eapply ext_one; [reflexivity|]. cbn [undo1]. seq_tac. Qed.

Lemma ext_new_obj : forall a x e s, get_obj a s = None -> (e = JCreate a \/ e = JResetDel a) ->
  ext s (set_obj a x (push_j e s)).
Proof.
  intros a x e s E He. eapply ext_one; [reflexivity|].
  assert (undo1 e (with_jrnl (jrnl s) (set_obj a x (push_j e s))) = with_accts (adel a (aset a x (accts s))) s) as U
    by (destruct He; subst e; reflexivity).
  rewrite U. seq_tac. intro b.
  rewrite alookup_adel. destruct (addr_eqb b a) eqn:Eb.
  - apply addr_eqb_eq in Eb. subst. symmetry. exact E.
  - rewrite alookup_aset, Eb. reflexivity.
Qed.

Lemma ext_reset_obj : forall a x prev s, get_obj a s = Some prev -> ext s (set_obj a x (push_j (JReset a prev) s)).
Proof.
  intros a x prev s E. eapply ext_one; [reflexivity|]. cbn [undo1]. seq_tac. intro b.
  rewrite !alookup_aset. destruct (addr_eqb b a) eqn:Eb; [|reflexivity].
  apply addr_eqb_eq in Eb. subst. symmetry. exact E.
Qed.

Lemma ext_create_object : forall a s, ext s (create_object a s).
Proof.
  intros a s. unfold create_object. destruct (get_obj a s) as [prev|] eqn:E.
  - apply ext_reset_obj. exact E.
  - destruct (alookup a (graves s)); apply ext_new_obj; auto.
Qed.

Lemma ext_create_account : forall rz a s, ext s (create_account rz a s).
Proof.
  intros rz a s. unfold create_account. destruct (get_obj a s) as [prev|] eqn:E.
  - apply ext_reset_obj. exact E.
  - destruct (alookup a (graves s)); [destruct rz|]; try apply ext_create_object. apply ext_new_obj; auto.
Qed.

Lemma ext_get_or_new : forall a s, ext s (get_or_new a s).
Proof. intros. unfold get_or_new. destruct (get_obj a s); [apply ext_refl | apply ext_create_object]. Qed.

Lemma create_object_new : forall a s, get_obj a s = None ->
  exists e, create_object a s = set_obj a fresh (push_j e s) /\ (e = JCreate a \/ e = JResetDel a).
Proof.
  intros a s E. unfold create_object. rewrite E. destruct (alookup a (graves s)); eauto.
Qed.

Lemma get_or_new_some : forall a s, exists x, get_obj a (get_or_new a s) = Some x.
Proof.
  intros. unfold get_or_new. destruct (get_obj a s) eqn:E; [eauto|].
  destruct (create_object_new a s E) as (e & He & _). rewrite He, get_obj_set_obj, addr_eqb_refl. eauto.
Qed.

(* a field update of an existing object, journaled with the old field *)
Lemma ext_field : forall a s x e f,
  get_obj a s = Some x ->
  (forall y, get_obj a (set_obj a (f x) s) = Some y -> undo1 e (set_obj a y s) = set_obj a x (set_obj a y s)) ->
  ext s (set_obj a (f x) (push_j e s)).
Proof.
  intros a s x e f E H. eapply ext_one; [reflexivity|].
  change (with_jrnl (jrnl s) (set_obj a (f x) (push_j e s))) with (set_obj a (f x) s).
  rewrite (H (f x)) by (rewrite get_obj_set_obj, addr_eqb_refl; reflexivity).
  seq_tac. intro b. rewrite !alookup_aset. destruct (addr_eqb b a) eqn:Eb; [|reflexivity].
  apply addr_eqb_eq in Eb. subst. symmetry. exact E.
Qed.

Lemma obj_of_some : forall a s x, get_obj a s = Some x -> obj_of a s = x.
Proof. intros. unfold obj_of. rewrite H. reflexivity. Qed.

Lemma ext_set_balance : forall a b s x, get_obj a s = Some x -> ext s (set_balance a b s).
Proof.
  intros a b s x E. unfold set_balance. rewrite (obj_of_some _ _ _ E).
  apply (ext_field a s x (JBalance a (a_bal x)) (fun x => set_bal x b) E).
  intros y Hy. cbn [undo1]. rewrite get_obj_set_obj, addr_eqb_refl.
  rewrite get_obj_set_obj, addr_eqb_refl in Hy. inversion Hy; subst. destruct x; reflexivity.
Qed.

Lemma ext_add_balance : forall a amt s, ext s (add_balance a amt s).
Proof.
  intros a amt s. unfold add_balance. destruct (get_or_new_some a s) as [x Hx].
  eapply ext_trans; [apply ext_get_or_new|].
  destruct (N.eqb amt 0).
  - destruct (acct_empty (obj_of a (get_or_new a s))); [apply ext_push_touch | apply ext_refl].
  - eapply ext_set_balance. eassumption.
Qed.

Lemma ext_sub_balance : forall a amt s, ext s (sub_balance a amt s).
Proof.
  intros a amt s. unfold sub_balance. destruct (get_or_new_some a s) as [x Hx].
  eapply ext_trans; [apply ext_get_or_new|].
  destruct (N.eqb amt 0); [apply ext_refl | eapply ext_set_balance; eassumption].
Qed.

Lemma ext_transfer : forall a b amt s, ext s (transfer a b amt s).
Proof. intros. unfold transfer. eapply ext_trans; [apply ext_sub_balance | apply ext_add_balance]. Qed.

Lemma ext_set_nonce : forall a n s, ext s (set_nonce a n s).
Proof.
  intros a n s. unfold set_nonce. destruct (get_or_new_some a s) as [x Hx].
  eapply ext_trans; [apply ext_get_or_new|]. rewrite (obj_of_some _ _ _ Hx).
  apply (ext_field a _ x (JNonce a (a_nonce x)) (fun x => set_nonce_f x n) Hx).
  intros y Hy. cbn [undo1]. rewrite get_obj_set_obj, addr_eqb_refl.
  rewrite get_obj_set_obj, addr_eqb_refl in Hy. inversion Hy; subst. destruct x; reflexivity.
Qed.

Lemma ext_set_code : forall a c s, ext s (set_code a c s).
Proof.
  intros a c s. unfold set_code. destruct (get_or_new_some a s) as [x Hx].
  eapply ext_trans; [apply ext_get_or_new|]. rewrite (obj_of_some _ _ _ Hx).
  apply (ext_field a _ x (JCode a (a_code x)) (fun x => set_code_f x c) Hx).
  intros y Hy. cbn [undo1]. rewrite get_obj_set_obj, addr_eqb_refl.
  rewrite get_obj_set_obj, addr_eqb_refl in Hy. inversion Hy; subst. destruct x; reflexivity.
Qed.

Lemma ext_set_state : forall a k v s, ext s (set_state a k v s).
Proof.
  intros a k v s. unfold set_state. destruct (get_or_new_some a s) as [x Hx].
  eapply ext_trans; [apply ext_get_or_new|]. rewrite (obj_of_some _ _ _ Hx).
  destruct (N.eqb (o_state x k) v); [apply ext_refl|].
  apply (ext_field a _ x (JStorage a (a_dirty x)) (fun y => set_stor_f y (sset k v (a_dirty x))) Hx).
  intros y Hy. cbn [undo1]. rewrite get_obj_set_obj, addr_eqb_refl.
  rewrite get_obj_set_obj, addr_eqb_refl in Hy. inversion Hy; subst. destruct x; reflexivity.
Qed.

Lemma ext_suicide : forall a s, ext s (suicide a s).
Proof.
  intros a s. unfold suicide. destruct (get_obj a s) as [x|] eqn:Hx; [|apply ext_refl].
  apply (ext_field a _ x (JSuicide a (a_dead x) (a_bal x)) (fun x => set_dead_f x true 0) Hx).
  intros y Hy. cbn [undo1]. rewrite get_obj_set_obj, addr_eqb_refl.
  rewrite get_obj_set_obj, addr_eqb_refl in Hy. inversion Hy; subst. destruct x; reflexivity.
Qed.

Lemma ext_add_log : forall l s, ext s (add_log l s).
Proof. intros. eapply ext_one; [reflexivity|]. cbn [undo1]. seq_tac. Qed.
Lemma ext_add_refund : forall g s, ext s (add_refund g s).
Proof. intros. eapply ext_one; [reflexivity|]. cbn [undo1]. seq_tac. Qed.
Lemma ext_sub_refund : forall g s, ext s (sub_refund g s).
Proof. intros. eapply ext_one; [reflexivity|]. cbn [undo1]. seq_tac. Qed.

(* wf *)
Lemma wf_push_j : forall e s, wf s -> wf (push_j e s). Proof. intros. exact H. Qed.
Lemma wf_create_object : forall a s, wf s -> wf (create_object a s).
Proof. intros. unfold create_object. destruct (get_obj a s); [|destruct (alookup a (graves s))]; apply wf_set_obj; assumption. Qed.
Lemma wf_create_account : forall rz a s, wf s -> wf (create_account rz a s).
Proof.
  intros. unfold create_account. destruct (get_obj a s); [apply wf_set_obj; assumption|].
  destruct (alookup a (graves s)); [destruct rz|]; try (apply wf_create_object; assumption). apply wf_set_obj; assumption.
Qed.
Lemma wf_get_or_new : forall a s, wf s -> wf (get_or_new a s).
Proof. intros. unfold get_or_new. destruct (get_obj a s); [assumption | apply wf_create_object; assumption]. Qed.
Lemma wf_set_balance : forall a b s, wf s -> wf (set_balance a b s).
Proof. intros. unfold set_balance. apply wf_set_obj. assumption. Qed.
Lemma wf_add_balance : forall a b s, wf s -> wf (add_balance a b s).
Proof.
  intros. unfold add_balance. pose proof (wf_get_or_new a s H).
  destruct (N.eqb b 0); [destruct (acct_empty _); assumption | apply wf_set_balance; assumption].
Qed.
Lemma wf_sub_balance : forall a b s, wf s -> wf (sub_balance a b s).
Proof.
  intros. unfold sub_balance. pose proof (wf_get_or_new a s H).
  destruct (N.eqb b 0); [assumption | apply wf_set_balance; assumption].
Qed.
Lemma wf_transfer : forall a b v s, wf s -> wf (transfer a b v s).
Proof. intros. unfold transfer. apply wf_add_balance, wf_sub_balance. assumption. Qed.
Lemma wf_set_nonce : forall a n s, wf s -> wf (set_nonce a n s).
Proof. intros. unfold set_nonce. apply wf_set_obj. apply wf_get_or_new. assumption. Qed.
Lemma wf_set_code : forall a n s, wf s -> wf (set_code a n s).
Proof. intros. unfold set_code. apply wf_set_obj. apply wf_get_or_new. assumption. Qed.
Lemma wf_set_state : forall a k v s, wf s -> wf (set_state a k v s).
Proof.
  intros. unfold set_state. pose proof (wf_get_or_new a s H).
  destruct (N.eqb _ v); [assumption | apply wf_set_obj; assumption].
Qed.
Lemma wf_suicide : forall a s, wf s -> wf (suicide a s).
Proof. intros. unfold suicide. destruct (get_obj a s); [apply wf_set_obj|]; assumption. Qed.

(* totals *)
Lemma total_set_obj : forall a x s, wf s -> total (set_obj a x s) + obal (get_obj a s) = total s + a_bal x.
Proof. intros. unfold total, set_obj, get_obj, with_accts. cbn [accts]. apply asum_aset. assumption. Qed.

Lemma total_push_j : forall e s, total (push_j e s) = total s. Proof. reflexivity. Qed.

Lemma total_create_object_new : forall a s, wf s -> get_obj a s = None -> total (create_object a s) = total s.
Proof.
  intros a s W E. destruct (create_object_new a s E) as (e & He & _). rewrite He.
  pose proof (total_set_obj a fresh (push_j e s) W) as H.
  rewrite get_obj_push_j, E in H. cbn [obal fresh a_bal] in H. rewrite total_push_j in H. lia.
Qed.

(* with the resurrection of deleted balances switched off (the repaired code) *)
Lemma total_create_account : forall a s, wf s -> total (create_account false a s) = total s.
Proof.
  intros a s W. unfold create_account. destruct (get_obj a s) as [prev|] eqn:E.
  - pose proof (total_set_obj a (mkAcct 0 (a_bal prev) 0 [] [] [] false) (push_j (JReset a prev) s) W) as H.
    rewrite get_obj_push_j, E in H. cbn [obal a_bal] in H. rewrite total_push_j in H. lia.
  - destruct (alookup a (graves s)); apply total_create_object_new; assumption.
Qed.

Lemma total_get_or_new : forall a s, wf s -> total (get_or_new a s) = total s.
Proof.
  intros a s W. unfold get_or_new. destruct (get_obj a s) eqn:E; [reflexivity | apply total_create_object_new; assumption].
Qed.

Lemma total_set_balance : forall a b s x, wf s -> get_obj a s = Some x -> total (set_balance a b s) + a_bal x = total s + b.
Proof.
  intros a b s x W E. unfold set_balance. rewrite (obj_of_some _ _ _ E).
  pose proof (total_set_obj a (set_bal x b) (push_j (JBalance a (a_bal x)) s) W) as H.
  rewrite get_obj_push_j, E in H. cbn [obal set_bal a_bal] in H. rewrite total_push_j in H. exact H.
Qed.

Lemma get_balance_get_or_new : forall a s, get_balance a (get_or_new a s) = get_balance a s.
Proof.
  intros. unfold get_or_new, get_balance. destruct (get_obj a s) eqn:E; [rewrite E; reflexivity|].
  destruct (create_object_new a s E) as (e & He & _). rewrite He, get_obj_set_obj, addr_eqb_refl. reflexivity.
Qed.

Lemma total_add_balance : forall a amt s, wf s -> total (add_balance a amt s) = total s + amt.
Proof.
  intros a amt s W. unfold add_balance. destruct (get_or_new_some a s) as [x Hx].
  pose proof (total_get_or_new a s W) as T. pose proof (wf_get_or_new a s W) as W1.
  destruct (N.eqb amt 0) eqn:E.
  - apply N.eqb_eq in E. subst. destruct (acct_empty _); rewrite ?total_push_j; lia.
  - pose proof (total_set_balance a (a_bal (obj_of a (get_or_new a s)) + amt) _ x W1 Hx) as H.
    rewrite (obj_of_some _ _ _ Hx) in *. lia.
Qed.

Lemma total_sub_balance : forall a amt s, wf s -> amt <= get_balance a s -> total (sub_balance a amt s) + amt = total s.
Proof.
  intros a amt s W L. unfold sub_balance. destruct (get_or_new_some a s) as [x Hx].
  pose proof (total_get_or_new a s W) as T. pose proof (wf_get_or_new a s W) as W1.
  rewrite <- get_balance_get_or_new in L. unfold get_balance in L. rewrite Hx in L.
  destruct (N.eqb amt 0) eqn:E.
  - apply N.eqb_eq in E. subst. lia.
  - pose proof (total_set_balance a (a_bal (obj_of a (get_or_new a s)) - amt) _ x W1 Hx) as H.
    rewrite (obj_of_some _ _ _ Hx) in *. lia.
Qed.

Lemma total_transfer : forall a b amt s, wf s -> can_transfer a amt s = true -> total (transfer a b amt s) = total s.
Proof.
  intros a b amt s W C. unfold transfer. unfold can_transfer in C. apply N.leb_le in C.
  rewrite total_add_balance by (apply wf_sub_balance; assumption).
  pose proof (total_sub_balance a amt s W C). lia.
Qed.

Lemma total_field : forall a s x y, wf s -> get_obj a s = Some x -> a_bal y = a_bal x -> total (set_obj a y s) = total s.
Proof.
  intros a s x y W E B. pose proof (total_set_obj a y s W) as H. rewrite E in H. cbn [obal] in H. lia.
Qed.

Lemma total_set_nonce : forall a n s, wf s -> total (set_nonce a n s) = total s.
Proof.
  intros a n s W. unfold set_nonce. destruct (get_or_new_some a s) as [x Hx]. rewrite (obj_of_some _ _ _ Hx).
  rewrite (total_field a _ x) ; [rewrite total_push_j; apply total_get_or_new; assumption | apply wf_get_or_new; assumption | exact Hx | reflexivity].
Qed.
Lemma total_set_code : forall a n s, wf s -> total (set_code a n s) = total s.
Proof.
  intros a n s W. unfold set_code. destruct (get_or_new_some a s) as [x Hx]. rewrite (obj_of_some _ _ _ Hx).
  rewrite (total_field a _ x) ; [rewrite total_push_j; apply total_get_or_new; assumption | apply wf_get_or_new; assumption | exact Hx | reflexivity].
Qed.
Lemma total_set_state : forall a k v s, wf s -> total (set_state a k v s) = total s.
Proof.
  intros a k v s W. unfold set_state. destruct (get_or_new_some a s) as [x Hx]. rewrite (obj_of_some _ _ _ Hx).
  destruct (N.eqb _ v); [apply total_get_or_new; assumption|].
  rewrite (total_field a _ x) ; [rewrite total_push_j; apply total_get_or_new; assumption | apply wf_get_or_new; assumption | exact Hx | reflexivity].
Qed.
Lemma total_suicide : forall a s, wf s -> total (suicide a s) + get_balance a s = total s.
Proof.
  intros a s W. unfold suicide, get_balance. destruct (get_obj a s) as [x|] eqn:E; [|lia].
  pose proof (total_set_obj a (set_dead_f x true 0) (push_j (JSuicide a (a_dead x) (a_bal x)) s) W) as H.
  rewrite get_obj_push_j, E in H. cbn [obal set_dead_f a_bal] in H. rewrite total_push_j in H. lia.
Qed.

(* ---- the EIP-161 view under the operations a static frame can reach ---------- *)

Lemma veq_set_obj_fresh : forall a s, get_obj a s = None -> veq s (set_obj a fresh s).
Proof.
  intros a s E. split; [|split; [reflexivity | split; reflexivity]].
  intro b. st. rewrite alookup_aset. destruct (addr_eqb b a) eqn:Eb; [|reflexivity].
  apply addr_eqb_eq in Eb. subst. unfold get_obj in E. rewrite E. reflexivity.
Qed.

Lemma veq_push_j : forall e s, veq s (push_j e s).
Proof. intros. split; [intro; reflexivity | split; [reflexivity | split; reflexivity]]. Qed.

Lemma veq_create_object_new : forall a s, get_obj a s = None -> veq s (create_object a s).
Proof.
  intros a s E. destruct (create_object_new a s E) as (e & He & _). rewrite He.
  eapply veq_trans; [apply (veq_push_j e) | apply veq_set_obj_fresh; exact E].
Qed.

Lemma veq_get_or_new : forall a s, veq s (get_or_new a s).
Proof. intros. unfold get_or_new. destruct (get_obj a s) eqn:E; [apply veq_refl | apply veq_create_object_new; exact E]. Qed.

Lemma veq_transfer_zero : forall a b s, veq s (transfer a b 0 s).
Proof.
  intros. unfold transfer, sub_balance, add_balance. cbn [N.eqb].
  eapply veq_trans; [apply (veq_get_or_new a)|]. eapply veq_trans; [apply (veq_get_or_new b)|].
  destruct (acct_empty _); [apply veq_push_j | apply veq_refl].
Qed.

(* with the resurrection of deleted balances switched off (the repaired code) *)
Lemma veq_create_account_new : forall a s, exist a s = false -> veq s (create_account false a s).
Proof.
  intros a s E. unfold exist in E. unfold create_account. destruct (get_obj a s) eqn:E1; [discriminate|].
  destruct (alookup a (graves s)); apply veq_create_object_new; exact E1.
Qed.

(* ---- Finalise between the transactions of a block ---------------------------------- *)

Lemma wf_finalise1 : forall a s, wf s -> wf (finalise1 a s).
Proof.
  intros a s W. unfold finalise1. destruct (get_obj a s) as [x|]; [|exact W].
  destruct (a_dead x || acct_empty x); [|apply wf_set_obj; exact W].
  unfold wf. cbn [accts]. apply nodup_adel. exact W.
Qed.

Lemma wf_finalise : forall s, wf s -> wf (finalise s).
Proof.
  intros s W. unfold finalise, wf. cbn [accts].
  change (wf (fold_right (fun e s0 => match dirtied e with Some a => finalise1 a s0 | None => s0 end) s (jrnl s))).
  induction (jrnl s) as [|e j IH]; cbn [fold_right]; [exact W|].
  destruct (dirtied e); [apply wf_finalise1|]; exact IH.
Qed.

(* Finalise never adds value: what disappears is the balance of the deleted accounts *)
Lemma total_finalise1 : forall a s, wf s -> total (finalise1 a s) <= total s.
Proof.
  intros a s W. unfold finalise1. destruct (get_obj a s) as [x|] eqn:E; [|lia].
  destruct (a_dead x || acct_empty x).
  - unfold total. cbn [accts]. pose proof (asum_adel (accts s) a W). lia.
  - pose proof (total_set_obj a (park x) s W) as H. rewrite E in H. cbn [obal park a_bal] in H. lia.
Qed.

Lemma total_finalise : forall s, wf s -> total (finalise s) <= total s.
Proof.
  intros s W. unfold finalise, total at 1. cbn [accts].
  change (total (fold_right (fun e s0 => match dirtied e with Some a => finalise1 a s0 | None => s0 end) s (jrnl s)) <= total s).
  assert (forall j, wf (fold_right (fun e s0 => match dirtied e with Some a => finalise1 a s0 | None => s0 end) s j) /\
                    total (fold_right (fun e s0 => match dirtied e with Some a => finalise1 a s0 | None => s0 end) s j) <= total s) as K.
  { induction j as [|e j [IW IT]]; cbn [fold_right]; [split; [exact W | lia]|].
    destruct (dirtied e); [|split; assumption].
    split; [apply wf_finalise1; exact IW|]. pose proof (total_finalise1 a _ IW). lia. }
  apply K.
Qed.
