(* C16 - lemmas about the journaled state: lookup/update algebra, journal undo
   restores the state it was taken from, key uniqueness, balance totals. *)
From VF.C16 Require Import Model.
From Coq Require Import Lia ZifyBool ZifyN ZifyNat Permutation.
Local Open Scope N_scope.

(* ---- addresses ------------------------------------------------------------ *)

Lemma addr_eqb_refl : forall a, addr_eqb a a = true.
Proof.
  induction a; cbn [addr_eqb]; rewrite ?IHa, ?N.eqb_refl; reflexivity.
Qed.

Lemma addr_eqb_eq : forall a b, addr_eqb a b = true <-> a = b.
Proof.
  induction a as [n|s IH n|s IH x i]; destruct b as [m|t m|t y j]; cbn [addr_eqb]; split; intro H;
    try discriminate; try (inversion H; subst; rewrite ?N.eqb_refl, ?addr_eqb_refl; reflexivity).
  - apply N.eqb_eq in H. subst. reflexivity.
  - apply andb_prop in H. destruct H as [H1 H2]. apply IH in H1. apply N.eqb_eq in H2. subst. reflexivity.
  - apply andb_prop in H. destruct H as [H H3]. apply andb_prop in H. destruct H as [H1 H2].
    apply IH in H1. apply N.eqb_eq in H2. apply N.eqb_eq in H3. subst. reflexivity.
Qed.

Lemma addr_eqb_neq : forall a b, addr_eqb a b = false <-> a <> b.
Proof.
  intros a b. split; intro H.
  - intro E. apply addr_eqb_eq in E. congruence.
  - destruct (addr_eqb a b) eqn:E; [apply addr_eqb_eq in E; contradiction | reflexivity].
Qed.

Lemma addr_eqb_sym : forall a b, addr_eqb a b = addr_eqb b a.
Proof.
  intros a b. destruct (addr_eqb a b) eqn:E.
  - apply addr_eqb_eq in E. subst. symmetry. apply addr_eqb_refl.
  - symmetry. apply addr_eqb_neq. apply addr_eqb_neq in E. congruence.
Qed.

Lemma addr_eq_dec : forall a b : addr, {a = b} + {a <> b}.
Proof.
  intros a b. destruct (addr_eqb a b) eqn:E.
  - left. apply addr_eqb_eq. exact E.
  - right. apply addr_eqb_neq. exact E.
Qed.

(* ---- account maps --------------------------------------------------------- *)

Lemma alookup_adel : forall m a b, alookup b (adel a m) = if addr_eqb b a then None else alookup b m.
Proof.
  induction m as [|[c x] r IH]; intros a b; cbn [adel alookup].
  - destruct (addr_eqb b a); reflexivity.
  - destruct (addr_eqb a c) eqn:Eac.
    + apply addr_eqb_eq in Eac. subst c. rewrite IH. destruct (addr_eqb b a); reflexivity.
    + cbn [alookup]. rewrite IH. destruct (addr_eqb b c) eqn:Ebc; [|reflexivity].
      apply addr_eqb_eq in Ebc. subst c. rewrite (addr_eqb_sym b a), Eac. reflexivity.
Qed.

Lemma alookup_aset : forall m a x b, alookup b (aset a x m) = if addr_eqb b a then Some x else alookup b m.
Proof.
  intros. unfold aset. cbn [alookup]. rewrite alookup_adel. destruct (addr_eqb b a); reflexivity.
Qed.

Definition keys (m : amap) := map fst m.

Lemma keys_adel_in : forall m a b, In b (keys (adel a m)) -> In b (keys m) /\ b <> a.
Proof.
  induction m as [|[c x] r IH]; intros a b H; cbn [adel keys map] in *.
  - contradiction.
  - destruct (addr_eqb a c) eqn:E.
    + apply IH in H. destruct H. split; [right; assumption | assumption].
    + cbn [map fst In] in H. destruct H as [H|H].
      * subst. split; [left; reflexivity|]. apply addr_eqb_neq in E. congruence.
      * apply IH in H. destruct H. split; [right; assumption | assumption].
Qed.

Lemma nodup_adel : forall m a, NoDup (keys m) -> NoDup (keys (adel a m)).
Proof.
  induction m as [|[c x] r IH]; intros a H; cbn [adel keys map] in *.
  - constructor.
  - inversion H; subst. destruct (addr_eqb a c).
    + apply IH. assumption.
    + cbn [map fst]. constructor; [|apply IH; assumption].
      intro Hin. apply keys_adel_in in Hin. destruct Hin. contradiction.
Qed.

Lemma nodup_aset : forall m a x, NoDup (keys m) -> NoDup (keys (aset a x m)).
Proof.
  intros. unfold aset. cbn [keys map fst]. constructor.
  - intro Hin. apply keys_adel_in in Hin. destruct Hin. congruence.
  - apply nodup_adel. assumption.
Qed.

Lemma alookup_none_notin : forall m a, alookup a m = None <-> ~ In a (keys m).
Proof.
  induction m as [|[c x] r IH]; intros a; cbn [alookup keys map fst In].
  - split; auto.
  - destruct (addr_eqb a c) eqn:E.
    + apply addr_eqb_eq in E. subst. split; [discriminate | intro H; exfalso; apply H; left; reflexivity].
    + apply addr_eqb_neq in E. rewrite IH. split; intro H.
      * intros [H1|H1]; [congruence | contradiction].
      * intro H1. apply H. right. assumption.
Qed.

Lemma in_alookup : forall m a x, NoDup (keys m) -> (In (a, x) m <-> alookup a m = Some x).
Proof.
  induction m as [|[c y] r IH]; intros a x H; cbn [alookup In].
  - split; [contradiction | discriminate].
  - cbn [keys map fst] in H. inversion H; subst. destruct (addr_eqb a c) eqn:E.
    + apply addr_eqb_eq in E. subst c. split.
      * intros [H1|H1]; [congruence|]. exfalso. apply H2. apply (in_map fst) in H1. exact H1.
      * intro H1. left. congruence.
    + apply addr_eqb_neq in E. rewrite <- IH by assumption. split.
      * intros [H1|H1]; [congruence | assumption].
      * intro H1. right. assumption.
Qed.

Definition aeq (m1 m2 : amap) := forall a, alookup a m1 = alookup a m2.

Lemma nodup_pairs : forall m : amap, NoDup (keys m) -> NoDup m.
Proof.
  induction m as [|[c y] r IH]; intro H; [constructor|].
  cbn [keys map fst] in H. inversion H; subst. constructor; [|apply IH; assumption].
  intro Hin. apply H2. apply (in_map fst) in Hin. exact Hin.
Qed.

Lemma aeq_perm : forall m1 m2, NoDup (keys m1) -> NoDup (keys m2) -> aeq m1 m2 -> Permutation m1 m2.
Proof.
  intros m1 m2 H1 H2 E. apply NoDup_Permutation; try (apply nodup_pairs; assumption).
  intros [a x]. rewrite (in_alookup m1 a x H1), (in_alookup m2 a x H2), (E a). reflexivity.
Qed.

(* total balance *)
Fixpoint asum (m : amap) : N := match m with [] => 0 | (_, x) :: r => a_bal x + asum r end.
Definition obal (o : option account) : N := match o with Some x => a_bal x | None => 0 end.

Lemma asum_perm : forall m1 m2, Permutation m1 m2 -> asum m1 = asum m2.
Proof.
  induction 1; cbn [asum]; try destruct x; try destruct y; cbn [asum]; lia.
Qed.

Lemma asum_adel : forall m a, NoDup (keys m) -> asum (adel a m) + obal (alookup a m) = asum m.
Proof.
  induction m as [|[c x] r IH]; intros a H; cbn [adel alookup asum].
  - reflexivity.
  - cbn [keys map fst] in H. inversion H; subst. destruct (addr_eqb a c) eqn:E.
    + apply addr_eqb_eq in E. subst c. cbn [obal].
      assert (alookup a r = None) as Hn by (apply alookup_none_notin; assumption).
      specialize (IH a H3). rewrite Hn in IH. cbn [obal] in IH. lia.
    + cbn [asum]. specialize (IH a H3). lia.
Qed.

Lemma asum_aset : forall m a x, NoDup (keys m) -> asum (aset a x m) + obal (alookup a m) = asum m + a_bal x.
Proof.
  intros. unfold aset. cbn [asum]. pose proof (asum_adel m a H). lia.
Qed.

(* ---- states ---------------------------------------------------------------- *)

Definition wf (s : state) := NoDup (keys (accts s)).
Definition total (s : state) := asum (accts s).

(* equal as far as the EVM and a dump can tell (existence included), journal aside *)
Definition seq (s1 s2 : state) := aeq (accts s1) (accts s2) /\ logs s1 = logs s2 /\ refund s1 = refund s2.
Definition jeq (s1 s2 : state) := seq s1 s2 /\ jrnl s1 = jrnl s2.

(* the EIP-161 view: a missing account and a pristine empty one are the same *)
Definition view (o : option account) : account := match o with Some x => x | None => fresh end.
Definition veq (s1 s2 : state) :=
  (forall a, view (alookup a (accts s1)) = view (alookup a (accts s2))) /\ logs s1 = logs s2 /\ refund s1 = refund s2.

Ltac seq3 := split; [ | split ].
Lemma seq_refl : forall s, seq s s. Proof. intro s. seq3; try reflexivity. intro a. reflexivity. Qed.
Lemma seq_sym : forall a b, seq a b -> seq b a.
Proof. intros a b (H1 & H2 & H3). split; [|split; congruence]. intro x. symmetry. apply H1. Qed.
Lemma seq_trans : forall a b c, seq a b -> seq b c -> seq a c.
Proof. intros a b c (H1 & H2 & H3) (K1 & K2 & K3). split; [|split; congruence]. intro x. rewrite H1. apply K1. Qed.
Lemma jeq_refl : forall s, jeq s s. Proof. intro s. split; [apply seq_refl | reflexivity]. Qed.
Lemma jeq_sym : forall a b, jeq a b -> jeq b a.
Proof. intros a b [H1 H2]. split; [apply seq_sym; assumption | congruence]. Qed.
Lemma jeq_trans : forall a b c, jeq a b -> jeq b c -> jeq a c.
Proof. intros a b c [H1 H2] [K1 K2]. split; [eapply seq_trans; eassumption | congruence]. Qed.
Lemma veq_refl : forall s, veq s s. Proof. intro s. seq3; reflexivity. Qed.
Lemma veq_sym : forall a b, veq a b -> veq b a.
Proof. intros a b (H1 & H2 & H3). split; [|split; congruence]. intro x. symmetry. apply H1. Qed.
Lemma veq_trans : forall a b c, veq a b -> veq b c -> veq a c.
Proof. intros a b c (H1 & H2 & H3) (K1 & K2 & K3). split; [|split; congruence]. intro x. rewrite H1. apply K1. Qed.
Lemma seq_veq : forall a b, seq a b -> veq a b.
Proof. intros a b (H1 & H2 & H3). split; [|split; assumption]. intro x. rewrite H1. reflexivity. Qed.

Lemma seq_total : forall a b, wf a -> wf b -> seq a b -> total a = total b.
Proof.
  intros a b Wa Wb (H & _). unfold total. apply asum_perm. apply aeq_perm; assumption.
Qed.

(* ---- undo respects equality of states -------------------------------------- *)

Lemma get_obj_jeq : forall s1 s2 a, seq s1 s2 -> get_obj a s1 = get_obj a s2.
Proof. intros s1 s2 a (H & _). apply H. Qed.

Lemma seq_set_obj : forall s1 s2 a x, seq s1 s2 -> seq (set_obj a x s1) (set_obj a x s2).
Proof.
  intros s1 s2 a x (H1 & H2 & H3). seq3; cbn; try assumption.
  intro b. rewrite !alookup_aset. destruct (addr_eqb b a); [reflexivity | apply H1].
Qed.

Lemma undo1_seq : forall e s1 s2, seq s1 s2 -> seq (undo1 e s1) (undo1 e s2).
Proof.
  intros e s1 s2 H. pose proof H as (H1 & H2 & H3).
  destruct e; cbn [undo1]; try rewrite (get_obj_jeq s1 s2 a H);
    try (destruct (get_obj a s2); [apply seq_set_obj; assumption | assumption]);
Show.
