(* C16 - facts about the jump table rows and gas parameters regenerated from the
   working tree (coq/gen/C16Table.v): the side conditions of the theorems hold for
   them, and the rows agree with what the model assumes about every opcode the
   compiled actions use. *)
From VF.C16 Require Import Model ProofsState ProofsEvm.
From VF.gen Require Import C16Table C16Aliasing.
From Coq Require Import String.
Local Open Scope N_scope.

Definition row (ops : list oprow) (c : N) : oprow :=
  nth (N.to_nat c) ops (mkRow c false 0 false false false false false false).

(* the opcodes whose model effect touches the state *)
Definition writing : list N := [0x55; 0xa0; 0xa1; 0xa2; 0xa3; 0xa4; 0xf0; 0xf5; 0xff].
Definition pushes : list N := map N.of_nat (List.seq 96%nat 32%nat).

Definition rows_ok (ops : list oprow) (G : gastab) : bool :=
  N.eqb (N.of_nat (List.length ops)) 256
  && forallb (fun c => N.eqb (o_code (row ops c)) c) (map N.of_nat (List.seq 0%nat 256%nat))
  (* writes = true exactly on the state-touching opcodes (CALL with value is tested separately by the interpreter) *)
  && forallb (fun r => negb (o_valid r) || Bool.eqb (o_writes r) (existsb (N.eqb (o_code r)) writing)) ops
  && forallb (fun c => o_valid (row ops c)) (writing ++ pushes ++ [0x00; 0x14; 0x15; 0x39; 0x50; 0x54; 0x57; 0x5b; 0xf1; 0xf2; 0xf3; 0xf4; 0xfa; 0xfd])
  (* constant gas the model charges *)
  && forallb (fun c => N.eqb (o_cgas (row ops c)) (g_push G)) pushes
  && N.eqb (o_cgas (row ops 0x50)) (g_pop G) && N.eqb (o_cgas (row ops 0x57)) (g_jumpi G)
  && N.eqb (o_cgas (row ops 0x5b)) (g_jumpdest G) && N.eqb (o_cgas (row ops 0x39)) (g_codecopy G)
  && N.eqb (o_cgas (row ops 0x54)) (g_sload G) && N.eqb (o_cgas (row ops 0x14)) (g_eq G) && N.eqb (o_cgas (row ops 0x15)) (g_iszero G)
  && negb (o_dyn (row ops 0x54)) && negb (o_dyn (row ops 0x14)) && negb (o_dyn (row ops 0x15))
  && N.eqb (o_cgas (row ops 0xf1)) (g_call G) && N.eqb (o_cgas (row ops 0xf2)) (g_callcode G)
  && N.eqb (o_cgas (row ops 0xf4)) (g_delegate G) && N.eqb (o_cgas (row ops 0xfa)) (g_static G)
  && N.eqb (o_cgas (row ops 0xf0)) (g_create G) && N.eqb (o_cgas (row ops 0xf5)) (g_create2 G)
  && N.eqb (o_cgas (row ops 0x55)) (g_sstore G)
  && forallb (fun c => N.eqb (o_cgas (row ops c)) (g_log G)) [0xa0; 0xa1; 0xa2; 0xa3; 0xa4]
  && N.eqb (o_cgas (row ops 0xff)) (g_selfdestruct G) && N.eqb (o_cgas (row ops 0xf3)) (g_return G)
  && N.eqb (o_cgas (row ops 0xfd)) (g_revert G) && N.eqb (o_cgas (row ops 0x00)) (g_stop G)
  (* the writes flags the model consults are the rows' *)
  && Bool.eqb (w_sstore G) (o_writes (row ops 0x55))
  && forallb (fun n => Bool.eqb (w_log G n) (o_writes (row ops (0xa0 + n)))) [0; 1; 2; 3; 4]
  && Bool.eqb (w_create G) (o_writes (row ops 0xf0)) && Bool.eqb (w_create2 G) (o_writes (row ops 0xf5))
  && Bool.eqb (w_selfdestruct G) (o_writes (row ops 0xff))
  && Bool.eqb (w_call G) (o_writes (row ops 0xf1)) && Bool.eqb (w_callcode G) (o_writes (row ops 0xf2))
  && Bool.eqb (w_delegate G) (o_writes (row ops 0xf4)) && Bool.eqb (w_static G) (o_writes (row ops 0xfa))
  (* control flow: STOP, RETURN, SELFDESTRUCT halt; REVERT reverts; nothing else the actions use does;
     0xfe is not an instruction; JUMPI is the only jump among them *)
  && forallb (fun c => o_halts (row ops c) && negb (o_reverts (row ops c))) [0x00; 0xf3; 0xff]
  && o_reverts (row ops 0xfd)
  && forallb (fun c => negb (o_halts (row ops c)) && negb (o_reverts (row ops c)) && negb (o_jumps (row ops c)))
       (pushes ++ [0x14; 0x15; 0x39; 0x50; 0x54; 0x55; 0x5b; 0xa0; 0xa1; 0xa2; 0xa3; 0xa4; 0xf0; 0xf1; 0xf2; 0xf4; 0xf5; 0xfa])
  && o_jumps (row ops 0x57) && negb (o_halts (row ops 0x57)) && negb (o_reverts (row ops 0x57))
  && negb (o_valid (row ops 0xfe)).

Lemma real_table_ok : table_ok real_gas = true.
Proof. vm_compute. reflexivity. Qed.

Lemma real_rows_ok : rows_ok real_ops real_gas = true.
Proof. vm_compute. reflexivity. Qed.

(* ---- journal-shared big.Int values -------------------------------------------------------
   core/state hands one *big.Int to several owners (CreateAccount gives the balance of the
   replaced object to the new one; the journal keeps the replaced object and previous
   values), which is sound only while a stored big.Int is replaced, never modified in
   place.  The model relies on it (a journal entry restores exactly what it recorded).
   gen/C16Aliasing.v lists every mutating big.Int method call on a stored field in
   core/state and core/vm; the list is pinned here: the calls known today all concern
   validator / staking records (not C16's subject), none touches an account balance, and
   anything new breaks this obligation. *)
Local Open Scope string_scope.
Definition allowed_inplace : list (string * string * string) := [
 ("core/state/statedb_staking.go", "*StateDB.AddStakingRecord", "sr.record.FinalValue.Set");
 ("core/state/statedb_staking.go", "*StateDB.UpdateDelegation", "dfrom.Stake.Set");
 ("core/state/statedb_staking.go", "*StateDB.UpdateDelegation", "dfrom.Token.Add");
 ("core/state/statedb_staking.go", "*StateDB.UpdateDelegation", "newVal.Stake.Add");
 ("core/state/statedb_staking.go", "*StateDB.UpdateDelegation", "newVal.Token.Add");
 ("core/state/validator.go", "*ValKindStat.AddRewards", "v.rewardsDistributable.Add");
 ("core/state/validator.go", "*ValKindStat.ResetRewards", "v.rewardsDistributable.Set");
 ("core/state/validator.go", "*ValKindStat.SetRewardsResidue", "v.rewardsResidue.Set");
 ("core/state/validator.go", "*ValKindStat.addOfflineStake", "v.offlineStake.Add");
 ("core/state/validator.go", "*ValKindStat.addOfflineToken", "v.offlineToken.Add");
 ("core/state/validator.go", "*ValKindStat.addStake", "v.onlineStake.Add");
 ("core/state/validator.go", "*ValKindStat.addToken", "v.onlineToken.Add");
 ("core/state/validator.go", "*ValKindStat.subOfflineStake", "v.offlineStake.Sub");
 ("core/state/validator.go", "*ValKindStat.subOfflineToken", "v.offlineToken.Sub");
 ("core/state/validator.go", "*ValKindStat.subStake", "v.onlineStake.Sub");
 ("core/state/validator.go", "*ValKindStat.subToken", "v.onlineToken.Sub");
 ("core/state/validator.go", "*Validator.AddTotalRewards", "v.RewardsDistributable.Add");
 ("core/state/validator.go", "*Validator.AddTotalRewards", "v.RewardsTotal.Add");
 ("core/state/validator.go", "*Validator.PartialCopy", "newVal.RewardsDistributable.Set");
 ("core/state/validator.go", "*Validator.PartialCopy", "newVal.RewardsTotal.Set");
 ("core/state/validator.go", "*Validator.PartialCopy", "newVal.Stake.Set");
 ("core/state/validator.go", "*Validator.PartialCopy", "newVal.Token.Set")].

Definition triple_eqb (a b : string * string * string) : bool :=
  let '(a1, a2, a3) := a in let '(b1, b2, b3) := b in String.eqb a1 b1 && String.eqb a2 b2 && String.eqb a3 b3.
Definition mentions (needle hay : string) : bool := match index 0 needle hay with Some _ => true | None => false end.

Definition inplace_ok (l : list (string * string * string)) : bool :=
  forallb (fun e => existsb (triple_eqb e) allowed_inplace) l
  && forallb (fun e => negb (mentions "Balance" (snd e))) l.

Lemma real_inplace_writes_pinned : inplace_ok inplace_writes = true.
Proof. vm_compute. reflexivity. Qed.
