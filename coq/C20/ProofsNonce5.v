(* C20 - part 5: a reset re-establishes the state-relative clauses; the
   invariant NI over all histories in which the ghost flag stays down. *)
From VF.C20 Require Import Model Lemmas ProofsWF ProofsWF2 ProofsWF3 ProofsCaps ProofsNonce ProofsNonce2 ProofsNonce3 ProofsNonce4.
From Coq Require Import Arith Lia ZifyBool ZifyN ZifyNat Permutation Sorted.
Local Open Scope N_scope.

(* ---- the ghost flag is only touched by demoteUnexecutables ------------------ *)
Lemma gs_all_remove_list rm p : gap_seen (all_remove_list p rm) = gap_seen p.
Proof. apply sr_all_remove_list. Qed.
Lemma gs_enqueue_all l p : gap_seen (enqueue_all p l) = gap_seen p.
Proof. apply sr_enqueue_all. Qed.

Lemma gs_remove_tx p id : gap_seen (remove_tx p id) = gap_seen p.
Proof.
  unfold remove_tx. destruct (all_get p id) as [t|]; auto.
  cbn [pending queue all_remove set_all].
  destruct (aget (pending p) (t_from t)) as [pl|].
  - destruct (l_remove pl t) as [[removed invalids] pl']. destruct removed.
    + cbn [gap_seen set_pnonces]. rewrite gs_enqueue_all. destruct (l_empty pl'); auto.
    + destruct (aget (queue p) (t_from t)) as [ql|]; auto.
      destruct (l_remove ql t) as [[ok inv] ql']. destruct (l_empty ql'); auto.
  - destruct (aget (queue p) (t_from t)) as [ql|]; auto.
    destruct (l_remove ql t) as [[ok inv] ql']. destruct (l_empty ql'); auto.
Qed.
Lemma gs_remove_txs l : forall p, gap_seen (remove_txs p l) = gap_seen p.
Proof. unfold remove_txs. induction l; intro p; cbn; auto. rewrite IHl. apply gs_remove_tx. Qed.

Lemma gs_shave p a : gap_seen (shave p a) = gap_seen p.
Proof.
  unfold shave. destruct (aget (pending p) a) as [l|]; auto. destruct (l_empty l); auto.
  destruct (l_cap l _) as [caps l'].
  assert (K : forall q, gap_seen (fold_left (fun p t => set_pnonces (all_remove p (t_id t)) (nc_set_if_lower (pnonces p) a (t_nonce t))) caps q) = gap_seen q).
  { induction caps; intro q; cbn; auto. rewrite IHcaps. auto. }
  rewrite K. auto.
Qed.
Lemma gs_shave_all l : forall p cnt,
  gap_seen (fst (fold_left (fun pc a => (shave (fst pc) a, snd pc - 1)) l (p, cnt))) = gap_seen p.
Proof. induction l; intros p cnt; cbn; auto. rewrite IHl. apply gs_shave. Qed.
Lemma gs_equalize fuel : forall p cnt prevs lp th, gap_seen (fst (equalize fuel p cnt prevs lp th)) = gap_seen p.
Proof.
  induction fuel as [|f IH]; intros p cnt prevs lp th; cbn; auto.
  destruct (_ && _); cbn; auto. rewrite fold_shave_pair, IH. apply gs_shave_all.
Qed.
Lemma gs_trunc_loop1 fuel spammers : forall p cnt offenders,
  gap_seen (fst (fst (trunc_loop1 fuel p cnt spammers offenders))) = gap_seen p.
Proof.
  induction spammers as [|o rest IH]; intros p cnt offenders; cbn; auto.
  destruct (N.ltb _ cnt); cbn; auto.
  destruct offenders as [|o1 os]; [apply IH|].
  destruct (equalize fuel p cnt (o1 :: os) (last (o1 :: os) 0) (pend_len p o)) as [p' cnt'] eqn:E.
  rewrite IH. pose proof (gs_equalize fuel p cnt (o1 :: os) (last (o1 :: os) 0) (pend_len p o)) as H. rewrite E in H. auto.
Qed.
Lemma gs_trunc_loop2 fuel : forall p cnt offenders, gap_seen (fst (trunc_loop2 fuel p cnt offenders)) = gap_seen p.
Proof.
  induction fuel as [|f IH]; intros p cnt offenders; cbn; auto.
  destruct (_ && _); cbn; auto. rewrite fold_shave_pair, IH. apply gs_shave_all.
Qed.
Lemma gs_truncate_pending p ord : gap_seen (truncate_pending p ord) = gap_seen p.
Proof.
  unfold truncate_pending. destruct (N.leb _ _); auto.
  match goal with |- context [trunc_loop1 ?f ?p0 ?c ?s ?o] =>
    pose proof (gs_trunc_loop1 f s p0 c o) as H; destruct (trunc_loop1 f p0 c s o) as [[p1 c1] off] end.
  cbn in H. destruct off; auto. rewrite gs_trunc_loop2. auto.
Qed.
Lemma gs_drop_last_n l : forall p drop, gap_seen (fst (drop_last_n p l drop)) = gap_seen p.
Proof.
  induction l as [|t r IH]; intros p drop; cbn; auto.
  destruct (N.ltb 0 drop); cbn; auto. rewrite IH. apply gs_remove_tx.
Qed.
Lemma gs_trunc_queue_loop addrs : forall p drop, gap_seen (trunc_queue_loop p addrs drop) = gap_seen p.
Proof.
  induction addrs as [|a rest IH]; intros p drop; cbn; auto.
  destruct (N.ltb 0 drop); auto. destruct (aget (queue p) a) as [l|]; auto.
  destruct (l_flatten l) as [flat l']. destruct (N.leb (l_len l) drop).
  - rewrite IH, gs_remove_txs. auto.
  - pose proof (gs_drop_last_n (rev flat) (set_queue p (aset (queue p) a l')) drop) as H.
    destruct (drop_last_n _ (rev flat) drop) as [p2 d2]. rewrite IH. auto.
Qed.
Lemma gs_truncate_queue p ord : gap_seen (truncate_queue p ord) = gap_seen p.
Proof. unfold truncate_queue. destruct (N.leb _ _); auto. apply gs_trunc_queue_loop. Qed.
Lemma gs_fix_nonce p a : gap_seen (fix_nonce p a) = gap_seen p.
Proof.
  unfold fix_nonce. destruct (aget (pending p) a) as [l|]; auto.
  destruct (l_flatten l) as [flat l']. destruct (rev flat); auto.
Qed.
Lemma gs_fold_fix l : forall p, gap_seen (fold_left fix_nonce l p) = gap_seen p.
Proof. induction l; intro p; cbn; auto. rewrite IHl. apply gs_fix_nonce. Qed.

(* ---- order_by covers its argument ------------------------------------------ *)
Lemma dedup_in l x : In x (dedup l) <-> In x l.
Proof.
  induction l as [|a r IH]; cbn; [tauto|].
  destruct (existsb (N.eqb a) r) eqn:E.
  - rewrite IH. split; auto. intros [->|H]; auto.
    apply existsb_exists in E as (y & Hy & Ey). apply N.eqb_eq in Ey. subst. auto.
  - cbn. rewrite IH. tauto.
Qed.
Lemma in_order_by ord l x : In x (order_by ord l) <-> In x l.
Proof. unfold order_by. rewrite isort_in. apply dedup_in. Qed.

(* ---- phase 1: promoteExecutables over every queue key ---------------------- *)
Definition QVa (p : pool) (a : N) : Prop := forall x, In x (lst (queue p) a) -> okv p x.
Definition PVa (p : pool) (a : N) : Prop := forall x, In x (lst (pending p) a) -> okv p x.

Lemma promote_fold_qv L : forall p,
  SC p -> NC p -> AFF0 p ->
  let p' := promote_executables p L in
  SC p' /\ NC p' /\ AFF0 p' /\ env_same p p' /\ gap_seen p' = gap_seen p /\
  (forall b, In b L \/ QVa p b -> QVa p' b).
Proof.
  unfold promote_executables. induction L as [|a r IH]; intros p S N A; cbn [fold_left].
  - split; auto. split; auto. split; auto. split; [apply env_refl|]. split; auto. intros b [[]|H]; auto.
  - destruct (promote_account_effect p a (proj1 S) (proj2 S)) as (E & Gs & _ & Fr & Qa & _).
    destruct (promote_account_nc p a (proj1 S) (proj2 S) N A) as [N1 A1].
    pose proof (sc_promote_account p a S) as S1.
    destruct (IH _ S1 N1 A1) as (S2 & N2 & A2 & E2 & Gs2 & Q2).
    cbn zeta in *. split; auto. split; auto. split; auto. split; [eapply env_trans; eauto|]. split; [congruence|].
    intros b Hb. apply Q2. destruct (N.eq_dec b a) as [->|Hn].
    + right. intros x Hx. apply (okv_env p); auto. apply Qa. auto.
    + destruct Hb as [[Hb|Hb]|Hb]; [congruence|auto|]. right.
      destruct (Fr b Hn) as (_ & Eq & _). intros x Hx. rewrite Eq in Hx. apply (okv_env p); auto.
Qed.

(* ---- phase 2: demoteUnexecutables over every pending key -------------------- *)
Definition GFa (p : pool) (a : N) : Prop :=
  forall t m, In t (lst (pending p) a) -> sn p a <= m < t_nonce t -> pn p a m.

Lemma sc_demote_account p a : SC p -> SC (demote_account p a).
Proof. intros [W C]. split; [apply ws_demote_account|apply caps_demote_account]; auto. Qed.

Lemma demote_fold L : forall p,
  SC p -> AFF0 p -> (forall b, QVa p b) ->
  let p' := fold_left demote_account L p in
  (gap_seen p = true -> gap_seen p' = true) /\
  SC p' /\ AFF0 p' /\ (forall b, QVa p' b) /\ env_same p p' /\
  (forall b, In b L \/ PVa p b -> PVa p' b) /\
  ((gapfix (cfg p) = true \/ gap_seen p' = false) -> forall b, In b L \/ GFa p b -> GFa p' b).
Proof.
  induction L as [|a r IH]; intros p S A Q; cbn [fold_left].
  - split; auto. split; auto. split; auto. split; auto. split; [apply env_refl|].
    split; [intros b [[]|H]; auto|]. intros _ b [[]|H]; auto.
  - destruct (demote_account_effect p a (proj1 S) (proj2 S)) as (E & Epn & Ecfg & Mono & _ & Fr & Pa & Qa & Front & Gap).
    pose proof (sc_demote_account p a S) as S1.
    set (p1 := demote_account p a) in *.
    assert (Esn : forall b, sn p1 b = sn p b) by (intro b; unfold sn; destruct E as [-> _]; auto).
    assert (Enc : forall b, nc p1 b = nc p b) by (intro b; unfold nc; rewrite Epn; auto).
    assert (A1 : AFF0 p1).
    { intros b Hb. rewrite Esn, Enc in *. destruct (A b Hb) as (x & Hx & En & Ok).
      exists x. split; [|split; [auto|eapply okv_env; eauto]].
      destruct (N.eq_dec b a) as [->|Hn]; [apply Front; auto|apply (Fr b Hn); auto]. }
    assert (Q1 : forall b, QVa p1 b).
    { intros b x Hx. apply (okv_env p); auto. destruct (N.eq_dec b a) as [->|Hn].
      - destruct (Qa x Hx) as [H|[_ H]]; auto. apply Q in H. auto.
      - apply (Fr b Hn) in Hx. apply Q in Hx. auto. }
    destruct (IH _ S1 A1 Q1) as (Mono2 & S2 & A2 & Q2 & E2 & P2 & G2).
    cbn zeta in *. split; [auto|]. split; auto. split; auto. split; auto. split; [eapply env_trans; eauto|].
    split.
    + intros b Hb. apply P2. destruct (N.eq_dec b a) as [->|Hn].
      * right. intros x Hx. apply (okv_env p); auto. apply Pa. auto.
      * destruct Hb as [[Hb|Hb]|Hb]; [congruence|auto|]. right.
        intros x Hx. apply (Fr b Hn) in Hx. apply (okv_env p); auto.
    + intros Hyp b Hb. rewrite Ecfg in G2. apply (G2 Hyp).
      assert (Hyp1 : gapfix (cfg p) = true \/ gap_seen p1 = false).
      { destruct Hyp as [H|H]; auto. right. destruct (gap_seen p1) eqn:Eg; auto. rewrite (Mono2 eq_refl) in H. discriminate. }
      destruct (N.eq_dec b a) as [->|Hn].
      * right. intros t m Ht Hm. rewrite Esn in Hm. apply (Gap Hyp1 t m Ht Hm).
      * destruct Hb as [[Hb|Hb]|Hb]; [congruence|auto|]. right.
        intros t m Ht Hm. rewrite Esn in Hm. apply (Fr b Hn) in Ht.
        destruct (Hb t m Ht Hm) as (x & Hx & En). exists x. split; auto. apply (Fr b Hn). auto.
Qed.

(* ---- frames: cfg never changes, the ghost flag never goes down ------------- *)
Definition FR (p p' : pool) : Prop := cfg p' = cfg p /\ (gap_seen p = true -> gap_seen p' = true).
Lemma fr_refl p : FR p p. Proof. split; auto. Qed.
Lemma fr_trans p q r : FR p q -> FR q r -> FR p r.
Proof. intros [A B] [C D]. split; [congruence|auto]. Qed.
Lemma fr_of_sr p p' : same_rest p p' -> FR p p'.
Proof. intros (A & _ & _ & _ & _ & G). split; auto. rewrite G. auto. Qed.
Lemma fr_eq p p' : cfg p' = cfg p -> gap_seen p' = gap_seen p -> FR p p'.
Proof. intros A G. split; auto. rewrite G. auto. Qed.

Lemma fr_fold (f : pool -> N -> pool) : (forall p a, FR p (f p a)) -> forall l p, FR p (fold_left f l p).
Proof. intros H l. induction l; intro p; cbn; [apply fr_refl|]. eapply fr_trans; [apply H|apply IHl]. Qed.
Lemma fr_fold_tx (f : pool -> tx -> pool) : (forall p a, FR p (f p a)) -> forall l p, FR p (fold_left f l p).
Proof. intros H l. induction l; intro p; cbn; [apply fr_refl|]. eapply fr_trans; [apply H|apply IHl]. Qed.

Lemma fr_remove_tx p id : FR p (remove_tx p id).
Proof.
  apply fr_eq; [|apply gs_remove_tx].
  unfold remove_tx. destruct (all_get p id) as [t|]; auto.
  cbn [pending queue all_remove set_all].
  destruct (aget (pending p) (t_from t)) as [pl|].
  - destruct (l_remove pl t) as [[removed invalids] pl']. destruct removed.
    + cbn [cfg set_pnonces].
      match goal with |- context [enqueue_all ?X invalids] => destruct (sr_enqueue_all invalids X) as (E & _); rewrite E end.
      destruct (l_empty pl'); auto.
    + destruct (aget (queue p) (t_from t)) as [ql|]; auto.
      destruct (l_remove ql t) as [[ok inv] ql']. destruct (l_empty ql'); auto.
  - destruct (aget (queue p) (t_from t)) as [ql|]; auto.
    destruct (l_remove ql t) as [[ok inv] ql']. destruct (l_empty ql'); auto.
Qed.
Lemma fr_remove_txs p l : FR p (remove_txs p l).
Proof. unfold remove_txs. apply fr_fold_tx. intros. apply fr_remove_tx. Qed.

Lemma fr_add_tx p t local : FR p (snd (add_tx p t local)).
Proof.
  unfold add_tx. destruct (all_get p (t_id t)); [apply fr_refl|].
  destruct (negb _); [apply fr_refl|].
  match goal with |- context [if ?c then (false, E_underpriced, p) else _] => destruct c end; [apply fr_refl|].
  match goal with |- context [if ?c then remove_txs p ?l else p] => set (p1 := if c then remove_txs p l else p) end.
  assert (F1 : FR p p1) by (unfold p1; match goal with |- FR p (if ?c then _ else _) => destruct c end; [apply fr_remove_txs|apply fr_refl]).
  destruct (match aget (pending p1) (t_from t) with Some l => if l_overlaps l t then Some l else None | None => None end) as [l|].
  - destruct (l_add l t _) as [[ins old] l']. destruct ins; cbn [negb snd]; auto.
    eapply fr_trans; [apply F1|]. destruct old; apply fr_eq; auto.
  - pose proof (sr_enqueue p1 t) as SR. destruct (enqueue_tx p1 t) as [[replaced e] p2]. cbn [snd] in SR.
    assert (F2 : FR p p2) by (eapply fr_trans; [apply F1|apply fr_of_sr; auto]).
    destruct (negb _); cbn [snd]; auto.
    destruct (local && _); cbn [snd]; auto; eapply fr_trans; try apply F2; apply fr_eq; auto.
Qed.
Lemma fr_add_txs_locked l local : forall p, FR p (snd (add_txs_locked p l local)).
Proof.
  induction l as [|t r IH]; intro p; cbn [add_txs_locked]; [apply fr_refl|].
  pose proof (fr_add_tx p t local) as H. destruct (add_tx p t local) as [[rep e] p1]. cbn [snd] in H.
  specialize (IH p1). destruct (add_txs_locked p1 r local) as [[errs d] p2]. cbn [snd] in *. eapply fr_trans; eauto.
Qed.

Lemma fr_promote_tx p a t : FR p (snd (promote_tx p a t)).
Proof.
  unfold promote_tx. destruct (l_add _ t _) as [[ins old] l']. destruct ins; cbn [negb snd].
  - destruct old; destruct (all_get _ _); apply fr_eq; auto.
  - apply fr_eq; auto.
Qed.
Lemma fr_promote_account p a : FR p (promote_account p a).
Proof.
  unfold promote_account. destruct (aget (queue p) a) as [l|]; [|apply fr_refl].
  destruct (l_forward l _) as [fw l1].
  set (p1 := all_remove_list (put_q p a l1) fw).
  assert (F1 : FR p p1) by (apply fr_of_sr; eapply same_rest_trans; [|apply sr_all_remove_list]; repeat split; auto).
  destruct (l_filter l1 _ _) as [[drops inv] l2].
  set (p2 := all_remove_list (put_q p1 a l2) drops).
  assert (F2 : FR p1 p2) by (apply fr_of_sr; eapply same_rest_trans; [|apply sr_all_remove_list]; repeat split; auto).
  destruct (l_ready l2 _) as [readies l3].
  set (p4 := fold_left (fun p t => snd (promote_tx p a t)) readies (put_q p2 a l3)).
  assert (F4 : FR p2 p4).
  { eapply fr_trans; [|apply fr_fold_tx; intros; apply fr_promote_tx]. apply fr_eq; auto. }
  destruct (if negb (is_local p4 a) then l_cap l3 _ else ([], l3)) as [caps l5].
  set (p5 := all_remove_list (put_q p4 a l5) caps).
  assert (F5 : FR p4 p5) by (apply fr_of_sr; eapply same_rest_trans; [|apply sr_all_remove_list]; repeat split; auto).
  assert (F : FR p p5) by (eapply fr_trans; [apply F1|]; eapply fr_trans; [apply F2|]; eapply fr_trans; eauto).
  destruct (l_empty l5); auto; eapply fr_trans; try apply F; apply fr_eq; auto.
Qed.
Lemma fr_demote_account p a : FR p (demote_account p a).
Proof.
  unfold demote_account. destruct (aget (pending p) a) as [l|]; [|apply fr_refl].
  destruct (l_forward l _) as [olds l1].
  set (p1 := all_remove_list (put_p p a l1) olds).
  assert (F1 : FR p p1) by (apply fr_of_sr; eapply same_rest_trans; [|apply sr_all_remove_list]; repeat split; auto).
  destruct (l_filter l1 _ _) as [[drops inv] l2].
  set (p2 := enqueue_all (all_remove_list (put_p p1 a l2) drops) inv).
  assert (F2 : FR p1 p2) by (apply fr_of_sr; apply requeue_frame).
  destruct (if _ && _ then l_cap l2 0 else ([], l2)) as [gapped l3].
  set (p3 := enqueue_all (put_p p2 a l3) gapped).
  assert (F3 : FR p2 p3) by (apply fr_of_sr; apply (requeue_frame p2 a l3 [] gapped)).
  match goal with |- FR p (match ?X with pair _ _ => _ end) => destruct X as [[gapped2 l4] seen] end.
  set (p3' := if seen then set_gap_seen p3 else p3).
  assert (F3' : FR p3 p3') by (unfold p3'; destruct seen; [split; auto|apply fr_refl]).
  set (p4 := enqueue_all (put_p p3' a l4) gapped2).
  assert (F4 : FR p3' p4) by (apply fr_of_sr; apply (requeue_frame p3' a l4 [] gapped2)).
  assert (F : FR p p4).
  { eapply fr_trans; [apply F1|]. eapply fr_trans; [apply F2|]. eapply fr_trans; [apply F3|]. eapply fr_trans; eauto. }
  destruct (l_empty l4); auto; eapply fr_trans; try apply F; apply fr_eq; auto.
Qed.

Lemma cfg_shave p a : cfg (shave p a) = cfg p.
Proof.
  unfold shave. destruct (aget (pending p) a) as [l|]; auto. destruct (l_empty l); auto.
  destruct (l_cap l _) as [caps l'].
  assert (K : forall q, cfg (fold_left (fun p t => set_pnonces (all_remove p (t_id t)) (nc_set_if_lower (pnonces p) a (t_nonce t))) caps q) = cfg q).
  { induction caps; intro q; cbn; auto. rewrite IHcaps. auto. }
  rewrite K. auto.
Qed.
Lemma fr_shave p a : FR p (shave p a).
Proof. apply fr_eq; [apply cfg_shave|apply gs_shave]. Qed.
Lemma fr_shave_all l : forall p cnt, FR p (fst (fold_left (fun pc a => (shave (fst pc) a, snd pc - 1)) l (p, cnt))).
Proof. induction l; intros p cnt; cbn; [apply fr_refl|]. eapply fr_trans; [apply fr_shave|apply IHl]. Qed.
Lemma fr_equalize fuel : forall p cnt prevs lp th, FR p (fst (equalize fuel p cnt prevs lp th)).
Proof.
  induction fuel as [|f IH]; intros p cnt prevs lp th; cbn; [apply fr_refl|].
  destruct (_ && _); cbn; [|apply fr_refl]. rewrite fold_shave_pair. eapply fr_trans; [apply fr_shave_all|apply IH].
Qed.
Lemma fr_trunc_loop1 fuel spammers : forall p cnt offenders, FR p (fst (fst (trunc_loop1 fuel p cnt spammers offenders))).
Proof.
  induction spammers as [|o rest IH]; intros p cnt offenders; cbn; [apply fr_refl|].
  destruct (N.ltb _ cnt); cbn; [|apply fr_refl].
  destruct offenders as [|o1 os]; [apply IH|].
  destruct (equalize fuel p cnt (o1 :: os) (last (o1 :: os) 0) (pend_len p o)) as [p' cnt'] eqn:E.
  pose proof (fr_equalize fuel p cnt (o1 :: os) (last (o1 :: os) 0) (pend_len p o)) as H. rewrite E in H.
  eapply fr_trans; [apply H|apply IH].
Qed.
Lemma fr_trunc_loop2 fuel : forall p cnt offenders, FR p (fst (trunc_loop2 fuel p cnt offenders)).
Proof.
  induction fuel as [|f IH]; intros p cnt offenders; cbn; [apply fr_refl|].
  destruct (_ && _); cbn; [|apply fr_refl]. rewrite fold_shave_pair. eapply fr_trans; [apply fr_shave_all|apply IH].
Qed.
Lemma fr_truncate_pending p ord : FR p (truncate_pending p ord).
Proof.
  unfold truncate_pending. destruct (N.leb _ _); [apply fr_refl|].
  match goal with |- context [trunc_loop1 ?f ?p0 ?c ?s ?o] =>
    pose proof (fr_trunc_loop1 f s p0 c o) as H; destruct (trunc_loop1 f p0 c s o) as [[p1 c1] off] end.
  cbn in H. destruct off; auto. eapply fr_trans; [apply H|apply fr_trunc_loop2].
Qed.
Lemma fr_drop_last_n l : forall p drop, FR p (fst (drop_last_n p l drop)).
Proof.
  induction l as [|t r IH]; intros p drop; cbn; [apply fr_refl|].
  destruct (N.ltb 0 drop); cbn; [|apply fr_refl]. eapply fr_trans; [apply fr_remove_tx|apply IH].
Qed.
Lemma fr_trunc_queue_loop addrs : forall p drop, FR p (trunc_queue_loop p addrs drop).
Proof.
  induction addrs as [|a rest IH]; intros p drop; cbn; [apply fr_refl|].
  destruct (N.ltb 0 drop); [|apply fr_refl]. destruct (aget (queue p) a) as [l|]; [|apply fr_eq; auto].
  destruct (l_flatten l) as [flat l']. destruct (N.leb (l_len l) drop).
  - eapply fr_trans; [|apply IH]. eapply fr_trans; [|apply fr_remove_txs]. apply fr_eq; auto.
  - pose proof (fr_drop_last_n (rev flat) (set_queue p (aset (queue p) a l')) drop) as H.
    destruct (drop_last_n _ (rev flat) drop) as [p2 d2]. cbn in H.
    eapply fr_trans; [|apply IH]. eapply fr_trans; [|apply H]. apply fr_eq; auto.
Qed.
Lemma fr_truncate_queue p ord : FR p (truncate_queue p ord).
Proof. unfold truncate_queue. destruct (N.leb _ _); [apply fr_refl|]. apply fr_trunc_queue_loop. Qed.
Lemma fr_fix_nonce p a : FR p (fix_nonce p a).
Proof.
  apply fr_eq; [|apply gs_fix_nonce]. unfold fix_nonce. destruct (aget (pending p) a) as [l|]; auto.
  destruct (l_flatten l) as [flat l']. destruct (rev flat); auto.
Qed.
Lemma fr_reset p old new : FR p (reset p old new).
Proof.
  unfold reset. destruct (reset_reinject _ old new) as [re|]; [|apply fr_refl].
  destruct (h_state new) as [s|]; [|apply fr_refl].
  pose proof (fr_add_txs_locked re false (set_head_state p s (h_gaslimit new))) as H.
  destruct (add_txs_locked _ re false) as [[e d] p']. cbn [snd] in H.
  eapply fr_trans; [|apply H]. apply fr_eq; auto.
Qed.
Lemma fr_run_reorg p rs dirty ord : FR p (run_reorg p rs dirty ord).
Proof.
  unfold run_reorg. destruct rs as [[old new]|].
  - eapply fr_trans; [apply fr_reset|]. eapply fr_trans; [apply fr_fold; intros; apply fr_promote_account|].
    eapply fr_trans; [apply fr_fold; intros; apply fr_demote_account|].
    eapply fr_trans; [apply fr_truncate_pending|]. eapply fr_trans; [apply fr_truncate_queue|].
    apply fr_fold. intros. apply fr_fix_nonce.
  - eapply fr_trans; [apply fr_fold; intros; apply fr_promote_account|].
    eapply fr_trans; [apply fr_truncate_pending|]. eapply fr_trans; [apply fr_truncate_queue|].
    apply fr_fold. intros. apply fr_fix_nonce.
Qed.
Lemma fr_step p o : FR p (fst (step p o)).
Proof.
  destruct o; cbn [step].
  - apply fr_eq; auto.
  - pose proof (fr_add_txs_locked l (eff_local p local) p) as H.
    destruct (add_txs_locked p l (eff_local p local)) as [[e d] p']. cbn [fst snd] in *.
    eapply fr_trans; [apply H|apply fr_run_reorg].
  - pose proof (fr_add_txs_locked l (eff_local p local) p) as H.
    destruct (add_txs_locked p l (eff_local p local)) as [[e d] p']. cbn [fst snd] in *. auto.
  - cbn [fst]. apply fr_run_reorg.
  - cbn [fst]. unfold set_price. eapply fr_trans; [|apply fr_remove_txs]. apply fr_eq; auto.
  - cbn [fst]. unfold evict. apply fr_fold. intros q a. unfold evict_account.
    destruct (is_local q a); [apply fr_refl|]. destruct (existsb _ expired); [|apply fr_refl].
    destruct (aget (queue q) a) as [l|]; [|apply fr_refl]. destruct (l_flatten l) as [flat l'].
    eapply fr_trans; [|apply fr_remove_txs]. apply fr_eq; auto.
  - cbn [fst]. apply fr_remove_tx.
  - unfold pending_view.
    assert (K : forall keys out q, FR q (snd (fold_left (fun acc a =>
               let '(out, p) := acc in
               match aget (pending p) a with
               | None => (out, p)
               | Some l => let '(flat, l') := l_flatten l in
                           (out ++ [(a, flat)], set_pending p (aset (pending p) a l'))
               end) keys (out, q)))).
    { induction keys as [|a r IH]; intros out q; cbn [fold_left]; [apply fr_refl|].
      destruct (aget (pending q) a) as [l|]; [|apply IH]. destruct (l_flatten l) as [flat l'].
      eapply fr_trans; [|apply IH]. apply fr_eq; auto. }
    specialize (K (akeys (pending p)) [] p).
    destruct (fold_left _ (akeys (pending p)) ([], p)) as [v p']. cbn [fst snd] in *. auto.
Qed.
Lemma fr_run ops : forall p, FR p (run p ops).
Proof. unfold run. induction ops; intro p; cbn; [apply fr_refl|]. eapply fr_trans; [apply fr_step|apply IHops]. Qed.

(* ---- phase 3: the tail re-derives the pool nonce ---------------------------- *)
Definition NCa (p : pool) (a : N) : Prop := forall m, sn p a <= m < nc p a -> pn p a m.

Lemma fix_fold_nc L : forall p,
  SC p -> VAL p -> GAPFREE p -> AFF0 p ->
  let p' := fold_left fix_nonce L p in
  SC p' /\ VAL p' /\ GAPFREE p' /\ AFF0 p' /\ (forall b, lst (pending p') b = lst (pending p) b) /\ env_same p p' /\
  (forall b, (In b L /\ lst (pending p) b <> []) \/ NCa p b -> NCa p' b).
Proof.
  induction L as [|a r IH]; intros p S V G A; cbn [fold_left].
  - split; auto. split; auto. split; auto. split; auto. split; auto. split; [apply env_refl|].
    intros b [[[] _]|H]; auto.
  - pose proof (proj1 (proj1 S)) as W.
    destruct (fix_nonce_effect p a S) as (E & Ea & _ & _ & Pb & Nb & Nnil & Nne).
    pose proof (sc_fix_nonce p a S) as S1.
    set (p1 := fix_nonce p a) in *.
    assert (Esn : forall b, sn p1 b = sn p b) by (intro b; unfold sn; destruct E as [-> _]; auto).
    assert (Epn : forall b m, pn p1 b m <-> pn p b m) by (intros b m; unfold pn; rewrite Pb; tauto).
    assert (V1 : VAL p1) by (intros x Hx; rewrite Ea in Hx; eapply okv_env; eauto).
    assert (G1 : GAPFREE p1).
    { intros b t m Ht Hm. rewrite Pb in Ht. rewrite Esn in Hm. apply Epn. eapply G; eauto. }
    assert (Na : lst (pending p) a <> [] -> NCa p1 a).
    { intros Hne m Hm. rewrite Esn in Hm. apply Epn.
      destruct (Nne Hne) as (t & Tin & Tn & Tmax). rewrite Tn in Hm.
      destruct (N.eq_dec m (t_nonce t)) as [->|Hd]; [exists t; auto|]. eapply G; eauto. lia. }
    assert (A1 : AFF0 p1).
    { intros b Hm. rewrite Esn in *. destruct (N.eq_dec b a) as [->|Hb].
      - destruct (lst (pending p) a) as [|x0 xs] eqn:El.
        + rewrite (Nnil eq_refl) in Hm. destruct (A a Hm) as (x & Hx & _). rewrite El in Hx. destruct Hx.
        + destruct Nne as (t & Tin & Tn & Tmax); [congruence|]. rewrite <- El in *.
          assert (Ot : okv p t) by (apply V; eapply (w_pall _ _ W); eauto).
          assert (Ft : t_from t = a) by (eapply (w_pfrom _ _ W); eauto).
          assert (Hs : sn p a <= t_nonce t) by (destruct Ot as [Ot _]; rewrite Ft in Ot; auto).
          destruct (N.eq_dec (sn p a) (t_nonce t)) as [Ee|Ee].
          * exists t. rewrite Pb. split; [auto|split; [auto|eapply okv_env; eauto]].
          * destruct (G a t (sn p a) Tin) as (x & Hx & En); [lia|]. exists x. rewrite Pb.
            split; [auto|split; [auto|]]. eapply okv_env; eauto. apply V. eapply (w_pall _ _ W); eauto.
      - rewrite (Nb b Hb) in Hm. destruct (A b Hm) as (x & Hx & En & Ok). exists x. rewrite Pb.
        split; [auto|split; [auto|eapply okv_env; eauto]]. }
    destruct (IH _ S1 V1 G1 A1) as (S2 & V2 & G2 & A2 & P2 & E2 & N2).
    cbn zeta in *. split; auto. split; auto. split; auto. split; auto.
    split; [intro b; rewrite P2, Pb; auto|]. split; [eapply env_trans; eauto|].
    intros b Hb. apply N2. destruct (N.eq_dec b a) as [->|Hn].
    + destruct Hb as [[_ Hne]|Hb]; [right; auto|].
      destruct (lst (pending p) a) as [|x0 xs] eqn:El.
      * right. intros m Hm. rewrite Esn, (Nnil eq_refl) in Hm. apply Epn. apply Hb. auto.
      * right. apply Na. congruence.
    + destruct Hb as [[[Hb|Hb] Hne]|Hb]; [congruence|left; split; auto; rewrite Pb; auto|].
      right. intros m Hm. rewrite Esn, (Nb b Hn) in Hm. apply Epn. apply Hb. auto.
Qed.

(* ---- a reset re-establishes NI ---------------------------------------------- *)
Lemma keys_cover (m : amap txlist) ord b : lst m b <> [] -> In b (order_by ord (akeys m)).
Proof.
  intro H. apply in_order_by. unfold lst in H. destruct (aget m b) eqn:G; [|congruence].
  eapply aget_in_keys; eauto.
Qed.

Lemma reorg_tail_ni p ord :
  SC p -> NC p -> AFF0 p ->
  let pf := fold_left fix_nonce (order_by ord (akeys (pending
               (truncate_queue (truncate_pending (demote_unexecutables
                  (promote_executables p (order_by ord (akeys (queue p)))) ord) ord) ord))))
               (truncate_queue (truncate_pending (demote_unexecutables
                  (promote_executables p (order_by ord (akeys (queue p)))) ord) ord) ord) in
  (gapfix (cfg p) = true \/ gap_seen pf = false) -> NI pf.
Proof.
  intros S N A.
  destruct (promote_fold_qv (order_by ord (akeys (queue p))) p S N A) as (S1 & N1 & A1 & E1 & Gs1 & Q1).
  set (p1 := promote_executables p (order_by ord (akeys (queue p)))) in *.
  assert (QV1 : forall b, QVa p1 b).
  { intro b. apply Q1. destruct (lst (queue p) b) eqn:El.
    - right. intros x Hx. rewrite El in Hx. destruct Hx.
    - left. apply keys_cover. congruence. }
  unfold demote_unexecutables.
  destruct (demote_fold (order_by ord (akeys (pending p1))) p1 S1 A1 QV1) as (Mono2 & S2 & A2 & Q2 & E2 & P2 & G2).
  set (p2 := fold_left demote_account (order_by ord (akeys (pending p1))) p1) in *.
  pose proof (wc_truncate_pending p2 ord (proj1 S2)) as [W3 C3].
  pose proof (sc_truncate_pending p2 ord S2) as S3.
  set (p3 := truncate_pending p2 ord) in *.
  pose proof (wc_truncate_queue p3 ord (proj1 S3)) as [W4 C4].
  pose proof (sc_truncate_queue p3 ord S3) as S4.
  set (p4 := truncate_queue p3 ord) in *.
  cbn zeta. intro Hyp.
  assert (Gsf : gap_seen (fold_left fix_nonce (order_by ord (akeys (pending p4))) p4) = gap_seen p2).
  { rewrite gs_fold_fix. unfold p4, p3. rewrite gs_truncate_queue, gs_truncate_pending. auto. }
  assert (Hyp2 : gapfix (cfg p1) = true \/ gap_seen p2 = false).
  { destruct Hyp as [H|H]; [left|right; congruence].
    destruct (fr_fold promote_account fr_promote_account (order_by ord (akeys (queue p))) p) as [Ec _].
    unfold p1, promote_executables. rewrite Ec. auto. }
  assert (PV2 : forall b, PVa p2 b).
  { intro b. apply P2. destruct (lst (pending p1) b) eqn:El.
    - right. intros x Hx. rewrite El in Hx. destruct Hx.
    - left. apply keys_cover. congruence. }
  assert (GF2 : GAPFREE p2).
  { intros b t m Ht Hm. assert (GFb : GFa p2 b); [|apply (GFb t m Ht Hm)].
    apply (G2 Hyp2 b). destruct (lst (pending p1) b) eqn:El.
    - right. intros t' m' Ht'. rewrite El in Ht'. destruct Ht'.
    - left. apply keys_cover. congruence. }
  assert (V2 : VAL p2).
  { intros x Hx. destruct (w_cover _ _ (proj1 (proj1 S2)) x Hx) as [H|[H|[]]]; [apply (PV2 _ x H)|apply (Q2 _ x H)]. }
  pose proof (proj1 (proj1 S2)) as WF2. pose proof (proj1 (proj1 S3)) as WF3.
  assert (V4 : VAL p4) by (eapply cut_val; [apply C4|]; eapply cut_val; eauto).
  assert (G4 : GAPFREE p4) by (eapply cut_gapfree; [apply C4|]; eapply cut_gapfree; eauto).
  assert (A4 : AFF0 p4).
  { eapply cut_aff0; [apply WF3|apply C4|]. eapply cut_aff0; [apply WF2|apply C3|apply A2]. }
  destruct (fix_fold_nc (order_by ord (akeys (pending p4))) p4 S4 V4 G4 A4) as (Sf & Vf & Gf & Af & Pf & Ef & Nf).
  cbn zeta in *. constructor; auto.
  intros b m Hm. destruct (lst (pending p4) b) eqn:El.
  - (* no pending transaction: the pool nonce is not above the account nonce *)
    exfalso. destruct (Af b) as (x & Hx & _); [lia|]. rewrite Pf, El in Hx. destruct Hx.
  - apply (Nf b); auto. left. split; [apply keys_cover|]; congruence.
Qed.

(* ---- all ops ----------------------------------------------------------------- *)
Lemma cut_lst p p' :
  env_same p p' -> (forall x, In x (all p') -> In x (all p)) ->
  (forall b, lst (pending p') b = lst (pending p) b) -> pnonces p' = pnonces p -> cut p p'.
Proof.
  intros E A P N. split; auto. split; [auto|]. intro a. exists None. unfold pn, nc. rewrite P, N. cbn.
  repeat split; auto; tauto.
Qed.

Lemma ni_pending_view p : SC p -> NI p -> NI (snd (pending_view p)).
Proof.
  intros S N. unfold pending_view.
  assert (K : forall keys out q, WS q -> cut p q ->
     cut p (snd (fold_left (fun acc a =>
               let '(out, p) := acc in
               match aget (pending p) a with
               | None => (out, p)
               | Some l => let '(flat, l') := l_flatten l in
                           (out ++ [(a, flat)], set_pending p (aset (pending p) a l'))
               end) keys (out, q)))).
  { induction keys as [|a r IH]; intros out q Wq Cq; cbn [fold_left]; auto.
    destruct (aget (pending q) a) as [l|] eqn:G; [|apply IH; auto].
    destruct (l_flatten l) as [flat l'] eqn:F. apply IH.
    - eapply (ws_flatten_p q); eauto.
    - eapply cut_trans; [apply Cq|]. apply cut_lst; auto; [split; auto|].
      intro b. cbn [pending set_pending]. rewrite lst_aset. eqb_cases a b; auto.
      destruct (l_flatten_items _ _ _ F) as (I & _). rewrite I. symmetry. apply lst_some. auto. }
  eapply ni_cut; [apply S| |exact N]. apply K; [apply S|apply cut_refl].
Qed.

Lemma set_head_state_nc p s g : NC (set_head_state p s g) /\ AFF0 (set_head_state p s g).
Proof.
  assert (E : forall a, nc (set_head_state p s g) a = sn (set_head_state p s g) a) by (intro a; reflexivity).
  split; [intros a m Hm|intros a Hm]; rewrite E in Hm; lia.
Qed.

Lemma ni_step p o :
  SC p -> NI p -> (gapfix (cfg p) = true \/ gap_seen (fst (step p o)) = false) -> NI (fst (step p o)).
Proof.
  intros S N Hyp. pose proof (proj1 S) as W. destruct o; cbn [step] in *.
  - cbn [fst]. eapply ni_cut; [apply W| |exact N]. apply cut_same; auto. split; auto.
  - pose proof (wc_add_txs_locked l (eff_local p local) p W) as H.
    pose proof (sc_add_txs_locked p l (eff_local p local) S) as S1.
    destruct (add_txs_locked p l (eff_local p local)) as [[e d] p1]. cbn [fst snd] in *.
    apply ni_run_reorg_noreset; auto. eapply ni_wc; eauto.
  - pose proof (wc_add_txs_locked l (eff_local p local) p W) as H.
    destruct (add_txs_locked p l (eff_local p local)) as [[e d] p1]. cbn [fst snd] in *. eapply ni_wc; eauto.
  - cbn [fst] in *. destruct rs as [[old new]|]; [|apply ni_run_reorg_noreset; auto].
    unfold run_reorg in *.
    assert (R : SC (reset p old new) /\ NC (reset p old new) /\ AFF0 (reset p old new) /\ cfg (reset p old new) = cfg p).
    { split; [apply sc_reset; auto|]. split; [|split; [|apply fr_reset]].
      - unfold reset. destruct (reset_reinject _ old new) as [re|]; [|apply N].
        destruct (h_state new) as [s|]; [|apply N].
        pose proof (wc_add_txs_locked re false (set_head_state p s (h_gaslimit new))) as H.
        destruct (add_txs_locked _ re false) as [[e d] p1]. cbn [snd] in H.
        destruct H as [_ C]; [apply (ws_ext p); auto|]. eapply cut_nc; eauto. apply set_head_state_nc.
      - unfold reset. destruct (reset_reinject _ old new) as [re|]; [|apply N].
        destruct (h_state new) as [s|]; [|apply N].
        pose proof (wc_add_txs_locked re false (set_head_state p s (h_gaslimit new))) as H.
        destruct (add_txs_locked _ re false) as [[e d] p1]. cbn [snd] in H.
        destruct H as [_ C]; [apply (ws_ext p); auto|].
        eapply cut_aff0; [|apply C|apply set_head_state_nc]. apply (wf_ext [] p); auto. apply W. }
    destruct R as (Sr & Nr & Ar & Cr).
    apply (reorg_tail_ni (reset p old new) ord Sr Nr Ar). rewrite Cr. auto.
  - cbn [fst]. eapply ni_wc; eauto. apply wc_set_price. auto.
  - cbn [fst]. eapply ni_wc; eauto. apply wc_evict. auto.
  - cbn [fst]. eapply ni_wc; eauto. apply wc_remove_tx. auto.
  - pose proof (ni_pending_view p S N) as H. unfold pending_view in *.
    destruct (fold_left _ (akeys (pending p)) ([], p)) as [v p']. cbn [fst snd] in *. auto.
Qed.

Lemma ni_new_pool c g : NI (new_pool c g).
Proof.
  unfold new_pool.
  set (p0 := mkPool c (price_limit c) [] (mkNoncer [] []) 0 (cfg_locals c) [] [] [] [] 1 [g] false false).
  assert (N0 : NI p0).
  { constructor.
    - intros x [].
    - intros a t m [].
    - intros a m Hm. unfold nc, sn in Hm. cbn in Hm. lia.
    - intros a Hm. unfold nc, sn in Hm. cbn in Hm. lia. }
  unfold reset. cbn [reset_reinject]. destruct (h_state (b_hdr g)) as [s|]; auto.
  cbn [add_txs_locked]. destruct (set_head_state_nc p0 s (h_gaslimit (b_hdr g))). constructor; auto.
  - intros x [].
  - intros a t m [].
Qed.

Lemma ni_run ops : forall p,
  SC p -> NI p -> (gapfix (cfg p) = true \/ gap_seen (run p ops) = false) -> NI (run p ops).
Proof.
  unfold run. induction ops as [|o r IH]; intros p S N Hyp; cbn [fold_left]; auto.
  destruct (fr_step p o) as [Ec Mono1]. destruct (fr_run r (fst (step p o))) as [_ Mono2]. unfold run in Mono2.
  apply IH.
  - apply sc_step. auto.
  - apply ni_step; auto. destruct Hyp as [H|H]; auto. right.
    destruct (gap_seen (fst (step p o))) eqn:E; auto. cbn [fold_left] in H. rewrite (Mono2 eq_refl) in H. discriminate.
  - rewrite Ec. auto.
Qed.

(* ---- validity alone does not depend on the gap finding ---------------------- *)
Lemma promote_fold_qv_only L : forall p,
  SC p -> let p' := promote_executables p L in
  SC p' /\ env_same p p' /\ (forall b, In b L \/ QVa p b -> QVa p' b).
Proof.
  unfold promote_executables. induction L as [|a r IH]; intros p S; cbn [fold_left].
  - split; auto. split; [apply env_refl|]. intros b [[]|H]; auto.
  - destruct (promote_account_effect p a (proj1 S) (proj2 S)) as (E & _ & _ & Fr & Qa & _).
    pose proof (sc_promote_account p a S) as S1.
    destruct (IH _ S1) as (S2 & E2 & Q2).
    cbn zeta in *. split; auto. split; [eapply env_trans; eauto|].
    intros b Hb. apply Q2. destruct (N.eq_dec b a) as [->|Hn].
    + right. intros x Hx. apply (okv_env p); auto. apply Qa. auto.
    + destruct Hb as [[Hb|Hb]|Hb]; [congruence|auto|]. right.
      destruct (Fr b Hn) as (_ & Eq & _). intros x Hx. rewrite Eq in Hx. apply (okv_env p); auto.
Qed.

Lemma demote_fold_only L : forall p,
  SC p -> (forall b, QVa p b) ->
  let p' := fold_left demote_account L p in
  SC p' /\ (forall b, QVa p' b) /\ env_same p p' /\ (forall b, In b L \/ PVa p b -> PVa p' b).
Proof.
  induction L as [|a r IH]; intros p S Q; cbn [fold_left].
  - split; auto. split; auto. split; [apply env_refl|]. intros b [[]|H]; auto.
  - destruct (demote_account_effect p a (proj1 S) (proj2 S)) as (E & _ & _ & _ & _ & Fr & Pa & Qa & _).
    pose proof (sc_demote_account p a S) as S1.
    set (p1 := demote_account p a) in *.
    assert (Q1 : forall b, QVa p1 b).
    { intros b x Hx. apply (okv_env p); auto. destruct (N.eq_dec b a) as [->|Hn].
      - destruct (Qa x Hx) as [H|[_ H]]; auto. apply Q in H. auto.
      - apply (Fr b Hn) in Hx. apply Q in Hx. auto. }
    destruct (IH _ S1 Q1) as (S2 & Q2 & E2 & P2).
    cbn zeta in *. split; auto. split; auto. split; [eapply env_trans; eauto|].
    intros b Hb. apply P2. destruct (N.eq_dec b a) as [->|Hn].
    + right. intros x Hx. apply (okv_env p); auto. apply Pa. auto.
    + destruct Hb as [[Hb|Hb]|Hb]; [congruence|auto|]. right.
      intros x Hx. apply (Fr b Hn) in Hx. apply (okv_env p); auto.
Qed.

Lemma val_fix_fold L : forall p, VAL p -> VAL (fold_left fix_nonce L p).
Proof.
  induction L as [|a r IH]; intros p V; cbn; auto. apply IH.
  intros x. unfold fix_nonce. destruct (aget (pending p) a) as [l|]; [|apply V; auto].
  destruct (l_flatten l) as [flat l']. destruct (rev flat); intro Hx; exact (V x Hx).
Qed.

Lemma val_step p o : SC p -> VAL p -> VAL (fst (step p o)).
Proof.
  intros S V. pose proof (proj1 S) as W.
  assert (Kcut : forall p', WC p p' -> VAL p') by (intros p' [_ C]; eapply cut_val; eauto).
  assert (Knoreset : forall q dirty ord, SC q -> VAL q -> VAL (run_reorg q None dirty ord)).
  { intros q dirty ord Sq Vq. unfold run_reorg. apply val_fix_fold.
    set (addrs := match dirty with Some d => order_by ord d | None => [] end).
    assert (V1 : VAL (promote_executables q addrs)).
    { clear -Sq Vq. revert q Sq Vq. unfold promote_executables. induction addrs as [|a r IH]; intros q Sq Vq; cbn; auto.
      apply IH; [apply sc_promote_account; auto|apply promote_account_val; auto; apply Sq]. }
    pose proof (sc_promote_executables addrs q Sq) as S1.
    pose proof (wc_truncate_pending _ ord (proj1 S1)) as [W2 C2].
    pose proof (wc_truncate_queue _ ord W2) as [_ C3].
    eapply cut_val; [apply C3|]. eapply cut_val; eauto. }
  destruct o; cbn [step].
  - cbn [fst]. intros x Hx. apply V in Hx. exact Hx.
  - pose proof (wc_add_txs_locked l (eff_local p local) p W) as H.
    pose proof (sc_add_txs_locked p l (eff_local p local) S) as S1.
    destruct (add_txs_locked p l (eff_local p local)) as [[e d] p1]. cbn [fst snd] in *.
    apply Knoreset; auto.
  - pose proof (wc_add_txs_locked l (eff_local p local) p W) as H.
    destruct (add_txs_locked p l (eff_local p local)) as [[e d] p1]. cbn [fst snd] in *. auto.
  - cbn [fst]. destruct rs as [[old new]|]; [|apply Knoreset; auto].
    unfold run_reorg. apply val_fix_fold.
    pose proof (sc_reset p old new S) as Sr.
    destruct (promote_fold_qv_only (order_by ord (akeys (queue (reset p old new)))) _ Sr) as (S1 & E1 & Q1).
    set (p1 := promote_executables (reset p old new) (order_by ord (akeys (queue (reset p old new))))) in *.
    assert (QV1 : forall b, QVa p1 b).
    { intro b. apply Q1. destruct (lst (queue (reset p old new)) b) eqn:El.
      - right. intros x Hx. rewrite El in Hx. destruct Hx.
      - left. apply keys_cover. congruence. }
    unfold demote_unexecutables.
    destruct (demote_fold_only (order_by ord (akeys (pending p1))) p1 S1 QV1) as (S2 & Q2 & E2 & P2).
    set (p2 := fold_left demote_account (order_by ord (akeys (pending p1))) p1) in *.
    assert (V2 : VAL p2).
    { intros x Hx. destruct (w_cover _ _ (proj1 (proj1 S2)) x Hx) as [H|[H|[]]]; [|apply (Q2 _ x H)].
      assert (PVb : PVa p2 (t_from x)); [|apply (PVb x H)].
      apply P2. destruct (lst (pending p1) (t_from x)) eqn:El.
      - right. intros y Hy. rewrite El in Hy. destruct Hy.
      - left. apply keys_cover. congruence. }
    pose proof (wc_truncate_pending p2 ord (proj1 S2)) as [W3 C3].
    pose proof (wc_truncate_queue _ ord W3) as [_ C4].
    eapply cut_val; [apply C4|]. eapply cut_val; eauto.
  - cbn [fst]. apply Kcut. apply wc_set_price. auto.
  - cbn [fst]. apply Kcut. apply wc_evict. auto.
  - cbn [fst]. apply Kcut. apply wc_remove_tx. auto.
  - assert (NIv : forall keys out q, VAL q -> VAL (snd (fold_left (fun acc a =>
               let '(out, p) := acc in
               match aget (pending p) a with
               | None => (out, p)
               | Some l => let '(flat, l') := l_flatten l in
                           (out ++ [(a, flat)], set_pending p (aset (pending p) a l'))
               end) keys (out, q)))).
    { induction keys as [|a r IH]; intros out q Vq; cbn [fold_left]; auto.
      destruct (aget (pending q) a) as [l|]; [|apply IH; auto]. destruct (l_flatten l) as [flat l'].
      apply IH. intros x Hx. apply Vq in Hx. exact Hx. }
    unfold pending_view. specialize (NIv (akeys (pending p)) [] p V).
    destruct (fold_left _ (akeys (pending p)) ([], p)) as [v p']. cbn [fst snd] in *. auto.
Qed.

Lemma val_run ops : forall p, SC p -> VAL p -> VAL (run p ops).
Proof.
  unfold run. induction ops as [|o r IH]; intros p S V; cbn [fold_left]; auto.
  apply IH; [apply sc_step|apply val_step]; auto.
Qed.
