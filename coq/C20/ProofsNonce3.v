(* C20 - part 3: effect of promoteExecutables (one account) and of the tail
   of runReorg on the pending view and the pool nonce. *)
From VF.C20 Require Import Model Lemmas ProofsWF ProofsWF2 ProofsWF3 ProofsCaps ProofsNonce ProofsNonce2.
From Coq Require Import Arith Lia ZifyBool ZifyN ZifyNat Permutation Sorted.
Local Open Scope N_scope.

Lemma run_from_nonces fuel l next :
  map t_nonce (run_from fuel l next) = seqN next (length (run_from fuel l next)).
Proof.
  revert next. induction fuel as [|f IH]; intro next; cbn; auto.
  destruct (find (fun t => N.eqb (t_nonce t) next) l) as [t|] eqn:E; cbn; auto.
  apply find_some in E as [_ E]. apply N.eqb_eq in E. rewrite IH. f_equal. auto.
Qed.

Lemma l_ready_nonces l start r l' :
  l_ready l start = (r, l') -> r = [] \/ exists lo, lo <= start /\ map t_nonce r = seqN lo (length r).
Proof.
  unfold l_ready. destruct (sm_ready (txs l) start) as [r0 m] eqn:E. intro H. invq H.
  unfold sm_ready in E. destruct (min_nonce (items (txs l))) as [lo|]; [|invq E; auto].
  destruct (N.ltb start lo) eqn:L; invq E; auto. right. exists lo. split; [lia|]. apply run_from_nonces.
Qed.

Lemma seqN_in lo n m : In m (seqN lo n) <-> lo <= m < lo + N.of_nat n.
Proof.
  revert lo. induction n as [|k IH]; intro lo; cbn [seqN In].
  - lia.
  - rewrite IH. lia.
Qed.
Lemma seqN_last lo n d : n <> O -> last (seqN lo n) d = lo + N.of_nat n - 1.
Proof.
  revert lo. induction n as [|k IH]; intro lo; [congruence|]. intros _. cbn [seqN].
  destruct k; [cbn; lia|]. change (last (lo :: seqN (lo + 1) (S k)) d) with (last (seqN (lo + 1) (S k)) d).
  rewrite IH by congruence. lia.
Qed.

(* promoteTx over a batch of floating transactions of account a, in order *)
Lemma promote_all_facts a l : forall fl p,
  WFx (l ++ fl) p -> ST p -> (forall t, In t l -> t_from t = a) ->
  let p' := fold_left (fun p t => snd (promote_tx p a t)) l p in
  WFx fl p' /\ ST p' /\ queue p' = queue p /\ all p' = all p /\ cur_state p' = cur_state p /\ max_gas p' = max_gas p /\
  cfg p' = cfg p /\ locals p' = locals p /\ gap_seen p' = gap_seen p /\
  (forall b x, In x (lst (pending p') b) <-> (b = a /\ In x l) \/ In x (lst (pending p) b)) /\
  (forall b, nc p' b = if N.eqb a b then match rev l with t :: _ => t_nonce t + 1 | [] => nc p a end else nc p b).
Proof.
  induction l as [|t r IH]; intros fl p W S F; cbn [fold_left app].
  - split; [exact W|]. split; [exact S|]. do 7 (split; [reflexivity|]). split; [intros b x; cbn [In]; tauto|].
    intro b. cbn. destruct (N.eqb a b) eqn:E; auto. apply N.eqb_eq in E. subst; auto.
  - cbn in W. destruct (wf_promote_floating _ _ _ W) as (p1 & E & W1 & Q1 & A1 & P1 & C1 & Cs1 & Mg1 & L1 & _ & _ & _ & N1).
    assert (Ea : a = t_from t) by (symmetry; apply F; left; auto). subst a.
    rewrite E. cbn [snd].
    assert (S1 : ST p1) by (pose proof (st_promote p (t_from t) t S) as H; rewrite E in H; auto).
    assert (G1 : gap_seen p1 = gap_seen p).
    { unfold promote_tx in E. destruct (l_add _ t _) as [[ins old] l']. destruct ins; cbn [negb] in E.
      - destruct old; destruct (all_get _ _); inversion E; subst; reflexivity.
      - inversion E. }
    destruct (IH fl p1 W1 S1) as (W2 & S2 & Q2 & A2 & Cs2 & Mg2 & C2 & L2 & G2 & P2 & N2).
    { intros x Hx. apply F. right. auto. }
    cbn zeta in *. split; [exact W2|]. split; [exact S2|].
    split; [congruence|]. split; [congruence|]. split; [congruence|]. split; [congruence|].
    split; [congruence|]. split; [congruence|]. split; [congruence|]. split.
    + intros b x. rewrite P2, P1. cbn [In]. intuition (subst; auto).
    + intro b. rewrite N2. unfold nc. rewrite N1. rewrite !nc_get_set.
      destruct (N.eqb (t_from t) b) eqn:Eb; auto.
      rewrite N.eqb_refl. cbn [rev]. destruct (rev r) eqn:Er; cbn; auto.
Qed.

(* what one promoteExecutables round does to account a *)
Lemma promote_account_effect p a :
  WS p -> CAPS p ->
  let p' := promote_account p a in
  env_same p p' /\ gap_seen p' = gap_seen p /\
  (forall x, In x (all p') -> In x (all p)) /\
  (forall b, b <> a -> (forall x, In x (lst (pending p') b) <-> In x (lst (pending p) b)) /\ lst (queue p') b = lst (queue p) b /\ nc p' b = nc p b) /\
  (forall x, In x (lst (queue p') a) -> In x (lst (queue p) a) /\ okv p x) /\
  exists run,
    (forall x, In x (lst (pending p') a) <-> In x (lst (pending p) a) \/ In x run) /\
    (forall x, In x run -> In x (lst (queue p) a) /\ okv p x) /\
    (run = [] -> nc p' a = nc p a) /\
    (run <> [] -> exists lo, lo <= nc p a /\ sn p a <= lo /\
        (forall m, (exists x, In x run /\ t_nonce x = m) <-> lo <= m < lo + N.of_nat (length run)) /\
        nc p' a = lo + N.of_nat (length run)).
Proof.
  intros WSp Cp. unfold promote_account.
  destruct (aget (queue p) a) as [l|] eqn:G.
  2:{ cbn zeta. split; [apply env_refl|]. split; auto. split; auto.
      split; [intros b _; repeat split; auto; tauto|].
      split; [unfold lst; rewrite G; intros x []|].
      exists []. split; [intro x; cbn [In]; tauto|]. split; [intros x []|]. split; [auto|congruence]. }
  pose proof (lst_some _ _ _ G) as LQ.
  assert (Sl : strict l = false) by (eapply (proj2 WSp); eauto).
  pose proof (uniq_of_ws_q _ _ _ WSp G) as Ul. assert (Cl : capok l) by (eapply (proj2 Cp); eauto).
  assert (Fa0 : forall x, In x (litems l) -> t_from x = a).
  { intros x Hx. eapply (w_qfrom _ _ (proj1 WSp)). rewrite LQ. auto. }
  (* forward *)
  destruct (l_forward l (st_nonce (cur_state p) a)) as [fw l1] eqn:F.
  pose proof (l_forward_spec _ _ _ _ F) as (Es1 & Fr & Fk).
  destruct (l_forward_uniq _ _ _ _ Ul F) as [Ufw Ul1]. pose proof (capok_forward _ _ _ _ F Cl) as Cl1.
  destruct (ws_q_drop p a l l1 fw WSp G) as (WS1 & G1 & P1); auto.
  { intro x. rewrite Fr, Fk. split; [intro; destruct (N.ltb (t_nonce x) (st_nonce (cur_state p) a)) eqn:E; [right|left]; split; auto; lia|tauto]. }
  { intros x H1 H2. apply Fk in H1. apply Fr in H2. lia. }
  pose proof (sr_all_remove_list fw (put_q p a l1)) as SR1.
  pose proof (all_remove_list_fields fw (put_q p a l1)) as (_ & Q1f & A1).
  set (p1 := all_remove_list (put_q p a l1) fw) in *.
  destruct SR1 as (Ec1 & Ecs1 & Emg1 & Epn1 & Elo1 & Egs1). cbn [cfg cur_state max_gas pnonces locals gap_seen put_q set_queue] in *.
  (* filter *)
  destruct (l_filter l1 (st_balance (cur_state p1) a) (max_gas p1)) as [[drops inv] l2] eqn:Fi.
  pose proof (l_filter_spec _ _ _ _ _ _ Fi) as (Es2 & _ & _ & Fm & Fd & _ & Fn & _).
  destruct (l_filter_uniq _ _ _ _ _ _ Ul1 Fi) as (Ud & _ & Ul2). pose proof (capok_filter _ _ _ _ _ _ Fi Cl1) as Cl2.
  pose proof (filter_cleans _ _ _ _ _ _ Fi Cl1) as Clean.
  assert (inv = []) by (apply Fn; congruence). subst inv.
  destruct (ws_q_drop p1 a l1 l2 drops WS1 G1) as (WS2 & G2 & P2); auto.
  { intro x. rewrite Fm. cbn [In]. tauto. }
  { intros x H1. apply Fd in H1. tauto. }
  pose proof (sr_all_remove_list drops (put_q p1 a l2)) as SR2.
  pose proof (all_remove_list_fields drops (put_q p1 a l2)) as (_ & Q2f & A2).
  set (p2 := all_remove_list (put_q p1 a l2) drops) in *.
  destruct SR2 as (Ec2 & Ecs2 & Emg2 & Epn2 & Elo2 & Egs2). cbn [cfg cur_state max_gas pnonces locals gap_seen put_q set_queue] in *.
  assert (Ok2 : forall x, In x (litems l2) -> In x (litems l) /\ okv p x).
  { intros x Hx. assert (H1 : In x (litems l1)) by (apply Fm; auto). apply Fk in H1 as [H1 H1'].
    split; auto. destruct (Clean x (or_introl Hx)) as [K1 K2].
    unfold okv, sn. rewrite (Fa0 x H1). rewrite Ecs1, Emg1 in *. repeat split; auto. }
  (* ready + promote *)
  destruct (l_ready l2 (nc_get (pnonces p2) a)) as [readies l3] eqn:R.
  pose proof (l_ready_spec _ _ _ _ Ul2 R) as (Es3 & Rm & Rd & Rrun).
  destruct (l_ready_uniq _ _ _ _ Ul2 R) as [Ur Ul3].
  pose proof (l_ready_nonces _ _ _ _ R) as Rn.
  assert (W3 : WFx (readies ++ []) (put_q p2 a l3)).
  { eapply wf_shrink_q; eauto. apply WS2. }
  assert (S3 : ST (put_q p2 a l3)) by (apply st_put_q; [apply WS2|congruence]).
  assert (Fa : forall t, In t readies -> t_from t = a).
  { intros t Ht. apply Fa0. apply Ok2. apply Rm. auto. }
  destruct (promote_all_facts a readies [] _ W3 S3 Fa) as (W4 & S4 & Q4 & A4 & Cs4 & Mg4 & C4 & L4 & Gs4 & P4 & N4).
  set (p4 := fold_left (fun p t => snd (promote_tx p a t)) readies (put_q p2 a l3)) in *.
  cbn [queue all cur_state max_gas cfg locals gap_seen put_q set_queue pending] in *.
  assert (G4 : aget (queue p4) a = Some l3) by (rewrite Q4; apply aget_aset_eq).
  (* cap *)
  destruct (if negb (is_local p4 a) then l_cap l3 (N.to_nat (account_queue (cfg p4))) else ([], l3)) as [caps l5] eqn:C.
  assert (H5 : strict l5 = strict l3 /\ (forall x, In x (litems l3) <-> In x (litems l5) \/ In x caps) /\
               (forall x, In x (litems l5) -> ~ In x caps) /\ uniq caps /\ uniq (litems l5)).
  { destruct (negb (is_local p4 a)).
    - pose proof (l_cap_spec _ _ _ _ Ul3 C) as (E5 & M5 & D5 & _).
      destruct (l_cap_uniq _ _ _ _ Ul3 C). auto.
    - invq C. repeat split; auto; cbn [In]; try tauto. constructor. }
  destruct H5 as (Es5 & M5 & D5 & Uc & Ul5).
  destruct (ws_q_drop p4 a l3 l5 caps (conj W4 S4) G4) as (WS5 & G5 & P5); auto.
  pose proof (sr_all_remove_list caps (put_q p4 a l5)) as SR5.
  pose proof (all_remove_list_fields caps (put_q p4 a l5)) as (_ & Q5 & A5).
  set (p5 := all_remove_list (put_q p4 a l5) caps) in *.
  destruct SR5 as (Ec5 & Ecs5 & Emg5 & Epn5 & Elo5 & Egs5). cbn [cfg cur_state max_gas pnonces locals gap_seen put_q set_queue queue] in *.
  (* the result, up to the final cleanup of an empty list *)
  assert (FIN : forall pf, pending pf = pending p5 -> all pf = all p5 -> cur_state pf = cur_state p5 -> max_gas pf = max_gas p5 ->
                 pnonces pf = pnonces p5 -> gap_seen pf = gap_seen p5 ->
                 (forall b, lst (queue pf) b = if N.eqb a b then litems l5 else lst (queue p) b) ->
    env_same p pf /\ gap_seen pf = gap_seen p /\
    (forall x, In x (all pf) -> In x (all p)) /\
    (forall b, b <> a -> (forall x, In x (lst (pending pf) b) <-> In x (lst (pending p) b)) /\ lst (queue pf) b = lst (queue p) b /\ nc pf b = nc p b) /\
    (forall x, In x (lst (queue pf) a) -> In x (lst (queue p) a) /\ okv p x) /\
    exists run,
      (forall x, In x (lst (pending pf) a) <-> In x (lst (pending p) a) \/ In x run) /\
      (forall x, In x run -> In x (lst (queue p) a) /\ okv p x) /\
      (run = [] -> nc pf a = nc p a) /\
      (run <> [] -> exists lo, lo <= nc p a /\ sn p a <= lo /\
          (forall m, (exists x, In x run /\ t_nonce x = m) <-> lo <= m < lo + N.of_nat (length run)) /\
          nc pf a = lo + N.of_nat (length run))).
  { intros pf Ep Ea Ecs Emg Epn Egs Eq.
    assert (PB : forall b x, In x (lst (pending pf) b) <-> (b = a /\ In x readies) \/ In x (lst (pending p) b)).
    { intros b x. rewrite Ep, P5. cbn [pending put_q set_queue]. rewrite P4. rewrite P2. cbn [pending put_q set_queue].
      rewrite P1. cbn [pending put_q set_queue]. tauto. }
    assert (NB : forall b, nc pf b = if N.eqb a b then match rev readies with t :: _ => t_nonce t + 1 | [] => nc p a end else nc p b).
    { intro b. unfold nc at 1. rewrite Epn, Epn5. fold (nc p4 b). rewrite N4. unfold nc. cbn [pnonces put_q set_queue].
      rewrite Epn2, Epn1. auto. }
    split; [split; congruence|]. split; [congruence|]. split.
    { intros x Hx. rewrite Ea in Hx. apply A5 in Hx. cbn [all put_q set_queue] in Hx. rewrite A4 in Hx.
      cbn [all put_q set_queue] in Hx. apply A2 in Hx. cbn [all put_q set_queue] in Hx. apply A1 in Hx. auto. }
    split.
    { intros b Hb. split; [|split].
      - intro x. rewrite PB. split; [intros [[H _]|H]; auto; congruence|auto].
      - rewrite Eq. assert (E : N.eqb a b = false) by (apply N.eqb_neq; congruence). rewrite E. auto.
      - rewrite NB. assert (E : N.eqb a b = false) by (apply N.eqb_neq; congruence). rewrite E. auto. }
    split.
    { intros x Hx. rewrite Eq, N.eqb_refl in Hx. rewrite LQ. apply Ok2. apply Rm. left. apply M5. auto. }
    exists readies. split; [intro x; rewrite PB; tauto|]. split.
    { intros x Hx. rewrite LQ. apply Ok2. apply Rm. auto. }
    split.
    { intros ->. rewrite NB, N.eqb_refl. reflexivity. }
    intro Hne. destruct Rn as [->|(lo & Hlo & Hseq)]; [congruence|].
    assert (Hlen : length readies <> O) by (destruct readies; cbn; congruence).
    exists lo. split; [unfold nc; rewrite <- Epn1, <- Epn2; exact Hlo|].
    assert (Hm : forall m, (exists x, In x readies /\ t_nonce x = m) <-> lo <= m < lo + N.of_nat (length readies)).
    { intro m. rewrite <- seqN_in, <- Hseq, in_map_iff. split; intros (x & H1 & H2); exists x; auto. }
    split.
    { destruct (proj2 (Hm lo)) as (x & Hx & En); [clear -Hlen; lia|].
      assert (Ox : okv p x) by (apply Ok2, Rm; auto). destruct Ox as [Ox _]. rewrite (Fa x Hx) in Ox. clear -Ox En. lia. }
    split; [exact Hm|].
    rewrite NB, N.eqb_refl. destruct (rev readies) as [|t tl] eqn:Er.
    { apply (f_equal (@rev tx)) in Er. rewrite rev_involutive in Er. cbn in Er. congruence. }
    assert (Hr : readies = rev tl ++ [t]).
    { apply (f_equal (@rev tx)) in Er. rewrite rev_involutive in Er. cbn in Er. auto. }
    assert (Hl : last (map t_nonce readies) 0 = t_nonce t) by (rewrite Hr, map_app; cbn; apply last_last).
    rewrite Hseq, seqN_last in Hl by auto. clear -Hl Hlen. lia. }
  destruct (l_empty l5) eqn:Em.
  - apply l_empty_items in Em. apply FIN; auto.
    intro b. cbn [queue set_queue]. rewrite lst_adel, Q5. cbn [queue put_q set_queue]. rewrite lst_aset.
    destruct (N.eqb a b) eqn:E; auto.
    rewrite Q4. cbn [queue put_q set_queue]. rewrite lst_aset, E, Q2f. cbn [queue put_q set_queue].
    rewrite lst_aset, E, Q1f. cbn [queue put_q set_queue]. rewrite lst_aset, E. auto.
  - apply FIN; auto.
    intro b. rewrite Q5. cbn [queue put_q set_queue]. rewrite lst_aset.
    destruct (N.eqb a b) eqn:E; auto.
    rewrite Q4. cbn [queue put_q set_queue]. rewrite lst_aset, E, Q2f. cbn [queue put_q set_queue].
    rewrite lst_aset, E, Q1f. cbn [queue put_q set_queue]. rewrite lst_aset, E. auto.
Qed.

(* ---- the invariant at op boundaries ---------------------------------------- *)
Record NI (p : pool) : Prop := mkNI {
  ni_val : VAL p; ni_gap : GAPFREE p; ni_nc : NC p; ni_aff : AFF0 p
}.

Lemma ni_cut p p' : WF p -> cut p p' -> NI p -> NI p'.
Proof.
  intros W C [V G N A]. constructor.
  - eapply cut_val; eauto.
  - eapply cut_gapfree; eauto.
  - eapply cut_nc; eauto.
  - eapply cut_aff0; eauto.
Qed.

(* NC and AFF0 survive one promoteExecutables round; GAPFREE needs NC *)
Lemma promote_account_nc p a : WS p -> CAPS p -> NC p -> AFF0 p -> NC (promote_account p a) /\ AFF0 (promote_account p a).
Proof.
  intros W C N A.
  destruct (promote_account_effect p a W C) as (E & _ & _ & Fr & _ & run & Pa & Ra & Rnil & Rne).
  set (p' := promote_account p a) in *.
  assert (Esn : forall b, sn p' b = sn p b) by (intro b; unfold sn; destruct E as [-> _]; auto).
  assert (Sub : forall b x, In x (lst (pending p) b) -> In x (lst (pending p') b)).
  { intros b x Hx. destruct (N.eq_dec b a) as [->|Hb]; [apply Pa; auto|apply (Fr b Hb); auto]. }
  split.
  - intros b m Hm. rewrite Esn in Hm. destruct (N.eq_dec b a) as [->|Hb].
    + destruct run as [|r0 rs] eqn:Er.
      * rewrite (Rnil eq_refl) in Hm. destruct (N a m Hm) as (x & Hx & En). exists x. split; auto.
      * destruct Rne as (lo & Hlo & Hs & Hrun & Hnc); [congruence|]. rewrite Hnc in Hm.
        destruct (N.ltb m lo) eqn:L.
        -- destruct (N a m) as (x & Hx & En); [lia|]. exists x. split; auto.
        -- destruct (proj2 (Hrun m)) as (x & Hx & En); [lia|]. exists x. split; auto. apply Pa. auto.
    + destruct (Fr b Hb) as (Pb & _ & Nb). rewrite Nb in Hm. destruct (N b m Hm) as (x & Hx & En).
      exists x. split; auto.
  - intros b Hm. rewrite Esn in *. destruct (N.eq_dec b a) as [->|Hb].
    + destruct run as [|r0 rs] eqn:Er.
      * rewrite (Rnil eq_refl) in Hm. destruct (A a Hm) as (x & Hx & En & Ok).
        exists x. split; [auto|split; [auto|eapply okv_env; eauto]].
      * destruct Rne as (lo & Hlo & Hs & Hrun & Hnc); [congruence|].
        destruct (N.eq_dec lo (sn p a)) as [El|El].
        -- destruct (proj2 (Hrun (sn p a))) as (x & Hx & En); [lia|]. exists x.
           split; [apply Pa; auto|]. split; auto. eapply okv_env; eauto. apply Ra. auto.
        -- destruct (A a) as (x & Hx & En & Ok); [lia|]. exists x. split; [auto|split; [auto|eapply okv_env; eauto]].
    + destruct (Fr b Hb) as (Pb & _ & Nb). rewrite Nb in Hm. destruct (A b Hm) as (x & Hx & En & Ok).
      exists x. split; [auto|split; [auto|eapply okv_env; eauto]].
Qed.

Lemma promote_account_gapfree p a : WS p -> CAPS p -> NC p -> GAPFREE p -> GAPFREE (promote_account p a).
Proof.
  intros W C N G.
  destruct (promote_account_effect p a W C) as (E & _ & _ & Fr & _ & run & Pa & Ra & Rnil & Rne).
  set (p' := promote_account p a) in *.
  assert (Esn : forall b, sn p' b = sn p b) by (intro b; unfold sn; destruct E as [-> _]; auto).
  assert (Sub : forall b x, In x (lst (pending p) b) -> In x (lst (pending p') b)).
  { intros b x Hx. destruct (N.eq_dec b a) as [->|Hb]; [apply Pa; auto|apply (Fr b Hb); auto]. }
  intros b t m Ht Hm. rewrite Esn in Hm. destruct (N.eq_dec b a) as [->|Hb].
  - apply Pa in Ht as [Ht|Ht].
    + destruct (G a t m Ht Hm) as (x & Hx & En). exists x. split; auto.
    + destruct run as [|r0 rs] eqn:Er; [destruct Ht|].
      destruct Rne as (lo & Hlo & Hs & Hrun & Hnc); [congruence|].
      assert (Hn : lo <= t_nonce t < lo + N.of_nat (length (r0 :: rs))) by (apply Hrun; exists t; auto).
      destruct (N.ltb m lo) eqn:L.
      * destruct (N a m) as (x & Hx & En); [lia|]. exists x. split; auto.
      * destruct (proj2 (Hrun m)) as (x & Hx & En); [lia|]. exists x. split; auto. apply Pa. auto.
  - apply (Fr b Hb) in Ht. destruct (G b t m Ht Hm) as (x & Hx & En). exists x. split; auto.
Qed.

Lemma promote_account_val p a : WS p -> CAPS p -> VAL p -> VAL (promote_account p a).
Proof.
  intros W C V x Hx. destruct (promote_account_effect p a W C) as (E & _ & A & _).
  eapply okv_env; eauto.
Qed.

Lemma ni_promote_account p a : SC p -> NI p -> NI (promote_account p a).
Proof.
  intros [W C] [V G N A]. destruct (promote_account_nc p a W C N A). constructor; auto.
  - apply promote_account_val; auto.
  - apply promote_account_gapfree; auto.
Qed.

Lemma sc_promote_account p a : SC p -> SC (promote_account p a).
Proof. intros [W C]. split; [apply ws_promote_account|apply caps_promote_account]; auto. Qed.

Lemma ni_promote_executables l : forall p, SC p -> NI p -> NI (promote_executables p l).
Proof.
  unfold promote_executables. induction l as [|a r IH]; intros p S N; cbn; auto.
  apply IH; [apply sc_promote_account|apply ni_promote_account]; auto.
Qed.

(* ---- tail of runReorg ------------------------------------------------------- *)
Lemma sorted_last_max l d t :
  rev (sort_nonce l) = t :: d -> In t l /\ forall x, In x l -> t_nonce x <= t_nonce t.
Proof.
  intro H. assert (Hs : sort_nonce l = rev d ++ [t]).
  { apply (f_equal (@rev tx)) in H. rewrite rev_involutive in H. cbn in H. auto. }
  split.
  - apply sort_nonce_in. rewrite Hs. apply in_or_app. right. left. auto.
  - intros x Hx. apply sort_nonce_in in Hx. rewrite Hs in Hx. apply in_app_or in Hx as [Hx|[<-|[]]]; [|lia].
    pose proof (sort_nonce_sorted l) as S. rewrite Hs in S.
    assert (K : forall (s1 : list tx) y, StronglySorted (fun a b => t_nonce a <= t_nonce b) (s1 ++ [y]) ->
                forall z, In z s1 -> t_nonce z <= t_nonce y).
    { induction s1 as [|a r IH]; intros y S1 z Hz; [destruct Hz|]. cbn in S1. inversion S1; subst.
      destruct Hz as [->|Hz]; [|eapply IH; eauto]. rewrite Forall_forall in H3. apply H3. apply in_or_app. right. left. auto. }
    eapply K; eauto.
Qed.

Lemma fix_nonce_effect p a :
  SC p ->
  let p' := fix_nonce p a in
  env_same p p' /\ all p' = all p /\ queue p' = queue p /\ gap_seen p' = gap_seen p /\
  (forall b, lst (pending p') b = lst (pending p) b) /\
  (forall b, b <> a -> nc p' b = nc p b) /\
  (lst (pending p) a = [] -> nc p' a = nc p a) /\
  (lst (pending p) a <> [] -> exists t, In t (lst (pending p) a) /\ nc p' a = t_nonce t + 1 /\
                                   forall x, In x (lst (pending p) a) -> t_nonce x <= t_nonce t).
Proof.
  intros [W C]. unfold fix_nonce. destruct (aget (pending p) a) as [l|] eqn:G.
  2:{ cbn zeta. split; [apply env_refl|]. repeat split; auto. unfold lst. rewrite G. congruence. }
  pose proof (lst_some _ _ _ G) as L.
  destruct (l_flatten l) as [flat l'] eqn:F.
  destruct (capok_flatten _ _ _ F (proj1 C _ _ G)) as [_ Hf].
  destruct (l_flatten_items _ _ _ F) as (I & _).
  assert (PB : forall b, lst (aset (pending p) a l') b = lst (pending p) b).
  { intro b. rewrite lst_aset. eqb_cases a b; auto. rewrite I, L. auto. }
  destruct (rev flat) as [|t d] eqn:Er.
  - cbn zeta. split; [split; auto|]. repeat split; auto.
    intro Hne. exfalso. apply Hne. rewrite L.
    apply (f_equal (@rev tx)) in Er. rewrite rev_involutive in Er. cbn in Er. subst flat.
    destruct (litems l) as [|y0 ys] eqn:El; auto. exfalso.
    assert (Hin : In y0 (sort_nonce (y0 :: ys))) by (apply sort_nonce_in; left; auto). rewrite Er in Hin. destruct Hin.
  - rewrite Hf in Er. destruct (sorted_last_max _ _ _ Er) as [Tin Tmax].
    cbn zeta. split; [split; auto|]. split; auto. split; auto. split; auto. split; [exact PB|].
    unfold nc. cbn [pnonces set_pnonces set_pending]. split; [|split].
    + intros b Hb. rewrite nc_get_set. assert (E : N.eqb a b = false) by (apply N.eqb_neq; congruence). rewrite E. auto.
    + rewrite L. intro E. rewrite E in Tin. destruct Tin.
    + intros _. exists t. rewrite L. split; auto. rewrite nc_get_set, N.eqb_refl. split; auto.
Qed.

Lemma ni_fix_nonce p a : SC p -> NI p -> NI (fix_nonce p a).
Proof.
  intros S [V G N A]. pose proof (proj1 (proj1 S)) as W.
  destruct (fix_nonce_effect p a S) as (E & Ea & _ & _ & Pb & Nb & Nnil & Nne).
  set (p' := fix_nonce p a) in *.
  assert (Esn : forall b, sn p' b = sn p b) by (intro b; unfold sn; destruct E as [-> _]; auto).
  assert (Epn : forall b m, pn p' b m <-> pn p b m) by (intros b m; unfold pn; rewrite Pb; tauto).
  constructor.
  - intros x Hx. rewrite Ea in Hx. eapply okv_env; eauto.
  - intros b t m Ht Hm. rewrite Pb in Ht. rewrite Esn in Hm. apply Epn. eapply G; eauto.
  - intros b m Hm. rewrite Esn in Hm. apply Epn. destruct (N.eq_dec b a) as [->|Hb].
    + destruct (lst (pending p) a) as [|x0 xs] eqn:El.
      * rewrite (Nnil eq_refl) in Hm. apply N. auto.
      * destruct Nne as (t & Tin & Tn & Tmax); [congruence|]. rewrite Tn in Hm.
        destruct (N.eq_dec m (t_nonce t)) as [->|Hd]; [exists t; rewrite El; auto|].
        rewrite <- El in Tin. eapply G; eauto. lia.
    + rewrite (Nb b Hb) in Hm. apply N. auto.
  - intros b Hm. rewrite Esn in *. destruct (N.eq_dec b a) as [->|Hb].
    + destruct (lst (pending p) a) as [|x0 xs] eqn:El.
      * rewrite (Nnil eq_refl) in Hm. destruct (A a Hm) as (x & Hx & En & Ok). rewrite El in Hx. destruct Hx.
      * destruct Nne as (t & Tin & Tn & Tmax); [congruence|]. rewrite <- El in *.
        assert (Ot : okv p t) by (apply V; eapply (w_pall _ _ W); eauto).
        assert (Ft : t_from t = a) by (eapply (w_pfrom _ _ W); eauto).
        assert (Hs : sn p a <= t_nonce t) by (destruct Ot as [Ot _]; rewrite Ft in Ot; auto).
        destruct (N.eq_dec (sn p a) (t_nonce t)) as [Ee|Ee].
        -- exists t. rewrite Pb. split; [auto|split; [auto|eapply okv_env; eauto]].
        -- destruct (G a t (sn p a) Tin) as (x & Hx & En); [lia|]. exists x. rewrite Pb.
           split; [auto|split; [auto|]]. eapply okv_env; eauto. apply V. eapply (w_pall _ _ W); eauto.
    + rewrite (Nb b Hb) in Hm. destruct (A b Hm) as (x & Hx & En & Ok). exists x. rewrite Pb.
      split; [auto|split; [auto|eapply okv_env; eauto]].
Qed.

Lemma ni_fold_fix l : forall p, SC p -> NI p -> NI (fold_left fix_nonce l p).
Proof.
  induction l as [|a r IH]; intros p S N; cbn; auto.
  apply IH; [apply sc_fix_nonce|apply ni_fix_nonce]; auto.
Qed.

(* ---- runReorg without a reset, and the ops built from cuts ----------------- *)
Lemma ni_wc p p' : WS p -> WC p p' -> NI p -> NI p'.
Proof. intros W [_ C] N. eapply ni_cut; eauto. apply W. Qed.

Lemma ni_run_reorg_noreset p dirty ord : SC p -> NI p -> NI (run_reorg p None dirty ord).
Proof.
  intros S N. unfold run_reorg.
  set (addrs := match dirty with Some d => order_by ord d | None => [] end).
  assert (S1 : SC (promote_executables p addrs)) by (apply sc_promote_executables; auto).
  assert (N1 : NI (promote_executables p addrs)) by (apply ni_promote_executables; auto).
  assert (S2 : SC (truncate_pending (promote_executables p addrs) ord)) by (apply sc_truncate_pending; auto).
  assert (N2 : NI (truncate_pending (promote_executables p addrs) ord)).
  { eapply ni_wc; [| |exact N1]; [apply S1|apply wc_truncate_pending; apply S1]. }
  apply ni_fold_fix; [apply sc_truncate_queue; auto|].
  eapply ni_wc; [| |exact N2]; [apply S2|apply wc_truncate_queue; apply S2].
Qed.
