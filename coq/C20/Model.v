(* C20 - executable model of the transaction pool core
   (core/tx_pool.go, core/tx_list.go, core/tx_noncer.go).  No proofs here.

   One [op] is one critical section of TxPool.mu (or the two consecutive ones
   of a synchronous addTxs).  Numbers are unbounded N (uint64 wrap-around of
   nonces and big.Int/uint64 conversions are outside the model).

   What is abstracted, and how:
   - a transaction is a record of the fields the pool reads; [t_id] stands for
     the hash, [t_from]/[t_sig] for the result of types.Sender, [t_intr] for
     the router's IntrinsicGas of its payload;
   - txSortedMap = the item map (list without order) + the Flatten cache; the
     nonce heap is the order of the items (that the Go array is a min-heap over
     exactly the item keys is checked on the implementation by the harness oracle
     after every critical section, clause nonce-heap-corrupt);
   - txPricedList is the price order over [all] (its intended meaning: every
     pooled transaction is in the heap and stale entries are skipped);
   - txNoncer.get's memoisation of the fallback value is not represented
     (the fallback never changes between two resets);
   - Go map iteration order and sort.Sort on equal heartbeats are a parameter
     [ord] of the op (a priority list of accounts): theorems hold for all ord;
   - time.Now() in promoteTx is a logical clock;
   - journal, event feed and metrics are not represented. *)
From Coq Require Export List NArith Bool.
Export ListNotations.
Open Scope N_scope.

(* ---- association maps keyed by N (unique keys by construction) ---------- *)
Section Amap.
  Context {V : Type}.
  Definition amap := list (N * V).
  Fixpoint aget (m : amap) (k : N) : option V :=
    match m with [] => None | (k', v) :: r => if N.eqb k' k then Some v else aget r k end.
  Definition adel (m : amap) (k : N) : amap := filter (fun kv => negb (N.eqb (fst kv) k)) m.
  Definition aset (m : amap) (k : N) (v : V) : amap := (k, v) :: adel m k.
  Definition akeys (m : amap) : list N := map fst m.
End Amap.
Arguments amap : clear implicits.

(* position of an account in the priority list (absent = after all) *)
Fixpoint pos_in (ord : list N) (a : N) : N :=
  match ord with [] => 0 | x :: r => if N.eqb x a then 0 else 1 + pos_in r a end.

(* insertion sort by a key; stable *)
Section Sort.
  Context {A : Type} (le : A -> A -> bool).
  Fixpoint ins (x : A) (l : list A) : list A :=
    match l with [] => [x] | y :: r => if le x y then x :: l else y :: ins x r end.
  Fixpoint isort (l : list A) : list A :=
    match l with [] => [] | x :: r => ins x (isort r) end.
End Sort.

(* ---- transactions -------------------------------------------------------- *)
Record tx := mkTx {
  t_id : N;        (* Hash() *)
  t_from : N;      (* types.Sender (valid only if t_sig) *)
  t_sig : bool;    (* signature recovers *)
  t_nonce : N;
  t_price : N;     (* GasPrice *)
  t_gas : N;       (* Gas *)
  t_value : N;     (* Value (never negative here: a negative value cannot be signed/hashed) *)
  t_big : bool;    (* Size() > 32 KiB *)
  t_intr : N       (* IntrinsicGas of the payload *)
}.
Definition t_cost (t : tx) : N := t_value t + t_price t * t_gas t.   (* Transaction.Cost *)

Definition by_nonce (a b : tx) : bool := N.leb (t_nonce a) (t_nonce b).
Definition sort_nonce := isort by_nonce.

(* ---- txSortedMap --------------------------------------------------------- *)
Record smap := mkSmap { items : list tx; cache : option (list tx) }.
Definition sm_empty := mkSmap [] None.

Definition sm_get (m : smap) (n : N) : option tx :=
  find (fun t => N.eqb (t_nonce t) n) (items m).
Definition sm_put (m : smap) (t : tx) : smap :=
  mkSmap (t :: filter (fun x => negb (N.eqb (t_nonce x) (t_nonce t))) (items m)) None.
Definition sm_len (m : smap) : N := N.of_nat (length (items m)).

(* Forward: removed in ascending nonce order (heap pops) *)
Definition sm_forward (m : smap) (th : N) : list tx * smap :=
  let rm := filter (fun t => N.ltb (t_nonce t) th) (items m) in
  let keep := filter (fun t => negb (N.ltb (t_nonce t) th)) (items m) in
  (sort_nonce rm,
   mkSmap keep (match cache m with Some c => Some (skipn (length rm) c) | None => None end)).

Definition sm_filter (m : smap) (f : tx -> bool) : list tx * smap :=
  let rm := filter f (items m) in
  match rm with
  | [] => ([], m)
  | _ => (rm, mkSmap (filter (fun t => negb (f t)) (items m)) None)
  end.

(* Cap: drops from the highest nonce down *)
Definition sm_cap (m : smap) (th : nat) : list tx * smap :=
  if Nat.leb (length (items m)) th then ([], m)
  else
    let s := sort_nonce (items m) in
    let drops := rev (skipn th s) in
    (drops,
     mkSmap (firstn th s)
            (match cache m with Some c => Some (firstn (length c - length drops) c) | None => None end)).

Definition sm_remove (m : smap) (n : N) : bool * smap :=
  match sm_get m n with
  | None => (false, m)
  | Some _ => (true, mkSmap (filter (fun t => negb (N.eqb (t_nonce t) n)) (items m)) None)
  end.

Fixpoint min_nonce (l : list tx) : option N :=
  match l with
  | [] => None
  | t :: r => match min_nonce r with None => Some (t_nonce t) | Some n => Some (N.min (t_nonce t) n) end
  end.

(* the run next, next+1, ... present in l *)
Fixpoint run_from (fuel : nat) (l : list tx) (next : N) : list tx :=
  match fuel with
  | O => []
  | S f => match find (fun t => N.eqb (t_nonce t) next) l with
           | Some t => t :: run_from f l (next + 1)
           | None => []
           end
  end.

Definition sm_ready (m : smap) (start : N) : list tx * smap :=
  match min_nonce (items m) with
  | None => ([], m)
  | Some lo =>
    if N.ltb start lo then ([], m)
    else
      let r := run_from (length (items m)) (items m) lo in
      let hi := lo + N.of_nat (length r) in
      (r, mkSmap (filter (fun t => negb (N.leb lo (t_nonce t) && N.ltb (t_nonce t) hi)) (items m)) None)
  end.

Definition sm_flatten (m : smap) : list tx * smap :=
  match cache m with
  | Some c => (c, m)
  | None => let s := sort_nonce (items m) in (s, mkSmap (items m) (Some s))
  end.

(* ---- txList -------------------------------------------------------------- *)
Record txlist := mkList { strict : bool; txs : smap; costcap : N; gascap : N }.
Definition new_list (s : bool) := mkList s sm_empty 0 0.
Definition l_len (l : txlist) := sm_len (txs l).
Definition l_empty (l : txlist) := N.eqb (l_len l) 0.
Definition l_overlaps (l : txlist) (t : tx) : bool :=
  match sm_get (txs l) (t_nonce t) with Some _ => true | None => false end.

(* Add: (inserted, old, list') *)
Definition l_add (l : txlist) (t : tx) (bump : N) : bool * option tx * txlist :=
  let old := sm_get (txs l) (t_nonce t) in
  let reject :=
    match old with
    | Some o => N.leb (t_price t) (t_price o)
                || N.ltb (t_price t) ((t_price o * (100 + bump)) / 100)
    | None => false
    end in
  if reject then (false, None, l)
  else (true, old,
        mkList (strict l) (sm_put (txs l) t)
               (if N.ltb (costcap l) (t_cost t) then t_cost t else costcap l)
               (if N.ltb (gascap l) (t_gas t) then t_gas t else gascap l)).

Definition l_forward (l : txlist) (th : N) : list tx * txlist :=
  let '(rm, m) := sm_forward (txs l) th in (rm, mkList (strict l) m (costcap l) (gascap l)).

Fixpoint lowest_nonce (l : list tx) (acc : N) : N :=
  match l with [] => acc | t :: r => lowest_nonce r (N.min acc (t_nonce t)) end.

(* Filter: (removed, invalids, list') *)
Definition l_filter (l : txlist) (costLimit gasLimit : N) : list tx * list tx * txlist :=
  if N.leb (costcap l) costLimit && N.leb (gascap l) gasLimit then ([], [], l)
  else
    let '(removed, m1) := sm_filter (txs l) (fun t => N.ltb costLimit (t_cost t) || N.ltb gasLimit (t_gas t)) in
    match removed with
    | t0 :: _ =>
      if strict l then
        let lowest := lowest_nonce removed (t_nonce t0) in
        let '(invalids, m2) := sm_filter m1 (fun t => N.ltb lowest (t_nonce t)) in
        (removed, invalids, mkList (strict l) m2 costLimit gasLimit)
      else (removed, [], mkList (strict l) m1 costLimit gasLimit)
    | [] => (removed, [], mkList (strict l) m1 costLimit gasLimit)
    end.

Definition l_cap (l : txlist) (th : nat) : list tx * txlist :=
  let '(d, m) := sm_cap (txs l) th in (d, mkList (strict l) m (costcap l) (gascap l)).

(* Remove: (removed, invalids, list') *)
Definition l_remove (l : txlist) (t : tx) : bool * list tx * txlist :=
  let '(ok, m1) := sm_remove (txs l) (t_nonce t) in
  if negb ok then (false, [], l)
  else if strict l then
    let '(inv, m2) := sm_filter m1 (fun x => N.ltb (t_nonce t) (t_nonce x)) in
    (true, inv, mkList (strict l) m2 (costcap l) (gascap l))
  else (true, [], mkList (strict l) m1 (costcap l) (gascap l)).

Definition l_ready (l : txlist) (start : N) : list tx * txlist :=
  let '(r, m) := sm_ready (txs l) start in (r, mkList (strict l) m (costcap l) (gascap l)).

Definition l_flatten (l : txlist) : list tx * txlist :=
  let '(r, m) := sm_flatten (txs l) in (r, mkList (strict l) m (costcap l) (gascap l)).

(* ---- chain state, blocks ------------------------------------------------- *)
Definition cstate := amap (N * N).            (* account -> (nonce, balance) *)
Definition st_nonce (s : cstate) (a : N) : N := match aget s a with Some (n, _) => n | None => 0 end.
Definition st_balance (s : cstate) (a : N) : N := match aget s a with Some (_, b) => b | None => 0 end.

Record hdr := mkHdr {
  h_id : N;                 (* Hash() *)
  h_parent : N;             (* ParentHash *)
  h_num : N;                (* Number *)
  h_gaslimit : N;           (* GasLimit *)
  h_state : option cstate   (* chain.StateAt(Root,..): None = error *)
}.
Record block := mkBlock { b_hdr : hdr; b_txs : list tx }.

(* chain.GetBlock(hash, number) *)
Fixpoint get_block (c : list block) (id num : N) : option block :=
  match c with
  | [] => None
  | b :: r => if N.eqb (h_id (b_hdr b)) id && N.eqb (h_num (b_hdr b)) num then Some b else get_block r id num
  end.
Definition parent_of (c : list block) (b : block) : option block :=
  if N.eqb (h_num (b_hdr b)) 0 then None
  else get_block c (h_parent (b_hdr b)) (h_num (b_hdr b) - 1).

(* types.TxDifference *)
Definition tx_difference (a b : list tx) : list tx :=
  filter (fun t => negb (existsb (fun u => N.eqb (t_id u) (t_id t)) b)) a.

(* ---- txNoncer ------------------------------------------------------------ *)
Record noncer := mkNoncer { fallback : cstate; nonces : amap N }.
Definition nc_get (n : noncer) (a : N) : N :=
  match aget (nonces n) a with Some v => v | None => st_nonce (fallback n) a end.
Definition nc_set (n : noncer) (a v : N) : noncer := mkNoncer (fallback n) (aset (nonces n) a v).
Definition nc_set_if_lower (n : noncer) (a v : N) : noncer :=
  if N.leb (nc_get n a) v then n else nc_set n a v.

(* ---- the pool ------------------------------------------------------------ *)
Record config := mkCfg {
  price_limit : N; price_bump : N;
  account_slots : N; global_slots : N; account_queue : N; global_queue : N;
  no_locals : bool; cfg_locals : list N;
  gapfix : bool   (* does the working tree carry the repair of demoteUnexecutables
                     (fixes/C20_pending_gap_after_partial_reinject.diff, in /repo as commit c78f52f)?
                     Detected by the harness on every run; false = the code before that commit. *)
}.

Record pool := mkPool {
  cfg : config;
  gas_price : N;
  cur_state : cstate;          (* currentState *)
  pnonces : noncer;            (* pendingNonces *)
  max_gas : N;                 (* currentMaxGas *)
  locals : list N;
  pending : amap txlist;
  queue : amap txlist;
  beats : amap N;
  all : list tx;               (* txLookup *)
  clock : N;                   (* logical time.Now() *)
  chain : list block;          (* what pool.chain.GetBlock can see *)
  panicked : bool;             (* a Go runtime panic would have happened *)
  gap_seen : bool              (* ghost (no effect on behaviour): demoteUnexecutables has left a pending
                                  list that holds the account nonce but has a hole further up *)
}.

Definition set_all (p : pool) v := mkPool (cfg p) (gas_price p) (cur_state p) (pnonces p) (max_gas p) (locals p) (pending p) (queue p) (beats p) v (clock p) (chain p) (panicked p) (gap_seen p).
Definition set_pending (p : pool) v := mkPool (cfg p) (gas_price p) (cur_state p) (pnonces p) (max_gas p) (locals p) v (queue p) (beats p) (all p) (clock p) (chain p) (panicked p) (gap_seen p).
Definition set_queue (p : pool) v := mkPool (cfg p) (gas_price p) (cur_state p) (pnonces p) (max_gas p) (locals p) (pending p) v (beats p) (all p) (clock p) (chain p) (panicked p) (gap_seen p).
Definition set_beats (p : pool) v := mkPool (cfg p) (gas_price p) (cur_state p) (pnonces p) (max_gas p) (locals p) (pending p) (queue p) v (all p) (clock p) (chain p) (panicked p) (gap_seen p).
Definition set_pnonces (p : pool) v := mkPool (cfg p) (gas_price p) (cur_state p) v (max_gas p) (locals p) (pending p) (queue p) (beats p) (all p) (clock p) (chain p) (panicked p) (gap_seen p).
Definition set_locals (p : pool) v := mkPool (cfg p) (gas_price p) (cur_state p) (pnonces p) (max_gas p) v (pending p) (queue p) (beats p) (all p) (clock p) (chain p) (panicked p) (gap_seen p).
Definition set_clock (p : pool) v := mkPool (cfg p) (gas_price p) (cur_state p) (pnonces p) (max_gas p) (locals p) (pending p) (queue p) (beats p) (all p) v (chain p) (panicked p) (gap_seen p).
Definition set_gas_price (p : pool) v := mkPool (cfg p) v (cur_state p) (pnonces p) (max_gas p) (locals p) (pending p) (queue p) (beats p) (all p) (clock p) (chain p) (panicked p) (gap_seen p).
Definition set_chain (p : pool) v := mkPool (cfg p) (gas_price p) (cur_state p) (pnonces p) (max_gas p) (locals p) (pending p) (queue p) (beats p) (all p) (clock p) v (panicked p) (gap_seen p).
Definition set_panicked (p : pool) := mkPool (cfg p) (gas_price p) (cur_state p) (pnonces p) (max_gas p) (locals p) (pending p) (queue p) (beats p) (all p) (clock p) (chain p) true (gap_seen p).
Definition set_gap_seen (p : pool) := mkPool (cfg p) (gas_price p) (cur_state p) (pnonces p) (max_gas p) (locals p) (pending p) (queue p) (beats p) (all p) (clock p) (chain p) (panicked p) true.
Definition set_head_state (p : pool) (s : cstate) (g : N) :=
  mkPool (cfg p) (gas_price p) s (mkNoncer s []) g (locals p) (pending p) (queue p) (beats p) (all p) (clock p) (chain p) (panicked p) (gap_seen p).

Definition is_local (p : pool) (a : N) : bool := existsb (N.eqb a) (locals p).

(* txLookup *)
Definition all_get (p : pool) (id : N) : option tx := find (fun t => N.eqb (t_id t) id) (all p).
Definition all_remove (p : pool) (id : N) : pool :=
  set_all p (filter (fun t => negb (N.eqb (t_id t) id)) (all p)).
Definition all_add (p : pool) (t : tx) : pool :=
  set_all p (t :: filter (fun x => negb (N.eqb (t_id x) (t_id t))) (all p)).
Definition all_count (p : pool) : N := N.of_nat (length (all p)).
Definition all_remove_list (p : pool) (l : list tx) : pool :=
  fold_left (fun p t => all_remove p (t_id t)) l p.

(* txPricedList: heap order = cheaper first, on equal price higher nonce first
   (t_id only makes the model's order total) *)
Definition price_le (a b : tx) : bool :=
  if N.ltb (t_price a) (t_price b) then true
  else if N.ltb (t_price b) (t_price a) then false
  else if N.ltb (t_nonce b) (t_nonce a) then true
  else if N.ltb (t_nonce a) (t_nonce b) then false
  else N.leb (t_id a) (t_id b).
Definition by_price (p : pool) : list tx := isort price_le (all p).

(* containsTx: sender derivable and in the set *)
Definition local_tx (p : pool) (t : tx) : bool := t_sig t && is_local p (t_from t).

Definition priced_underpriced (p : pool) (t : tx) : bool :=
  if local_tx p t then false
  else match by_price p with
       | [] => false
       | c :: _ => N.leb (t_price t) (t_price c)
       end.
Definition priced_discard (p : pool) (count : N) : list tx :=
  firstn (N.to_nat count) (filter (fun t => negb (local_tx p t)) (by_price p)).
Fixpoint take_below (l : list tx) (th : N) : list tx :=
  match l with
  | [] => []
  | t :: r => if N.ltb (t_price t) th then t :: take_below r th else []
  end.
Definition priced_cap (p : pool) (th : N) : list tx :=
  filter (fun t => negb (local_tx p t)) (take_below (by_price p) th).

(* error enum *)
Definition E_ok := 0.          Definition E_oversized := 1.    Definition E_negative := 2.
Definition E_gaslimit := 3.    Definition E_sender := 4.       Definition E_underpriced := 5.
Definition E_nonce_low := 6.   Definition E_funds := 7.        Definition E_intrinsic := 8.
Definition E_known := 9.       Definition E_replace := 10.

(* validateTx *)
Definition validate_tx (p : pool) (t : tx) (local : bool) : N :=
  if t_big t then E_oversized
  else if N.ltb (max_gas p) (t_gas t) then E_gaslimit
  else if negb (t_sig t) then E_sender
  else
    let local := local || is_local p (t_from t) in
    if negb local && N.ltb (t_price t) (gas_price p) then E_underpriced
    else if N.ltb (t_nonce t) (st_nonce (cur_state p) (t_from t)) then E_nonce_low
    else if N.ltb (st_balance (cur_state p) (t_from t)) (t_cost t) then E_funds
    else if N.ltb (t_gas t) (t_intr t) then E_intrinsic
    else E_ok.

(* enqueueTx: (replaced, err, pool) *)
Definition enqueue_tx (p : pool) (t : tx) : bool * N * pool :=
  let from := t_from t in
  let q := match aget (queue p) from with Some l => l | None => new_list false end in
  let '(inserted, old, q') := l_add q t (price_bump (cfg p)) in
  let p := set_queue p (aset (queue p) from q') in
  if negb inserted then (false, E_replace, p)
  else
    let p := match old with Some o => all_remove p (t_id o) | None => p end in
    let p := match all_get p (t_id t) with None => all_add p t | Some _ => p end in
    (match old with Some _ => true | None => false end, E_ok, p).

(* promoteTx *)
Definition promote_tx (p : pool) (addr : N) (t : tx) : bool * pool :=
  let l := match aget (pending p) addr with Some l => l | None => new_list true end in
  let '(inserted, old, l') := l_add l t (price_bump (cfg p)) in
  let p := set_pending p (aset (pending p) addr l') in
  if negb inserted then (false, all_remove p (t_id t))
  else
    let p := match old with Some o => all_remove p (t_id o) | None => p end in
    let p := match all_get p (t_id t) with None => all_add p t | Some _ => p end in
    let p := set_clock (set_beats p (aset (beats p) addr (clock p))) (clock p + 1) in
    (true, set_pnonces p (nc_set (pnonces p) addr (t_nonce t + 1))).

Definition enqueue_all (p : pool) (l : list tx) : pool :=
  fold_left (fun p t => snd (enqueue_tx p t)) l p.

(* removeTx *)
Definition remove_tx (p : pool) (id : N) : pool :=
  match all_get p id with
  | None => p
  | Some t =>
    let addr := t_from t in
    let p := all_remove p id in
    let in_pending :=
      match aget (pending p) addr with
      | None => None
      | Some pl =>
        let '(removed, invalids, pl') := l_remove pl t in
        if removed then Some (invalids, pl') else None
      end in
    match in_pending with
    | Some (invalids, pl') =>
      let p := if l_empty pl'
               then set_beats (set_pending p (adel (pending p) addr)) (adel (beats p) addr)
               else set_pending p (aset (pending p) addr pl') in
      let p := enqueue_all p invalids in
      set_pnonces p (nc_set_if_lower (pnonces p) addr (t_nonce t))
    | None =>
      match aget (queue p) addr with
      | None => p
      | Some ql =>
        let '(_, _, ql') := l_remove ql t in
        if l_empty ql' then set_queue p (adel (queue p) addr)
        else set_queue p (aset (queue p) addr ql')
      end
    end
  end.
Definition remove_txs (p : pool) (l : list tx) : pool :=
  fold_left (fun p t => remove_tx p (t_id t)) l p.

(* add: (replaced, err, pool) *)
Definition add_tx (p : pool) (t : tx) (local : bool) : bool * N * pool :=
  match all_get p (t_id t) with
  | Some _ => (false, E_known, p)
  | None =>
    let e := validate_tx p t local in
    if negb (N.eqb e E_ok) then (false, e, p)
    else
      let limit := global_slots (cfg p) + global_queue (cfg p) in
      let full := N.leb limit (all_count p) in
      if full && negb local && priced_underpriced p t then (false, E_underpriced, p)
      else
        let p := if full then remove_txs p (priced_discard p (all_count p - (limit - 1))) else p in
        let from := t_from t in
        match (match aget (pending p) from with
               | Some l => if l_overlaps l t then Some l else None
               | None => None end) with
        | Some l =>
          let '(inserted, old, l') := l_add l t (price_bump (cfg p)) in
          if negb inserted then (false, E_replace, p)
          else
            let p := set_pending p (aset (pending p) from l') in
            let p := match old with Some o => all_remove p (t_id o) | None => p end in
            let p := all_add p t in
            (match old with Some _ => true | None => false end, E_ok, p)
        | None =>
          let '(replaced, e, p) := enqueue_tx p t in
          if negb (N.eqb e E_ok) then (false, e, p)
          else
            let p := if local && negb (is_local p from) then set_locals p (from :: locals p) else p in
            (replaced, E_ok, p)
        end
  end.

(* addTxsLocked: (errs, dirty, pool) *)
Fixpoint add_txs_locked (p : pool) (l : list tx) (local : bool) : list N * list N * pool :=
  match l with
  | [] => ([], [], p)
  | t :: r =>
    let '(replaced, e, p) := add_tx p t local in
    let '(errs, dirty, p) := add_txs_locked p r local in
    (e :: errs,
     (if N.eqb e E_ok && negb replaced && t_sig t then t_from t :: dirty else dirty), p)
  end.

(* iteration order over a set of accounts given the scheduler's priority list *)
Fixpoint dedup (l : list N) : list N :=
  match l with
  | [] => []
  | x :: r => if existsb (N.eqb x) r then dedup r else x :: dedup r
  end.
Definition order_by (ord : list N) (l : list N) : list N :=
  isort (fun a b => N.leb (pos_in ord a) (pos_in ord b)) (dedup l).

(* Go mutates the *txList behind pool.queue[addr] / pool.pending[addr] in
   place; the model writes the list back after every mutation, so that every
   intermediate pool is the one Go has at that point. *)
Definition put_q (p : pool) (a : N) (l : txlist) : pool := set_queue p (aset (queue p) a l).
Definition put_p (p : pool) (a : N) (l : txlist) : pool := set_pending p (aset (pending p) a l).
(* promoteExecutables, one account *)
Definition promote_account (p : pool) (addr : N) : pool :=
  match aget (queue p) addr with
  | None => p
  | Some l =>
    let '(forwards, l) := l_forward l (st_nonce (cur_state p) addr) in
    let p := all_remove_list (put_q p addr l) forwards in
    let '(drops, _, l) := l_filter l (st_balance (cur_state p) addr) (max_gas p) in
    let p := all_remove_list (put_q p addr l) drops in
    let '(readies, l) := l_ready l (nc_get (pnonces p) addr) in
    let p := fold_left (fun p t => snd (promote_tx p addr t)) readies (put_q p addr l) in
    let '(caps, l) := if negb (is_local p addr) then l_cap l (N.to_nat (account_queue (cfg p))) else ([], l) in
    let p := all_remove_list (put_q p addr l) caps in
    if l_empty l then set_queue p (adel (queue p) addr) else p
  end.
Definition promote_executables (p : pool) (accounts : list N) : pool :=
  fold_left promote_account accounts p.

(* demoteUnexecutables, one account *)
Definition demote_account (p : pool) (addr : N) : pool :=
  match aget (pending p) addr with
  | None => p
  | Some l =>
    let nonce := st_nonce (cur_state p) addr in
    let '(olds, l) := l_forward l nonce in
    let p := all_remove_list (put_p p addr l) olds in
    let '(drops, invalids, l) := l_filter l (st_balance (cur_state p) addr) (max_gas p) in
    let p := all_remove_list (put_p p addr l) drops in
    let p := enqueue_all p invalids in
    let '(gapped, l) :=
      if negb (l_empty l) && (match sm_get (txs l) nonce with None => true | Some _ => false end)
      then l_cap l 0 else ([], l) in
    let p := enqueue_all (put_p p addr l) gapped in
    (* what lies above the first missing nonce: with the proposed repair it is postponed,
       without it the ghost flag records that a hole was left *)
    let '(gapped2, l, seen) :=
      if negb (l_empty l) then
        let next := nonce + N.of_nat (length (run_from (length (items (txs l))) (items (txs l)) nonce)) in
        if gapfix (cfg p) then
          let '(inv, m) := sm_filter (txs l) (fun t => N.ltb next (t_nonce t)) in
          (inv, mkList (strict l) m (costcap l) (gascap l), false)
        else ([], l, existsb (fun t => N.ltb next (t_nonce t)) (items (txs l)))
      else ([], l, false) in
    let p := if seen then set_gap_seen p else p in
    let p := enqueue_all (put_p p addr l) gapped2 in
    if l_empty l
    then set_beats (set_pending p (adel (pending p) addr)) (adel (beats p) addr)
    else p
  end.
Definition demote_unexecutables (p : pool) (ord : list N) : pool :=
  fold_left demote_account (order_by ord (akeys (pending p))) p.

(* reset *)
Fixpoint walk_rem (fuel : nat) (c : list block) (rem : block) (target : N) (acc : list tx)
  : option (block * list tx) :=
  if N.leb (h_num (b_hdr rem)) target then Some (rem, acc)
  else match fuel with
       | O => None
       | S f => match parent_of c rem with
                | None => None
                | Some r' => walk_rem f c r' target (acc ++ b_txs rem)
                end
       end.
Fixpoint walk_both (fuel : nat) (c : list block) (rem add : block) (disc incl : list tx)
  : option (list tx * list tx) :=
  if N.eqb (h_id (b_hdr rem)) (h_id (b_hdr add)) then Some (disc, incl)
  else match fuel with
       | O => None
       | S f => match parent_of c rem with
                | None => None
                | Some r' => match parent_of c add with
                             | None => None
                             | Some a' => walk_both f c r' a' (disc ++ b_txs rem) (incl ++ b_txs add)
                             end
                end
       end.

(* Some reinject, or None = the early "return" (nothing else happens) *)
Definition reset_reinject (c : list block) (old : option hdr) (new : hdr) : option (list tx) :=
  match old with
  | None => Some []
  | Some oh =>
    if N.eqb (h_id oh) (h_parent new) then Some []
    else
      let depth := if N.leb (h_num oh) (h_num new) then h_num new - h_num oh else h_num oh - h_num new in
      if N.ltb 64 depth then Some []
      else
        match get_block c (h_id oh) (h_num oh) with
        | None => None
        | Some rem =>
          match get_block c (h_id new) (h_num new) with
          | None => None    (* add == nil: the Go code would dereference nil; the harness never does this *)
          | Some add =>
            let fuel := S (N.to_nat (h_num oh + h_num new)) in
            match walk_rem fuel c rem (h_num (b_hdr add)) [] with
            | None => None
            | Some (rem, disc) =>
              match walk_rem fuel c add (h_num (b_hdr rem)) [] with
              | None => None
              | Some (add, incl) =>
                match walk_both fuel c rem add disc incl with
                | None => None
                | Some (disc, incl) => Some (tx_difference disc incl)
                end
              end
            end
          end
        end
  end.

Definition reset (p : pool) (old : option hdr) (new : hdr) : pool :=
  match reset_reinject (chain p) old new with
  | None => p
  | Some reinject =>
    match h_state new with
    | None => p
    | Some s =>
      let p := set_head_state p s (h_gaslimit new) in
      let '(_, _, p) := add_txs_locked p reinject false in p
    end
  end.

(* truncatePending *)
Definition pend_len (p : pool) (a : N) : N :=
  match aget (pending p) a with Some l => l_len l | None => 0 end.
Definition pending_count (p : pool) : N :=
  fold_left (fun s kv => s + l_len (snd kv)) (pending p) 0.
Definition queued_count (p : pool) : N :=
  fold_left (fun s kv => s + l_len (snd kv)) (queue p) 0.

(* list.Cap(list.Len()-1) on pending[addr] and its bookkeeping *)
Definition shave (p : pool) (addr : N) : pool :=
  match aget (pending p) addr with
  | None => set_panicked p
  | Some l =>
    if l_empty l then set_panicked p else   (* Cap(-1) on an empty list indexes out of range *)
    let '(caps, l') := l_cap l (N.to_nat (l_len l) - 1) in
    let p := set_pending p (aset (pending p) addr l') in
    fold_left (fun p t => set_pnonces (all_remove p (t_id t)) (nc_set_if_lower (pnonces p) addr (t_nonce t))) caps p
  end.

(* inner equalisation loop: (pool, pending counter) *)
Fixpoint equalize (fuel : nat) (p : pool) (cnt : N) (prevs : list N) (last_prev : N) (threshold : N) : pool * N :=
  match fuel with
  | O => (p, cnt)
  | S f =>
    if N.ltb (global_slots (cfg p)) cnt && N.ltb threshold (pend_len p last_prev) then
      let '(p, cnt) := fold_left (fun pc a => (shave (fst pc) a, snd pc - 1)) prevs (p, cnt) in
      equalize f p cnt prevs last_prev threshold
    else (p, cnt)
  end.

Fixpoint trunc_loop1 (fuel : nat) (p : pool) (cnt : N) (spammers offenders : list N) : pool * N * list N :=
  match spammers with
  | [] => (p, cnt, offenders)
  | offender :: rest =>
    if N.ltb (global_slots (cfg p)) cnt then
      let offenders' := offenders ++ [offender] in
      let '(p, cnt) :=
        match offenders with
        | [] => (p, cnt)
        | _ => equalize fuel p cnt offenders (last offenders 0) (pend_len p offender)
        end in
      trunc_loop1 fuel p cnt rest offenders'
    else (p, cnt, offenders)
  end.

Fixpoint trunc_loop2 (fuel : nat) (p : pool) (cnt : N) (offenders : list N) : pool * N :=
  match fuel with
  | O => (p, cnt)
  | S f =>
    if N.ltb (global_slots (cfg p)) cnt && N.ltb (account_slots (cfg p)) (pend_len p (last offenders 0)) then
      let '(p, cnt) := fold_left (fun pc a => (shave (fst pc) a, snd pc - 1)) offenders (p, cnt) in
      trunc_loop2 f p cnt offenders
    else (p, cnt)
  end.

Definition truncate_pending (p : pool) (ord : list N) : pool :=
  let cnt := pending_count p in
  if N.leb cnt (global_slots (cfg p)) then p
  else
    let cands := filter (fun a => negb (is_local p a) && N.ltb (account_slots (cfg p)) (pend_len p a))
                        (order_by ord (akeys (pending p))) in
    (* prque: highest priority (= longest list) first *)
    let spammers := isort (fun a b => N.leb (pend_len p b) (pend_len p a)) cands in
    let fuel := S (N.to_nat cnt) in
    let '(p, cnt, offenders) := trunc_loop1 fuel p cnt spammers [] in
    match offenders with
    | [] => p
    | _ => fst (trunc_loop2 fuel p cnt offenders)
    end.

(* truncateQueue *)
Definition beat_of (p : pool) (a : N) : N :=      (* zero time = 0, real beats start at 1 *)
  match aget (beats p) a with Some b => b | None => 0 end.

Fixpoint drop_last_n (p : pool) (txs_rev : list tx) (drop : N) : pool * N :=
  match txs_rev with
  | [] => (p, drop)
  | t :: r => if N.ltb 0 drop then drop_last_n (remove_tx p (t_id t)) r (drop - 1) else (p, drop)
  end.

Fixpoint trunc_queue_loop (p : pool) (addrs_newest_first : list N) (drop : N) : pool :=
  match addrs_newest_first with
  | [] => p
  | addr :: rest =>
    if N.ltb 0 drop then
      match aget (queue p) addr with
      | None => set_panicked p
      | Some l =>
        let size := l_len l in
        let '(flat, l') := l_flatten l in
        let p := set_queue p (aset (queue p) addr l') in
        if N.leb size drop then trunc_queue_loop (remove_txs p flat) rest (drop - size)
        else let '(p, drop) := drop_last_n p (rev flat) drop in trunc_queue_loop p rest drop
      end
    else p
  end.

Definition truncate_queue (p : pool) (ord : list N) : pool :=
  let queued := queued_count p in
  if N.leb queued (global_queue (cfg p)) then p
  else
    let cands := filter (fun a => negb (is_local p a)) (order_by ord (akeys (queue p))) in
    let sorted := isort (fun a b => N.leb (beat_of p a) (beat_of p b)) cands in
    trunc_queue_loop p (rev sorted) (queued - global_queue (cfg p)).

(* tail of runReorg: pendingNonces.set(addr, last nonce + 1) for every pending list *)
Definition fix_nonce (p : pool) (addr : N) : pool :=
  match aget (pending p) addr with
  | None => p
  | Some l =>
    let '(flat, l') := l_flatten l in
    let p := set_pending p (aset (pending p) addr l') in
    match rev flat with
    | [] => set_panicked p             (* txs[len(txs)-1] on an empty slice *)
    | t :: _ => set_pnonces p (nc_set (pnonces p) addr (t_nonce t + 1))
    end
  end.

(* runReorg *)
Definition run_reorg (p : pool) (rs : option (option hdr * hdr)) (dirty : option (list N)) (ord : list N) : pool :=
  let promote_addrs := match dirty with Some d => order_by ord d | None => [] end in
  let '(p, promote_addrs) :=
    match rs with
    | Some (old, new) => let p := reset p old new in (p, order_by ord (akeys (queue p)))
    | None => (p, promote_addrs)
    end in
  let p := promote_executables p promote_addrs in
  let p := match rs with Some _ => demote_unexecutables p ord | None => p end in
  let p := truncate_pending p ord in
  let p := truncate_queue p ord in
  fold_left fix_nonce (order_by ord (akeys (pending p))) p.

(* SetGasPrice *)
Definition set_price (p : pool) (price : N) : pool :=
  let p := set_gas_price p price in
  remove_txs p (priced_cap p price).

(* eviction branch of loop(): expired = accounts whose heartbeat is older than Lifetime *)
Definition evict_account (expired : list N) (p : pool) (addr : N) : pool :=
  if is_local p addr then p
  else if existsb (N.eqb addr) expired then
    match aget (queue p) addr with
    | None => p
    | Some l =>
      let '(flat, l') := l_flatten l in
      remove_txs (set_queue p (aset (queue p) addr l')) flat
    end
  else p.
Definition evict (p : pool) (expired : list N) : pool :=
  fold_left (evict_account expired) (akeys (queue p)) p.

(* Pending(): account -> flattened list, and the caches it fills *)
Definition pending_view (p : pool) : list (N * list tx) * pool :=
  fold_left (fun acc a =>
               let '(out, p) := acc in
               match aget (pending p) a with
               | None => (out, p)
               | Some l => let '(flat, l') := l_flatten l in
                           (out ++ [(a, flat)], set_pending p (aset (pending p) a l'))
               end)
            (akeys (pending p)) ([], p).

(* NewTxPool *)
Definition new_pool (c : config) (genesis : block) : pool :=
  let p := mkPool c (price_limit c) [] (mkNoncer [] []) 0 (cfg_locals c) [] [] [] [] 1 [genesis] false false in
  reset p None (b_hdr genesis).

(* ---- scheduleReorgLoop: merging of requests ------------------------------- *)
(* While a runReorg is in flight the scheduler folds the requests that arrive
   into ONE pending request: the reset keeps the old head of the first request
   and takes the new head of the last one (head events arrive in order, the last
   is the chain's head); the dirty-account sets are united.  The next run gets
   that merged request. *)
Inductive req :=
| RReset (old : option hdr) (new : hdr)     (* requestReset(oldHead, newHead) *)
| RPromote (dirty : list N).                (* requestPromoteExecutables(set) *)
Record sched := mkSched { s_reset : option (option hdr * hdr); s_dirty : option (list N) }.
Definition sched_merge (s : sched) (r : req) : sched :=
  match r with
  | RReset old new =>
    mkSched (match s_reset s with None => Some (old, new) | Some (o, _) => Some (o, new) end) (s_dirty s)
  | RPromote d =>
    mkSched (s_reset s) (match s_dirty s with None => Some d | Some d0 => Some (d0 ++ d) end)
  end.
Definition merge_all (rs : list req) : sched := fold_left sched_merge rs (mkSched None None).
(* the run the scheduler launches for the merged request *)
Definition run_merged (p : pool) (rs : list req) (ord : list N) : pool :=
  run_reorg p (s_reset (merge_all rs)) (s_dirty (merge_all rs)) ord.

(* ---- operations ---------------------------------------------------------- *)
Inductive op :=
| OBlock (b : block)                                  (* the chain learns a block (no pool code runs) *)
| OAdd (l : list tx) (local : bool) (ord : list N)    (* addTxs(.., sync): addTxsLocked; runReorg(nil, dirty) *)
| OAddLocked (l : list tx) (local : bool)             (* first critical section only *)
| OReorg (rs : option (option hdr * hdr)) (dirty : option (list N)) (ord : list N)
| OSetPrice (price : N)
| OEvict (expired : list N)
| ORemove (id : N)
| OPending.

Inductive out := OutNone | OutErrs (e : list N) | OutPending (v : list (N * list N)).

(* AddLocals passes local = !config.NoLocals *)
Definition eff_local (p : pool) (local : bool) : bool := local && negb (no_locals (cfg p)).

Definition step (p : pool) (o : op) : pool * out :=
  match o with
  | OBlock b => (set_chain p (b :: chain p), OutNone)
  | OAdd l local ord =>
    let '(errs, dirty, p) := add_txs_locked p l (eff_local p local) in
    (run_reorg p None (Some dirty) ord, OutErrs errs)
  | OAddLocked l local =>
    let '(errs, _, p) := add_txs_locked p l (eff_local p local) in (p, OutErrs errs)
  | OReorg rs dirty ord => (run_reorg p rs dirty ord, OutNone)
  | OSetPrice price => (set_price p price, OutNone)
  | OEvict expired => (evict p expired, OutNone)
  | ORemove id => (remove_tx p id, OutNone)
  | OPending =>
    let '(v, p) := pending_view p in
    (p, OutPending (isort (fun a b => N.leb (fst a) (fst b)) (map (fun kv => (fst kv, map t_id (snd kv))) v)))
  end.

Definition run (p : pool) (ops : list op) : pool := fold_left (fun p o => fst (step p o)) ops p.

(* ---- correspondence runner ----------------------------------------------- *)
(* what the harness records after every op, for accounts 0..n-1:
   pending ids (by nonce), queued ids (by nonce), pool nonce, local? *)
Record acct_obs := mkAO { o_pending : list N; o_queue : list N; o_nonce : N; o_local : bool }.
Record obs := mkObs {
  o_out : out;
  o_accts : list acct_obs;
  o_all : list N;          (* ids in the lookup, ascending *)
  o_beats : list N;        (* accounts that have a heartbeat, oldest first *)
  o_gas_price : N
}.

Definition ids_of (l : option txlist) : list N :=
  match l with Some l => map t_id (sort_nonce (items (txs l))) | None => [] end.
Definition acct_view (p : pool) (a : N) : acct_obs :=
  mkAO (ids_of (aget (pending p) a)) (ids_of (aget (queue p) a)) (nc_get (pnonces p) a) (is_local p a).
Fixpoint seqN (start : N) (len : nat) : list N :=
  match len with O => [] | S k => start :: seqN (start + 1) k end.
Definition view (p : pool) (n : nat) (o : out) : obs :=
  mkObs o (map (acct_view p) (seqN 0 n))
        (isort N.leb (map t_id (all p)))
        (isort (fun a b => N.leb (beat_of p a) (beat_of p b)) (akeys (beats p)))
        (gas_price p).

Fixpoint list_eqb {A} (e : A -> A -> bool) (a b : list A) : bool :=
  match a, b with
  | [], [] => true
  | x :: r, y :: s => e x y && list_eqb e r s
  | _, _ => false
  end.
Definition out_eqb (a b : out) : bool :=
  match a, b with
  | OutNone, OutNone => true
  | OutErrs x, OutErrs y => list_eqb N.eqb x y
  | OutPending x, OutPending y =>
    list_eqb (fun u v => N.eqb (fst u) (fst v) && list_eqb N.eqb (snd u) (snd v)) x y
  | _, _ => false
  end.
Definition ao_eqb (a b : acct_obs) : bool :=
  list_eqb N.eqb (o_pending a) (o_pending b) && list_eqb N.eqb (o_queue a) (o_queue b)
  && N.eqb (o_nonce a) (o_nonce b) && Bool.eqb (o_local a) (o_local b).
Definition obs_eqb (a b : obs) : bool :=
  out_eqb (o_out a) (o_out b) && list_eqb ao_eqb (o_accts a) (o_accts b)
  && list_eqb N.eqb (o_all a) (o_all b) && list_eqb N.eqb (o_beats a) (o_beats b)
  && N.eqb (o_gas_price a) (o_gas_price b).

(* all priority lists over the accounts, for the scheduler choices the
   harness could not observe (sort.Sort on equal heartbeats) *)
Fixpoint insert_all {A} (x : A) (l : list A) : list (list A) :=
  match l with
  | [] => [[x]]
  | y :: r => (x :: l) :: map (cons y) (insert_all x r)
  end.
Fixpoint perms {A} (l : list A) : list (list A) :=
  match l with
  | [] => [[]]
  | x :: r => flat_map (insert_all x) (perms r)
  end.

Definition with_ord (o : op) (ord : list N) : op :=
  match o with
  | OAdd l local _ => OAdd l local ord
  | OReorg rs d _ => OReorg rs d ord
  | _ => o
  end.

(* One recorded step = the critical sections that ran between two observations
   (normally one; a coalesced burst is: the submissions made while the lock was
   held, the run that was in flight, the merged run), and the observation. *)
Record case := mkCase {
  c_cfg : config;
  c_naccts : nat;
  c_genesis : block;
  c_steps : list (list op * obs)
}.

Fixpoint steps_seq (p : pool) (os : list op) : pool * out :=
  match os with
  | [] => (p, OutNone)
  | [o] => step p o
  | o :: r => steps_seq (fst (step p o)) r
  end.
Definition has_ord (o : op) : bool :=
  match o with OAdd _ _ _ | OReorg _ _ _ => true | _ => false end.

(* runs the steps; at each step the model (with the recorded priority list, or
   failing that with some other one) must reproduce the observation.
   Result: None = agreement, Some i = first disagreeing step *)
Fixpoint run_steps (n : nat) (p : pool) (l : list (list op * obs)) (i : N) : option N :=
  match l with
  | [] => None
  | (os, ob) :: r =>
    let try := fun os' => let '(p', ou) := steps_seq p os' in
                          if obs_eqb (view p' n ou) ob then Some p' else None in
    let found :=
      match try os with
      | Some p' => Some p'
      | None =>
        if existsb has_ord os then
          fold_left (fun acc ord => match acc with Some _ => acc | None => try (map (fun o => with_ord o ord) os) end)
                    (perms (seqN 0 n)) None
        else None
      end in
    match found with
    | Some p' => run_steps n p' r (i + 1)
    | None => Some i
    end
  end.

Definition case_ok (c : case) : bool :=
  match run_steps (c_naccts c) (new_pool (c_cfg c) (c_genesis c)) (c_steps c) 0 with
  | None => true | Some _ => false end.
Definition case_first_bad (c : case) : option N :=
  run_steps (c_naccts c) (new_pool (c_cfg c) (c_genesis c)) (c_steps c) 0.

Fixpoint mismatches_from (i : N) (l : list case) : list N :=
  match l with
  | [] => []
  | c :: r => if case_ok c then mismatches_from (i + 1) r else i :: mismatches_from (i + 1) r
  end.
Definition mismatches := mismatches_from 0.
