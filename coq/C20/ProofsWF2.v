(* C20 - WF is preserved by removeTx, enqueueTx, add (part 2). *)
From VF.C20 Require Import Model Lemmas ProofsWF.
From Coq Require Import Arith Lia ZifyBool ZifyN ZifyNat Permutation.
Local Open Scope N_scope.

Ltac dwf W := unfold WF in W; destruct W as [Wpf Wqf Wpa Wqa Wfa Wco Wid Wup Wuq Wdpq Wfnd Wff Wfp Wfq].

(* strictness of the stored lists *)
Definition ST (p : pool) : Prop :=
  (forall a l, aget (queue p) a = Some l -> strict l = false) /\
  (forall a l, aget (pending p) a = Some l -> strict l = true).

Lemma wf_ext' fl p p' :
  (forall b, lst (pending p') b = lst (pending p) b) ->
  (forall b, lst (queue p') b = lst (queue p) b) -> all p' = all p -> WFx fl p -> WFx fl p'.
Proof.
  intros E1 E2 E3 [? ? ? ? ? ? ? ? ? ? ? ? ? ?].
  constructor; intros; rewrite ?E1, ?E2, ?E3 in *; eauto.
Qed.

(* a new transaction (fresh id) enters queue[from] and the lookup, possibly
   replacing the queued transaction with the same nonce *)
Lemma wf_insert_q p p' t :
  WF p ->
  (forall x, In x (all p) -> t_id x <> t_id t) ->
  (forall x, In x (lst (pending p) (t_from t)) -> t_nonce x <> t_nonce t) ->
  (forall b, lst (pending p') b = lst (pending p) b) ->
  (forall b x, In x (lst (queue p') b) <->
               (b = t_from t /\ x = t) \/ (In x (lst (queue p) b) /\ ~ (b = t_from t /\ t_nonce x = t_nonce t))) ->
  (forall b, uniq (lst (queue p') b)) ->
  (forall x, In x (all p') <->
             x = t \/ (In x (all p) /\ ~ (In x (lst (queue p) (t_from t)) /\ t_nonce x = t_nonce t))) ->
  NoDup (map t_id (all p')) ->
  WF p'.
Proof.
  intros W Fr Np Ep Q Uq A Nd. dwf W.
  constructor.
  - intros a x. rewrite Ep. eauto.
  - intros a x Hx. apply Q in Hx as [[-> ->]|[Hx _]]; eauto.
  - intros a x. rewrite Ep. intro Hx. apply A. right. split; eauto.
    intros [H1 H2]. pose proof (Wpf _ _ Hx). subst a. pose proof (Wqf _ _ H1) as F. rewrite <- F in H1.
    eapply (Wdpq _ x x); eauto.
  - intros a x Hx. apply A. apply Q in Hx as [[-> ->]|[Hx Hn]]; auto.
    right. split; eauto. intros [H1 H2]. apply Hn. split; auto. rewrite <- (Wqf _ _ Hx). apply (Wqf _ _ H1).
  - intros x [].
  - intros x Hx. apply A in Hx as [->|[Hx Hn]].
    + right. left. apply Q. auto.
    + destruct (Wco x Hx) as [H|[H|[]]].
      * left. rewrite Ep. auto.
      * right. left. apply Q. right. split; auto. intros [H1 H2]. apply Hn. rewrite <- H1. auto.
  - auto.
  - intro a. rewrite Ep. auto.
  - auto.
  - intros a x y. rewrite Ep. intros Hx Hy. apply Q in Hy as [[-> ->]|[Hy _]]; eauto.
  - constructor.
  - intros x y [].
  - intros x y [].
  - intros x y [].
Qed.

Lemma wf_insert_p p p' t :
  WF p ->
  (forall x, In x (all p) -> t_id x <> t_id t) ->
  (forall x, In x (lst (queue p) (t_from t)) -> t_nonce x <> t_nonce t) ->
  (forall b, lst (queue p') b = lst (queue p) b) ->
  (forall b x, In x (lst (pending p') b) <->
               (b = t_from t /\ x = t) \/ (In x (lst (pending p) b) /\ ~ (b = t_from t /\ t_nonce x = t_nonce t))) ->
  (forall b, uniq (lst (pending p') b)) ->
  (forall x, In x (all p') <->
             x = t \/ (In x (all p) /\ ~ (In x (lst (pending p) (t_from t)) /\ t_nonce x = t_nonce t))) ->
  NoDup (map t_id (all p')) ->
  WF p'.
Proof.
  intros W Fr Np Ep Q Uq A Nd. dwf W.
  constructor.
  - intros a x Hx. apply Q in Hx as [[-> ->]|[Hx _]]; eauto.
  - intros a x. rewrite Ep. eauto.
  - intros a x Hx. apply A. apply Q in Hx as [[-> ->]|[Hx Hn]]; auto.
    right. split; eauto. intros [H1 H2]. apply Hn. split; auto. rewrite <- (Wpf _ _ Hx). apply (Wpf _ _ H1).
  - intros a x. rewrite Ep. intro Hx. apply A. right. split; eauto.
    intros [H1 H2]. pose proof (Wqf _ _ Hx). subst a. pose proof (Wpf _ _ H1) as F. rewrite <- F in H1.
    eapply (Wdpq _ x x); eauto.
  - intros x [].
  - intros x Hx. apply A in Hx as [->|[Hx Hn]].
    + left. apply Q. auto.
    + destruct (Wco x Hx) as [H|[H|[]]].
      * left. apply Q. right. split; auto. intros [H1 H2]. apply Hn. rewrite <- H1. auto.
      * right. left. rewrite Ep. auto.
  - auto.
  - auto.
  - intro a. rewrite Ep. auto.
  - intros a x y. rewrite Ep. intros Hx Hy. apply Q in Hx as [[-> ->]|[Hx _]]; eauto.
    intro E. eapply Np; eauto.
  - constructor.
  - intros x y [].
  - intros x y [].
  - intros x y [].
Qed.

(* lookup bookkeeping *)
Lemma all_add_in p t x : In x (all (all_add p t)) <-> x = t \/ (In x (all p) /\ t_id x <> t_id t).
Proof.
  unfold all_add. cbn. rewrite filter_In. split.
  - intros [->|[H1 H2]]; auto. right. split; auto. apply negb_true_iff, N.eqb_neq in H2. auto.
  - intros [->|[H1 H2]]; auto. right. split; auto. apply negb_true_iff, N.eqb_neq. auto.
Qed.
Lemma all_add_nodup p t : NoDup (map t_id (all p)) -> NoDup (map t_id (all (all_add p t))).
Proof.
  intro N. unfold all_add. cbn. constructor.
  - intro Hin. apply in_map_iff in Hin as (x & Hx & Hin). apply filter_In in Hin as [_ Hin].
    apply negb_true_iff, N.eqb_neq in Hin. auto.
  - apply NoDup_map_filter. auto.
Qed.
Lemma all_get_none p id : all_get p id = None -> forall x, In x (all p) -> t_id x <> id.
Proof. unfold all_get. intros H x Hx E. eapply find_none in H; eauto. cbn in H. apply N.eqb_neq in H. auto. Qed.
Lemma all_get_some p id t : all_get p id = Some t -> In t (all p) /\ t_id t = id.
Proof. unfold all_get. intro H. apply find_some in H as [H1 H2]. apply N.eqb_eq in H2. auto. Qed.

(* ---- enqueueTx of a transaction that is not pooled ------------------------ *)
Lemma wf_enqueue_new p t :
  WF p -> ST p ->
  (forall x, In x (all p) -> t_id x <> t_id t) ->
  (forall x, In x (lst (pending p) (t_from t)) -> t_nonce x <> t_nonce t) ->
  let '(rep, e, p') := enqueue_tx p t in
  WF p' /\ ST p' /\ pending p' = pending p /\
  (e <> E_ok -> all p' = all p /\ forall b, lst (queue p') b = lst (queue p) b) /\
  (e = E_ok -> forall b x, In x (lst (queue p') b) <->
       (b = t_from t /\ x = t) \/ (In x (lst (queue p) b) /\ ~ (b = t_from t /\ t_nonce x = t_nonce t))) /\
  (forall x, In x (all p') -> x = t \/ In x (all p)).
Proof.
  intros W S Fr Np. unfold enqueue_tx. fold (qlist p (t_from t)).
  destruct (l_add (qlist p (t_from t)) t (price_bump (cfg p))) as [[ins old] q'] eqn:A.
  pose proof (l_add_spec _ _ _ _ _ _ A) as [A0 A1].
  assert (Sq : strict (qlist p (t_from t)) = false).
  { unfold qlist. destruct (aget (queue p) (t_from t)) eqn:G; auto. eapply S; eauto. }
  destruct ins; cbn [negb].
  - destruct (A1 eq_refl) as (Eo & Es & I). clear A0 A1.
    set (p1 := set_queue p (aset (queue p) (t_from t) q')).
    set (p2 := match old with Some o => all_remove p1 (t_id o) | None => p1 end).
    assert (Q : forall b x, In x (lst (queue p1) b) <->
       (b = t_from t /\ x = t) \/ (In x (lst (queue p) b) /\ ~ (b = t_from t /\ t_nonce x = t_nonce t))).
    { intros b x. unfold p1. cbn. rewrite lst_aset. eqb_cases (t_from t) b.
      - rewrite I, qlist_items. tauto.
      - split; [intro; right; split; auto; intros [H1 _]; congruence|]. intros [[H _]|[H _]]; auto. congruence. }
    assert (F2 : pending p2 = pending p /\ queue p2 = queue p1).
    { unfold p2. destruct old; cbn; auto. }
    destruct F2 as [F2 F3].
    assert (A2 : forall x, In x (all p2) <->
              In x (all p) /\ ~ (In x (lst (queue p) (t_from t)) /\ t_nonce x = t_nonce t)).
    { intro x. unfold p2. destruct old as [o|].
      - symmetry in Eo. apply sm_get_some in Eo as [O1 O2]. fold (litems (qlist p (t_from t))) in O1.
        rewrite qlist_items in O1. rewrite all_remove_in. cbn [all p1 set_queue].
        split; intros [H1 H2]; split; auto.
        + intros [H3 H4]. apply H2. f_equal. eapply uniq_inj; [apply (w_uq _ _ W)| | |]; eauto. congruence.
        + intro E. apply H2. assert (x = o) by (eapply ids_inj; [apply (w_ids _ _ W)| | |]; eauto; eapply w_qall; eauto).
          subst. auto.
      - cbn. split; [|tauto]. intro H. split; auto. intros [H1 H2].
        symmetry in Eo. eapply sm_get_none in Eo; eauto. fold (litems (qlist p (t_from t))). rewrite qlist_items. auto. }
    assert (G : all_get p2 (t_id t) = None).
    { unfold all_get. destruct (find _ (all p2)) eqn:E; auto. apply find_some in E as [E1 E2].
      apply A2 in E1 as [E1 _]. apply N.eqb_eq in E2. exfalso. eapply Fr; eauto. }
    replace (match old with Some o => all_remove (set_queue p (aset (queue p) (t_from t) q')) (t_id o)
                          | None => set_queue p (aset (queue p) (t_from t) q') end) with p2 by reflexivity.
    rewrite G.
    assert (WF (all_add p2 t)).
    { eapply (wf_insert_q p _ t); eauto.
      - intro b. cbn. rewrite F2. auto.
      - intros b x. cbn [queue all_add set_all]. rewrite F3. apply Q.
      - intro b. cbn [queue all_add set_all]. rewrite F3. unfold p1. cbn. rewrite lst_aset.
        eqb_cases (t_from t) b; [|apply (w_uq _ _ W)].
        eapply l_add_uniq; eauto. rewrite qlist_items. apply (w_uq _ _ W).
      - intro x. rewrite all_add_in, A2. split; [tauto|]. intros [->|[H1 H2]]; auto.
      - apply all_add_nodup. unfold p2. destruct old; cbn; [apply NoDup_map_filter|]; apply (w_ids _ _ W). }
    split; auto. split.
    { destruct S as [S1 S2]. split; cbn [queue pending all_add set_all]; rewrite ?F2, ?F3; auto.
      intros a l. unfold p1. cbn [queue set_queue]. rewrite aget_aset. eqb_cases (t_from t) a; eauto.
      intro H0. inversion H0; subst. congruence. }
    split; [cbn; auto|]. split; [intro H0; exfalso; apply H0; reflexivity|]. split.
    { intros _ b x. cbn [queue all_add set_all]. rewrite F3. apply Q. }
    intros x Hx. apply all_add_in in Hx as [->|[Hx _]]; auto. right. apply A2 in Hx. tauto.
  - destruct (A0 eq_refl) as [-> ->]. clear A0 A1.
    assert (K : forall b, lst (aset (queue p) (t_from t) (qlist p (t_from t))) b = lst (queue p) b).
    { intro b. rewrite lst_aset. eqb_cases (t_from t) b; auto. apply qlist_items. }
    split; [apply (wf_ext' [] p); cbn [pending queue all set_queue]; auto|]. split.
    { destruct S as [S1 S2]. split; cbn [queue pending set_queue]; auto. intros a l. rewrite aget_aset.
      eqb_cases (t_from t) a; eauto. intro H0. inversion H0; subst. auto. }
    split; [cbn; auto|]. split; [intros _; split; cbn; auto|]. split; [intro H0; discriminate|].
    cbn. auto.
Qed.

(* ---- removeTx -------------------------------------------------------------- *)
Lemma st_put_q p a l : ST p -> strict l = false -> ST (put_q p a l).
Proof.
  intros [S1 S2] H. split; cbn [queue pending put_q set_queue]; auto.
  intros b l0. rewrite aget_aset. eqb_cases a b; eauto. intro E. inversion E; subst; auto.
Qed.
Lemma st_put_p p a l : ST p -> strict l = true -> ST (put_p p a l).
Proof.
  intros [S1 S2] H. split; cbn [queue pending put_p set_pending]; auto.
  intros b l0. rewrite aget_aset. eqb_cases a b; eauto. intro E. inversion E; subst; auto.
Qed.
Lemma st_ext p p' : pending p' = pending p -> queue p' = queue p -> ST p -> ST p'.
Proof. intros E1 E2 [S1 S2]. split; rewrite ?E1, ?E2; auto. Qed.
Lemma st_del_q p a : ST p -> ST (set_queue p (adel (queue p) a)).
Proof.
  intros [S1 S2]. split; cbn [queue pending set_queue]; auto.
  intros b l. rewrite aget_adel. eqb_cases a b; eauto. discriminate.
Qed.
Lemma st_del_p p a : ST p -> ST (set_pending p (adel (pending p) a)).
Proof.
  intros [S1 S2]. split; cbn [queue pending set_pending]; auto.
  intros b l. rewrite aget_adel. eqb_cases a b; eauto. discriminate.
Qed.

Lemma st_enqueue p t : ST p -> ST (snd (enqueue_tx p t)).
Proof.
  intro S. unfold enqueue_tx. fold (qlist p (t_from t)).
  destruct (l_add (qlist p (t_from t)) t (price_bump (cfg p))) as [[ins old] q'] eqn:A.
  assert (Sq : strict q' = false).
  { assert (strict (qlist p (t_from t)) = false).
    { unfold qlist. destruct (aget (queue p) (t_from t)) eqn:G; auto. eapply S; eauto. }
    pose proof (l_add_spec _ _ _ _ _ _ A) as [A0 A1]. destruct ins.
    - destruct (A1 eq_refl) as (_ & Es & _). congruence.
    - destruct (A0 eq_refl) as [-> _]. auto. }
  assert (S1 : ST (set_queue p (aset (queue p) (t_from t) q'))) by (apply (st_put_q p); auto).
  destruct ins; cbn [negb snd]; auto.
  destruct old; [|destruct (all_get _ _); cbn; auto].
  destruct (all_get _ _); cbn; auto.
Qed.
Lemma st_enqueue_all l : forall p, ST p -> ST (enqueue_all p l).
Proof. unfold enqueue_all. induction l; intros p S; cbn; auto. apply IHl. apply st_enqueue. auto. Qed.

Lemma wf_remove_tx p id :
  WF p -> ST p ->
  WF (remove_tx p id) /\ ST (remove_tx p id) /\
  (forall x, In x (all (remove_tx p id)) -> In x (all p)).
Proof.
  intros W S. unfold remove_tx. destruct (all_get p id) as [t|] eqn:G; [|auto].
  apply all_get_some in G as [Tin Tid]. subst id.
  pose proof W as W0. dwf W0.
  destruct (Wco t Tin) as [Hp|[Hq|[]]].
  - (* t is pending *)
    unfold lst in Hp. cbn [pending all_remove set_all].
    destruct (aget (pending p) (t_from t)) as [pl|] eqn:GP; [|destruct Hp].
    destruct (l_remove pl t) as [[removed invalids] pl'] eqn:R.
    pose proof (l_remove_spec _ _ _ _ _ R) as (Rs & Rf & Rt).
    assert (Upl : uniq (litems pl)) by (specialize (Wup (t_from t)); rewrite (lst_some _ _ _ GP) in Wup; auto).
    destruct (l_remove_uniq _ _ _ _ _ Upl R) as [Ui Ul'].
    destruct removed.
    2:{ exfalso. destruct (Rf eq_refl) as (_ & _ & Rn). eapply Rn; eauto. }
    destruct (Rt eq_refl) as (_ & Rm & Rd & _ & _). clear Rf Rt.
    assert (W1 : WFx ((t :: invalids) ++ []) (put_p p (t_from t) pl')).
    { eapply wf_shrink_p; eauto.
      - intro x. cbn [In]. split.
        + intro Hx. destruct (N.eq_dec (t_nonce x) (t_nonce t)) as [E|E].
          * right. left. eapply (uniq_inj (litems pl)); eauto.
          * destruct (proj1 (Rm x) (conj Hx E)); auto.
        + intros [Hx|[<-|Hx]]; auto; apply Rm; auto.
      - intros x Hx [<-|Hi]; [|eapply Rd; eauto].
        assert (In t (litems pl) /\ t_nonce t <> t_nonce t) by (apply Rm; auto). tauto.
      - unfold uniq, nonces. cbn. constructor; auto. intro Hin. apply in_map_iff in Hin as (x & Hx & Hin).
        assert (In x (litems pl) /\ t_nonce x <> t_nonce t) by (apply Rm; auto). tauto. }
    cbn [app] in W1. rewrite app_nil_r in W1. apply wf_all_remove in W1.
    match goal with |- context [enqueue_all ?X invalids] => set (p2 := X) end.
    assert (W2 : WFx (invalids ++ []) p2 /\ ST p2 /\ all p2 = all (all_remove p (t_id t))).
    { rewrite app_nil_r. unfold p2. destruct (l_empty pl') eqn:Em.
      - apply l_empty_items in Em. split; [|split; [|reflexivity]].
        + eapply wf_ext'; [| | |apply W1]; cbn [pending queue all set_beats set_pending all_remove set_all put_p]; auto.
          intro b. rewrite lst_adel, lst_aset. eqb_cases (t_from t) b; auto.
        + apply (st_ext (set_pending p (adel (pending p) (t_from t)))); auto. apply st_del_p; auto.
      - split; [|split; [|reflexivity]].
        + eapply wf_ext; [| | |apply W1]; reflexivity.
        + apply (st_ext (put_p p (t_from t) pl')); auto. apply st_put_p; auto.
          rewrite Rs. eapply S; eauto. }
    destruct W2 as (W2 & S2 & A2).
    destruct (wf_enqueue_all _ _ _ W2) as (W3 & P3 & A3 & _).
    split; [eapply wf_ext; [| | |apply W3]; reflexivity|].
    split; [apply (st_ext (enqueue_all p2 invalids)); auto; apply st_enqueue_all; auto|].
    intros x. cbn [all set_pnonces]. rewrite A3, A2. intro Hx. apply all_remove_in in Hx. tauto.
  - (* t is queued *)
    unfold lst in Hq. cbn [pending queue all_remove set_all].
    destruct (aget (queue p) (t_from t)) as [ql|] eqn:GQ; [|destruct Hq].
    assert (NP : match aget (pending p) (t_from t) with
                 | None => None
                 | Some pl => let '(removed, invalids, pl') := l_remove pl t in
                              if removed then Some (invalids, pl') else None
                 end = None).
    { destruct (aget (pending p) (t_from t)) as [pl|] eqn:GP; auto.
      destruct (l_remove pl t) as [[removed invalids] pl'] eqn:R.
      pose proof (l_remove_spec _ _ _ _ _ R) as (_ & _ & Rt). destruct removed; auto.
      destruct (Rt eq_refl) as ((x & Hx & Hn) & _). exfalso.
      eapply (Wdpq (t_from t) x t); eauto; rewrite ?(lst_some _ _ _ GP), ?(lst_some _ _ _ GQ); auto. }
    rewrite NP.
    destruct (l_remove ql t) as [[ok inv] ql'] eqn:R.
    pose proof (l_remove_spec _ _ _ _ _ R) as (Rs & Rf & Rt).
    assert (Uql : uniq (litems ql)) by (specialize (Wuq (t_from t)); rewrite (lst_some _ _ _ GQ) in Wuq; auto).
    destruct (l_remove_uniq _ _ _ _ _ Uql R) as [Ui Ul'].
    destruct ok.
    2:{ exfalso. destruct (Rf eq_refl) as (_ & _ & Rn). eapply Rn; eauto. }
    destruct (Rt eq_refl) as (_ & Rm & Rd & Rns & _). clear Rf Rt.
    assert (inv = []) by (apply Rns; eapply S; eauto). subst inv.
    assert (W1 : WFx ([t] ++ []) (put_q p (t_from t) ql')).
    { eapply wf_shrink_q; eauto.
      - intro x. cbn [In]. split.
        + intro Hx. destruct (N.eq_dec (t_nonce x) (t_nonce t)) as [E|E].
          * right. left. eapply (uniq_inj (litems ql)); eauto.
          * destruct (proj1 (Rm x) (conj Hx E)) as [|[]]; auto.
        + intros [Hx|[<-|[]]]; auto; apply Rm; auto.
      - intros x Hx [<-|[]].
        assert (In t (litems ql) /\ t_nonce t <> t_nonce t) by (apply Rm; auto). tauto.
      - unfold uniq, nonces. cbn. constructor; auto; constructor. }
    cbn [app] in W1. apply wf_all_remove in W1.
    destruct (l_empty ql') eqn:Em.
    + apply l_empty_items in Em. split; [|split].
      * eapply wf_ext'; [| | |apply W1]; cbn [pending queue all set_queue all_remove set_all put_q]; auto.
        intro b. rewrite lst_adel, lst_aset. eqb_cases (t_from t) b; auto.
      * apply (st_ext (set_queue p (adel (queue p) (t_from t)))); auto. apply st_del_q; auto.
      * intros x Hx. cbn in Hx. apply filter_In in Hx. tauto.
    + split; [|split].
      * eapply wf_ext; [| | |apply W1]; reflexivity.
      * apply (st_ext (put_q p (t_from t) ql')); auto. apply st_put_q; auto. rewrite Rs. eapply S; eauto.
      * intros x Hx. cbn in Hx. apply filter_In in Hx. tauto.
Qed.

Lemma wf_remove_txs l : forall p,
  WF p -> ST p ->
  WF (remove_txs p l) /\ ST (remove_txs p l) /\ (forall x, In x (all (remove_txs p l)) -> In x (all p)).
Proof.
  unfold remove_txs. induction l as [|t r IH]; intros p W S; cbn [fold_left]; auto.
  destruct (wf_remove_tx p (t_id t) W S) as (W1 & S1 & A1).
  destruct (IH _ W1 S1) as (W2 & S2 & A2). auto.
Qed.

(* ---- add / addTxsLocked ---------------------------------------------------- *)
Lemma wf_replace_pending p t l l' o :
  WF p -> ST p ->
  (forall x, In x (all p) -> t_id x <> t_id t) ->
  aget (pending p) (t_from t) = Some l ->
  l_add l t (price_bump (cfg p)) = (true, Some o, l') ->
  WF (all_add (all_remove (set_pending p (aset (pending p) (t_from t) l')) (t_id o)) t) /\
  ST (all_add (all_remove (set_pending p (aset (pending p) (t_from t) l')) (t_id o)) t).
Proof.
  intros W S Fr G A. pose proof W as W0. dwf W0.
  pose proof (l_add_spec _ _ _ _ _ _ A) as [_ A1]. destruct (A1 eq_refl) as (Eo & Es & I). clear A1.
  symmetry in Eo. apply sm_get_some in Eo as [O1 O2]. fold (litems l) in O1.
  pose proof (lst_some _ _ _ G) as L.
  split.
  - eapply (wf_insert_p p _ t); eauto.
    + intros x Hx E. eapply (Wdpq (t_from t) o x); eauto; [rewrite L; auto|congruence].
    + intros b x. cbn [pending all_add all_remove set_all set_pending]. rewrite lst_aset.
      eqb_cases (t_from t) b.
      * rewrite I, L. tauto.
      * split; [intro; right; split; auto; intros [H1 _]; congruence|]. intros [[H _]|[H _]]; auto. congruence.
    + intro b. cbn [pending all_add all_remove set_all set_pending]. rewrite lst_aset.
      eqb_cases (t_from t) b; auto. eapply l_add_uniq; eauto. rewrite <- L. auto.
    + intro x. rewrite all_add_in, all_remove_in. cbn [all set_pending]. split.
      * intros [->|[[H1 H2] H3]]; auto. right. split; auto. intros [H4 H5]. apply H2. f_equal.
        eapply (uniq_inj (lst (pending p) (t_from t))); eauto; [rewrite L; auto|congruence].
      * intros [->|[H1 H2]]; auto. right. split; [split; auto|auto].
        intro E. apply H2. assert (x = o) by (eapply ids_inj; eauto; eapply Wpa; rewrite L; eauto).
        subst. rewrite L. auto.
    + apply all_add_nodup. cbn. apply NoDup_map_filter. auto.
  - apply (st_ext (put_p p (t_from t) l')); auto. apply st_put_p; auto. rewrite Es. eapply S; eauto.
Qed.

Lemma wf_add_tx p t local :
  WF p -> ST p ->
  let '(rep, e, p') := add_tx p t local in
  WF p' /\ ST p' /\ (forall x, In x (all p') -> x = t \/ In x (all p)).
Proof.
  intros W S. unfold add_tx.
  destruct (all_get p (t_id t)) eqn:G; [auto|].
  pose proof (all_get_none _ _ G) as Fr.
  destruct (negb (N.eqb (validate_tx p t local) E_ok)); [auto|].
  set (limit := global_slots (cfg p) + global_queue (cfg p)).
  set (full := N.leb limit (all_count p)).
  destruct (full && negb local && priced_underpriced p t); [auto|].
  set (p1 := if full then remove_txs p (priced_discard p (all_count p - (limit - 1))) else p).
  assert (H1 : WF p1 /\ ST p1 /\ (forall x, In x (all p1) -> In x (all p))).
  { unfold p1. destruct full; auto. apply wf_remove_txs; auto. }
  destruct H1 as (W1 & S1 & A1).
  assert (Fr1 : forall x, In x (all p1) -> t_id x <> t_id t) by (intros x Hx; apply Fr; auto).
  destruct (match aget (pending p1) (t_from t) with
            | Some l => if l_overlaps l t then Some l else None
            | None => None end) as [l|] eqn:OV.
  - destruct (aget (pending p1) (t_from t)) as [l0|] eqn:GP; [|discriminate].
    destruct (l_overlaps l0 t) eqn:O; [|discriminate]. inversion OV; subst l0. clear OV.
    destruct (l_add l t (price_bump (cfg p1))) as [[ins old] l'] eqn:A.
    destruct ins; cbn [negb].
    + pose proof (l_add_spec _ _ _ _ _ _ A) as [_ A2]. destruct (A2 eq_refl) as (Eo & _ & _).
      unfold l_overlaps in O. destruct (sm_get (txs l) (t_nonce t)) as [o|] eqn:GO; [|discriminate].
      subst old.
      destruct (wf_replace_pending p1 t l l' o W1 S1 Fr1 GP A) as [W2 S2].
      split; auto. split; auto.
      intros x Hx. apply all_add_in in Hx as [->|[Hx _]]; auto. apply all_remove_in in Hx as [Hx _].
      right. apply A1. auto.
    + split; auto.
  - assert (Np : forall x, In x (lst (pending p1) (t_from t)) -> t_nonce x <> t_nonce t).
    { unfold lst. destruct (aget (pending p1) (t_from t)) as [l0|] eqn:GP; [|intros x []].
      destruct (l_overlaps l0 t) eqn:O; [discriminate|]. unfold l_overlaps in O.
      destruct (sm_get (txs l0) (t_nonce t)) eqn:GO; [discriminate|]. intros x Hx. eapply sm_get_none; eauto. }
    pose proof (wf_enqueue_new p1 t W1 S1 Fr1 Np) as H.
    destruct (enqueue_tx p1 t) as [[replaced e] p2].
    destruct H as (W2 & S2 & P2 & _ & _ & A2).
    destruct (negb (N.eqb e E_ok)).
    + split; auto. split; auto. intros x Hx. destruct (A2 x Hx); auto.
    + assert (K : forall p3, pending p3 = pending p2 -> queue p3 = queue p2 -> all p3 = all p2 ->
                    WF p3 /\ ST p3 /\ (forall x, In x (all p3) -> x = t \/ In x (all p))).
      { intros p3 E1 E2 E3. split; [eapply wf_ext; eauto|]. split; [eapply st_ext; eauto|].
        rewrite E3. intros x Hx. destruct (A2 x Hx); auto. }
      destruct (local && negb (is_local p2 (t_from t))); apply K; reflexivity.
Qed.

Lemma wf_add_txs_locked l local : forall p,
  WF p -> ST p ->
  let '(errs, dirty, p') := add_txs_locked p l local in WF p' /\ ST p'.
Proof.
  induction l as [|t r IH]; intros p W S; cbn [add_txs_locked]; auto.
  pose proof (wf_add_tx p t local W S) as H.
  destruct (add_tx p t local) as [[replaced e] p1]. destruct H as (W1 & S1 & _).
  specialize (IH p1 W1 S1). destruct (add_txs_locked p1 r local) as [[errs dirty] p2]. auto.
Qed.
