(* C20 - the lemmas Properties.v closes its theorems with. *)
From VF.C20 Require Import Model Spec Lemmas ProofsWF ProofsWF2 ProofsWF3 ProofsCaps ProofsNonce ProofsNonce2 ProofsNonce3 ProofsNonce4 ProofsNonce5 ProofsTotal ProofsLocals ProofsSched.
From Coq Require Import Lia ZifyBool ZifyN ZifyNat.
Local Open Scope N_scope.

Lemma held_lst m a : held m a = lst m a.
Proof. reflexivity. Qed.

Lemma views_partition_of_ws p : WS p -> views_partition p.
Proof.
  intros [W _]. destruct W as [Wpf Wqf Wpa Wqa Wfa Wco Wid Wup Wuq Wdpq Wfnd Wff Wfp Wfq].
  unfold views_partition.
  split; [|split; [|split; [|split]]]; auto.
  - intros t Ht. destruct (Wco t Ht) as [|[|[]]]; auto.
  - intros a t [H|H]; split; eauto.
  - intro a. split; [apply Wup|apply Wuq].
Qed.

Lemma partition_all_histories c g ops : views_partition (run (new_pool c g) ops).
Proof. apply views_partition_of_ws, ws_run, ws_new_pool. Qed.

Lemma never_pending_and_queued c g ops a t :
  let p := run (new_pool c g) ops in
  ~ (In t (held (pending p) a) /\ In t (held (queue p) a)).
Proof.
  intros p [H1 H2]. destruct (partition_all_histories c g ops) as (_ & _ & D & _).
  eapply D; eauto.
Qed.

(* the faithful model of the code as it is violates clause 2 *)
Lemma gapfree_refuted :
  ~ (forall c g ops, pending_gapfree (run (new_pool c g) ops)).
Proof.
  intro H. specialize (H (ex_cfg false) ex_genesis ex_ops 0 ex_t5 4).
  destruct H as (t' & Hin & Hn).
  - vm_compute. auto.
  - vm_compute. split; [discriminate|reflexivity].
  - vm_compute in Hin. repeat (destruct Hin as [<-|Hin]; [vm_compute in Hn; discriminate|]). destruct Hin.
Qed.

(* ---- state-relative clauses -------------------------------------------------- *)
Lemma pooled_valid_all_histories c g ops : pooled_valid (run (new_pool c g) ops).
Proof.
  intros t Ht. pose proof (val_run ops (new_pool c g) (sc_new_pool c g) (ni_val _ (ni_new_pool c g)) t Ht) as H.
  exact H.
Qed.

Lemma ni_all_histories c g ops :
  gapfix c = true \/ gap_seen (run (new_pool c g) ops) = false -> NI (run (new_pool c g) ops).
Proof.
  intro H. apply ni_run; [apply sc_new_pool|apply ni_new_pool|].
  destruct (fr_reset (mkPool c (price_limit c) [] (mkNoncer [] []) 0 (cfg_locals c) [] [] [] [] 1 [g] false false) None (b_hdr g)) as [Ec _].
  unfold new_pool. rewrite Ec. exact H.
Qed.

Definition state_clauses (p : pool) : Prop := pending_gapfree p /\ queued_above p /\ pool_nonce_sound p.

Lemma state_clauses_of_ni p : WS p -> NI p -> state_clauses p.
Proof.
  intros [W _] [V G N _]. split; [|split].
  - intros a t m Ht Hm. exact (G a t m Ht Hm).
  - intros a t t' Ht Ht'.
    assert (Hq : sn p a <= t_nonce t').
    { assert (O : okv p t') by (apply V; eapply (w_qall _ _ W); eauto).
      destruct O as [O _]. rewrite (w_qfrom _ _ W _ _ Ht') in O. exact O. }
    destruct (N.ltb (t_nonce t) (t_nonce t')) eqn:E; [lia|]. exfalso.
    destruct (N.eq_dec (t_nonce t') (t_nonce t)) as [En|En].
    + eapply (w_dpq _ _ W a t t'); eauto.
    + destruct (G a t (t_nonce t') Ht) as (x & Hx & Ex); [lia|]. eapply (w_dpq _ _ W a x t'); eauto.
  - intros a m Hm. exact (N a m Hm).
Qed.

Lemma gapfree_holds_outside c g ops :
  gap_seen (run (new_pool c g) ops) = false -> state_clauses (run (new_pool c g) ops).
Proof.
  intro H. apply state_clauses_of_ni; [apply ws_run, ws_new_pool|apply ni_all_histories; auto].
Qed.

Lemma gapfree_repaired c g ops :
  gapfix c = true -> state_clauses (run (new_pool c g) ops).
Proof.
  intro H. apply state_clauses_of_ni; [apply ws_run, ws_new_pool|apply ni_all_histories; auto].
Qed.

(* ---- Pending() ---------------------------------------------------------------- *)
Lemma pending_view_exact p : SC p -> pending_api_exact p.
Proof.
  intro S. unfold pending_api_exact, pending_view.
  assert (K : forall keys out q, SC q -> (forall b, lst (pending q) b = lst (pending p) b) ->
     let r := fold_left (fun acc a =>
               let '(out, p) := acc in
               match aget (pending p) a with
               | None => (out, p)
               | Some l => let '(flat, l') := l_flatten l in
                           (out ++ [(a, flat)], set_pending p (aset (pending p) a l'))
               end) keys (out, q) in
     (forall a flat, In (a, flat) (fst r) -> In (a, flat) out \/ flat = sort_nonce (lst (pending p) a)) /\
     (forall a, (In a keys /\ lst (pending p) a <> []) \/ (exists flat, In (a, flat) out) -> exists flat, In (a, flat) (fst r))).
  { induction keys as [|k r IH]; intros out q Sq Eq; cbn [fold_left].
    - cbn. split; [auto|]. intros a [[[] _]|H]; auto.
    - destruct (aget (pending q) k) as [l|] eqn:G.
      + destruct (l_flatten l) as [flat l'] eqn:F.
        destruct (capok_flatten _ _ _ F (proj1 (proj2 Sq) _ _ G)) as [_ Hf].
        destruct (l_flatten_items _ _ _ F) as (I & _).
        assert (Lk : lst (pending q) k = litems l) by (apply lst_some; auto).
        destruct (IH (out ++ [(k, flat)]) (set_pending q (aset (pending q) k l'))) as [H1 H2].
        * eapply (sc_flatten_p q); eauto.
        * intro b. cbn [pending set_pending]. rewrite lst_aset. destruct (N.eqb k b) eqn:E; auto.
          apply N.eqb_eq in E. subst b. rewrite I, <- Lk. auto.
        * cbn zeta in *. split.
          -- intros a fl Hin. destruct (H1 a fl Hin) as [H|H]; auto.
             apply in_app_or in H as [H|[H|[]]]; auto. inversion H; subst. right. rewrite <- Eq, Lk. auto.
          -- intros a [[[->|Ha] Hne]|(fl & Hfl)]; apply H2.
             ++ right. exists flat. apply in_or_app. right. left. auto.
             ++ left. auto.
             ++ right. exists fl. apply in_or_app. auto.
      + destruct (IH out q Sq Eq) as [H1 H2]. cbn zeta in *. split; auto.
        intros a [[[->|Ha] Hne]|H]; apply H2; auto.
        exfalso. apply Hne. rewrite <- Eq. unfold lst. rewrite G. auto. }
  destruct (K (akeys (pending p)) [] p S (fun b => eq_refl)) as [H1 H2]. cbn zeta in *. split.
  - intros a flat Hin. destruct (H1 a flat Hin) as [[]|H]. exact H.
  - intros a Hne. apply H2. left. split; auto.
    unfold held in Hne. destruct (aget (pending p) a) eqn:G; [|congruence]. eapply aget_in_keys; eauto.
Qed.

Lemma pending_api_all_histories c g ops : pending_api_exact (run (new_pool c g) ops).
Proof. apply pending_view_exact, sc_run, sc_new_pool. Qed.

(* ---- totality and limits -------------------------------------------------------- *)
Lemma never_panics_all_histories c g ops :
  1 <= account_slots c -> panicked (run (new_pool c g) ops) = false.
Proof. apply never_panics. Qed.

Lemma cfg_after_reorg c g ops rs dirty ord :
  cfg (run_reorg (run (new_pool c g) ops) rs dirty ord) = c.
Proof.
  destruct (fr_run_reorg (run (new_pool c g) ops) rs dirty ord) as [E1 _].
  destruct (fr_run ops (new_pool c g)) as [E2 _]. destruct (total_new_pool c g) as (_ & _ & E3). congruence.
Qed.

Lemma limits_all_histories c g ops rs dirty ord :
  1 <= account_slots c ->
  limits_respected c (run_reorg (run (new_pool c g) ops) rs dirty ord).
Proof.
  intro H. pose proof (limits_hold c g ops rs dirty ord H) as L. unfold limits_after_reorg in L.
  rewrite (cfg_after_reorg c g ops rs dirty ord) in L. exact L.
Qed.

Lemma account_queue_all_histories c g ops d ord :
  1 <= account_slots c ->
  let p' := run_reorg (run (new_pool c g) ops) None (Some d) ord in
  forall a, In a d -> is_local p' a = false -> queue_len p' a <= account_queue c.
Proof. intro H. exact (account_queue_holds c g ops d ord H). Qed.

Lemma accepted_is_pooled c g ops t local rep p' :
  add_tx (run (new_pool c g) ops) t local = (rep, E_ok, p') ->
  In t (all p') /\ (In t (held (pending p') (t_from t)) \/ In t (held (queue p') (t_from t))).
Proof. intro H. eapply add_ok_is_pooled; eauto. apply ws_run, ws_new_pool. Qed.

(* ---- locals -------------------------------------------------------------------- *)
Lemma locals_all_histories c g ops a :
  In a (locals (run (new_pool c g) ops)) ->
  In a (cfg_locals c) \/
  exists pre o post, ops = pre ++ o :: post /\ In a (local_accepts (run (new_pool c g) pre) o).
Proof.
  intro H. destruct (locals_only_from_accepted ops (new_pool c g) a H) as [H1|H1]; auto.
  left. apply (locals_new_pool c g). exact H1.
Qed.

(* ---- coalesced head changes ------------------------------------------------------- *)
Lemma merged_resets_all_histories c g ops rs ord n s re :
  let p := run (new_pool c g) ops in
  last_reset rs = Some n -> h_state n = Some s -> reset_reinject (chain p) (first_old rs) n = Some re ->
  run_merged p rs ord = run_reorg p (Some (first_old rs, n)) (s_dirty (merge_all rs)) ord /\
  cur_state (run_merged p rs ord) = s /\ max_gas (run_merged p rs ord) = h_gaslimit n.
Proof. cbn zeta. apply merged_resets_equal_last_head. Qed.
