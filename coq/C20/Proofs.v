(* C20 - the lemmas Properties.v closes its theorems with. *)
From VF.C20 Require Import Model Spec Lemmas ProofsWF ProofsWF2 ProofsWF3.
Local Open Scope N_scope.

Lemma held_lst m a : held m a = lst m a.
Proof. reflexivity. Qed.

Lemma views_partition_of_ws p : WS p -> views_partition p.
Proof.
  intros [W _]. destruct W as [Wpf Wqf Wpa Wqa Wfa Wco Wid Wup Wuq Wdpq Wfnd Wff Wfp Wfq].
  unfold views_partition.
  split; [|split; [|split; [|split]]]; auto.
  - intros t Ht. destruct (Wco t Ht) as [|[|[]]]; auto.
  - intros a t [H|H]; split; eauto.
  - intro a. split; [apply Wup|apply Wuq].
Qed.

Lemma partition_all_histories c g ops : views_partition (run (new_pool c g) ops).
Proof. apply views_partition_of_ws, ws_run, ws_new_pool. Qed.

Lemma never_pending_and_queued c g ops a t :
  let p := run (new_pool c g) ops in
  ~ (In t (held (pending p) a) /\ In t (held (queue p) a)).
Proof.
  intros p [H1 H2]. destruct (partition_all_histories c g ops) as (_ & _ & D & _).
  eapply D; eauto.
Qed.

(* the faithful model of the code as it is violates clause 2 *)
Lemma gapfree_refuted :
  ~ (forall c g ops, pending_gapfree (run (new_pool c g) ops)).
Proof.
  intro H. specialize (H (ex_cfg false) ex_genesis ex_ops 0 ex_t5 4).
  destruct H as (t' & Hin & Hn).
  - vm_compute. auto.
  - vm_compute. split; [discriminate|reflexivity].
  - vm_compute in Hin. repeat (destruct Hin as [<-|Hin]; [vm_compute in Hn; discriminate|]). destruct Hin.
Qed.
