(* C20 - property theorems only.  Each is closed by [exact] of a lemma of the
   proof files and followed by Print Assumptions. *)
From VF.C20 Require Import Model Spec Proofs Bridge.
From VF.gen Require Import C20Locks.
Local Open Scope N_scope.

(* for every configuration, every genesis and every sequence of critical
   sections (any argument values, any scheduler choices [ord]) *)
Theorem C20_views_partition :
  forall (c : config) (genesis : block) (ops : list op), views_partition (run (new_pool c genesis) ops).
Proof. exact partition_all_histories. Qed.
Print Assumptions C20_views_partition.

(* in particular no transaction is both pending and queued *)
Theorem C20_never_pending_and_queued :
  forall c genesis ops a t,
    let p := run (new_pool c genesis) ops in
    ~ (In t (held (pending p) a) /\ In t (held (queue p) a)).
Proof. exact never_pending_and_queued. Qed.
Print Assumptions C20_never_pending_and_queued.

(* Clause 2 (pending lists are gap-free from the account nonce) did NOT hold
   for demoteUnexecutables as it was before commit c78f52f (model: gapfix =
   false): finding pending-gap-after-partial-reinject
   (fixes/C20_pending_gap_after_partial_reinject.md); witness [ex_ops] of Spec.v *)
Theorem C20_pending_gapfree_refuted :
  ~ (forall c genesis ops, pending_gapfree (run (new_pool c genesis) ops)).
Proof. exact gapfree_refuted. Qed.
Print Assumptions C20_pending_gapfree_refuted.

(* Clause 3, for the old and the repaired code alike: at all
   times every pooled transaction - pending or queued - is not stale,
   affordable from the sender's balance and within the block gas limit of the
   head the pool works on. *)
Theorem C20_pooled_valid :
  forall c genesis ops, pooled_valid (run (new_pool c genesis) ops).
Proof. exact pooled_valid_all_histories. Qed.
Print Assumptions C20_pooled_valid.

(* For the code before the repair (any gapfix): clauses 2, 4, 5 hold for every
   history in which the ghost flag stays down,
   i.e. in which demoteUnexecutables never leaves a pending list that has its
   front (the account nonce) but a hole further up - the one code location of
   the listed finding.  Any other way of producing a gap, a queued transaction
   below a pending one, or a pool nonce that runs ahead would contradict this
   theorem. *)
Theorem C20_pending_gapfree_holds_outside :
  forall c genesis ops,
    gap_seen (run (new_pool c genesis) ops) = false ->
    let p := run (new_pool c genesis) ops in
    pending_gapfree p /\ queued_above p /\ pool_nonce_sound p.
Proof. exact gapfree_holds_outside. Qed.
Print Assumptions C20_pending_gapfree_holds_outside.

(* ... and unconditionally for the repaired demoteUnexecutables that is now in
   /repo (commit c78f52f = the model's gapfix branch; the harness checks on
   every run that the working tree behaves as that branch) *)
Theorem C20_state_clauses_after_repair :
  forall c genesis ops,
    gapfix c = true ->
    let p := run (new_pool c genesis) ops in
    pending_gapfree p /\ queued_above p /\ pool_nonce_sound p.
Proof. exact gapfree_repaired. Qed.
Print Assumptions C20_state_clauses_after_repair.

(* Clause 6: what Pending() hands to the block builder is exactly the pending view *)
Theorem C20_pending_api_exact :
  forall c genesis ops, pending_api_exact (run (new_pool c genesis) ops).
Proof. exact pending_api_all_histories. Qed.
Print Assumptions C20_pending_api_exact.

(* Totality: from a pool built by NewTxPool with a sanitised configuration
   (AccountSlots >= 1) no history ever takes a branch where the Go code would
   panic (nil or empty list in truncatePending / truncateQueue, the
   txs[len(txs)-1] of runReorg's tail).  With it, every theorem of this file is a
   total-correctness statement about the pool's critical sections.
   (Not covered: reset called with a *new* head the chain does not know, where Go
   dereferences nil - ruled out by the blockChain contract, never done by the harness.) *)
Theorem C20_never_panics :
  forall c genesis ops, 1 <= account_slots c -> panicked (run (new_pool c genesis) ops) = false.
Proof. exact never_panics_all_histories. Qed.
Print Assumptions C20_never_panics.

(* Clause 7 (limits): at the end of every runReorg critical section - any
   reset, any dirty set, any scheduler order, after any history, old or repaired
   code - the limits hold exactly as the code defines them. *)
Theorem C20_limits_after_every_reorg :
  forall c genesis ops rs dirty ord,
    1 <= account_slots c ->
    limits_respected c (run_reorg (run (new_pool c genesis) ops) rs dirty ord).
Proof. exact limits_all_histories. Qed.
Print Assumptions C20_limits_after_every_reorg.

(* ... and after the reorg run that follows a submission (no reset in it), every
   remote account it promoted queues at most AccountQueue transactions.  (After a
   reset the code gives no such bound: demoteUnexecutables re-queues without capping.) *)
Theorem C20_account_queue_after_submission :
  forall c genesis ops d ord,
    1 <= account_slots c ->
    let p' := run_reorg (run (new_pool c genesis) ops) None (Some d) ord in
    forall a, In a d -> is_local p' a = false -> queue_len p' a <= account_queue c.
Proof. exact account_queue_all_histories. Qed.
Print Assumptions C20_account_queue_after_submission.

(* a transaction that add accepts (error nil) is pooled: in the lookup and in
   exactly one view - this is what reset relies on when it re-injects the
   transactions of abandoned blocks through addTxsLocked *)
Theorem C20_accepted_is_pooled :
  forall c genesis ops t local rep p',
    add_tx (run (new_pool c genesis) ops) t local = (rep, E_ok, p') ->
    In t (all p') /\ (In t (held (pending p') (t_from t)) \/ In t (held (queue p') (t_from t))).
Proof. exact accepted_is_pooled. Qed.
Print Assumptions C20_accepted_is_pooled.

(* Clause 8: whatever the history, an account is in the pool's local set only
   if the configuration named it or one of its submissions flagged local was
   accepted (error nil) by some earlier op - a rejected local submission
   (replacement underpriced, nonce too low, insufficient funds, gas limit,
   oversized, ...) never makes its sender exempt from the limits. *)
Theorem C20_locals_only_from_accepted_local_submissions :
  forall c genesis ops a,
    In a (locals (run (new_pool c genesis) ops)) ->
    In a (cfg_locals c) \/
    exists pre o post, ops = pre ++ o :: post /\ In a (local_accepts (run (new_pool c genesis) pre) o).
Proof. exact locals_all_histories. Qed.
Print Assumptions C20_locals_only_from_accepted_local_submissions.

(* Clause 9: head changes that the scheduler coalesces while a run is in flight.
   Whatever requests are merged (resets to higher heads, to same-height siblings,
   to lower heights; promotion requests in between), the run launched for them is
   the reset from the first request's old head to the LAST request's new head
   with the union of the dirty sets, and - when that reset takes effect - the pool
   ends on the state and gas limit of that last head.  Being a runReorg with some
   arguments, the merged run also enjoys every theorem above (partition, validity
   against cur_state, gap-freeness, limits, no panic). *)
Theorem C20_merged_resets_equal_last_head :
  forall c genesis ops rs ord n s re,
    let p := run (new_pool c genesis) ops in
    last_reset rs = Some n -> h_state n = Some s -> reset_reinject (chain p) (first_old rs) n = Some re ->
    run_merged p rs ord = run_reorg p (Some (first_old rs, n)) (s_dirty (merge_all rs)) ord /\
    cur_state (run_merged p rs ord) = s /\ max_gas (run_merged p rs ord) = h_gaslimit n.
Proof. exact merged_resets_all_histories. Qed.
Print Assumptions C20_merged_resets_equal_last_head.

(* Data-race clause (partial): on the method table regenerated from
   core/tx_pool.go, every entry point of TxPool (exported method or goroutine
   body) touches the shared fields only inside
   a pool.mu critical section, i.e. every concurrent execution is an
   interleaving of the critical sections that are the model's ops
   (known_unlocked_entries is empty since commit 94b8c45). *)
Theorem C20_lock_discipline :
  forall e, In e c20_methods -> is_entry e = true ->
            needs_lock (List.length c20_methods) c20_methods e = false \/ In (e_name e) known_unlocked_entries.
Proof. exact lock_discipline_forall. Qed.
Print Assumptions C20_lock_discipline.

(* ... and no region that holds only pool.mu.RLock (several holders at once)
   writes shared pool state, directly or through a call (lazy Flatten cache,
   heaps, sorts included) *)
Theorem C20_read_regions_do_not_write :
  forall name w cs, In (name, w, cs) c20_read_regions ->
    w = false /\ forall c, In c cs -> may_write (List.length c20_funcs) c20_funcs c = false \/ In (name, c) pinned_read_exceptions.
Proof. exact read_regions_forall. Qed.
Print Assumptions C20_read_regions_do_not_write.

(* the eviction branch of TxPool.loop still has the body the hook replicates *)
Theorem C20_evict_branch_as_modelled : c20_evict_branch_as_modelled = true.
Proof. exact evict_branch_as_modelled. Qed.
Print Assumptions C20_evict_branch_as_modelled.

(* scheduleReorgLoop merges requests as Model.sched_merge says (source fingerprint
   regenerated by the translator at every check): keep the first reset request,
   overwrite its new head with every later one, unite the promotion sets *)
Theorem C20_scheduler_merge_as_modelled : c20_sched_merge_as_modelled = true.
Proof. exact sched_merge_as_modelled. Qed.
Print Assumptions C20_scheduler_merge_as_modelled.

(* ---- non-vacuity ------------------------------------------------------------ *)
Example C20_nonvacuous_partition :
  let p := run (new_pool (ex_cfg false) ex_genesis) ex_ops in
  map t_id (all p) <> [] /\ map t_id (sort_nonce (held (pending p) 0)) = [0; 2; 3; 4] /\
  map t_id (held (pending p) 1) = [5] /\ map t_id (held (queue p) 1) = [6] /\ panicked p = false.
Proof. vm_compute. repeat split. discriminate. Qed.
Print Assumptions C20_nonvacuous_partition.

(* the same history on the repaired code: nonce 3 pending, 5,6,7 back in the
   queue; the ghost flag tells the two apart *)
Example C20_nonvacuous_repair :
  let p := run (new_pool (ex_cfg true) ex_genesis) ex_ops in
  map t_id (sort_nonce (held (pending p) 0)) = [0] /\ map t_id (sort_nonce (held (queue p) 0)) = [2; 3; 4] /\
  gap_seen p = false /\ gap_seen (run (new_pool (ex_cfg false) ex_genesis) ex_ops) = true.
Proof. vm_compute. repeat split. Qed.
Print Assumptions C20_nonvacuous_repair.

(* the hypothesis of C20_pending_gapfree_holds_outside is met by a non-trivial
   reachable state of the unrepaired model (head change, 5 submissions, a gapped one) *)
Example C20_nonvacuous_holds_outside :
  let p := run (new_pool (ex_cfg false) ex_genesis) (firstn 3 ex_ops) in
  gap_seen p = false /\ map t_nonce (sort_nonce (held (pending p) 0)) = [5; 6; 7] /\
  nc_get (pnonces p) 0 = 8 /\ st_nonce (cur_state p) 0 = 5 /\
  map t_nonce (held (queue p) 1) = [2] /\
  fst (pending_view p) <> [].
Proof. vm_compute. repeat split. discriminate. Qed.
Print Assumptions C20_nonvacuous_holds_outside.

(* the limits bite: 5 submissions of one remote account against GlobalSlots 2 /
   AccountSlots 1 leave 2 pending, nothing panics, 3 transactions are dropped *)
Definition ex_small : config := mkCfg 1 10 1 2 1 1 false [] true.
Example C20_nonvacuous_limits :
  let p := run (new_pool ex_small ex_genesis)
               [OAdd [ex_tx 10 1 0 9 0; ex_tx 11 1 1 9 0; ex_tx 12 1 2 9 0; ex_tx 13 1 3 9 0; ex_tx 14 1 4 9 0] false [0; 1]] in
  pending_count p = 2 /\ pend_len p 1 = 2 /\ queued_count p = 0 /\ panicked p = false /\ length (all p) = 2%nat.
Proof. vm_compute. repeat split. Qed.
Print Assumptions C20_nonvacuous_limits.

(* a burst A->B, B->B2 (B2 a same-height sibling of B) merges into the reset A->B2 *)
Example C20_nonvacuous_merge :
  s_reset (merge_all [RReset (Some (b_hdr ex_genesis)) ex_hA; RPromote [1]; RReset (Some ex_hA) ex_hB; RPromote [0]])
    = Some (Some (b_hdr ex_genesis), ex_hB) /\
  s_dirty (merge_all [RReset (Some (b_hdr ex_genesis)) ex_hA; RPromote [1]; RReset (Some ex_hA) ex_hB; RPromote [0]]) = Some [1; 0] /\
  h_num ex_hA = h_num ex_hB.
Proof. vm_compute. repeat split. Qed.
Print Assumptions C20_nonvacuous_merge.
