From VF.C20 Require Import Model.
Local Open Scope N_scope.
Example C20_nonvacuous_run : True.
Proof. exact I. Qed.
Print Assumptions C20_nonvacuous_run.
